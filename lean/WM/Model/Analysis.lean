/-
Executable mirror of the part of `whoosh.analysis` that C17 reasons about, of the position /
character recording of `whoosh.formats` and of `highlight.Formatter.format_fragment`:

* `analysis/tokenizers.py`: `RegexTokenizer.__call__` (non-gaps `finditer` branch) for the three
  shipped expressions — the default pattern `\w+(\.?\w+)*`, `SpaceSeparatedTokenizer`
  (`[^ \t\r\n]+`), `CommaSeparatedTokenizer` (`[^,]+`) — as scanners, `IDTokenizer.__call__`;
* `analysis/filters.py`: `LowercaseFilter`, `StripFilter`, `PassFilter`, `StopFilter.__call__`
  (with `renumber`, `minsize`, `maxsize`, `removestops`), `CharsetFilter` / `ReverseTextFilter` /
  `SubstitutionFilter` (a string function as parameter), `MultiFilter.__call__` (the filter is chosen
  by the stream's `mode`), `DelimitedAttributeFilter.__call__` (text and character range cut at the
  delimiter; the attribute value itself is not modelled);
* `analysis/morph.py`: `StemFilter.__call__` (the stemming function as parameter);
* `analysis/ngrams.py`: `NgramTokenizer.__call__`, `NgramFilter.__call__` (both modes, `at`);
* `analysis/intraword.py`: `BiWordFilter.__call__`;
* `formats.py`: `Positions.word_values`, `Characters.word_values` (what is recorded per term);
* `highlight.py`: `Formatter.format_fragment`.

Characters arrive classified by Python (`\w`, white space, `str.lower()`), so the Unicode tables
are Python's; the regular expressions of the three tokenizers are implemented as scanners.
Tokens always carry positions and character offsets (`positions=True, chars=True`,
`start_pos = start_char = 0`).
-/
namespace WM.Analysis

abbrev Str := List Nat

/-- a source character with the classifications the modelled code asks Python for -/
structure CChar where
  code : Nat
  /-- matches `\w` (re.UNICODE): alphanumeric or underscore -/
  word : Bool
  /-- `str.isspace()` (what `str.strip()` removes) -/
  space : Bool
  /-- `ch.lower()` -/
  lower : Str
  deriving Repr, Inhabited

structure Token where
  text : Str
  pos : Nat
  startchar : Nat
  endchar : Nat
  stopped : Bool := false
  deriving Repr, Inhabited, DecidableEq

/-- `text[a:b]` for `0 ≤ a`, `0 ≤ b` -/
def slice {α} (l : List α) (a b : Nat) : List α := (l.drop a).take (b - a)

/-! ## Regular-expression tokenizers as scanners -/

inductive Pat
  /-- `\w+(\.?\w+)*` -/
  | default
  /-- `[^ \t\r\n]+` -/
  | space
  /-- `[^,]+` -/
  | comma
  /-- `\S+` (not `str.isspace`) -/
  | nonspace
  deriving DecidableEq, Repr, Inhabited

/-- length of the longest prefix whose characters all satisfy `p` -/
def runLen (p : CChar → Bool) : List CChar → Nat
  | [] => 0
  | c :: rest => if p c then 1 + runLen p rest else 0

/-- `(\.?\w+)*` after a maximal `\w+`: every iteration needs a dot followed by at least one word
    character (the empty alternative of `\.?` cannot start an iteration because the preceding
    `\w+` was maximal) -/
def dotRuns (cs : List CChar) : Nat :=
  match cs with
  | c :: rest =>
    if c.code = 46 then
      let m := runLen (·.word) rest
      if 0 < m then 1 + m + dotRuns (rest.drop m) else 0
    else 0
  | [] => 0
termination_by cs.length
decreasing_by simp_wf; omega

def isSpace4 (c : CChar) : Bool := c.code = 32 || c.code = 9 || c.code = 13 || c.code = 10

/-- length of the match of the pattern at the beginning of `cs` (0 = no match) -/
def matchLen (p : Pat) (cs : List CChar) : Nat :=
  match p with
  | .default =>
    let n := runLen (·.word) cs
    if 0 < n then n + dotRuns (cs.drop n) else 0
  | .space => runLen (fun c => !isSpace4 c) cs
  | .comma => runLen (fun c => c.code != 44) cs
  | .nonspace => runLen (fun c => !c.space) cs

/-- `expression.finditer(value)`: the spans of the successive matches; `off` is the index of the
    first character of `cs` in the whole text -/
def scan (p : Pat) (cs : List CChar) (off : Nat) : List (Nat × Nat) :=
  match cs with
  | [] => []
  | c :: rest =>
    let n := matchLen p (c :: rest)
    if 0 < n then (off, off + n) :: scan p ((c :: rest).drop n) (off + n)
    else scan p rest (off + 1)
termination_by cs.length
decreasing_by
  all_goals simp_wf
  all_goals omega

/-- `for pos, match in enumerate(...)`: one token per match -/
def spansToTokens (text : List CChar) : List (Nat × Nat) → Nat → List Token
  | [], _ => []
  | (a, b) :: rest, pos =>
    { text := (slice text a b).map (·.code), pos := pos, startchar := a, endchar := b } ::
      spansToTokens text rest (pos + 1)

/-- `RegexTokenizer(expr)(value, positions=True, chars=True)` -/
def regexTokenizer (p : Pat) (text : List CChar) : List Token :=
  spansToTokens text (scan p text 0) 0

/-- `IDTokenizer()(value, positions=True, chars=True)` (note `t.pos = start_pos + 1`) -/
def idTokenizer (text : List CChar) : List Token :=
  [{ text := text.map (·.code), pos := 1, startchar := 0, endchar := text.length }]

/-! ## Filters -/

/-- the character tables the text-changing filters need, by code point -/
structure Tables where
  lower : Nat → Str
  space : Nat → Bool

/-- `LowercaseFilter` -/
def lowercase (tb : Tables) (ts : List Token) : List Token :=
  ts.map fun t => { t with text := t.text.flatMap tb.lower }

/-- `str.strip()` -/
def stripStr (tb : Tables) (s : Str) : Str :=
  ((s.dropWhile tb.space).reverse.dropWhile tb.space).reverse

/-- `StripFilter` (the offsets are left alone) -/
def strip (tb : Tables) (ts : List Token) : List Token :=
  ts.map fun t => { t with text := stripStr tb t.text }

structure StopCfg where
  stops : List Str
  minsize : Nat
  maxsize : Option Nat
  renumber : Bool
  /-- the `removestops` flag the tokens carry -/
  removestops : Bool
  deriving Repr, Inhabited

def StopCfg.keeps (c : StopCfg) (text : Str) : Bool :=
  decide (c.minsize ≤ text.length) &&
  (match c.maxsize with
   | none => true
   | some m => decide (text.length ≤ m)) &&
  !c.stops.contains text

/-- `StopFilter.__call__`; `pos` is the filter's `pos` variable (`None` until the first kept token) -/
def stopFilter (c : StopCfg) : List Token → Option Nat → List Token
  | [], _ => []
  | t :: rest, pos =>
    if c.keeps t.text then
      if c.renumber then
        match pos with
        | none => { t with stopped := false } :: stopFilter c rest (some t.pos)
        | some p => { t with pos := p + 1, stopped := false } :: stopFilter c rest (some (p + 1))
      else { t with stopped := false } :: stopFilter c rest pos
    else
      if !c.removestops then { t with stopped := true } :: stopFilter c rest pos
      else stopFilter c rest pos

inductive Mode | index | query
  deriving DecidableEq, Repr, Inhabited

/-- `range(a, b)` -/
def pyRange (a b : Nat) : List Nat := (List.range (b - a)).map (· + a)

/-- `NgramFilter.at`: -1 start, 1 end, 0 all -/
inductive At | start | «end» | all
  deriving DecidableEq, Repr, Inhabited

/-- the grams `NgramFilter` makes of one token -/
def ngramsOf (min max : Nat) (at_ : At) (mode : Mode) (t : Token) : List Token :=
  let text := t.text
  let len := text.length
  if len < min then [] else
  match mode with
  | .query =>
    let size := Nat.min max len
    match at_ with
    | .start => [{ t with text := text.take size, endchar := t.startchar + size }]
    | .end => [{ t with text := text.drop (len - size), startchar := t.endchar - size }]
    | .all => (pyRange 0 (len - size + 1)).map fun start =>
        { t with text := slice text start (start + size), startchar := t.startchar + start,
                 endchar := t.startchar + start + size }
  | .index =>
    match at_ with
    | .start => (pyRange min (Nat.min max len + 1)).map fun size =>
        { t with text := text.take size, endchar := t.startchar + size }
    | .end => (pyRange (len - max) (len - min + 1)).map fun i =>
        { t with text := text.drop i, startchar := t.startchar + i }
    | .all => (pyRange 0 (len - min + 1)).flatMap fun start =>
        (pyRange min (max + 1)).filterMap fun size =>
          if start + size > len then none
          else some { t with text := slice text start (start + size), startchar := t.startchar + start,
                             endchar := t.startchar + start + size }

/-- `NgramFilter(min, max, at)` -/
def ngramFilter (min max : Nat) (at_ : At) (mode : Mode) (ts : List Token) : List Token :=
  ts.flatMap (ngramsOf min max at_ mode)

/-- `NgramTokenizer(min, max)(value, mode=...)` (with the repaired query branch: no gram below
    `min`) -/
def ngramTokenizer (min max : Nat) (mode : Mode) (text : List CChar) : List Token :=
  let codes := text.map (·.code)
  let len := codes.length
  match mode with
  | .query =>
    let size := Nat.min max len
    if size < min then [] else
    (pyRange 0 (len - size + 1)).map fun start =>
      { text := slice codes start (start + size), pos := start, startchar := start, endchar := start + size }
  | .index =>
    (pyRange 0 (len - min + 1)).flatMap fun start =>
      (pyRange min (max + 1)).filterMap fun size =>
        if start + size > len then none
        else some { text := slice codes start (start + size), pos := start, startchar := start,
                    endchar := start + size }

/-- `BiWordFilter(sep)`: `prev` holds (text, startchar, pos) of the previous token -/
def biwordLoop (sep : Str) : List Token → Option (Str × Nat × Nat) → List Token
  | [], _ => []
  | t :: rest, none => biwordLoop sep rest (some (t.text, t.startchar, t.pos))
  | t :: rest, some (ptext, pstart, ppos) =>
    { t with text := ptext ++ sep ++ t.text, startchar := pstart, pos := ppos } ::
      biwordLoop sep rest (some (t.text, t.startchar, t.pos))

/-- `BiWordFilter.__call__`: a stream with a single token passes it on (none: nothing, after the
    repair) -/
def biword (sep : Str) (ts : List Token) : List Token :=
  match ts with
  | [] => []
  | [t] => [t]
  | ts => biwordLoop sep ts none

/-! ## Analyzers as chains -/

inductive Tokenizer
  | regex (p : Pat)
  | id
  | ngram (min max : Nat)
  deriving Repr, Inhabited

/-- the filters that rewrite a token's text and nothing else (`CharsetFilter`: `text.translate(charmap)`,
    `ReverseTextFilter`: `text[::-1]`, `SubstitutionFilter`: `pattern.sub(replacement, text)`); the
    string function is a parameter -/
def mapText (fn : Str → Str) (ts : List Token) : List Token :=
  ts.map fun t => { t with text := fn t.text }

/-- `StemFilter.__call__`: stopped tokens and the words of `ignore` are passed through unchanged;
    the stemming function (and its cache, which cannot change a result) is a parameter -/
def stemFilter (fn : Str → Str) (ignore : List Str) (ts : List Token) : List Token :=
  ts.map fun t => if t.stopped || ignore.contains t.text then t else { t with text := fn t.text }

/-- `str.find(sub)`: index of the first occurrence (`none` for -1; `"".find("")` is 0) -/
def findSub (sub : Str) : Str → Option Nat
  | [] => if sub = [] then some 0 else none
  | c :: rest => if sub.isPrefixOf (c :: rest) then some 0 else (findSub sub rest).map (· + 1)

/-- `DelimitedAttributeFilter(delimiter)` (analysis/filters.py `DelimitedAttributeFilter.__call__`):
    a token whose text contains the delimiter keeps the text before its first occurrence and gives
    up the rest of its character range (`t.endchar -= len(t.text) - pos`, with Python's integers:
    no truncation at 0); the attribute it sets from the rest (`type_(text[pos + 1:])`, which may
    raise for a type other than `str`) is not part of the modelled `Token` -/
def delimited (delim : Str) (ts : List Token) : List Token :=
  ts.map fun t =>
    match findSub delim t.text with
    | some p => { t with text := t.text.take p, endchar := t.endchar - (t.text.length - p) }
    | none => t

inductive Filter
  | lowercase | strip | pass
  | stop (c : StopCfg)
  | ngram (min max : Nat) (at_ : At)
  | biword (sep : Str)
  | mapText (fn : Str → Str)
  | stem (fn : Str → Str) (ignore : List Str)
  /-- `MultiFilter(index=..., query=...)`; a mode without entry gets `default_filter = PassFilter()` -/
  | multi (index query : Filter)
  /-- `DelimitedAttributeFilter(delimiter=delim)` -/
  | delimited (delim : Str)
  deriving Inhabited

def runTokenizer (tk : Tokenizer) (mode : Mode) (text : List CChar) : List Token :=
  match tk with
  | .regex p => regexTokenizer p text
  | .id => idTokenizer text
  | .ngram a b => ngramTokenizer a b mode text

def runFilter (tb : Tables) (mode : Mode) (f : Filter) (ts : List Token) : List Token :=
  match f with
  | .lowercase => lowercase tb ts
  | .strip => strip tb ts
  | .pass => ts
  | .stop c => stopFilter c ts none
  | .ngram a b at_ => ngramFilter a b at_ mode ts
  | .biword sep => biword sep ts
  | .mapText fn => mapText fn ts
  | .stem fn ignore => stemFilter fn ignore ts
  | .delimited d => delimited d ts
  | .multi fi fq =>
    -- MultiFilter.__call__: "only selects on the first token"; no token at all: nothing
    match ts with
    | [] => []
    | _ :: _ =>
      match mode with
      | .index => runFilter tb mode fi ts
      | .query => runFilter tb mode fq ts

/-- `CompositeAnalyzer.__call__` -/
def analyze (tb : Tables) (tk : Tokenizer) (fs : List Filter) (mode : Mode) (text : List CChar) : List Token :=
  fs.foldl (fun ts f => runFilter tb mode f ts) (runTokenizer tk mode text)

/-! ## What the formats record -/

/-- `Positions.word_values`: the positions of every term, in order of appearance -/
def positionsOf (ts : List Token) (w : Str) : List Nat :=
  (ts.filter (·.text = w)).map (·.pos)

/-- `Characters.word_values`: (pos, startchar, endchar) of every occurrence -/
def charactersOf (ts : List Token) (w : Str) : List (Nat × Nat × Nat) :=
  (ts.filter (·.text = w)).map fun t => (t.pos, t.startchar, t.endchar)

/-! ## `Formatter.format_fragment` -/

inductive Piece
  | plain (s : Str)
  | marked (s : Str)
  deriving Repr, DecidableEq, Inhabited

/-- the loop over `fragment.matches`; `index` is the running index -/
def formatLoop (text : Str) : List (Nat × Nat) → Nat → List Piece × Nat
  | [], index => ([], index)
  | (s, e) :: rest, index =>
    if s < index then formatLoop text rest index
    else
      let (out, last) := formatLoop text rest e
      ((if index < s then [Piece.plain (slice text index s)] else []) ++ Piece.marked (slice text s e) :: out, last)

/-- `format_fragment(fragment)` for a fragment `[fstart, fend)` with the given matches
    (`get_text(..., replace=False)`; `format_token` wraps the source text in markup) -/
def formatFragment (text : Str) (matches_ : List (Nat × Nat)) (fstart fend : Nat) : List Piece :=
  let (out, last) := formatLoop text matches_ fstart
  out ++ [Piece.plain (slice text last fend)]

/-- the excerpt with the markup taken away -/
def stripMarkup : List Piece → Str
  | [] => []
  | .plain s :: rest => s ++ stripMarkup rest
  | .marked s :: rest => s ++ stripMarkup rest

end WM.Analysis
