/-
Mirror of `whoosh/util/varints.py`: `_varint`, `varint` (the 512-entry cache is a memo of
`_varint`, so it is the same function), `read_varint` / `varint_to_int`, `signed_varint`,
`decode_signed_varint`.  Bytes are `Nat`s below 256; a byte stream is a `List Nat`.
-/
namespace WM.Varint

/-- `_varint(i)`: little-endian base-128 digits, continuation bit on every byte but the last. -/
def encode (i : Nat) : List Nat :=
  if h : i < 128 then [i] else (i % 128 + 128) :: encode (i / 128)
termination_by i
decreasing_by omega

/-- `read_varint(readfn)`: returns the value and the unread rest; `none` when the stream ends
    inside a number (Python raises from `ord(b"")`). `shift` is carried as the multiplier `2^shift`. -/
def decodeAux : List Nat → Nat → Nat → Option (Nat × List Nat)
  | [], _, _ => none
  | b :: rest, acc, mul =>
    let acc' := acc + (b % 128) * mul
    if b / 128 % 2 = 1 then decodeAux rest acc' (mul * 128) else some (acc', rest)

def decode (bs : List Nat) : Option (Nat × List Nat) := decodeAux bs 0 1

/-- `signed_varint`'s integer mapping (zig-zag): `i << 1` or `(i << 1) ^ ~0`. -/
def zigzag (i : Int) : Nat := if 0 ≤ i then (2 * i).toNat else (-(2 * i) - 1).toNat

/-- `decode_signed_varint`. -/
def unzigzag (n : Nat) : Int := if n % 2 = 0 then (n / 2 : Nat) else -((n / 2 : Nat) : Int) - 1

def encodeSigned (i : Int) : List Nat := encode (zigzag i)
def decodeSigned (bs : List Nat) : Option (Int × List Nat) :=
  (decode bs).map fun (n, r) => (unzigzag n, r)

end WM.Varint
