import WM.Model.Parser
/-
Executable mirror of `QueryParser.tag()` (`qparser/default.py`): the loop that walks the query
string, asks the priorized taggers for a match at the current position, turns the text between two
matches into a `WordNode` and the matches into the flat node list the filters work on.

The taggers whose regular expression is a fixed string with a one-character context are modelled
(`taggers.py` `RegexTagger.match`, `FnTagger.create`; `plugins.py` `GroupPlugin` brackets `[(]` /
`[)]`, `WhitespacePlugin` `\s+`, `OperatorsPlugin.OpTagger` with the shapes of the six default
expressions `(?<=\s)AND(?=\s)`, `(^|(?<=(\s|[()])))NOT(?=\s)`, `(^|(?<=\s))REQUIRE(?=\s)`); every
other tagger (field names, phrases, ranges, boosts, wildcards, …: real regular expressions) is a
function from positions to its answer, supplied by the running code.

Characters arrive classified by Python (`\s` of a unicode pattern is `str.isspace`).
-/
namespace WM.Parser

/-- a character of the query string: code point and whether `\s` matches it -/
structure QChar where
  code : Nat
  space : Bool
  deriving Repr, Inhabited

/-- what `tagger.match(parser, text, pos)` returned when it is not None: the node, `node.endchar`
    and `bool(node)` (a `GroupNode` without members is falsy) -/
structure TagHit where
  node : Node
  endchar : Nat
  truthy : Bool
  deriving Repr, Inhabited

inductive Tagger
  /-- `FnTagger("[(]", OpenBracket)` -/
  | opn
  /-- `FnTagger("[)]", CloseBracket)` -/
  | cls
  /-- `WhitespacePlugin`: `\s+` -/
  | ws
  /-- `OpTagger(expr, grouptype, optype, leftassoc)` where `expr` is the literal `lit` preceded by a
      white-space character (or, with `atStart`, the start of the string, or, with `afterParen`, a
      bracket) and followed by a white-space character -/
  | op (lit : Str) (atStart afterParen : Bool) (t : OpT) (g : GK) (la : Bool)
  /-- any other tagger: its answer at every position -/
  | ext (f : Nat → Option TagHit)

def codeAt (text : List QChar) (i : Nat) : Option Nat := (text[i]?).map (·.code)

def spaceAt (text : List QChar) (i : Nat) : Bool :=
  match text[i]? with
  | some c => c.space
  | none => false

/-- length of the maximal run of white space at the head -/
def spaceRun : List QChar → Nat
  | [] => 0
  | c :: rest => if c.space then 1 + spaceRun rest else 0

/-- the literal stands at `pos` -/
def litAt (text : List QChar) (pos : Nat) (lit : Str) : Bool :=
  ((text.drop pos).take lit.length).map (·.code) == lit

/-- the look-behind of an operator expression -/
def opBefore (text : List QChar) (pos : Nat) (atStart afterParen : Bool) : Bool :=
  if pos = 0 then atStart
  else spaceAt text (pos - 1) ||
    (afterParen && (codeAt text (pos - 1) == some 40 || codeAt text (pos - 1) == some 41))

/-- `tagger.match(parser, text, pos)` -/
def Tagger.matchAt (text : List QChar) (pos : Nat) : Tagger → Option TagHit
  | .opn => if codeAt text pos == some 40 then some ⟨.opn, pos + 1, true⟩ else none
  | .cls => if codeAt text pos == some 41 then some ⟨.cls, pos + 1, true⟩ else none
  | .ws =>
    let n := spaceRun (text.drop pos)
    if 0 < n then some ⟨.ws, pos + n, true⟩ else none
  | .op lit atStart afterParen t g la =>
    if opBefore text pos atStart afterParen && litAt text pos lit && spaceAt text (pos + lit.length) then
      some ⟨.op t g la lit, pos + lit.length, true⟩
    else none
  | .ext f => f pos

/-- `for tagger in taggers: node = tagger.match(...); if node is not None: ... break` -/
def firstHit (tgs : List Tagger) (text : List QChar) (pos : Nat) : Option TagHit :=
  match tgs with
  | [] => none
  | t :: rest =>
    match t.matchAt text pos with
    | some h => some h
    | none => firstHit rest text pos

/-- a node of the tagged list with the character range it was made from -/
structure Tagged where
  node : Node
  startchar : Nat
  endchar : Nat
  deriving Repr, Inhabited

/-- `inter(startchar, endchar)`: the text between two matches as a `WordNode` -/
def inter (text : List QChar) (a b : Nat) : Tagged :=
  ⟨.text .word (((text.drop a).take (b - a)).map (·.code)) none 1, a, b⟩

/-- the `while pos < len(text)` loop of `tag()`; `stack` is the output list, `prev` the end of the
    previous match.  A match that does not move forward is the plain `Exception` of the Python
    code (`Err.other`).  After a match `prev = pos = node.endchar`, and the following
    `if not node: pos += 1` also fires for a matched node that is falsy. -/
def tagLoop (tgs : List Tagger) (text : List QChar) (pos prev : Nat) (stack : List Tagged) :
    Except Err (List Tagged) :=
  if _h : pos < text.length then
    match firstHit tgs text pos with
    | some hit =>
      if _hm : hit.endchar ≤ pos then .error .other
      else
        let stack1 := if prev < pos then stack ++ [inter text prev pos] else stack
        tagLoop tgs text (if hit.truthy then hit.endchar else hit.endchar + 1) hit.endchar
          (stack1 ++ [⟨hit.node, pos, hit.endchar⟩])
    | none => tagLoop tgs text (pos + 1) prev stack
  else .ok (if prev < text.length then stack ++ [inter text prev text.length] else stack)
termination_by text.length - pos
decreasing_by
  all_goals simp_wf
  · split <;> omega
  · omega

/-- `QueryParser.tag(text)` (the list that is then wrapped in `parser.group(...)`) -/
def tag (tgs : List Tagger) (text : List QChar) : Except Err (List Tagged) :=
  tagLoop tgs text 0 0 []

end WM.Parser
