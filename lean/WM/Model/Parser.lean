/-
Executable mirror of the whoosh query parser's *filter pipeline* (everything that happens after
`QueryParser.tag()` has turned the string into a flat list of tagged syntax nodes):

* `qparser/default.py`: `QueryParser._priorized` (stable sort by priority), `filterize`, the
  truthiness test at the end of `parse`;
* `qparser/plugins.py`: `GroupPlugin.do_groups`, `BoostPlugin.clean_boost` / `do_boost`,
  `WildcardPlugin.do_wildcards`, `FieldsPlugin.do_fieldnames`, `WhitespacePlugin.remove_whitespace`,
  `OperatorsPlugin.do_operators`, `PlusMinusPlugin.do_plusminus`, `MultifieldPlugin.do_multifield`,
  `GtLtPlugin.do_gtlt` / `make_range`, `FuzzyTermPlugin.do_fuzzyterms`, `CopyFieldPlugin.do_copyfield`,
  `FieldAliasPlugin.do_aliases`;
* `qparser/syntax.py`: `PrefixOperator/PostfixOperator/InfixOperator.replace_self`, `to_word`,
  `set_fieldname`, `set_boost`, `GroupNode.empty_copy`, `GroupNode.query`, `BinaryGroup.query`,
  `Wrapper.query`, `SyntaxNode.query` (the `NotImplementedError` default).

Python lists are `List Node`; a Python index expression is `pyGet` (negative indices count from
the end, out of range is `Err.indexError`), so that "every index access is in bounds" is a
theorem about this file (`WM.C16.total_*`) and not a convention.  Strings are lists of code
points.  Character positions (`startchar/endchar`) are not modelled (they are not compared).
-/
namespace WM.Parser

abbrev Str := List Nat

/-- The Python exceptions that can escape the modelled code. -/
inductive Err
  | indexError | assertion | notImplemented | unbound | qpe | other
  deriving DecidableEq, Repr, Inhabited

/-- Group classes of `syntax.py` (`ScaledOrGroup` is an `OrGroup` for `isinstance`). -/
inductive GK
  | and | or | dismax | ordered | seq | andnot | andmaybe | require | not
  deriving DecidableEq, Repr, Inhabited

/-- `GroupNode.merging` (False for `BinaryGroup` and `Wrapper`). -/
def GK.merging : GK → Bool
  | .andnot | .andmaybe | .require | .not => false
  | _ => true

/-- `has_boost` of the group class (`BinaryGroup.has_boost = False`). -/
def GK.hasBoost : GK → Bool
  | .andnot | .andmaybe | .require => false
  | _ => true

/-- Operator classes. -/
inductive OpT | pre | post | inf
  deriving DecidableEq, Repr, Inhabited

/-- `TextNode` subclasses. -/
inductive TK
  | word | wild | prefix | regex | phrase (slop : Nat) | fuzzy (maxdist plen : Nat)
  deriving DecidableEq, Repr, Inhabited

/-- the six strings `GtLtPlugin.expr` can match: `<  >  <=  =<  >=  =>` -/
inductive Rel | lt | gt | le | el | ge | eg
  deriving DecidableEq, Repr, Inhabited

inductive Node
  /-- `TextNode` family: kind, text, fieldname, boost. -/
  | text (k : TK) (t : Str) (f : Option Str) (b : Rat)
  /-- `RangeNode` (its `boost` attribute is always 1.0: `has_boost` is False). -/
  | range (s e : Option Str) (sx ex : Bool) (f : Option Str)
  | ws
  /-- `FieldnameNode(fieldname, original)` -/
  | fname (name orig : Str)
  | opn | cls
  /-- `Operator(text, grouptype, leftassoc)` of class `t`. -/
  | op (t : OpT) (g : GK) (la : Bool) (txt : Str)
  /-- `BoostPlugin.BoostNode(original, boost)` -/
  | bst (orig : Str) (b : Rat)
  | every
  | plus | minus
  /-- `FuzzyTermPlugin.FuzzinessNode(maxdist, prefixlength, original)` -/
  | fuzz (maxdist plen : Nat) (orig : Str)
  /-- `GtLtPlugin.GtLtNode(rel)` -/
  | gtlt (rel : Rel)
  | group (k : GK) (ns : List Node) (b : Rat)
  deriving Repr, Inhabited

mutual
  def Node.size : Node → Nat
    | .group _ ns _ => 1 + sizeL ns
    | _ => 1
  def sizeL : List Node → Nat
    | [] => 0
    | n :: ns => n.size + sizeL ns
end

theorem size_mem {n : Node} {l : List Node} (h : n ∈ l) : n.size ≤ sizeL l := by
  induction l with
  | nil => cases h
  | cons a t ih =>
    simp only [sizeL]
    cases h with
    | head => omega
    | tail _ h => have := ih h; omega

theorem Node.size_pos (n : Node) : 0 < n.size := by
  cases n <;> simp [Node.size] <;> omega

/-! ## Python list primitives -/

/-- Normalise a Python index. -/
def pyIdx (len : Nat) (i : Int) : Option Nat :=
  if 0 ≤ i then (if i.toNat < len then some i.toNat else none)
  else if 0 ≤ i + len then some (i + len).toNat else none

/-- `l[i]` -/
def pyGet {α} (l : List α) (i : Int) : Except Err α :=
  match pyIdx l.length i with
  | some j => match l[j]? with
    | some a => .ok a
    | none => .error .indexError
  | none => .error .indexError

/-- `l[i] = v` -/
def pySet {α} (l : List α) (i : Int) (v : α) : Except Err (List α) :=
  match pyIdx l.length i with
  | some j => .ok (l.set j v)
  | none => .error .indexError

/-- `del l[i]` / `l.pop(i)` (the popped value is read with `pyGet` first). -/
def pyDel {α} (l : List α) (i : Int) : Except Err (List α) :=
  match pyIdx l.length i with
  | some j => .ok (l.eraseIdx j)
  | none => .error .indexError

/-- `l[a:b] = mid` for `0 ≤ a ≤ b` (Python slices never raise; both bounds are clipped). -/
def pySplice {α} (l : List α) (a b : Nat) (mid : List α) : List α :=
  l.take a ++ mid ++ l.drop (max a b)

/-! ## Node attributes and small methods -/

def Node.isGroup : Node → Bool
  | .group .. => true
  | _ => false

/-- `has_boost` -/
def Node.hasBoost : Node → Bool
  | .text .. => true
  | .group k _ _ => k.hasBoost
  | _ => false

/-- `has_text` -/
def Node.hasText : Node → Bool
  | .text .. => true
  | _ => false

/-- `is_text()` -/
def Node.isText : Node → Bool
  | .text .. => true
  | _ => false

/-- `has_fieldname` -/
def Node.hasFieldname : Node → Bool
  | .text .. | .range .. | .fname .. => true
  | _ => false

/-- the `fieldname` attribute of a node that has one -/
def Node.fieldname : Node → Option Str
  | .text _ _ f _ => f
  | .range _ _ _ _ f => f
  | .fname n _ => some n
  | _ => none

def Node.isWs : Node → Bool
  | .ws => true
  | _ => false

def Node.isFname : Node → Bool
  | .fname .. => true
  | _ => false

/-- `syntax.to_word(n)`: `WordNode(n.original)`. -/
def toWord (orig : Str) : Node := .text .word orig none 1

/-- `SyntaxNode.set_fieldname` / `GroupNode.set_fieldname`. -/
def setFieldname (name : Str) (override : Bool) : Node → Node
  | .text k t f b => .text k t (if f.isNone || override then some name else f) b
  | .range s e sx ex f => .range s e sx ex (if f.isNone || override then some name else f)
  | .fname n o => if override then .fname name o else .fname n o
  | .group k ns b => .group k (ns.map (setFieldname name override)) b
  | n => n
termination_by n => n.size
decreasing_by
  all_goals simp_wf
  rename_i h; have := size_mem h; simp only [Node.size]; omega

/-- `set_boost` (a no-op unless `has_boost`). -/
def setBoost (b : Rat) : Node → Node
  | .text k t f _ => .text k t f b
  | .group k ns b0 => if k.hasBoost then .group k ns b else .group k ns b0
  | n => n

/-! ## Configuration (what the filters read from the parser and the plug-ins) -/

structure OpCfg where
  t : OpT
  g : GK
  la : Bool
  deriving Repr, Inhabited

inductive FilterId
  | groups | cleanBoost | fuzzy | wildcards | aliases | gtlt | fieldnames | copyfield | multifield
  | rmws | boost | plusminus | operators
  deriving DecidableEq, Repr, Inhabited

structure Cfg where
  /-- `parser.group` -/
  group : GK
  /-- `parser.fieldname` -/
  defField : Option Str
  /-- field names of `parser.schema`; `none` when the parser has no schema -/
  schema : Option (List Str)
  /-- `FieldsPlugin.removeunknown` -/
  removeUnknown : Bool
  /-- `OperatorsPlugin.ops`, in order -/
  ops : List OpCfg
  /-- `MultifieldPlugin.fieldnames` with `boosts.get(name, 1.0)` -/
  mfFields : List (Str × Rat)
  mfGroup : GK
  /-- `CopyFieldPlugin.map`, `.group` -/
  copyMap : List (Str × Str)
  copyGroup : Option GK
  /-- `FieldAliasPlugin.reverse` -/
  aliases : List (Str × Str)
  /-- `(filter, priority)` in the order the plug-ins were added -/
  filters : List (FilterId × Int)
  deriving Repr, Inhabited

/-- truthiness of `parser.schema` (`Schema.__len__`) -/
def Cfg.schemaTruthy (c : Cfg) : Bool :=
  match c.schema with
  | some (_ :: _) => true
  | _ => false

def Cfg.inSchema (c : Cfg) (name : Str) : Bool :=
  match c.schema with
  | some l => l.contains name
  | none => false

def lookup (m : List (Str × Str)) (k : Str) : Option Str :=
  match m with
  | [] => none
  | (a, b) :: rest => if a = k then some b else lookup rest k

/-! ## `GroupPlugin.do_groups` -/

/-- The `for node in group` loop.  The hierarchy stack is never empty in the Python code (it
    starts as `[parser.group()]` and is only popped when `len(stack) > 1`): `cur` is `stack[-1]`,
    `below` the levels under it, innermost first. -/
def doGroupsLoop (gk : GK) : List Node → List Node → List (List Node) → List Node × List (List Node)
  | [], cur, below => (cur, below)
  | .opn :: rest, cur, below => doGroupsLoop gk rest [] (cur :: below)
  | .cls :: rest, cur, below =>
    match below with
    | [] => doGroupsLoop gk rest cur []
    | b :: bs => doGroupsLoop gk rest (b ++ [.group gk cur 1]) bs
  | n :: rest, cur, below => doGroupsLoop gk rest (cur ++ [n]) below

/-- `do_groups`: the levels left on the stack are tacked on the end of the top level; a top level
    consisting of exactly one group is replaced by that group (keeping the top's boost, 1.0). -/
def doGroups (gk : GK) (ns : List Node) : Node :=
  let (cur, below) := doGroupsLoop gk ns [] []
  let top := ((cur :: below).reverse).flatten
  match top with
  | [.group k ns' _] => .group k ns' 1
  | _ => .group gk top 1

/-! ## `BoostPlugin.clean_boost`, `do_boost` -/

/-- `clean_boost` (top level of the group only; `prev` is `group[i-1]` *after* the replacements
    already made, `none` when `i = 0`). -/
def cleanBoostL : Option Node → List Node → List Node
  | _, [] => []
  | prev, n :: rest =>
    let n' := match n with
      | .bst o _ =>
        (match prev with
         | none => toWord o
         | some p => if p.hasBoost then n else toWord o)
      | _ => n
    n' :: cleanBoostL (some n') rest

def cleanBoost : Node → Node
  | .group k ns b => .group k (cleanBoostL none ns) b
  | n => n

/-- one step of the `do_boost` loop: `acc` is `newgroup`'s node list -/
def doBoostStep (acc : List Node) (n : Node) : List Node :=
  match n with
  | .bst o b =>
    match acc.getLast? with
    | some p => if p.hasBoost then acc.dropLast ++ [setBoost b p] else acc ++ [toWord o]
    | none => acc ++ [toWord o]
  | n => acc ++ [n]

/-- `do_boost` -/
def doBoost : Node → Node
  | .group k ns b => .group k (ns.foldl (fun acc n =>
      match n with
      | .group .. => acc ++ [doBoost n]
      | n => doBoostStep acc n) []) b
  | n => n
termination_by n => n.size
decreasing_by
  all_goals simp_wf
  rename_i h; have := size_mem h; simp only [Node.size] at *; omega

/-! ## `WhitespacePlugin.remove_whitespace` -/

def rmWs : Node → Node
  | .group k ns b => .group k ((ns.filter (fun n => !n.isWs)).map rmWs) b
  | n => n
termination_by n => n.size
decreasing_by
  all_goals simp_wf
  rename_i h; have := size_mem h; simp only [Node.size] at *; omega

/-! ## `WildcardPlugin.do_wildcards` -/

def qmarks : List Nat := [63, 0x55E, 0x61F, 0x1367]

/-- `if i < len(group) - 1 and group[i + 1].is_text(): nextnode = group.pop(i + 1);
    node.text += nextnode.text` for the wildcard node `(t, f, b)` at index `i`.  The node object
    mutated in place by the Python code is written back with `List.set`. -/
def wildNext (group : List Node) (i : Nat) (t : Str) (f : Option Str) (b : Rat) :
    Except Err (List Node × Str) :=
  if i + 1 < group.length then
    match pyGet group ((i : Int) + 1) with
    | .error e => .error e
    | .ok (.text _ t2 _ _) =>
      match pyDel group ((i : Int) + 1) with
      | .error e => .error e
      | .ok g => .ok (g.set i (.text .wild (t ++ t2) f b), t ++ t2)
    | .ok _ => .ok (group, t)
  else .ok (group, t)

/-- One iteration of the first loop of `do_wildcards` (without the recursive descent: sub-groups
    are opaque to the loop, they are neither text nor wildcard nodes).  Returns the new list and
    the new `i`. -/
def wildStep (group : List Node) (i : Nat) : Except Err (List Node × Nat) :=
  match pyGet group i with
  | .error e => .error e
  | .ok (.text .wild t f b) =>
    match wildNext group i t f b with
    | .error e => .error e
    | .ok (g1, t1) =>
      -- if i > 0 and group[i - 1].is_text(): prevnode = group.pop(i - 1); node.text = prev + ...
      if 0 < i then
        match pyGet g1 ((i : Int) - 1) with
        | .error e => .error e
        | .ok (.text _ t0 _ _) =>
          match pyDel g1 ((i : Int) - 1) with
          | .error e => .error e
          | .ok g2 => .ok (g2.set (i - 1) (.text .wild (t0 ++ t1) f b), i)
        | .ok _ => .ok (g1, i + 1)
      else .ok (g1, i + 1)
  | .ok _ => .ok (group, i + 1)

theorem pyIdx_some {len : Nat} {i : Int} {j : Nat} (h : pyIdx len i = some j) : j < len := by
  unfold pyIdx at h
  split at h
  · split at h
    · injection h with h; omega
    · cases h
  · split at h
    · injection h with h; omega
    · cases h

theorem pyDel_length {α} {l l' : List α} {i : Int} (h : pyDel l i = .ok l') :
    l'.length + 1 = l.length := by
  unfold pyDel at h
  split at h
  · next j hj =>
    have := pyIdx_some hj
    injection h with h; subst h
    rw [List.length_eraseIdx]; simp [this]; omega
  · cases h

theorem wildNext_len {group g1 : List Node} {i : Nat} {t t1 : Str} {f : Option Str} {b : Rat}
    (h : wildNext group i t f b = .ok (g1, t1)) : g1.length ≤ group.length := by
  unfold wildNext at h
  split at h
  · split at h
    · cases h
    · split at h
      · cases h
      · next g hg =>
        have := pyDel_length hg
        simp only [Except.ok.injEq, Prod.mk.injEq] at h
        rw [← h.1, List.length_set]; omega
    · simp only [Except.ok.injEq, Prod.mk.injEq] at h
      rw [← h.1]; omega
  · simp only [Except.ok.injEq, Prod.mk.injEq] at h
    rw [← h.1]; omega

theorem wildStep_dec {group g' : List Node} {i i' : Nat} (hi : i < group.length)
    (h : wildStep group i = .ok (g', i')) : g'.length - i' < group.length - i := by
  unfold wildStep at h
  split at h
  · cases h
  · split at h
    · cases h
    · next g1 t1 hn =>
      have h1 := wildNext_len hn
      split at h
      · split at h
        · cases h
        · split at h
          · cases h
          · next g2 hg =>
            have := pyDel_length hg
            simp only [Except.ok.injEq, Prod.mk.injEq] at h
            rw [← h.1, ← h.2, List.length_set]; omega
        · simp only [Except.ok.injEq, Prod.mk.injEq] at h
          rw [← h.1, ← h.2]; omega
      · simp only [Except.ok.injEq, Prod.mk.injEq] at h
        rw [← h.1, ← h.2]; omega
  · simp only [Except.ok.injEq, Prod.mk.injEq] at h
    rw [← h.1, ← h.2]; omega

/-- First loop of `do_wildcards`: `len(group) - i` decreases on every path. -/
def wildLoop (group : List Node) (i : Nat) : Except Err (List Node) :=
  if h : i < group.length then
    match hs : wildStep group i with
    | .error e => .error e
    | .ok (g', i') => wildLoop g' i'
  else .ok group
termination_by group.length - i
decreasing_by exact wildStep_dec h hs

/-- Second loop: a wildcard whose only special character is one trailing `*` becomes a prefix. -/
def toPrefix : Node → Node
  | .text .wild t f b =>
    if t.length > 1 ∧ !(qmarks.any fun q => t.contains q) then
      if t.idxOf 42 = t.length - 1 then .text .prefix t.dropLast f b else .text .wild t f b
    else .text .wild t f b
  | n => n

/-- `do_wildcards`.  The recursive call on a sub-group is made before the merge loop here and
    inside it in the Python code; the two orders agree because the loop never looks into, moves
    or removes a group node. -/
def doWildcards : Node → Except Err Node
  | .group k ns b => do
    let ns1 ← ns.mapM doWildcards
    let ns2 ← wildLoop ns1 0
    pure (.group k (ns2.map toPrefix) b)
  | n => pure n
termination_by n => n.size
decreasing_by
  all_goals simp_wf
  rename_i h; have := size_mem h; simp only [Node.size] at *; omega

/-! ## `FieldsPlugin.do_fieldnames` -/

/-- First loop (only when `removeunknown and parser.schema`): field prefixes whose name is not
    in the schema become text again.  `prev` is `prev_field_node` (its `original`). -/
def fnStage1 (c : Cfg) : Option Str → List Node → List Node
  | prev, [] =>
    match prev with
    | some o => [toWord o]
    | none => []
  | prev, n :: rest =>
    let unknown := match n with
      | .fname name _ => !c.inSchema name
      | _ => false
    match n, unknown with
    | .fname _ o, true => fnStage1 c (some o) rest
    | _, _ =>
      match prev with
      | some o =>
        (match n with
         | .text k t f b => .text k (o ++ t) f b :: fnStage1 c none rest
         | _ => toWord o :: n :: fnStage1 c none rest)
      | none => n :: fnStage1 c none rest

/-- `if isinstance(node, fnclass): node = syntax.to_word(node)` -/
def fnToWord : Node → Node
  | .fname _ o => toWord o
  | n => n

/-- One iteration of the backward loop (`i > 0` on entry): returns the new `i` and the node
    appended to `newgroup`.  Sub-groups have already been processed (see `doFieldnames`). -/
def fnStep (group : List Node) (i : Nat) : Except Err (Nat × Node) :=
  match pyGet group ((i : Int) - 1) with
  | .error e => .error e
  | .ok node =>
    if 0 < i - 1 ∧ !(fnToWord node).isWs then
      match pyGet group ((i : Int) - 1 - 1) with
      | .error e => .error e
      | .ok (.fname name _) => .ok (i - 1 - 1, setFieldname name false (fnToWord node))
      | .ok _ => .ok (i - 1, fnToWord node)
    else .ok (i - 1, fnToWord node)

theorem fnStep_dec {group : List Node} {i i' : Nat} {n : Node} (hi : 0 < i)
    (h : fnStep group i = .ok (i', n)) : i' < i := by
  unfold fnStep at h
  split at h
  · cases h
  · split at h
    · split at h
      · cases h
      · simp only [Except.ok.injEq, Prod.mk.injEq] at h; omega
      · simp only [Except.ok.injEq, Prod.mk.injEq] at h; omega
    · simp only [Except.ok.injEq, Prod.mk.injEq] at h; omega

/-- `while i > 0:` loop; `acc` is `newgroup` (reversed at the end by the caller). -/
def fnLoop (group : List Node) (i : Nat) (acc : List Node) : Except Err (List Node) :=
  if h : 0 < i then
    match hs : fnStep group i with
    | .error e => .error e
    | .ok (i', n) => fnLoop group i' (acc ++ [n])
  else .ok acc
termination_by i
decreasing_by exact fnStep_dec h hs

/-- `do_fieldnames`.  As in `doWildcards` the recursive call on sub-groups is made first; the
    first loop treats a group as an opaque node without text and the second loop calls
    `do_fieldnames` on it before anything else is done with it. -/
def doFieldnames (c : Cfg) : Node → Except Err Node
  | .group k ns b => do
    let ns0 ← ns.mapM (doFieldnames c)
    let ns1 := if c.removeUnknown ∧ c.schemaTruthy then fnStage1 c none ns0 else ns0
    let ns2 ← fnLoop ns1 ns1.length []
    pure (.group k ns2.reverse b)
  | n => pure n
termination_by n => n.size
decreasing_by
  all_goals simp_wf
  rename_i h; have := size_mem h; simp only [Node.size] at *; omega

/-! ## `OperatorsPlugin.do_operators` and `Operator.replace_self` -/

/-- `PrefixOperator.replace_self` -/
def prefixReplace (g : GK) (group : List Node) (pos : Nat) : Except Err (List Node × Nat) :=
  match pyDel group pos with
  | .error e => .error e
  | .ok g1 =>
    if pos + 1 < group.length then
      match pyGet g1 pos with
      | .error e => .error e
      | .ok x =>
        match pySet g1 pos (.group g [x] 1) with
        | .error e => .error e
        | .ok g2 => .ok (g2, pos)
    else .ok (g1, pos)

/-- `PostfixOperator.replace_self` -/
def postfixReplace (g : GK) (group : List Node) (pos : Nat) : Except Err (List Node × Nat) :=
  match pyDel group pos with
  | .error e => .error e
  | .ok g1 =>
    if 0 < pos then
      match pyGet g1 ((pos : Int) - 1) with
      | .error e => .error e
      | .ok x =>
        match pySet g1 ((pos : Int) - 1) (.group g [x] 1) with
        | .error e => .error e
        | .ok g2 => .ok (g2, pos)
    else .ok (g1, pos)

/-- `isinstance(node, gtype)` for a group class: the node's children and boost if so -/
def Node.groupOf? (g : GK) : Node → Option (List Node × Rat)
  | .group k ns b => if k = g then some (ns, b) else none
  | _ => none

/-- `InfixOperator.replace_self` -/
def infixReplace (g : GK) (la : Bool) (group : List Node) (pos : Nat) : Except Err (List Node × Nat) :=
  if 0 < pos ∧ pos + 1 < group.length then
    match pyGet group ((pos : Int) - 1) with
    | .error e => .error e
    | .ok left =>
      match pyGet group ((pos : Int) + 1) with
      | .error e => .error e
      | .ok right =>
        -- if merging and la and isinstance(left, gtype):
        match (if g.merging && la then left.groupOf? g else none) with
        | some (ns, b) =>
          -- left.append(right); del group[position:position + 2]
          .ok (pySplice (group.set (pos - 1) (.group g (ns ++ [right]) b)) pos (pos + 2) [], pos)
        | none =>
          -- elif merging and not la and isinstance(right, gtype):
          match (if g.merging && !la then right.groupOf? g else none) with
          | some (ns, b) =>
            -- right.insert(0, left); del group[position - 1:position + 1]
            .ok (pySplice (group.set (pos + 1) (.group g (left :: ns) b)) (pos - 1) (pos + 1) [], pos - 1)
          | none =>
            -- group[position - 1:position + 2] = [gtype([left, right])]
            .ok (pySplice group (pos - 1) (pos + 2) [.group g [left, right] 1], pos)
  else
    match pyDel group pos with
    | .error e => .error e
    | .ok g1 => .ok (g1, pos)

/-- dynamic dispatch of `t.replace_self(parser, group, i)` on the operator node itself -/
def replaceSelf (t : OpT) (g : GK) (la : Bool) (group : List Node) (pos : Nat) :
    Except Err (List Node × Nat) :=
  match t with
  | .pre => prefixReplace g group pos
  | .post => postfixReplace g group pos
  | .inf => infixReplace g la group pos

/-! ### facts about the list primitives and `replace_self` needed for termination -/

theorem pyGet_nat {α} {l : List α} {j : Nat} {a : α} : pyGet l (j : Int) = .ok a ↔ l[j]? = some a := by
  unfold pyGet pyIdx
  have h0 : (0:Int) ≤ (j:Int) := by omega
  simp only [h0, if_true, Int.toNat_natCast]
  split
  · next h => 
    split at h
    · injection h with h; subst h
      split <;> simp_all
    · cases h
  · next h =>
    split at h
    · cases h
    · have : l[j]? = none := by simp; omega
      simp [this]

theorem sizeL_append (a b : List Node) : sizeL (a ++ b) = sizeL a + sizeL b := by
  induction a with
  | nil => simp [sizeL]
  | cons x t ih => simp [sizeL, ih]; omega

theorem sizeL_take_drop (l : List Node) (n : Nat) : sizeL (l.take n) + sizeL (l.drop n) = sizeL l := by
  rw [← sizeL_append, List.take_append_drop]

theorem sizeL_drop_get {l : List Node} {j : Nat} {a : Node} (h : l[j]? = some a) :
    sizeL (l.drop j) = a.size + sizeL (l.drop (j+1)) := by
  have hj : j < l.length := by
    rcases Nat.lt_or_ge j l.length with h' | h'
    · exact h'
    · rw [List.getElem?_eq_none h'] at h; cases h
  rw [List.drop_eq_getElem_cons hj]
  simp only [sizeL]
  rw [List.getElem?_eq_getElem hj] at h
  injection h with h; rw [h]

theorem sizeL_eraseIdx {l : List Node} {j : Nat} {a : Node} (h : l[j]? = some a) :
    sizeL (l.eraseIdx j) + a.size = sizeL l := by
  rw [List.eraseIdx_eq_take_drop_succ, sizeL_append, ← sizeL_take_drop l j, sizeL_drop_get h]; omega

theorem sizeL_set {l : List Node} {j : Nat} {a v : Node} (h : l[j]? = some a) :
    sizeL (l.set j v) + a.size = sizeL l + v.size := by
  have hj : j < l.length := by
    rcases Nat.lt_or_ge j l.length with h' | h'
    · exact h'
    · rw [List.getElem?_eq_none h'] at h; cases h
  rw [List.set_eq_take_append_cons_drop, if_pos hj, sizeL_append]
  simp only [sizeL]
  rw [← sizeL_take_drop l j, sizeL_drop_get h]; omega

theorem pyDel_nat {α} {l l' : List α} {j : Nat} (h : pyDel l (j : Int) = .ok l') :
    j < l.length ∧ l' = l.eraseIdx j := by
  unfold pyDel pyIdx at h
  have h0 : (0:Int) ≤ (j:Int) := by omega
  simp only [h0, if_true, Int.toNat_natCast] at h
  split at h
  · next hh =>
    split at hh
    · injection hh with hh; subst hh; injection h with h; exact ⟨by assumption, h.symm⟩
    · cases hh
  · cases h

theorem pySet_nat {α} {l l' : List α} {j : Nat} {v : α} (h : pySet l (j : Int) v = .ok l') :
    j < l.length ∧ l' = l.set j v := by
  unfold pySet pyIdx at h
  have h0 : (0:Int) ≤ (j:Int) := by omega
  simp only [h0, if_true, Int.toNat_natCast] at h
  split at h
  · next hh =>
    split at hh
    · injection hh with hh; subst hh; injection h with h; exact ⟨by assumption, h.symm⟩
    · cases hh
  · cases h

theorem pred_cast {p : Nat} (h : 0 < p) : (p : Int) - 1 = ((p - 1 : Nat) : Int) := by omega
theorem succ_cast (p : Nat) : (p : Int) + 1 = ((p + 1 : Nat) : Int) := by omega

theorem get?_lt {α} {l : List α} {j : Nat} {a : α} (h : l[j]? = some a) : j < l.length := by
  rcases Nat.lt_or_ge j l.length with h' | h'
  · exact h'
  · rw [List.getElem?_eq_none h'] at h; cases h

/-- result facts of the three `replace_self` variants -/
structure ReplOk (group g' : List Node) (pos pos' : Nat) : Prop where
  hlen : g'.length < group.length
  hpos : pos' ≤ pos
  hdec : g'.length - pos' < group.length - pos
  hsize : sizeL g' ≤ sizeL group
  hle : pos' ≤ g'.length

theorem prefixReplace_ok {g : GK} {group g' : List Node} {pos pos' : Nat} (hp : pos < group.length)
    (h : prefixReplace g group pos = .ok (g', pos')) : ReplOk group g' pos pos' := by
  unfold prefixReplace at h
  split at h
  · cases h
  · next g1 hd =>
    obtain ⟨_, rfl⟩ := pyDel_nat hd
    obtain ⟨a, ha⟩ : ∃ a, group[pos]? = some a := ⟨group[pos], List.getElem?_eq_getElem hp⟩
    have hs := sizeL_eraseIdx ha
    have hl : (group.eraseIdx pos).length = group.length - 1 := List.length_eraseIdx_of_lt hp
    have hap := a.size_pos
    split at h
    · split at h
      · cases h
      · next x hx =>
        rw [pyGet_nat] at hx
        split at h
        · cases h
        · next g2 hset =>
          obtain ⟨_, rfl⟩ := pySet_nat hset
          simp only [Except.ok.injEq, Prod.mk.injEq] at h
          obtain ⟨rfl, rfl⟩ := h
          have := sizeL_set (v := Node.group g [x] 1) hx
          simp only [Node.size, sizeL] at this
          refine ⟨?_, ?_, ?_, ?_, ?_⟩
          · rw [List.length_set]; omega
          · omega
          · rw [List.length_set]; omega
          · omega
          · rw [List.length_set]; omega
    · simp only [Except.ok.injEq, Prod.mk.injEq] at h
      obtain ⟨rfl, rfl⟩ := h
      exact ⟨by omega, by omega, by omega, by omega, by omega⟩

theorem postfixReplace_ok {g : GK} {group g' : List Node} {pos pos' : Nat} (hp : pos < group.length)
    (h : postfixReplace g group pos = .ok (g', pos')) : ReplOk group g' pos pos' := by
  unfold postfixReplace at h
  split at h
  · cases h
  · next g1 hd =>
    obtain ⟨_, rfl⟩ := pyDel_nat hd
    obtain ⟨a, ha⟩ : ∃ a, group[pos]? = some a := ⟨group[pos], List.getElem?_eq_getElem hp⟩
    have hs := sizeL_eraseIdx ha
    have hl : (group.eraseIdx pos).length = group.length - 1 := List.length_eraseIdx_of_lt hp
    have hap := a.size_pos
    split at h
    · next hpos =>
      rw [pred_cast hpos] at h
      split at h
      · cases h
      · next x hx =>
        rw [pyGet_nat] at hx
        split at h
        · cases h
        · next g2 hset =>
          obtain ⟨_, rfl⟩ := pySet_nat hset
          simp only [Except.ok.injEq, Prod.mk.injEq] at h
          obtain ⟨rfl, rfl⟩ := h
          have := sizeL_set (v := Node.group g [x] 1) hx
          simp only [Node.size, sizeL] at this
          refine ⟨?_, ?_, ?_, ?_, ?_⟩
          · rw [List.length_set]; omega
          · omega
          · rw [List.length_set]; omega
          · omega
          · rw [List.length_set]; omega
    · simp only [Except.ok.injEq, Prod.mk.injEq] at h
      obtain ⟨rfl, rfl⟩ := h
      exact ⟨by omega, by omega, by omega, by omega, by omega⟩

theorem pySplice_length {α} (l : List α) (a b : Nat) (mid : List α) (hab : a ≤ b) (hb : b ≤ l.length) :
    (pySplice l a b mid).length = l.length - (b - a) + mid.length := by
  unfold pySplice
  simp only [List.length_append, List.length_take, List.length_drop]
  omega

/-- three consecutive elements -/
theorem sizeL_three {l : List Node} {p : Nat} {x y z : Node} (hx : l[p]? = some x)
    (hy : l[p+1]? = some y) (hz : l[p+2]? = some z) :
    sizeL l = sizeL (l.take p) + x.size + y.size + z.size + sizeL (l.drop (p+3)) := by
  have hz' := sizeL_drop_get hz
  rw [show p + 2 + 1 = p + 3 from rfl] at hz'
  rw [← sizeL_take_drop l p, sizeL_drop_get hx, sizeL_drop_get hy, hz']; omega


theorem groupOf?_some {g : GK} {n : Node} {ns b} (h : n.groupOf? g = some (ns, b)) : n = .group g ns b := by
  cases n <;> simp [Node.groupOf?] at h
  obtain ⟨rfl, rfl, rfl⟩ := h; rfl

theorem infixReplace_ok {g : GK} {la : Bool} {group g' : List Node} {pos pos' : Nat} (hp : pos < group.length)
    (h : infixReplace g la group pos = .ok (g', pos')) : ReplOk group g' pos pos' := by
  unfold infixReplace at h
  split at h
  · next hr =>
    obtain ⟨hr0, hr1⟩ := hr
    rw [pred_cast hr0, succ_cast] at h
    split at h
    · cases h
    · next left hleft =>
      rw [pyGet_nat] at hleft
      split at h
      · cases h
      · next right hright =>
        rw [pyGet_nat] at hright
        obtain ⟨o, ho⟩ : ∃ a, group[pos]? = some a := ⟨group[pos], List.getElem?_eq_getElem hp⟩
        have hop := o.size_pos
        have e1 : pos - 1 + 1 = pos := by omega
        have e2 : pos - 1 + 2 = pos + 1 := by omega
        have e3 : pos - 1 + 3 = pos + 2 := by omega
        have h3 := sizeL_three (p := pos - 1) hleft (by rw [e1]; exact ho) (by rw [e2]; exact hright)
        rw [e3] at h3
        split at h
        · next ns b hm =>
          have hm' : left.groupOf? g = some (ns, b) := by
            split at hm
            · exact hm
            · cases hm
          have hle := groupOf?_some hm'
          subst hle
          simp only [Except.ok.injEq, Prod.mk.injEq] at h
          obtain ⟨h1, h2⟩ := h
          subst h1; subst h2
          have hl := pySplice_length (group.set (pos - 1) (Node.group g (ns ++ [right]) b)) pos (pos + 2) [] (by omega) (by rw [List.length_set]; omega)
          simp only [List.length_set, List.length_nil] at hl
          refine ⟨by omega, by omega, by omega, ?_, by omega⟩
          unfold pySplice
          have : max pos (pos + 2) = pos + 2 := by omega
          rw [this, sizeL_append, sizeL_append, List.drop_set_of_lt (by omega), List.take_set]
          have hx : (List.take pos group)[pos - 1]? = some (Node.group g ns b) := by
            rw [List.getElem?_take_of_lt (by omega)]; exact hleft
          have := sizeL_set (v := Node.group g (ns ++ [right]) b) hx
          simp only [Node.size, sizeL_append, sizeL] at this
          have h4 := sizeL_take_drop group pos
          have h5 := sizeL_drop_get ho
          have h6 := sizeL_drop_get hright
          rw [show pos + 1 + 1 = pos + 2 from rfl] at h6
          simp only [sizeL]
          omega
        · split at h
          · next ns b hm =>
            have hm' : right.groupOf? g = some (ns, b) := by
              split at hm
              · exact hm
              · cases hm
            have hle := groupOf?_some hm'
            subst hle
            simp only [Except.ok.injEq, Prod.mk.injEq] at h
            obtain ⟨h1, h2⟩ := h
            subst h1; subst h2
            have hl := pySplice_length (group.set (pos + 1) (Node.group g (left :: ns) b)) (pos - 1) (pos + 1) [] (by omega) (by rw [List.length_set]; omega)
            simp only [List.length_set, List.length_nil] at hl
            refine ⟨by omega, by omega, by omega, ?_, by omega⟩
            unfold pySplice
            have : max (pos - 1) (pos + 1) = pos + 1 := by omega
            rw [this, sizeL_append, sizeL_append, List.take_set_of_le (by omega)]
            have hx : (group.set (pos + 1) (Node.group g (left :: ns) b))[pos + 1]? = some (Node.group g (left :: ns) b) := by
              rw [List.getElem?_set_self (by omega)]
            have h7 := sizeL_drop_get hx
            rw [show pos + 1 + 1 = pos + 2 from rfl] at h7
            have h8 : List.drop (pos + 2) (group.set (pos + 1) (Node.group g (left :: ns) b)) = List.drop (pos + 2) group :=
              List.drop_set_of_lt (by omega)
            rw [h8] at h7
            rw [h7, h3]
            simp only [sizeL, Node.size]
            omega
          · simp only [Except.ok.injEq, Prod.mk.injEq] at h
            obtain ⟨h1, h2⟩ := h
            subst h1; subst h2
            have hl := pySplice_length group (pos - 1) (pos + 2) [Node.group g [left, right] 1] (by omega) (by omega)
            simp only [List.length_cons, List.length_nil] at hl
            refine ⟨by omega, by omega, by omega, ?_, by omega⟩
            unfold pySplice
            rw [sizeL_append, sizeL_append, h3]
            have : max (pos - 1) (pos + 2) = pos + 2 := by omega
            rw [this]
            simp only [sizeL, Node.size]; omega
  · split at h
    · cases h
    · next g1 hd =>
      obtain ⟨_, rfl⟩ := pyDel_nat hd
      obtain ⟨a, ha⟩ : ∃ a, group[pos]? = some a := ⟨group[pos], List.getElem?_eq_getElem hp⟩
      have hs := sizeL_eraseIdx ha
      have hl : (group.eraseIdx pos).length = group.length - 1 := List.length_eraseIdx_of_lt hp
      have hap := a.size_pos
      simp only [Except.ok.injEq, Prod.mk.injEq] at h
      obtain ⟨rfl, rfl⟩ := h
      exact ⟨by omega, by omega, by omega, by omega, by omega⟩

/-- body of the left-to-right `while i < len(group)` loop for the tagger `o` -/
def opStepL (o : OpCfg) (group : List Node) (i : Nat) : Except Err (List Node × Nat) :=
  match pyGet group i with
  | .error e => .error e
  | .ok (.op t g la _) =>
    if t = o.t ∧ g = o.g then replaceSelf t g la group i else .ok (group, i + 1)
  | .ok _ => .ok (group, i + 1)

theorem replaceSelf_ok {t : OpT} {g : GK} {la : Bool} {group g' : List Node} {pos pos' : Nat}
    (hp : pos < group.length) (h : replaceSelf t g la group pos = .ok (g', pos')) :
    ReplOk group g' pos pos' := by
  cases t
  · exact prefixReplace_ok hp h
  · exact postfixReplace_ok hp h
  · exact infixReplace_ok hp h

theorem opStepL_ok {o : OpCfg} {group g' : List Node} {i i' : Nat} (hi : i < group.length)
    (h : opStepL o group i = .ok (g', i')) :
    g'.length - i' < group.length - i ∧ sizeL g' ≤ sizeL group := by
  unfold opStepL at h
  split at h
  · cases h
  · split at h
    · have := replaceSelf_ok hi h
      exact ⟨this.hdec, this.hsize⟩
    · simp only [Except.ok.injEq, Prod.mk.injEq] at h
      obtain ⟨rfl, rfl⟩ := h
      exact ⟨by omega, by omega⟩
  · simp only [Except.ok.injEq, Prod.mk.injEq] at h
    obtain ⟨rfl, rfl⟩ := h
    exact ⟨by omega, by omega⟩

/-- `i = 0; while i < len(group): ...` for a left-associative tagger -/
def opLoopL (o : OpCfg) (group : List Node) (i : Nat) : Except Err (List Node) :=
  if h : i < group.length then
    match hs : opStepL o group i with
    | .error e => .error e
    | .ok (g', i') => opLoopL o g' i'
  else .ok group
termination_by group.length - i
decreasing_by exact (opStepL_ok h hs).1

/-- body of the right-to-left loop (`i >= 0` on entry, `i` as a natural number): only the
    operator *class* is tested (`isinstance(t, optype)`), not its group type.  Returns the
    position returned by `replace_self` (or `i`), before the `i -= 1`. -/
def opStepR (o : OpCfg) (group : List Node) (i : Nat) : Except Err (List Node × Nat) :=
  match pyGet group i with
  | .error e => .error e
  | .ok (.op t g la _) =>
    if t = o.t then replaceSelf t g la group i else .ok (group, i)
  | .ok _ => .ok (group, i)

theorem opStepR_ok {o : OpCfg} {group g' : List Node} {i i' : Nat}
    (h : opStepR o group i = .ok (g', i')) : i' ≤ i ∧ sizeL g' ≤ sizeL group := by
  unfold opStepR at h
  split at h
  · cases h
  · next hg =>
    have hi : i < group.length := get?_lt (pyGet_nat.1 hg)
    split at h
    · have := replaceSelf_ok hi h
      exact ⟨this.hpos, this.hsize⟩
    · simp only [Except.ok.injEq, Prod.mk.injEq] at h
      obtain ⟨rfl, rfl⟩ := h
      exact ⟨by omega, by omega⟩
  · simp only [Except.ok.injEq, Prod.mk.injEq] at h
    obtain ⟨rfl, rfl⟩ := h
    exact ⟨by omega, by omega⟩

/-- `i = len(group) - 1; while i >= 0: ...; i -= 1`; the argument is `i + 1` -/
def opLoopR (o : OpCfg) (group : List Node) (i1 : Nat) : Except Err (List Node) :=
  if h : 0 < i1 then
    match hs : opStepR o group (i1 - 1) with
    | .error e => .error e
    | .ok (g', i') => opLoopR o g' i'
  else .ok group
termination_by i1
decreasing_by have := (opStepR_ok hs).1; omega

/-- one tagger of `self.ops` -/
def opPass (group : List Node) (o : OpCfg) : Except Err (List Node) :=
  if o.la then opLoopL o group 0 else opLoopR o group group.length

/-- `for tagger, _ in self.ops:` -/
def opPasses (ops : List OpCfg) (group : List Node) : Except Err (List Node) :=
  match ops with
  | [] => .ok group
  | o :: rest =>
    match opPass group o with
    | .error e => .error e
    | .ok g' => opPasses rest g'

theorem opLoopL_size {o : OpCfg} {group g' : List Node} {i : Nat} (h : opLoopL o group i = .ok g') :
    sizeL g' ≤ sizeL group := by
  fun_induction opLoopL o group i with
  | case1 group i hi e hs => cases h
  | case2 group i hi g1 i1 hs ih =>
    have := (opStepL_ok hi hs).2
    have := ih h
    omega
  | case3 group i hi =>
    injection h with h; subst h; omega

theorem opLoopR_size {o : OpCfg} {group g' : List Node} {i : Nat} (h : opLoopR o group i = .ok g') :
    sizeL g' ≤ sizeL group := by
  fun_induction opLoopR o group i with
  | case1 group i hi e hs => cases h
  | case2 group i hi g1 i1 hs ih =>
    have := (opStepR_ok hs).2
    have := ih h
    omega
  | case3 group i hi =>
    injection h with h; subst h; omega

theorem opPasses_size {ops : List OpCfg} {group g' : List Node} (h : opPasses ops group = .ok g') :
    sizeL g' ≤ sizeL group := by
  induction ops generalizing group with
  | nil => unfold opPasses at h; injection h with h; subst h; omega
  | cons o rest ih =>
    unfold opPasses at h
    split at h
    · cases h
    · next g1 hp =>
      have h1 : sizeL g1 ≤ sizeL group := by
        unfold opPass at hp
        split at hp
        · exact opLoopL_size hp
        · exact opLoopR_size hp
      have := ih h
      omega

/-- `do_operators`: all taggers over this group's list, then the recursive descent into every
    group node that is now in the list. -/
def doOperators (ops : List OpCfg) : Node → Except Err Node
  | .group k ns b =>
    match hp : opPasses ops ns with
    | .error e => .error e
    | .ok ns1 => do
      let ns2 ← ns1.attach.mapM (fun ⟨n, _⟩ => doOperators ops n)
      pure (.group k ns2 b)
  | n => pure n
termination_by n => n.size
decreasing_by
  all_goals simp_wf
  rename_i h
  have := size_mem h
  have := opPasses_size hp
  simp only [Node.size] at *; omega

/-! ## `PlusMinusPlugin.do_plusminus` -/

inductive PMNext | optional | required | banned
  deriving DecidableEq, Repr

/-- the `for node in group` loop: (required, optional, banned) node lists -/
def plusMinusLoop : List Node → PMNext → List Node → List Node → List Node →
    List Node × List Node × List Node
  | [], _, req, opt, ban => (req, opt, ban)
  | .plus :: rest, _, req, opt, ban => plusMinusLoop rest .required req opt ban
  | .minus :: rest, _, req, opt, ban => plusMinusLoop rest .banned req opt ban
  | n :: rest, nx, req, opt, ban =>
    match nx with
    | .optional => plusMinusLoop rest .optional req (opt ++ [n]) ban
    | .required => plusMinusLoop rest .optional (req ++ [n]) opt ban
    | .banned => plusMinusLoop rest .optional req opt (ban ++ [n])

/-- `do_plusminus`: `optional = group.empty_copy()`; sub-groups are processed when they are met
    in the loop (here: before it, the loop does not look into a node it files). -/
def doPlusMinus : Node → Node
  | .group k ns b =>
    match plusMinusLoop (ns.map doPlusMinus) .optional [] [] [] with
    | (req, opt, ban) =>
      if req.isEmpty then
        if ban.isEmpty then .group k opt b
        else .group .andnot [.group k opt b, .group .or ban 1] 1
      else
        if ban.isEmpty then .group .andmaybe [.group .and req 1, .group k opt b] 1
        else .group .andnot [.group .andmaybe [.group .and req 1, .group k opt b] 1, .group .or ban 1] 1
  | n => n
termination_by n => n.size
decreasing_by
  all_goals simp_wf
  rename_i h; have := size_mem h; simp only [Node.size] at *; omega

/-! ## `MultifieldPlugin.do_multifield` -/

def doMultifield (c : Cfg) : Node → Node
  | .group k ns b => .group k (ns.map (doMultifield c)) b
  | n =>
    if n.hasFieldname ∧ n.fieldname.isNone then
      .group c.mfGroup (c.mfFields.map fun (fname, boost) => setBoost boost (setFieldname fname false n)) 1
    else n
termination_by n => n.size
decreasing_by
  all_goals simp_wf
  rename_i h; have := size_mem h; simp only [Node.size] at *; omega

/-! ## `GtLtPlugin.do_gtlt`, `make_range` -/

/-- `make_range(node, rel)` (`rel` is one of the six strings the tagger's expression matches, so
    the `if/elif` chain of the Python code always binds `n`) -/
def makeRange (text : Str) : Rel → Node
  | .lt => .range none (some text) false true none
  | .gt => .range (some text) none true false none
  | .le | .el => .range none (some text) false false none
  | .ge | .eg => .range (some text) none false false none

/-- one iteration of the `while i < len(group)` loop: new `i` (before the final `i += 1`) and
    the new `newgroup`.  Sub-groups have already been processed. -/
def gtltStep (group : List Node) (i : Nat) (acc : List Node) : Except Err (Nat × List Node) :=
  match pyGet group i with
  | .error e => .error e
  | .ok (.gtlt rel) =>
    -- if i < lasti and newgroup:  (lasti = len(group) - 1)
    if i + 1 < group.length ∧ !acc.isEmpty then
      -- prevnode = newgroup[-1]
      match pyGet acc (-1) with
      | .error e => .error e
      | .ok prevnode =>
        match pyGet group ((i : Int) + 1) with
        | .error e => .error e
        | .ok nextnode =>
          match prevnode, nextnode with
          | .fname .., .text _ t _ _ => .ok (i + 1, acc ++ [makeRange t rel])
          | _, _ => .ok (i, acc)
    else .ok (i, acc)
  | .ok n => .ok (i, acc ++ [n])

theorem gtltStep_ge {group acc acc' : List Node} {i i' : Nat}
    (h : gtltStep group i acc = .ok (i', acc')) : i ≤ i' := by
  unfold gtltStep at h
  split at h
  · cases h
  · split at h
    · split at h
      · cases h
      · split at h
        · cases h
        · split at h
          · simp only [Except.ok.injEq, Prod.mk.injEq] at h; omega
          · simp only [Except.ok.injEq, Prod.mk.injEq] at h; omega
    · simp only [Except.ok.injEq, Prod.mk.injEq] at h; omega
  · simp only [Except.ok.injEq, Prod.mk.injEq] at h; omega

def gtltLoop (group : List Node) (i : Nat) (acc : List Node) : Except Err (List Node) :=
  if h : i < group.length then
    match hs : gtltStep group i acc with
    | .error e => .error e
    | .ok (i', acc') => gtltLoop group (i' + 1) acc'
  else .ok acc
termination_by group.length - i
decreasing_by have := gtltStep_ge hs; omega

/-- `do_gtlt` (the list is not mutated, so processing the sub-groups first is the same thing) -/
def doGtLt : Node → Except Err Node
  | .group k ns b => do
    let ns0 ← ns.mapM doGtLt
    let ns1 ← gtltLoop ns0 0 []
    pure (.group k ns1 b)
  | n => pure n
termination_by n => n.size
decreasing_by
  all_goals simp_wf
  rename_i h; have := size_mem h; simp only [Node.size] at *; omega

/-! ## `FuzzyTermPlugin.do_fuzzyterms` -/

/-- one iteration: new `i` (before the final `i += 1`) and the node appended -/
def fuzzyStep (group : List Node) (i : Nat) : Except Err (Nat × Node) :=
  match pyGet group i with
  | .error e => .error e
  | .ok node =>
    match node with
    | .text .word t f b =>
      -- if i < len(group) - 1 and isinstance(node, syntax.WordNode):
      if i + 1 < group.length then
        match pyGet group ((i : Int) + 1) with
        | .error e => .error e
        | .ok (.fuzz md pl _) => .ok (i + 1, .text (.fuzzy md pl) t f b)
        | .ok _ => .ok (i, node)
      else .ok (i, node)
    | .fuzz _ _ o => .ok (i, toWord o)
    | n => .ok (i, n)

theorem fuzzyStep_ge {group : List Node} {i i' : Nat} {n : Node}
    (h : fuzzyStep group i = .ok (i', n)) : i ≤ i' := by
  unfold fuzzyStep at h
  split at h
  · cases h
  · split at h
    · split at h
      · split at h
        · cases h
        · simp only [Except.ok.injEq, Prod.mk.injEq] at h; omega
        · simp only [Except.ok.injEq, Prod.mk.injEq] at h; omega
      · simp only [Except.ok.injEq, Prod.mk.injEq] at h; omega
    · simp only [Except.ok.injEq, Prod.mk.injEq] at h; omega
    · simp only [Except.ok.injEq, Prod.mk.injEq] at h; omega

def fuzzyLoop (group : List Node) (i : Nat) (acc : List Node) : Except Err (List Node) :=
  if h : i < group.length then
    match hs : fuzzyStep group i with
    | .error e => .error e
    | .ok (i', n) => fuzzyLoop group (i' + 1) (acc ++ [n])
  else .ok acc
termination_by group.length - i
decreasing_by have := fuzzyStep_ge hs; omega

/-- `do_fuzzyterms` (sub-groups first: the list is not mutated) -/
def doFuzzy : Node → Except Err Node
  | .group k ns b => do
    let ns0 ← ns.mapM doFuzzy
    let ns1 ← fuzzyLoop ns0 0 []
    pure (.group k ns1 b)
  | n => pure n
termination_by n => n.size
decreasing_by
  all_goals simp_wf
  rename_i h; have := size_mem h; simp only [Node.size] at *; omega

/-! ## `CopyFieldPlugin.do_copyfield`, `FieldAliasPlugin.do_aliases` -/

/-- `node.fieldname or parser.fieldname` -/
def orDefault (f d : Option Str) : Option Str :=
  match f with
  | some (x :: xs) => some (x :: xs)
  | _ => d

def doCopyfield (c : Cfg) : Node → Node
  | .group k ns b => .group k (ns.foldl (fun acc n =>
      match n with
      | .group .. => acc ++ [doCopyfield c n]
      | n =>
        if n.hasFieldname then
          match (orDefault n.fieldname c.defField).bind (lookup c.copyMap) with
          | some dest =>
            (match c.copyGroup with
             | none => acc ++ [n, setFieldname dest true n]
             | some g => acc ++ [.group g [n, setFieldname dest true n] 1])
          | none => acc ++ [n]
        else acc ++ [n]) []) b
  | n => n
termination_by n => n.size
decreasing_by
  all_goals simp_wf
  rename_i h; have := size_mem h; simp only [Node.size] at *; omega

def doAliases (c : Cfg) : Node → Node
  | .group k ns b => .group k (ns.map (doAliases c)) b
  | n =>
    if n.hasFieldname then
      match n.fieldname.bind (lookup c.aliases) with
      | some real => setFieldname real true n
      | none => n
    else n
termination_by n => n.size
decreasing_by
  all_goals simp_wf
  rename_i h; have := size_mem h; simp only [Node.size] at *; omega

/-! ## `QueryParser._priorized`, `filterize` -/

/-- insert keeping equal priorities in arrival order (`list.sort` is stable) -/
def insertByPrio (x : FilterId × Int) : List (FilterId × Int) → List (FilterId × Int)
  | [] => [x]
  | y :: ys => if x.2 < y.2 then x :: y :: ys else y :: insertByPrio x ys

def priorized (fs : List (FilterId × Int)) : List FilterId :=
  (fs.foldl (fun acc x => insertByPrio x acc) []).map (·.1)

/-- one filter applied to the group node -/
def applyFilter (c : Cfg) (f : FilterId) (n : Node) : Except Err Node :=
  match f with
  | .groups => match n with
    | .group _ ns _ => .ok (doGroups c.group ns)
    | n => .ok n
  | .cleanBoost => .ok (cleanBoost n)
  | .fuzzy => doFuzzy n
  | .wildcards => doWildcards n
  | .aliases => .ok (doAliases c n)
  | .gtlt => doGtLt n
  | .fieldnames => doFieldnames c n
  | .copyfield => .ok (doCopyfield c n)
  | .multifield => .ok (doMultifield c n)
  | .rmws => .ok (rmWs n)
  | .boost => .ok (doBoost n)
  | .plusminus => .ok (doPlusMinus n)
  | .operators => doOperators c.ops n

def applyFilters (c : Cfg) : List FilterId → Node → Except Err Node
  | [], n => .ok n
  | f :: fs, n =>
    match applyFilter c f n with
    | .error e => .error e
    | .ok n' => applyFilters c fs n'

/-- `filterize(tag(text))`: `ns` is the flat tagged node list, wrapped in `parser.group(...)` -/
def filterize (c : Cfg) (ns : List Node) : Except Err Node :=
  applyFilters c (priorized c.filters) (.group c.group ns 1)

/-! ## `query()` of the group nodes -/

/-- Query objects as far as the group nodes build them; a leaf is whatever the field produced. -/
inductive Q
  | leaf (id : Nat) (truthy : Bool)
  | null
  | compound (k : GK) (subs : List Q) (b : Rat)
  | not (q : Q)
  | binary (k : GK) (a b : Q)
  deriving Repr, Inhabited

/-- `bool(q)`: only `CompoundQuery.__len__` can make a query falsy -/
def Q.truthy : Q → Bool
  | .leaf _ t => t
  | .compound _ subs _ => !subs.isEmpty
  | _ => true

/-- what `node.query(parser)` did for a leaf node (the field/analyzer layer is not modelled) -/
inductive LeafRes
  | none | q (id : Nat) (truthy : Bool) | err (e : Err)
  deriving Repr, Inhabited

/-- `node.query(parser)`.  `o` answers for the leaves (text, range, every). -/
def query (o : Node → LeafRes) : Node → Except Err (Option Q)
  | .group k ns b =>
    match k with
    | .not =>
      -- Wrapper.query: q = self.nodes[0].query(parser); if q: return self.qclass(q)
      -- (if not self.nodes: return None)
      match ns with
      | [] => pure none
      | n0 :: _ => do
        let r ← query o n0
        match r with
        | some q => if q.truthy then pure (some (.not q)) else pure none
        | none => pure none
    | .andnot | .andmaybe | .require =>
      -- BinaryGroup.query: assert len(nodes) <= 2; a missing operand counts as None
      match ns with
      | [] => pure (some .null)
      | [a] => do
        let qa ← query o a
        match qa with
        | none => pure (some .null)
        | some q => pure (some q)
      | [a, b'] => do
        let qa ← query o a
        let qb ← query o b'
        match qa, qb with
        | none, none => pure (some .null)
        | none, some q => pure (some q)
        | some q, none => pure (some q)
        | some q1, some q2 => pure (some (.binary k q1 q2))
      | _ => .error .assertion
    | _ => do
      -- GroupNode.query
      let qs ← ns.mapM (query o)
      pure (some (.compound k (qs.filterMap id) b))
  | .text k t f b =>
    match o (.text k t f b) with
    | .none => pure none
    | .q id tr => pure (some (.leaf id tr))
    | .err e => .error e
  | .range s e sx ex f =>
    match o (.range s e sx ex f) with
    | .none => pure none
    | .q id tr => pure (some (.leaf id tr))
    | .err e => .error e
  | .every =>
    match o .every with
    | .none => pure none
    | .q id tr => pure (some (.leaf id tr))
    | .err e => .error e
  | _ => .error .notImplemented
termination_by n => n.size
decreasing_by
  all_goals simp_wf
  all_goals simp only [Node.size, sizeL]
  all_goals first
    | omega
    | (rename_i h; have := size_mem h; omega)

/-- the end of `parse`: `if not q: q = query.NullQuery` -/
def finish (r : Option Q) : Q :=
  match r with
  | some q => if q.truthy then q else .null
  | none => .null

end WM.Parser
