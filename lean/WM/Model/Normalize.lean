/-
Executable mirror of whoosh's query rewriting (property C15).

Mirrors, function by function (tree = /repo/src/whoosh plus the `fix:` commits of branch
`fam-normalize`):

* `query/compound.py`  `CompoundQuery.normalize` (flatten, all-Null test, unfielded `Every`,
  range/`Every` merging loop, de-duplication, Null removal, single-child unwrapping),
  `CompoundQuery.field/apply/simplify/estimate_size`, `And.estimate_size`,
  `BinaryQuery.normalize/field/with_boost/apply/simplify`, `AndNot/AndMaybe/Require.normalize`,
  `AndNot/Require.with_boost`, `Require.estimate_size`
* `query/qcore.py`     `Query.normalize/with_boost/replace/accept/apply/field/simplify`,
  `__and__/__or__/__sub__`, `_NullQuery`, `Every`
* `query/ranges.py`    `RangeMixin._comparable_start/_comparable_end/overlaps/merge`,
  `TermRange.normalize`
* `query/terms.py`     `Term.replace/estimate_size`, `MultiTerm.simplify/estimate_size`,
  `Wildcard.normalize`, `FuzzyTerm/Variations.replace`
* `query/positional.py` `Sequence.normalize/apply/simplify/estimate_size`,
  `Phrase.normalize/replace/estimate_size`
* `query/wrappers.py`  `Not.normalize/apply/field/estimate_size`, `WrappingQuery.field/with_boost/apply/
  estimate_size` (for `ConstantScoreQuery`)

Conventions: field names are `Nat` ids, terms are lists of code points (`List Nat`, ordered
lexicographically like Python `str`), boosts are exact `Rat`s.  Python object equality/hash as used
by the de-duplication set is structural equality of the attributes that take part in `__eq__` or
`__hash__` (`Q.beq`).  Attributes that never influence rewriting or matching (`Or.minmatch`,
`Or.scale`, `DisjunctionMax.tiebreak`, `Term.minquality`, `Phrase.char_ranges`, `startchar/endchar`)
are not modelled.
-/
namespace WM.Normalize

abbrev Text := List Nat
abbrev Field := Nat

/-- `And` / `Or` / `DisjunctionMax` (the three classes that use `CompoundQuery.normalize`). -/
inductive CK where
  | and | or | dismax
  deriving DecidableEq, Repr, Inhabited

/-- `AndNot` / `AndMaybe` / `Require` / `Otherwise`. -/
inductive BK where
  | andnot | andmaybe | require | otherwise
  deriving DecidableEq, Repr, Inhabited

/-- Query trees.  `multi` stands for the multi-term leaves that no rewrite looks into:
    kind 0 `FuzzyTerm`, 1 `Variations`, 2 `Regex`, 3 `NumericRange`/`DateRange`; `key` is an
    injective code of the remaining attributes.  `seq cls` is `Sequence` (`cls = false`) or
    `Ordered` (`cls = true`).  `opq fld code` is a span query of `query/spans.py` (`SpanFirst`,
    `SpanNear`, `SpanNear2`, `SpanOr`, `SpanNot`, `SpanContains`, `SpanBefore`, `SpanCondition`): an
    opaque leaf for every rewrite (`normalize`/`simplify` are inherited from `Query` and return
    `self`; `with_boost` only sets an attribute nothing reads; `apply`-based rewrites rebuild it with
    all constructor arguments); `code` is the canonical text of the whole node (class, every
    constructor argument, subqueries), `fld` what `field()` returns (`SpanQuery.field` is `None`,
    `WrappingSpan.field` the field of the wrapped query). -/
inductive Q where
  | null
  | every (f : Option Field) (boost : Rat)
  | term (f : Field) (t : Text) (boost : Rat)
  | pre (f : Field) (t : Text) (boost : Rat) (cs : Bool)
  | wild (f : Field) (t : Text) (boost : Rat) (cs : Bool)
  | multi (kind : Nat) (f : Field) (t : Text) (key : Nat) (boost : Rat)
  | range (f : Field) (lo hi : Option Text) (lox hix : Bool) (boost : Rat) (cs : Bool)
  | phrase (f : Field) (ws : List Text) (slop : Nat) (boost : Rat)
  | comp (k : CK) (qs : List Q) (boost : Rat)
  | seq (cls : Bool) (qs : List Q) (slop : Nat) (ordered : Bool) (boost : Rat)
  | not (q : Q) (boost : Rat)
  | bin (k : BK) (a b : Q)
  | const (q : Q) (score : Rat)
  | opq (fld : Option Field) (code : List Nat)
  deriving Repr, Inhabited

/-! ### Equality as used by `s in seenqs` (`__eq__` + `__hash__`) -/

mutual
def Q.beq : Q → Q → Bool
  | .null, .null => true
  | .every f b, .every f' b' => f == f' && b == b'
  | .term f t b, .term f' t' b' => f == f' && t == t' && b == b'
  | .pre f t b c, .pre f' t' b' c' => f == f' && t == t' && b == b' && c == c'
  | .wild f t b c, .wild f' t' b' c' => f == f' && t == t' && b == b' && c == c'
  | .multi k f t key b, .multi k' f' t' key' b' =>
      k == k' && f == f' && t == t' && key == key' && b == b'
  | .range f lo hi lx hx b c, .range f' lo' hi' lx' hx' b' c' =>
      f == f' && lo == lo' && hi == hi' && lx == lx' && hx == hx' && b == b' && c == c'
  | .phrase f ws s b, .phrase f' ws' s' b' => f == f' && ws == ws' && s == s' && b == b'
  | .comp k qs b, .comp k' qs' b' => k == k' && Q.beqList qs qs' && b == b'
  | .seq c qs s o b, .seq c' qs' s' o' b' =>
      c == c' && Q.beqList qs qs' && s == s' && o == o' && b == b'
  | .not q b, .not q' b' => Q.beq q q' && b == b'
  | .bin k a b, .bin k' a' b' => k == k' && Q.beq a a' && Q.beq b b'
  | .const q s, .const q' s' => Q.beq q q' && s == s'
  | .opq f c, .opq f' c' => f == f' && c == c'
  | _, _ => false
def Q.beqList : List Q → List Q → Bool
  | [], [] => true
  | a :: as, b :: bs => Q.beq a b && Q.beqList as bs
  | _, _ => false
end

instance : BEq Q := ⟨Q.beq⟩

/-! ### Attribute access -/

/-- `q is qcore.NullQuery`. -/
def Q.isNull : Q → Bool
  | .null => true
  | _ => false

/-- `isinstance(q, Every)`. -/
def Q.isEvery : Q → Bool
  | .every _ _ => true
  | _ => false

/-- `isinstance(q, Every) and q.fieldname is None`. -/
def Q.isEveryAll : Q → Bool
  | .every none _ => true
  | _ => false

/-- `getattr(q, "boost", 1.0)`: `BinaryQuery.boost` and `_NullQuery.boost` are class attributes
    `1.0`; `ConstantScoreQuery` has no boost. -/
def Q.boostOf : Q → Rat
  | .null => 1
  | .every _ b => b
  | .term _ _ b => b
  | .pre _ _ b _ => b
  | .wild _ _ b _ => b
  | .multi _ _ _ _ b => b
  | .range _ _ _ _ _ b _ => b
  | .phrase _ _ _ b => b
  | .comp _ _ b => b
  | .seq _ _ _ _ b => b
  | .not _ b => b
  | .bin _ _ _ => 1
  | .const _ _ => 1
  | .opq _ _ => 1

mutual
/-- `Query.field()` and its overrides (`CompoundQuery.field`, `BinaryQuery.field`, `Not.field`,
    `WrappingQuery.field`, `_NullQuery.field`). -/
def Q.field : Q → Option Field
  | .null => none
  | .every f _ => f
  | .term f _ _ => some f
  | .pre f _ _ _ => some f
  | .wild f _ _ _ => some f
  | .multi _ f _ _ _ => some f
  | .range f _ _ _ _ _ _ => some f
  | .phrase f _ _ _ => some f
  | .comp _ qs _ => Q.fieldList qs
  | .seq _ qs _ _ _ => Q.fieldList qs
  | .not _ _ => none
  | .bin _ a b => if Q.field b == Q.field a then Q.field a else none
  | .const q _ => Q.field q
  | .opq f _ => f
/-- `CompoundQuery.field`: the field of the first subquery if all others agree, else `None`. -/
def Q.fieldList : List Q → Option Field
  | [] => none
  | q :: qs => if Q.fieldAll (Q.field q) qs then Q.field q else none
/-- `all(q.field() == f for q in subqueries[1:])`. -/
def Q.fieldAll (f : Option Field) : List Q → Bool
  | [] => true
  | q :: qs => (Q.field q == f) && Q.fieldAll f qs
end

mutual
/-- `with_boost`: `Query.with_boost` (copy, set `boost`), `BinaryQuery.with_boost` (both sides),
    `AndNot/Require.with_boost` (left side only), `WrappingQuery.with_boost` (push into the child).
    `NullQuery.with_boost` returns the singleton. -/
def Q.withBoost : Q → Rat → Q
  | .null, _ => .null
  | .every f _, b => .every f b
  | .term f t _, b => .term f t b
  | .pre f t _ c, b => .pre f t b c
  | .wild f t _ c, b => .wild f t b c
  | .multi k f t key _, b => .multi k f t key b
  | .range f lo hi lx hx _ c, b => .range f lo hi lx hx b c
  | .phrase f ws s _, b => .phrase f ws s b
  | .comp k qs _, b => .comp k qs b
  | .seq c qs s o _, b => .seq c qs s o b
  | .not q _, b => .not q b
  | .bin .andnot x y, b => .bin .andnot (Q.withBoost x b) y
  | .bin .require x y, b => .bin .require (Q.withBoost x b) y
  | .bin .andmaybe x y, b => .bin .andmaybe (Q.withBoost x b) (Q.withBoost y b)
  | .bin .otherwise x y, b => .bin .otherwise (Q.withBoost x b) (Q.withBoost y b)
  | .const q s, b => .const (Q.withBoost q b) s
  | .opq f c, _ => .opq f c
end

/-! ### Ranges (`query/ranges.py`) -/

/-- First component of a comparable: `Lowest`, a term, or `Highest`. -/
inductive Bnd where
  | lo | val (t : Text) | hi
  deriving DecidableEq, Repr, Inhabited

/-- Python's `<` between the first components (`qcore.Lowest/Highest.__lt__`, `str.__lt__`). -/
def Bnd.lt : Bnd → Bnd → Bool
  | .lo, .lo => false
  | .lo, _ => true
  | .val _, .lo => false
  | .val a, .val b => decide (a < b)
  | .val _, .hi => true
  | .hi, _ => false

/-- A comparable `(value, adjustment)` as built by `_comparable_start/_comparable_end`. -/
structure Cmp where
  b : Bnd
  adj : Int
  deriving DecidableEq, Repr, Inhabited

/-- Python tuple `<=`: lexicographic. -/
def Cmp.le (x y : Cmp) : Bool := Bnd.lt x.b y.b || (x.b == y.b && decide (x.adj ≤ y.adj))

/-- `max(a, b)` on tuples (first argument on ties). -/
def Cmp.max (a b : Cmp) : Cmp := if Cmp.le b a then a else b
/-- `min(a, b)` on tuples (first argument on ties). -/
def Cmp.min (a b : Cmp) : Cmp := if Cmp.le a b then a else b

/-- `RangeMixin._comparable_start`. -/
def cmpStart (lo : Option Text) (lox : Bool) : Cmp :=
  match lo with
  | none => ⟨.lo, 0⟩
  | some t => ⟨.val t, if lox then 1 else 0⟩

/-- `RangeMixin._comparable_end`. -/
def cmpEnd (hi : Option Text) (hix : Bool) : Cmp :=
  match hi with
  | none => ⟨.hi, 0⟩
  | some t => ⟨.val t, if hix then -1 else 0⟩

/-- The attributes of a `TermRange` that `overlaps`/`merge` read. -/
structure Rng where
  f : Field
  lo : Option Text
  hi : Option Text
  lox : Bool
  hix : Bool
  boost : Rat
  cs : Bool
  deriving Repr, Inhabited, DecidableEq

def Rng.toQ (r : Rng) : Q := .range r.f r.lo r.hi r.lox r.hix r.boost r.cs

/-- `isinstance(q, TermRange)` with its attributes. -/
def Q.asRange : Q → Option Rng
  | .range f lo hi lx hx b c => some ⟨f, lo, hi, lx, hx, b, c⟩
  | _ => none

/-- `RangeMixin.overlaps` (both arguments `TermRange`s). -/
def Rng.overlaps (a b : Rng) : Bool :=
  if a.f != b.f then false else
  let s1 := cmpStart a.lo a.lox
  let s2 := cmpStart b.lo b.lox
  let e1 := cmpEnd a.hi a.hix
  let e2 := cmpEnd b.hi b.hix
  (Cmp.le s2 s1 && Cmp.le s1 e2) || (Cmp.le s2 e1 && Cmp.le e1 e2)
    || (Cmp.le s1 s2 && Cmp.le s2 e1) || (Cmp.le s1 e2 && Cmp.le e2 e1)

/-- `startval`/`endval` of `merge`: `None if x[0] is Lowest/Highest else x[0]`. -/
def Bnd.toOpt : Bnd → Option Text
  | .val t => some t
  | _ => none

/-- `RangeMixin.merge(other, intersect)`. -/
def Rng.merge (a b : Rng) (intersect : Bool) : Rng :=
  let s1 := cmpStart a.lo a.lox
  let s2 := cmpStart b.lo b.lox
  let e1 := cmpEnd a.hi a.hix
  let e2 := cmpEnd b.hi b.hix
  let (s, e) :=
    if Cmp.le s2 s1 && Cmp.le e1 e2 then (s2, e2)
    else if Cmp.le s1 s2 && Cmp.le e2 e1 then (s1, e1)
    else if intersect then (Cmp.max s1 s2, Cmp.min e1 e2)
    else (Cmp.min s1 s2, Cmp.max e1 e2)
  { f := a.f, lo := s.b.toOpt, hi := e.b.toOpt, lox := s.adj == 1, hix := e.adj == -1,
    boost := if a.boost < b.boost then b.boost else a.boost, cs := a.cs || b.cs }

/-- The text `u"￿"` that `TermRange.normalize` treats as "no upper bound". -/
def maxText : Text := [0xFFFF]

/-- `TermRange.normalize`. -/
def Rng.normalize (r : Rng) : Q :=
  if (r.lo == none || r.lo == some []) && (r.hi == none || r.hi == some maxText) then
    .every (some r.f) r.boost
  else if r.lo == r.hi then
    if r.lox || r.hix then .null
    else match r.lo with
      | some t => .term r.f t r.boost
      | none => .null  -- unreachable: `lo = hi = none` is caught by the first test
  else .range r.f r.lo r.hi r.lox r.hix r.boost true

/-! ### Leaves -/

def starC : Nat := 42   -- '*'
def qmarkC : Nat := 63  -- '?'
def lbrC : Nat := 91    -- '['

/-- `Wildcard.normalize` (with the `fix:` that leaves patterns containing `[` alone). -/
def wildNormalize (f : Field) (t : Text) (b : Rat) (cs : Bool) : Q :=
  if t == [starC] then .every (some f) b
  else if t.contains lbrC then .wild f t b cs
  else if !t.contains starC && !t.contains qmarkC then .term f t b
  else if !t.contains qmarkC && t.getLast? == some starC && t.idxOf starC == t.length - 1 then
    .pre f t.dropLast b true
  else .wild f t b cs

/-- `Phrase.normalize` (words are never `None` in the model). -/
def phraseNormalize (f : Field) (ws : List Text) (slop : Nat) (b : Rat) : Q :=
  match ws with
  | [] => .null
  | [w] => .term f w 1
  | _ => .phrase f ws slop b

/-! ### `CompoundQuery.normalize` -/

def CK.intersect : CK → Bool
  | .and => true
  | _ => false

/-- "Normalize subqueries and merge nested instances of this class" (the subqueries are already
    normalized): a nested instance of the same class is replaced by its subqueries, each
    re-boosted with `ss.with_boost(getattr(ss, "boost", 1.0) * s.boost)`. -/
def flatten (k : CK) : List Q → List Q
  | [] => []
  | .comp k' ss b :: rest =>
    if k' = k then ss.map (fun x => x.withBoost (x.boostOf * b)) ++ flatten k rest
    else .comp k' ss b :: flatten k rest
  | s :: rest => s :: flatten k rest

/-- One scan `j = i+1 ..` of the inner `while`: returns the first later `TermRange` that overlaps
    `q` (removed from the list) or `none`. -/
def popOverlap (q : Rng) : List Q → Option (Rng × List Q)
  | [] => none
  | s :: rest =>
    match s.asRange with
    | some r =>
      if q.overlaps r then some (r, rest)
      else (popOverlap q rest).map fun (r', rest') => (r', s :: rest')
    | none => (popOverlap q rest).map fun (r', rest') => (r', s :: rest')

theorem popOverlap_length {q : Rng} {l : List Q} {r : Rng} {l' : List Q}
    (h : popOverlap q l = some (r, l')) : l'.length < l.length := by
  induction l generalizing r l' with
  | nil => simp [popOverlap] at h
  | cons s rest ih =>
    unfold popOverlap at h
    split at h
    · split at h
      · simp only [Option.some.injEq, Prod.mk.injEq] at h
        obtain ⟨_, rfl⟩ := h
        simp
      · cases hp : popOverlap q rest with
        | none => simp [hp] at h
        | some p =>
          obtain ⟨r', rest'⟩ := p
          simp only [hp, Option.map_some, Option.some.injEq, Prod.mk.injEq] at h
          obtain ⟨_, rfl⟩ := h
          have := ih hp
          simp only [List.length_cons]
          omega
    · cases hp : popOverlap q rest with
      | none => simp [hp] at h
      | some p =>
        obtain ⟨r', rest'⟩ := p
        simp only [hp, Option.map_some, Option.some.injEq, Prod.mk.injEq] at h
        obtain ⟨_, rfl⟩ := h
        have := ih hp
        simp only [List.length_cons]
        omega

/-- The inner `while j < len(subqueries)` loop: merge every later overlapping `TermRange` into
    `q`, restarting the scan after each merge (the `fix:` for idempotence). -/
def absorb (intersect : Bool) (q : Rng) (rest : List Q) : Rng × List Q :=
  match _h : popOverlap q rest with
  | none => (q, rest)
  | some (r, rest') => absorb intersect (q.merge r intersect) rest'
termination_by rest.length
decreasing_by exact popOverlap_length _h

theorem absorb_length (intersect : Bool) (q : Rng) (rest : List Q) :
    (absorb intersect q rest).2.length ≤ rest.length := by
  fun_induction absorb intersect q rest with
  | case1 q rest h => simp
  | case2 q rest r rest' h ih =>
    have := popOverlap_length h
    omega

/-- The outer `while i < len(subqueries)` loop ("Merge ranges and Everys").  Returns the processed
    list and the final `everyfields` set. -/
def mergeLoop (intersect : Bool) (ef : List (Option Field)) : List Q → List Q × List (Option Field)
  | [] => ([], ef)
  | q :: rest =>
    if ef.contains q.field then mergeLoop intersect ef rest
    else
      match q.asRange with
      | some r =>
        let p := absorb intersect r rest
        let q' := p.1.normalize
        let ef' := match q' with
          | .every f _ => f :: ef
          | _ => ef
        let res := mergeLoop intersect ef' p.2
        (q' :: res.1, res.2)
      | none =>
        let ef' := match q with
          | .every f _ => f :: ef
          | _ => ef
        let res := mergeLoop intersect ef' rest
        (q :: res.1, res.2)
termination_by l => l.length
decreasing_by
  · simp
  · have := absorb_length intersect r rest
    simp only [List.length_cons]
    omega
  · simp

/-- "Eliminate duplicate queries": drop non-`Every` clauses whose field is in `everyfields`, and
    clauses already seen. -/
def dedupe (ef : List (Option Field)) : List Q → List Q → List Q
  | _, [] => []
  | seen, s :: rest =>
    if !s.isEvery && ef.contains s.field then dedupe ef seen rest
    else if seen.contains s then dedupe ef seen rest
    else s :: dedupe ef (s :: seen) rest

def mkComp (k : CK) (qs : List Q) (b : Rat) : Q := .comp k qs b

/-- The last lines of `CompoundQuery.normalize`: no clause left -> `NullQuery`; one clause -> the
    clause itself, re-boosted unless both boosts are 1; otherwise a new compound. -/
def finish (k : CK) (subs : List Q) (boost : Rat) : Q :=
  match subs with
  | [] => .null
  | [sub] =>
    if boost == 1 && sub.boostOf == 1 then sub else sub.withBoost (sub.boostOf * boost)
  | _ => .comp k subs boost

/-- Second half of `CompoundQuery.normalize`: "Merge ranges and Everys", "Eliminate duplicate
    queries", "Remove NullQuerys", and the final case distinction. -/
def compTail (k : CK) (subs : List Q) (boost : Rat) : Q :=
  let res := mergeLoop k.intersect [] subs
  let subs := dedupe res.2 [] res.1
  finish k (subs.filter (fun q => !q.isNull)) boost

/-- `CompoundQuery.normalize` after the subqueries have been normalized. -/
def compNormalize (k : CK) (subs : List Q) (boost : Rat) : Q :=
  let subs := flatten k subs
  if subs.all Q.isNull then .null else
  -- unfielded Every (with the `fix:`: neutral element under And)
  let hasAll := subs.any Q.isEveryAll
  if hasAll && !k.intersect then .every none 1 else
  let subs := if hasAll then subs.filter (fun q => !q.isEveryAll) else subs
  if hasAll && subs.all Q.isNull then .every none 1 else
  compTail k subs boost

/-- `BinaryQuery.normalize` and the overrides in `AndNot`, `AndMaybe`, `Require` (the two sides are
    already normalized). -/
def binNormalize (k : BK) (a b : Q) : Q :=
  match k with
  | .otherwise =>
    if a.isNull && b.isNull then .null
    else if a.isNull then b
    else if b.isNull then a
    else .bin k a b
  | .andnot =>
    if a.isNull then .null else if b.isNull then a else .bin k a b
  | .andmaybe =>
    if a.isNull then .null else if b.isNull then a else .bin k a b
  | .require =>
    if a.isNull || b.isNull then .null else .bin k a b

mutual
/-- `normalize()` of every query class. -/
def normalize : Q → Q
  | .null => .null
  | .every f b => .every f b
  | .term f t b => .term f t b
  | .pre f t b c => .pre f t b c
  | .wild f t b c => wildNormalize f t b c
  | .multi k f t key b => .multi k f t key b
  | .range f lo hi lx hx b c => (Rng.mk f lo hi lx hx b c).normalize
  | .phrase f ws s b => phraseNormalize f ws s b
  | .comp k qs b => compNormalize k (normalizeList qs) b
  | .seq c qs s o b => .seq c (normalizeList qs) s o b
  | .not q b => let q' := normalize q; if q'.isNull then .null else .not q' b
  | .bin k a b => binNormalize k (normalize a) (normalize b)
  | .const q s => .const q s
  | .opq f c => .opq f c
def normalizeList : List Q → List Q
  | [] => []
  | q :: qs => normalize q :: normalizeList qs
end

/-! ### Operators (`Query.__and__/__or__/__sub__`) -/

def opAnd (a b : Q) : Q := normalize (.comp .and [a, b] 1)
def opOr (a b : Q) : Q := normalize (.comp .or [a, b] 1)
def opSub (a b : Q) : Q := normalize (.comp .and [a, .not b 1] 1)

/-! ### `replace`, `accept` -/

mutual
/-- `q.replace(fieldname, oldtext, newtext)`: `Term/FuzzyTerm/Variations/Phrase.replace`, and
    `Query.replace` (copy of a leaf, `apply` on inner nodes; `Not.apply` forgets the boost). -/
def replace (fld : Field) (old new : Text) : Q → Q
  | .term f t b => if f = fld ∧ t = old then .term f new b else .term f t b
  | .multi k f t key b =>
    if (k = 0 ∨ k = 1) ∧ f = fld ∧ t = old then .multi k f new key b else .multi k f t key b
  | .phrase f ws s b =>
    if f = fld then .phrase f (ws.map fun w => if w = old then new else w) s b
    else .phrase f ws s b
  | .comp k qs b => .comp k (replaceList fld old new qs) b
  | .seq c qs s o b => .seq c (replaceList fld old new qs) s o b
  | .not q _ => .not (replace fld old new q) 1
  | .bin k a b => .bin k (replace fld old new a) (replace fld old new b)
  | .const q s => .const (replace fld old new q) s
  | q => q
def replaceList (fld : Field) (old new : Text) : List Q → List Q
  | [] => []
  | q :: qs => replace fld old new q :: replaceList fld old new qs
end

mutual
/-- `q.accept(lambda q: q)`: rebuilds every inner node through `apply`. -/
def acceptId : Q → Q
  | .comp k qs b => .comp k (acceptIdList qs) b
  | .seq c qs s o b => .seq c (acceptIdList qs) s o b
  | .not q _ => .not (acceptId q) 1
  | .bin k a b => .bin k (acceptId a) (acceptId b)
  | .const q s => .const (acceptId q) s
  | q => q
def acceptIdList : List Q → List Q
  | [] => []
  | q :: qs => acceptId q :: acceptIdList qs
end

/-- `q.apply(lambda q: q)`: one level of `apply` (only `Not.apply` loses an attribute, its boost). -/
def applyId : Q → Q
  | .not q _ => .not q 1
  | q => q

end WM.Normalize
