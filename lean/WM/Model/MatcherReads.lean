import WM.Model.MatcherTree
/-
Layer M, matcher family: the *reads* of the current entry other than `id()`/`score()`:

  * `weight()`            (`Matcher.weight` and its overrides in mcore.py / binary.py / wrappers.py /
                           codec/whoosh3.py)
  * `matching_terms()`    (mcore.py `Matcher.matching_terms`, with `children()` of every class and the
                           override of `MultiMatcher`), as the *number* of terms it yields - the quantity
                           `CoordMatcher.score` feeds into its coordination formula.

Every class computes such a read from the reads of its sub-matchers with the same case analysis on the
sub-matchers' activity and ids as `score()`; the cursor operations do not depend on it.  `opsR k s` is therefore
the operation table of the tree `s` in which `score` is replaced by the read `k` - built by the same functors as
`ops s` wherever the class combines the read as it combines the score, and by a variant of the functor where it
does not (the table says which).  `WM/Lemmas/FaithfulReads.lean` proves that `opsR k s` moves exactly as `ops s`
(`moveEq`) and that it is a faithful cursor over `denR k s` (the Layer-S list of `(id, read)` entries).

`ArrayUnionMatcher` supports neither read (`weight()` raises NotImplementedError from `value_as`; its
sub-matchers are ahead of the document, so `matching_terms()` is empty): `.error .notImpl` / not covered.
-/
namespace WM.Matcher

/-- which read -/
inductive Rd where
  | weight | terms
  deriving DecidableEq, Repr

/-- the score function that makes `LeafMatcher.score` return the read: `weight()` is the posting's weight,
    a term matcher yields exactly its own term -/
def Rd.sc : Rd → Rat → Nat → Rat
  | .weight => fun w _ => w
  | .terms => fun _ _ => 1

namespace LeafM

/-- `W3LeafMatcher.weight`: `self._weights[self._i]` -/
def weight (m : LeafM) : R Rat := match m.cur with | some p => .ok p.weight | none => .error .index

/-- number of `matching_terms()` of a term matcher: nothing when exhausted, else its own term -/
def nterms (m : LeafM) : R Rat := if m.isActive then .ok 1 else .ok 0

def opsR : Rd → Ops LeafM
  | .weight => { LeafM.ops with score := weight }
  | .terms => { LeafM.ops with score := nterms }

end LeafM

namespace ListM

/-- number of `matching_terms()` of a `ListMatcher` constructed with a `term` (what the harness builds; with
    `term=None` the class yields nothing): nothing when exhausted, else one -/
def nterms (m : ListM) : R Rat := if m.isActive then .ok 1 else .ok 0

/-- `ListMatcher.weight` is what the model calls `score` (`self._weights[self._i]`, 1.0 without weights) -/
def opsR : Rd → Ops ListM
  | .weight => ListM.ops
  | .terms => { ListM.ops with score := nterms }

end ListM

section
variable {α : Type} (A : Ops α)

/-- `WrappingMatcher.weight` with the inherited `boost = 1.0` (`ConstantScoreWrapperMatcher`) -/
def Const.opsW : Ops (Const α) :=
  { Const.ops A with score := fun m => do let w ← A.score m.child; pure (w * 1) }

/-- `children() = [child]`: the matching terms of a constant-score wrapper are the child's -/
def Const.opsT : Ops (Const α) :=
  { Const.ops A with score := fun m => A.score m.child }

/-- `children() = [child]`: the matching terms of a boost wrapper are the child's -/
def Boost.opsT : Ops (Boost α) :=
  { Boost.ops A with score := fun m => A.score m.child }

/-- … and of a `FilterMatcher` -/
def Filter.opsT : Ops (Filter α) :=
  { Filter.ops A with score := fun m => A.score m.child }

/-- `InverseMatcher`: `children() = [child]`, and the child is never on the current document -/
def Inverse.opsT : Ops (Inverse α) :=
  { Inverse.ops A with score := fun _ => .ok 0 }

end

/-- The operation table of a tree with `score` replaced by the read.

    `weight()`: `AdditiveBiMatcher.weight` (Intersection: sum), `UnionMatcher.weight` (also inherited by
    `DisjunctionMaxMatcher`: the sum where both sides are on the document), `AndNotMatcher.weight`,
    `RequireMatcher.weight` (`a.weight()`), `AndMaybeMatcher.weight` (as repaired: like `score`),
    `WrappingMatcher.weight` (`child.weight() * boost`, also FilterMatcher; boost 1.0 for ConstantScore),
    `InverseMatcher.weight` (`self._weight`), `MultiMatcher.weight` (the current sub-matcher's).

    `matching_terms()` (count): a child contributes iff it is active and on the document; `children()` is
    `[a, b]` for every `BiMatcher`, `[child]` for the wrappers - where `RequireMatcher`'s child is the
    `IntersectionMatcher(a, b)` - and `[matchers[current]]` for `MultiMatcher` (as repaired: the document
    number is translated by the segment's offset). -/
def opsR (k : Rd) : (s : Shape) → Ops (St s)
  | .null => nullOps
  | .list => ListM.opsR k
  | .leaf => LeafM.opsR k
  | .union a b => Union.ops (opsR k a) (opsR k b)
  | .dismax a b => Union.ops (opsR k a) (opsR k b)
  | .inter a b => Inter.ops (opsR k a) (opsR k b)
  | .andNot a b => AndNot.ops (opsR k a) (opsR k b)
  | .andMaybe a b => AndMaybe.ops (opsR k a) (opsR k b)
  | .require a b =>
    match k with
    | .weight => Require.ops (opsR k a) (opsR k b)
    | .terms => Inter.ops (opsR k a) (opsR k b)
  | .boost c =>
    match k with
    | .weight => Boost.ops (opsR k c)
    | .terms => Boost.opsT (opsR k c)
  | .filter c =>
    match k with
    | .weight => Filter.ops (opsR k c)
    | .terms => Filter.opsT (opsR k c)
  | .inverse c =>
    match k with
    | .weight => Inverse.ops (opsR k c)
    | .terms => Inverse.opsT (opsR k c)
  | .const c =>
    match k with
    | .weight => Const.opsW (opsR k c)
    | .terms => Const.opsT (opsR k c)
  | .multi c => Multi.ops (opsR k c)
  | .aunion c => { AUnion.ops (ops c) with score := fun _ => .error .notImpl }

/-- the read on the current entry -/
def read (k : Rd) (s : Shape) (m : St s) : R Rat := (opsR k s).score m

/-! ## Layer S of the reads: the remaining / complete list of `(id, read)` entries -/

namespace LeafM
def denR (k : Rd) (m : LeafM) : Den := LeafM.den { m with sc := k.sc }
def fullR (k : Rd) (m : LeafM) : Den := LeafM.full { m with sc := k.sc }
end LeafM

namespace ListM
/-- the same list with every weight replaced by 1 -/
def ones (m : ListM) : ListM := { m with weights := m.ids.map fun _ => 1 }
/-- the list whose `score` is the read -/
def viewR : Rd → ListM → ListM
  | .weight, m => m
  | .terms, m => m.ones
def denR (k : Rd) (m : ListM) : Den := (viewR k m).den
def fullR (k : Rd) (m : ListM) : Den := (viewR k m).full
end ListM

/-- multiplier of a wrapper for the read: the boost for `weight()`, nothing for the matching terms -/
def Rd.mul (k : Rd) (boost : Rat) : Rat := match k with | .weight => boost | .terms => 1

/-- what an `InverseMatcher` reads on its documents: its weight / no term -/
def Rd.inv (k : Rd) (weight : Rat) : Rat := match k with | .weight => weight | .terms => 0

/-- The remaining list of `(id, read)` entries of a tree (same list algebra as `den`; both reads add where
    `DisjunctionMax` takes the maximum of the scores, the matching terms also add through `Require`, pass
    through boosts and ignore the constant score). -/
def denR (k : Rd) : (s : Shape) → St s → Den
  | .null, _ => []
  | .list, m => ListM.denR k m
  | .leaf, m => LeafM.denR k m
  | .union a b, m => unionWith (· + ·) (denR k a m.a) (denR k b m.b)
  | .dismax a b, m => unionWith (· + ·) (denR k a m.a) (denR k b m.b)
  | .inter a b, m => interWith (· + ·) (denR k a m.a) (denR k b m.b)
  | .andNot a b, m => diff (denR k a m.a) (denR k b m.b)
  | .andMaybe a b, m => leftJoin (denR k a m.a) (denR k b m.b)
  | .require a b, m =>
    match k with
    | .weight => interWith (fun s _ => s) (denR k a m.a) (denR k b m.b)
    | .terms => interWith (· + ·) (denR k a m.a) (denR k b m.b)
  | .boost c, m => scale (k.mul m.boost) (denR k c m.child)
  | .filter c, m => scale (k.mul m.boost) (keepIds m.ids m.exclude (denR k c m.child))
  | .inverse c, m => complement m.id m.limit m.missing (denR k c m.child) (k.inv m.weight)
  | .const c, m => scale 1 (denR k c m.child)
  | .multi c, m => Multi.den (denR k c) m
  | .aunion _, _ => []

/-- … and the complete one. -/
def fullR (k : Rd) : (s : Shape) → St s → Den
  | .null, _ => []
  | .list, m => ListM.fullR k m
  | .leaf, m => LeafM.fullR k m
  | .union a b, m => unionWith (· + ·) (fullR k a m.a) (fullR k b m.b)
  | .dismax a b, m => unionWith (· + ·) (fullR k a m.a) (fullR k b m.b)
  | .inter a b, m => interWith (· + ·) (fullR k a m.a) (fullR k b m.b)
  | .andNot a b, m => diff (fullR k a m.a) (fullR k b m.b)
  | .andMaybe a b, m => leftJoin (fullR k a m.a) (fullR k b m.b)
  | .require a b, m =>
    match k with
    | .weight => interWith (fun s _ => s) (fullR k a m.a) (fullR k b m.b)
    | .terms => interWith (· + ·) (fullR k a m.a) (fullR k b m.b)
  | .boost c, m => scale (k.mul m.boost) (fullR k c m.child)
  | .filter c, m => scale (k.mul m.boost) (keepIds m.ids m.exclude (fullR k c m.child))
  | .inverse c, m => complement 0 m.limit m.missing (fullR k c m.child) (k.inv m.weight)
  | .const c, m => scale 1 (fullR k c m.child)
  | .multi c, m => Multi.full (fullR k c) m
  | .aunion _, _ => []

/-- shapes whose reads are covered: no `ArrayUnionMatcher` node -/
def readable : Shape → Bool
  | .null | .list | .leaf => true
  | .union a b | .dismax a b | .inter a b | .andNot a b | .andMaybe a b | .require a b => readable a && readable b
  | .boost c | .filter c | .inverse c | .const c | .multi c => readable c
  | .aunion _ => false

/-- … and no `MultiMatcher` node either (the shapes for which the reads' invariant is derived from the tree's) -/
def plain : Shape → Bool
  | .null | .list | .leaf => true
  | .union a b | .dismax a b | .inter a b | .andNot a b | .andMaybe a b | .require a b => plain a && plain b
  | .boost c | .filter c | .inverse c | .const c => plain c
  | .multi _ | .aunion _ => false

end WM.Matcher
