import WM.Model.Matcher
import WM.Model.MatcherMulti
import WM.Model.MatcherCombo
import WM.Spec.Den
/-
Matcher *trees*: the functors of `WM/Model/Matcher.lean` iterated along a `Shape`.

`St s` is the state of a matcher tree of shape `s`, `ops s` its operation table.  `next`,
`skip_to`, `skip_to_quality`, `reset` keep the shape; `replace` (binary.py / wrappers.py /
mcore.py `replace` methods) may return a tree of a different shape, so it lives here and returns
an `Any`.  `den` is the meaning of a tree (Layer S vocabulary of `WM/Spec/Den.lean`).
-/
namespace WM.Matcher

inductive Shape where
  | null | list | leaf
  | union (a b : Shape) | dismax (a b : Shape) | inter (a b : Shape)
  | andNot (a b : Shape) | andMaybe (a b : Shape) | require (a b : Shape)
  | boost (c : Shape) | filter (c : Shape) | inverse (c : Shape) | const (c : Shape)
  | multi (c : Shape) | aunion (c : Shape)
  deriving Repr, DecidableEq

/-- State of a matcher tree of the given shape. -/
def St : Shape → Type
  | .null => Unit
  | .list => ListM
  | .leaf => LeafM
  | .union a b => Bin (St a) (St b)
  | .dismax a b => Bin (St a) (St b)
  | .inter a b => Bin (St a) (St b)
  | .andNot a b => Bin (St a) (St b)
  | .andMaybe a b => Bin (St a) (St b)
  | .require a b => Bin (St a) (St b)
  | .boost c => Boost (St c)
  | .filter c => Filter (St c)
  | .inverse c => Inverse (St c)
  | .const c => Const (St c)
  | .multi c => Multi (St c)
  | .aunion c => AUnion (St c)

/-- Operation table of a matcher tree. -/
def ops : (s : Shape) → Ops (St s)
  | .null => nullOps
  | .list => ListM.ops
  | .leaf => LeafM.ops
  | .union a b => Union.ops (ops a) (ops b)
  | .dismax a b => DisMax.ops (ops a) (ops b)
  | .inter a b => Inter.ops (ops a) (ops b)
  | .andNot a b => AndNot.ops (ops a) (ops b)
  | .andMaybe a b => AndMaybe.ops (ops a) (ops b)
  | .require a b => Require.ops (ops a) (ops b)
  | .boost c => Boost.ops (ops c)
  | .filter c => Filter.ops (ops c)
  | .inverse c => Inverse.ops (ops c)
  | .const c => Const.ops (ops c)
  | .multi c => Multi.ops (ops c)
  | .aunion c => AUnion.ops (ops c)

/-- A matcher of any shape. -/
abbrev Any := (s : Shape) × St s

namespace Any
def isActive (m : Any) : Bool := (ops m.1).isActive m.2
def maxQuality (m : Any) : R Rat := (ops m.1).maxQuality m.2
def null : Any := ⟨.null, ()⟩
end Any

/-! ## Constructors (`__init__` of the classes that align their sub-matchers) -/

def mkUnion (a b : Any) : Any := ⟨.union a.1 b.1, ⟨a.2, b.2⟩⟩
def mkDisMax (a b : Any) : Any := ⟨.dismax a.1 b.1, ⟨a.2, b.2⟩⟩
def mkInter (a b : Any) : R Any := do
  let m ← Inter.init (ops a.1) (ops b.1) a.2 b.2
  pure ⟨.inter a.1 b.1, m⟩
def mkAndNot (a b : Any) : R Any := do
  let m ← AndNot.init (ops a.1) (ops b.1) a.2 b.2
  pure ⟨.andNot a.1 b.1, m⟩
def mkAndMaybe (a b : Any) : R Any := do
  let m ← AndMaybe.init (ops a.1) (ops b.1) a.2 b.2
  pure ⟨.andMaybe a.1 b.1, m⟩
def mkRequire (a b : Any) : R Any := do
  let m ← Inter.init (ops a.1) (ops b.1) a.2 b.2
  pure ⟨.require a.1 b.1, m⟩
def mkBoost (c : Any) (boost : Rat) : Any := ⟨.boost c.1, ⟨c.2, boost⟩⟩
def mkFilter (c : Any) (ids : List Nat) (exclude : Bool) (boost : Rat) : R Any := do
  let m ← Filter.init (ops c.1) c.2 ids exclude boost
  pure ⟨.filter c.1, m⟩
def mkInverse (c : Any) (limit : Nat) (missing : List Nat) (weight : Rat) (id : Nat) : R Any := do
  let m ← Inverse.init (ops c.1) c.2 limit missing weight id
  pure ⟨.inverse c.1, m⟩
def mkConst (c : Any) (score : Rat) : Any := ⟨.const c.1, ⟨c.2, score⟩⟩
/-- `MultiMatcher(matchers, idoffsets, scorer)` over sub-matchers of one class -/
def mkMulti (c : Shape) (segs : List (St c × Nat)) : Any := ⟨.multi c, Multi.init (ops c) segs 0⟩
/-- `ArrayUnionMatcher(submatchers, doccount, boost, partsize)` over sub-matchers of one class -/
def mkAUnion (c : Shape) (subs : List (St c)) (doccount : Nat) (boost : Rat) (partsize : Nat) : R Any := do
  let m ← AUnion.init (ops c) subs doccount boost partsize
  pure ⟨.aunion c, m⟩

/-! ## `replace(minquality)`

The Boolean in the result mirrors Python's `r is not self` (the callers rebuild - and re-align -
only when a sub-matcher object changed). -/

/-- result of a `replace`: (`r is not self`, `r`) -/
abbrev Repl := R (Bool × Any)

/-- `minquality - x.max_quality() if minquality else 0` -/
def slack (q : Rat) (mq : R Rat) : R Rat :=
  if q != 0 then do
    let v ← mq
    pure (q - v)
  else pure 0

/-- "return a replacement": the result object is never `self` -/
def changed (r : Repl) : Repl := do
  let (_, x) ← r
  pure (true, x)

def nullRepl : Repl := pure (true, Any.null)

section Replace
variable (sa sb : Shape) (ra : St sa → Rat → Repl) (rb : St sb → Rat → Repl)

/-- tail of `IntersectionMatcher.replace`: replace both sides with their thresholds, re-check, rebuild -/
def interMain (m : Bin (St sa) (St sb)) (amin bmin : Rat) : Repl := do
  let (ca, a') ← ra m.a amin
  let (cb, b') ← rb m.b bmin
  if !(a'.isActive && b'.isActive) then nullRepl
  else if ca || cb then do
    let r ← mkInter a' b'
    pure (true, r)
  else pure (false, ⟨.inter sa sb, m⟩)

/-- `IntersectionMatcher.replace`, given the `replace` of the two sub-matchers -/
def interReplace (m : Bin (St sa) (St sb)) (q : Rat) : Repl :=
  if !((ops sa).isActive m.a && (ops sb).isActive m.b) then nullRepl
  else if q != 0 then do
    let amax ← (ops sa).maxQuality m.a
    let bmax ← (ops sb).maxQuality m.b
    if amax + bmax < q then nullRepl
    else interMain sa sb ra rb m (q - bmax) (q - amax)
  else interMain sa sb ra rb m 0 0

/-- tail of `UnionMatcher.replace`: inactive sides, then both sides with the other side's slack -/
def unionMain (m : Bin (St sa) (St sb)) (q : Rat) : Repl :=
  if !((ops sa).isActive m.a || (ops sb).isActive m.b) then nullRepl
  else if !(ops sa).isActive m.a then changed (rb m.b q)
  else if !(ops sb).isActive m.b then changed (ra m.a q)
  else do
    let qa ← slack q ((ops sb).maxQuality m.b)
    let (ca, a') ← ra m.a qa
    let qb ← slack q a'.maxQuality
    let (cb, b') ← rb m.b qb
    if ca || cb then pure (true, mkUnion a' b') else pure (false, ⟨.union sa sb, m⟩)

/-- `UnionMatcher.replace` -/
def unionReplace (m : Bin (St sa) (St sb)) (q : Rat) : Repl :=
  if q != 0 && (ops sa).isActive m.a && (ops sb).isActive m.b then do
    let amax ← (ops sa).maxQuality m.a
    let bmax ← (ops sb).maxQuality m.b
    if amax < q && bmax < q then do
      let i ← Inter.init (ops sa) (ops sb) m.a m.b
      changed (interReplace sa sb ra rb i q)
    else if amax < q then do
      let r ← mkAndMaybe ⟨sb, m.b⟩ ⟨sa, m.a⟩
      pure (true, r)
    else if bmax < q then do
      let r ← mkAndMaybe ⟨sa, m.a⟩ ⟨sb, m.b⟩
      pure (true, r)
    else unionMain sa sb ra rb m q
  else unionMain sa sb ra rb m q

/-- tail of `DisjunctionMaxMatcher.replace` -/
def dismaxMain (m : Bin (St sa) (St sb)) (q : Rat) : Repl :=
  if !((ops sa).isActive m.a || (ops sb).isActive m.b) then nullRepl
  else if !(ops sa).isActive m.a then changed (rb m.b q)
  else if !(ops sb).isActive m.b then changed (ra m.a q)
  else do
    let (ca, a') ← ra m.a q
    let (cb, b') ← rb m.b q
    if !(a'.isActive || b'.isActive) then nullRepl
    else if !a'.isActive then pure (true, b')
    else if !b'.isActive then pure (true, a')
    else if ca || cb then pure (true, mkDisMax a' b')
    else pure (false, ⟨.dismax sa sb, m⟩)

/-- `DisjunctionMaxMatcher.replace` -/
def dismaxReplace (m : Bin (St sa) (St sb)) (q : Rat) : Repl :=
  if q != 0 && (ops sa).isActive m.a && (ops sb).isActive m.b then do
    let amax ← (ops sa).maxQuality m.a
    let bmax ← (ops sb).maxQuality m.b
    if amax < q && bmax < q then nullRepl
    else if bmax < q then changed (ra m.a q)
    else if amax < q then changed (rb m.b q)
    else dismaxMain sa sb ra rb m q
  else dismaxMain sa sb ra rb m q

/-- tail of `AndNotMatcher.replace` -/
def andNotMain (m : Bin (St sa) (St sb)) (q : Rat) : Repl :=
  if !(ops sb).isActive m.b then changed (ra m.a q)
  else do
    let (ca, a') ← ra m.a q
    let (cb, b') ← rb m.b 0
    if ca || cb then do
      let r ← mkAndNot a' b'
      pure (true, r)
    else pure (false, ⟨.andNot sa sb, m⟩)

/-- `AndNotMatcher.replace` -/
def andNotReplace (m : Bin (St sa) (St sb)) (q : Rat) : Repl :=
  if !(ops sa).isActive m.a then nullRepl
  else if q != 0 then do
    let amax ← (ops sa).maxQuality m.a
    if amax < q then nullRepl else andNotMain sa sb ra rb m q
  else andNotMain sa sb ra rb m q

/-- tail of `AndMaybeMatcher.replace` -/
def andMaybeMain (m : Bin (St sa) (St sb)) (q : Rat) : Repl := do
  let qa ← slack q ((ops sb).maxQuality m.b)
  let (ca, a') ← ra m.a qa
  let qb ← slack q ((ops sa).maxQuality m.a)
  let (cb, b') ← rb m.b qb
  if ca || cb then do
    let r ← mkAndMaybe a' b'
    pure (true, r)
  else pure (false, ⟨.andMaybe sa sb, m⟩)

/-- `AndMaybeMatcher.replace` -/
def andMaybeReplace (m : Bin (St sa) (St sb)) (q : Rat) : Repl :=
  if !(ops sa).isActive m.a then nullRepl
  else if q != 0 && (ops sb).isActive m.b then do
    let amax ← (ops sa).maxQuality m.a
    let bmax ← (ops sb).maxQuality m.b
    if amax + bmax < q then nullRepl
    else if amax < q then do
      let r ← mkInter ⟨sa, m.a⟩ ⟨sb, m.b⟩
      pure (true, r)
    else andMaybeMain sa sb ra rb m q
  else if !(ops sb).isActive m.b then changed (ra m.a q)
  else andMaybeMain sa sb ra rb m q

/-- tail of `RequireMatcher.replace` -/
def requireMain (m : Bin (St sa) (St sb)) (q : Rat) : Repl := do
  let (ca, a') ← ra m.a q
  let (cb, _) ← rb m.b 0
  if !a'.isActive then nullRepl
  else if ca || cb then do
    let r ← mkRequire a' ⟨sb, m.b⟩
    pure (true, r)
  else pure (false, ⟨.require sa sb, m⟩)

/-- `RequireMatcher.replace` -/
def requireReplace (m : Bin (St sa) (St sb)) (q : Rat) : Repl :=
  if !((ops sa).isActive m.a && (ops sb).isActive m.b) then nullRepl
  else if q != 0 then do
    let amax ← (ops sa).maxQuality m.a
    if amax < q then nullRepl else requireMain sa sb ra rb m q
  else requireMain sa sb ra rb m q

end Replace

/-- `replace` for every class. -/
def replace : (s : Shape) → St s → Rat → Repl
  | .null, _, _ => pure (false, Any.null)                         -- Matcher.replace: self
  | .leaf, m, _ => pure (false, ⟨.leaf, m⟩)                        -- Matcher.replace: self
  | .list, m, q =>                                                 -- ListMatcher.replace
    if !ListM.isActive m then nullRepl
    else if q != 0 && decide (m.blockMaxWeight < q) then nullRepl
    else pure (false, ⟨.list, m⟩)
  | .union sa sb, m, q => unionReplace sa sb (replace sa) (replace sb) m q
  | .dismax sa sb, m, q => dismaxReplace sa sb (replace sa) (replace sb) m q
  | .inter sa sb, m, q => interReplace sa sb (replace sa) (replace sb) m q
  | .andNot sa sb, m, q => andNotReplace sa sb (replace sa) (replace sb) m q
  | .andMaybe sa sb, m, q => andMaybeReplace sa sb (replace sa) (replace sb) m q
  | .require sa sb, m, q => requireReplace sa sb (replace sa) (replace sb) m q
  | .boost sc, m, q => do                                          -- WrappingMatcher.replace
    let (c, r) ← replace sc m.child q
    if c then pure (true, mkBoost r m.boost) else pure (false, ⟨.boost sc, m⟩)
  | .filter sc, m, q => do                                         -- WrappingMatcher.replace + FilterMatcher._replacement
    let (c, r) ← replace sc m.child q
    if c then do
      let f ← mkFilter r m.ids m.exclude m.boost
      pure (true, f)
    else pure (false, ⟨.filter sc, m⟩)
  | .inverse sc, m, _ => do                                        -- InverseMatcher.replace
    let (c, r) ← replace sc m.child 0
    if c then do
      let f ← mkInverse r m.limit m.missing m.weight m.id
      pure (true, f)
    else pure (false, ⟨.inverse sc, m⟩)
  | .const sc, m, q =>                                             -- ConstantScoreWrapperMatcher.replace
    if q != 0 && decide (m.score < q) then nullRepl
    else do
      let (c, r) ← replace sc m.child 0
      if c then pure (true, mkConst r m.score) else pure (false, ⟨.const sc, m⟩)
  | .multi sc, m, q => do                                          -- MultiMatcher.replace
    let (m', ch) ← Multi.replaceCore (ops sc) m q
    if !Multi.isActive m' then nullRepl else pure (ch, ⟨.multi sc, m'⟩)
  | .aunion sc, m, _ => pure (false, ⟨.aunion sc, m⟩)             -- Matcher.replace: self

namespace Any
def replace (m : Any) (q : Rat) : R Any := do
  let (_, r) ← WM.Matcher.replace m.1 m.2 q
  pure r
end Any

/-! ## Meaning of a tree -/

def entry (sc : Rat → Nat → Rat) (p : Posting) : Nat × Rat := (p.id, sc p.weight p.length)

namespace ListM
/-- all postings of the list -/
def full (m : ListM) : Den := m.ids.zip m.weights
/-- postings from the cursor on -/
def den (m : ListM) : Den := m.full.drop m.i
end ListM

namespace LeafM
def full (m : LeafM) : Den := (m.blocks.flatMap (·.posts)).map (entry m.sc)
def den (m : LeafM) : Den :=
  if m.atend then [] else (((m.blocks.drop m.b).flatMap (·.posts)).drop m.i).map (entry m.sc)
end LeafM

/-- The remaining result list of a matcher tree. -/
def den : (s : Shape) → St s → Den
  | .null, _ => []
  | .list, m => m.den
  | .leaf, m => m.den
  | .union a b, m => unionWith (· + ·) (den a m.a) (den b m.b)
  | .dismax a b, m => unionWith max (den a m.a) (den b m.b)
  | .inter a b, m => interWith (· + ·) (den a m.a) (den b m.b)
  | .andNot a b, m => diff (den a m.a) (den b m.b)
  | .andMaybe a b, m => leftJoin (den a m.a) (den b m.b)
  | .require a b, m => interWith (fun s _ => s) (den a m.a) (den b m.b)
  | .boost c, m => scale m.boost (den c m.child)
  | .filter c, m => scale m.boost (keepIds m.ids m.exclude (den c m.child))
  | .inverse c, m => complement m.id m.limit m.missing (den c m.child) m.weight
  | .const c, m => constScore m.score (den c m.child)
  | .multi c, m => Multi.den (den c) m
  | .aunion c, m => AUnion.den (den c) m

/-- The complete result list (what `reset()` returns to). -/
def full : (s : Shape) → St s → Den
  | .null, _ => []
  | .list, m => m.full
  | .leaf, m => m.full
  | .union a b, m => unionWith (· + ·) (full a m.a) (full b m.b)
  | .dismax a b, m => unionWith max (full a m.a) (full b m.b)
  | .inter a b, m => interWith (· + ·) (full a m.a) (full b m.b)
  | .andNot a b, m => diff (full a m.a) (full b m.b)
  | .andMaybe a b, m => leftJoin (full a m.a) (full b m.b)
  | .require a b, m => interWith (fun s _ => s) (full a m.a) (full b m.b)
  | .boost c, m => scale m.boost (full c m.child)
  | .filter c, m => scale m.boost (keepIds m.ids m.exclude (full c m.child))
  | .inverse c, m => complement 0 m.limit m.missing (full c m.child) m.weight
  | .const c, m => constScore m.score (full c m.child)
  | .multi c, m => Multi.full (full c) m
  | .aunion c, m => AUnion.full (full c) m

namespace Any
def den (m : Any) : Den := WM.Matcher.den m.1 m.2
end Any

/-! ## `Matcher.all_ids` (mcore.py, the base-class generator)

`i = 0; m = self; while m.is_active(): yield m.id(); m.next(); i += 1; if i == 10: m = m.replace(); i = 0`.
The budget is the number of entries left (the loop yields one id per iteration). -/

def allIdsLoop : Nat → Any → Nat → R (List Nat)
  | 0, _, _ => .error .diverge
  | n + 1, m, i =>
    if m.isActive then do
      let x ← (ops m.1).id m.2
      let m' ← (ops m.1).next m.2
      if i + 1 == 10 then do
        let r ← Any.replace ⟨m.1, m'⟩ 0
        let rest ← allIdsLoop n r 0
        pure (x :: rest)
      else do
        let rest ← allIdsLoop n ⟨m.1, m'⟩ (i + 1)
        pure (x :: rest)
    else pure []

def allIds (m : Any) : R (List Nat) := allIdsLoop (m.den.length + 1) m 0

/-! ## `all_ids()` as each class defines it

`ListMatcher.all_ids` (`iter(self._ids)`: every id, whatever the position), `IntersectionMatcher.all_ids`
(`sorted(set(a.all_ids()) & set(b.all_ids()))`; `RequireMatcher` inherits `WrappingMatcher.all_ids` of its
`IntersectionMatcher` child), `WrappingMatcher.all_ids` (the child's; also `ConstantScoreWrapperMatcher`),
`FilterMatcher.all_ids` (the child's ids filtered), `MultiMatcher.all_ids` (every sub-matcher's ids plus its
offset, from the first sub-matcher on), `NullMatcher.all_ids` (`[]`); the other classes (`W3LeafMatcher`, `Union`,
`DisjunctionMax`, `AndNot`, `AndMaybe`, `Inverse`) run the base-class generator above.  The lists the
sub-matchers yield ascend strictly, so `sorted(set(a) & set(b))` is `a` restricted to the members of `b`. -/

/-- `MultiMatcher.all_ids` given the `all_ids` of the sub-matchers' class -/
def multiAllIds {α : Type} (f : α → R (List Nat)) : List (α × Nat) → R (List Nat)
  | [] => pure []
  | s :: ss => do
    let x ← f s.1
    let rest ← multiAllIds f ss
    pure (x.map (· + s.2) ++ rest)

def allIdsO : (s : Shape) → St s → R (List Nat)
  | .null, _ => pure []
  | .list, m => pure m.ids
  | .inter a b, m => do
    let x ← allIdsO a m.a
    let y ← allIdsO b m.b
    pure (x.filter fun i => y.contains i)
  | .require a b, m => do
    let x ← allIdsO a m.a
    let y ← allIdsO b m.b
    pure (x.filter fun i => y.contains i)
  | .boost c, m => allIdsO c m.child
  | .const c, m => allIdsO c m.child
  | .filter c, m => do
    let x ← allIdsO c m.child
    pure (x.filter fun i => !Filter.rejects m.ids m.exclude i)
  | .multi c, m => multiAllIds (allIdsO c) m.segs
  | .aunion c, m => AUnion.allIds (ops c) m
  | .leaf, m => allIds ⟨.leaf, m⟩
  | .union a b, m => allIds ⟨.union a b, m⟩
  | .dismax a b, m => allIds ⟨.dismax a b, m⟩
  | .andNot a b, m => allIds ⟨.andNot a b, m⟩
  | .andMaybe a b, m => allIds ⟨.andMaybe a b, m⟩
  | .inverse c, m => allIds ⟨.inverse c, m⟩

/-! ## running a cursor program on a tree -/

def Cmd.run (s : Shape) : Cmd → St s → R (St s)
  | .next, m => (ops s).next m
  | .skipTo t, m => (ops s).skipTo m t
  | .reset, m => (ops s).reset m

def run (s : Shape) : List Cmd → St s → R (St s)
  | [], m => .ok m
  | c :: cs, m => (c.run s m).bind (run s cs)

/-- programs that also call `replace()` (the shape may change: they run on `Any`) -/
def CmdR.run : CmdR → Any → R Any
  | .next, m => do let s ← (ops m.1).next m.2; pure ⟨m.1, s⟩
  | .skipTo t, m => do let s ← (ops m.1).skipTo m.2 t; pure ⟨m.1, s⟩
  | .replace0, m => m.replace 0

def runR : List CmdR → Any → R Any
  | [], m => .ok m
  | c :: cs, m => (c.run m).bind (runR cs)

/-- what a constructed matcher denotes (`none` if the constructor raised) -/
def denOf (r : R Any) : Option (Den × Bool) :=
  match r with
  | .ok m => some (m.den, (ops m.1).isActive m.2)
  | .error _ => none

end WM.Matcher
