import WM.Model.FS
/-
Which files a W3 segment consists of, from the codec's own naming functions rather than from a
directory listing.  Mirrors

* `whoosh/codec/base.py` `Segment.segment_id` (`"%s_%s" % (indexname, segid)`), `Segment.make_filename`
  (`segment_id + ext`), `Segment.list_files` (names of the listing that start with `segment_id + "."`),
  `Segment.create_compound_file` (assemble `list_files` into `<id>.seg`, delete them), `COMPOUND_EXT`;
* `whoosh/codec/whoosh3.py` `W3Codec.TERMS_EXT / POSTS_EXT / VPOSTS_EXT / COLUMN_EXT`,
  `W3Codec.column_filename` (`segment_id + "." + fieldname + ".col"`), `W3FieldWriter.__init__`
  (creates `.trm` and `.pst`), `W3PerDocWriter.close` (`save_as_files`: one `.col` file per column
  that was created) and `_prep_vectors` (creates `.vps` on the first vector).
-/
namespace WM.FS

def extTrm : Name := ['.', 't', 'r', 'm']
def extPst : Name := ['.', 'p', 's', 't']
def extVps : Name := ['.', 'v', 'p', 's']
def extCol : Name := ['.', 'c', 'o', 'l']
def extSeg : Name := ['.', 's', 'e', 'g']

/-- `Segment.segment_id()` -/
def segmentId (ix segid : Name) : Name := ix ++ '_' :: segid

/-- `Segment.make_filename(ext)` -/
def makeFilename (sid ext : Name) : Name := sid ++ ext

/-- `W3Codec.column_filename(segment, fieldname)` -/
def columnFilename (sid field : Name) : Name := makeFilename sid ('.' :: (field ++ extCol))

/-- What the writers of one segment did, as far as file names go. -/
structure SegShape where
  /-- `create_compound_file` ran (`writer(compound=True)`, the default) -/
  compound : Bool
  /-- names of the columns the per-document writer created (`_stored`, `_<f>_len`, `_<f>_vec`,
      `_<f>_vecL`, `<f>` for a field with a column type), in any order -/
  columns : List Name
  /-- `_prep_vectors` ran: at least one document has a vector -/
  vectors : Bool
  deriving DecidableEq, Repr

/-- the files the codec's writers leave in the directory for a loose segment -/
def looseFiles (sid : Name) (sh : SegShape) : List Name :=
  [makeFilename sid extTrm, makeFilename sid extPst] ++ sh.columns.map (columnFilename sid) ++
    (if sh.vectors then [makeFilename sid extVps] else [])

/-- the files a reader of the segment needs once the writer is done: the compound file, or the
    loose files -/
def segFiles (sid : Name) (sh : SegShape) : List Name :=
  if sh.compound then [makeFilename sid extSeg] else looseFiles sid sh

/-- the `SegRef` of a TOC entry, derived from the codec -/
def SegRef.ofShape (sid : Name) (sh : SegShape) (deleted : List Nat) : SegRef :=
  ⟨sid, segFiles sid sh, deleted⟩

/-- `Segment.list_files(storage)` -/
def listFiles (sid : Name) (listing : List Name) : List Name :=
  listing.filter fun n => (stripPrefix (sid ++ ['.']) n).isSome

/-- the storage events of `Segment.create_compound_file` (`k` = bytes written to the compound file) -/
def compoundEvents (sid : Name) (listing : List Name) (k : Nat) : List Event :=
  [.create (makeFilename sid extSeg), .write (makeFilename sid extSeg) k, .close (makeFilename sid extSeg)] ++
    (listFiles sid listing).map .delete

/-- a well-formed random segment id: non-empty, `[0-9a-z]` only (`random_name`) -/
def goodSegid (segid : Name) : Bool := !segid.isEmpty && segid.all isSegIdChar

end WM.FS
