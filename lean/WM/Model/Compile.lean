import WM.Spec.Search
/-
Layer M for C01 / C09: a **list-level denotational model** of `Query.matcher()`.

For every public query type: the function from the per-segment posting lists to the ascending
`(doc, score)` list that the matcher tree built by `Query.matcher(subsearcher, context)`
enumerates.  Mirrors, function by function (as of the tree with the `fix:` commits of this family):

* `query/compound.py`  `CompoundQuery.matcher` (no clause → Null, one clause → that clause times
  the compound's boost), `_tree_matcher` (a binary tree of any shape over the clause matchers,
  then `WrappingMatcher(boost)`), `And._matcher`, `Or._matcher` (choice between the tree of
  unions and the array union), `DefaultOr`, `PreloadedOr`, `DisjunctionMax._matcher`,
  `AndNot/Require/AndMaybe.matcher` (second operand of AndNot/Require in the boolean context);
* `query/terms.py`  `Term.matcher`, `MultiTerm.matcher` (expansion against the segment lexicon,
  0 / 1 / many terms, `constantscore`), `Prefix/Wildcard/Regex.matcher` ("matches everything"
  patterns become `Every`);
* `query/ranges.py`  `NumericRange.matcher` at the level of values (the decomposition into tier
  terms is C13's business) wrapped in `ConstantScoreQuery`;
* `query/wrappers.py`  `Not.matcher` (InverseMatcher against the segment's live documents, weight
  1), `ConstantScoreQuery.matcher`;
* `query/positional.py`  `Phrase.matcher` + `query/spans.py` `SpanNear2Matcher._get_spans`
  (ordered, mindist 1; only the *end* of a span matters for what can follow it);
* `query/qcore.py`  `Every.matcher`, `_NullQuery.matcher`;
* `matching/*` only as list operations: union = merge adding scores, dismax = merge taking the
  maximum, intersection, and-not, and-maybe, require, boost, constant score, inverse, and the
  array union (`matching/combo.py ArrayUnionMatcher`: per part of `partsize` doc numbers the
  first entry is reported unconditionally, every other one only if its accumulated score is
  positive);
* `searching.py` `Searcher.docs_for_query` / `collectors.py` `Collector.run`: one matcher per
  segment, doc numbers shifted by the segment offset.

The cursor implementations of these operators belong to another family (C11); what is proved here
(`WM/Props/C01.lean`, `WM/Props/C09.lean`) is that these lists are exactly the specified ones.
-/
namespace WM.Compile
open WM.Search

/-- a posting list: ascending doc ids with scores. -/
abbrev PL := List Hit

/-- score of doc `i` in the list, if present. -/
def lookup (l : PL) (i : Nat) : Option Rat := (l.find? (fun e => e.id == i)).map (·.score)

def ids (l : PL) : List Nat := l.map (·.id)

/-- `UnionMatcher` / `DisjunctionMaxMatcher`: merge; on equal ids combine the scores with `g`. -/
def mergeWith (g : Rat → Rat → Rat) : PL → PL → PL
  | [], b => b
  | a :: as, [] => a :: as
  | a :: as, b :: bs =>
    if a.id < b.id then a :: mergeWith g as (b :: bs)
    else if b.id < a.id then b :: mergeWith g (a :: as) bs
    else ⟨a.id, g a.score b.score⟩ :: mergeWith g as bs
termination_by a b => a.length + b.length

def ratMax (x y : Rat) : Rat := if x < y then y else x

/-- `UnionMatcher.score`: the sum when both children sit on the document. -/
def unionL : PL → PL → PL := mergeWith (· + ·)
/-- `DisjunctionMaxMatcher.score`: the maximum when both children sit on the document. -/
def dismaxL : PL → PL → PL := mergeWith ratMax
/-- `IntersectionMatcher`: common ids, scores add. -/
def interL (a b : PL) : PL :=
  a.filterMap (fun e => (lookup b e.id).map (fun s => ⟨e.id, e.score + s⟩))
/-- `AndNotMatcher`: entries of `a` whose id is not in `b`; score of `a`. -/
def andNotL (a b : PL) : PL := a.filter (fun e => (lookup b e.id).isNone)
/-- `AndMaybeMatcher`: entries of `a`; add `b`'s score where `b` has the id. -/
def andMaybeL (a b : PL) : PL :=
  a.map (fun e => match lookup b e.id with
    | some s => ⟨e.id, e.score + s⟩
    | none => e)
/-- `RequireMatcher`: entries of `a` whose id is in `b`; score of `a`. -/
def requireL (a b : PL) : PL := a.filter (fun e => (lookup b e.id).isSome)
/-- `WrappingMatcher(boost)`. -/
def boostL (w : Rat) (a : PL) : PL := a.map (fun e => ⟨e.id, e.score * w⟩)
/-- constant score. -/
def constL (c : Rat) (a : PL) : PL := a.map (fun e => ⟨e.id, c⟩)
/-- `ListMatcher(all_weights=w).weight()`: a falsy `all_weights` falls through to 1.0. -/
def wOf (w : Rat) : Rat := if w == 0 then 1 else w

/-- Tree shapes over the clause matchers `0 … n-1` (`util.make_binary_tree`,
    `util.make_weighted_tree`: the latter also permutes the clauses). -/
inductive Shape where
  | leaf (i : Nat)
  | node (l r : Shape)
  deriving Repr

def Shape.leaves : Shape → List Nat
  | .leaf i => [i]
  | .node l r => l.leaves ++ r.leaves

def foldShape (op : PL → PL → PL) (ms : List PL) : Shape → PL
  | .leaf i => ms.getD i []
  | .node l r => op (foldShape op ms l) (foldShape op ms r)

/-- `make_binary_tree`: split in halves, order preserved. -/
def balanced (lo : Nat) : Nat → Nat → Shape
  | 0, _ => .leaf lo
  | _ + 1, 0 => .leaf lo
  | _ + 1, 1 => .leaf lo
  | fuel + 1, n + 2 => .node (balanced lo fuel ((n + 2) / 2)) (balanced (lo + (n + 2) / 2) fuel (n + 2 - (n + 2) / 2))

def balancedShape (n : Nat) : Shape := balanced 0 n n

/-- which tree the implementation builds for a compound over these clauses (a function of the
    clauses and the reader; the theorems hold for every choice). -/
abbrev ShapeOracle := List Query → Shape

theorem dropWhile_length_le {α} (p : α → Bool) (l : List α) : (l.dropWhile p).length ≤ l.length := by
  induction l with
  | nil => simp
  | cons a l ih =>
    simp only [List.dropWhile_cons]
    split
    · simp only [List.length_cons]; omega
    · simp

/-- `ArrayUnionMatcher` stepping over the accumulated scores: per part of `psz` doc numbers
    (starting at the smallest remaining id) the first entry is reported as is, the others only
    when their accumulated score is positive. -/
def arrayParts (psz : Nat) : PL → PL
  | [] => []
  | e :: rest =>
    e :: ((rest.takeWhile (fun x => x.id < e.id + psz)).filter (fun x => 0 < x.score)
          ++ arrayParts psz (rest.dropWhile (fun x => x.id < e.id + psz)))
termination_by l => l.length
decreasing_by
  have := dropWhile_length_le (fun x : Hit => decide (x.id < e.id + psz)) rest
  simp only [List.length_cons]
  omega

/-- the search context as far as `matcher()` looks at it: `needs_current`, and whether a
    weighting is set (`context.weighting is not None`). -/
structure Ctx where
  nc : Bool
  scored : Bool
  deriving Repr

/-- `Searcher.boolean_context()`. -/
def boolCtx : Ctx := ⟨false, false⟩

/-! ### segment level -/

/-- postings of a term: live documents containing it, with their leaf score
    (`SegmentReader.postings` filters deleted documents). -/
def postings (ls : LeafScore) (s : Segment) (f : String) (t : Term) : PL :=
  (s.live.filter (fun i => (s.doc i).hasTerm f t)).map (fun i => ⟨i, ls (s.doc i) f t⟩)

/-- the segment's term dictionary for a field (terms of deleted documents stay until a merge). -/
def lexicon (s : Segment) (f : String) : List Term := dedup (s.docs.flatMap (fun d => d.terms f))

def unionAll (ms : List PL) : PL := ms.foldr unionL []

/-- `Or._matcher` (+ `DefaultOr._matcher`/`_tree_matcher`, `PreloadedOr._matcher`) for two or more
    clause matchers. `dc` = `searcher.doc_count_all()` of the segment. -/
def orMany (ctx : Ctx) (dc : Nat) (sh : Shape) (ms : List PL) (b : Rat) : PL :=
  if ms.length < 1024 && (ctx.nc || ms.length == 2 || decide (5000 < dc)) then
    boostL b (foldShape unionL ms sh)
  else if ctx.scored then
    arrayParts 2048 (unionAll (ms.map (boostL b)))
  else
    constL 1 (unionAll ms)

/-- `SpanNear2Matcher._get_spans` (ordered, mindist = 1) keeping only span ends: a position of
    the next word extends a span iff it lies after the span's end, at distance ≤ slop. -/
def endsStep (slop : Nat) (ends : List Nat) (bpos : List Nat) : List Nat :=
  bpos.filter (fun p => ends.any (fun e => decide (e < p) && decide (p - e ≤ slop)))

def phraseEnds (slop : Nat) : List (List Nat) → List Nat
  | [] => []
  | ps :: more => more.foldl (endsStep slop) ps

/-- a constant score over a matcher (`ConstantScoreQuery.matcher`, constant-score `MultiTerm.matcher`):
    `ConstantScoreWrapperMatcher` when the collector needs the current match, otherwise a
    `ListMatcher(all_ids, all_weights=score)`. -/
def csL (ctx : Ctx) (c : Rat) (m : PL) : PL := if ctx.nc then constL c m else constL (wOf c) m

/-- `CompoundQuery.matcher`: no clause → NullMatcher; one clause → that clause's matcher, wrapped
    with the compound's boost; otherwise the subclass' `_matcher`. -/
def compoundL (many : List PL → PL) (b : Rat) : List PL → PL
  | [] => []
  | [m] => boostL b m
  | ms => many ms

mutual
/-- `q.matcher(subsearcher, context)` as a list. -/
def compile (ls : LeafScore) (so : ShapeOracle) (s : Segment) : Ctx → Query → PL
  -- Term.matcher
  | _, .term f t b => boostL b (postings ls s f t)
  -- MultiTerm.matcher / Prefix.matcher / Wildcard.matcher / Regex.matcher
  | ctx, .multi f p b cs =>
    if isAllPred p then
      constL (wOf b) (unionAll ((lexicon s f).map (postings ls s f)))
    else
      let ts := (lexicon s f).filter p.test
      let ms := ts.map (postings ls s f)
      match ms with
      | [] => []
      | [m] => if cs then csL ctx b m else boostL b m
      | _ =>
        let m := orMany (if cs then ⟨ctx.nc, false⟩ else ctx) s.size
                   (so (ts.map (fun t => Query.term f t 1))) ms b
        if cs then csL ctx b m else m
  -- Phrase.matcher
  | _, .phrase f ws slop b =>
    if ws.any (fun w => !(lexicon s f).contains w) then []
    else
      let isect := foldShape interL (ws.map (postings ls s f)) (balancedShape ws.length)
      boostL b (isect.filter (fun e => !(phraseEnds slop (ws.map ((s.doc e.id).positions f))).isEmpty))
  -- NumericRange.matcher (value level) under ConstantScoreQuery
  | _, .numRange f lo hi le he b =>
    (s.live.filter (fun i => ((s.doc i).nums f).any (inRange lo hi le he))).map (fun i => ⟨i, wOf b⟩)
  -- Every.matcher
  | _, .every none b => s.live.map (fun i => ⟨i, wOf b⟩)
  | _, .every (some f) b => constL (wOf b) (unionAll ((lexicon s f).map (postings ls s f)))
  | _, .null => []
  -- And: CompoundQuery.matcher + And._matcher
  | ctx, .and qs b =>
    compoundL (fun ms => boostL b (foldShape interL ms (so qs))) b (compileList ls so s ctx qs)
  -- Or
  | ctx, .or qs b =>
    compoundL (fun ms => orMany ctx s.size (so qs) ms b) b (compileList ls so s ctx qs)
  -- DisjunctionMax
  | ctx, .dismax qs b =>
    compoundL (fun ms => boostL b (foldShape dismaxL ms (so qs))) b (compileList ls so s ctx qs)
  -- Not.matcher: InverseMatcher(child in the boolean context, doc_count_all, missing=is_deleted)
  | _, .not q =>
    let c := compile ls so s boolCtx q
    (s.live.filter (fun i => (lookup c i).isNone)).map (fun i => ⟨i, 1⟩)
  | ctx, .andNot a b => andNotL (compile ls so s ctx a) (compile ls so s boolCtx b)
  | ctx, .andMaybe a b => andMaybeL (compile ls so s ctx a) (compile ls so s ctx b)
  | ctx, .require a b => requireL (compile ls so s ctx a) (compile ls so s boolCtx b)
  -- ConstantScoreQuery.matcher
  | ctx, .constScore q sc => csL ctx sc (compile ls so s ctx q)
def compileList (ls : LeafScore) (so : ShapeOracle) (s : Segment) : Ctx → List Query → List PL
  | _, [] => []
  | ctx, q :: qs => compile ls so s ctx q :: compileList ls so s ctx qs
end

/-- `Collector.run` / `Searcher.docs_for_query`: one matcher per segment, ids shifted by the
    segment's offset. -/
def runFrom (ls : LeafScore) (so : ShapeOracle) (ctx : Ctx) (q : Query) : Nat → Index → PL
  | _, [] => []
  | off, s :: rest => shift off (compile ls so s ctx q) ++ runFrom ls so ctx q (off + s.size) rest

def run (ls : LeafScore) (so : ShapeOracle) (ctx : Ctx) (q : Query) (idx : Index) : PL :=
  runFrom ls so ctx q 0 idx

/-- The query whose matcher `Query.docs(searcher)` reads (`query/compound.py`): `Require.docs` is
    `And(self.subqueries).docs(searcher)`, `AndMaybe.docs` is `self.subqueries[0].docs(searcher)`; every
    other class inherits `Query.docs`: `self.matcher(searcher, searcher.boolean_context()).all_ids()`. -/
def docsForm : Query → Query
  | .require a b => .and [a, b] 1
  | .andMaybe a _ => docsForm a
  | q => q

/-! ### decidable versions of the theorems' hypotheses (evaluated by the driver on every case) -/

/-- every field boost and token boost is positive, no token is the empty term -/
def wfSegment (s : Segment) : Bool :=
  s.docs.all (fun d => d.fields.all (fun fv =>
    decide (0 < fv.boost) && fv.tokens.all (fun k => decide (0 < k.boost))))

mutual
/-- every boost / constant score of the query is positive -/
def posQuery : Query → Bool
  | .term _ _ b => decide (0 < b)
  | .multi _ _ b _ => decide (0 < b)
  | .phrase _ _ _ b => decide (0 < b)
  | .numRange _ _ _ _ _ b => decide (0 < b)
  | .every _ b => decide (0 < b)
  | .null => true
  | .and qs b => decide (0 < b) && posQueries qs
  | .or qs b => decide (0 < b) && posQueries qs
  | .dismax qs b => decide (0 < b) && posQueries qs
  | .not q => posQuery q
  | .andNot a b => posQuery a && posQuery b
  | .andMaybe a b => posQuery a && posQuery b
  | .require a b => posQuery a && posQuery b
  | .constScore q sc => decide (0 < sc) && posQuery q
def posQueries : List Query → Bool
  | [] => true
  | q :: qs => posQuery q && posQueries qs
end

/-- the shape `make_binary_tree` builds (used by the driver; any valid oracle gives the same lists). -/
def balancedOracle : ShapeOracle := fun qs => balancedShape qs.length

end WM.Compile
