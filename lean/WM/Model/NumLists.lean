import WM.Model.Varint
/-
Mirror of `whoosh/util/numlists.py`: `delta_encode`, `delta_decode`, `GrowableArray`
(`append/_retype/extend/typecode/to_file`), `FixedEncoding` (`ByteEncoding`, `UShortEncoding`,
`UIntEncoding`: `write_nums/read_nums/get`, FIX: `read_nums`/`get` return the number, not the
1-tuple `struct.unpack` gives) and `Varints`; plus the big-endian fixed-width integers
`StructFile.write_array` / `get_ushort/get_int/get_uint/get_long` use for the arrays
(`filedb/structfile.py`).  Simple16 and GInts are mirrored in `WM.Model.NumPack`.
-/
namespace WM.NumLists

/-- `delta_encode(nums)`: `base = 0; for n in nums: yield n - base; base = n`. -/
def deltaEncodeFrom : Int → List Int → List Int
  | _, [] => []
  | base, n :: ns => (n - base) :: deltaEncodeFrom n ns
def deltaEncode (nums : List Int) : List Int := deltaEncodeFrom 0 nums

/-- `delta_decode(nums)`: `base = 0; for n in nums: base += n; yield base`. -/
def deltaDecodeFrom : Int → List Int → List Int
  | _, [] => []
  | base, n :: ns => (base + n) :: deltaDecodeFrom (base + n) ns
def deltaDecode (nums : List Int) : List Int := deltaDecodeFrom 0 nums

/-! ### array typecodes -/

inductive TC where
  | b | B | h | H | i | I | q | Q
  deriving Repr, DecidableEq, Inhabited

/-- item size in bytes (`array.itemsize`, `struct.calcsize`). -/
def TC.size : TC → Nat
  | .b | .B => 1
  | .h | .H => 2
  | .i | .I => 4
  | .q | .Q => 8

def TC.signed : TC → Bool
  | .b | .h | .i | .q => true
  | _ => false

/-- `array(tc).append(n)` succeeds (otherwise `OverflowError`). -/
def TC.fits (tc : TC) (n : Int) : Bool :=
  if tc.signed then -(2 ^ (8 * tc.size - 1) : Int) ≤ n && n < (2 ^ (8 * tc.size - 1) : Int)
  else 0 ≤ n && n < (2 ^ (8 * tc.size) : Int)

structure GA where
  tc : TC
  items : List Int
  allowLongs : Bool
  deriving Repr, DecidableEq

/-- `GrowableArray._retype(maxnum)`: the new typecode, or `none` for the explicit
    `OverflowError("... too big to fit in an array")`. -/
def retypeCode (allowLongs : Bool) (maxnum : Int) : Option TC :=
  if maxnum < 2 ^ 16 then some .H
  else if maxnum < 2 ^ 31 then some .i
  else if maxnum < 2 ^ 32 then some .I
  else if allowLongs then some .q
  else none

/-- `GrowableArray.append(n)`: the state afterwards and whether `OverflowError` was raised.
    (`array(newtype, iter(self.array))` inside `_retype` itself overflows when an old item does
    not fit the new type; the array is then left as it was.) -/
def GA.append (g : GA) (n : Int) : GA × Bool :=
  if g.tc.fits n then ({ g with items := g.items ++ [n] }, false)
  else match retypeCode g.allowLongs n with
    | none => (g, true)
    | some tc' =>
      if g.items.all tc'.fits then
        let g' := { g with tc := tc' }
        if tc'.fits n then ({ g' with items := g.items ++ [n] }, false) else (g', true)
      else (g, true)

/-- `GrowableArray.extend` stopping at the first error, as the Python loop does. -/
def GA.extend : GA → List Int → GA × Bool
  | g, [] => (g, false)
  | g, n :: ns => match g.append n with
    | (g', true) => (g', true)
    | (g', false) => g'.extend ns

/-! ### fixed-width integers -/

/-- little-endian, `size` bytes (`struct` `<B`/`<H`/`<I`). -/
def encodeLE : Nat → Nat → List Nat
  | 0, _ => []
  | size + 1, x => (x % 256) :: encodeLE size (x / 256)

def decodeLE : List Nat → Nat
  | [] => 0
  | b :: bs => b + 256 * decodeLE bs

/-- big-endian (`!H`, `!I`, `!q` … and `array.byteswap` + `tobytes` on a little-endian host). -/
def encodeBE (size x : Nat) : List Nat := (encodeLE size x).reverse
def decodeBE (bs : List Nat) : Nat := decodeLE bs.reverse

/-- two's complement for the signed codes (`i`, `q`). -/
def toUnsigned (size : Nat) (x : Int) : Nat := (x % (2 ^ (8 * size) : Int)).toNat
def fromUnsigned (size : Nat) (u : Nat) : Int :=
  if u < 2 ^ (8 * size - 1) then (u : Int) else (u : Int) - (2 ^ (8 * size) : Int)

/-- `GrowableArray.to_file` → `StructFile.write_array`: the items big-endian, itemsize each. -/
def GA.toBytes (g : GA) : List Nat :=
  g.items.flatMap fun x => encodeBE g.tc.size (toUnsigned g.tc.size x)

/-- `dbfile.get_ushort/get_int/get_uint/get_long(base + k * itemsize)`. -/
def readItem (tc : TC) (bytes : List Nat) (k : Nat) : Option Int :=
  let chunk := (bytes.drop (k * tc.size)).take tc.size
  if chunk.length = tc.size then
    let u := decodeBE chunk
    some (if tc.signed then fromUnsigned tc.size u else (u : Int))
  else none

/-- `FixedEncoding.write_nums` (`struct.error` for a number outside `[0, 256^size)`). -/
def writeFixed (size : Nat) : List Nat → Option (List Nat)
  | [] => some []
  | x :: xs =>
    if x < 256 ^ size then (writeFixed size xs).map (encodeLE size x ++ ·) else none

/-- `FixedEncoding.read_nums(f, n)`: the numbers and the unread rest; `none` when the file ends. -/
def readFixed (size : Nat) : Nat → List Nat → Option (List Nat × List Nat)
  | 0, bs => some ([], bs)
  | n + 1, bs =>
    let chunk := bs.take size
    if chunk.length = size then
      (readFixed size n (bs.drop size)).map fun (xs, r) => (decodeLE chunk :: xs, r)
    else none

/-- `FixedEncoding.get(f, pos, i)`. -/
def getFixed (size : Nat) (bs : List Nat) (pos i : Nat) : Option Nat :=
  let chunk := (bs.drop (pos + i * size)).take size
  if chunk.length = size then some (decodeLE chunk) else none

/-- `Varints.write_nums`. -/
def writeVarints (xs : List Nat) : List Nat := xs.flatMap WM.Varint.encode

/-- `Varints.read_nums(f, n)`. -/
def readVarints : Nat → List Nat → Option (List Nat × List Nat)
  | 0, bs => some ([], bs)
  | n + 1, bs =>
    match WM.Varint.decode bs with
    | none => none
    | some (x, rest) => (readVarints n rest).map fun (xs, r) => (x :: xs, r)

end WM.NumLists
