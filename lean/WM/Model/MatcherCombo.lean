import WM.Model.Matcher
import WM.Spec.Den
/-
Layer M, matcher family: `whoosh/matching/combo.py` - `ArrayUnionMatcher` (scores of a union pre-read one
*part* of `partsize` documents at a time into an array) and `PreloadedUnionMatcher` (everything pre-read).

Functors like the other classes: given the operation table of the sub-matchers (all of one class) they yield
the operation table of the combination, method by method.  `scored=True` (the default, what `Or` uses);
the score buffer `array("d")` is a `List Rat` (float arithmetic is not modelled).  The classes test
`a[i] > 0` to tell documents from empty cells: a sub-matcher scoring 0 (or a non-positive boost) makes
documents disappear - the theorems assume positive scores and a positive boost.
-/
namespace WM.Matcher

/-- `a[i] += v` (IndexError outside the array) -/
def addAt (a : List Rat) (i : Nat) (v : Rat) : R (List Rat) :=
  match a[i]? with
  | some u => .ok (a.set i (u + v))
  | none => .error .index

/-- `max(a)` (ValueError on an empty array) -/
def maxList : List Rat → R Rat
  | [] => .error .value
  | x :: xs => .ok (xs.foldl max x)

structure AUnion (α : Type) where
  /-- `self._submatchers` -/
  subs : List α
  doccount : Nat
  boost : Rat
  partsize : Nat
  /-- `self._a`, `partsize` cells -/
  a : List Rat
  docnum : Nat
  offset : Nat
  limit : Nat

namespace AUnion
variable {α : Type} (A : Ops α)

/-- `_min_id`: the smallest current id of the active sub-matchers, `doccount` if none is active -/
def minIdOf : List α → Option Nat → R (Option Nat)
  | [], acc => pure acc
  | s :: ss, acc =>
    if A.isActive s then do
      let x ← A.id s
      minIdOf ss (some (match acc with | some y => min y x | none => x))
    else minIdOf ss acc

def minId (subs : List α) (doccount : Nat) : R Nat := do
  let r ← minIdOf A subs none
  pure (r.getD doccount)

/-- the inner loop of `_read_part` for one sub-matcher:
    `while m.is_active() and m.id() < limit: a[m.id() - offset] += m.score() * boost; m.next()` -/
def drainSub (boost : Rat) (offset limit : Nat) : Nat → α → List Rat → R (α × List Rat)
  | 0, _, _ => .error .diverge
  | n + 1, s, a =>
    if A.isActive s then do
      let x ← A.id s
      if x < limit then do
        let sc ← A.score s
        let a' ← addAt a (x - offset) (sc * boost)
        let s' ← A.next s
        drainSub boost offset limit n s' a'
      else pure (s, a)
    else pure (s, a)

def drainAll (boost : Rat) (offset limit : Nat) : List α → List Rat → R (List α × List Rat)
  | [], a => pure ([], a)
  | s :: ss, a => do
    let (s', a') ← drainSub A boost offset limit (A.rem s + 1) s a
    let (ss', a'') ← drainAll boost offset limit ss a'
    pure (s' :: ss', a'')

/-- `_read_part`: clear the array, buffer the documents of `[docnum, min(docnum + partsize, doccount))` -/
def readPart (m : AUnion α) : R (AUnion α) := do
  let limit := min (m.docnum + m.partsize) m.doccount
  let (subs, a) ← drainAll A m.boost m.docnum limit m.subs (List.replicate m.partsize 0)
  pure { m with subs := subs, a := a, offset := m.docnum, limit := limit }

/-- the scan of `_find_next`: `while docnum < limit: if a[docnum - offset] > 0: break; docnum += 1` -/
def scan (a : List Rat) (offset limit : Nat) : Nat → Nat → R Nat
  | 0, d => pure d
  | n + 1, d =>
    if d < limit then
      match a[d - offset]? with
      | some v => if 0 < v then pure d else scan a offset limit n (d + 1)
      | none => .error .index
    else pure d

/-- `_find_next` -/
def findNext (m : AUnion α) : R (AUnion α) := do
  let d ← scan m.a m.offset m.limit (m.limit - m.docnum) m.docnum
  if d == m.limit then do
    let x ← minId A m.subs m.doccount
    readPart A { m with docnum := x }
  else pure { m with docnum := d }

def isActive (m : AUnion α) : Bool := decide (m.docnum < m.doccount)

/-- `self._a[self._docnum - self._offset]` -/
def score (m : AUnion α) : R Rat :=
  match m.a[m.docnum - m.offset]? with
  | some v => .ok v
  | none => .error .index

def next (m : AUnion α) : R (AUnion α) := findNext A { m with docnum := m.docnum + 1 }

/-- `for subm in submatchers: if subm.is_active(): subm.skip_to(docnum)` -/
def skipAll (t : Nat) : List α → R (List α)
  | [] => pure []
  | s :: ss => do
    let s' ← A.skipToA s t
    let rest ← skipAll t ss
    pure (s' :: rest)

/-- `ArrayUnionMatcher.skip_to` -/
def skipTo (m : AUnion α) (t : Nat) : R (AUnion α) :=
  if t ≤ m.docnum then pure m
  else if t < m.limit then findNext A { m with docnum := t }
  else do
    let subs ← skipAll A t m.subs
    if subs.any A.isActive then do
      let x ← minId A subs m.doccount
      readPart A { m with subs := subs, docnum := x }
    else pure { m with subs := subs, docnum := m.doccount }

/-- `sum(m.max_quality() for m in self._submatchers if m.is_active())` (left to right, from 0) -/
def futureOf : List α → Rat → R Rat
  | [], acc => pure acc
  | s :: ss, acc =>
    if A.isActive s then do
      let q ← A.maxQuality s
      futureOf ss (acc + q)
    else futureOf ss acc

/-- `ArrayUnionMatcher.max_quality`: `max(max(self._a), future * boost)` -/
def maxQuality (m : AUnion α) : R Rat := do
  let f ← futureOf A m.subs 0
  let b ← maxList m.a
  pure (max b (f * m.boost))

def blockQuality (m : AUnion α) : R Rat := maxList m.a

/-- `while self.is_active() and self.block_quality() <= minquality: skipped += 1; docnum = limit; _read_part()` -/
def skipQLoop (q : Rat) : Nat → AUnion α → Nat → R (AUnion α × Nat)
  | 0, _, _ => .error .diverge
  | n + 1, m, k =>
    if isActive m then do
      let bq ← blockQuality m
      if bq ≤ q then do
        let m' ← readPart A { m with docnum := m.limit }
        skipQLoop q n m' (k + 1)
      else pure (m, k)
    else pure (m, k)

def skipToQuality (m : AUnion α) (q : Rat) : R (AUnion α × Nat) := do
  let (m', k) ← skipQLoop A q (m.doccount - m.docnum + 1) m 0
  if isActive m' then do
    let m'' ← findNext A m'
    pure (m'', k)
  else pure (m', k)

def resetAll : List α → R (List α)
  | [] => pure []
  | s :: ss => do
    let s' ← A.reset s
    let rest ← resetAll ss
    pure (s' :: rest)

/-- `ArrayUnionMatcher.reset` -/
def reset (m : AUnion α) : R (AUnion α) := do
  let subs ← resetAll A m.subs
  let x ← minId A subs m.doccount
  readPart A { m with subs := subs, docnum := x }

def ops : Ops (AUnion α) where
  isActive := isActive
  id m := .ok m.docnum
  score := score
  next := next A
  skipTo := skipTo A
  supportsBQ m := m.subs.all A.supportsBQ
  blockQuality := blockQuality
  maxQuality := maxQuality A
  skipToQuality := skipToQuality A
  reset := reset A
  rem m := m.doccount - m.docnum

/-- `ArrayUnionMatcher.__init__(submatchers, doccount, boost, partsize)` -/
def init (subs : List α) (doccount : Nat) (boost : Rat) (partsize : Nat) : R (AUnion α) := do
  let ps := if partsize == 0 then doccount else partsize
  let x ← minId A subs doccount
  readPart A ⟨subs, doccount, boost, ps, List.replicate ps 0, x, 0, 0⟩

/-- `ArrayUnionMatcher.all_ids`: the buffered documents, part after part (the generator moves the matcher).
    `if a[docnum - offset] > 0: yield docnum; docnum += 1; if docnum == limit: self._docnum = docnum; _read_part()` -/
def allIdsLoop : Nat → AUnion α → Nat → List Nat → R (List Nat)
  | 0, _, _, _ => .error .diverge
  | n + 1, m, d, acc =>
    if d < m.doccount then
      match m.a[d - m.offset]? with
      | none => .error .index
      | some v =>
        let acc' := if 0 < v then d :: acc else acc
        if d + 1 == m.limit then do
          let m' ← readPart A { m with docnum := d + 1 }
          allIdsLoop n m' (d + 1) acc'
        else allIdsLoop n m (d + 1) acc'
    else pure acc.reverse

def allIds (m : AUnion α) : R (List Nat) := allIdsLoop A (m.doccount - m.docnum + 1) m m.docnum []

end AUnion

/-! ### meaning of an `ArrayUnionMatcher` state -/

/-- the score in the buffer cell of document `d` (0 outside the array) -/
def cellAt (a : List Rat) (offset d : Nat) : Rat := (a[d - offset]?).getD 0

/-- the documents of `[lo, hi)` in the buffer: cells holding a positive score -/
def bufDen (a : List Rat) (offset lo hi : Nat) : Den :=
  (List.range' lo (hi - lo)).filterMap fun d => if 0 < cellAt a offset d then some (d, cellAt a offset d) else none

namespace AUnion
variable {α : Type}

/-- what is left: the rest of the buffered part, then the union of what the sub-matchers still hold, boosted -/
def den (d : α → Den) (m : AUnion α) : Den :=
  bufDen m.a m.offset m.docnum m.limit ++ below m.doccount (sumDens (m.subs.map fun s => scale m.boost (d s)))

/-- the complete list (what `reset()` returns to) -/
def full (f : α → Den) (m : AUnion α) : Den :=
  below m.doccount (sumDens (m.subs.map fun s => scale m.boost (f s)))

end AUnion

/-! ## PreloadedUnionMatcher -/

structure Preload where
  /-- `self._a`: one cell per document from `offset` to the last matching document -/
  a : List Rat
  docnum : Nat
  offset : Nat
  /-- `all(m.supports_block_quality() for m in submatchers)` -/
  sup : Bool

namespace Preload

/-- `if len(a) <= place: a.extend(0 ...)`; `a[place] += score` -/
def addExt (a : List Rat) (place : Nat) (v : Rat) : List Rat :=
  let a' := if a.length ≤ place then a ++ List.replicate (place - a.length + 1) 0 else a
  a'.set place (a'[place]?.getD 0 + v)

section
variable {α : Type} (A : Ops α)

/-- `while m.is_active(): a[m.id() - offset] += m.score() * boost; m.next()` -/
def drainSub (boost : Rat) (offset : Nat) : Nat → α → List Rat → R (List Rat)
  | 0, _, _ => .error .diverge
  | n + 1, s, a =>
    if A.isActive s then do
      let sc ← A.score s
      let x ← A.id s
      let s' ← A.next s
      drainSub boost offset n s' (addExt a (x - offset) (sc * boost))
    else pure a

def drainAll (boost : Rat) (offset : Nat) : List α → List Rat → R (List Rat)
  | [], a => pure a
  | s :: ss, a =>
    if A.isActive s then do
      let a' ← drainSub A boost offset (A.rem s + 1) s a
      drainAll boost offset ss a'
    else drainAll boost offset ss a

/-- `PreloadedUnionMatcher.__init__(submatchers, doccount, boost)` (scored) -/
def init (subs : List α) (boost : Rat) : R Preload := do
  let r ← AUnion.minIdOf A subs none
  match r with
  | some off => do
    let a ← drainAll A boost off subs []
    pure ⟨a, off, off, subs.all A.supportsBQ⟩
  | none => pure ⟨[], 0, 0, subs.all A.supportsBQ⟩

end

def isActive (m : Preload) : Bool := decide (m.docnum - m.offset < m.a.length)

def score (m : Preload) : R Rat :=
  match m.a[m.docnum - m.offset]? with
  | some v => .ok v
  | none => .error .index

/-- number of leading cells equal to 0 -/
def zeros : List Rat → Nat
  | [] => 0
  | x :: xs => if x == 0 then zeros xs + 1 else 0

/-- `place += 1; while place < len(a) and a[place] == 0: place += 1` -/
def next (m : Preload) : R Preload :=
  let place := m.docnum - m.offset + 1
  .ok { m with docnum := place + zeros (m.a.drop place) + m.offset }

/-- `PreloadedUnionMatcher.skip_to` -/
def skipTo (m : Preload) (t : Nat) : R Preload :=
  if t < m.docnum then .ok m
  else
    let m' := { m with docnum := t }
    match m.a[t - m.offset]? with
    | some v => if v == 0 then next m' else .ok m'
    | none => .ok m'

/-- `max(self._a[self._docnum - self._offset:])` -/
def maxQuality (m : Preload) : R Rat := maxList (m.a.drop (m.docnum - m.offset))

/-- number of leading cells `<= q` -/
def lows (q : Rat) : List Rat → Nat
  | [] => 0
  | x :: xs => if x ≤ q then lows q xs + 1 else 0

/-- `while place < len(a) and a[place] <= minquality: place += 1; skipped = 1` -/
def skipToQuality (m : Preload) (q : Rat) : R (Preload × Nat) :=
  let place := m.docnum - m.offset
  let k := lows q (m.a.drop place)
  .ok ({ m with docnum := place + k + m.offset }, if k == 0 then 0 else 1)

def ops : Ops Preload where
  isActive := isActive
  id m := .ok m.docnum
  score := score
  next := next
  skipTo := skipTo
  supportsBQ m := m.sup
  blockQuality := maxQuality
  maxQuality := maxQuality
  skipToQuality := skipToQuality
  reset _ := .error .notImpl
  rem m := m.a.length + m.offset - m.docnum

/-- `PreloadedUnionMatcher.all_ids`: `while place < len(a): if a[place] > 0: yield place + offset; place += 1` -/
def allIds (m : Preload) : R (List Nat) :=
  let place := m.docnum - m.offset
  .ok (((m.a.drop place).zipIdx place).filterMap fun (v, i) => if 0 < v then some (i + m.offset) else none)

end Preload

end WM.Matcher
