import WM.Model.Normalize
import WM.Spec.Sat
/-
Mirror of the reader-dependent rewrites of C15: `simplify(ixreader)` and `estimate_size(ixreader)`.

* `query/terms.py`     `MultiTerm.simplify`, `MultiTerm.estimate_size`, `Term.estimate_size`,
  `Prefix._btexts`, `PatternQuery._btexts` (the compiled `fnmatch` pattern is the glob matcher of
  `WM.Sat`), `FuzzyTerm/Variations/Regex._btexts` (the expansion predicate `multi`)
* `query/ranges.py`    `TermRange._btexts`
* `query/compound.py`  `CompoundQuery.simplify/estimate_size`, `And.estimate_size`,
  `BinaryQuery.simplify` (fix), `Require.estimate_size`
* `query/positional.py` `Sequence.simplify` (fix), `Sequence/Phrase.estimate_size`
* `query/wrappers.py`  `Not.estimate_size`, `WrappingQuery.estimate_size`
* `query/qcore.py`     `Query.simplify`, `_NullQuery/Every.estimate_size`

Not mirrored: `estimate_size` of span queries (the model answers `none`, "not modelled", so the
estimate theorem says nothing about trees that contain one); `NumericRange.simplify/estimate_size` compile the range into tiered byte terms
(property C13); the model leaves the leaf alone resp. sums document frequencies like the other
multi-term leaves, and the check compares these two operations on real objects only.
-/
namespace WM.Normalize
open WM.Sat

/-- What `simplify`/`estimate_size` read from an `IndexReader`. -/
structure Reader where
  /-- field names of the schema -/
  fields : List Field
  /-- `ixreader.lexicon(fieldname)`: the terms of the field in order -/
  lexicon : Field → List Text
  /-- the live documents (for `doc_frequency` and `doc_count`) -/
  docs : List Doc
  /-- the deleted documents that are still in a segment: the term infos of the codec are not updated
      by a deletion, so `doc_frequency` (`W3TermInfo.doc_frequency`, summed over the segments by
      `MultiReader.doc_frequency`) still counts them, while `doc_count()` does not -/
  dead : List Doc := []

/-- `ixreader.doc_frequency(fieldname, text)`: counts live and deleted documents. -/
def Reader.df (rd : Reader) (f : Field) (t : Text) : Nat :=
  ((rd.docs ++ rd.dead).filter fun d => (d.toks f).contains t).length

/-- `ixreader.doc_count()`: the number of undeleted documents. -/
def Reader.docCount (rd : Reader) : Nat := rd.docs.length

/-- `TermRange._btexts`: the terms from `start` on, skipping `start` itself if exclusive, up to
    `end`. -/
def rangeBtexts (rd : Reader) (f : Field) (lo hi : Option Text) (lox hix : Bool) : List Text :=
  (rd.lexicon f).filter fun t =>
    inRange lo hi lox hix t && !(lo == none && lox && t == [])

/-- `_btexts(ixreader)` of the multi-term leaves. -/
def btexts (multi : Nat → Field → Text → Nat → Text → Bool)
    (bracket : Text → Option ((Nat → Bool) × Nat)) (rd : Reader) : Q → List Text
  | .pre f t _ _ => (rd.lexicon f).filter fun x => t.isPrefixOf x
  | .wild f t _ _ => (rd.lexicon f).filter fun x => gmatch (parseGlob bracket t) x
  | .multi k f t key _ => (rd.lexicon f).filter fun x => multi k f t key x
  | .range f lo hi lx hx _ _ => rangeBtexts rd f lo hi lx hx
  | _ => []

/-- `MultiTerm.simplify`. -/
def multiSimplify (rd : Reader) (f : Field) (boost : Rat) (bts : List Text) : Q :=
  if !rd.fields.contains f then .null else
  match bts with
  | [] => .null
  | [t] => .term f t boost
  | ts => .comp .or (ts.map fun t => .term f t boost) 1

mutual
/-- `q.simplify(ixreader)`. -/
def simplify (multi : Nat → Field → Text → Nat → Text → Bool)
    (bracket : Text → Option ((Nat → Bool) × Nat)) (rd : Reader) : Q → Q
  | .pre f t b c => multiSimplify rd f b (btexts multi bracket rd (.pre f t b c))
  | .wild f t b c => multiSimplify rd f b (btexts multi bracket rd (.wild f t b c))
  | .multi k f t key b =>
    if k = 3 then .multi k f t key b
    else multiSimplify rd f b (btexts multi bracket rd (.multi k f t key b))
  | .range f lo hi lx hx b c => multiSimplify rd f b (btexts multi bracket rd (.range f lo hi lx hx b c))
  | .comp k qs b =>
    if qs.isEmpty then .null else normalize (.comp k (simplifyList multi bracket rd qs) b)
  | .seq c qs s o b =>
    if qs.isEmpty then .null else normalize (.seq c (simplifyList multi bracket rd qs) s o b)
  | .bin k a b => normalize (.bin k (simplify multi bracket rd a) (simplify multi bracket rd b))
  | q => q
def simplifyList (multi : Nat → Field → Text → Nat → Text → Bool)
    (bracket : Text → Option ((Nat → Bool) × Nat)) (rd : Reader) : List Q → List Q
  | [] => []
  | q :: qs => simplify multi bracket rd q :: simplifyList multi bracket rd qs
end

/-- `min(...)` over a non-empty list; Python raises `ValueError` on an empty one. -/
def minList : List Nat → Option Nat
  | [] => none
  | x :: xs => some (xs.foldl Nat.min x)

mutual
/-- `q.estimate_size(ixreader)`; never `none` for these constructors since `And.estimate_size` of no
    subqueries returns 0 (`Phrase` and `Sequence` estimate through `And`). -/
def estimate (multi : Nat → Field → Text → Nat → Text → Bool)
    (bracket : Text → Option ((Nat → Bool) × Nat)) (rd : Reader) : Q → Option Nat
  | .null => some 0
  | .every _ _ => some rd.docCount
  | .term f t _ => some (if rd.fields.contains f then rd.df f t else 0)
  | .pre f t b c => some (((btexts multi bracket rd (.pre f t b c)).map (rd.df f)).sum)
  | .wild f t b c => some (((btexts multi bracket rd (.wild f t b c)).map (rd.df f)).sum)
  | .multi k f t key b => some (((btexts multi bracket rd (.multi k f t key b)).map (rd.df f)).sum)
  | .range f lo hi lx hx b c =>
    some (((btexts multi bracket rd (.range f lo hi lx hx b c)).map (rd.df f)).sum)
  | .phrase f ws _ _ =>
    -- `Phrase.estimate_size` = `And(terms).estimate_size`, 0 for no words
    if ws.isEmpty then some 0 else minList (ws.map fun w => if rd.fields.contains f then rd.df f w else 0)
  | .comp .and qs _ =>
    -- `And.estimate_size`: `if not self.subqueries: return 0` (fix: And.estimate_size of an And without subqueries)
    if qs.isEmpty then some 0 else (estimateList multi bracket rd qs).bind minList
  | .comp _ qs _ => (estimateList multi bracket rd qs).map fun es => Nat.min es.sum rd.docCount
  | .seq _ qs _ _ _ =>
    -- `Sequence.estimate_size` = `And(subqueries).estimate_size`
    if qs.isEmpty then some 0 else (estimateList multi bracket rd qs).bind minList
  | .not _ _ => some rd.docCount
  | .bin .require _ b => estimate multi bracket rd b
  | .bin _ a b =>
    match estimate multi bracket rd a, estimate multi bracket rd b with
    | some x, some y => some (Nat.min (x + y) rd.docCount)
    | _, _ => none
  | .const q _ => estimate multi bracket rd q
  | .opq _ _ => none
def estimateList (multi : Nat → Field → Text → Nat → Text → Bool)
    (bracket : Text → Option ((Nat → Bool) × Nat)) (rd : Reader) : List Q → Option (List Nat)
  | [] => some []
  | q :: qs =>
    match estimate multi bracket rd q, estimateList multi bracket rd qs with
    | some e, some es => some (e :: es)
    | _, _ => none
end

end WM.Normalize
