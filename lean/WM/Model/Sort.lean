import WM.Model.IdSets
/-
Mirror of `whoosh/externalsort.py`: `SortingPool` (`__init__`, `add`, `save`, `reduce_to`, `items`)
and `sort`.  A run file is the list it holds (marshal `dump`/`load` and the temp files are not
modelled); `list.sort`/`sorted` is `List.mergeSort` (both stable), `heapq.merge(*iters)` the
right fold of stable two-way merges (a stable k-way merge) — CPython's `heapq`/`sort` are trusted.
The order is any `le : α → α → Bool`.
-/
namespace WM.Sort
open WM.IdSets (Err)

structure Pool (α : Type) where
  maxsize : Nat
  current : List α
  runs : List (List α)

/-- `SortingPool.save`. -/
def Pool.save {α} (le : α → α → Bool) (p : Pool α) : Pool α :=
  if p.current.isEmpty then p
  else { p with runs := p.runs ++ [p.current.mergeSort le], current := [] }

/-- `SortingPool.add`. -/
def Pool.add {α} (le : α → α → Bool) (p : Pool α) (x : α) : Pool α :=
  let p := if p.current.length ≥ p.maxsize then p.save le else p
  { p with current := p.current ++ [x] }

/-- `_merge_runs(paths)` = `heapq.merge(*iters)`. -/
def mergeRuns {α} (le : α → α → Bool) (runs : List (List α)) : List α :=
  runs.foldr (fun r acc => List.merge r acc le) []

/-- the `while len(runs) > target` loop of `reduce_to(target, k)` with `target = target' + 1`,
    `k = k' + 2` (the guards `k < 2` / `target < 1` raise `ValueError` before the loop):
    pop `k` runs off the end, merge them, insert the new run at the front. -/
def reduceLoop {α} (le : α → α → Bool) (target' k' : Nat) (runs : List (List α)) : List (List α) :=
  if h : runs.length > target' + 1 then
    let tomerge := runs.reverse.take (k' + 2)
    let rest := runs.take (runs.length - (k' + 2))
    reduceLoop le target' k' (mergeRuns le tomerge :: rest)
  else runs
termination_by runs.length
decreasing_by
  simp only [List.length_cons, List.length_take]
  omega

/-- `SortingPool.reduce_to`. -/
def reduceTo {α} (le : α → α → Bool) (target k : Nat) (runs : List (List α)) : Except Err (List (List α)) :=
  if k < 2 then .error .value
  else if target < 1 then .error .value
  else .ok (reduceLoop le (target - 1) (k - 2) runs)

/-- `SortingPool.items(maxfiles)`. -/
def Pool.items {α} (le : α → α → Bool) (p : Pool α) (maxfiles : Nat) : Except Err (List α) :=
  if maxfiles < 2 then .error .value
  else if p.runs.isEmpty then .ok (p.current.mergeSort le)
  else
    let p := p.save le
    if maxfiles < p.runs.length then
      (reduceTo le maxfiles maxfiles p.runs).map (mergeRuns le)
    else .ok (mergeRuns le p.runs)

/-- `externalsort.sort(items, maxsize, maxfiles)`. -/
def sortAll {α} (le : α → α → Bool) (maxsize maxfiles : Nat) (xs : List α) : Except Err (List α) :=
  if maxsize < 1 then .error .value
  else (xs.foldl (Pool.add le) ⟨maxsize, [], []⟩).items le maxfiles

end WM.Sort
