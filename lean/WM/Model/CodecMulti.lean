import WM.Model.Codec
/-
Layer M for C10, term statistics through a reader over several segments: mirror of
`reading.py combine_terminfos` (called by `MultiReader.term_info` and `MultiCursor.term_info`) over
what the accessors of a `TermInfo` show, and Layer S: the plain aggregates of a posting list.
-/
namespace WM.Codec

/-- What the accessors of a `reading.TermInfo` show: `weight()`, `doc_frequency()`, `min_length()`,
    `max_length()`, `max_weight()`, `min_id()`, `max_id()`. -/
structure TiStats where
  weight : Rat
  df : Nat
  minlength : Nat
  maxlength : Nat
  maxweight : Rat
  minid : Int
  maxid : Int
  deriving Repr, DecidableEq

/-- Python `min(generator)` / `max(generator)`: a left fold that starts with the first item (`d` only
    for the empty generator, where Python raises `ValueError`; never reached below). -/
def fold1 {α : Type} (op : α → α → α) (d : α) : List α → α
  | [] => d
  | x :: xs => xs.foldl op x

/-- The general branch of `combine_terminfos`:
    `w = sum(ti.weight() ...); df = sum(ti.doc_frequency() ...); ml = min(ti.min_length() ...);
     xl = max(ti.max_length() ...); xw = max(ti.max_weight() ...);
     mid = min(ti.min_id() + offset ...); xid = max(ti.max_id() + offset ...)`. -/
def combineGen (tis : List (TiStats × Int)) : TiStats :=
  { weight := (tis.map (·.1.weight)).foldl (· + ·) 0
    df := (tis.map (·.1.df)).foldl (· + ·) 0
    minlength := fold1 min 0 (tis.map (·.1.minlength))
    maxlength := fold1 max 0 (tis.map (·.1.maxlength))
    maxweight := fold1 wStep 0 (tis.map (·.1.maxweight))
    minid := fold1 min 0 (tis.map fun t => t.1.minid + t.2)
    maxid := fold1 max 0 (tis.map fun t => t.1.maxid + t.2) }

/-- `reading.py combine_terminfos(tis)`, `tis` = `(terminfo, doc offset)` of the sub-readers that
    contain the term.  `len(tis) == 1`: the one term info with the offset added to its ids (the
    Python code adds in place and returns the same object); otherwise a new `TermInfo` of the
    combined statistics.  `none`: `MultiReader.term_info` raises `TermNotFound` for the empty list
    before calling. -/
def combineTerminfos : List (TiStats × Int) → Option TiStats
  | [] => none
  | [(ti, off)] => some { ti with minid := ti.minid + off, maxid := ti.maxid + off }
  | tis => some (combineGen tis)

/-! ### Layer S: the true aggregates of a posting list -/

/-- A posting as far as term statistics are concerned: document number, stored weight, stored
    field length. -/
structure MP where
  id : Int
  weight : Rat
  length : Nat
  deriving Repr, DecidableEq

/-- Document frequency, total weight, min/max length, max weight, smallest/largest id of a
    (non-empty) posting list. -/
def aggStats (ps : List MP) : TiStats :=
  { weight := (ps.map (·.weight)).foldl (· + ·) 0
    df := ps.length
    minlength := fold1 min 0 (ps.map (·.length))
    maxlength := fold1 max 0 (ps.map (·.length))
    maxweight := fold1 wStep 0 (ps.map (·.weight))
    minid := fold1 min 0 (ps.map (·.id))
    maxid := fold1 max 0 (ps.map (·.id)) }

/-- The postings of a segment as the reader over all segments numbers them. -/
def shiftSeg (s : List MP × Int) : List MP := s.1.map fun p => { p with id := p.id + s.2 }

end WM.Codec
