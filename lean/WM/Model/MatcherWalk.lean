import WM.Model.MatcherTree
/-!
# The quality walk: the loop every top-N consumer of a matcher runs

`whoosh/collectors.py ScoredCollector.matches` (and the C12 end-to-end walk of the harness, `gen/matcher.py
e2e_quality`) drive a matcher with two calls only while it is active: `next()` after the current entry has been
read ("visited"), and `skip_to_quality(q)` with the current minimum score.  `runW` is that loop for an arbitrary,
externally chosen schedule of the two calls; it returns the final matcher and the entries visited, in order.
-/
namespace WM.Matcher

/-- one call of the walk -/
inductive QOp where
  /-- read `id()`/`score()` of the current entry, then `next()` -/
  | next
  /-- `skip_to_quality(q)` -/
  | skipq (q : Rat)
  deriving Repr, DecidableEq

/-- `while m.is_active(): …` over a fixed schedule: the calls are issued only while the matcher is active (the
    loop condition of `ScoredCollector.matches`); an exception of the matcher ends the walk with that exception -/
def runWith {σ : Type} (O : Ops σ) : σ → List QOp → R (σ × Den)
  | m, [] => pure (m, [])
  | m, op :: rest =>
    if O.isActive m then
      match op with
      | .next => do
        let i ← O.id m
        let r ← O.score m
        let m' ← O.next m
        let (m'', v) ← runWith O m' rest
        pure (m'', (i, r) :: v)
      | .skipq q => do
        let (m', _) ← O.skipToQuality m q
        runWith O m' rest
    else pure (m, [])

/-- the walk on a matcher tree -/
def runW (s : Shape) (m : St s) (prog : List QOp) : R (St s × Den) := runWith (ops s) m prog

end WM.Matcher
