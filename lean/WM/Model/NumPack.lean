import WM.Model.NumLists
/-
Mirror of the two packed number-list codecs of `whoosh/util/numlists.py` that `WM.Model.NumLists`
leaves out: `GInts` (`write_nums`, `read_nums`; "Google packed ints": a key byte holding four 2-bit
byte counts, then the four numbers in 1..4 little-endian bytes each) and `Simple16`
(`_compress`, `write_nums`, `_decompress`, `read_nums`, `get`: up to 28 numbers in one 32-bit
little-endian word, layout chosen by a 4-bit key).  Files are byte lists; a Python exception at a
modelled site (`struct.error` for a number that does not fit / a file that ends, the bare
`Exception` of `Simple16._compress`) is `none`.
-/
namespace WM.NumPack
open WM.NumLists

/-! ### GInts -/

/-- the 2-bit code `GInts.write_nums` ORs into the key for `v` (`v < 256`: 0, `< 65536`: 1,
    `< 16777216`: 2, else 3). -/
def gcode (v : Nat) : Nat :=
  if v < 256 then 0 else if v < 65536 then 1 else if v < 16777216 then 2 else 3

/-- the bytes appended to `buf`: `pack_byte(v)`, `pack_ushort_le(v)`, `pack_uint_le(v)[:3]`,
    `pack_uint_le(v)`; `none` = `struct.error` (`v ≥ 2^32`). -/
def gbytes (v : Nat) : Option (List Nat) :=
  if v < 256 then some (encodeLE 1 v)
  else if v < 65536 then some (encodeLE 2 v)
  else if v < 16777216 then some ((encodeLE 4 v).take 3)
  else if v < 4294967296 then some (encodeLE 4 v)
  else none

/-- the `for v in numbers` loop of `GInts.write_nums` with its state `(buf, count, key)` and the
    bytes written to `f` so far; the leftovers are flushed at the end (`if count:`). -/
def gWriteLoop : List Nat → List Nat → List Nat → Nat → Nat → Option (List Nat)
  | [], out, buf, count, key => some (if count ≠ 0 then out ++ [key] ++ buf else out)
  | v :: vs, out, buf, count, key =>
    match gbytes v with
    | none => none
    | some bs =>
      let key := key ||| (gcode v <<< (count * 2))
      let buf := buf ++ bs
      if count + 1 = 4 then gWriteLoop vs (out ++ [key] ++ buf) [] 0 0
      else gWriteLoop vs out buf (count + 1) key

/-- `GInts.write_nums(f, numbers)`: the bytes written. -/
def gWrite (xs : List Nat) : Option (List Nat) := gWriteLoop xs [] [] 0 0

/-- the `for _ in xrange(n)` loop of `GInts.read_nums` with its state `(count, key)`: the numbers
    and the unread rest of the file; `none` when the file ends inside a number or before a key. -/
def gReadLoop : Nat → List Nat → Nat → Nat → Option (List Nat × List Nat)
  | 0, bs, _, _ => some ([], bs)
  | n + 1, bs, count, key =>
    let kb : Option (Nat × List Nat) :=
      if count = 0 then (match bs with | [] => none | k :: r => some (k, r)) else some (key, bs)
    match kb with
    | none => none
    | some (key, bs) =>
      let code := (key >>> (count * 2)) &&& 3
      -- code 0: read_byte, 1: read_ushort_le, 2: read(3) + b"\x00" as uint_le, 3: read_uint_le
      let size := if code = 0 then 1 else if code = 1 then 2 else if code = 2 then 3 else 4
      let chunk := bs.take size
      if chunk.length = size then
        (gReadLoop n (bs.drop size) ((count + 1) % 4) key).map fun (xs, r) => (decodeLE chunk :: xs, r)
      else none

/-- `list(GInts.read_nums(f, n))` and the unread rest. -/
def gRead (n : Nat) (bs : List Nat) : Option (List Nat × List Nat) := gReadLoop n bs 0 0

/-! ### Simple16 -/

/-- `Simple16._bits`; `Simple16._num[key]` is the length of entry `key`. -/
def s16bits : List (List Nat) := [
  List.replicate 28 1,
  [2, 2, 2, 2, 2, 2, 2, 1, 1, 1, 1, 1, 1, 1, 1, 1, 1, 1, 1, 1, 1],
  [1, 1, 1, 1, 1, 1, 1, 2, 2, 2, 2, 2, 2, 2, 1, 1, 1, 1, 1, 1, 1],
  [1, 1, 1, 1, 1, 1, 1, 1, 1, 1, 1, 1, 1, 1, 2, 2, 2, 2, 2, 2, 2],
  [2, 2, 2, 2, 2, 2, 2, 2, 2, 2, 2, 2, 2, 2],
  [4, 3, 3, 3, 3, 3, 3, 3, 3],
  [3, 4, 4, 4, 4, 3, 3, 3],
  [4, 4, 4, 4, 4, 4, 4],
  [5, 5, 5, 5, 4, 4],
  [4, 4, 5, 5, 5, 5],
  [6, 6, 6, 5, 5],
  [5, 5, 6, 6, 6],
  [7, 7, 7, 7],
  [10, 9, 9],
  [14, 14],
  [28]]

/-- `Simple16._num`. -/
def s16num : List Nat := [28, 21, 21, 21, 14, 9, 8, 7, 6, 6, 5, 5, 4, 3, 2, 1]

/-- the inner `while j < num and inarray[inoffset + j] < (1 << _bits[key][j])` loop of
    `_compress` over the `num` numbers it may take: the packed value when `j == num` at the end. -/
def s16pack : List Nat → List Nat → Nat → Nat → Option Nat
  | _, [], value, _ => some value
  | [], _ :: _, _, _ => none
  | w :: ws, x :: xs, value, bits =>
    if x < 1 <<< w then s16pack ws xs (value ||| (x <<< bits)) (bits + w) else none

/-- `for key in xrange(16)` of `Simple16._compress(inarray, inoffset, n)` over the remaining
    numbers `xs` (`n = len(xs)`), starting at `key`: `(value, num)` of the first key whose layout
    takes `min(_num[key], n)` numbers; `none` = the `raise Exception` after the loop. -/
def s16compressFrom (xs : List Nat) : Nat → List (List Nat) → Option (Nat × Nat)
  | _, [] => none
  | key, ws :: rest =>
    let num := if ws.length < xs.length then ws.length else xs.length
    match s16pack ws (xs.take num) (key <<< 28) 0 with
    | some value => some (value, num)
    | none => s16compressFrom xs (key + 1) rest

def s16compress (xs : List Nat) : Option (Nat × Nat) := s16compressFrom xs 0 s16bits

/-- `Simple16.write_nums`: one little-endian 32-bit word per `_compress` call.  (`taken = 0`
    cannot happen for a non-empty rest; the test keeps the recursion well-founded.) -/
def s16write (xs : List Nat) : Option (List Nat) :=
  match xs with
  | [] => some []
  | x :: t =>
    match s16compress (x :: t) with
    | none => none
    | some (value, taken) =>
      if _h : 0 < taken then
        if value < 4294967296 then (s16write ((x :: t).drop taken)).map (encodeLE 4 value ++ ·) else none
      else none
termination_by xs.length
decreasing_by simp only [List.length_drop, List.length_cons]; omega

/-- `Simple16._decompress(value, n)` loop: `v = value >> bits; yield v & (0xffffffff >> (32 - w))`. -/
def s16unpack : List Nat → Nat → Nat → Nat → List Nat
  | _, 0, _, _ => []
  | [], _ + 1, _, _ => []
  | w :: ws, num + 1, value, bits =>
    ((value >>> bits) &&& (4294967295 >>> (32 - w))) :: s16unpack ws num value (bits + w)

/-- `_decompress(value, n)`: `key = value >> 28`, `num = min(_num[key], n)`. -/
def s16decompress (value n : Nat) : List Nat :=
  let ws := s16bits.getD (value >>> 28) []
  let num := if ws.length < n then ws.length else n
  s16unpack ws num value 0

/-- `Simple16.read_nums(f, n)`: numbers and the unread rest; `none` when the file ends. -/
def s16read (n : Nat) (bs : List Nat) : Option (List Nat × List Nat) :=
  match n with
  | 0 => some ([], bs)
  | n + 1 =>
    let chunk := bs.take 4
    if chunk.length = 4 then
      let vs := s16decompress (decodeLE chunk) (n + 1)
      if h : 0 < vs.length ∧ vs.length ≤ n + 1 then
        (s16read (n + 1 - vs.length) (bs.drop 4)).map fun (xs, r) => (vs ++ xs, r)
      else none
    else none
termination_by n
decreasing_by
  have h' := h
  simp only [vs, chunk] at h'
  omega

/-- `Simple16.get(f, pos, i)` on the bytes from `pos` on (FIX: the word is `unpack_uint_le(...)[0]`,
    not the 1-tuple, and the skipping loop runs `while i >= base + num`): skip whole words by
    `_num[key]`, then `value >> sum(_bits[key][:offset]) & (2 ** _bits[key][offset] - 1)`.
    `none` = the file ends (`struct.error`) or `_bits[key][offset]` is out of range (`IndexError`). -/
def s16get (bs : List Nat) (i : Nat) : Option Nat :=
  let chunk := bs.take 4
  if chunk.length = 4 then
    let value := decodeLE chunk
    let ws := s16bits.getD (value >>> 28) []
    if _h : i ≥ ws.length ∧ 0 < ws.length then s16get (bs.drop 4) (i - ws.length)
    else match ws[i]? with
      | none => none
      | some w => some ((value >>> (ws.take i).sum) &&& (2 ^ w - 1))
  else none
termination_by i
decreasing_by
  have h' := _h
  simp only [ws, value, chunk] at h'
  omega

/-! ### delta variants (`NumberEncoding.write_deltas` / `read_deltas`, shared by every codec) -/

/-- `write_deltas(f, numbers) = write_nums(f, list(delta_encode(numbers)))` over a codec's
    `write_nums`.  The codecs take naturals: a negative delta (a descending input) is outside the
    model — `none` stands for the `struct.error` the fixed-width, GInts and Simple16 writers raise
    on it (`Varints` silently writes a wrong byte for it; not modelled). -/
def writeDeltasWith (write : List Nat → Option (List Nat)) (xs : List Nat) : Option (List Nat) :=
  let ds := deltaEncode (xs.map fun (x : Nat) => (x : Int))
  if ds.all (fun d => decide (0 ≤ d)) then write (ds.map Int.toNat) else none

/-- `read_deltas(f, n) = delta_decode(read_nums(f, n))`. -/
def readDeltasWith (read : Nat → List Nat → Option (List Nat × List Nat)) (n : Nat) (bs : List Nat) :
    Option (List Nat × List Nat) :=
  (read n bs).map fun (ds, r) => ((deltaDecode (ds.map fun (d : Nat) => (d : Int))).map Int.toNat, r)

end WM.NumPack
