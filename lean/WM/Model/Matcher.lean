/-
Layer M for the matcher family: executable mirror of
  * `whoosh/matching/mcore.py`    (Matcher contract, NullMatcher, ListMatcher, LeafMatcher)
  * `whoosh/codec/whoosh3.py`     (W3LeafMatcher: a posting list stored as a sequence of blocks)
  * `whoosh/matching/binary.py`   (Union, DisjunctionMax, Intersection, AndNot, AndMaybe)
  * `whoosh/matching/wrappers.py` (Wrapping/boost, Filter, Inverse, Require, ConstantScoreWrapper, Multi)

Design.  Every matcher class is a *functor*: given the operation tables (`Ops`) of its
sub-matchers it yields the operation table of the composite, function by function as in the Python
class (same tests, same order, same early exits, Python exceptions as `Err`).  Trees are obtained by
iterating the functors along a `Shape` (`WM/Model/MatcherTree.lean`).

What is *not* mirrored: `UnionMatcher._id` (a memo of `id()`; every method that moves a sub-matcher
clears it), the Boolean "entered a new block" results of `next`/`skip_to` (DESIGN Appendix F),
object identity (`copy()` of a value is the value; aliasing is checked on the real code only),
`weight()/value()/spans()`.

Loops.  The `while` loops of the composite matchers call operations of the sub-matchers and
terminate only because those make progress - a *semantic* property of well-formed sub-matchers
(`WM.C11.*`), not a syntactic one.  They are therefore written with an explicit iteration budget
computed from `rem` (number of postings not yet consumed); running out of budget is reported as
`Err.diverge` ("Python would spin forever").  `WM.C11` proves that `diverge` is unreachable from
well-formed states.  The budget (rather than well-founded recursion with a run-time progress guard)
keeps every definition structurally recursive, so concrete instances evaluate in the kernel
(`decide +kernel`), which the non-vacuity examples and counterexamples rely on.
-/
namespace WM.Matcher

/-- Python exceptions raised at the modelled sites. -/
inductive Err where
  | readTooFar   -- whoosh.matching.ReadTooFar
  | index        -- IndexError (reading `id()` etc. past the end)
  | assertion    -- AssertionError
  | notImpl      -- NotImplementedError (abstract method of `Matcher`)
  | value        -- ValueError (`max()` of an empty sequence)
  | zeroDiv      -- ZeroDivisionError
  | attr         -- AttributeError (`None.block_quality`)
  | noBlock      -- Exception("No next block")
  | diverge      -- a loop made no progress: the Python code would not terminate
  deriving DecidableEq, Repr, Inhabited

abbrev R := Except Err

/-- The operations of the `Matcher` interface that the family models, over a state type `σ`. -/
structure Ops (σ : Type) where
  isActive : σ → Bool
  id : σ → R Nat
  score : σ → R Rat
  next : σ → R σ
  skipTo : σ → Nat → R σ
  supportsBQ : σ → Bool
  blockQuality : σ → R Rat
  maxQuality : σ → R Rat
  /-- returns the new state and the "number of blocks skipped" result -/
  skipToQuality : σ → Rat → R (σ × Nat)
  reset : σ → R σ
  /-- postings (cursor positions) not yet consumed: budget for the loops of the parents -/
  rem : σ → Nat

namespace Ops
variable {σ : Type} (A : Ops σ)

/-- `if a.is_active(): a.skip_to(t)` -/
def skipToA (a : σ) (t : Nat) : R σ := if A.isActive a then A.skipTo a t else .ok a

/-- `if c: a.next()` -/
def nextIf (c : Bool) (a : σ) : R σ := if c then A.next a else .ok a

/-- `if c: a.skip_to(t)` -/
def skipToIf (c : Bool) (a : σ) (t : Nat) : R σ := if c then A.skipTo a t else .ok a

/-- `a.max_quality() if a.is_active() else 0` (the guarded reads of `AdditiveBiMatcher`) -/
def maxQualityA (a : σ) : R Rat := if A.isActive a then A.maxQuality a else .ok 0

/-- `a.block_quality() if a.is_active() else 0` -/
def blockQualityA (a : σ) : R Rat := if A.isActive a then A.blockQuality a else .ok 0

end Ops

/-! ## mcore.py: NullMatcher -/

/-- `mcore.NullMatcherClass`: `is_active` False, quality 0, `id/score/next` are the abstract
    methods of `Matcher` (NotImplementedError), `skip_to` is the base-class loop (no iteration). -/
def nullOps : Ops Unit where
  isActive _ := false
  id _ := .error .notImpl
  score _ := .error .notImpl
  next _ := .error .notImpl
  skipTo _ _ := .ok ()
  supportsBQ _ := true
  blockQuality _ := .ok 0
  maxQuality _ := .ok 0
  skipToQuality _ _ := .ok ((), 0)
  reset _ := .ok ()
  rem _ := 0

/-! ## mcore.py: ListMatcher -/

/-- `mcore.ListMatcher(ids, weights, scorer=WeightScorer(..) | None, position=i)`. -/
structure ListM where
  ids : List Nat
  weights : List Rat
  i : Nat
  scorer : Bool
  deriving Repr, DecidableEq

namespace ListM

/-- `ListMatcher.is_active` -/
def isActive (m : ListM) : Bool := decide (m.i < m.ids.length)

/-- `ListMatcher.id`: `self._ids[self._i]` -/
def id (m : ListM) : R Nat :=
  match m.ids[m.i]? with
  | some x => .ok x
  | none => .error .index

/-- `ListMatcher.weight` (an empty weight list is falsy: 1.0). `score` is `weight` both without a
    scorer and with `WeightScorer`. -/
def score (m : ListM) : R Rat :=
  match m.weights with
  | [] => .ok 1
  | _ => match m.weights[m.i]? with
    | some w => .ok w
    | none => .error .index

/-- `ListMatcher.next`: `self._i += 1` (never raises) -/
def next (m : ListM) : R ListM := .ok { m with i := m.i + 1 }

/-- number of leading ids below `t` -/
def skipCount (t : Nat) : List Nat → Nat
  | [] => 0
  | x :: xs => if x < t then skipCount t xs + 1 else 0

/-- `ListMatcher.skip_to` -/
def skipTo (m : ListM) (t : Nat) : R ListM :=
  if !m.isActive then .error .readTooFar
  else .ok { m with i := m.i + skipCount t (m.ids.drop m.i) }

/-- `ListMatcher.block_max_weight`: `max(self._weights)`, 1.0 when there are no weights -/
def blockMaxWeight (m : ListM) : Rat :=
  match m.weights with
  | [] => 1
  | w :: ws => ws.foldl max w

/-- `ListMatcher.max_quality`: `scorer.block_quality(self)` = `block_max_weight()` either way -/
def maxQuality (m : ListM) : R Rat := .ok m.blockMaxWeight

/-- `ListMatcher.block_quality`: `self._scorer.block_quality(self)` -/
def blockQuality (m : ListM) : R Rat := if m.scorer then .ok m.blockMaxWeight else .error .attr

/-- `ListMatcher.skip_to_quality`: the whole list is one block; always returns 0 -/
def skipToQuality (m : ListM) (q : Rat) : R (ListM × Nat) :=
  if m.i < m.ids.length then
    match m.blockQuality with
    | .error e => .error e
    | .ok bq => if bq ≤ q then .ok ({ m with i := m.ids.length }, 0) else .ok (m, 0)
  else .ok (m, 0)

def ops : Ops ListM where
  isActive := isActive
  id := id
  score := score
  next := next
  skipTo := skipTo
  supportsBQ m := m.scorer
  blockQuality := blockQuality
  maxQuality := maxQuality
  skipToQuality := skipToQuality
  reset m := .ok { m with i := 0 }
  rem m := m.ids.length - m.i

end ListM

/-! ## codec/whoosh3.py: W3LeafMatcher -/

structure Posting where
  id : Nat
  weight : Rat
  /-- field length of the document (`scorer.dfl(id)`) -/
  length : Nat
  deriving Repr, DecidableEq

/-- One posting block with the statistics stored in its header (`W3PostingsWriter._write_block`). -/
structure Block where
  posts : List Posting
  maxId : Nat
  maxWeight : Rat
  minLength : Nat
  deriving Repr, DecidableEq

/-- `W3LeafMatcher` with a weight/length scorer `sc = scorer._score` (Frequency: `fun w _ => w`,
    TF_IDF: `fun w _ => w * idf`, BM25F: `bm25`); `termMaxWeight/termMinLength` are the `TermInfo`
    statistics behind `scorer.max_quality()`. `b` = index of the current block, `i = _i`,
    `atend = _atend`. -/
structure LeafM where
  blocks : List Block
  sc : Rat → Nat → Rat
  termMaxWeight : Rat
  termMinLength : Nat
  b : Nat
  i : Nat
  atend : Bool

namespace LeafM

def curBlock (m : LeafM) : Option Block := m.blocks[m.b]?

/-- `self._blocklength` -/
def blen (m : LeafM) : Nat := match m.curBlock with | some B => B.posts.length | none => 0

/-- `W3LeafMatcher.is_active` -/
def isActive (m : LeafM) : Bool := !m.atend && decide (m.i < m.blen)

def cur (m : LeafM) : Option Posting := m.curBlock.bind (·.posts[m.i]?)

/-- `W3LeafMatcher.id`: `self._ids[self._i]` -/
def id (m : LeafM) : R Nat := match m.cur with | some p => .ok p.id | none => .error .index

/-- `LeafMatcher.score`: `scorer.score(self)` = `_score(weight(), dfl(id()))` -/
def score (m : LeafM) : R Rat :=
  match m.cur with | some p => .ok (m.sc p.weight p.length) | none => .error .index

/-- `W3LeafMatcher._next_block` (`_lastblock` = the current block is the last one) -/
def nextBlock (m : LeafM) : R LeafM :=
  if m.atend then .error .noBlock
  else if m.b + 1 ≥ m.blocks.length then .ok { m with atend := true }
  else .ok { m with b := m.b + 1, i := 0 }

/-- `W3LeafMatcher.next` -/
def next (m : LeafM) : R LeafM :=
  let m' := { m with i := m.i + 1 }
  if m'.i = m.blen then m'.nextBlock else .ok m'

/-- `block_max_id()` -/
def blockMaxId (m : LeafM) : Nat := match m.curBlock with | some B => B.maxId | none => 0

/-- `LeafMatcher.block_quality`: `_score(block_max_weight(), block_min_length())` -/
def blockQualityV (m : LeafM) : Rat :=
  match m.curBlock with | some B => m.sc B.maxWeight B.minLength | none => 0

/-- `W3LeafMatcher._skip_to_block(skipwhile)`; at most one iteration per remaining block -/
def skipBlocksWhile (p : LeafM → Bool) : Nat → LeafM → R (LeafM × Nat)
  | 0, _ => .error .diverge
  | n + 1, m =>
    if m.isActive && p m then
      match m.nextBlock with
      | .error e => .error e
      | .ok m' =>
        match skipBlocksWhile p n m' with
        | .error e => .error e
        | .ok (m'', k) => .ok (m'', k + 1)
    else .ok (m, 0)

/-- the loop `while self.is_active() and self.id() < targetid: self.next()` -/
def stepWhileBelow (t : Nat) : Nat → LeafM → R LeafM
  | 0, _ => .error .diverge
  | n + 1, m =>
    if m.isActive then
      match m.id with
      | .error e => .error e
      | .ok x =>
        if x < t then
          match m.next with
          | .error e => .error e
          | .ok m' => stepWhileBelow t n m'
        else .ok m
    else .ok m

/-- postings not yet consumed -/
def rem (m : LeafM) : Nat :=
  if m.atend then 0 else ((m.blocks.drop m.b).map (·.posts.length)).sum - m.i

/-- first phase of `skip_to`: `if targetid > block_max_id(): self._skip_to_block(...)` -/
def skipBlocksTo (m : LeafM) (t : Nat) : R LeafM :=
  if t > m.blockMaxId then
    match skipBlocksWhile (fun m => decide (t > m.blockMaxId)) (m.blocks.length + 1) m with
    | .error e => .error e
    | .ok (m1, _) => .ok m1
  else .ok m

/-- `W3LeafMatcher.skip_to` -/
def skipTo (m : LeafM) (t : Nat) : R LeafM :=
  if !m.isActive then .error .readTooFar
  else
    match m.id with
    | .error e => .error e
    | .ok x =>
      if t ≤ x then .ok m
      else
        match m.skipBlocksTo t with
        | .error e => .error e
        | .ok m1 => stepWhileBelow t (m1.rem + 1) m1

/-- `W3LeafMatcher.skip_to_quality` -/
def skipToQuality (m : LeafM) (q : Rat) : R (LeafM × Nat) :=
  if m.blockQualityV > q then .ok (m, 0)
  else skipBlocksWhile (fun m => decide (m.blockQualityV ≤ q)) (m.blocks.length + 1) m

def ops : Ops LeafM where
  isActive := isActive
  id := id
  score := score
  next := next
  skipTo := skipTo
  supportsBQ _ := true
  blockQuality m := .ok m.blockQualityV
  maxQuality m := .ok (m.sc m.termMaxWeight m.termMinLength)
  skipToQuality := skipToQuality
  reset m := .ok { m with b := 0, i := 0, atend := false }
  rem := rem

end LeafM

/-! ## binary.py -/

/-- State of a `BiMatcher`: the two sub-matchers. -/
structure Bin (α β : Type) where
  a : α
  b : β

section Binary
variable {α β : Type} (A : Ops α) (B : Ops β)

/-! ### UnionMatcher -/
namespace Union

/-- `UnionMatcher.id` -/
def id (m : Bin α β) : R Nat :=
  if !A.isActive m.a then B.id m.b
  else if !B.isActive m.b then A.id m.a
  else do
    let x ← A.id m.a
    let y ← B.id m.b
    pure (min x y)

/-- `UnionMatcher.score` / `DisjunctionMaxMatcher.score`: the two methods differ only in how the
    scores are combined when both sub-matchers are on the same document (`+` resp. `max`) -/
def scoreWith (f : Rat → Rat → Rat) (m : Bin α β) : R Rat :=
  if !A.isActive m.a then B.score m.b
  else if !B.isActive m.b then A.score m.a
  else do
    let x ← A.id m.a
    let y ← B.id m.b
    if x < y then A.score m.a
    else if y < x then B.score m.b
    else do
      let s ← A.score m.a
      let t ← B.score m.b
      pure (f s t)

/-- `UnionMatcher.score` -/
def score (m : Bin α β) : R Rat := scoreWith A B (· + ·) m

/-- `UnionMatcher.next` -/
def next (m : Bin α β) : R (Bin α β) :=
  let aa := A.isActive m.a
  let ba := B.isActive m.b
  if !(aa || ba) then .error .readTooFar
  else if !aa then do let b' ← B.next m.b; pure { m with b := b' }
  else if !ba then do let a' ← A.next m.a; pure { m with a := a' }
  else do
    let x ← A.id m.a
    let y ← B.id m.b
    let a' ← A.nextIf (decide (x ≤ y)) m.a
    let b' ← B.nextIf (decide (y ≤ x)) m.b
    pure ⟨a', b'⟩

/-- `UnionMatcher.skip_to` -/
def skipTo (m : Bin α β) (t : Nat) : R (Bin α β) := do
  let a' ← A.skipToA m.a t
  let b' ← B.skipToA m.b t
  pure ⟨a', b'⟩

/-- `AdditiveBiMatcher.max_quality` -/
def maxQuality (m : Bin α β) : R Rat := do
  let qa ← A.maxQualityA m.a
  let qb ← B.maxQualityA m.b
  pure (qa + qb)

/-- `AdditiveBiMatcher.block_quality` -/
def blockQuality (m : Bin α β) : R Rat := do
  let qa ← A.blockQualityA m.a
  let qb ← B.blockQualityA m.b
  pure (qa + qb)

/-- `UnionMatcher.skip_to_quality` -/
def skipToQuality (m : Bin α β) (q : Rat) : R (Bin α β × Nat) :=
  if !(A.isActive m.a || B.isActive m.b) then .error .readTooFar
  else if !A.isActive m.a then do
    let (b', k) ← B.skipToQuality m.b q
    pure ({ m with b := b' }, k)
  else if !B.isActive m.b then do
    let (a', k) ← A.skipToQuality m.a q
    pure ({ m with a := a' }, k)
  else do
    let bmax ← B.maxQuality m.b
    let (a', k1) ← A.skipToQuality m.a (q - bmax)
    if A.isActive a' then do
      let amax ← A.maxQuality a'
      let (b', k2) ← B.skipToQuality m.b (q - amax)
      pure (⟨a', b'⟩, k1 + k2)
    else do
      let (b', k2) ← B.skipToQuality m.b q
      pure (⟨a', b'⟩, k1 + k2)

/-- `BiMatcher.reset` -/
def reset (m : Bin α β) : R (Bin α β) := do
  let a' ← A.reset m.a
  let b' ← B.reset m.b
  pure ⟨a', b'⟩

def ops : Ops (Bin α β) where
  isActive m := A.isActive m.a || B.isActive m.b
  id := id A B
  score := score A B
  next := next A B
  skipTo := skipTo A B
  supportsBQ m := A.supportsBQ m.a && B.supportsBQ m.b
  blockQuality := blockQuality A B
  maxQuality := maxQuality A B
  skipToQuality := skipToQuality A B
  reset := reset A B
  rem m := A.rem m.a + B.rem m.b

end Union

/-! ### DisjunctionMaxMatcher (subclass of UnionMatcher) -/
namespace DisMax

/-- `DisjunctionMaxMatcher.score`.  The constructor option `tiebreak` (binary.py `__init__`/`copy`) is stored on
the object and read by no method: the score is the plain maximum for every tiebreak, which is what the bounds
`max_quality`/`block_quality` below (also plain maxima) rely on.  The harness builds the real class with
tiebreak 0 and > 0 against this one model. -/
def score (m : Bin α β) : R Rat := Union.scoreWith A B max m

/-- `DisjunctionMaxMatcher.max_quality` (sub-matchers are asked unconditionally) -/
def maxQuality (m : Bin α β) : R Rat := do
  let qa ← A.maxQuality m.a
  let qb ← B.maxQuality m.b
  pure (max qa qb)

/-- `DisjunctionMaxMatcher.block_quality` -/
def blockQuality (m : Bin α β) : R Rat := do
  let qa ← A.blockQuality m.a
  let qb ← B.blockQuality m.b
  pure (max qa qb)

/-- `DisjunctionMaxMatcher.skip_to_quality` -/
def skipToQuality (m : Bin α β) (q : Rat) : R (Bin α β × Nat) :=
  if !A.isActive m.a then do
    let (b', k) ← B.skipToQuality m.b q
    pure ({ m with b := b' }, k)
  else if !B.isActive m.b then do
    let (a', k) ← A.skipToQuality m.a q
    pure ({ m with a := a' }, k)
  else do
    let (a', k1) ← A.skipToQuality m.a q
    let (b', k2) ← B.skipToQuality m.b q
    pure (⟨a', b'⟩, k1 + k2)

def ops : Ops (Bin α β) :=
  { Union.ops A B with
    score := score A B
    blockQuality := blockQuality A B
    maxQuality := maxQuality A B
    skipToQuality := skipToQuality A B }

end DisMax

/-! ### IntersectionMatcher -/
namespace Inter

/-- the `while` loop of `IntersectionMatcher._find_next` (`x = a_id`, `y = b_id`) -/
def findLoop : Nat → α → β → Nat → Nat → R (Bin α β)
  | 0, _, _, _, _ => .error .diverge
  | n + 1, a, b, x, y =>
    if A.isActive a && B.isActive b && x != y then
      if x < y then do
        let a' ← A.skipTo a y
        if !A.isActive a' then pure ⟨a', b⟩
        else do
          let x' ← A.id a'
          findLoop n a' b x' y
      else do
        let b' ← B.skipTo b x
        if !B.isActive b' then pure ⟨a, b'⟩
        else do
          let y' ← B.id b'
          findLoop n a b' x y'
    else pure ⟨a, b⟩

/-- `IntersectionMatcher._find_next` -/
def findNext (m : Bin α β) : R (Bin α β) := do
  let x ← A.id m.a
  let y ← B.id m.b
  if x = y then .error .assertion
  else findLoop A B (A.rem m.a + B.rem m.b + 1) m.a m.b x y

/-- `IntersectionMatcher._find_first` -/
def findFirst (m : Bin α β) : R (Bin α β) :=
  if A.isActive m.a && B.isActive m.b then do
    let x ← A.id m.a
    let y ← B.id m.b
    if x != y then findNext A B m else pure m
  else pure m

def isActive (m : Bin α β) : Bool := A.isActive m.a && B.isActive m.b

/-- `IntersectionMatcher.next` -/
def next (m : Bin α β) : R (Bin α β) :=
  if !isActive A B m then .error .readTooFar
  else do
    let a' ← A.next m.a
    let m' : Bin α β := { m with a := a' }
    if isActive A B m' then findNext A B m' else pure m'

/-- `IntersectionMatcher.skip_to` -/
def skipTo (m : Bin α β) (t : Nat) : R (Bin α β) :=
  if !isActive A B m then .error .readTooFar
  else do
    let a' ← A.skipTo m.a t
    let b' ← B.skipTo m.b t
    let m' : Bin α β := ⟨a', b'⟩
    if isActive A B m' then do
      let x ← A.id a'
      let y ← B.id b'
      if x != y then findNext A B m' else pure m'
    else pure m'

/-- `AdditiveBiMatcher.score` -/
def score (m : Bin α β) : R Rat := do
  let s ← A.score m.a
  let t ← B.score m.b
  pure (s + t)

/-- one side of the body of the `skip_to_quality` loop (`y` = id of the other side, i.e. the current document):
    `sk = a.skip_to_quality(thr); if a.is_active() and a.id() == b.id(): a.next()` -/
def skipSide {σ : Type} (S : Ops σ) (a : σ) (thr : Rat) (y : Nat) : R (σ × Nat) := do
  let (a', sk) ← S.skipToQuality a thr
  if S.isActive a' then do
    let x ← S.id a'
    let a'' ← S.nextIf (x == y) a'
    pure (a'', sk)
  else pure (a', sk)

/-- the two branches `if aq < bq: ... else: ...` of the loop body -/
def skipStep (q : Rat) (m : Bin α β) (aq bq : Rat) : R (Bin α β × Nat) :=
  if aq < bq then do
    let bmax ← B.maxQuality m.b
    let y ← B.id m.b
    let (a', sk) ← skipSide A m.a (q - bmax) y
    pure ({ m with a := a' }, sk)
  else do
    let amax ← A.maxQuality m.a
    let x ← A.id m.a
    let (b', sk) ← skipSide B m.b (q - amax) x
    pure ({ m with b := b' }, sk)

/-- `if a.id() != b.id(): self._find_next()` -/
def realign (m : Bin α β) : R (Bin α β) := do
  let x ← A.id m.a
  let y ← B.id m.b
  if x != y then findNext A B m else pure m

/-- the `while` loop of `IntersectionMatcher.skip_to_quality` (`aq`, `bq` = block qualities read at
    the end of the previous iteration) -/
def skipQLoop (q : Rat) : Nat → Bin α β → Rat → Rat → Nat → R (Bin α β × Nat)
  | 0, _, _, _, _ => .error .diverge
  | n + 1, m, aq, bq, skipped =>
    if A.isActive m.a && B.isActive m.b && aq + bq < q then do
      let (m1, sk) ← skipStep A B q m aq bq
      if !A.isActive m1.a || !B.isActive m1.b then pure (m1, skipped + sk)
      else do
        let m2 ← realign A B m1
        let aq' ← A.blockQuality m2.a
        let bq' ← B.blockQuality m2.b
        skipQLoop q n m2 aq' bq' (skipped + sk)
    else pure (m, skipped)

/-- `IntersectionMatcher.skip_to_quality` -/
def skipToQuality (m : Bin α β) (q : Rat) : R (Bin α β × Nat) := do
  let aq ← A.blockQuality m.a
  let bq ← B.blockQuality m.b
  skipQLoop A B q (A.rem m.a + B.rem m.b + 1) m aq bq 0

/-- `IntersectionMatcher.reset` -/
def reset (m : Bin α β) : R (Bin α β) := do
  let a' ← A.reset m.a
  let b' ← B.reset m.b
  findFirst A B ⟨a', b'⟩

def ops : Ops (Bin α β) where
  isActive := isActive A B
  id m := A.id m.a
  score := score A B
  next := next A B
  skipTo := skipTo A B
  supportsBQ m := A.supportsBQ m.a && B.supportsBQ m.b
  blockQuality := Union.blockQuality A B
  maxQuality := Union.maxQuality A B
  skipToQuality := skipToQuality A B
  reset := reset A B
  rem m := A.rem m.a + B.rem m.b

/-- `IntersectionMatcher.__init__` -/
def init (a : α) (b : β) : R (Bin α β) := findFirst A B ⟨a, b⟩

end Inter

/-! ### AndNotMatcher -/
namespace AndNot

/-- the `while` loop of `AndNotMatcher._find_next` (`x = pos_id`) -/
def findLoop : Nat → α → β → Nat → R (Bin α β)
  | 0, _, _, _ => .error .diverge
  | n + 1, a, b, x =>
    if A.isActive a && B.isActive b then do
      let y ← B.id b
      if x == y then do
        let a' ← A.next a
        if !A.isActive a' then pure ⟨a', b⟩
        else do
          let x' ← A.id a'
          let b' ← B.skipTo b x'
          findLoop n a' b' x'
      else pure ⟨a, b⟩
    else pure ⟨a, b⟩

/-- `AndNotMatcher._find_next` -/
def findNext (m : Bin α β) : R (Bin α β) :=
  if !(A.isActive m.a && B.isActive m.b) then pure m
  else do
    let x ← A.id m.a
    let y ← B.id m.b
    let b' ← B.skipToIf (decide (y < x)) m.b x
    findLoop A B (A.rem m.a + 1) m.a b' x

/-- `AndNotMatcher._find_first` -/
def findFirst (m : Bin α β) : R (Bin α β) :=
  if A.isActive m.a && B.isActive m.b then findNext A B m else pure m

/-- `AndNotMatcher.next` -/
def next (m : Bin α β) : R (Bin α β) :=
  if !A.isActive m.a then .error .readTooFar
  else do
    let a' ← A.next m.a
    let m' : Bin α β := { m with a := a' }
    if A.isActive a' && B.isActive m.b then findNext A B m' else pure m'

/-- `AndNotMatcher.skip_to` -/
def skipTo (m : Bin α β) (t : Nat) : R (Bin α β) :=
  if !A.isActive m.a then .error .readTooFar
  else do
    let x ← A.id m.a
    if t < x then pure m
    else do
      let a' ← A.skipTo m.a t
      if B.isActive m.b then do
        let b' ← B.skipTo m.b t
        findNext A B ⟨a', b'⟩
      else pure { m with a := a' }

/-- `AndNotMatcher.skip_to_quality` -/
def skipToQuality (m : Bin α β) (q : Rat) : R (Bin α β × Nat) := do
  let (a', k) ← A.skipToQuality m.a q
  let m' ← findNext A B { m with a := a' }
  pure (m', k)

/-- `AndNotMatcher.reset` -/
def reset (m : Bin α β) : R (Bin α β) := do
  let a' ← A.reset m.a
  let b' ← B.reset m.b
  findFirst A B ⟨a', b'⟩

def ops : Ops (Bin α β) where
  isActive m := A.isActive m.a
  id m := A.id m.a
  score m := A.score m.a
  next := next A B
  skipTo := skipTo A B
  supportsBQ m := A.supportsBQ m.a
  blockQuality m := A.blockQuality m.a
  maxQuality m := A.maxQuality m.a
  skipToQuality := skipToQuality A B
  reset := reset A B
  rem m := A.rem m.a + B.rem m.b

/-- `AndNotMatcher.__init__` -/
def init (a : α) (b : β) : R (Bin α β) := findFirst A B ⟨a, b⟩

end AndNot

/-! ### AndMaybeMatcher -/
namespace AndMaybe

/-- `AndMaybeMatcher._first_b` -/
def firstB (m : Bin α β) : R (Bin α β) :=
  if A.isActive m.a && B.isActive m.b then do
    let x ← A.id m.a
    let y ← B.id m.b
    if x != y then do
      let b' ← B.skipTo m.b x
      pure { m with b := b' }
    else pure m
  else pure m

/-- `AndMaybeMatcher.next` -/
def next (m : Bin α β) : R (Bin α β) :=
  if !A.isActive m.a then .error .readTooFar
  else do
    let a' ← A.next m.a
    if A.isActive a' && B.isActive m.b then do
      let x ← A.id a'
      let b' ← B.skipTo m.b x
      pure ⟨a', b'⟩
    else pure { m with a := a' }

/-- `AndMaybeMatcher.skip_to` -/
def skipTo (m : Bin α β) (t : Nat) : R (Bin α β) :=
  if !A.isActive m.a then .error .readTooFar
  else do
    let a' ← A.skipTo m.a t
    if A.isActive a' && B.isActive m.b then do
      let x ← A.id a'
      let b' ← B.skipTo m.b x
      pure ⟨a', b'⟩
    else pure { m with a := a' }

/-- `AndMaybeMatcher.score` -/
def score (m : Bin α β) : R Rat :=
  if B.isActive m.b then do
    let x ← A.id m.a
    let y ← B.id m.b
    if x == y then do
      let s ← A.score m.a
      let t ← B.score m.b
      pure (s + t)
    else A.score m.a
  else A.score m.a

/-- `AndMaybeMatcher.skip_to_quality` -/
def skipToQuality (m : Bin α β) (q : Rat) : R (Bin α β × Nat) :=
  if !A.isActive m.a then .error .readTooFar
  else if !B.isActive m.b then do
    let (a', k) ← A.skipToQuality m.a q
    pure ({ m with a := a' }, k)
  else do
    let bmax ← B.maxQuality m.b
    let (a', k1) ← A.skipToQuality m.a (q - bmax)
    if A.isActive a' then do
      let amax ← A.maxQuality a'
      let (b', k2) ← B.skipToQuality m.b (q - amax)
      if B.isActive b' then do
        let x ← A.id a'
        let b'' ← B.skipTo b' x
        pure (⟨a', b''⟩, k1 + k2)
      else pure (⟨a', b'⟩, k1 + k2)
    else pure ({ m with a := a' }, k1)

/-- `AndMaybeMatcher.reset` -/
def reset (m : Bin α β) : R (Bin α β) := do
  let a' ← A.reset m.a
  let b' ← B.reset m.b
  firstB A B ⟨a', b'⟩

def ops : Ops (Bin α β) where
  isActive m := A.isActive m.a
  id m := A.id m.a
  score := score A B
  next := next A B
  skipTo := skipTo A B
  supportsBQ m := A.supportsBQ m.a && B.supportsBQ m.b
  blockQuality := Union.blockQuality A B
  maxQuality := Union.maxQuality A B
  skipToQuality := skipToQuality A B
  reset := reset A B
  rem m := A.rem m.a + B.rem m.b

/-- `AndMaybeMatcher.__init__` -/
def init (a : α) (b : β) : R (Bin α β) := firstB A B ⟨a, b⟩

end AndMaybe

/-! ### wrappers.py: RequireMatcher (`child = IntersectionMatcher(a, b)` sharing `a` and `b`) -/
namespace Require

/-- `RequireMatcher.skip_to_quality` -/
def skipToQuality (m : Bin α β) (q : Rat) : R (Bin α β × Nat) := do
  let (a', k) ← A.skipToQuality m.a q
  let m' ← Inter.findFirst A B { m with a := a' }
  pure (m', k)

def ops : Ops (Bin α β) :=
  { Inter.ops A B with
    score := fun m => A.score m.a
    supportsBQ := fun m => A.supportsBQ m.a
    blockQuality := fun m => A.blockQuality m.a
    maxQuality := fun m => A.maxQuality m.a
    skipToQuality := skipToQuality A B }

end Require
end Binary

/-! ## wrappers.py: single-child wrappers -/

section Wrappers
variable {α : Type} (A : Ops α)

/-! ### WrappingMatcher(child, boost) -/

structure Boost (α : Type) where
  child : α
  boost : Rat

namespace Boost

/-- `WrappingMatcher.skip_to_quality`: nothing is skipped when the boost is not positive, else
    `child.skip_to_quality(minquality / self.boost)` -/
def skipToQuality (m : Boost α) (q : Rat) : R (Boost α × Nat) :=
  if m.boost ≤ 0 then .ok (m, 0)
  else do
    let (c, k) ← A.skipToQuality m.child (q / m.boost)
    pure ({ m with child := c }, k)

def ops : Ops (Boost α) where
  isActive m := A.isActive m.child
  id m := A.id m.child
  score m := do let s ← A.score m.child; pure (s * m.boost)
  next m := do let c ← A.next m.child; pure { m with child := c }
  skipTo m t := do let c ← A.skipTo m.child t; pure { m with child := c }
  supportsBQ m := A.supportsBQ m.child
  blockQuality m := do let s ← A.blockQuality m.child; pure (s * m.boost)
  maxQuality m := do let s ← A.maxQuality m.child; pure (s * m.boost)
  skipToQuality := skipToQuality A
  reset m := do let c ← A.reset m.child; pure { m with child := c }
  rem m := A.rem m.child

end Boost

/-! ### FilterMatcher(child, ids, exclude, boost) -/

structure Filter (α : Type) where
  child : α
  ids : List Nat
  exclude : Bool
  boost : Rat

namespace Filter

/-- is the id filtered out? (`id in ids` when excluding, `id not in ids` otherwise) -/
def rejects (ids : List Nat) (exclude : Bool) (x : Nat) : Bool := (ids.contains x) == exclude

/-- `FilterMatcher._find_next` -/
def findLoop (ids : List Nat) (exclude : Bool) : Nat → α → R α
  | 0, _ => .error .diverge
  | n + 1, c =>
    if A.isActive c then do
      let x ← A.id c
      if rejects ids exclude x then do
        let c' ← A.next c
        findLoop ids exclude n c'
      else pure c
    else pure c

def findNext (m : Filter α) : R (Filter α) := do
  let c ← findLoop A m.ids m.exclude (A.rem m.child + 1) m.child
  pure { m with child := c }

/-- `FilterMatcher.skip_to_quality` -/
def skipToQuality (m : Filter α) (q : Rat) : R (Filter α × Nat) :=
  if m.boost ≤ 0 then do
    -- `WrappingMatcher.skip_to_quality` returns 0 without moving the child; `_find_next()` still runs
    let m' ← findNext A m
    pure (m', 0)
  else do
    let (c, k) ← A.skipToQuality m.child (q / m.boost)
    let m' ← findNext A { m with child := c }
    pure (m', k)

def ops : Ops (Filter α) where
  isActive m := A.isActive m.child
  id m := A.id m.child
  score m := do let s ← A.score m.child; pure (s * m.boost)
  next m := do let c ← A.next m.child; findNext A { m with child := c }
  skipTo m t := do let c ← A.skipTo m.child t; findNext A { m with child := c }
  supportsBQ m := A.supportsBQ m.child
  blockQuality m := do let s ← A.blockQuality m.child; pure (s * m.boost)
  maxQuality m := do let s ← A.maxQuality m.child; pure (s * m.boost)
  skipToQuality := skipToQuality A
  reset m := do let c ← A.reset m.child; findNext A { m with child := c }
  rem m := A.rem m.child

/-- `FilterMatcher.__init__` -/
def init (c : α) (ids : List Nat) (exclude : Bool) (boost : Rat) : R (Filter α) :=
  findNext A ⟨c, ids, exclude, boost⟩

end Filter

/-! ### InverseMatcher(child, limit, missing, weight, id) -/

structure Inverse (α : Type) where
  child : α
  limit : Nat
  missing : List Nat
  weight : Rat
  id : Nat

namespace Inverse

/-- `InverseMatcher._find_next` -/
def findLoop (limit : Nat) (missing : List Nat) : Nat → α → Nat → R (α × Nat)
  | 0, _, _ => .error .diverge
  | n + 1, c, i =>
    if i < limit then
      if missing.contains i then findLoop limit missing n c (i + 1)
      else if A.isActive c then do
        let x ← A.id c
        if x < i then do
          let c' ← A.skipTo c i
          findLoop limit missing n c' i
        else if x == i then do
          let c' ← A.next c
          findLoop limit missing n c' (i + 1)
        else pure (c, i)
      else pure (c, i)
    else pure (c, i)

def findNext (m : Inverse α) : R (Inverse α) := do
  let (c, i) ← findLoop A m.limit m.missing ((m.limit - m.id) + A.rem m.child + 1) m.child m.id
  pure { m with child := c, id := i }

def isActive (m : Inverse α) : Bool := decide (m.id < m.limit)

def ops : Ops (Inverse α) where
  isActive := isActive
  id m := .ok m.id
  score m := .ok m.weight
  next m := if m.id ≥ m.limit then .error .readTooFar else findNext A { m with id := m.id + 1 }
  skipTo m t :=
    if m.id ≥ m.limit then .error .readTooFar
    else if t < m.id then .ok m
    else findNext A { m with id := t }
  supportsBQ _ := false
  blockQuality m := .ok m.weight
  maxQuality m := .ok m.weight
  -- `WrappingMatcher.skip_to_quality` with the inherited `boost = 1.0`
  skipToQuality m q := do
    let (c, k) ← A.skipToQuality m.child (q / 1)
    pure ({ m with child := c }, k)
  reset m := do let c ← A.reset m.child; findNext A { m with child := c, id := 0 }
  rem m := (m.limit - m.id) + A.rem m.child

/-- `InverseMatcher.__init__` -/
def init (c : α) (limit : Nat) (missing : List Nat) (weight : Rat) (id : Nat) : R (Inverse α) :=
  findNext A ⟨c, limit, missing, weight, id⟩

end Inverse

/-! ### ConstantScoreWrapperMatcher(child, score) -/

structure Const (α : Type) where
  child : α
  score : Rat

namespace Const

def ops : Ops (Const α) where
  isActive m := A.isActive m.child
  id m := A.id m.child
  score m := .ok m.score
  next m := do let c ← A.next m.child; pure { m with child := c }
  skipTo m t := do let c ← A.skipTo m.child t; pure { m with child := c }
  supportsBQ m := A.supportsBQ m.child
  blockQuality m := .ok m.score
  maxQuality m := .ok m.score
  skipToQuality m _ := .ok (m, 0)
  reset m := do let c ← A.reset m.child; pure { m with child := c }
  rem m := A.rem m.child

end Const
end Wrappers

end WM.Matcher
