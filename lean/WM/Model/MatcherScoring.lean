/-
Mirror of the weight/length scoring functions of `whoosh/scoring.py` that claim block quality support,
over `Rat`: `Frequency` (`WeightScorer.score` = weight), `TF_IDFScorer.score` (weight * idf) and
`scoring.bm25` (BM25F).  PL2 / DFree use logarithms and are not modelled (they no longer claim
quality support after the repairs).
-/
namespace WM.Matcher

/-- `WeightScorer`: the score is the weight -/
def freqScore (w : Rat) (_ : Nat) : Rat := w

/-- `TF_IDFScorer.score`: `matcher.weight() * self.idf` -/
def tfidfScore (idf : Rat) (w : Rat) (_ : Nat) : Rat := w * idf

/-- `scoring.bm25(idf, tf, fl, avgfl, B, K1)` -/
def bm25 (idf avgfl B K1 : Rat) (tf : Rat) (fl : Nat) : Rat :=
  idf * ((tf * (K1 + 1)) / (tf + K1 * ((1 - B) + B * (fl : Rat) / avgfl)))

end WM.Matcher
