import WM.Model.Columns
/-
Layer M for C08, `columns.py CompressedBlockColumn`: the writer as a state machine that emits
blocks (`Writer.add/_emit/finish`), the reader's block table and `_find_block`, `_get_block`,
`__getitem__`.  The compression module and the pickle of the block header are identity parameters:
a block is the record `(startdoc, lastdoc, lengths, data)`.
-/
namespace WM.Columns

/-- One emitted block: the header `(startdoc, lastdoc, len(block), lengths)` and the block's bytes. -/
structure CBlock where
  first : Nat
  last : Nat
  lengths : List (Nat × Nat)
  data : Bytes
  deriving Repr, DecidableEq

/-- `CompressedBlockColumn.Writer` between `_reset()`s, and the blocks written so far. -/
structure CBW where
  startdoc : Option Nat := none
  lastdoc : Nat := 0
  block : Bytes := []
  lengths : List (Nat × Nat) := []
  out : List CBlock := []
  deriving Repr

/-- `Writer._emit`. -/
def CBW.emit (w : CBW) : List CBlock :=
  w.out ++ [{ first := w.startdoc.getD 0, last := w.lastdoc, lengths := w.lengths, data := w.block }]

/-- `Writer.add(docnum, v)`: `if self._startdoc is None: self._startdoc = docnum`; append the length
    entry and the bytes; `if len(self._block) >= self._blocksize: self._emit(); self._reset()`. -/
def CBW.add (blocksize : Nat) (w : CBW) (a : Nat × Bytes) : CBW :=
  let w1 : CBW := { w with startdoc := some (w.startdoc.getD a.1), lengths := w.lengths ++ [(a.1, a.2.length)]
                           lastdoc := a.1, block := w.block ++ a.2 }
  if w1.block.length ≥ blocksize then { out := w1.emit } else w1

/-- All `add`s, then `Writer.finish`: a pending block is written out. -/
def cbWrite (blocksize : Nat) (adds : List (Nat × Bytes)) : List CBlock :=
  let w := adds.foldl (CBW.add blocksize) {}
  if w.startdoc.isSome then w.emit else w.out

/-- `Reader._find_block(docnum)`: `for i, b in enumerate(blocks): if docnum < b[0]: return None;
    elif docnum <= b[1]: return i` — the linear scan, returning the block found. -/
def cbFind (d : Nat) : List CBlock → Option CBlock
  | [] => none
  | b :: bs => if d < b.first then none else if d ≤ b.last then some b else cbFind d bs

/-- `Reader._get_block`: `values[docnum] = data[base:base + vlen]; base += vlen` in the order of the
    length entries. -/
def cbValues (data : Bytes) : Nat → List (Nat × Nat) → List (Nat × Bytes)
  | _, [] => []
  | base, (d, n) :: rest => (d, slice data base n) :: cbValues data (base + n) rest

/-- What `reader[docnum]` does: a value, or `KeyError` from `self._get_block(i)[docnum]`. -/
inductive CbRow where
  | value (v : Bytes)
  | keyError
  deriving Repr, DecidableEq

/-- `Reader.__getitem__`: `i = self._find_block(docnum); if i is None: return emptybytes;
    return self._get_block(i)[docnum]` (a dict: the last entry of a docnum wins). -/
def cbGet (blocks : List CBlock) (d : Nat) : CbRow :=
  match cbFind d blocks with
  | none => .value []
  | some b =>
    match (cbValues b.data 0 b.lengths).reverse.lookup d with
    | some v => .value v
    | none => .keyError

end WM.Columns
