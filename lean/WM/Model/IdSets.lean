import WM.Spec.IdSet
/-
Mirror of `whoosh/idsets.py` (with the `fix:` commits of family c20 applied, each marked FIX):
`BaseBitSet` (`__contains__/__iter__/__len__/__bool__/first/last/before/after`), `BitSet`
(`__init__/_trim/_resize/_zero_extra_bits/_logic/copy/clear/add/discard/_resize_to_other/update/
intersection_update/difference_update/invert_update/union/intersection/difference/invert`),
`OnDiskBitSet` (= `BaseBitSet` over a slice of a byte file), `SortedIntSet`, `ReverseIdSet`,
`MultiIdSet`, and the generic `DocIdSet` fall-backs they inherit.

Bytes are `Nat`s below 256 (`array('B')`), a bit array is a `List Nat`.  Python exceptions at the
modelled sites are values of `Err`.
-/
namespace WM.IdSets

inductive Err where
  | index      -- IndexError
  | value      -- ValueError
  | type       -- TypeError
  | notImpl    -- NotImplementedError
  | struct     -- struct.error (a number does not fit its `struct` format)
  | overflow   -- OverflowError
  deriving Repr, DecidableEq, Inhabited

abbrev Bits := List Nat

/-- `util/numeric.py:bytes_for_bits`: `ceil((bitcount + 1) / 8.0)`. -/
def bytesForBits (n : Nat) : Nat := (n + 8) / 8

/-- Truth value of `byte & (1 << k)`. -/
def hasBit (byte k : Nat) : Bool := (byte &&& (1 <<< k)) != 0

/-! ### BaseBitSet (shared by `BitSet` and `OnDiskBitSet`) -/

/-- `BaseBitSet.__contains__`. -/
def contains (bits : Bits) (i : Nat) : Bool :=
  let bucket := i / 8
  if h : bucket ≥ bits.length then false
  else hasBit (bits[bucket]'(by omega)) (i % 8)

/-- inner loop of `BaseBitSet.__iter__` for one byte. -/
def iterByte (base byte : Nat) : List Nat :=
  (List.range 8).filterMap fun k => if hasBit byte k then some (base + k) else none

/-- `BaseBitSet.__iter__`, `base` advancing by 8 per byte. -/
def iterFrom : Nat → Bits → List Nat
  | _, [] => []
  | base, b :: bs => iterByte base b ++ iterFrom (base + 8) bs

def iter (bits : Bits) : List Nat := iterFrom 0 bits

/-- `_1SPERBYTE`. -/
def popTable : List Nat :=
  [0, 1, 1, 2, 1, 2, 2, 3, 1, 2, 2, 3, 2, 3, 3, 4, 1, 2,
   2, 3, 2, 3, 3, 4, 2, 3, 3, 4, 3, 4, 4, 5, 1, 2, 2, 3, 2, 3, 3, 4, 2, 3, 3, 4,
   3, 4, 4, 5, 2, 3, 3, 4, 3, 4, 4, 5, 3, 4, 4, 5, 4, 5, 5, 6, 1, 2, 2, 3, 2, 3,
   3, 4, 2, 3, 3, 4, 3, 4, 4, 5, 2, 3, 3, 4, 3, 4, 4, 5, 3, 4, 4, 5, 4, 5, 5, 6,
   2, 3, 3, 4, 3, 4, 4, 5, 3, 4, 4, 5, 4, 5, 5, 6, 3, 4, 4, 5, 4, 5, 5, 6, 4, 5,
   5, 6, 5, 6, 6, 7, 1, 2, 2, 3, 2, 3, 3, 4, 2, 3, 3, 4, 3, 4, 4, 5, 2, 3, 3, 4,
   3, 4, 4, 5, 3, 4, 4, 5, 4, 5, 5, 6, 2, 3, 3, 4, 3, 4, 4, 5, 3, 4, 4, 5, 4, 5,
   5, 6, 3, 4, 4, 5, 4, 5, 5, 6, 4, 5, 5, 6, 5, 6, 6, 7, 2, 3, 3, 4, 3, 4, 4, 5,
   3, 4, 4, 5, 4, 5, 5, 6, 3, 4, 4, 5, 4, 5, 5, 6, 4, 5, 5, 6, 5, 6, 6, 7, 3, 4,
   4, 5, 4, 5, 5, 6, 4, 5, 5, 6, 5, 6, 6, 7, 4, 5, 5, 6, 5, 6, 6, 7, 5, 6, 6, 7,
   6, 7, 7, 8]

/-- `BaseBitSet.__len__`: `sum(_1SPERBYTE[b] for b in bytes)`; a byte outside the table is an
    `IndexError`. -/
def len : Bits → Except Err Nat
  | [] => .ok 0
  | b :: bs =>
    match popTable[b]? with
    | none => .error .index
    | some c => (len bs).map (c + ·)

/-- `BaseBitSet.__nonzero__`. -/
def nonzero (bits : Bits) : Bool := bits.any (· != 0)

/-- The `while i < size` loop of `BaseBitSet.after`; `bucket` is carried exactly as the code
    carries it.  A read past the array is Python's `IndexError`. -/
def afterLoop (bits : Bits) (size i bucket : Nat) : Except Err (Option Nat) :=
  if i < size then
    match hb : bits[bucket]? with
    | none => .error .index
    | some byte =>
      if byte = 0 then afterLoop bits size ((bucket + 1) * 8) (bucket + 1)
      else if hasBit byte (i % 8) then .ok (some i)
      else afterLoop bits size (i + 1) (if (i + 1) % 8 = 0 then bucket + 1 else bucket)
  else .ok none
termination_by (bits.length - bucket, size - i)
decreasing_by
  all_goals
    have hlt : bucket < bits.length := by
      rcases List.getElem?_eq_some_iff.mp hb with ⟨h, _⟩; exact h
  · exact Prod.Lex.left _ _ (by omega)
  · split
    · exact Prod.Lex.left _ _ (by omega)
    · exact Prod.Lex.right _ (by omega)

/-- `BaseBitSet.after(i)`. -/
def after (bits : Bits) (i : Int) : Except Err (Option Nat) :=
  let size := bits.length * 8
  if i ≥ (size : Int) then .ok none
  else
    let i' : Nat := if i < 0 then 0 else (i + 1).toNat
    afterLoop bits size i' (i' / 8)

/-- `BaseBitSet.first`. -/
def first (bits : Bits) : Except Err (Option Nat) := after bits (-1)

/-- The `while i >= 0` loop of `BaseBitSet.before`, entered with `i ≥ 0`.  The code lets `bucket`
    become `-1` only together with `i = -1` (loop exit); the remaining combination (`bucket` would
    be negative while `i ≥ 0`) would read `bits[-1]` in Python and is reported as `index` here —
    `WM.C20.before_spec` shows it is unreachable. -/
def beforeLoop (bits : Bits) (i bucket : Nat) : Except Err (Option Nat) :=
  match bits[bucket]? with
  | none => .error .index
  | some byte =>
    if byte = 0 then
      if bucket = 0 then .ok none
      else beforeLoop bits ((bucket - 1) * 8 + 7) (bucket - 1)
    else if hasBit byte (i % 8) then .ok (some i)
    else if i = 0 then .ok none
    else if i % 8 = 0 then
      (if bucket = 0 then .error .index else beforeLoop bits (i - 1) (bucket - 1))
    else beforeLoop bits (i - 1) bucket
termination_by (bucket, i)
decreasing_by
  · exact Prod.Lex.left _ _ (by omega)
  · exact Prod.Lex.left _ _ (by omega)
  · exact Prod.Lex.right _ (by omega)

/-- `BaseBitSet.before(i)`. -/
def before (bits : Bits) (i : Int) : Except Err (Option Nat) :=
  let size := bits.length * 8
  if i ≤ 0 then .ok none
  else if i ≥ (size : Int) then
    (if size = 0 then .ok none else beforeLoop bits (size - 1) ((size - 1) / 8))
  else beforeLoop bits (i.toNat - 1) ((i.toNat - 1) / 8)

/-- `BaseBitSet.last`. -/
def last (bits : Bits) : Except Err (Option Nat) := before bits ((bits.length * 8 + 1 : Nat) : Int)

/-! ### OnDiskBitSet -/

/-- `OnDiskBitSet(dbfile, basepos, bytecount)`: the `BaseBitSet` methods over
    `file[basepos : basepos + bytecount]` (`_get_byte(n) = file[basepos + n]`). -/
def onDisk (file : List Nat) (basepos bytecount : Nat) : Bits := (file.drop basepos).take bytecount

/-! ### BitSet -/

/-- `BitSet._trim`. -/
def trim : Bits → Bits
  | [] => []
  | b :: bs =>
    match trim bs with
    | [] => if b = 0 then [] else [b]
    | t => b :: t

/-- `BitSet._resize`.  FIX: the shrinking branch was `del self.bits[newlength + 1:]`. -/
def resize (bits : Bits) (tosize : Nat) : Bits :=
  let cur := bits.length
  let new := bytesForBits tosize
  if new > cur then bits ++ List.replicate (new - cur) 0
  else if new < cur then bits.take new
  else bits

/-- `BitSet.add`. -/
def add (bits : Bits) (i : Nat) : Bits :=
  let bucket := i / 8
  let bits := if bucket ≥ bits.length then resize bits (i + 1) else bits
  bits.modify bucket (· ||| (1 <<< (i % 8)))

/-- `x & ~m` on a byte (Python's `~m` is `-(m+1)`; on bytes this is "clear the bits of `m`"). -/
def andNot (x m : Nat) : Nat := x &&& (255 ^^^ m)

/-- `BitSet.discard`.  FIX: guarded by `bucket < len(self.bits)` (was an `IndexError`). -/
def discard (bits : Bits) (i : Nat) : Bits :=
  let bucket := i / 8
  if bucket < bits.length then bits.modify bucket (andNot · (1 <<< (i % 8))) else bits

/-- `BitSet.__init__` up to the `add` loop: `size` is the explicit `size`, `sizedMax` the
    `max(source)` when the source is a non-empty list/tuple/set (FIX: an empty one no longer
    raises `ValueError`). -/
def emptyOfSize (size : Nat) : Bits := List.replicate (bytesForBits size) 0

def listMax : List Nat → Nat := fun l => l.foldl max 0

/-- `BitSet(source, size)`; `sized` = the source is a list/tuple/set/frozenset. -/
def ofSource (source : List Nat) (sized : Bool) (size : Nat) : Bits :=
  let size := if size = 0 && sized && !source.isEmpty then listMax source else size
  source.foldl add (emptyOfSize size)

/-- `BitSet._zero_extra_bits`.  FIX: the mask is applied also when `spill = 0`. Only called
    right after `_resize(size)`, so `0 ≤ spill < 8` and the array is non-empty; otherwise
    `2 ** spill` with negative `spill` is a float (`TypeError`) / `bits[-1]` an `IndexError`. -/
def zeroExtraBits (bits : Bits) (size : Nat) : Except Err Bits :=
  match bits.getLast? with
  | none => .error .index
  | some lastb =>
    if size < (bits.length - 1) * 8 then .error .type
    else
      let spill := size - (bits.length - 1) * 8
      let mask := 2 ^ spill - 1
      .ok (bits.dropLast ++ [lastb &&& mask])

/-- `BitSet.invert_update`.  FIX: `self._resize(size)` first. -/
def invertUpdate (bits : Bits) (size : Nat) : Except Err Bits :=
  let bits := resize bits size
  zeroExtraBits (bits.map fun b => (255 ^^^ b) &&& 255) size

/-- `izip_longest(objbits, other.bits, fillvalue=0)` + `op(..) & 0xFF` of `BitSet._logic`. -/
def zipLongest (op : Nat → Nat → Nat) : Bits → Bits → Bits
  | [], [] => []
  | a :: as, [] => (op a 0 &&& 255) :: zipLongest op as []
  | [], b :: bs => (op 0 b &&& 255) :: zipLongest op [] bs
  | a :: as, b :: bs => (op a b &&& 255) :: zipLongest op as bs

/-- `BitSet._logic(obj, op, other)`. -/
def logic (op : Nat → Nat → Nat) (obj other : Bits) : Bits := trim (zipLongest op obj other)

/-- The argument of a binary set method: another `BitSet`, a list/tuple/set (`sized`, in its
    iteration order), or any other iterable container (e.g. a `SortedIntSet`). -/
inductive Other where
  | bits (b : Bits)
  | list (l : List Nat) (sized : Bool)

def Other.items : Other → List Nat
  | .bits b => iter b
  | .list l _ => l

def Other.contains : Other → Nat → Bool
  | .bits b, i => IdSets.contains b i
  | .list l _, i => l.contains i

/-- `BitSet._resize_to_other` (FIX: nothing to do for an empty collection). -/
def resizeToOther (bits : Bits) : Other → Bits
  | .list l true =>
    if l.isEmpty then bits
    else
      let maxbit := listMax l
      if maxbit / 8 > bits.length then resize bits maxbit else bits
  | _ => bits

/-- `BitSet.update` (`_resize_to_other` then `DocIdSet.update`). -/
def update (bits : Bits) (o : Other) : Bits := o.items.foldl add (resizeToOther bits o)

/-- `BitSet.intersection_update`. -/
def intersectionUpdate (bits : Bits) : Other → Bits
  | .bits b => logic (· &&& ·) bits b
  | o => (iter bits).foldl (fun acc n => if o.contains n then acc else discard acc n) bits

/-- `BitSet.difference_update`. -/
def differenceUpdate (bits : Bits) : Other → Bits
  | .bits b => logic andNot bits b
  | o => o.items.foldl discard bits

/-- `BitSet.union`. -/
def union (bits : Bits) : Other → Bits
  | .bits b => logic (· ||| ·) bits b
  | o => update bits o

/-- `BitSet.intersection`. -/
def intersection (bits : Bits) : Other → Bits
  | .bits b => logic (· &&& ·) bits b
  | o => ofSource ((iter bits).filter o.contains) false 0

/-- `BitSet.difference`. -/
def difference (bits : Bits) : Other → Bits
  | .bits b => logic andNot bits b
  | o => ofSource ((iter bits).filter (fun n => !o.contains n)) false 0

/-- `BitSet.clear`. -/
def clear (bits : Bits) : Bits := bits.map fun _ => 0

/-! ### bisect (CPython `bisect_left` / `bisect_right`, also the loop of
`OrderedHashReader.closest_key_pos`) -/

/-- Binary search for the first index in `[lo, hi)` whose element fails `p`
    (`bisect_left(a, x)`: `p = (· < x)`; `bisect_right(a, x)`: `p = (· ≤ x)`). -/
def bisectBy {α} (p : α → Bool) (a : List α) (lo hi : Nat) : Except Err Nat :=
  if lo < hi then
    let mid := (lo + hi) / 2
    match a[mid]? with
    | none => .error .index
    | some v => if p v then bisectBy p a (mid + 1) hi else bisectBy p a lo mid
  else .ok lo
termination_by hi - lo
decreasing_by all_goals omega

def bisectLeft (a : List Nat) (x : Nat) : Except Err Nat := bisectBy (· < x) a 0 a.length
def bisectRight (a : List Nat) (x : Nat) : Except Err Nat := bisectBy (· ≤ x) a 0 a.length

/-! ### SortedIntSet (`data` is the array) -/

/-- `list.insert(pos, x)`. -/
def insertAt (l : List Nat) (pos x : Nat) : List Nat := l.take pos ++ x :: l.drop pos

/-- `sorted(set(source))` (FIX: was `sorted(source)`, keeping duplicates) through the spec-level
    ordered insert; CPython's `sorted`/`set` are trusted. -/
def sisOfSource (source : List Nat) : List Nat := WM.Spec.IdSet.ofList source

/-- `SortedIntSet.__contains__`. -/
def sisContains (data : List Nat) (i : Nat) : Except Err Bool :=
  match data.head?, data.getLast? with
  | some mn, some mx =>
    if i < mn || i > mx then .ok false
    else do
      let pos ← bisectLeft data i
      if pos = data.length then .ok false
      else match data[pos]? with
        | none => .error .index
        | some v => .ok (v == i)
  | _, _ => .ok false

/-- `SortedIntSet.add`. -/
def sisAdd (data : List Nat) (i : Nat) : Except Err (List Nat) :=
  match data.head?, data.getLast? with
  | some mn, some mx =>
    if i > mx then .ok (data ++ [i])
    else if i = mn || i = mx then .ok data
    else if i < mn then .ok (i :: data)
    else do
      let pos ← bisectLeft data i
      match data[pos]? with
      | none => .error .index
      | some v => if v != i then .ok (insertAt data pos i) else .ok data
  | _, _ => .ok (data ++ [i])

/-- `SortedIntSet.discard`.  FIX: `pos < len(data) and …` (was an `IndexError` past the end). -/
def sisDiscard (data : List Nat) (i : Nat) : Except Err (List Nat) := do
  let pos ← bisectLeft data i
  match data[pos]? with
  | none => .ok data
  | some v => if v == i then .ok (data.eraseIdx pos) else .ok data

/-- `SortedIntSet.first` (FIX: `None` on an empty set, was `IndexError`). -/
def sisFirst (data : List Nat) : Option Nat := data.head?
/-- `SortedIntSet.last` (FIX as `first`). -/
def sisLast (data : List Nat) : Option Nat := data.getLast?

/-- `SortedIntSet.before`. -/
def sisBefore (data : List Nat) (i : Int) : Except Err (Option Nat) := do
  let pos ← bisectBy (fun (x : Nat) => decide ((x : Int) < i)) data 0 data.length
  if pos < 1 then .ok none
  else match data[pos - 1]? with
    | none => .error .index
    | some v => .ok (some v)

/-- `SortedIntSet.after`. -/
def sisAfter (data : List Nat) (i : Int) : Except Err (Option Nat) :=
  match data.head?, data.getLast? with
  | some mn, some mx =>
    if i ≥ (mx : Int) then .ok none
    else if i < (mn : Int) then .ok (some mn)
    else do
      let pos ← bisectBy (fun (x : Nat) => decide ((x : Int) ≤ i)) data 0 data.length
      match data[pos]? with
      | none => .error .index
      | some v => .ok (some v)
  | _, _ => .ok none

/-- monadic left fold (`for x in xs: state = f(state, x)` with exceptions). -/
def foldE {σ α} (f : σ → α → Except Err σ) : σ → List α → Except Err σ
  | s, [] => .ok s
  | s, x :: xs => match f s x with
    | .error e => .error e
    | .ok s' => foldE f s' xs

/-- `DocIdSet.update` on a `SortedIntSet`. -/
def sisUpdate (data : List Nat) (o : Other) : Except Err (List Nat) := foldE sisAdd data o.items

/-- `SortedIntSet.intersection_update` / `intersection` (`array(num for num in self if num in other)`). -/
def sisIntersection (data : List Nat) (o : Other) : List Nat := data.filter o.contains
/-- `SortedIntSet.difference_update` / `difference`. -/
def sisDifference (data : List Nat) (o : Other) : List Nat := data.filter (fun n => !o.contains n)

/-- `DocIdSet.invert_update` (the generic loop) on a `SortedIntSet`. -/
def sisInvertUpdate (data : List Nat) (size : Nat) : Except Err (List Nat) :=
  foldE (fun d i => do
    if (← sisContains d i) then sisDiscard d i else sisAdd d i) data (List.range size)

/-! ### ReverseIdSet / MultiIdSet over either representation -/

inductive Inner where
  | bits (b : Bits)
  | sorted (d : List Nat)

def Inner.contains : Inner → Nat → Except Err Bool
  | .bits b, i => .ok (IdSets.contains b i)
  | .sorted d, i => sisContains d i

def Inner.iter : Inner → List Nat
  | .bits b => IdSets.iter b
  | .sorted d => d

def Inner.len : Inner → Except Err Nat
  | .bits b => IdSets.len b
  | .sorted d => .ok d.length

def Inner.add : Inner → Nat → Except Err Inner
  | .bits b, i => .ok (.bits (IdSets.add b i))
  | .sorted d, i => (sisAdd d i).map .sorted

def Inner.discard : Inner → Nat → Except Err Inner
  | .bits b, i => .ok (.bits (IdSets.discard b i))
  | .sorted d, i => (sisDiscard d i).map .sorted

structure Rev where
  inner : Inner
  limit : Nat

/-- `ReverseIdSet.__len__` (a Python `int`, may be negative when the precondition fails). -/
def Rev.len (r : Rev) : Except Err Int := r.inner.len.map fun n => (r.limit : Int) - n

/-- `ReverseIdSet.__contains__`. -/
def Rev.contains (r : Rev) (i : Nat) : Except Err Bool := (r.inner.contains i).map (!·)

/-- The `for i in xrange(self.limit)` loop of `ReverseIdSet.__iter__`; `nx = none` is `-1`,
    `ids` the not yet consumed part of `iter(self.idset)`, `n` the iterations left. -/
def revIterLoop : Nat → Nat → Option Nat → List Nat → List Nat
  | 0, _, _, _ => []
  | n + 1, i, nx, ids =>
    if nx = some i then
      match ids with
      | [] => revIterLoop n (i + 1) none []
      | x :: rest => revIterLoop n (i + 1) (some x) rest
    else i :: revIterLoop n (i + 1) nx ids

/-- `ReverseIdSet.__iter__`. -/
def Rev.iter (r : Rev) : List Nat :=
  match r.inner.iter with
  | [] => revIterLoop r.limit 0 none []
  | x :: rest => revIterLoop r.limit 0 (some x) rest

/-- `ReverseIdSet.first`. -/
def Rev.first (r : Rev) : Option Nat := r.iter.head?

/-- `ReverseIdSet.last`: `for i in xrange(maxid, -1, -1): if i not in idset: return i`
    (FIX: the `idset.last() < maxid - 1` shortcut, which broke on an empty wrapped set, is gone).
    `n` = `i + 1`. -/
def revLastLoop (inner : Inner) : Nat → Except Err (Option Nat)
  | 0 => .ok none
  | i + 1 => match inner.contains i with
    | .error e => .error e
    | .ok false => .ok (some i)
    | .ok true => revLastLoop inner i

def Rev.last (r : Rev) : Except Err (Option Nat) := revLastLoop r.inner r.limit

/-- `ReverseIdSet.add` / `discard`. -/
def Rev.add (r : Rev) (n : Nat) : Except Err Rev := (r.inner.discard n).map fun x => { r with inner := x }
def Rev.discard (r : Rev) (n : Nat) : Except Err Rev := (r.inner.add n).map fun x => { r with inner := x }

structure Multi where
  sets : List Inner
  offsets : List Nat

/-- `MultiIdSet._document_set`.  FIX: `max(bisect_right(offsets, n) - 1, 0)` (was
    `max(bisect_left(offsets, n), len(offsets) - 1)`, i.e. always the last set or past it). -/
def Multi.documentSet (m : Multi) (n : Nat) : Except Err Nat :=
  (bisectRight m.offsets n).map fun p => p - 1

/-- `MultiIdSet.__contains__` via `_set_and_docnum`.  `n - offset < 0` (only possible when
    `offsets[0] > 0`) is outside the modelled domain and reported as `value`. -/
def Multi.contains (m : Multi) (item : Nat) : Except Err Bool := do
  let setnum ← m.documentSet item
  match m.offsets[setnum]?, m.sets[setnum]? with
  | some off, some s => if item < off then .error .value else s.contains (item - off)
  | _, _ => .error .index

/-- `MultiIdSet.__iter__` (`izip(self.idsets, self.offsets)`). -/
def Multi.iter (m : Multi) : List Nat :=
  (m.sets.zip m.offsets).flatMap fun (s, off) => s.iter.map (· + off)

/-- `MultiIdSet.__len__`. -/
def Multi.len (m : Multi) : Except Err Nat :=
  foldE (fun acc s => (s.len).map (acc + ·)) 0 m.sets

/-! ### what `ReverseIdSet` / `MultiIdSet` do **not** implement

`ReverseIdSet` defines `__len__/__contains__/__iter__/add/discard/first/last` only and
`MultiIdSet` `__len__/__iter__/__contains__` only; everything else is inherited from `DocIdSet`,
whose `before/after/first/last/copy/add/discard` raise `NotImplementedError`, and whose
`union/intersection/difference/invert` start with `self.copy()`. -/

/-- `ReverseIdSet.before/after` (inherited `DocIdSet.before/after`). -/
def Rev.before (_ : Rev) (_ : Int) : Except Err (Option Nat) := .error .notImpl
def Rev.after (_ : Rev) (_ : Int) : Except Err (Option Nat) := .error .notImpl
/-- `ReverseIdSet.copy()` and with it `union/intersection/difference/invert` (`c = self.copy()`). -/
def Rev.copy (_ : Rev) : Except Err Rev := .error .notImpl
def Rev.union (r : Rev) (_ : Other) : Except Err Rev := r.copy
def Rev.intersection (r : Rev) (_ : Other) : Except Err Rev := r.copy
def Rev.difference (r : Rev) (_ : Other) : Except Err Rev := r.copy
def Rev.invert (r : Rev) (_ : Nat) : Except Err Rev := r.copy

/-- `DocIdSet.update` on a `ReverseIdSet`: `for i in other: self.add(i)`. -/
def Rev.update (r : Rev) (o : Other) : Except Err Rev := foldE Rev.add r o.items
/-- `DocIdSet.difference_update`: `for n in other: self.discard(n)`. -/
def Rev.differenceUpdate (r : Rev) (o : Other) : Except Err Rev := foldE Rev.discard r o.items
/-- `DocIdSet.intersection_update`: `for n in self: if n not in other: self.discard(n)` (the numbers
    yielded while the wrapped set grows are a superset of the snapshot and the extra ones are
    already outside the set, so the snapshot gives the same result). -/
def Rev.intersectionUpdate (r : Rev) (o : Other) : Except Err Rev :=
  foldE (fun acc n => if o.contains n then .ok acc else acc.discard n) r r.iter

/-- `MultiIdSet.first/last/before/after/copy` (inherited `DocIdSet` defaults). -/
def Multi.first (_ : Multi) : Except Err (Option Nat) := .error .notImpl
def Multi.last (_ : Multi) : Except Err (Option Nat) := .error .notImpl
def Multi.before (_ : Multi) (_ : Int) : Except Err (Option Nat) := .error .notImpl
def Multi.after (_ : Multi) (_ : Int) : Except Err (Option Nat) := .error .notImpl
def Multi.copy (_ : Multi) : Except Err Multi := .error .notImpl
def Multi.union (m : Multi) (_ : Other) : Except Err Multi := m.copy
def Multi.intersection (m : Multi) (_ : Other) : Except Err Multi := m.copy
def Multi.difference (m : Multi) (_ : Other) : Except Err Multi := m.copy
def Multi.invert (m : Multi) (_ : Nat) : Except Err Multi := m.copy


/-! ### programs over a pool of named sets

Op programs in which the result of one operation is the operand (on either side) of a later one:
`r2 = r0 - r1; r3 = r0 & r2; r0 &= r3 …`.  A `BitSet` register is its byte array — of **any**
length, including zero: a `BitSet`'s array is empty exactly when it is the trimmed result of an
earlier `_logic` call or comes from `BitSet.from_bytes(b"")`. -/

inductive BinOp where
  | union | inter | diff
  deriving Repr, DecidableEq

/-- a register as the argument of a binary method: a `BitSet` is recognised by `isinstance`, a
    `SortedIntSet` is "any other iterable container". -/
def Inner.asOther : Inner → Other
  | .bits b => .bits b
  | .sorted d => .list d false

/-- `a.union(o)` / `a | o`, `a.intersection(o)` / `a & o`, `a.difference(o)` / `a - o`
    (`DocIdSet.__or__/__and__/__sub__` call the methods). -/
def Inner.bin (a : Inner) (op : BinOp) (o : Other) : Except Err Inner :=
  match a, op with
  | .bits x, .union => .ok (.bits (IdSets.union x o))
  | .bits x, .inter => .ok (.bits (IdSets.intersection x o))
  | .bits x, .diff => .ok (.bits (IdSets.difference x o))
  | .sorted d, .union => (sisUpdate d o).map .sorted      -- `DocIdSet.union`: copy, update
  | .sorted d, .inter => .ok (.sorted (sisIntersection d o))
  | .sorted d, .diff => .ok (.sorted (sisDifference d o))

/-- `a.update(o)`, `a.intersection_update(o)`, `a.difference_update(o)`. -/
def Inner.upd (a : Inner) (op : BinOp) (o : Other) : Except Err Inner :=
  match a, op with
  | .bits x, .union => .ok (.bits (IdSets.update x o))
  | .bits x, .inter => .ok (.bits (IdSets.intersectionUpdate x o))
  | .bits x, .diff => .ok (.bits (IdSets.differenceUpdate x o))
  | .sorted d, .union => (sisUpdate d o).map .sorted
  | .sorted d, .inter => .ok (.sorted (sisIntersection d o))
  | .sorted d, .diff => .ok (.sorted (sisDifference d o))

/-- `a.invert_update(size)` / `a.invert(size)`. -/
def Inner.invert (a : Inner) (size : Nat) : Except Err Inner :=
  match a with
  | .bits x => (invertUpdate x size).map .bits
  | .sorted d => (sisInvertUpdate d size).map .sorted

/-- `a.clear()`. -/
def Inner.clear : Inner → Inner
  | .bits x => .bits (IdSets.clear x)
  | .sorted _ => .sorted []

abbrev Pool := List Inner

/-- The state-changing operations of a pool program (queries go through the single-set models). -/
inductive PoolOp where
  /-- `r[dst] = r[a].op(r[b])` (method or operator form) -/
  | bin (op : BinOp) (dst a b : Nat)
  /-- `r[a].op_update(r[b])` -/
  | upd (op : BinOp) (a b : Nat)
  | add (a i : Nat)
  | discard (a i : Nat)
  | clear (a : Nat)
  /-- `r[dst] = r[a].invert(size)` -/
  | invert (dst a size : Nat)
  | invupd (a size : Nat)
  /-- `r[dst] = r[a].copy()` -/
  | copy (dst a : Nat)
  /-- `r[dst] = BitSet.from_bytes(..)` / `BitSet(source, size)` / `SortedIntSet(source)` -/
  | load (dst : Nat) (x : Inner)

/-- assign register `dst` (an index outside the pool is an error of the program, `index`). -/
def Pool.assign (p : Pool) (dst : Nat) (x : Inner) : Except Err Pool :=
  if dst < p.length then .ok (p.set dst x) else .error .index

def Pool.reg (p : Pool) (a : Nat) : Except Err Inner :=
  match p[a]? with
  | some x => .ok x
  | none => .error .index

/-- one step of a pool program. -/
def Pool.step (p : Pool) : PoolOp → Except Err Pool
  | .bin op dst a b => do
    let x ← p.reg a; let y ← p.reg b
    p.assign dst (← x.bin op y.asOther)
  | .upd op a b => do
    let x ← p.reg a; let y ← p.reg b
    p.assign a (← x.upd op y.asOther)
  | .add a i => do p.assign a (← (← p.reg a).add i)
  | .discard a i => do p.assign a (← (← p.reg a).discard i)
  | .clear a => do p.assign a (← p.reg a).clear
  | .invert dst a size => do p.assign dst (← (← p.reg a).invert size)
  | .invupd a size => do p.assign a (← (← p.reg a).invert size)
  | .copy dst a => do p.assign dst (← p.reg a)
  | .load dst x => p.assign dst x

/-- a whole program; stops at the first error. -/
def Pool.run (p : Pool) : List PoolOp → Except Err Pool
  | [] => .ok p
  | op :: ops => match p.step op with
    | .error e => .error e
    | .ok p' => Pool.run p' ops

end WM.IdSets
