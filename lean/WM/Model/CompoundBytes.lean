import WM.Model.Compound
import WM.Model.HashBytes
/-
Byte level of the compound file's own structure (`whoosh/filedb/compound.py`): the 12 header
bytes `CompoundStorage.assemble` reserves at `basepos` (`write_long(0); write_int(0)`), their
back-patch by `write_dir` (`seek(basepos); write_long(dirpos); write_int(endpos - dirpos)`) after
the two pickles (directory, options: one opaque blob `pickled`) were appended, and the reader's
first steps in `CompoundStorage.__init__` (`seek(basepos); read_long(); read_int();
seek(diroffset)`), on byte lists with the struct model of `WM.StructFile`.
-/
namespace WM.Compound
open WM.StructFile (pack getNat)
open WM.IdSets (Err)
open WM.NumLists (TC)

/-- `CompoundStorage.write_dir(dbfile, basepos, directory, options)` on a file holding `file`
    (position at its end): append the pickles, then overwrite the 12 bytes at `basepos`.
    `struct.error` when the directory position does not fit `!q` or its length `!i`. -/
def writeDir (file : Bytes) (basepos : Nat) (pickled : Bytes) : Except Err Bytes := do
  let dirpos := file.length
  let full := file ++ pickled
  let h1 ← pack .q dirpos
  let h2 ← pack .i pickled.length
  .ok (full.take basepos ++ h1 ++ h2 ++ full.drop (basepos + headerSize))

/-- `CompoundStorage.assemble(dbfile, store, names)` down to the bytes of the finished file. -/
def assembleFile (before : Bytes) (files : List (String × Bytes)) (pickled : Bytes) : Except Err Bytes :=
  writeDir (assemble before files).1 before.length pickled

/-- `CompoundStorage.__init__(dbfile, basepos=…)` up to the pickles: `_diroffset`, `_dirlength`
    and the bytes `read_pickle()` is then given (from `_diroffset` to the end of the file). -/
def openDir (file : Bytes) (basepos : Nat) : Except Err (Nat × Nat × Bytes) := do
  let diroffset ← getNat .q file basepos
  let dirlength ← getNat .i file (basepos + 8)
  .ok (diroffset, dirlength, file.drop diroffset)

end WM.Compound
