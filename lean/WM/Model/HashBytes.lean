import WM.Model.HashFile
/-
Byte level of `whoosh/filedb/structfile.py` (`StructFile.write_byte/int/uint/ushort/long`,
`read_*`, `get/get_*`, `write_varint/read_varint`, `write_string/read_string` — all of them
`struct.pack`/`unpack` with the big-endian standard-size formats `!B !H !i !I !q`) and of the hash
file of `whoosh/filedb/filetables.py`: the header (`magic`, hash type byte, two unused ints), the
`_lengths = "!ii"` records, the `_pointer = "!Iq"` hash-table slots, the `_dir_entry = "!qi"`
directory, the extras blob and its trailing length; `HashReader.__init__`,
`_ranges/items` and `ranges_for_key/all` reading those bytes.

A file is a `List Nat` of bytes.  The pickled extras (and, for an ordered file, the position index
that follows the pickle inside the "extras" region) are an opaque blob.
-/
namespace WM.StructFile
open WM.IdSets (Err)
open WM.NumLists (TC encodeBE decodeBE toUnsigned fromUnsigned)

abbrev Bytes := List Nat

/-- `struct.Struct("!" + tc).pack(n)`: `struct.error` when `n` is outside the format. -/
def pack (tc : TC) (n : Int) : Except Err Bytes :=
  if tc.fits n then .ok (encodeBE tc.size (toUnsigned tc.size n)) else .error .struct

/-- `struct.Struct("!" + tc).unpack(bs)[0]`: a buffer of another length is `struct.error`. -/
def unpack (tc : TC) (bs : Bytes) : Except Err Int :=
  if bs.length = tc.size then
    .ok (if tc.signed then fromUnsigned tc.size (decodeBE bs) else (decodeBE bs : Int))
  else .error .struct

/-- a two-field struct (`"!ii"`, `"!Iq"`, `"!qi"`; standard sizes, no padding). -/
def pack2 (t1 t2 : TC) (a b : Int) : Except Err Bytes := do
  let x ← pack t1 a
  let y ← pack t2 b
  .ok (x ++ y)

def unpack2 (t1 t2 : TC) (bs : Bytes) : Except Err (Int × Int) :=
  if bs.length = t1.size + t2.size then do
    let a ← unpack t1 (bs.take t1.size)
    let b ← unpack t2 (bs.drop t1.size)
    .ok (a, b)
  else .error .struct

/-- `dbfile.get(position, length)` (`seek` + `read`): what is there, shorter at the end of the file. -/
def get (file : Bytes) (pos len : Nat) : Bytes := (file.drop pos).take len

/-- `get_byte/get_ushort/get_int/get_uint/get_long(position)` for `tc = B/H/i/I/q`. -/
def getNum (tc : TC) (file : Bytes) (pos : Nat) : Except Err Int := unpack tc (get file pos tc.size)

/-- `write_byte/write_ushort/write_int/write_uint/write_long(n)`: the bytes appended. -/
def writeNum (tc : TC) (n : Int) : Except Err Bytes := pack tc n

/-- `read_byte/read_ushort/read_int/read_uint/read_long()`: the number and the unread rest. -/
def readNum (tc : TC) (bs : Bytes) : Except Err (Int × Bytes) :=
  (unpack tc (bs.take tc.size)).map fun n => (n, bs.drop tc.size)

/-- `write_varint(i)` / `read_varint()`. -/
def writeVarint (i : Nat) : Bytes := WM.Varint.encode i
def readVarint (bs : Bytes) : Option (Nat × Bytes) := WM.Varint.decode bs

/-- `write_string(s)`: varint length, then the bytes. -/
def writeString (s : Bytes) : Bytes := writeVarint s.length ++ s
/-- `read_string()`: `self.read(self.read_varint())`. -/
def readString (bs : Bytes) : Option (Bytes × Bytes) :=
  (readVarint bs).map fun (n, rest) => (rest.take n, rest.drop n)

/-- A number read from the file and then used as a position or length.  Only a corrupt file holds a
    negative one (the code would go on with a negative `seek`/`read` argument; not modelled further,
    reported as `value`). -/
def asNat (n : Int) : Except Err Nat := if n < 0 then .error .value else .ok n.toNat

def unpack2N (t1 t2 : TC) (bs : Bytes) : Except Err (Nat × Nat) := do
  let (a, b) ← unpack2 t1 t2 bs
  .ok (← asNat a, ← asNat b)

def getNat (tc : TC) (file : Bytes) (pos : Nat) : Except Err Nat := do asNat (← getNum tc file pos)

end WM.StructFile

namespace WM.HashBytes
open WM.IdSets (Err)
open WM.NumLists (TC encodeBE)
open WM.StructFile
open WM.HashFile

/-- two non-negative numbers inside their formats, as `pack2` lays them out
    (`WM.C20.pack2_nat`: this *is* `pack2` when both fit) -/
def enc2 (t1 t2 : TC) (a b : Nat) : Bytes := encodeBE t1.size a ++ encodeBE t2.size b

/-- `HashWriter.__init__`: `write(magic); write_byte(hashtype); write_int(0); write_int(0)` -/
def headerBytes (magic : Bytes) (hashtype : Nat) : Bytes :=
  magic ++ encodeBE 1 hashtype ++ encodeBE 4 0 ++ encodeBE 4 0

/-- `HashWriter.add`: `_lengths.pack(len(key), len(value)) + key + value` -/
def recBytes (r : Rec Bytes) : Bytes := enc2 .i .i r.key.length r.val.length ++ r.key ++ r.val

/-- `_pointer.pack(hashval, position)` -/
def slotBytes (s : Slot) : Bytes := enc2 .I .q s.1 s.2

/-- `_dir_entry.pack(position, numslots)` -/
def dirEntryBytes (e : Nat × Nat) : Bytes := enc2 .q .i e.1 e.2

/-- `self.directory` after `_write_hashes`: `(dbfile.tell(), numslots)` before each table is
    written, `pos` = `dbfile.tell()`. -/
def dirFrom : Nat → List (List Slot) → List (Nat × Nat)
  | _, [] => []
  | pos, t :: ts => (pos, t.length) :: dirFrom (pos + pointerSize * t.length) ts

def directory (f : File Bytes) : List (Nat × Nat) := dirFrom f.endofdata f.tables

def directorySize : Nat := 256 * 12

/-- Everything `HashWriter` writes from `startoffset` on (`pre` = the bytes already in the file):
    header, records, the hash tables, the directory, the extras region, its length. -/
def fileBytes (magic : Bytes) (hashtype : Nat) (extras pre : Bytes) (f : File Bytes) : Bytes :=
  pre ++ headerBytes magic hashtype ++ f.recs.flatMap recBytes ++ f.tables.flatten.flatMap slotBytes
    ++ (directory f).flatMap dirEntryBytes ++ extras ++ encodeBE 4 extras.length

/-- what `HashReader.__init__` keeps -/
structure Reader where
  file : Bytes
  startoffset : Nat
  hashtype : Nat
  startofdata : Nat
  endofdata : Nat
  /-- `self.tables`: `(position, numslots)` × 256 -/
  tables : List (Nat × Nat)
  /-- start and length of the extras region -/
  expos : Nat
  exlen : Nat
  deriving Repr

/-- `HashReader(dbfile, length, magic, startoffset)`.  A wrong magic is `FileFormatError`
    (`value`); `length` is the length of the file data from `startoffset` (default: to the end). -/
def openReader (magic file : Bytes) (startoffset length : Nat) : Except Err Reader := do
  if get file startoffset 4 ≠ magic then .error .value
  else
    let hashtype ← getNat .B file (startoffset + 4)
    let _ ← getNum .i file (startoffset + 5)
    let _ ← getNum .i file (startoffset + 9)
    if startoffset + length < 4 then .error .value
    else
      let exptr := startoffset + length - 4
      let exlen ← getNat .i file exptr
      if exptr < exlen + directorySize then .error .value
      else
        let expos := exptr - exlen
        let dirbase := expos - directorySize
        let tables ← (List.range 256).mapM fun b => unpack2N .q .i (get file (dirbase + b * 12) 12)
        match tables.head? with
        | none => .error .index
        | some t0 =>
          .ok { file := file, startoffset := startoffset, hashtype := hashtype,
                startofdata := startoffset + 13, endofdata := t0.1, tables := tables,
                expos := expos, exlen := exlen }

/-- `HashReader._ranges()` + `items()`: walk the records from `pos` to `endofdata`.  The fuel is the
    number of bytes left (every record takes at least the 8 length bytes). -/
def itemsFrom (r : Reader) : Nat → Nat → Except Err (List (Bytes × Bytes))
  | _, 0 => .ok []
  | pos, fuel + 1 =>
    if pos < r.endofdata then do
      let (keylen, datalen) ← unpack2N .i .i (get r.file pos 8)
      let rest ← itemsFrom r (pos + 8 + keylen + datalen) fuel
      .ok ((get r.file (pos + 8) keylen, get r.file (pos + 8 + keylen) datalen) :: rest)
    else .ok []

def items (r : Reader) : Except Err (List (Bytes × Bytes)) := itemsFrom r r.startofdata (r.endofdata + 1)

/-- the probe loop of `ranges_for_key` followed by `all`'s `dbfile.get(datapos, datalen)`:
    `slot` is `(slotpos - tablestart) / ptrsize`, wrapping as the code wraps `slotpos`. -/
def scanBytes (file : Bytes) (tablestart numslots keyhash : Nat) (key : Bytes) :
    Nat → Nat → Except Err (List Bytes)
  | _, 0 => .ok []
  | slot, fuel + 1 => do
    let (slothash, itempos) ← unpack2N .I .q (get file (tablestart + slot * 12) 12)
    if itempos = 0 then .ok []
    else
      let rest ← scanBytes file tablestart numslots keyhash key (nextSlot numslots slot) fuel
      if slothash = keyhash then
        let (keylen, datalen) ← unpack2N .i .i (get file itempos 8)
        if keylen = key.length then
          if key = get file (itempos + 8) keylen then
            .ok (get file (itempos + 8 + keylen) datalen :: rest)
          else .ok rest
        else .ok rest
      else .ok rest

/-- `list(HashReader.all(key))` on the bytes. -/
def allBytes (hash : Key → Nat) (r : Reader) (key : Bytes) : Except Err (List Bytes) :=
  let keyhash := hash key
  match r.tables[keyhash % 256]? with
  | none => .error .index
  | some (tablestart, numslots) =>
    if numslots = 0 then .ok []
    else scanBytes r.file tablestart numslots keyhash key ((keyhash / 256) % numslots) numslots

end WM.HashBytes
