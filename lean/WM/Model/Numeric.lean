/-
Mirror of the numeric machinery of whoosh (C13):

* `whoosh/util/numeric.py`: `to_sortable`, `from_sortable`, `float_to_sortable_long`,
  `sortable_long_to_float`, `split_ranges`, `tiered_ranges`;
* `whoosh/fields.py` `NUMERIC`: `_min_max`, `prepare_number`, `unprepare_number`, `to_bytes`,
  `sortable_to_bytes`, `from_bytes`, `index`;
* `whoosh/query/ranges.py` `NumericRange._compile_query` (+ how `Term`/`TermRange` select terms);
* `whoosh/util/times.py`: `timedelta_to_usecs`/`datetime_to_long`, `long_to_datetime`.

Python ints are `Int`/`Nat` (unbounded).  A double is represented by its 64-bit pattern
(`struct.pack(">d", x)` read as an unsigned integer); `struct` packing itself is not modelled.
Bytes are `Nat`s below 256, byte strings are `List Nat`.  Python exceptions at modelled sites are
`Except Err`.
-/
namespace WM.Numeric

/-- The exceptions the modelled code can raise. -/
inductive Err where
  | valueError      -- `ValueError` (out of range, negative float in an unsigned field)
  | structError     -- `struct.error` (value does not fit the packed format)
  | assertionError  -- a failing `assert`
  deriving DecidableEq, Repr

def Err.name : Err → String
  | .valueError => "ValueError"
  | .structError => "struct.error"
  | .assertionError => "AssertionError"

/-! ## Python bit operations on unbounded (two's complement) integers -/

/-- Python `x & m` for an arbitrary int `x` and a non-negative `m`.  A negative `x = -(a+1)` is
    `~a` in two's complement, so `x & m` keeps exactly the bits of `m` that `a` lacks. -/
def pyAnd : Int → Nat → Nat
  | .ofNat a, m => a &&& m
  | .negSucc a, m => m ^^^ (m &&& a)

/-- Python `x ^ m` for an arbitrary int `x` and a non-negative `m` (`~a ^ m = ~(a ^ m)`). -/
def pyXor : Int → Nat → Int
  | .ofNat a, m => .ofNat (a ^^^ m)
  | .negSucc a, m => .negSucc (a ^^^ m)

/-! ## `to_sortable` / `from_sortable` (integers) -/

/-- `to_sortable(int, intsize, signed, x)`: `x += (1 << intsize - 1)` when signed. -/
def toSortableInt (n : Nat) (signed : Bool) (x : Int) : Int :=
  if signed then x + ((1 <<< (n - 1) : Nat) : Int) else x

/-- `from_sortable(int, intsize, signed, x)`. -/
def fromSortableInt (n : Nat) (signed : Bool) (x : Int) : Int :=
  if signed then x - ((1 <<< (n - 1) : Nat) : Int) else x

/-! ## The float bit trick (on 64-bit patterns) -/

/-- `_qunpack(_dpack(x))[0]`: the pattern of the double read as a signed 64-bit integer. -/
def qOfBits (b : Nat) : Int := if b < 2 ^ 63 then (b : Int) else (b : Int) - 2 ^ 64

/-- `_dunpack(_qpack(x))[0]` as a pattern; `_qpack` raises `struct.error` outside int64. -/
def bitsOfQ (x : Int) : Except Err Nat :=
  if -(2 ^ 63 : Int) ≤ x ∧ x < 2 ^ 63 then .ok (x % 2 ^ 64).toNat else .error .structError

def M63 : Nat := 0x7fffffffffffffff

/-- `float_to_sortable_long(x, signed)` (with the `ValueError` for a set sign bit in an unsigned
    field that the `fix:` commit introduced in place of the failing `assert`). -/
def floatToSortable (b : Nat) (signed : Bool) : Except Err Int :=
  let x := qOfBits b
  if x < 0 ∧ !signed then .error .valueError else
  let x := if x < 0 then pyXor x M63 else x
  let x := if signed then x + ((1 <<< 63 : Nat) : Int) else x
  if x < 0 then .error .assertionError else .ok x

/-- `sortable_long_to_float(x, signed)`, result as a pattern. -/
def sortableToFloat (x : Int) (signed : Bool) : Except Err Nat :=
  let x := if signed then x - ((1 <<< 63 : Nat) : Int) else x
  let x := if x < 0 then pyXor x M63 else x
  bitsOfQ x

/-! IEEE-754 predicates on patterns, needed for `prepare_number`'s `x < min or x > max` on floats -/

def fSign (b : Nat) : Nat := b / 2 ^ 63 % 2
def fMag (b : Nat) : Nat := b % 2 ^ 63
def fIsNaN (b : Nat) : Bool := fMag b > 0x7ff0000000000000
def fIsZero (b : Nat) : Bool := fMag b == 0

/-- Python's `a < b` on two doubles (false when either is NaN, `-0.0 < 0.0` is false). -/
def fLt (a b : Nat) : Bool :=
  if fIsNaN a || fIsNaN b then false
  else if fIsZero a && fIsZero b then false
  else if fSign a == 1 then (if fSign b == 1 then fMag b < fMag a else true)
  else (if fSign b == 1 then false else fMag a < fMag b)

/-! ## `split_ranges` / `tiered_ranges` -/

/-- A trie range `(start, end, shift)`. -/
structure R where
  lo : Nat
  hi : Nat
  shift : Nat
  deriving DecidableEq, Repr

/-- `not_mask = ~mask & ((1 << intsize + 1) - 1)`. -/
def notMask (n mask : Nat) : Nat := pyAnd (~~~(mask : Int)) ((1 <<< (n + 1)) - 1)

/-- The `while True` loop of `split_ranges(intsize, step, start, end)` from the iteration with the
    given `shift` on (including the two wrap tests of the `fix:` commit).  `step = 0` makes the
    Python loop spin forever (`tiered_ranges` never calls it that way), hence the hypothesis. -/
def splitLoop (n step : Nat) (hstep : 0 < step) (start end_ shift : Nat) : List R :=
  let diff := 1 <<< (shift + step)
  let mask := ((1 <<< step) - 1) <<< shift
  let setbits := fun (x : Nat) => x ||| ((1 <<< shift) - 1)
  let haslower := (start &&& mask) != 0
  let hasupper := (end_ &&& mask) != mask
  let nm := notMask n mask
  let nextstart := (if haslower then start + diff else start) &&& nm
  let nextend := pyAnd (if hasupper then (end_ : Int) - (diff : Int) else (end_ : Int)) nm
  if shift + step ≥ n ∨ nextstart > nextend ∨ nextstart < start ∨ nextend > end_ then
    [⟨start, setbits end_, shift⟩]
  else
    (if haslower then [⟨start, setbits (start ||| mask), shift⟩] else []) ++
    (if hasupper then [⟨end_ &&& nm, setbits end_, shift⟩] else []) ++
    splitLoop n step hstep nextstart nextend (shift + step)
termination_by n - shift
decreasing_by omega

/-- `split_ranges(intsize, step, start, end)` (called with `0 ≤ start ≤ end`). -/
def splitRanges (n step : Nat) (hstep : 0 < step) (start end_ : Nat) : List R :=
  splitLoop n step hstep start end_ 0

/-- What a consumer does with a range: shift both bounds and the value right by `shift`. -/
def R.test (r : R) (v : Nat) : Bool :=
  r.lo >>> r.shift ≤ v >>> r.shift && v >>> r.shift ≤ r.hi >>> r.shift

/-- `tiered_ranges` after both bounds were converted by `to_sortable`: `start`/`end` are sortable
    values (`none` = open end), the exclusive flags add/subtract one, an empty interval gives no
    ranges (the `fix:` commit), `shift_step = 0` gives the single untiered range. -/
def tieredSortable (n : Nat) (start end_ : Option Int) (step : Nat) (startexcl endexcl : Bool) :
    List R :=
  let s : Int := match start with
    | none => 0
    | some x => if startexcl then x + 1 else x
  let e : Int := match end_ with
    | none => (2 : Int) ^ n - 1
    | some x => if endexcl then x - 1 else x
  if s > e then []
  else if h : step = 0 then [⟨s.toNat, e.toNat, 0⟩]
  else splitRanges n step (Nat.pos_of_ne_zero h) s.toNat e.toNat

/-- `tiered_ranges(int, intsize, signed, start, end, shift_step, startexcl, endexcl)`. -/
def tieredInt (n : Nat) (signed : Bool) (start end_ : Option Int) (step : Nat)
    (startexcl endexcl : Bool) : List R :=
  tieredSortable n (start.map (toSortableInt n signed)) (end_.map (toSortableInt n signed)) step
    startexcl endexcl

/-- `tiered_ranges(float, 64, signed, …)` on patterns. -/
def tieredFloat (signed : Bool) (start end_ : Option Nat) (step : Nat)
    (startexcl endexcl : Bool) : Except Err (List R) := do
  let s ← match start with
    | none => pure none
    | some b => (floatToSortable b signed).map some
  let e ← match end_ with
    | none => pure none
    | some b => (floatToSortable b signed).map some
  pure (tieredSortable 64 s e step startexcl endexcl)

/-! ## NUMERIC field: domain check and term bytes -/

/-- `NUMERIC._min_max` for an integer field: `(from_sortable(0), from_sortable(2**bits - 1))`. -/
def minMaxInt (n : Nat) (signed : Bool) : Int × Int :=
  (fromSortableInt n signed 0, fromSortableInt n signed ((2 : Int) ^ n - 1))

/-- The field's domain, `min_value ≤ x ≤ max_value` with the limits `_min_max` computed. -/
def inDomain (n : Nat) (signed : Bool) (x : Int) : Prop :=
  (minMaxInt n signed).1 ≤ x ∧ x ≤ (minMaxInt n signed).2

instance (n : Nat) (signed : Bool) (x : Int) : Decidable (inDomain n signed x) := by
  unfold inDomain; infer_instance

/-- `NUMERIC.prepare_number` on an integer field for an `int` argument: the range check. -/
def prepareInt (n : Nat) (signed : Bool) (x : Int) : Except Err Int :=
  let (mn, mx) := minMaxInt n signed
  if x < mn ∨ x > mx then .error .valueError else .ok x

/-- `NUMERIC._min_max` for a float field (patterns); the largest sortable value of an unsigned
    float field is `2**63 - 1` (the `fix:` commit). -/
def minMaxFloat (signed : Bool) : Except Err (Nat × Nat) := do
  let maxSortable : Int := if signed then 2 ^ 64 - 1 else 2 ^ 63 - 1
  let mn ← sortableToFloat 0 signed
  let mx ← sortableToFloat maxSortable signed
  pure (mn, mx)

/-- `prepare_number` on a float field: `x < min_value or x > max_value` with IEEE comparisons. -/
def prepareFloat (signed : Bool) (b : Nat) : Except Err Nat := do
  let (mn, mx) ← minMaxFloat signed
  if fLt b mn || fLt mx b then .error .valueError else .ok b

/-- `struct.Struct(">B"/">H"/">I"/">Q").pack(x)` for `w` bytes, most significant first
    (no range check here, see `sortableToBytes`). -/
def beBytes : Nat → Nat → List Nat
  | 0, _ => []
  | w + 1, x => (x / 256 ^ w % 256) :: beBytes w x

/-- `struct.unpack` of the above. -/
def beValue : List Nat → Nat
  | [] => 0
  | b :: bs => b * 256 ^ bs.length + beValue bs

/-- `NUMERIC.sortable_to_bytes(x, shift)`: `pack_byte(shift) + self._struct.pack(x >> shift)`;
    both packs raise `struct.error` when the number does not fit. -/
def sortableToBytes (w : Nat) (x : Nat) (shift : Nat) : Except Err (List Nat) :=
  let y := x >>> shift
  if shift < 256 ∧ y < 256 ^ w then .ok (shift :: beBytes w y) else .error .structError

/-- `NUMERIC.to_bytes(x, shift)` for an integer field of `8*w` bits. -/
def toBytesInt (w : Nat) (signed : Bool) (x : Int) (shift : Nat) : Except Err (List Nat) := do
  let x ← prepareInt (8 * w) signed x
  sortableToBytes w (toSortableInt (8 * w) signed x).toNat shift

/-- `NUMERIC.to_bytes(x, shift)` for a float field. -/
def toBytesFloat (signed : Bool) (b : Nat) (shift : Nat) : Except Err (List Nat) := do
  let b ← prepareFloat signed b
  let s ← floatToSortable b signed
  sortableToBytes 8 s.toNat shift

/-- `NUMERIC.from_bytes` for an integer field: drop the shift byte, unpack, `from_sortable`. -/
def fromBytesInt (w : Nat) (signed : Bool) (bs : List Nat) : Int :=
  fromSortableInt (8 * w) signed (beValue bs.tail)

/-- `xrange(0, bits, step)` from `i` on. -/
def shiftsFrom (n step : Nat) (hstep : 0 < step) (i : Nat) : List Nat :=
  if i < n then i :: shiftsFrom n step hstep (i + step) else []
termination_by n - i
decreasing_by omega

/-- The shifts `NUMERIC.index` produces terms for: `xrange(0, bits, shift_step)`, or just `0`. -/
def indexShifts (n step : Nat) : List Nat :=
  if h : step = 0 then [0] else shiftsFrom n step (Nat.pos_of_ne_zero h) 0

/-- `NUMERIC.index(num)` for one already prepared, sortable value: the term bytes of every tier. -/
def indexTerms (w step : Nat) (x : Nat) : Except Err (List (List Nat)) :=
  (indexShifts (8 * w) step).mapM (sortableToBytes w x)

/-- `NUMERIC.index([n₁, n₂, …])`: the terms of every value in turn, each distinct term only the first
    time it appears (the `seen` set of the `fix:` commit). -/
def indexTermsList (w step : Nat) (xs : List Nat) : Except Err (List (List Nat)) := do
  let tss ← xs.mapM (indexTerms w step)
  pure tss.flatten.eraseDups

/-! ## `NumericRange._compile_query` and how its sub-queries select terms -/

/-- Lexicographic comparison of byte strings (Python `bytes.__le__`). -/
def bytesLe : List Nat → List Nat → Bool
  | [], _ => true
  | _ :: _, [] => false
  | a :: as, b :: bs => a < b || (a == b && bytesLe as bs)

/-- A sub-query built by `_compile_query`. -/
inductive Sub where
  | term (t : List Nat)              -- `Term(fieldname, bytes)`
  | range (lo hi : List Nat)         -- `TermRange(fieldname, startbytes, endbytes)` (inclusive)
  deriving DecidableEq, Repr

/-- Does the sub-query select the indexed term `t`?  (`TermRange._btexts` walks the lexicon from
    `start` while `t ≤ end`.) -/
def Sub.selects : Sub → List Nat → Bool
  | .term u, t => u == t
  | .range lo hi, t => bytesLe lo t && bytesLe t hi

/-- The loop over `ranges` in `_compile_query`: `Term` when `startnum == endnum`, else `TermRange`. -/
def compileRanges (w : Nat) : List R → Except Err (List Sub)
  | [] => .ok []
  | r :: rs => do
    let sub ← if r.lo = r.hi then do
        let t ← sortableToBytes w r.lo r.shift
        pure (Sub.term t)
      else do
        let a ← sortableToBytes w r.lo r.shift
        let b ← sortableToBytes w r.hi r.shift
        pure (Sub.range a b)
    let rest ← compileRanges w rs
    pure (sub :: rest)

/-- `NumericRange(field, start, end, startexcl, endexcl)._compile_query` on an integer field of
    `8*w` bits: `prepare_number` both bounds, `tiered_ranges`, one sub-query per range.  An empty
    list stands for `NullQuery`, one element for the bare sub-query, more for `Or`. -/
def compileInt (w : Nat) (signed : Bool) (step : Nat) (start end_ : Option Int)
    (startexcl endexcl : Bool) : Except Err (List Sub) := do
  let s ← match start with
    | none => pure none
    | some x => (prepareInt (8 * w) signed x).map some
  let e ← match end_ with
    | none => pure none
    | some x => (prepareInt (8 * w) signed x).map some
  compileRanges w (tieredInt (8 * w) signed s e step startexcl endexcl)

/-- The same on a float field (bounds are patterns). -/
def compileFloat (signed : Bool) (step : Nat) (start end_ : Option Nat)
    (startexcl endexcl : Bool) : Except Err (List Sub) := do
  let s ← match start with
    | none => pure none
    | some x => (prepareFloat signed x).map some
  let e ← match end_ with
    | none => pure none
    | some x => (prepareFloat signed x).map some
  let rs ← tieredFloat signed s e step startexcl endexcl
  compileRanges 8 rs

/-- A document whose field value produced the terms `ts` matches the compiled query iff some
    sub-query selects one of its terms (`Or` of `Term`/`TermRange`). -/
def matchesDoc (subs : List Sub) (ts : List (List Nat)) : Bool :=
  subs.any fun s => ts.any fun t => s.selects t

/-! ## DATETIME: `util/times.py` -/

/-- A `timedelta` since `datetime.min` as Python normalises it:
    `0 ≤ seconds < 86400`, `0 ≤ microseconds < 10^6`. -/
structure TD where
  days : Int
  seconds : Int
  micros : Int
  deriving DecidableEq, Repr

/-- Python keeps every `timedelta` normalised. -/
def TD.normal (t : TD) : Prop :=
  0 ≤ t.seconds ∧ t.seconds < 86400 ∧ 0 ≤ t.micros ∧ t.micros < 1000000

/-- `timedelta_to_usecs(td)` = `datetime_to_long(dt)` for `td = dt - datetime.min`. -/
def tdToUsecs (t : TD) : Int := t.days * 86400000000 + t.seconds * 1000000 + t.micros

/-- `long_to_datetime(x)`: the `(days, seconds, microseconds)` handed to `timedelta`
    (`//` is floor division). -/
def longToTD (x : Int) : TD :=
  let days := x / 86400000000
  let x := x - days * 86400000000
  let seconds := x / 1000000
  let x := x - seconds * 1000000
  ⟨days, seconds, x⟩

/-! ## Decimal fields (`decimal_places = dc`) -/

/-- `prepare_number` on a field with `decimal_places = dc`: `int(Decimal(x) * 10 ** dc)` (truncation
    towards zero), then the range check.  `q` is the number the argument denotes: a `Decimal`, a
    string, an `int` or (through its `repr`) a `float` — every form is scaled (the round-4 `fix:`
    commit; before it an `int`/`float` was taken as the already scaled integer). -/
def decimalToInt (dc : Nat) (q : Rat) : Int :=
  let y := q * ((10 : Int) ^ dc : Int)
  Int.tdiv y.num y.den

def prepareDecimal (n : Nat) (signed : Bool) (dc : Nat) (q : Rat) : Except Err Int :=
  prepareInt n signed (decimalToInt dc q)

/-- `unprepare_number`: `Decimal(x).scaleb(-dc)` (the `fix:` commit), i.e. `x / 10^dc`. -/
def unprepareDecimal (dc : Nat) (x : Int) : Rat := (x : Rat) / (((10 : Int) ^ dc : Int) : Rat)

/-- `NumericRange._compile_query` on a Decimal field (`decimal_places = dc`, `numtype` is `int`):
    both bounds go through `prepare_number` (scaled and truncated towards zero, then range-checked),
    then `tiered_ranges` on the scaled integers and one sub-query per range, exactly as on an
    integer field (`query/ranges.py:NumericRange._compile_query`, `fields.py:NUMERIC.prepare_number`). -/
def compileDecimal (w : Nat) (signed : Bool) (step dc : Nat) (start end_ : Option Rat)
    (startexcl endexcl : Bool) : Except Err (List Sub) := do
  let s ← match start with
    | none => pure none
    | some q => (prepareDecimal (8 * w) signed dc q).map some
  let e ← match end_ with
    | none => pure none
    | some q => (prepareDecimal (8 * w) signed dc q).map some
  compileRanges w (tieredInt (8 * w) signed s e step startexcl endexcl)

end WM.Numeric
