/-
Mirror of `whoosh/support/base85.py`: the integer functions `to_base85(x, islong)` and
`from_base85(text)` over the order-preserving alphabet `b85chars`.  Characters are code points.
(`b85encode`/`b85decode`, the bytes functions, are Python-2-only code and fail on every non-empty
input under Python 3 — recorded finding, not modelled.)
-/
namespace WM.Base85

/-- `b85chars` -/
def chars : List Nat :=
  ("!$%&*+,-./0123456789:;<=>?@ABCDEFGHIJKLMNOPQRSTUVWXYZ^_abcdefghijklmnopqrstuvwxyz{|}~".toList).map Char.toNat

/-- the loop of `to_base85`: `rems = b85chars[x % 85] + rems; x //= 85`, `n` times; digits first. -/
def digits : Nat → Nat → List Nat → List Nat
  | 0, _, acc => acc
  | n + 1, x, acc => digits n (x / 85) ((x % 85) :: acc)

/-- `to_base85(x, islong)`; `none` would be an `IndexError` on `b85chars[...]` (never happens). -/
def toBase85 (x : Nat) (islong : Bool) : Option (List Nat) :=
  (digits (if islong then 10 else 5) x []).mapM fun d => chars[d]?

/-- `b85dec[c]` (`KeyError` for a character outside the alphabet) -/
def decChar (c : Nat) : Option Nat :=
  let i := chars.idxOf c
  if i < chars.length then some i else none

/-- `from_base85(text)`. -/
def fromBase85 (text : List Nat) : Option Nat :=
  text.foldlM (fun acc c => (decChar c).map fun d => acc * 85 + d) 0

end WM.Base85
