import WM.Spec.Sat
/-
`NestedParent` / `NestedChildren` (`query/nested.py`) as structured nodes over the query model
(property C15): constructor arguments, `normalize()`, and the set of documents a `NestedParent`
returns on a segmented index.

The sub-queries (`parents`, `subq`) are trees of `WM.Normalize.Q`; `parents` given as a `DocIdSet`
or `Results` object is outside the model.  Nested queries as clauses of compounds go through
`CompoundQuery.normalize` with their own equality (`WM.NormalizeDedupe`).
-/
namespace WM.NormalizeNested
open WM.Normalize WM.Sat

/-- `NestedParent(parents, subq, per_parent_limit, score_fn)`; `fn` is a code of the score function
    (0 `sum`, 1 `max`, ...), which only scoring reads. -/
structure NParent where
  parents : Q
  child : Q
  limit : Option Nat
  fn : Nat
  deriving Repr

/-- `NestedChildren(parents, subq, boost)`. -/
structure NChildren where
  parents : Q
  child : Q
  boost : Rat
  deriving Repr

/-- `nested.py NestedParent.normalize`: both sub-queries are normalized; `none` is `NullQuery`. -/
def NParent.normalize (n : NParent) : Option NParent :=
  let p := WM.Normalize.normalize n.parents
  let q := WM.Normalize.normalize n.child
  if p.isNull || q.isNull then none
  else some { parents := p, child := q, limit := n.limit, fn := n.fn }

/-- `NestedChildren` defines no `normalize`: `Query.normalize` returns the query itself (the
    sub-queries are not normalized). -/
def NChildren.normalize (n : NChildren) : NChildren := n

/-- `WrappingQuery.with_boost` through `NestedParent._rewrap`: the boost goes to the wrapped query,
    all other constructor arguments are kept. -/
def NParent.withBoost (n : NParent) (b : Rat) : NParent := { n with child := n.child.withBoost b }

/-- One document of a segment as a nested matcher sees it: stored id, in the parent filter's
    document set, matched by the sub-query. -/
abbrev Row := Nat × Bool × Bool

/-- `nested.py NestedParentMatcher._gather/next` over the live documents of one segment in document
    order.  `last` is `comb.before(child.id() + 1)` (the closest parent at or before the document),
    `em` says that this parent was already returned.  A sub-query match with no parent at or before
    it makes `_nextdoc` `None`, i.e. the matcher inactive: nothing more comes out of the segment. -/
def walk : Option Nat → Bool → List Row → List Nat
  | _, _, [] => []
  | last, em, (id, isP, isC) :: rest =>
    let last' := if isP then some id else last
    let em' := if isP then false else em
    if isC then
      match last' with
      | none => []
      | some p => if em' then walk last' true rest else p :: walk last' true rest
    else walk last' em' rest

/-- The rows of one segment. -/
def rows (env : Env) (parents child : Q) (seg : List Doc) : List Row :=
  seg.map fun d => (d.id, sat env parents d, sat env child d)

/-- The documents `NestedParent(parents, subq)` returns on an index given as its segments (live
    documents in document order; `docs_for_query` runs the matcher once per segment and the parent
    filter is evaluated per segment). -/
def parentAnswer (env : Env) (segs : List (List Doc)) (n : NParent) : List Nat :=
  segs.flatMap fun seg => walk none false (rows env n.parents n.child seg)

/-- ... and of the result of `normalize()` (`NullQuery` matches nothing). -/
def parentAnswerOpt (env : Env) (segs : List (List Doc)) : Option NParent → List Nat
  | none => []
  | some n => parentAnswer env segs n

/-- Split the index into segments of the given sizes (driver). -/
def splitSegs : List Nat → List Doc → List (List Doc)
  | [], _ => []
  | n :: ns, ds => ds.take n :: splitSegs ns (ds.drop n)

end WM.NormalizeNested
