/-
The "Eliminate duplicate queries" step of `CompoundQuery.normalize` (`query/compound.py`), for an
arbitrary clause type and an arbitrary membership test (property C15).

```
subqs = []
seenqs = set()
for s in subqueries:
    if s in seenqs: continue          # hash + __eq__ of the clause's class
    seenqs.add(s); subqs.append(s)
```

`WM.Normalize.dedupe` is this loop for the modelled query classes, whose `__eq__`/`__hash__` are
structural (`Q.beq`).  Classes outside that model (`NestedParent`, `NestedChildren`: they inherit
`WrappingQuery.__hash__` and object identity as `__eq__`) go through the same loop with their own
equality; here the equality is a parameter, so that what the loop needs from it is a theorem
(`WM.C15.dedupe_by_sound`, `WM.C15.dedupe_by_unsound`).
-/
namespace WM.NormalizeDedupe

variable {α : Type}

/-- `s in seenqs`: some clause kept earlier answers `True` to `==` (Python's set looks the clause up
    by hash and then asks `__eq__`; `eqv` is the outcome of that membership test). -/
def seenBy (eqv : α → α → Bool) (seen : List α) (s : α) : Bool :=
  seen.any (fun t => eqv s t)

/-- `compound.py CompoundQuery.normalize`, "Eliminate duplicate queries" (the `everyfields` test of the
    same loop is `WM.Normalize.dedupe`'s first branch and does not involve equality). -/
def dedupeBy (eqv : α → α → Bool) : List α → List α → List α
  | _, [] => []
  | seen, s :: rest =>
    if seenBy eqv seen s then dedupeBy eqv seen rest
    else s :: dedupeBy eqv (s :: seen) rest

/-- Membership test given as a table of the pairs of clause numbers that compare equal (driver). -/
def tableEqv (pairs : List (Nat × Nat)) (i j : Nat) : Bool :=
  pairs.contains (i, j)

end WM.NormalizeDedupe
