import WM.Model.Compile
import WM.Model.MatcherTree
/-!
The cursor tree that `Query.matcher(subsearcher, context)` builds — for term / null / `Every` leaves,
the boolean constructors, the multi-term queries (Prefix, Wildcard, TermRange, FuzzyTerm, Regex: the
expansion against the segment lexicon, 0 / 1 / many terms, constant score) and both strategies of
`Or` (tree of unions; scored `ArrayUnionMatcher` over sub-matchers of one class) — in the vocabulary
of the matcher family (`WM.Matcher.Any`, constructors `mk*` of `WM/Model/MatcherTree.lean`), and the
theorem that its remaining result list (`den`) is the list `WM.Compile.compile` denotes.
-/
namespace WM.Compile
open WM.Search
open WM.Matcher (Any mkInter mkUnion mkDisMax mkAndNot mkAndMaybe mkRequire mkInverse mkConst mkBoost mkAUnion allIds
  ListM)

/-- results of matcher operations (`Except` over the modelled Python exceptions) -/
abbrev MR := WM.Matcher.R

/-- `ListMatcher(ids, weights)` over a posting list (a term's postings; `Every`; the id list a
    constant-score query pre-reads) -/
def listOf (l : PL) : Any := ⟨.list, ⟨l.map (·.id), l.map (·.score), 0, true⟩⟩

/-- `if boost != 1.0: m = WrappingMatcher(m, boost)` -/
def boostM (b : Rat) (m : Any) : Any := if b = 1 then m else mkBoost m b

/-- `make_binary_tree` / `make_weighted_tree` over matcher objects, with the constructor of the
    matcher class (which may align its arguments and, in the model, fail) -/
def foldShapeM (op : Any → Any → MR Any) (ms : List Any) : Compile.Shape → MR Any
  | .leaf i => .ok (ms.getD i Any.null)
  | .node l r => do
    let a ← foldShapeM op ms l
    let b ← foldShapeM op ms r
    op a b

/-- `CompoundQuery.matcher` over already built clause matchers -/
def compoundM (many : List Any → MR Any) (b : Rat) : List Any → MR Any
  | [] => .ok Any.null
  | [m] => .ok (boostM b m)
  | ms => many ms

/-- the sub-matchers as a list of one class `c` (the matcher family models `ArrayUnionMatcher` over
    sub-matchers of one class); `none` if some sub-matcher is of another class -/
def castTo (c : WM.Matcher.Shape) : List Any → Option (List (WM.Matcher.St c))
  | [] => some []
  | m :: ms => if h : m.1 = c then (castTo c ms).map (fun r => (h ▸ m.2) :: r) else none

/-- `Or._matcher` over two or more built clause matchers: `DefaultOr._matcher` (tree of unions, then
    the boost wrapper) or `PreloadedOr._matcher` (`ArrayUnionMatcher(ms, doc_count_all, boost, scored)`,
    `partsize` 2048).  The unscored array union (`scored=False`: every cell is set to 1) and an array
    union over sub-matchers of different classes have no node in the matcher family's tree. -/
def orManyM (ctx : Ctx) (dc : Nat) (sh : Compile.Shape) (ms : List Any) (b : Rat) : MR Any :=
  if ms.length < 1024 && (ctx.nc || ms.length == 2 || decide (5000 < dc)) then do
    let m ← foldShapeM (fun a b => pure (mkUnion a b)) ms sh
    pure (boostM b m)
  else if ctx.scored then
    match ms with
    | [] => .error .notImpl
    | m0 :: _ =>
      match castTo m0.1 ms with
      | some subs => mkAUnion m0.1 subs dc b 2048
      | none => .error .notImpl
  else .error .notImpl

/-- the constant-score scheme of `ConstantScoreQuery.matcher` and of a `constantscore` multi-term
    query: `ConstantScoreWrapperMatcher(m, c)` when the collector needs the current match, otherwise
    `ListMatcher(array("I", m.all_ids()), all_weights=c)` -/
def csM (ctx : Ctx) (c : Rat) (m : Any) : MR Any :=
  if ctx.nc then pure (mkConst m c)
  else do
    let ids ← allIds m
    pure (listOf (ids.map (fun i => (⟨i, wOf c⟩ : Hit))))

/-- `Every(fieldname).matcher`: `ListMatcher(sorted(set of the ids of every term of the field), all_weights=boost)` -/
def everyFieldM (ls : LeafScore) (s : Segment) (f : String) (b : Rat) : Any :=
  listOf (constL (wOf b) (unionAll ((lexicon s f).map (postings ls s f))))

mutual
/-- `q.matcher(subsearcher, context)` as a cursor tree.  `.error .notImpl` marks what the matcher
    family's tree vocabulary has no node for: positional leaves (Phrase), numeric ranges (their
    decomposition into tier terms is C13's), the unscored array union and an array union over
    sub-matchers of different classes. -/
def build (ls : LeafScore) (so : ShapeOracle) (s : Segment) : Ctx → Query → MR Any
  | _, .term f t b => .ok (boostM b (listOf (postings ls s f t)))
  | _, .null => .ok Any.null
  -- Every.matcher: ListMatcher(reader.all_doc_ids(), all_weights=boost) resp. over the field's documents
  | _, .every none b => .ok (listOf (s.live.map (fun i => (⟨i, wOf b⟩ : Hit))))
  | _, .every (some f) b => .ok (everyFieldM ls s f b)
  -- MultiTerm.matcher (Prefix("") / Wildcard("*") / Regex(".*") are `Every(fieldname)`)
  | ctx, .multi f p b cs =>
    if isAllPred p then .ok (everyFieldM ls s f b)
    else
      let ts := (lexicon s f).filter p.test
      match ts with
      | [] => .ok Any.null
      | [t] =>
        -- `qs[0].matcher(searcher, context)`, boosted unless constant-score
        let m := listOf (postings ls s f t)
        if cs then csM ctx b m else .ok (boostM b m)
      | _ => do
        -- `Or([Term(f, t) ...], boost).matcher(searcher, context)`, `weighting=None` if constant-score
        let m ← orManyM (if cs then ⟨ctx.nc, false⟩ else ctx) s.size
                  (so (ts.map (fun t => Query.term f t 1))) (ts.map (fun t => listOf (postings ls s f t))) b
        if cs then csM ctx b m else pure m
  | ctx, .and qs b => do
    let ms ← buildList ls so s ctx qs
    compoundM (fun ms => do
      let m ← foldShapeM mkInter ms (so qs)
      pure (boostM b m)) b ms
  | ctx, .or qs b => do
    let ms ← buildList ls so s ctx qs
    compoundM (fun ms => orManyM ctx s.size (so qs) ms b) b ms
  | ctx, .dismax qs b => do
    let ms ← buildList ls so s ctx qs
    compoundM (fun ms => do
      let m ← foldShapeM (fun a b => pure (mkDisMax a b)) ms (so qs)
      pure (boostM b m)) b ms
  | _, .not q => do
    let c ← build ls so s boolCtx q
    mkInverse c s.size s.deleted 1 0
  | ctx, .andNot a b => do
    let x ← build ls so s ctx a
    let y ← build ls so s boolCtx b
    mkAndNot x y
  | ctx, .andMaybe a b => do
    let x ← build ls so s ctx a
    let y ← build ls so s ctx b
    mkAndMaybe x y
  | ctx, .require a b => do
    let x ← build ls so s ctx a
    let y ← build ls so s boolCtx b
    mkRequire x y
  | ctx, .constScore q sc => do
    let c ← build ls so s ctx q
    csM ctx sc c
  | _, _ => .error .notImpl
def buildList (ls : LeafScore) (so : ShapeOracle) (s : Segment) : Ctx → List Query → MR (List Any)
  | _, [] => .ok []
  | ctx, q :: qs => do
    let m ← build ls so s ctx q
    let ms ← buildList ls so s ctx qs
    pure (m :: ms)
end

/-- when `Or._matcher` over the clauses `qs` yields a tree the cursor model has: two clauses, or a
    tree of unions (the context needs the current match, or more than 5000 documents), or a *scored*
    array union with a positive boost over plain term matchers (`Term(f, t)`, boost 1 — what a
    multi-term query expands to) whose leaf scores are positive (the class tells documents from empty
    cells by `a[i] > 0`). -/
def UnionOK (ls : LeafScore) (s : Segment) (ctx : Ctx) (qs : List Query) (b : Rat) : Prop :=
  qs.length ≤ 2 ∨ (qs.length < 1024 ∧ (ctx.nc = true ∨ 5000 < s.size)) ∨
  (ctx.scored = true ∧ 0 < b ∧
    ∀ q ∈ qs, ∃ f t, q = Query.term f t 1 ∧ ∀ e ∈ postings ls s f t, 0 < e.score)

mutual
/-- the queries whose matcher tree consists of nodes the cursor model has -/
def CursorOK (ls : LeafScore) (s : Segment) : Ctx → Query → Prop
  | _, .term _ _ _ => True
  | _, .null => True
  | _, .every _ _ => True
  | ctx, .multi f p b cs =>
    isAllPred p = true ∨
      UnionOK ls s (if cs then ⟨ctx.nc, false⟩ else ctx)
        (((lexicon s f).filter p.test).map (fun t => Query.term f t 1)) b
  | ctx, .and qs _ => CursorOKL ls s ctx qs
  | ctx, .or qs b => CursorOKL ls s ctx qs ∧ UnionOK ls s ctx qs b
  | ctx, .dismax qs _ => CursorOKL ls s ctx qs
  | _, .not q => CursorOK ls s boolCtx q
  | ctx, .andNot a b => CursorOK ls s ctx a ∧ CursorOK ls s boolCtx b
  | ctx, .andMaybe a b => CursorOK ls s ctx a ∧ CursorOK ls s ctx b
  | ctx, .require a b => CursorOK ls s ctx a ∧ CursorOK ls s boolCtx b
  | ctx, .constScore q _ => CursorOK ls s ctx q
  | _, _ => False
def CursorOKL (ls : LeafScore) (s : Segment) : Ctx → List Query → Prop
  | _, [] => True
  | ctx, q :: qs => CursorOK ls s ctx q ∧ CursorOKL ls s ctx qs
end

mutual
/-- round 2's fragment (term / null leaves, boolean constructors, no array union), kept for
    reference: `treeOnly_cursorOK` shows it is part of `CursorOK` -/
def TreeOnly (s : Segment) : Ctx → Query → Prop
  | _, .term _ _ _ => True
  | _, .null => True
  | ctx, .and qs _ => TreeOnlyL s ctx qs
  | ctx, .or qs _ => TreeOnlyL s ctx qs ∧ (qs.length ≤ 2 ∨ (qs.length < 1024 ∧ (ctx.nc = true ∨ 5000 < s.size)))
  | ctx, .dismax qs _ => TreeOnlyL s ctx qs
  | _, .not q => TreeOnly s boolCtx q
  | ctx, .andNot a b => TreeOnly s ctx a ∧ TreeOnly s boolCtx b
  | ctx, .andMaybe a b => TreeOnly s ctx a ∧ TreeOnly s ctx b
  | ctx, .require a b => TreeOnly s ctx a ∧ TreeOnly s boolCtx b
  | ctx, .constScore q _ => TreeOnly s ctx q
  | _, _ => False
def TreeOnlyL (s : Segment) : Ctx → List Query → Prop
  | _, [] => True
  | ctx, q :: qs => TreeOnly s ctx q ∧ TreeOnlyL s ctx qs
end

end WM.Compile
