import WM.Model.Compile
import WM.Model.MatcherTree
/-!
The cursor tree that `Query.matcher(subsearcher, context)` builds for the boolean constructors, in
the vocabulary of the matcher family (`WM.Matcher.Any`, constructors `mk*` of
`WM/Model/MatcherTree.lean`), and the theorem that its remaining result list (`den`) is the list
`WM.Compile.compile` denotes.
-/
namespace WM.Compile
open WM.Search
open WM.Matcher (Any mkInter mkUnion mkDisMax mkAndNot mkAndMaybe mkRequire mkInverse mkConst mkBoost allIds
  ListM)

/-- results of matcher operations (`Except` over the modelled Python exceptions) -/
abbrev MR := WM.Matcher.R

/-- `ListMatcher(ids, weights)` over a posting list (a term's postings; `Every`; the id list a
    constant-score query pre-reads) -/
def listOf (l : PL) : Any := ⟨.list, ⟨l.map (·.id), l.map (·.score), 0, true⟩⟩

/-- `if boost != 1.0: m = WrappingMatcher(m, boost)` -/
def boostM (b : Rat) (m : Any) : Any := if b = 1 then m else mkBoost m b

/-- `make_binary_tree` / `make_weighted_tree` over matcher objects, with the constructor of the
    matcher class (which may align its arguments and, in the model, fail) -/
def foldShapeM (op : Any → Any → MR Any) (ms : List Any) : Compile.Shape → MR Any
  | .leaf i => .ok (ms.getD i Any.null)
  | .node l r => do
    let a ← foldShapeM op ms l
    let b ← foldShapeM op ms r
    op a b

/-- `CompoundQuery.matcher` over already built clause matchers -/
def compoundM (many : List Any → MR Any) (b : Rat) : List Any → MR Any
  | [] => .ok Any.null
  | [m] => .ok (boostM b m)
  | ms => many ms

mutual
/-- `q.matcher(subsearcher, context)` as a cursor tree, for term / null leaves and the boolean
    constructors.  `.error .notImpl` marks what the matcher family's tree vocabulary has no node
    for (multi-term and positional leaves, and the array union an `Or` of three or more clauses
    turns into when the context does not need the current match). -/
def build (ls : LeafScore) (so : ShapeOracle) (s : Segment) : Ctx → Query → MR Any
  | _, .term f t b => .ok (boostM b (listOf (postings ls s f t)))
  | _, .null => .ok Any.null
  | ctx, .and qs b => do
    let ms ← buildList ls so s ctx qs
    compoundM (fun ms => do
      let m ← foldShapeM mkInter ms (so qs)
      pure (boostM b m)) b ms
  | ctx, .or qs b => do
    let ms ← buildList ls so s ctx qs
    compoundM (fun ms =>
      if ms.length < 1024 && (ctx.nc || ms.length == 2 || decide (5000 < s.size)) then do
        let m ← foldShapeM (fun a b => pure (mkUnion a b)) ms (so qs)
        pure (boostM b m)
      else .error .notImpl) b ms
  | ctx, .dismax qs b => do
    let ms ← buildList ls so s ctx qs
    compoundM (fun ms => do
      let m ← foldShapeM (fun a b => pure (mkDisMax a b)) ms (so qs)
      pure (boostM b m)) b ms
  | _, .not q => do
    let c ← build ls so s boolCtx q
    mkInverse c s.size s.deleted 1 0
  | ctx, .andNot a b => do
    let x ← build ls so s ctx a
    let y ← build ls so s boolCtx b
    mkAndNot x y
  | ctx, .andMaybe a b => do
    let x ← build ls so s ctx a
    let y ← build ls so s ctx b
    mkAndMaybe x y
  | ctx, .require a b => do
    let x ← build ls so s ctx a
    let y ← build ls so s boolCtx b
    mkRequire x y
  | ctx, .constScore q sc => do
    let c ← build ls so s ctx q
    if ctx.nc then pure (mkConst c sc)
    else do
      -- `ListMatcher(array("I", m.all_ids()), all_weights=score)`
      let ids ← allIds c
      pure (listOf (ids.map (fun i => (⟨i, wOf sc⟩ : Hit))))
  | _, _ => .error .notImpl
def buildList (ls : LeafScore) (so : ShapeOracle) (s : Segment) : Ctx → List Query → MR (List Any)
  | _, [] => .ok []
  | ctx, q :: qs => do
    let m ← build ls so s ctx q
    let ms ← buildList ls so s ctx qs
    pure (m :: ms)
end

mutual
/-- the queries whose matcher tree consists of nodes the cursor model has -/
def TreeOnly (s : Segment) : Ctx → Query → Prop
  | _, .term _ _ _ => True
  | _, .null => True
  | ctx, .and qs _ => TreeOnlyL s ctx qs
  | ctx, .or qs _ => TreeOnlyL s ctx qs ∧ (qs.length ≤ 2 ∨ (qs.length < 1024 ∧ (ctx.nc = true ∨ 5000 < s.size)))
  | ctx, .dismax qs _ => TreeOnlyL s ctx qs
  | _, .not q => TreeOnly s boolCtx q
  | ctx, .andNot a b => TreeOnly s ctx a ∧ TreeOnly s boolCtx b
  | ctx, .andMaybe a b => TreeOnly s ctx a ∧ TreeOnly s ctx b
  | ctx, .require a b => TreeOnly s ctx a ∧ TreeOnly s boolCtx b
  | ctx, .constScore q _ => TreeOnly s ctx q
  | _, _ => False
def TreeOnlyL (s : Segment) : Ctx → List Query → Prop
  | _, [] => True
  | ctx, q :: qs => TreeOnly s ctx q ∧ TreeOnlyL s ctx qs
end

end WM.Compile
