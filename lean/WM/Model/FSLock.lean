/-
N writers racing for one index (C04).  Mirrors the protocol of

* `whoosh/writing.py` `SegmentWriter.__init__` (lock via `try_for(self.writelock.acquire, …)`, then
  `ix._read_toc()`, `self.generation = info.generation + 1`, `self.segments = info.segments`),
  `add_document` / `delete_document` (buffered in the writer), `_commit_toc` (a TOC with
  `self.generation` and the segments read at construction plus the writer's own changes),
  `_finish` (`writelock.release()`), `cancel`, `IndexWriter.__exit__`;
* `whoosh/util/filelock.py` `try_for`, `FcntlLock.acquire/release` and
  `whoosh/filedb/filestore.py` `RamStorage.lock`: `tryLock` succeeds iff the lock is free
  (flock / threading.Lock exclusivity is trusted).

A writer is a script of abstract steps; the scheduler picks which writer moves next.  A failed
`tryLock` raises `LockError` from the constructor, so that writer never does anything else (a
writer that polls until its timeout is the same writer scheduled later or not at all, because a
failed attempt changes nothing).
-/
namespace WM.Lock

/-- an abstract committed change (an added or deleted document) -/
abbrev Op := Nat

/-- what the current TOC says: its generation and the log of changes it reflects -/
structure Toc where
  gen : Nat
  ops : List Op
  deriving DecidableEq, Repr

inductive Step where
  | tryLock           -- `try_for(writelock.acquire, timeout, delay)`
  | readToc           -- `ix._read_toc()`
  | work (op : Op)    -- `add_document` / `delete_document` / …: buffered in the writer
  | io                -- any create / write / delete of index files
  | writeToc          -- `_commit_toc`: publish `TOC(read gen + 1, read state + own changes)`
  | release           -- `writelock.release()`
  deriving DecidableEq, Repr

structure WState where
  script : List Step
  holds : Bool := false
  failed : Bool := false          -- LockError was raised
  base : Option Toc := none       -- the TOC read at construction
  pending : List Op := []
  committed : Bool := false
  deriving Repr

structure State where
  holder : Option Nat
  toc : Toc
  ws : Nat → WState
  commits : List Nat              -- ids of the writers that published a TOC, in order

def setW (s : State) (w : Nat) (x : WState) : State :=
  { s with ws := fun v => if v = w then x else s.ws v }

/-- writer `w` executes its next step -/
def stepW (s : State) (w : Nat) : State :=
  let x := s.ws w
  match x.script with
  | [] => s
  | .tryLock :: r =>
    match s.holder with
    | none => { setW s w { x with script := r, holds := true } with holder := some w }
    | some _ => setW s w { x with script := [], failed := true }
  | .readToc :: r => setW s w { x with script := r, base := some s.toc }
  | .work op :: r => setW s w { x with script := r, pending := x.pending ++ [op] }
  | .io :: r => setW s w { x with script := r }
  | .writeToc :: r =>
    match x.base with
    | some b =>
      { setW s w { x with script := r, committed := true } with
        toc := ⟨b.gen + 1, b.ops ++ x.pending⟩, commits := s.commits ++ [w] }
    | none => setW s w { x with script := r }   -- cannot happen in the code: generation is set in __init__
  | .release :: r =>
    if x.holds then { setW s w { x with script := r, holds := false } with holder := none }
    else setW s w { x with script := r }

def exec (s : State) (sched : List Nat) : State := sched.foldl stepW s

def init (t0 : Toc) (scripts : Nat → List Step) : State :=
  { holder := none, toc := t0, ws := fun w => { script := scripts w }, commits := [] }

/-! ### `LockDiscipline` -/

/-- after the TOC is published: only file clean-up, then the release, then nothing -/
def postOK : List Step → Bool
  | [.release] => true
  | .io :: r => postOK r
  | _ => false

/-- after the TOC was read: buffered work and file writes, optionally the TOC, the release last -/
def tailOK : List Step → Bool
  | [.release] => true
  | .work _ :: r => tailOK r
  | .io :: r => tailOK r
  | .writeToc :: r => postOK r
  | _ => false

/-- "the first storage event is the acquire; the TOC is read after it; every write of index
    files lies between acquire and release; the release happens on commit and on cancel /
    exception exit; nothing after the release". -/
def LockDiscipline : List Step → Bool
  | .tryLock :: .readToc :: r => tailOK r
  | _ => false

/-- events of one writer lifetime as logged from the real code -/
inductive TEv where
  | acquire (ok : Bool)
  | readToc
  | work (op : Op)
  | io
  | writeToc
  | release
  deriving DecidableEq, Repr

def TEv.toStep : TEv → Step
  | .acquire _ => .tryLock
  | .readToc => .readToc
  | .work op => .work op
  | .io => .io
  | .writeToc => .writeToc
  | .release => .release

/-- a logged lifetime is either a lone failed acquire, or a successful acquire followed by a
    disciplined script -/
def TraceDiscipline : List TEv → Bool
  | [.acquire false] => true
  | .acquire true :: r => LockDiscipline (.tryLock :: r.map TEv.toStep)
  | _ => false

/-! ### Whole writer lifetimes, by the way they end

`whoosh/writing.py` `IndexWriter.__exit__` (`if exc_type: self.cancel() else: self.commit()`),
`SegmentWriter.commit` / `cancel` / `_finish`, and `whoosh/multiproc.py` `MpWriter._commit` /
`_subtasks_failed`: the multi-process writer notices a dead sub-writer process after joining the
sub-tasks, *before* `_commit_toc`; `_subtasks_failed` then calls `self.cancel()` (which destroys the
temp storage and releases the lock in `_finish`) and raises `IndexingError`.  So a commit that fails
this way is, for the lock protocol, a cancel. -/

/-- buffered API calls and the file writes that go with them -/
def lifeBody (ops : List Op) (n : Nat) : List Step := ops.map Step.work ++ List.replicate n Step.io

/-- `SegmentWriter.commit`: …, `_commit_toc`, clean-up (`m` storage operations), `_finish` -/
def commitLife (ops : List Op) (n m : Nat) : List Step :=
  .tryLock :: .readToc :: (lifeBody ops n ++ .writeToc :: (List.replicate m .io ++ [.release]))

/-- `SegmentWriter.cancel` (also reached from `IndexWriter.__exit__` with an exception and from
    `MpWriter._subtasks_failed`): clean-up of what was written (`m` operations), `_finish` -/
def cancelLife (ops : List Op) (n m : Nat) : List Step :=
  .tryLock :: .readToc :: (lifeBody ops n ++ (List.replicate m .io ++ [.release]))

/-- a lifetime that simply stops (an exception leaves `commit()` and nobody cancels) -/
def leakLife (ops : List Op) (n : Nat) : List Step := .tryLock :: .readToc :: lifeBody ops n

/-- `with ix.writer(...) as w: body`.  `bodyRaises`: the block raised; `commitFails`: the commit run by
    `__exit__` found a dead sub-writer (`MpWriter._commit`); `failCancels`: `_subtasks_failed` cancels
    the writer before raising (true in the code). -/
def withBlock (ops : List Op) (n m : Nat) (bodyRaises commitFails failCancels : Bool) : List Step :=
  if bodyRaises then cancelLife ops n m
  else if commitFails then (if failCancels then cancelLife ops n m else leakLife ops n)
  else commitLife ops n m

end WM.Lock
