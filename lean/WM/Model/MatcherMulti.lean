import WM.Model.Matcher
import WM.Spec.Den
/-
Layer M, matcher family: `whoosh/matching/wrappers.py` `MultiMatcher` - the posting lists of one term in
the segments of an index, served one after the other with the segment's document offset added.

A functor like the other classes of `WM/Model/Matcher.lean`: given the operation table of the
sub-matchers (all of one class, as `Searcher.postings`/`MultiReader.postings` build them) it yields
the operation table of the `MultiMatcher`, method by method.  `matchers` and `idoffsets` are kept as one
list of pairs (the constructor does not check that the two lists have the same length; a shorter
`idoffsets` raises IndexError at the first use - not modelled).

`score()` is `self.scorer.score(self)`: the scorer of the whole reader applied to the current
sub-matcher's `weight()`.  The model takes the score of the current sub-matcher (the per-segment and
the global scorer agree: `Frequency`/`WeightScorer`, and every weighting on a one-segment index;
that they agree for length- and collection-dependent weightings is not claimed).
-/
namespace WM.Matcher

structure Multi (α : Type) where
  /-- `zip(self.matchers, self.offsets)` -/
  segs : List (α × Nat)
  /-- `self.current` -/
  cur : Nat

namespace Multi
variable {α : Type} (A : Ops α)

/-- number of leading exhausted sub-matchers -/
def skipDead : List (α × Nat) → Nat
  | [] => 0
  | s :: ss => if A.isActive s.1 then 0 else skipDead ss + 1

/-- `MultiMatcher._next_matcher`: `while current < len and not matchers[current].is_active(): current += 1` -/
def nextMatcher (m : Multi α) : Multi α :=
  { m with cur := m.cur + skipDead A (m.segs.drop m.cur) }

/-- `MultiMatcher.__init__(matchers, idoffsets, scorer, current)` -/
def init (segs : List (α × Nat)) (current : Nat) : Multi α := nextMatcher A ⟨segs, current⟩

def isActive (m : Multi α) : Bool := decide (m.cur < m.segs.length)

/-- `self.matchers[current].id() + self.offsets[current]` -/
def id (m : Multi α) : R Nat :=
  match m.segs[m.cur]? with
  | some s => do let x ← A.id s.1; pure (x + s.2)
  | none => .error .index

def score (m : Multi α) : R Rat :=
  match m.segs[m.cur]? with
  | some s => A.score s.1
  | none => .error .index

/-- the current sub-matcher replaced by its new state; `_next_matcher()` if that is exhausted -/
def settle (m : Multi α) (c : α) (off : Nat) : Multi α :=
  let m' := { m with segs := m.segs.set m.cur (c, off) }
  if A.isActive c then m' else nextMatcher A m'

/-- `MultiMatcher.next` -/
def next (m : Multi α) : R (Multi α) :=
  match m.segs[m.cur]? with
  | none => .error .readTooFar
  | some s => do
    let c ← A.next s.1
    pure (settle A m c s.2)

/-- the loop of `MultiMatcher.skip_to`:
    `while current < len and id > self.id(): mr.skip_to(id - offset); if mr.is_active(): break; self._next_matcher()` -/
def skipLoop (t : Nat) : Nat → Multi α → R (Multi α)
  | 0, _ => .error .diverge
  | n + 1, m =>
    match m.segs[m.cur]? with
    | none => pure m
    | some s => do
      let x ← A.id s.1
      if x + s.2 < t then do
        let c ← A.skipTo s.1 (t - s.2)
        if A.isActive c then pure (settle A m c s.2) else skipLoop t n (settle A m c s.2)
      else pure m

/-- `MultiMatcher.skip_to` -/
def skipTo (m : Multi α) (t : Nat) : R (Multi α) :=
  match m.segs[m.cur]? with
  | none => .error .readTooFar
  | some s => do
    let x ← A.id s.1
    if t ≤ x + s.2 then pure m
    else skipLoop A t (m.segs.length - m.cur + 1) m

/-- `all(mr.supports_block_quality() for mr in self.matchers[self.current:])` -/
def supportsBQ (m : Multi α) : Bool := (m.segs.drop m.cur).all fun s => A.supportsBQ s.1

/-- `max(mr.max_quality() for mr in ...)` of a non-empty sequence -/
def maxOf : List (α × Nat) → R Rat
  | [] => .error .value
  | [s] => A.maxQuality s.1
  | s :: ss => do
    let a ← A.maxQuality s.1
    let b ← maxOf ss
    pure (max a b)

/-- `MultiMatcher.max_quality` (0 once exhausted) -/
def maxQuality (m : Multi α) : R Rat :=
  if isActive m then maxOf A (m.segs.drop m.cur) else .ok 0

/-- `MultiMatcher.block_quality` (0 once exhausted) -/
def blockQuality (m : Multi α) : R Rat :=
  match m.segs[m.cur]? with
  | some s => A.blockQuality s.1
  | none => .ok 0

/-- `MultiMatcher.skip_to_quality`:
    `while self.is_active(): skipped += mr.skip_to_quality(q); if mr.is_active(): break; self._next_matcher()` -/
def skipQLoop (q : Rat) : Nat → Multi α → Nat → R (Multi α × Nat)
  | 0, _, _ => .error .diverge
  | n + 1, m, k =>
    match m.segs[m.cur]? with
    | none => pure (m, k)
    | some s => do
      let (c, j) ← A.skipToQuality s.1 q
      if A.isActive c then pure (settle A m c s.2, k + j) else skipQLoop q n (settle A m c s.2) (k + j)

def skipToQuality (m : Multi α) (q : Rat) : R (Multi α × Nat) :=
  skipQLoop A q (m.segs.length - m.cur + 1) m 0

/-- `for mr in self.matchers: mr.reset()` -/
def resetAll : List (α × Nat) → R (List (α × Nat))
  | [] => pure []
  | s :: ss => do
    let c ← A.reset s.1
    let rest ← resetAll ss
    pure ((c, s.2) :: rest)

/-- `MultiMatcher.reset` -/
def reset (m : Multi α) : R (Multi α) := do
  let segs ← resetAll A m.segs
  pure (nextMatcher A ⟨segs, 0⟩)

/-- postings not yet consumed (each remaining sub-matcher counts once more: stepping off it is a move) -/
def remOf : List (α × Nat) → Nat
  | [] => 0
  | s :: ss => A.rem s.1 + 1 + remOf ss

def rem (m : Multi α) : Nat := remOf A (m.segs.drop m.cur)

def ops : Ops (Multi α) where
  isActive := isActive
  id := id A
  score := score A
  next := next A
  skipTo := skipTo A
  supportsBQ := supportsBQ A
  blockQuality := blockQuality A
  maxQuality := maxQuality A
  skipToQuality := skipToQuality A
  reset := reset A
  rem := rem A

/-- the loop of `MultiMatcher.replace(minquality)`: sub-matchers whose `max_quality()` is below the threshold
    are passed over (`m = MultiMatcher(matchers, offsets, scorer, m.current + 1)`; the constructor runs
    `_next_matcher()`).  The Boolean tells whether a new object was made. -/
def replLoop (q : Rat) : Nat → Multi α → Bool → R (Multi α × Bool)
  | 0, _, _ => .error .diverge
  | n + 1, m, ch =>
    match m.segs[m.cur]? with
    | none => pure (m, ch)
    | some s => do
      let mq ← A.maxQuality s.1
      if mq < q then replLoop q n (nextMatcher A { m with cur := m.cur + 1 }) true
      else pure (m, ch)

/-- `MultiMatcher.replace` up to the final `if not m.is_active(): return NullMatcher()` -/
def replaceCore (m : Multi α) (q : Rat) : R (Multi α × Bool) :=
  if q != 0 then replLoop A q (m.segs.length - m.cur + 1) m false else pure (m, false)

/-! ### meaning -/

/-- the lists of the sub-matchers one after the other, each shifted by its offset -/
def denOf (d : α → Den) : List (α × Nat) → Den
  | [] => []
  | s :: ss => shift s.2 (d s.1) ++ denOf d ss

/-- what is left: the current sub-matcher's rest and the sub-matchers after it -/
def den (d : α → Den) (m : Multi α) : Den := denOf d (m.segs.drop m.cur)

/-- the complete list (what `reset()` returns to) -/
def full (f : α → Den) (m : Multi α) : Den := denOf f m.segs

end Multi

end WM.Matcher
