import WM.Model.SearchCursor
/-!
`Term.matcher` on the TOP searcher of a multi-segment index (what `Query.docs(searcher)` and
`Query.matcher(searcher)` read): `MultiReader.postings` builds one posting reader per sub-reader that
has the term and a `MultiMatcher` over them with the sub-readers' document offsets - the matcher
family's `multi` node over `ListMatcher` leaves.  (Model layer: used by the compiled driver.)
-/
namespace WM.Compile
open WM.Search
open WM.Matcher (Any mkMulti ListM)

/-- the state of `ListMatcher(ids, weights)` over a posting list (`listOf` without the shape tag) -/
def listSt (l : PL) : WM.Matcher.St .list := (⟨l.map (·.id), l.map (·.score), 0, true⟩ : ListM)

/-- `MultiReader.postings(fieldname, text)` (`reading.py`): `for i, r in enumerate(self.readers): if term in r:`
    the sub-reader's posting reader and `self.doc_offsets[i]`; `term in r` is membership in the segment's
    term dictionary (terms of deleted documents stay until a merge). -/
def topSegs (ls : LeafScore) (f : String) (t : Term) : Nat → Index → List (WM.Matcher.St .list × Nat)
  | _, [] => []
  | off, s :: rest =>
    if (lexicon s f).contains t then (listSt (postings ls s f t), off) :: topSegs ls f t (off + s.size) rest
    else topSegs ls f t (off + s.size) rest

/-- `Term.matcher(searcher, context)` (`query/terms.py`) on the top searcher: `NullMatcher()` unless the term
    is in the (multi) reader — `MultiReader.postings` raises `TermNotFound` exactly when no sub-reader has
    it —, else `MultiMatcher(postreaders, docoffsets)`, wrapped in `WrappingMatcher(m, boost)` if the boost
    is not 1. -/
def topTerm (ls : LeafScore) (idx : Index) (f : String) (t : Term) (b : Rat) : Any :=
  match topSegs ls f t 0 idx with
  | [] => Any.null
  | segs => boostM b (mkMulti .list segs)

end WM.Compile
