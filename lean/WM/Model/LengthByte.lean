/-
Mirror of `whoosh/util/numeric.py`: `_length_byte_cache`, `length_to_byte`, `byte_to_length`
(the one-byte logarithmic approximation of field lengths that every length-normalised scorer sees:
`W3PerDocWriter.add_field` stores `length_to_byte(length)`, `doc_field_length` returns
`byte_to_length` of it).
-/
namespace WM.LengthByte

/-- `_length_byte_cache` (256 entries; compared with the live module by the check). -/
def table : List Nat := [
  0, 1, 2, 3, 4, 5, 6, 7, 8, 9, 10, 12, 13, 14, 16, 17, 18, 20, 21, 23, 25, 26, 28, 30, 32, 34,
  36, 38, 40, 42, 45, 47, 49, 52, 54, 57, 60, 63, 66, 69, 72, 75, 79, 82, 86, 89, 93, 97, 101,
  106, 110, 114, 119, 124, 129, 134, 139, 145, 150, 156, 162, 169, 175, 182, 189, 196, 203, 211,
  219, 227, 235, 244, 253, 262, 271, 281, 291, 302, 313, 324, 336, 348, 360, 373, 386, 399, 414,
  428, 443, 459, 475, 491, 508, 526, 544, 563, 583, 603, 623, 645, 667, 690, 714, 738, 763, 789,
  816, 844, 873, 903, 933, 965, 998, 1032, 1066, 1103, 1140, 1178, 1218, 1259, 1302, 1345, 1391,
  1438, 1486, 1536, 1587, 1641, 1696, 1753, 1811, 1872, 1935, 1999, 2066, 2135, 2207, 2280, 2356,
  2435, 2516, 2600, 2687, 2777, 2869, 2965, 3063, 3165, 3271, 3380, 3492, 3608, 3728, 3852, 3980,
  4112, 4249, 4390, 4536, 4686, 4842, 5002, 5168, 5340, 5517, 5700, 5889, 6084, 6286, 6494, 6709,
  6932, 7161, 7398, 7643, 7897, 8158, 8428, 8707, 8995, 9293, 9601, 9918, 10247, 10586, 10936,
  11298, 11671, 12057, 12456, 12868, 13294, 13733, 14187, 14656, 15141, 15641, 16159, 16693, 17244,
  17814, 18403, 19011, 19640, 20289, 20959, 21652, 22367, 23106, 23869, 24658, 25472, 26314, 27183,
  28081, 29009, 29967, 30957, 31979, 33035, 34126, 35254, 36418, 37620, 38863, 40146, 41472, 42841,
  44256, 45717, 47227, 48786, 50397, 52061, 53780, 55556, 57390, 59285, 61242, 63264, 65352, 67510,
  69739, 72041, 74419, 76876, 79414, 82035, 84743, 87541, 90430, 93416, 96499, 99684, 102975, 106374]

/-- `bisect.bisect_left(a, x)` on an ascending list: the number of entries below `x`. -/
def bisectLeft (a : List Nat) (x : Nat) : Nat := (a.takeWhile (fun e => e < x)).length

/-- `length_to_byte(length)` (`None` is not modelled). -/
def lengthToByte (n : Nat) : Nat := if 106374 ≤ n then 255 else bisectLeft table n

/-- `byte_to_length = _length_byte_cache.__getitem__`; `none` = IndexError. -/
def byteToLength (b : Nat) : Option Nat := table[b]?

/-- what a scorer sees for a field of true length `n` -/
def approx (n : Nat) : Nat := (byteToLength (lengthToByte n)).getD 0

end WM.LengthByte
