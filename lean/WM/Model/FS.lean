/-
Abstract file system, TOC naming, `recover`, writer events and the decidable trace predicates of
C02 / C03 / C04.  Mirrors

* `whoosh/index.py`: `TOC._filename`, `TOC._pattern`, `TOC._segment_pattern`,
  `TOC._latest_generation`, `TOC.read` (which file is opened, which checks are made),
  `TOC.write` (temp name + rename), `clean_files`, `FileIndex._reader(reuse=…)`, `FileIndex.reader`;
* `whoosh/filedb/filestore.py`: `FileStorage.create_file / rename_file(safe=True) / delete_file / list`;
* `whoosh/writing.py`: the order of storage operations of `SegmentWriter.commit / cancel`
  (through the trace predicates, which are evaluated on logged traces of the real code);
* `whoosh/searching.py`: `Searcher.refresh`, `Searcher.up_to_date`.

A file name is a list of characters.  A directory maps names to inode numbers and inodes to file
data, so that a handle that was opened earlier keeps denoting the same inode after the name has
been unlinked or re-bound (POSIX unlink-while-open / mmap: assumption about the OS).
-/
namespace WM.FS

abbrev Name := List Char

/-! ## Names (index.py: TOC._filename, TOC._pattern, TOC._segment_pattern) -/

def isDigit (c : Char) : Bool := '0' ≤ c && c ≤ '9'
def isLowerC (c : Char) : Bool := 'a' ≤ c && c ≤ 'z'
def isUpperC (c : Char) : Bool := 'A' ≤ c && c ≤ 'Z'
/-- `[0-9a-z]` -/
def isSegIdChar (c : Char) : Bool := isDigit c || isLowerC c
/-- `[A-Za-z0-9_.]` -/
def isExtChar (c : Char) : Bool := isUpperC c || isLowerC c || isDigit c || c == '_' || c == '.'

/-- decimal digits of a number, most significant first (`"%s" % gen`): core's `Nat.toDigits`. -/
def natDigits (n : Nat) : List Char := Nat.toDigits 10 n

/-- `int(s)` for a string of decimal digits (leading zeros allowed), accumulator version. -/
def digitsVal (acc : Nat) : List Char → Nat
  | [] => acc
  | c :: cs => digitsVal (acc * 10 + (c.toNat - 48)) cs

/-- `TOC._filename(indexname, gen)` = `"_%s_%s.toc"`. -/
def tocName (ix : Name) (gen : Nat) : Name :=
  '_' :: (ix ++ '_' :: (natDigits gen ++ ['.', 't', 'o', 'c']))

/-- strip a literal prefix. -/
def stripPrefix : Name → Name → Option Name
  | [], s => some s
  | _ :: _, [] => none
  | p :: ps, c :: cs => if p = c then stripPrefix ps cs else none

/-- The tail `.toc$` of the TOC pattern after the digits: one arbitrary character that is not a
    newline (the dot is not escaped in the source), the literal `toc`, then the end of the string
    or a final newline (`$`). -/
def tocTail : Name → Bool
  | [c, 't', 'o', 'c'] => c != '\n'
  | [c, 't', 'o', 'c', '\n'] => c != '\n'
  | _ => false

/-- Backtracking of `([0-9]+)`: try the longest digit prefix first, then shorter ones.
    `ds` = digits consumed so far (reversed), `rest` = what follows.  Returns the digit string. -/
def tocBacktrack : List Char → Name → Option (List Char)
  | [], _ => none
  | d :: ds, rest =>
    if tocTail rest then some (d :: ds).reverse else tocBacktrack ds (d :: rest)

/-- `TOC._pattern(indexname).match(name)`: `^_<ix>_([0-9]+).toc$`; returns `int(group(1))`.
    The index name is taken literally (no regex metacharacters in it: assumption). -/
def tocGen (ix : Name) (n : Name) : Option Nat :=
  match stripPrefix ('_' :: (ix ++ ['_'])) n with
  | none => none
  | some rest =>
    let ds := rest.takeWhile isDigit
    match tocBacktrack ds.reverse (rest.dropWhile isDigit) with
    | none => none
    | some g => some (digitsVal 0 g)

/-- `TOC._segment_pattern(indexname).match(name)`: `(<ix>_[0-9a-z]+)[.]`, anchored at the start
    only; returns group(1), the segment id.  (As repaired in round 3: the pattern used to demand an
    extension from `[A-Za-z0-9_.]+`, which the column file of a field whose name starts with
    another character does not have — see `C02.segFiles_segOf`.)  `[0-9a-z]+` is greedy and the
    next character must be a dot, which is not in the class, so no backtracking is possible. -/
def segOf (ix : Name) (n : Name) : Option Name :=
  match stripPrefix (ix ++ ['_']) n with
  | none => none
  | some rest =>
    let sid := rest.takeWhile isSegIdChar
    match sid, rest.dropWhile isSegIdChar with
    | _ :: _, '.' :: _ => some (ix ++ '_' :: sid)
    | _, _ => none

/-- the pattern before the round-3 repair: `(<ix>_[0-9a-z]+)[.][A-Za-z0-9_.]+` -/
def segOfOld (ix : Name) (n : Name) : Option Name :=
  match stripPrefix (ix ++ ['_']) n with
  | none => none
  | some rest =>
    let sid := rest.takeWhile isSegIdChar
    match sid, rest.dropWhile isSegIdChar with
    | _ :: _, '.' :: c :: _ => if isExtChar c then some (ix ++ '_' :: sid) else none
    | _, _ => none

/-! ## TOC contents -/

/-- What the pickled segment object in a TOC says about one segment, as far as the protocols care:
    its id, the files a reader of it needs, and its deletion set. -/
structure SegRef where
  sid : Name
  files : List Name
  deleted : List Nat
  deriving DecidableEq, Repr

structure Toc where
  gen : Nat
  schema : Nat
  segs : List SegRef
  deriving DecidableEq, Repr

def Toc.files (t : Toc) : List Name := t.segs.flatMap (·.files)
def Toc.sids (t : Toc) : List Name := t.segs.map (·.sid)

/-! ## File system -/

inductive FStat where
  | writing   -- created and not yet closed by the process that writes it
  | complete  -- closed after all its writes
  | torn      -- was still open when its writer died: an arbitrary prefix survives
  deriving DecidableEq, Repr

structure FileData where
  len : Nat
  st : FStat
  toc : Option Toc   -- what `TOC.read` parses out of the file when it is complete
  deriving DecidableEq, Repr

structure FS where
  /-- every name that was ever bound (superset of the directory listing) -/
  names : List Name
  dir : Name → Option Nat
  data : Nat → FileData
  next : Nat

def FS.bound (fs : FS) (n : Name) : Bool := (fs.dir n).isSome

/-- `storage.list()` (possibly with repetitions, which no consumer is sensitive to). -/
def FS.listing (fs : FS) : List Name := fs.names.filter fs.bound

def FS.file? (fs : FS) (n : Name) : Option FileData := (fs.dir n).map fs.data

def FS.isComplete (fs : FS) (n : Name) : Bool :=
  match fs.dir n with
  | some i => (fs.data i).st == .complete
  | none => false

def FS.isWriting (fs : FS) (n : Name) : Bool :=
  match fs.dir n with
  | some i => (fs.data i).st == .writing
  | none => false

inductive Event where
  | create (n : Name)
  | write (n : Name) (k : Nat)
  | setToc (n : Name) (t : Toc)   -- the bytes written to `n` so far + later are the TOC `t`
  | close (n : Name)
  | rename (a b : Name)
  | delete (n : Name)
  | other                          -- lock, list, open for reading, temp storage: no effect here
  deriving DecidableEq, Repr

def setData (fs : FS) (i : Nat) (d : FileData) : FS :=
  { fs with data := fun j => if j = i then d else fs.data j }

def modData (fs : FS) (n : Name) (f : FileData → FileData) : FS :=
  match fs.dir n with
  | some i => if (fs.data i).st = .writing then setData fs i (f (fs.data i)) else fs
  | none => fs

/-- Effect of one storage event (`FileStorage.create_file` opens with mode "wb": an existing file is
    truncated *in place*; `rename_file` = `os.rename`; `delete_file` = `os.remove`). -/
def step (fs : FS) : Event → FS
  | .create n =>
    match fs.dir n with
    | some i => setData fs i ⟨0, .writing, none⟩
    | none =>
      { names := n :: fs.names
        dir := fun m => if m = n then some fs.next else fs.dir m
        data := fun j => if j = fs.next then ⟨0, .writing, none⟩ else fs.data j
        next := fs.next + 1 }
  | .write n k => modData fs n fun d => { d with len := d.len + k }
  | .setToc n t => modData fs n fun d => { d with toc := some t }
  | .close n => modData fs n fun d => { d with st := .complete }
  | .rename a b =>
    match fs.dir a with
    | some i =>
      { fs with names := b :: fs.names
                dir := fun m => if m = b then some i else if m = a then none else fs.dir m }
    | none => fs
  | .delete n => { fs with dir := fun m => if m = n then none else fs.dir m }
  | .other => fs

def run (fs : FS) (tr : List Event) : FS := tr.foldl step fs

/-- The process dies: every file it still had open keeps an arbitrary prefix (`τ` chooses the length
    per inode) and nothing of it can be relied upon. -/
def crash (fs : FS) (τ : Nat → Nat) : FS :=
  { fs with data := fun i =>
      let d := fs.data i
      if d.st = .writing then ⟨min (τ i) d.len, .torn, none⟩ else d }

/-! ## Recovery (index.py: TOC._latest_generation, TOC.read) -/

/-- `TOC._latest_generation`: `mx = -1; for filename in storage: m = pattern.match(filename);
    if m: mx = max(int(m.group(1)), mx)`.  `none` stands for -1. -/
def latestGenOf (ix : Name) (names : List Name) : Option Nat :=
  names.foldl (fun mx n =>
    match tocGen ix n, mx with
    | some g, some m => some (max g m)
    | some g, none => some g
    | none, mx => mx) none

def latestGen (ix : Name) (fs : FS) : Option Nat := latestGenOf ix fs.listing

inductive RecErr where
  | emptyIndex   -- EmptyIndexError
  | ioError      -- the file `_<ix>_<gen>.toc` cannot be opened
  | badToc       -- truncated / unparsable TOC, or `assert gen == index_gen` fails
  deriving DecidableEq, Repr

/-- `TOC.read(storage, indexname)` with `gen=None`. -/
def readToc (ix : Name) (fs : FS) : Except RecErr Toc :=
  match latestGen ix fs with
  | none => .error .emptyIndex
  | some g =>
    match fs.dir (tocName ix g) with
    | none => .error .ioError
    | some i =>
      let d := fs.data i
      if d.st = .complete then
        match d.toc with
        | some t => if t.gen = g then .ok t else .error .badToc
        | none => .error .badToc
      else .error .badToc

/-- every file a reader of `t` needs exists and is complete. -/
def readable (fs : FS) (t : Toc) : Bool := t.files.all fs.isComplete

/-! ## `clean_files` -/

def startsWithDot : Name → Bool
  | '.' :: _ => true
  | _ => false

/-- `clean_files(storage, indexname, gen, segments)`: the names it deletes, in listing order. -/
def cleanFiles (ix : Name) (gen : Nat) (sids : List Name) (listing : List Name) : List Name :=
  listing.filter fun n =>
    if startsWithDot n then false
    else match tocGen ix n with
      | some g => g != gen
      | none => match segOf ix n with
        | some s => !(sids.contains s)
        | none => false

/-! ## C02: the commit protocol as a predicate on storage traces -/

inductive Phase where
  | pre                -- segment files are being written
  | tmpOpen            -- the TOC temp file exists and is being written
  | tmpClosed          -- the TOC temp file is closed, not yet renamed
  | post               -- the new TOC is in place; clean-up
  deriving DecidableEq, Repr

structure Chk where
  fs : FS
  phase : Phase

/-- Is event `e`, issued in state `c`, allowed by the commit protocol?  `old` = the TOC the writer
    started from, `new` = the TOC it commits, `tmp` = the temp name it uses for the new TOC
    (`none`: the writer never commits – cancel).  Returns the next protocol phase. -/
def okEvent (ix : Name) (old new : Toc) (tmp : Option Name) (c : Chk) : Event → Option Phase
  | .create n =>
    -- a fresh name (never bound before: no in-place truncation, no re-use of a segment name),
    -- and never a name the TOC pattern matches
    if n ∈ c.fs.names || (c.fs.dir n).isSome || (tocGen ix n).isSome then none
    else if some n = tmp then
      -- every file of every segment the new TOC references is closed before the TOC is written
      if c.phase = .pre && readable c.fs new then some .tmpOpen else none
    else some c.phase
  | .write n _ => if c.fs.isWriting n then some c.phase else none
  | .setToc n t =>
    if some n = tmp && c.phase = .tmpOpen && t = new && c.fs.isWriting n then some c.phase else none
  | .close n =>
    if c.fs.isWriting n then
      (if some n = tmp then (if c.phase = .tmpOpen then some .tmpClosed else none) else some c.phase)
    else none
  | .rename a b =>
    -- exactly one rename: the closed temp file, holding `new`, onto `_<ix>_<old.gen+1>.toc`
    if some a = tmp && c.phase = .tmpClosed && c.fs.isComplete a
        && (c.fs.file? a).bind (·.toc) = some new
        && new.gen = old.gen + 1 && b = tocName ix new.gen
        && !(c.fs.dir b).isSome && !(b ∈ c.fs.names) then some .post
    else none
  | .delete n =>
    match c.phase with
    | .post => if n = tocName ix new.gen || n ∈ new.files then none else some .post
    | .pre => if n = tocName ix old.gen || n ∈ old.files then none else some .pre
    | ph =>
      if n = tocName ix old.gen || n ∈ old.files || n ∈ new.files || some n = tmp then none
      else some ph
  | .other => some c.phase

def chkStep (ix : Name) (old new : Toc) (tmp : Option Name) (c : Chk) (e : Event) : Option Chk :=
  (okEvent ix old new tmp c e).map fun ph => ⟨step c.fs e, ph⟩

def chkRun (ix : Name) (old new : Toc) (tmp : Option Name) : Chk → List Event → Option Chk
  | c, [] => some c
  | c, e :: es =>
    match chkStep ix old new tmp c e with
    | none => none
    | some c' => chkRun ix old new tmp c' es

/-- Index of the first offending event (for diagnostics in the driver). -/
def chkFail (ix : Name) (old new : Toc) (tmp : Option Name) : Chk → List Event → Nat → Option Nat
  | _, [], _ => none
  | c, e :: es, k =>
    match chkStep ix old new tmp c e with
    | none => some k
    | some c' => chkFail ix old new tmp c' es (k + 1)

/-- `SafeCommitTrace`: the trace follows the commit protocol from `fs0` (any prefix of a commit). -/
def SafeCommitTrace (ix : Name) (old new : Toc) (tmp : Name) (fs0 : FS) (tr : List Event) : Bool :=
  (chkRun ix old new (some tmp) ⟨fs0, .pre⟩ tr).isSome

/-- the trace is a whole commit: it ends after the rename. -/
def CompleteCommit (ix : Name) (old new : Toc) (tmp : Name) (fs0 : FS) (tr : List Event) : Bool :=
  match chkRun ix old new (some tmp) ⟨fs0, .pre⟩ tr with
  | some c => c.phase == .post
  | none => false

/-- `SafeCancelTrace`: a writer that never publishes a TOC (cancel, failing with-block, or a
    writer that died before the TOC). -/
def SafeCancelTrace (ix : Name) (old : Toc) (fs0 : FS) (tr : List Event) : Bool :=
  (chkRun ix old old none ⟨fs0, .pre⟩ tr).isSome

/-- has the TOC rename happened in this trace? -/
def renamed : List Event → Bool
  | [] => false
  | .rename _ _ :: _ => true
  | _ :: es => renamed es

/-- events after the first rename. -/
def afterRename : List Event → List Event
  | [] => []
  | .rename _ _ :: es => es
  | _ :: es => afterRename es

/-- events up to and including the first rename. -/
def uptoRename : List Event → List Event
  | [] => []
  | .rename a b :: _ => [.rename a b]
  | e :: es => e :: uptoRename es

def isCreate : Event → Bool
  | .create _ => true
  | _ => false

def isRename : Event → Bool
  | .rename _ _ => true
  | _ => false

/-- `CleansOrphans`: after the rename the writer deletes everything `clean_files` computes from the
    directory listing taken right after the rename, and creates / renames nothing any more. -/
def CleansOrphans (ix : Name) (new : Toc) (fs0 : FS) (tr : List Event) : Bool :=
  let fsR := run fs0 (uptoRename tr)
  let post := afterRename tr
  renamed tr
    && (cleanFiles ix new.gen new.sids fsR.listing).all (fun n => post.contains (.delete n))
    && !(post.any isCreate) && !(post.any isRename)

/-- The state a writer may start from: the newest TOC is `old`, complete and readable; nothing is
    open; the name/inode tables are well formed. -/
structure Consistent (ix : Name) (old : Toc) (fs : FS) : Prop where
  toc : readToc ix fs = .ok old
  readable : readable fs old = true
  noWriting : ∀ i, (fs.data i).st ≠ .writing
  support : ∀ n, (fs.dir n).isSome → n ∈ fs.names
  range : ∀ n i, fs.dir n = some i → i < fs.next
  inj : ∀ a b i, fs.dir a = some i → fs.dir b = some i → a = b

end WM.FS
