/-
Layer M: `whoosh/searching.py` `Results` as a value — the hit list `top_n` (score, docnum), the
set of matched documents `docs()` (kept as a duplicate-free list) and the total `len(results)` —
and the methods that combine two result objects.
-/
namespace WM.Results

structure Res where
  /-- `top_n`: `(score, docnum)` in rank order -/
  topN : List (Rat × Nat)
  /-- `docs()`: the matched documents -/
  docs : List Nat
  /-- `len(results)` (`_total`, or `collector.count()`) -/
  total : Nat
deriving Repr, DecidableEq

/-- set union as Python computes `docs | otherdocs` (order is not observable) -/
def union (a b : List Nat) : List Nat := a ++ b.filter fun d => !a.contains d

/-- `Results.extend(results)`: append the hits of `other` that are not matched documents of `self`;
    `docset = docs | other.docs()`, `_total = len(docset)`. -/
def extend (a b : Res) : Res :=
  let docs := union a.docs b.docs
  { topN := a.topN ++ b.topN.filter (fun it => !a.docs.contains it.2), docs := docs, total := docs.length }

/-- `Results.filter(results)` (after `fix: Results.filter with an empty other result set removes every
    hit` and `fix: Results.filter and upgrade_and_extend update the total`): keep the hits that are
    matched documents of `other`; `docset = docs & otherdocs`. -/
def filter (a b : Res) : Res :=
  let docs := a.docs.filter fun d => b.docs.contains d
  { topN := a.topN.filter (fun it => b.docs.contains it.2), docs := docs, total := docs.length }

/-- `Results.upgrade(results, reverse)`: `if not len(results): return`; hits that are also in `other`
    first (last when `reverse`), otherwise keeping their relative positions. -/
def upgrade (a b : Res) (reverse : Bool) : Res :=
  if b.total = 0 then a else
  let arein := a.topN.filter fun it => b.docs.contains it.2
  let notin := a.topN.filter fun it => !b.docs.contains it.2
  { a with topN := if reverse then notin ++ arein else arein ++ notin }

/-- `Results.upgrade_and_extend(results)`. -/
def upgradeAndExtend (a b : Res) : Res :=
  if b.total = 0 then a else
  let arein := a.topN.filter fun it => b.docs.contains it.2
  let notin := a.topN.filter fun it => !b.docs.contains it.2
  let other := b.topN.filter fun it => !a.docs.contains it.2
  let docs := union a.docs b.docs
  { topN := arein ++ notin ++ other, docs := docs, total := docs.length }

end WM.Results
