/-
Layer M for C10: executable mirror of the posting codec of `whoosh/codec/whoosh3.py`
(`W3PostingsWriter`, `W3LeafMatcher`, `W3TermInfo`), `whoosh/util/numlists.py`
(`delta_encode/delta_decode`), `whoosh/util/numeric.py` (`length_to_byte/byte_to_length`) and the
inlined-postings path through `whoosh/matching/mcore.py` `ListMatcher`.

Trusted identity parameters (not modelled): `pickle.dumps/loads`, `zlib.compress/decompress`,
`struct`.  Consequently a posting file is a *list of block records* (the pickled info tuple, the
pickled data tuple and the sign of the block length), and the byte offsets `_nextoffset`,
`_dataoffset` become indices into that list.  `array("f")` (float32 storage of weights) is the
parameter `f32 : Rat → Rat`; nothing is assumed about it.

Ids are generic: document numbers (`Int`, delta coded, range checked by `array("I")`) for term
postings, term texts (`String`, stored as they are) for vector postings (`byteids=True`).
-/
namespace WM.Codec
set_option linter.unusedVariables false

abbrev Bytes := List Nat

/-- Python exceptions raised at modelled sites. -/
inductive Err where
  | indexError      -- `seq[i]` out of range (also: reading past the end of the file)
  | typeError       -- `min(int, None)`, `None[i]`
  | overflowError   -- `array("I").append` out of range
  | readTooFar      -- `ReadTooFar`
  | noNextBlock     -- `Exception("No next block")`
  | blockTag        -- `Exception("Block tag error")`
  deriving DecidableEq, Repr, Inhabited

def Err.name : Err → String
  | .indexError => "IndexError"
  | .typeError => "TypeError"
  | .overflowError => "OverflowError"
  | .readTooFar => "ReadTooFar"
  | .noNextBlock => "NoNextBlock"
  | .blockTag => "BlockTag"

/-! ### `util/numlists.py`: delta coding -/

/-- `delta_encode(nums)` with running `base`. -/
def deltaEncodeAux (base : Int) : List Int → List Int
  | [] => []
  | n :: ns => (n - base) :: deltaEncodeAux n ns

/-- `numlists.delta_encode`. -/
def deltaEncode (ns : List Int) : List Int := deltaEncodeAux 0 ns

/-- `delta_decode(nums)` with running `base`. -/
def deltaDecodeAux (base : Int) : List Int → List Int
  | [] => []
  | n :: ns => (base + n) :: deltaDecodeAux (base + n) ns

/-- `numlists.delta_decode`. -/
def deltaDecode (ns : List Int) : List Int := deltaDecodeAux 0 ns

/-! ### `util/numeric.py`: length bytes -/

/-- `numeric._length_byte_cache` (256 entries; compared with the live module on every run). -/
def lengthByteCache : List Nat := [
  0, 1, 2, 3, 4, 5, 6, 7, 8, 9, 10, 12, 13, 14, 16, 17, 18, 20, 21, 23, 25, 26, 28, 30, 32, 34,
  36, 38, 40, 42, 45, 47, 49, 52, 54, 57, 60, 63, 66, 69, 72, 75, 79, 82, 86, 89, 93, 97, 101,
  106, 110, 114, 119, 124, 129, 134, 139, 145, 150, 156, 162, 169, 175, 182, 189, 196, 203, 211,
  219, 227, 235, 244, 253, 262, 271, 281, 291, 302, 313, 324, 336, 348, 360, 373, 386, 399, 414,
  428, 443, 459, 475, 491, 508, 526, 544, 563, 583, 603, 623, 645, 667, 690, 714, 738, 763, 789,
  816, 844, 873, 903, 933, 965, 998, 1032, 1066, 1103, 1140, 1178, 1218, 1259, 1302, 1345, 1391,
  1438, 1486, 1536, 1587, 1641, 1696, 1753, 1811, 1872, 1935, 1999, 2066, 2135, 2207, 2280, 2356,
  2435, 2516, 2600, 2687, 2777, 2869, 2965, 3063, 3165, 3271, 3380, 3492, 3608, 3728, 3852, 3980,
  4112, 4249, 4390, 4536, 4686, 4842, 5002, 5168, 5340, 5517, 5700, 5889, 6084, 6286, 6494, 6709,
  6932, 7161, 7398, 7643, 7897, 8158, 8428, 8707, 8995, 9293, 9601, 9918, 10247, 10586, 10936,
  11298, 11671, 12057, 12456, 12868, 13294, 13733, 14187, 14656, 15141, 15641, 16159, 16693,
  17244, 17814, 18403, 19011, 19640, 20289, 20959, 21652, 22367, 23106, 23869, 24658, 25472,
  26314, 27183, 28081, 29009, 29967, 30957, 31979, 33035, 34126, 35254, 36418, 37620, 38863,
  40146, 41472, 42841, 44256, 45717, 47227, 48786, 50397, 52061, 53780, 55556, 57390, 59285,
  61242, 63264, 65352, 67510, 69739, 72041, 74419, 76876, 79414, 82035, 84743, 87541, 90430,
  93416, 96499, 99684, 102975, 106374]

/-- `numeric.length_to_byte`: `None → 0`, `≥ 106374 → 255`, else `bisect_left(cache, length)`.
    `bisect_left` on a sorted list is the number of entries strictly below the key (stdlib
    `bisect` is trusted), which is how it is written here. -/
def lengthToByte : Option Nat → Nat
  | none => 0
  | some l => if l ≥ 106374 then 255 else lengthByteCache.countP (· < l)

/-- `numeric.byte_to_length = _length_byte_cache.__getitem__` (IndexError outside the table). -/
def byteToLength (b : Nat) : Option Nat := lengthByteCache[b]?

/-! ### Id kinds -/

/-- How a posting writer/reader treats ids: `valid` is the type/range check on `append`
    (`array("I")` for document numbers), `mini/unmini` are `_mini_ids` / `_read_ids`,
    `lt` is Python `<` on ids. -/
structure IdKind (ι μ : Type) where
  valid : ι → Bool
  mini : List ι → μ
  unmini : μ → List ι
  lt : ι → ι → Bool

/-- `byteids=False`: ids live in `array("I")` and are delta coded. -/
def docIds : IdKind Int (List Int) where
  valid i := decide (0 ≤ i) && decide (i < 4294967296)
  mini := deltaEncode
  unmini := deltaDecode
  lt a b := decide (a < b)

/-- `byteids=True` (vector postings): ids are term texts kept in a plain list. -/
def termIds : IdKind String (List String) where
  valid _ := true
  mini := id
  unmini := id
  lt a b := decide (a < b)

/-! ### Writer: `W3PostingsWriter` -/

/-- One `add_posting(id_, weight, vbytes, length)` call. -/
structure Posting (ι : Type) where
  id : ι
  weight : Rat
  value : Bytes
  length : Option Nat
  deriving Repr

/-- Codec and format parameters: `W3Codec(blocklimit, compression, inlinelimit)`,
    `Format.fixed_value_size()` (`none` when `posting_size < 0`). -/
structure Cfg (ι μ : Type) where
  ids : IdKind ι μ
  f32 : Rat → Rat
  blocklimit : Nat
  compression : Nat
  inlinelimit : Nat
  fixedsize : Option Nat

/-- The block buffer reset by `W3PostingsWriter._new_block`. -/
structure Buf (ι : Type) where
  ids : List ι := []
  weights : List Rat := []
  values : List Bytes := []
  minlength : Option Nat := none
  maxlength : Nat := 0
  maxweight : Rat := 0
  deriving Repr

/-- `_mini_weights` result. -/
inductive MiniW where
  | allOnes
  | const (w : Rat)
  | each (ws : List Rat)
  deriving Repr, DecidableEq

/-- `_mini_values` result. -/
inductive MiniV where
  | tuple (vs : List Bytes)
  | none
  | joined (bs : Bytes)
  deriving Repr, DecidableEq

/-- The pickled block info tuple `(len(ids), ids[-1], maxweight, comp, minlen byte, maxlen byte)`. -/
structure BlockInfo (ι : Type) where
  count : Nat
  lastId : ι
  maxWeight : Rat
  comp : Nat
  minLenByte : Nat
  maxLenByte : Nat
  deriving Repr

/-- One block as it lies in the posting file: sign of the length prefix, info tuple, data tuple. -/
structure DiskBlock (ι μ : Type) where
  last : Bool
  info : BlockInfo ι
  mids : μ
  mw : MiniW
  mv : MiniV
  deriving Repr

/-- `W3TermInfo` (statistics of `reading.TermInfo` plus extent / inlined postings).  `extent` is
    the number of blocks written (the byte extent is a function of pickle lengths).  Python starts
    `_maxid` at `0`; it is overwritten by the first `add_block` and never read before. -/
structure TermInfo (ι : Type) where
  weight : Rat := 0
  df : Nat := 0
  minlength : Option Nat := none
  maxlength : Nat := 0
  maxweight : Rat := 0
  minid : Option ι := none
  maxid : Option ι := none
  extent : Option Nat := none
  inlined : Option (List ι × List Rat × List Bytes) := none
  deriving Repr

/-- Writer state between `start_postings` and `finish_postings`. -/
structure WState (ι μ : Type) where
  blockcount : Nat := 0
  buf : Buf ι := {}
  terminfo : TermInfo ι := {}
  out : List (DiskBlock ι μ) := []

variable {ι μ : Type}

/-- Python truthiness of the `length` argument (`if length:`). -/
def truthy : Option Nat → Bool
  | some (_ + 1) => true
  | _ => false

/-- `if length: if minlength is None or length < minlength: self._minlength = length`. -/
def minStep (acc : Option Nat) : Option Nat → Option Nat
  | some (l + 1) =>
    (match acc with
     | none => some (l + 1)
     | some m => if l + 1 < m then some (l + 1) else some m)
  | _ => acc

/-- `if length: if length > self._maxlength: self._maxlength = length`. -/
def maxStep (acc : Nat) : Option Nat → Nat
  | some (l + 1) => if l + 1 > acc then l + 1 else acc
  | _ => acc

/-- `if weight > self._maxweight: self._maxweight = weight`. -/
def wStep (acc w : Rat) : Rat := if w > acc then w else acc

/-- The buffer part of `W3PostingsWriter.add_posting` (after the block-limit check). -/
def Buf.add (c : Cfg ι μ) (b : Buf ι) (p : Posting ι) : Except Err (Buf ι) :=
  if !c.ids.valid p.id then .error .overflowError else
  .ok { ids := b.ids ++ [p.id]
        weights := b.weights ++ [c.f32 p.weight]
        values := if p.value.isEmpty then b.values else b.values ++ [p.value]
        minlength := minStep b.minlength p.length
        maxlength := maxStep b.maxlength p.length
        -- with the repair `fix: block max weight is not float32-rounded`: the weight as stored
        maxweight := wStep b.maxweight (c.f32 p.weight) }

/-- `W3TermInfo.add_block(block)`. -/
def TermInfo.addBlock (t : TermInfo ι) (b : Buf ι) : Except Err (TermInfo ι) :=
  match t.minlength, b.minlength with
  | some _, none => .error .typeError          -- `min(self._minlength, None)`
  | tm, bm =>
    let ml := match tm, bm with
      | some m, some l => some (min m l)
      | _, l => l
    match b.ids.head?, b.ids.getLast? with
    | some first, some last =>
      .ok { t with
            weight := t.weight + b.weights.foldl (· + ·) 0
            df := t.df + b.ids.length
            minlength := ml
            maxlength := max t.maxlength b.maxlength
            maxweight := wStep t.maxweight b.maxweight   -- Python `max(a, b)` is `b if b > a else a`
            minid := match t.minid with | none => some first | some x => some x
            maxid := some last }
    | _, _ => .error .indexError                -- `self._ids[0]` on an empty block

/-- `_mini_weights`. -/
def miniWeights (ws : List Rat) : MiniW :=
  if ws.all (· == 1) then .allOnes
  else match ws with
    | [] => .allOnes
    | w :: _ => if ws.all (· == w) then .const w else .each ws

/-- `_mini_values`. -/
def miniValues (fixedsize : Option Nat) (vs : List Bytes) : MiniV :=
  match fixedsize with
  | none => .tuple vs
  | some 0 => .none
  | some _ => .joined vs.flatten

/-- `W3PostingsWriter._write_block(last)`. -/
def writeBlock (c : Cfg ι μ) (st : WState ι μ) (last : Bool) : Except Err (WState ι μ) :=
  match st.terminfo.addBlock st.buf with
  | .error e => .error e
  | .ok ti =>
    match st.buf.ids.getLast? with
    | none => .error .indexError
    | some lastId =>
      let blk : DiskBlock ι μ :=
        { last := last
          info := { count := st.buf.ids.length, lastId := lastId, maxWeight := st.buf.maxweight
                    comp := c.compression
                    minLenByte := lengthToByte st.buf.minlength
                    maxLenByte := lengthToByte (some st.buf.maxlength) }
          mids := c.ids.mini st.buf.ids
          mw := miniWeights st.buf.weights
          mv := miniValues c.fixedsize st.buf.values }
      .ok { blockcount := st.blockcount + 1, buf := {}, terminfo := ti, out := st.out ++ [blk] }

/-- `W3PostingsWriter.add_posting`. -/
def addPosting (c : Cfg ι μ) (st : WState ι μ) (p : Posting ι) : Except Err (WState ι μ) :=
  match (if st.buf.ids.length ≥ c.blocklimit then writeBlock c st false else .ok st) with
  | .error e => .error e
  | .ok st =>
    match st.buf.add c p with
    | .error e => .error e
    | .ok buf => .ok { st with buf := buf }

/-- `W3PostingsWriter.finish_postings` (with the `set_inlined` spelling repaired). -/
def finishPostings (c : Cfg ι μ) (st : WState ι μ) :
    Except Err (List (DiskBlock ι μ) × TermInfo ι) :=
  if st.blockcount == 0 && decide (st.buf.ids.length < c.inlinelimit) then
    match st.terminfo.addBlock st.buf with
    | .error e => .error e
    | .ok ti => .ok (st.out, { ti with inlined := some (st.buf.ids, st.buf.weights, st.buf.values) })
  else
    match (if !st.buf.ids.isEmpty then writeBlock c st true else .ok st) with
    | .error e => .error e
    | .ok st => .ok (st.out, { st.terminfo with extent := some st.out.length })

/-- All `add_posting` calls of one term. -/
def addAll (c : Cfg ι μ) : WState ι μ → List (Posting ι) → Except Err (WState ι μ)
  | st, [] => .ok st
  | st, p :: ps =>
    match addPosting c st p with
    | .error e => .error e
    | .ok st' => addAll c st' ps

/-- `start_postings; add_posting*; finish_postings` for one term. -/
def writeTerm (c : Cfg ι μ) (ps : List (Posting ι)) :
    Except Err (List (DiskBlock ι μ) × TermInfo ι) :=
  match addAll c {} ps with
  | .error e => .error e
  | .ok st => finishPostings c st

/-! ### Reader: `W3LeafMatcher` -/

/-- `_read_ids`. -/
def readIds (k : IdKind ι μ) (b : DiskBlock ι μ) : List ι := k.unmini b.mids

/-- `_read_weights`. -/
def readWeights (b : DiskBlock ι μ) : List Rat :=
  match b.mw with
  | .allOnes => List.replicate b.info.count 1
  | .const w => List.replicate b.info.count w
  | .each ws => ws

/-- `tuple(vs[i:i + fixedsize] for i in xrange(0, len(vs), fixedsize))`. -/
def chunks (k : Nat) (bs : Bytes) : List Bytes :=
  if h : k = 0 ∨ bs = [] then [] else bs.take k :: chunks k (bs.drop k)
termination_by bs.length
decreasing_by
  have h1 : k ≠ 0 := fun e => h (Or.inl e)
  have h2 : bs ≠ [] := fun e => h (Or.inr e)
  have : bs.length ≠ 0 := fun e => h2 (List.eq_nil_of_length_eq_zero e)
  simp only [List.length_drop]; omega

/-- `_read_values`: a value is `None` (`none`) for fixed size 0.  The reader trusts that the data
    tuple has the shape its own format implies; another shape is a `TypeError`/assertion. -/
def readValues (fixedsize : Option Nat) (b : DiskBlock ι μ) : Except Err (List (Option Bytes)) :=
  match fixedsize, b.mv with
  | none, .tuple vs => .ok (vs.map some)
  | some 0, _ => .ok (List.replicate b.info.count none)
  | some (k + 1), .joined bs => .ok ((chunks (k + 1) bs).map some)
  | _, _ => .error .typeError

/-- The cursor state of `W3LeafMatcher` (lazy loading of `_data/_ids/_weights/_values` has no
    observable effect and is left out: they are functions of the current block). -/
structure Leaf (ι μ : Type) where
  blocks : List (DiskBlock ι μ)
  pos : Nat
  cur : DiskBlock ι μ
  i : Nat
  lastblock : Bool
  atend : Bool

/-- `_goto(position)` once the block record at that position has been read. -/
def Leaf.enter (m : Leaf ι μ) (p : Nat) (b : DiskBlock ι μ) : Leaf ι μ :=
  { m with pos := p, cur := b, i := 0, lastblock := m.lastblock || b.last }

/-- `__init__` + `reset()`: check the magic, read the first block.  An extent of zero blocks has no
    magic (it is written with the first block), so `_read_header` fails. -/
def Leaf.open (blocks : List (DiskBlock ι μ)) : Except Err (Leaf ι μ) :=
  match blocks with
  | [] => .error .blockTag
  | b :: _ => .ok { blocks := blocks, pos := 0, cur := b, i := 0, lastblock := b.last, atend := false }

/-- `is_active`. -/
def Leaf.isActive (m : Leaf ι μ) : Bool := !m.atend && decide (m.i < m.cur.info.count)

/-- `_next_block`. -/
def Leaf.nextBlock (m : Leaf ι μ) : Except Err (Leaf ι μ) :=
  if m.atend then .error .noNextBlock
  else if m.lastblock then .ok { m with atend := true }
  else match m.blocks[m.pos + 1]? with
    | none => .error .indexError
    | some b => .ok (m.enter (m.pos + 1) b)

/-- `id()`. -/
def Leaf.id (k : IdKind ι μ) (m : Leaf ι μ) : Except Err ι :=
  match (readIds k m.cur)[m.i]? with
  | some x => .ok x
  | none => .error .indexError

/-- `weight()`. -/
def Leaf.weight (m : Leaf ι μ) : Except Err Rat :=
  match (readWeights m.cur)[m.i]? with
  | some x => .ok x
  | none => .error .indexError

/-- `value()`. -/
def Leaf.value (fixedsize : Option Nat) (m : Leaf ι μ) : Except Err (Option Bytes) :=
  match readValues fixedsize m.cur with
  | .error e => .error e
  | .ok vs => match vs[m.i]? with
    | some x => .ok x
    | none => .error .indexError

/-- `next()`: the Boolean is the return value ("entered a new block"). -/
def Leaf.next (m : Leaf ι μ) : Except Err (Leaf ι μ × Bool) :=
  let m1 := { m with i := m.i + 1 }
  if m1.i = m1.cur.info.count then
    match m1.nextBlock with
    | .error e => .error e
    | .ok m2 => .ok (m2, true)
  else .ok (m1, false)

/-- The state `next()` leaves behind when it raises: `self._i += 1` has already happened (reachable
    by calling `next()` on a cursor that `skip_to` moved past the last block). -/
def Leaf.nextRaised (m : Leaf ι μ) : Leaf ι μ := { m with i := m.i + 1 }

theorem Leaf.nextBlock_measure {m m' : Leaf ι μ} (h : m.nextBlock = .ok m') (ha : m'.atend = false) :
    m'.blocks.length - m'.pos < m.blocks.length - m.pos := by
  unfold Leaf.nextBlock at h
  split at h
  · cases h
  · split at h
    · cases h; simp at ha
    · split at h
      · cases h
      · next b hb =>
        cases h
        have := (List.getElem?_eq_some_iff.mp hb).1
        simp only [Leaf.enter]; omega

/-- `_skip_to_block(skipwhile)`; returns the number of blocks skipped. -/
def Leaf.skipToBlock (cond : Leaf ι μ → Bool) (m : Leaf ι μ) : Except Err (Leaf ι μ × Nat) :=
  if m.isActive && cond m then
    match h : m.nextBlock with
    | .error e => .error e
    | .ok m' =>
      if ha : m'.atend then .ok (m', 1)
      else
        match Leaf.skipToBlock cond m' with
        | .error e => .error e
        | .ok (m'', n) => .ok (m'', n + 1)
  else .ok (m, 0)
termination_by m.blocks.length - m.pos
decreasing_by exact Leaf.nextBlock_measure h (by simpa using ha)

theorem Leaf.next_measure {m m' : Leaf ι μ} {b : Bool} (h : m.next = .ok (m', b))
    (hact : m.isActive = true) (ha : m'.atend = false) :
    Prod.Lex (· < ·) (· < ·) (m'.blocks.length - m'.pos, m'.cur.info.count - m'.i)
      (m.blocks.length - m.pos, m.cur.info.count - m.i) := by
  unfold Leaf.next at h
  simp only at h
  split at h
  · next heq =>
    split at h
    · cases h
    · next m2 h2 =>
      cases h
      left
      have := Leaf.nextBlock_measure h2 ha
      simpa using this
  · next hne =>
    cases h
    right
    simp only [Leaf.isActive, Bool.and_eq_true, decide_eq_true_eq] at hact
    simp only at hne ⊢
    omega

/-- The tail loop of `skip_to`: `while self.is_active() and self.id() < targetid: self.next()`. -/
def Leaf.scanTo (k : IdKind ι μ) (target : ι) (m : Leaf ι μ) : Except Err (Leaf ι μ) :=
  if hact : m.isActive then
    match m.id k with
    | .error e => .error e
    | .ok x =>
      if k.lt x target then
        match h : m.next with
        | .error e => .error e
        | .ok (m', _) =>
          if ha : m'.atend then .ok m' else Leaf.scanTo k target m'
      else .ok m
  else .ok m
termination_by (m.blocks.length - m.pos, m.cur.info.count - m.i)
decreasing_by exact Leaf.next_measure h hact (by simpa using ha)

/-- `block_max_id()`. -/
def Leaf.blockMaxId (m : Leaf ι μ) : ι := m.cur.info.lastId

/-- `skip_to(targetid)` (`targetid <= id` is `not (id < targetid)` on the totally ordered ids). -/
def Leaf.skipTo (k : IdKind ι μ) (target : ι) (m : Leaf ι μ) : Except Err (Leaf ι μ) :=
  if !m.isActive then .error .readTooFar else
  match m.id k with
  | .error e => .error e
  | .ok x =>
    if !k.lt x target then .ok m else
    match (if k.lt m.blockMaxId target then
             (Leaf.skipToBlock (fun m => k.lt m.blockMaxId target) m).map Prod.fst
           else .ok m) with
    | .error e => .error e
    | .ok m1 => Leaf.scanTo k target m1

/-- `skip_to_quality(minquality)` for an arbitrary block-quality function (the scorer's
    `block_quality(matcher)` reads only the block header). -/
def Leaf.skipToQuality (quality : BlockInfo ι → Rat) (minq : Rat) (m : Leaf ι μ) :
    Except Err (Leaf ι μ × Nat) :=
  if quality m.cur.info > minq then .ok (m, 0)
  else Leaf.skipToBlock (fun m => decide (quality m.cur.info ≤ minq)) m

/-! ### `W3TermInfo.to_bytes / from_bytes` (document-number ids only) -/

/-- `to_bytes`: `minlength = 0 if self._minlength is None else length_to_byte(self._minlength)`. -/
def minLenByte : Option Nat → Nat
  | none => 0
  | some l => lengthToByte (some l)

/-- `from_bytes`: `None if vals[i] == 0xffffffff else vals[i]` (ids are stored as unsigned ints,
    `None` as the sentinel). -/
def unNoId : Option Int → Option Int
  | some 4294967295 => none
  | other => other

/-- What `W3TermInfo.from_bytes(ti.to_bytes())` yields for the statistics: weights through
    `struct "f"`, lengths through the length byte (`None → 0`), ids through the `0xffffffff`
    sentinel; extent and inlined postings are carried by pickle/struct unchanged. -/
def TermInfo.throughBytes (f32 : Rat → Rat) (t : TermInfo Int) : Except Err (TermInfo Int) :=
  match byteToLength (minLenByte t.minlength), byteToLength (lengthToByte (some t.maxlength)) with
  | some mn, some mx =>
    .ok { t with
          weight := f32 t.weight
          minlength := some mn
          maxlength := mx
          maxweight := f32 t.maxweight
          minid := unNoId t.minid
          maxid := unNoId t.maxid }
  | _, _ => .error .indexError

/-! ### Inlined postings: `ListMatcher(ids, weights, values)` as built by `postings_reader` -/

/-- `ListMatcher.value()` on the inlined tuple: `''` when the value tuple is empty. -/
def inlinedValue (values : List Bytes) (i : Nat) : Except Err Bytes :=
  if values.isEmpty then .ok [] else
  match values[i]? with
  | some v => .ok v
  | none => .error .indexError

/-- `ListMatcher.weight()`: `self._weights[self._i]` when the weight tuple is non-empty, else `1.0`
    (`_all_weights` is not set by `postings_reader`). -/
def inlinedWeight (weights : List Rat) (i : Nat) : Except Err Rat :=
  if weights.isEmpty then .ok 1 else
  match weights[i]? with
  | some w => .ok w
  | none => .error .indexError

/-- Reading a `ListMatcher` over the inlined tuple to the end:
    `while m.is_active(): (m.id(), m.weight(), m.value()); m.next()` — `is_active` is
    `i < len(ids)` and `id()` is `ids[i]`, so the loop runs over the id tuple with a counter. -/
def inlinedReadFrom {ι : Type} (weights : List Rat) (values : List Bytes) :
    Nat → List ι → Except Err (List (ι × Rat × Bytes))
  | _, [] => .ok []
  | i, x :: rest =>
    match inlinedWeight weights i, inlinedValue values i, inlinedReadFrom weights values (i + 1) rest with
    | .ok w, .ok v, .ok r => .ok ((x, w, v) :: r)
    | .error e, _, _ => .error e
    | _, .error e, _ => .error e
    | _, _, .error e => .error e

/-- `postings_reader` on an inlined term info, read to the end. -/
def inlinedRead {ι : Type} (ids : List ι) (weights : List Rat) (values : List Bytes) :
    Except Err (List (ι × Rat × Bytes)) :=
  inlinedReadFrom weights values 0 ids

end WM.Codec
