/-
Mirror of `whoosh/filedb/compound.py`: `CompoundStorage.assemble` / `write_dir` (layout of the
compound file: 12 header bytes, the member files back to back, the pickled directory),
`CompoundStorage.range/open_file` (a member is the byte slice `[offset, offset+length)` — through
mmap, `StructFile.subset` or `SubFile` alike), and `CompoundWriter` with its `SubStream`s
(`create_file`, `SubStream.write/close`, `_readback`, `save_as_compound`).
The pickled directory itself (a `dict`) is kept as an association list; `pickle` is trusted.
-/
namespace WM.Compound

abbrev Bytes := List Nat

structure Entry where
  name : String
  offset : Nat
  length : Nat
  deriving Repr, DecidableEq

/-- `write_long(0); write_int(0)` placeholders later overwritten with directory position/length -/
def headerSize : Nat := 12

/-- the copy loop of `assemble` (`offset = dbfile.tell(); copyfileobj(f, dbfile)`): `pos` is
    `dbfile.tell()`. -/
def copyFiles : Nat → List (String × Bytes) → Bytes × List Entry
  | _, [] => ([], [])
  | pos, (name, data) :: rest =>
    let (body, dir) := copyFiles (pos + data.length) rest
    (data ++ body, ⟨name, pos, data.length⟩ :: dir)

/-- `CompoundStorage.assemble(dbfile, store, names)` with `dbfile.tell() = basepos` at the start
    (`before` = the bytes already in the file): the bytes up to the directory, the directory
    (later entries for a repeated name replace earlier ones, as in the `dict`), and `dirpos`. -/
def assemble (before : Bytes) (files : List (String × Bytes)) : Bytes × List Entry × Nat :=
  let basepos := before.length
  let (body, dir) := copyFiles (basepos + headerSize) files
  (before ++ List.replicate headerSize 0 ++ body, dir, basepos + headerSize + body.length)

/-- `self._dir[name]` of a `dict` built by successive assignment: the last entry wins. -/
def lookup (dir : List Entry) (name : String) : Option Entry :=
  (dir.reverse.find? (·.name == name))

/-- `CompoundStorage.open_file(name).read()`; an unknown name is `NameError`. -/
def openFile (blob : Bytes) (dir : List Entry) (name : String) : Option Bytes :=
  (lookup dir name).map fun e => (blob.drop e.offset).take e.length

/-! ### CompoundWriter -/

inductive Block where
  | temp (offset length : Nat)   -- `(None, offset, length)`: bytes in the shared temp file
  | buf (length : Nat)           -- `(bio, 0, length)`: the stream's own buffer, added by `close`
  deriving Repr

structure SubStream where
  buffer : Bytes
  blocks : List Block
  deriving Repr

structure Writer where
  buffersize : Int
  temp : Bytes
  streams : List (String × SubStream)
  deriving Repr

/-- `CompoundWriter.create_file(name)` (a repeated name replaces the stream, as the `dict` does;
    its position in the iteration order stays). -/
def Writer.createFile (w : Writer) (name : String) : Writer :=
  if w.streams.any (·.1 == name) then
    { w with streams := w.streams.map fun p => if p.1 == name then (name, ⟨[], []⟩) else p }
  else { w with streams := w.streams ++ [(name, ⟨[], []⟩)] }

/-- `SubStream.write(inbytes)` on the stream called `name`. -/
def Writer.write (w : Writer) (name : String) (inbytes : Bytes) : Writer :=
  match w.streams.find? (·.1 == name) with
  | none => w
  | some (_, ss) =>
    let buflen := ss.buffer.length
    let length := buflen + inbytes.length
    if (length : Int) ≥ w.buffersize then
      let offset := w.temp.length
      let ss' : SubStream := ⟨[], ss.blocks ++ [Block.temp offset length]⟩
      { w with temp := w.temp ++ ss.buffer ++ inbytes,
               streams := w.streams.map fun p => if p.1 == name then (name, ss') else p }
    else
      let ss' : SubStream := ⟨ss.buffer ++ inbytes, ss.blocks⟩
      { w with streams := w.streams.map fun p => if p.1 == name then (name, ss') else p }

/-- `SubStream.close()`. -/
def SubStream.close (ss : SubStream) : SubStream :=
  if ss.buffer.length > 0 then { ss with blocks := ss.blocks ++ [Block.buf ss.buffer.length] } else ss

/-- `f.seek(offset); f.read(length)` for one block (`f` = the temp file or the stream's buffer) -/
def blockBytes (temp buffer : Bytes) : Block → Bytes
  | .temp off len => (temp.drop off).take len
  | .buf len => buffer.take len

/-- the generator `gen()` of `_readback` for one closed stream -/
def readBlocks (temp : Bytes) (ss : SubStream) : Bytes :=
  ss.blocks.flatMap (blockBytes temp ss.buffer)

/-- `CompoundWriter._readback()`: `(name, bytes)` in creation order. -/
def Writer.readback (w : Writer) : List (String × Bytes) :=
  w.streams.map fun (name, ss) => (name, readBlocks w.temp ss.close)


/-! ### SubFile (the member view used when the compound file is not memory-mapped)

`SubFile(parentfile, offset, length)`: `_pos` is whatever `seek` last set (any integer). -/

structure SubFile where
  offset : Nat
  length : Nat
  pos : Int
  deriving Repr, DecidableEq

/-- `SubFile.read(size)` (`size = none` is `read()`): at most what is left of the member, `_pos`
    advanced by the size asked of the parent.  `none` = the parent's `seek` raises (negative
    position; only after a `seek` to before the member). -/
def SubFile.read (parent : Bytes) (s : SubFile) (size : Option Int) : Option (Bytes × SubFile) :=
  let avail : Int := (s.length : Int) - s.pos
  let sz : Int := match size with
    | none => avail
    | some n => min n avail
  let sz : Int := if sz < 0 then 0 else sz
  if sz > 0 then
    let start : Int := (s.offset : Int) + s.pos
    if start < 0 then none
    else some ((parent.drop start.toNat).take sz.toNat, { s with pos := s.pos + sz })
  else some ([], s)

/-- `SubFile.seek(where, whence)`: absolute, relative, or "from the end" — which this class computes
    as `length - where` (`io` files use `length + where`; the two agree for `where = 0`).  Another
    `whence` is `ValueError` (`none`). -/
def SubFile.seek (s : SubFile) (wh : Int) (whence : Nat) : Option SubFile :=
  match whence with
  | 0 => some { s with pos := wh }
  | 1 => some { s with pos := s.pos + wh }
  | 2 => some { s with pos := (s.length : Int) - wh }
  | _ => none

/-- `SubFile.tell()`. -/
def SubFile.tell (s : SubFile) : Int := s.pos

/-- `while True: chunk = f.read(n); if not chunk: break; out += chunk` (what `copyfileobj` and the
    buffered readers do); the fuel bounds the number of iterations (`length + 1` suffices). -/
def SubFile.readChunks (parent : Bytes) (n : Int) : SubFile → Nat → Option (Bytes × SubFile)
  | s, 0 => some ([], s)
  | s, fuel + 1 =>
    match s.read parent (some n) with
    | none => none
    | some (chunk, s') =>
      if chunk.isEmpty then some ([], s')
      else match SubFile.readChunks parent n s' fuel with
        | none => none
        | some (rest, s'') => some (chunk ++ rest, s'')

end WM.Compound
