/-
Layer M of C19: executable mirrors of the whoosh code behind fuzzy term matching and spelling
suggestions (as it stands after the `fix:` commits of the fuzzy family: prefix clamp in
`levenshtein_automaton`, `while match is not None` in `Automata.find_matches`, no edge after
U+10FFFF and no surrogate label in `DFA.find_next_edge`).

Characters are code points (`Nat`), strings are `List Nat`; Python's string order (code point
lexicographic, a proper prefix is smaller) is `lexLt`.  The stored terms are UTF-8 keys compared as
bytes: `utf8`, `cursorFindBytes`, `findMatchesBytes`; that this is the same order is proved
(`WM.Lev.utf8_lt_iff`).  Python sets / frozensets are lists compared with
`setEq` (mutual inclusion); dictionaries are association lists, the newest binding first.

* `support/levenshtein.py`  : `dp` (= `levenshtein` for `tr = false`, `damerau_levenshtein` for
  `tr = true`; the two Python functions differ only in the transposition block), `pyGet?`
* `automata/lev.py`         : `levenshteinAutomaton`
* `automata/fsa.py`         : `NFA` (`expand`, `start`, `nextState`, `isFinal`, `getLabels`, `accept`,
  `toDfa`), `DFA` (`nextState`, `isFinal`, `accept`, `findNextEdge`, `nextValidString`)
* `codec/base.py`           : `findMatches` (`Automata.find_matches`), `termsWithinSeg`
  (`Automata.terms_within` as called by `SegmentReader.terms_within`); over the byte-ordered
  dictionary: `findMatchesBytes`, `termsWithinSegBytes`
* `fields.py`, `codec/whoosh3.py` : `utf8Encode` (`FieldType.to_bytes`), `cursorFindBytes`
  (`W3FieldCursor.find` + `text`)
* `reading.py`              : `termsWithinBase` (`IndexReader.terms_within`, used by `MultiReader`)
* `spelling.py`             : `suggestions` (`ReaderCorrector._suggestions`), `suggest`
  (`Corrector.suggest`)
-/
namespace WM.Lev

/-! ## support/levenshtein.py -/

/-- Python `l[i]` for a list and a possibly negative index (wraps once around the end);
    `none` = IndexError. -/
def pyGet? (l : List Nat) (i : Int) : Option Nat :=
  if i < 0 then (if i.natAbs ≤ l.length then l[l.length - i.natAbs]? else none) else l[i.toNat]?

/-- Python `l[y] = v` (non-negative `y`); `none` = IndexError. -/
def pySet? (l : List Nat) (y : Nat) (v : Nat) : Option (List Nat) :=
  if y < l.length then some (l.set y v) else none

/-- Python `min(l)`; `none` = ValueError on the empty list. -/
def pyMin? : List Nat → Option Nat
  | [] => none
  | v :: vs => some (vs.foldl min v)

/-- Body of `for y in xrange(len(seq2))` of `levenshtein` / `damerau_levenshtein`
    (`tr` = the transposition block is present). -/
def dpCell (tr : Bool) (s1 s2 : List Nat) (x : Nat) (twoago oneago thisrow : List Nat) (y : Nat) :
    Option (List Nat) := do
  let delcost := (← pyGet? oneago y) + 1
  let addcost := (← pyGet? thisrow ((y : Int) - 1)) + 1
  let c1 ← s1[x]?
  let c2 ← s2[y]?
  let subcost := (← pyGet? oneago ((y : Int) - 1)) + (if c1 ≠ c2 then 1 else 0)
  let v := min delcost (min addcost subcost)
  if tr ∧ x > 0 ∧ y > 0 then
    -- `seq1[x] == seq2[y - 1] and seq1[x - 1] == seq2[y] and seq1[x] != seq2[y]`
    let c2p ← s2[y - 1]?
    let c1p ← s1[x - 1]?
    if c1 = c2p ∧ c1p = c2 ∧ c1 ≠ c2 then
      let t := (← pyGet? twoago ((y : Int) - 2)) + 1
      pySet? thisrow y (min v t)
    else pySet? thisrow y v
  else pySet? thisrow y v

/-- The inner loop: cells `y, y+1, …, y+n-1`. -/
def dpInner (tr : Bool) (s1 s2 : List Nat) (x : Nat) (twoago oneago : List Nat) :
    Nat → Nat → List Nat → Option (List Nat)
  | 0, _, thisrow => some thisrow
  | n + 1, y, thisrow => do
    let r ← dpCell tr s1 s2 x twoago oneago thisrow y
    dpInner tr s1 s2 x twoago oneago n (y + 1) r

/-- `if limit and x > limit and min(thisrow) > limit` (a limit of `None` or `0` is falsy). -/
def earlyExit (limit : Option Nat) (x : Nat) (thisrow : List Nat) : Option Bool :=
  match limit with
  | none => some false
  | some l =>
    if l ≠ 0 ∧ x > l then (pyMin? thisrow).map fun m => decide (m > l) else some false

/-- The outer loop `for x in xrange(len(seq1))`: `n` iterations are left, the Python variables
    `oneago`, `thisrow` hold the rows of the previous two iterations on entry. -/
def dpOuter (tr : Bool) (s1 s2 : List Nat) (limit : Option Nat) :
    Nat → Nat → List Nat → List Nat → Option Nat
  | 0, _, _, thisrow => pyGet? thisrow ((s2.length : Int) - 1)
  | n + 1, x, oneago, thisrow => do
    -- twoago, oneago, thisrow = oneago, thisrow, [0] * len(seq2) + [x + 1]
    let row ← dpInner tr s1 s2 x oneago thisrow s2.length 0 (List.replicate s2.length 0 ++ [x + 1])
    if (← earlyExit limit x row) then some (limit.getD 0 + 1)
    else dpOuter tr s1 s2 limit n (x + 1) thisrow row

/-- `levenshtein(seq1, seq2, limit)` (`tr = false`) / `damerau_levenshtein` (`tr = true`);
    `none` would be a Python exception (theorem `dp_lev`/`dp_osa`: there is none). -/
def dp (tr : Bool) (s1 s2 : List Nat) (limit : Option Nat) : Option Nat :=
  dpOuter tr s1 s2 limit s1.length 0 [] ((List.range s2.length).map (· + 1) ++ [0])

def levenshtein := dp false
def damerauLevenshtein := dp true
/-- `distance = damerau_levenshtein` -/
def distance := damerauLevenshtein

/-! ## automata/fsa.py - NFA -/

inductive Label where
  | chr (c : Nat)
  | any
  | eps
  deriving DecidableEq, Repr

/-- NFA states of the Levenshtein automaton: `(i, e)` = characters of the term consumed, errors. -/
abbrev St := Nat × Nat

/-- A state set (Python `set`/`frozenset`). -/
abbrev SSet := List St

def subset (a b : SSet) : Bool := a.all fun s => b.contains s
/-- Equality of frozensets. -/
def setEq (a b : SSet) : Bool := subset a b && subset b a

/-- `NFA`: `transitions[src][label]` is a set of destinations; here the set of all triples. -/
structure NFA where
  initial : St
  trans : List (St × Label × St)
  finals : List St

namespace NFA

/-- All states mentioned by the automaton (for termination measures only). -/
def states (n : NFA) : List St := n.initial :: n.trans.flatMap fun (s, _, t) => [s, t]

/-- `transitions[state][label]` (empty when absent). -/
def dests (n : NFA) (s : St) (l : Label) : List St :=
  n.trans.filterMap fun (a, l', t) => if a = s ∧ l' = l then some t else none

/-- Number of automaton states not yet in `seen` (termination measure of `_expand`). -/
def unseen (n : NFA) (seen : SSet) : Nat := (n.states.filter fun s => !seen.contains s).length

theorem filter_length_le {p q : St → Bool} (h : ∀ s, p s = true → q s = true) (l : List St) :
    (l.filter p).length ≤ (l.filter q).length := by
  induction l with
  | nil => simp
  | cons a l ih =>
    simp only [List.filter_cons]
    cases hp : p a <;> cases hq : q a <;> simp <;> first | omega | (have := h a hp; simp [hq] at this)

theorem filter_length_lt {p q : St → Bool} (h : ∀ s, p s = true → q s = true) (l : List St) (x : St)
    (hx : x ∈ l) (hq : q x = true) (hp : p x = false) :
    (l.filter p).length < (l.filter q).length := by
  induction l with
  | nil => cases hx
  | cons a l ih =>
    simp only [List.filter_cons]
    rcases List.mem_cons.mp hx with rfl | hx'
    · have := filter_length_le h l
      simp [hp, hq]; omega
    · have := ih hx'
      cases hpa : p a <;> cases hqa : q a <;> simp <;> first | omega | (have := h a hpa; simp [hqa] at this)

theorem unseen_lt (n : NFA) (seen new : SSet) (x : St) (hx : x ∈ new) (hs : x ∈ n.states)
    (hn : seen.contains x = false) : n.unseen (seen ++ new) < n.unseen seen := by
  unfold unseen
  apply filter_length_lt _ _ x hs
  · simpa using hn
  · simp [hx]
  · intro s; simp; intro h1 _; exact h1

theorem expand_dec (n : NFA) (acc : SSet) (s : St) :
    ((n.dests s .eps).filter fun t => !acc.contains t).eraseDups = [] ∨
    n.unseen (acc ++ ((n.dests s .eps).filter fun t => !acc.contains t).eraseDups) < n.unseen acc := by
  by_cases hnew : ((n.dests s .eps).filter fun t => !acc.contains t).eraseDups = []
  · exact Or.inl hnew
  · right
    obtain ⟨x, hx⟩ := List.exists_mem_of_ne_nil _ hnew
    have hx' : x ∈ (n.dests s .eps).filter fun t => !acc.contains t := by
      simpa using hx
    have h1 := List.mem_filter.mp hx'
    have hst : x ∈ n.states := by
      have := h1.1
      simp only [dests, List.mem_filterMap] at this
      obtain ⟨⟨a, l, t⟩, hm, hh⟩ := this
      split at hh
      · simp only [Option.some.injEq] at hh
        subst hh
        simp only [NFA.states, List.mem_cons, List.mem_flatMap]
        exact Or.inr ⟨(a, l, t), hm, by simp⟩
      · cases hh
    exact unseen_lt n acc _ x hx hst (by simpa using h1.2)

/-- `_expand(states)`: the loop `while frontier: state = frontier.pop(); …` (the popped element
    is the head of the list; the order of a Python set pop is arbitrary and does not influence
    the result).  Only destinations that are states of the automaton can be added, so the loop
    terminates. -/
def expandLoop (n : NFA) (frontier acc : SSet) : SSet :=
  match frontier with
  | [] => acc
  | s :: rest =>
    -- new_states = transitions[state][EPSILON].difference(states)
    let new := ((n.dests s .eps).filter fun t => !acc.contains t).eraseDups
    expandLoop n (rest ++ new) (acc ++ new)
termination_by (n.unseen acc, frontier.length)
decreasing_by
  rcases expand_dec n acc s with h | h
  · rw [h]
    simp only [List.append_nil]
    exact Prod.Lex.right _ (by simp)
  · exact Prod.Lex.left _ _ h

def expand (n : NFA) (states : SSet) : SSet := expandLoop n states states

/-- `NFA.start()` -/
def start (n : NFA) : SSet := n.expand [n.initial]

/-- `NFA.next_state(states, label)`: destinations under `label` and under `ANY`, expanded.  It is
    also called with `label = ANY` by `to_dfa`. -/
def nextState (n : NFA) (states : SSet) (l : Label) : SSet :=
  n.expand ((states.flatMap fun s => n.dests s l ++ n.dests s .any).eraseDups)

/-- `NFA.is_final(states)` -/
def isFinal (n : NFA) (states : SSet) : Bool := states.any fun s => n.finals.contains s

/-- `NFA.get_labels(states)` -/
def getLabels (n : NFA) (states : SSet) : List Label :=
  (n.trans.filterMap fun (a, l, _) => if states.contains a then some l else none).eraseDups

/-- `FSA.accept(string)` on an NFA (the `if not state: break` is a short cut: the empty set
    stays empty and is not final). -/
def accept (n : NFA) (u : List Nat) : Bool :=
  n.isFinal (u.foldl (fun s c => n.nextState s (.chr c)) n.start)

end NFA

/-! ## automata/lev.py -/

/-- `levenshtein_automaton(term, k, prefix)`.  `term.zipIdx` enumerates `(term[i], i)`; the two
    `for i in xrange(...)` loops are the two filters on `i` (after `prefix = min(prefix,
    len(term))` every `term[i]` is in range). -/
def levenshteinAutomaton (term : List Nat) (k pfx0 : Nat) : NFA :=
  let pfx := min pfx0 term.length
  let n := term.length
  let pre := term.zipIdx.flatMap fun (c, i) =>
    if i < pfx then [(((i, 0) : St), Label.chr c, ((i + 1, 0) : St))] else []
  let main := term.zipIdx.flatMap fun (c, i) =>
    if pfx ≤ i then
      (List.range (k + 1)).flatMap fun e =>
        -- correct character
        (((i, e) : St), Label.chr c, ((i + 1, e) : St)) ::
          (if e < k then
            [ ((i, e), Label.any, (i, e + 1)),       -- "deletion": an extra input character
              ((i, e), Label.eps, (i + 1, e + 1)),   -- "insertion": a term character is skipped
              ((i, e), Label.any, (i + 1, e + 1)) ]  -- substitution
           else [])
    else []
  let fin := (List.range (k + 1)).flatMap fun e =>
    if e < k then [(((n, e) : St), Label.any, ((n, e + 1) : St))] else []
  { initial := (0, 0), trans := pre ++ main ++ fin,
    finals := (List.range (k + 1)).map fun e => (n, e) }

/-! ## automata/fsa.py - DFA -/

/-- `DFA`: states are frozensets of NFA states. -/
structure DFA where
  initial : SSet
  /-- `transitions[src][label] = dest`, newest binding first -/
  trans : List (SSet × Nat × SSet)
  /-- `defaults[src] = dest`, newest binding first -/
  defaults : List (SSet × SSet)
  finals : List SSet

namespace DFA

def lookupTrans (d : DFA) (src : SSet) (c : Nat) : Option SSet :=
  (d.trans.find? fun (s, l, _) => setEq s src && l == c).map fun (_, _, t) => t

def lookupDefault (d : DFA) (src : SSet) : Option SSet :=
  (d.defaults.find? fun (s, _) => setEq s src).map fun (_, t) => t

/-- `DFA.next_state(src, label)`: `trans.get(label, self.defaults.get(src, None))` -/
def nextState (d : DFA) (src : Option SSet) (c : Nat) : Option SSet :=
  match src with
  | none => none
  | some s => match d.lookupTrans s c with
    | some t => some t
    | none => d.lookupDefault s

/-- `DFA.is_final(state)` (`None` is not in the set). -/
def isFinal (d : DFA) (s : Option SSet) : Bool :=
  match s with
  | none => false
  | some s => d.finals.any fun f => setEq f s

/-- Python truthiness of a state (`None` and the empty frozenset are falsy). -/
def truthy (s : Option SSet) : Bool :=
  match s with
  | none => false
  | some s => !s.isEmpty

/-- `FSA.accept(string)` on a DFA. -/
def accept (d : DFA) : Option SSet → List Nat → Bool
  | s, [] => d.isFinal s
  | s, c :: u =>
    let s' := d.nextState s c
    if truthy s' then accept d s' u else d.isFinal s'

/-- `sorted(trans)` of `find_next_edge`: the explicit out-labels of a state. -/
def outLabels (d : DFA) (src : SSet) : List Nat :=
  (d.trans.filterMap fun (s, l, _) => if setEq s src then some l else none)

end DFA

namespace NFA

/-- Body of `for label in labels:` of `to_dfa` for a label other than EPSILON:
    `new_state = self.next_state(current, label)`; `if new_state not in seen: …`;
    `set_default_transition` for ANY, `add_transition` otherwise. -/
def dfaStep (n : NFA) (current : SSet) (l : Label) (d : DFA) (frontier seen : List SSet) :
    DFA × List SSet × List SSet :=
  let new := n.nextState current l
  let isNew := !(seen.any fun s => setEq s new)
  let frontier' := if isNew then new :: frontier else frontier
  let seen' := if isNew then new :: seen else seen
  let d1 := if isNew && n.isFinal new then { d with finals := new :: d.finals } else d
  let d2 := match l with
    | .any => { d1 with defaults := (current, new) :: d1.defaults }
    | .chr c => { d1 with trans := (current, c, new) :: d1.trans }
    | .eps => d1
  (d2, frontier', seen')

/-- One iteration body of `to_dfa`: process the labels of `current`
    (`if label is EPSILON: continue`). -/
def dfaLabels (n : NFA) (current : SSet) :
    List Label → DFA → List SSet → List SSet → DFA × List SSet × List SSet
  | [], d, frontier, seen => (d, frontier, seen)
  | .eps :: ls, d, frontier, seen => dfaLabels n current ls d frontier seen
  | l :: ls, d, frontier, seen =>
    let r := dfaStep n current l d frontier seen
    dfaLabels n current ls r.1 r.2.1 r.2.2

/-- The loop `while frontier:` of `to_dfa` (`frontier.pop()` takes the head).  The loop ends
    because there are finitely many subsets of NFA states; that argument is not reproduced here,
    the model carries a fuel of `2 ^ |states| + 1` pops instead (`none` = fuel exhausted, which
    no run of the check has ever produced). -/
def dfaLoop (n : NFA) : Nat → DFA → List SSet → List SSet → Option DFA
  | _, d, [], _ => some d
  | 0, _, _ :: _, _ => none
  | fuel + 1, d, current :: frontier, seen =>
    let d := if n.isFinal current then { d with finals := current :: d.finals } else d
    let (d, frontier, seen) := n.dfaLabels current (n.getLabels current) d frontier seen
    dfaLoop n fuel d frontier seen

/-- `NFA.to_dfa()` -/
def toDfa (n : NFA) : Option DFA :=
  let s := n.start
  n.dfaLoop (2 ^ n.states.eraseDups.length + 1)
    { initial := s, trans := [], defaults := [], finals := [] } [s] []

end NFA

/-! ## `next_valid_string` / `find_next_edge` -/

inductive Err where
  /-- the model's fuel ran out (the real loop would not have terminated within the bound) -/
  | fuel
  /-- `heap[0]` on an empty heap (`Corrector.suggest(limit=0)`) -/
  | indexError
  /-- an exception inside `distance()` (never: theorem `dp_osa`) -/
  | dpError
  /-- `UnicodeEncodeError`: `to_bytes` of a string that contains a surrogate -/
  | encodeError
  deriving DecidableEq, Repr

def maxCodePoint : Nat := 0x10FFFF

/-- A character a term can contain: a Unicode scalar value (a code point that is not a surrogate;
    the term dictionary stores UTF-8, which has no encoding for U+D800..U+DFFF). -/
def isScalar (c : Nat) : Bool := decide (c ≤ maxCodePoint) && !(decide (0xD800 ≤ c) && decide (c ≤ 0xDFFF))

namespace DFA

/-- First half of `find_next_edge`: `label = u'\\0' if label is None`, no label after
    `sys.maxunicode` (`return None`), else `unichr(ord(label) + 1)` - stepping over the surrogate
    block (`if 0xD800 <= code <= 0xDFFF: code = 0xE000`, "fix: DFA.find_next_edge steps over the
    surrogate block"). -/
def nextLabel (label : Option Nat) : Option Nat :=
  match label with
  | none => some 0
  | some l =>
    if l ≥ maxCodePoint then none
    else if 0xD800 ≤ l + 1 ∧ l + 1 ≤ 0xDFFF then some 0xE000 else some (l + 1)

/-- Second half of `find_next_edge`: `if label in trans or s in self.defaults: return label`, else
    `bisect_left(sorted(trans), label)`.  `s = None` has no transitions and no default. -/
def edgeFrom (d : DFA) (s : Option SSet) (label : Nat) : Option Nat :=
  match s with
  | none => none
  | some s =>
    if (d.lookupTrans s label).isSome || (d.lookupDefault s).isSome then some label
    else ((d.outLabels s).filter fun l => label ≤ l).min?

/-- `DFA.find_next_edge(s, label, asbytes=False)` -/
def findNextEdge (d : DFA) (s : Option SSet) (label : Option Nat) : Option Nat :=
  match nextLabel label with
  | none => none
  | some label => d.edgeFrom s label

/-- The wall-following loop of `next_valid_string`; the head of `stack` is the top.  Fuel: see
    `nextValidString`. -/
def wall (d : DFA) : Nat → List (List Nat × Option SSet × Option Nat) → Except Err (Option (List Nat))
  | _, [] => .ok none
  | 0, _ :: _ => .error .fuel
  | fuel + 1, (path, state, label) :: stack =>
    match d.findNextEdge state label with
    | none => wall d fuel stack
    | some l =>
      let path := path ++ [l]
      let state := d.nextState state l
      if d.isFinal state then .ok (some path) else wall d fuel ((path, state, none) :: stack)

/-- "Follow the DFA as far as possible": returns the stack (top first) and the last state. -/
def follow (d : DFA) : List Nat → Option SSet → List Nat →
    List (List Nat × Option SSet × Option Nat) → List (List Nat × Option SSet × Option Nat) × Option SSet
  | pre, state, [], stack => ((pre, state, none) :: stack, state)   -- the `else:` of the `for`
  | pre, state, c :: rest, stack =>
    let stack := (pre, state, some c) :: stack
    let state' := d.nextState state c
    if truthy state' then follow d (pre ++ [c]) state' rest stack else (stack, state')

/-- `DFA.next_valid_string(string)`.  The wall-following loop does not terminate on every DFA (a
    cycle of smallest edges through non-final states is followed for ever), so the model needs
    fuel.  `chain` is an upper bound on the length of a chain of arcs of the automaton (for a
    Levenshtein automaton see `levChain`): every stack entry is popped once and a descent along
    smallest edges is at most `chain` long, so `(|string| + 1) * (chain + 1)` iterations suffice
    (theorem `WM.Lev.lev_nextValidString_terminates`). -/
def nextValidString (d : DFA) (chain : Nat) (string : List Nat) : Except Err (Option (List Nat)) :=
  let (stack, state) := d.follow [] (some d.initial) string []
  if d.isFinal state then .ok (some string)
  else d.wall ((string.length + 1) * (chain + 1)) stack

end DFA

/-! ## codec/base.py - the term-cursor walk -/

/-- Python string `<` (code point lexicographic; a proper prefix is smaller). -/
def lexLt : List Nat → List Nat → Bool
  | _, [] => false
  | [], _ :: _ => true
  | x :: a, y :: b => x < y || (x == y && lexLt a b)

def lexLe (a b : List Nat) : Bool := !lexLt b a

/-- `cur.find(term); cur.text()`: the first term of the (sorted) lexicon that is `≥ term`. -/
def cursorFind (lex : List (List Nat)) (term : List Nat) : Option (List Nat) :=
  lex.find? fun t => lexLe term t

/-- The `while match is not None:` loop of `Automata.find_matches`.  With a `next_valid_string`
    that returns a string `≥` its argument every term of the lexicon is looked at in at most two
    iterations (once when the cursor lands on it, once more when it is itself the next match), so
    `2 * |lex| + 2` iterations suffice; with an arbitrary function the real loop need not
    terminate, hence fuel. -/
def findLoop (nv : List Nat → Except Err (Option (List Nat))) (lex : List (List Nat)) :
    Nat → Option (List Nat) → Except Err (List (List Nat))
  | _, none => .ok []
  | 0, some _ => .error .fuel
  | fuel + 1, some m =>
    match cursorFind lex m with
    | none => .ok []
    | some term =>
      if m = term then
        -- yield match; term += unull
        match nv (term ++ [0]) with
        | .error e => .error e
        | .ok m' => (findLoop nv lex fuel m').map fun r => m :: r
      else
        match nv term with
        | .error e => .error e
        | .ok m' => findLoop nv lex fuel m'

/-- `Automata.find_matches(dfa, cur)` for a cursor over the sorted lexicon `lex`. -/
def findMatches (nv : List Nat → Except Err (Option (List Nat))) (lex : List (List Nat)) :
    Except Err (List (List Nat)) :=
  match lex.head? with
  | none => .ok []        -- `term = cur.text(); if term is None: return`
  | some term =>
    match nv term with
    | .error e => .error e
    | .ok m => findLoop nv lex (2 * lex.length + 2) m

/-- Every arc of `levenshtein_automaton(term, k, …)` strictly decreases `2 (|term| - i) + (k - e)`,
    so no chain of arcs is longer than this. -/
def levChain (term : List Nat) (k : Nat) : Nat := 2 * term.length + k + 1

/-- `SegmentReader.terms_within` → `Automata.terms_within(fieldcur, uterm, maxdist, prefix)`. -/
def termsWithinSeg (lex : List (List Nat)) (w : List Nat) (d p : Nat) : Except Err (List (List Nat)) :=
  match (levenshteinAutomaton w d p).toDfa with
  | none => .error .fuel
  | some dfa => findMatches (dfa.nextValidString (levChain w d)) lex

/-! ## The term dictionary is ordered by UTF-8 bytes

`W3FieldCursor.find(term)` does `self._fieldobj.to_bytes(term)` (`utf8encode`) and positions the
cursor with `closest_key_pos` on the first key whose *bytes* are `≥`; `text()` decodes the key.  The
automaton (`next_valid_string`, `find_next_edge`) works on code points.  Here the cursor is
modelled on bytes; `WM.C19.utf8_order` / `terms_within_single_bytes` show the walk is the same. -/

/-- `unichr(c).encode("utf-8")`: the bit layout of UTF-8 (1 to 4 bytes). -/
def utf8Char (c : Nat) : List Nat :=
  if c < 0x80 then [c]
  else if c < 0x800 then [0xC0 + c / 64, 0x80 + c % 64]
  else if c < 0x10000 then [0xE0 + c / 4096, 0x80 + c / 64 % 64, 0x80 + c % 64]
  else [0xF0 + c / 262144, 0x80 + c / 4096 % 64, 0x80 + c / 64 % 64, 0x80 + c % 64]

/-- The UTF-8 bytes of a string of scalar values. -/
def utf8 (s : List Nat) : List Nat := s.flatMap utf8Char

/-- `s.encode("utf-8")`: raises `UnicodeEncodeError` on a surrogate (and nothing beyond U+10FFFF is
    a Python character). -/
def utf8Encode (s : List Nat) : Except Err (List Nat) :=
  if s.all isScalar then .ok (utf8 s) else .error .encodeError

/-- `cur.find(term); cur.text()` on the stored lexicon `lex` (each term stands for its key bytes,
    the keys are in byte order): the first term whose bytes are `≥` the bytes of `term`. -/
def cursorFindBytes (lex : List (List Nat)) (term : List Nat) : Except Err (Option (List Nat)) :=
  match utf8Encode term with
  | .error e => .error e
  | .ok b => .ok (lex.find? fun t => lexLe b (utf8 t))

/-- `findLoop` with the byte-level cursor. -/
def findLoopBytes (nv : List Nat → Except Err (Option (List Nat))) (lex : List (List Nat)) :
    Nat → Option (List Nat) → Except Err (List (List Nat))
  | _, none => .ok []
  | 0, some _ => .error .fuel
  | fuel + 1, some m =>
    match cursorFindBytes lex m with
    | .error e => .error e
    | .ok none => .ok []
    | .ok (some term) =>
      if m = term then
        match nv (term ++ [0]) with
        | .error e => .error e
        | .ok m' => (findLoopBytes nv lex fuel m').map fun r => m :: r
      else
        match nv term with
        | .error e => .error e
        | .ok m' => findLoopBytes nv lex fuel m'

/-- `Automata.find_matches(dfa, cur)` for the cursor over the byte-ordered term dictionary. -/
def findMatchesBytes (nv : List Nat → Except Err (Option (List Nat))) (lex : List (List Nat)) :
    Except Err (List (List Nat)) :=
  match lex.head? with
  | none => .ok []
  | some term =>
    match nv term with
    | .error e => .error e
    | .ok m => findLoopBytes nv lex (2 * lex.length + 2) m

/-- `SegmentReader.terms_within` over the byte-ordered term dictionary. -/
def termsWithinSegBytes (lex : List (List Nat)) (w : List Nat) (d p : Nat) : Except Err (List (List Nat)) :=
  match (levenshteinAutomaton w d p).toDfa with
  | none => .error .fuel
  | some dfa => findMatchesBytes (dfa.nextValidString (levChain w d)) lex

/-! ## reading.py - the generic path used by `MultiReader` -/

/-- The loop `for btext in …: k = distance(word, text, limit=maxdist); if k <= maxdist: yield word`
    of `IndexReader.terms_within`. -/
def baseLoop (w : List Nat) (d : Nat) : List (List Nat) → Except Err (List (List Nat))
  | [] => .ok []
  | word :: rest =>
    match distance word w (some d) with
    | none => .error .dpError
    | some k => (baseLoop w d rest).map fun r => if k ≤ d then word :: r else r

/-- `IndexReader.terms_within`: `for btext in self.expand_prefix(fieldname, text[:prefix])` /
    `k = distance(word, text, limit=maxdist)` / `if k <= maxdist: yield word`.  `lex` is the
    merged, sorted term list of the field. -/
def termsWithinBase (lex : List (List Nat)) (w : List Nat) (d p : Nat) : Except Err (List (List Nat)) :=
  baseLoop w d (lex.filter fun t => (w.take p).isPrefixOf t)

/-! ## query/terms.py -/

/-- `MultiTerm.matcher` on one segment, given the expansion `terms` (`_btexts`):
    `qs = [Term(fieldname, word) for word in self._btexts(reader)]` (the `if word` filter that
    dropped the falsy empty term was repaired: "fix: MultiTerm.matcher no longer skips the empty
    term") and the matcher is the union of the term matchers: the documents of the
    segment (numbered in order; a document is the list of its terms in the field) that contain
    one of the kept terms. -/
def fuzzyDocsOf (docs : List (List (List Nat))) (terms : List (List Nat)) : List Nat :=
  let qs := terms
  (docs.zipIdx.filter fun x => x.1.any fun t => qs.contains t).map (·.2)

/-- `FuzzyTerm(field, w, maxdist=d, prefixlength=p)` searched on one segment: `_btexts` is
    `ixreader.terms_within(...)` of the segment reader. -/
def fuzzyDocsSeg (lex : List (List Nat)) (docs : List (List (List Nat))) (w : List Nat) (d p : Nat) :
    Except Err (List Nat) :=
  (termsWithinSeg lex w d p).map (fuzzyDocsOf docs)

/-- `Searcher.search(FuzzyTerm)` on an index: every segment `(lexicon, documents)` is searched with
    its own segment reader (`MultiTerm.matcher(searcher)` is called per sub-searcher); the hits of a
    segment are shifted by the number of documents in the segments before it (`off`). -/
def fuzzyDocsIndex (w : List Nat) (d p : Nat) :
    List (List (List Nat) × List (List (List Nat))) → Nat → Except Err (List Nat)
  | [], _ => .ok []
  | (lex, docs) :: rest, off =>
    match fuzzyDocsSeg lex docs w d p with
    | .error e => .error e
    | .ok hits =>
      (fuzzyDocsIndex w d p rest (off + docs.length)).map fun r => hits.map (· + off) ++ r

/-! ## spelling.py -/

/-- `ReaderCorrector._suggestions`: `score = 0 - (maxdist + (1.0 / f * 0.5))` with
    `f = freq(fieldname, sug) or 1`.  Scores are exact rationals here; the floats of the real code
    order the same way for frequencies below 2^50 (IEEE rounding is monotone; trusted). -/
def suggestions (terms : List (List Nat)) (freq : List Nat → Nat) (maxdist : Nat) :
    List (Rat × List Nat) :=
  terms.map fun sug =>
    let f := if freq sug = 0 then 1 else freq sug
    ((0 : Rat) - ((maxdist : Rat) + (1 : Rat) / (f : Rat) * (1 / 2)), sug)

/-- Python tuple `<` on `(score, sug)`. -/
def itemLt (a b : Rat × List Nat) : Bool := a.1 < b.1 || (a.1 == b.1 && lexLt a.2 b.2)

/-- Insert into the heap, kept here as a list sorted ascending by `itemLt` (only `heap[0]`, the
    minimum, and the final multiset are observed by `suggest`; `heapq` itself is trusted). -/
def heapInsert (x : Rat × List Nat) : List (Rat × List Nat) → List (Rat × List Nat)
  | [] => [x]
  | h :: t => if itemLt x h then x :: h :: t else h :: heapInsert x t

/-- The `for item in _suggestions(...)` loop of `Corrector.suggest`. -/
def suggestLoop (limit : Nat) : List (Rat × List Nat) → List (Rat × List Nat) →
    Except Err (List (Rat × List Nat))
  | [], heap => .ok heap
  | item :: items, heap =>
    if heap.length < limit then suggestLoop limit items (heapInsert item heap)
    else match heap with
      | [] => .error .indexError           -- `heap[0]` with `limit = 0`
      | h :: t =>
        if itemLt h item then suggestLoop limit items (heapInsert item t)  -- heapreplace
        else suggestLoop limit items heap

/-- Sort key `(0 - x[0], x[1])` of the final `sorted`. -/
def keyLe (a b : Rat × List Nat) : Bool :=
  (0 - a.1) < (0 - b.1) || ((0 - a.1) == (0 - b.1) && lexLe a.2 b.2)

/-- Python's `sorted` is a stable sort; for a total preorder every stable sort returns the same
    list, here insertion sort (`x` goes in front of the first element that is not smaller). -/
def insertBy (le : Rat × List Nat → Rat × List Nat → Bool) (x : Rat × List Nat) :
    List (Rat × List Nat) → List (Rat × List Nat)
  | [] => [x]
  | y :: ys => if le x y then x :: y :: ys else y :: insertBy le x ys

def sortBy (le : Rat × List Nat → Rat × List Nat → Bool) (l : List (Rat × List Nat)) :
    List (Rat × List Nat) := l.foldr (insertBy le) []

/-- `Corrector.suggest` on the `(score, suggestion)` items its `_suggestions` yields: the heap
    loop, the final `sorted`, and `[sug for _, sug in sugs]`. -/
def suggestItems (items : List (Rat × List Nat)) (limit : Nat) : Except Err (List (List Nat)) :=
  (suggestLoop limit items []).map fun heap => (sortBy keyLe heap).map fun x => x.2

/-- `Corrector.suggest(text, limit, maxdist, prefix)` of a `ReaderCorrector`, given the result of
    `terms_within`. -/
def suggest (terms : List (List Nat)) (freq : List Nat → Nat) (limit maxdist : Nat) :
    Except Err (List (List Nat)) :=
  suggestItems (suggestions terms freq maxdist) limit

/-- `fsa.find_all_matches(dfa, lookup_func, first=unull)` with a `ListCorrector.Skipper` over the
    sorted word list as `lookup_func` (the first word at or after the key; the skipper only
    remembers where the previous lookup ended).  It is the loop of `find_matches` started at
    `next_valid_string(u"\\0")`; its `while match:` test cannot meet the (falsy) empty string
    because every match is at or after `"\\0"`. -/
def findAllMatches (nv : List Nat → Except Err (Option (List Nat))) (wordlist : List (List Nat)) :
    Except Err (List (List Nat)) :=
  match nv [0] with
  | .error e => .error e
  | .ok m => findLoop nv wordlist (2 * wordlist.length + 2) m

/-- `ListCorrector._suggestions`: `for mxd in xrange(1, maxdist + 1):` build the automaton for
    `mxd`, walk the word list, yield `(0 - mxd, sug)` for every word not seen at a smaller `mxd`. -/
def listSuggestionsLoop (wordlist : List (List Nat)) (w : List Nat) (p : Nat) :
    List Nat → List (List Nat) → Except Err (List (Rat × List Nat))
  | [], _ => .ok []
  | mxd :: rest, seen =>
    match (levenshteinAutomaton w mxd p).toDfa with
    | none => .error .fuel
    | some dfa =>
      match findAllMatches (dfa.nextValidString (levChain w mxd)) wordlist with
      | .error e => .error e
      | .ok sugs =>
        let new := sugs.filter fun s => !seen.contains s
        (listSuggestionsLoop wordlist w p rest (seen ++ new)).map fun r =>
          (new.map fun s => ((0 : Rat) - (mxd : Rat), s)) ++ r

/-- `ListCorrector(wordlist).suggest(text, limit, maxdist, prefix)`. -/
def listSuggest (wordlist : List (List Nat)) (w : List Nat) (limit maxdist p : Nat) :
    Except Err (List (List Nat)) :=
  match listSuggestionsLoop wordlist w p ((List.range maxdist).map (· + 1)) [] with
  | .error e => .error e
  | .ok items => suggestItems items limit

/-- `SimpleQueryCorrector.correct_query` for one token: `sugs = c.suggest(token.text, prefix=prefix,
    maxdist=maxdist)` (default `limit=5`), `if sugs: sug = sugs[0]`, else the word stays. -/
def correctToken (sugs : Except Err (List (List Nat))) (w : List Nat) : Except Err (List Nat) :=
  sugs.map fun l => match l with
    | [] => w
    | s :: _ => s

/-! ## spelling.py - `MultiCorrector` -/

/-- `if sug in seen: seen[sug] = op(seen[sug], score) else: seen[sug] = score` on the dict `seen`
    (kept in insertion order, as Python dicts are). -/
def seenUpdate (op : Rat → Rat → Rat) (score : Rat) (sug : List Nat) :
    List (List Nat × Rat) → List (List Nat × Rat)
  | [] => [(sug, score)]
  | (s, sc) :: rest =>
    if s = sug then (s, op sc score) :: rest else (s, sc) :: seenUpdate op score sug rest

/-- `MultiCorrector._suggestions`, given the `(score, suggestion)` items each sub-corrector's
    `_suggestions` yields (in the order of `self.correctors`): `((score, sug) for sug, score in
    iteritems(seen))`. -/
def multiSuggestions (op : Rat → Rat → Rat) (itemss : List (List (Rat × List Nat))) :
    List (Rat × List Nat) :=
  (itemss.flatten.foldl (fun seen it => seenUpdate op it.1 it.2 seen) []).map fun x => (x.2, x.1)

/-- The sub-correctors' generators are consumed one after the other; the first exception
    propagates. -/
def collectSubs : List (Except Err (List (Rat × List Nat))) → Except Err (List (List (Rat × List Nat)))
  | [] => .ok []
  | .error e :: _ => .error e
  | .ok x :: rest => (collectSubs rest).map fun r => x :: r

/-- `MultiCorrector(correctors, op).suggest(text, limit, maxdist, prefix)` given what the
    sub-correctors' `_suggestions` do. -/
def multiSuggest (op : Rat → Rat → Rat) (subs : List (Except Err (List (Rat × List Nat)))) (limit : Nat) :
    Except Err (List (List Nat)) :=
  match collectSubs subs with
  | .error e => .error e
  | .ok itemss => suggestItems (multiSuggestions op itemss) limit

/-- `ReaderCorrector._suggestions` on top of a `terms_within` result. -/
def readerItems (tw : Except Err (List (List Nat))) (freq : List Nat → Nat) (maxdist : Nat) :
    Except Err (List (Rat × List Nat)) :=
  tw.map fun terms => suggestions terms freq maxdist

/-- `ListCorrector._suggestions`. -/
def listItems (wordlist : List (List Nat)) (w : List Nat) (maxdist p : Nat) : Except Err (List (Rat × List Nat)) :=
  listSuggestionsLoop wordlist w p ((List.range maxdist).map (· + 1)) []

/-! ## reading.py - `MultiReader` term merging and `expand_prefix` (the input of the generic path) -/

/-- `SegmentReader.terms_from(fieldname, prefix)` seen for one field: the cursor is placed on the
    first term `≥ prefix` of the segment's (sorted) term list and iterated to its end. -/
def termsFrom (lex : List (List Nat)) (pre : List Nat) : List (List Nat) :=
  lex.dropWhile fun t => lexLt t pre

/-- An entry `(term, it)` of the list `current` of `MultiReader._merge_terms`: the head term of an
    iterator and what the iterator still holds. -/
abbrev Cur := List Nat × List (List Nat)

/-- The inner `while active and current[0][0] == term:` loop seen from one iterator: `next(it)` is
    called as long as the iterator's head equals `term` (`heapreplace` puts it back on top);
    `none` = `StopIteration` (`heappop`, `active -= 1`). -/
def advance (term : List Nat) : List (List Nat) → Option Cur
  | [] => none
  | t :: rest => if t == term then advance term rest else some (t, rest)

/-- `current[0][0]` of the heap: the smallest head term (`heapq` itself is trusted). -/
def minTerm : Cur → List Cur → List Nat
  | c, [] => c.1
  | c, c' :: rest => let m := minTerm c' rest; if lexLt m c.1 then m else c.1

/-- The `while active:` loop of `MultiReader._merge_terms`: peek at the smallest head term, advance
    every iterator standing on it, yield it.  Every round consumes at least one term of an
    iterator, so the number of terms still held (plus heads) bounds the rounds: that is the fuel
    `mergeTerms` passes (`WM.Lev.mergeLoop_spec` shows it is never used up). -/
def mergeLoop : Nat → List Cur → Except Err (List (List Nat))
  | _, [] => .ok []
  | 0, _ :: _ => .error .fuel
  | fuel + 1, c :: cs =>
    let term := minTerm c cs
    let cur' := (c :: cs).filterMap fun x => if x.1 == term then advance term x.2 else some x
    (mergeLoop fuel cur').map fun r => term :: r

/-- `try: term = next(it) except StopIteration: continue; current.append((term, id(it)))`. -/
def curHead : List (List Nat) → Option Cur
  | [] => none
  | t :: r => some (t, r)

/-- `MultiReader._merge_terms(iterlist)`: iterators that are empty at the start are left out; a
    single active iterator is passed through unchanged; otherwise the heap merge, which yields
    every distinct term once. -/
def mergeTerms (its : List (List (List Nat))) : Except Err (List (List Nat)) :=
  match its.filterMap curHead with
  | [(t, r)] => .ok (t :: r)
  | current => mergeLoop ((current.map fun c => c.2.length + 1).sum) current

/-- `MultiReader.terms_from(fieldname, prefix)` (one field): the merge of the segments'
    `terms_from`. -/
def termsFromMulti (segs : List (List (List Nat))) (pre : List Nat) : Except Err (List (List Nat)) :=
  mergeTerms (segs.map fun lex => termsFrom lex pre)

/-- The loop of `IndexReader.expand_prefix`: `for fn, text in self.terms_from(fieldname, prefix):
    if fn != fieldname or not text.startswith(prefix): return; yield text` - it *stops* at the
    first term that does not start with the prefix. -/
def expandPrefixOf (terms : List (List Nat)) (pre : List Nat) : List (List Nat) :=
  terms.takeWhile fun t => pre.isPrefixOf t

/-- `MultiReader.expand_prefix(fieldname, prefix)`. -/
def expandPrefixMulti (segs : List (List (List Nat))) (pre : List Nat) : Except Err (List (List Nat)) :=
  (termsFromMulti segs pre).map fun terms => expandPrefixOf terms pre

/-- `IndexReader.terms_within` of a `MultiReader` over the segment term lists `segs`:
    `for btext in self.expand_prefix(fieldname, text[:prefix])` and the distance filter. -/
def termsWithinMulti (segs : List (List (List Nat))) (w : List Nat) (d p : Nat) :
    Except Err (List (List Nat)) :=
  match expandPrefixMulti segs (w.take p) with
  | .error e => .error e
  | .ok terms => baseLoop w d terms

/-- `FuzzyTerm(field, w, maxdist=d, prefixlength=p).docs(searcher)` (`Query.docs`, also
    `Query.matcher(searcher)`) on the *top-level* searcher of an index: `MultiTerm.matcher` calls
    `_btexts(searcher.reader())` once, against the index reader.  With one segment that is the
    segment reader (automaton path); with several it is a `MultiReader`, i.e. the generic
    `terms_within` over the merged term list, and the union of the (multi-segment) term matchers
    yields the global numbers of the documents that contain one of those terms. -/
def fuzzyDocsTop (w : List Nat) (d p : Nat) (segs : List (List (List Nat) × List (List (List Nat)))) :
    Except Err (List Nat) :=
  match segs with
  | [(lex, docs)] => fuzzyDocsSeg lex docs w d p
  | _ => (termsWithinMulti (segs.map (·.1)) w d p).map (fuzzyDocsOf (segs.flatMap (·.2)))

end WM.Lev
