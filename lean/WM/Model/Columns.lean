import WM.Model.Varint
/-
Layer M for C08: executable mirror of `whoosh/columns.py` — column writers and readers as state
machines over a byte list (the column's region of the file; `basepos` is 0 as in every caller of
`W3PerDocReader._get_column_file`).

Modelled concretely: the layout of every column type, big-endian fixed-width arrays
(`StructFile.write_array/get_array`, `write_ushort`, …), `GrowableArray` type-code growth
(`util/numlists.py`), varints (shared model `WM.Varint`), the `BitSet` byte array of `BitColumn`.
Identity parameters (trusted): `pickle`, `zlib`, `struct` packing of floats; they appear as
functions with a stated round-trip law in the theorems, never as assumptions inside definitions.
-/
namespace WM.Columns
set_option linter.unusedVariables false

abbrev Bytes := List Nat

/-- Python exceptions raised at modelled sites. -/
inductive Err where
  | indexError       -- `seq[i]` out of range
  | overflowError    -- `GrowableArray` beyond the allowed type codes / `struct.error` out of range
  | assertion        -- `assert len(v) == self._fixedlen`
  | structError      -- unknown type code, short read
  deriving DecidableEq, Repr, Inhabited

def Err.name : Err → String
  | .indexError => "IndexError"
  | .overflowError => "OverflowError"
  | .assertion => "AssertionError"
  | .structError => "StructError"

/-! ### Fixed-width big-endian numbers (`struct` with `!`/`>`; `array.byteswap` on little-endian) -/

/-- `w` bytes, most significant first. -/
def be : Nat → Nat → Bytes
  | 0, _ => []
  | w + 1, n => (n / 256 ^ w % 256) :: be w n

/-- Big-endian bytes → number. -/
def unbe (bs : Bytes) : Nat := bs.foldl (fun acc b => acc * 256 + b) 0

/-- `write_array`: every item in `sz` bytes. -/
def packArr (sz : Nat) (xs : List Nat) : Bytes := xs.flatMap (be sz)

/-- `get_array(position, typecode, count)` on the bytes from `position` on. -/
def unpackArr (sz : Nat) : Nat → Bytes → List Nat
  | 0, _ => []
  | n + 1, bs => unbe (bs.take sz) :: unpackArr sz n (bs.drop sz)

/-- `dbfile.get(pos, len)`. -/
def slice (data : Bytes) (pos len : Nat) : Bytes := (data.drop pos).take len

/-! ### `array` type codes and `GrowableArray` -/

/-- The type codes `GrowableArray` moves through. -/
inductive TC where
  | B | H | i | I | q
  deriving DecidableEq, Repr

def TC.size : TC → Nat
  | .B => 1 | .H => 2 | .i => 4 | .I => 4 | .q => 8

/-- Largest value `array(tc).append` accepts. -/
def TC.max : TC → Nat
  | .B => 255 | .H => 65535 | .i => 2147483647 | .I => 4294967295 | .q => 9223372036854775807

/-- ASCII code of the type-code character. -/
def TC.code : TC → Nat
  | .B => 66 | .H => 72 | .i => 105 | .I => 73 | .q => 113

def TC.ofCode : Nat → Option TC
  | 66 => some .B | 72 => some .H | 105 => some .i | 73 => some .I | 113 => some .q
  | _ => none

/-- `numlists.GrowableArray(inittype="B", allow_longs)`. -/
structure GArr where
  tc : TC := .B
  items : List Nat := []
  deriving Repr

/-- `GrowableArray.append(n)`: on `OverflowError` `_retype(n)` picks the type from `n` alone. -/
def GArr.append (allowLongs : Bool) (a : GArr) (n : Nat) : Except Err GArr :=
  if n ≤ a.tc.max then .ok { a with items := a.items ++ [n] }
  else if n < 65536 then .ok { tc := .H, items := a.items ++ [n] }
  else if n < 2147483648 then .ok { tc := .i, items := a.items ++ [n] }
  else if n < 4294967296 then .ok { tc := .I, items := a.items ++ [n] }
  else if allowLongs && decide (n ≤ TC.q.max) then .ok { tc := .q, items := a.items ++ [n] }
  else .error .overflowError

/-- `GrowableArray.extend(n for _ in xrange(k))`. -/
def GArr.extendRep (allowLongs : Bool) (a : GArr) (n : Nat) : Nat → Except Err GArr
  | 0 => .ok a
  | k + 1 =>
    match a.append allowLongs n with
    | .error e => .error e
    | .ok a' => GArr.extendRep allowLongs a' n k

/-! ### `VarBytesColumn` -/

/-- `VarBytesColumn.Writer` state (`_dbfile` is the bytes written so far). -/
structure VarW where
  out : Bytes := []
  count : Nat := 0
  lengths : GArr := {}
  offsets : GArr := {}
  offsetBase : Nat := 0
  deriving Repr

/-- `VarBytesColumn.Writer.fill(docnum)`. -/
def VarW.fill (w : VarW) (docnum : Nat) : Except Err VarW :=
  if docnum > w.count then
    match w.lengths.extendRep false 0 (docnum - w.count) with
    | .error e => .error e
    | .ok ls =>
      match w.offsets.extendRep false w.offsetBase (docnum - w.count) with
      | .error e => .error e
      | .ok os => .ok { w with lengths := ls, offsets := os }
  else .ok w

/-- `VarBytesColumn.Writer.add(docnum, v)`. -/
def VarW.add (w : VarW) (docnum : Nat) (v : Bytes) : Except Err VarW :=
  match w.fill docnum with
  | .error e => .error e
  | .ok w =>
    match w.lengths.append false v.length with
    | .error e => .error e
    | .ok ls =>
      match w.offsets.append false w.offsetBase with
      | .error e => .error e
      | .ok os =>
        .ok { out := w.out ++ v, count := docnum + 1, lengths := ls, offsets := os
              offsetBase := w.offsetBase + v.length }

/-- `VarBytesColumn.Writer.finish(doccount)` — with the repair
    `fix: VarBytesColumn.Writer.finish writes stale length/offset arrays` (the arrays are taken
    *after* the final `fill`). -/
def VarW.finish (allowOffsets : Bool) (cutoff : Nat) (w : VarW) (doccount : Nat) : Except Err Bytes :=
  match w.fill doccount with
  | .error e => .error e
  | .ok w =>
    let writeOffsets := allowOffsets && decide (doccount > cutoff)
    .ok (w.out ++ packArr w.lengths.tc.size w.lengths.items
         ++ (if writeOffsets then packArr w.offsets.tc.size w.offsets.items else [])
         ++ [w.lengths.tc.code]
         ++ (if writeOffsets then [w.offsets.tc.code, 88] else []))

/-- All `add` calls of one column, in order. -/
def VarW.addAll (w : VarW) : List (Nat × Bytes) → Except Err VarW
  | [] => .ok w
  | (d, v) :: rest =>
    match w.add d v with
    | .error e => .error e
    | .ok w' => VarW.addAll w' rest

/-- `writer(); add*; finish(doccount)`: the column's bytes. -/
def varWrite (allowOffsets : Bool) (cutoff : Nat) (adds : List (Nat × Bytes)) (doccount : Nat) :
    Except Err Bytes :=
  match VarW.addAll {} adds with
  | .error e => .error e
  | .ok w => w.finish allowOffsets cutoff doccount

/-- `VarBytesColumn.Reader` after `_read_offsets_and_lengths`. -/
structure VarR where
  data : Bytes
  offsets : List Nat
  lengths : List Nat
  hadStoredOffsets : Bool

/-- Offsets derived from the lengths (`base = 0; for length in lengths: …`). -/
def deriveOffsets (base : Nat) : List Nat → List Nat
  | [] => []
  | l :: ls => base :: deriveOffsets (base + l) ls

/-- `VarBytesColumn.Reader.__init__` / `_read_offsets_and_lengths` (`basepos = 0`). -/
def VarR.open (data : Bytes) (doccount : Nat) : Except Err VarR :=
  let length := data.length
  let lastbyte := length - 1
  match data[lastbyte]? with
  | none => .error .indexError
  | some c =>
    if c = 88 then
      match data[lastbyte - 2]? >>= TC.ofCode, data[lastbyte - 1]? >>= TC.ofCode with
      | some lc, some oc =>
        let offsetstart := (lastbyte - 2) - doccount * oc.size
        let offsets := unpackArr oc.size doccount (data.drop offsetstart)
        let lenstart := offsetstart - lc.size * doccount
        let lengths := unpackArr lc.size doccount (data.drop lenstart)
        .ok { data := data, offsets := offsets, lengths := lengths, hadStoredOffsets := true }
      | _, _ => .error .structError
    else
      match TC.ofCode c with
      | none => .error .structError
      | some lc =>
        let lenstart := lastbyte - lc.size * doccount
        let lengths := unpackArr lc.size doccount (data.drop lenstart)
        .ok { data := data, offsets := deriveOffsets 0 lengths, lengths := lengths
              hadStoredOffsets := false }

/-- `VarBytesColumn.Reader.__getitem__(docnum)`. -/
def VarR.get (r : VarR) (docnum : Nat) : Except Err Bytes :=
  match r.lengths[docnum]? with
  | none => .error .indexError
  | some 0 => .ok []
  | some len =>
    match r.offsets[docnum]? with
    | none => .error .indexError
    | some off => .ok (slice r.data off len)

/-- `reader(...)[docnum]`. -/
def varRead (file : Bytes) (doccount docnum : Nat) : Except Err Bytes :=
  match VarR.open file doccount with
  | .error e => .error e
  | .ok r => r.get docnum

/-! ### `FixedBytesColumn` (and `NumericColumn`, `StructColumn` through `pack`) -/

/-- `FixedBytesColumn.Writer` state. -/
structure FixW where
  out : Bytes := []
  count : Nat := 0
  deriving Repr

/-- `ColumnWriter.fill(docnum)`: `docnum - count` copies of the default bytes. -/
def FixW.fill (defaultBytes : Bytes) (w : FixW) (docnum : Nat) : FixW :=
  if docnum > w.count then { w with out := w.out ++ (List.replicate (docnum - w.count) defaultBytes).flatten }
  else w

/-- `FixedBytesColumn.Writer.add(docnum, v)` where `isDefault` is `v == self._default` and
    `vb` the bytes written for `v` (`v` itself, `pack(v)` for Numeric/Struct);
    `checkLen` is the `assert len(v) == self._fixedlen` of the plain fixed column. -/
def FixW.add (fixedlen : Nat) (defaultBytes : Bytes) (checkLen : Bool) (w : FixW) (docnum : Nat)
    (isDefault : Bool) (vb : Bytes) : Except Err FixW :=
  if isDefault then .ok w else
  let w := if docnum > w.count then FixW.fill defaultBytes w docnum else w
  if checkLen && vb.length != fixedlen then .error .assertion else
  .ok { out := w.out ++ vb, count := docnum + 1 }

/-- All adds of a fixed-width column; each add carries `(docnum, v == default, bytes written)`. -/
def FixW.addAll (fixedlen : Nat) (defaultBytes : Bytes) (checkLen : Bool) (w : FixW) :
    List (Nat × Bool × Bytes) → Except Err FixW
  | [] => .ok w
  | (d, isd, vb) :: rest =>
    match FixW.add fixedlen defaultBytes checkLen w d isd vb with
    | .error e => .error e
    | .ok w' => FixW.addAll fixedlen defaultBytes checkLen w' rest

/-- `FixedBytesColumn`: `writer(); add*; finish()` (finish writes nothing). -/
def fixedWrite (fixedlen : Nat) (default : Bytes) (adds : List (Nat × Bytes)) : Except Err Bytes :=
  match FixW.addAll fixedlen default true {} (adds.map fun p => (p.1, p.2 == default, p.2)) with
  | .error e => .error e
  | .ok w => .ok w.out

/-- `FixedBytesColumn.Reader.__getitem__` (`length // fixedlen` rows are stored). -/
def fixGet (fixedlen : Nat) (defaultBytes : Bytes) (data : Bytes) (docnum : Nat) : Bytes :=
  if docnum ≥ data.length / fixedlen then defaultBytes
  else slice data (fixedlen * docnum) fixedlen

/-! ### Integer `struct` codes of `NumericColumn` -/

/-- Integer `struct` format characters. -/
inductive NumCode where
  | b | B | h | H | i | I | q | Q
  deriving DecidableEq, Repr

def NumCode.size : NumCode → Nat
  | .b | .B => 1 | .h | .H => 2 | .i | .I => 4 | .q | .Q => 8

def NumCode.signed : NumCode → Bool
  | .b | .h | .i | .q => true
  | _ => false

/-- Smallest / largest value `struct.pack` accepts for the code. -/
def NumCode.lo : NumCode → Int
  | .b => -128 | .h => -32768 | .i => -2147483648 | .q => -9223372036854775808
  | _ => 0

def NumCode.hi : NumCode → Int
  | .b => 127 | .B => 255 | .h => 32767 | .H => 65535 | .i => 2147483647 | .I => 4294967295
  | .q => 9223372036854775807 | .Q => 18446744073709551615

/-- `256 ^ size`. -/
def NumCode.modulus : NumCode → Nat
  | .b | .B => 256 | .h | .H => 65536 | .i | .I => 4294967296 | .q | .Q => 18446744073709551616

/-- `struct.pack("!" + code, v)`: two's complement, `struct.error` out of range. -/
def NumCode.pack (c : NumCode) (v : Int) : Except Err Bytes :=
  if c.lo ≤ v ∧ v ≤ c.hi then
    .ok (be c.size (if v < 0 then (v + (c.modulus : Int)).toNat else v.toNat))
  else .error .overflowError

/-- `struct.unpack("!" + code, bs)[0]`. -/
def NumCode.unpack (c : NumCode) (bs : Bytes) : Int :=
  let n := unbe bs
  if c.signed then (if (n : Int) > c.hi then (n : Int) - (c.modulus : Int) else (n : Int)) else (n : Int)

/-- `NumericColumn.Writer` + `finish`: the adds of one column, then the file. -/
def numWrite (c : NumCode) (default : Int) : FixW → List (Nat × Int) → Except Err Bytes
  | w, [] => .ok w.out
  | w, (d, v) :: rest =>
    match c.pack default with
    | .error e => .error e
    | .ok db =>
      if v = default then numWrite c default w rest else
      match c.pack v with
      | .error e => .error e
      | .ok vb =>
        match FixW.add c.size db false w d false vb with
        | .error e => .error e
        | .ok w' => numWrite c default w' rest

/-- `NumericColumn.Reader.__getitem__`. -/
def numGet (c : NumCode) (default : Int) (data : Bytes) (docnum : Nat) : Except Err Int :=
  match c.pack default with
  | .error e => .error e
  | .ok db => .ok (c.unpack (fixGet c.size db data docnum))

/-! ### `RefBytesColumn` -/

/-- `RefBytesColumn.Writer` state: `refs = none` after the switch to unbuffered ushorts;
    `uniques` is the insertion-ordered dict `{value: position}` as its key list. -/
structure RefW where
  out : Bytes := []
  refs : Option (List Nat) := some []
  uniques : List Bytes
  count : Nat := 0
  deriving Repr

/-- `RefBytesColumn.Writer.__init__`: `self._uniques = {default: 0}`. -/
def RefW.init (default : Bytes) : RefW := { uniques := [default] }

/-- `RefBytesColumn.Writer.fill(docnum)`. -/
def RefW.fill (w : RefW) (docnum : Nat) : RefW :=
  if docnum > w.count then
    match w.refs with
    | some rs => { w with refs := some (rs ++ List.replicate (docnum - w.count) 0) }
    | none => { w with out := w.out ++ (List.replicate (docnum - w.count) (be 2 0)).flatten }
  else w

/-- `if ref > 65535: warn("dropped unique value"); ref = 0`. -/
def satRef (ref : Nat) : Nat := if ref > 65535 then 0 else ref

/-- `RefBytesColumn.Writer.add(docnum, v)`. -/
def RefW.add (w : RefW) (docnum : Nat) (v : Bytes) : RefW :=
  let w := w.fill docnum
  let isNew := !(w.uniques.contains v)                       -- `except KeyError`
  let ref := if isNew then w.uniques.length else w.uniques.idxOf v
  let uniques := if isNew then w.uniques ++ [v] else w.uniques
  match w.refs with
  | some rs =>
    if isNew && decide (ref ≥ 256) then
      -- bytes no longer suffice: write the buffered refs as ushorts, go on unbuffered
      { out := w.out ++ packArr 2 rs ++ be 2 (satRef ref), refs := none, uniques := uniques
        count := docnum + 1 }
    else { out := w.out, refs := some (rs ++ [ref]), uniques := uniques, count := docnum + 1 }
  | none => { out := w.out ++ be 2 (satRef ref), refs := none, uniques := uniques, count := docnum + 1 }

/-- `_write_uniques`. -/
def writeUniques (fixedlen : Nat) (uniques : List Bytes) : Bytes :=
  WM.Varint.encode uniques.length ++
    uniques.flatMap fun v => (if fixedlen = 0 then WM.Varint.encode v.length else []) ++ v

/-- `RefBytesColumn.Writer.finish(doccount)`. -/
def RefW.finish (fixedlen : Nat) (w : RefW) (doccount : Nat) : Bytes :=
  let w := w.fill doccount
  match w.refs with
  | some rs => w.out ++ packArr 1 rs ++ writeUniques fixedlen w.uniques ++ [TC.B.code]
  | none => w.out ++ writeUniques fixedlen w.uniques ++ [TC.H.code]

/-- All adds of a reference column, then `finish`. -/
def refWrite (fixedlen : Nat) (default : Bytes) (adds : List (Nat × Bytes)) (doccount : Nat) : Bytes :=
  (adds.foldl (fun w p => w.add p.1 p.2) (RefW.init default)).finish fixedlen doccount

/-- `_read_uniques` loop. -/
def readUniques (fixedlen : Nat) : Nat → Bytes → Option (List Bytes)
  | 0, _ => some []
  | n + 1, bs =>
    if fixedlen = 0 then
      match WM.Varint.decode bs with
      | none => none
      | some (len, rest) =>
        (readUniques fixedlen n (rest.drop len)).map fun us => rest.take len :: us
    else (readUniques fixedlen n (bs.drop fixedlen)).map fun us => bs.take fixedlen :: us

/-- `RefBytesColumn.Reader`: `(itemsize, uniques)`. -/
def refOpen (fixedlen : Nat) (data : Bytes) (doccount : Nat) : Except Err (Nat × List Bytes) :=
  match data[data.length - 1]? >>= TC.ofCode with
  | none => .error .structError
  | some tc =>
    match WM.Varint.decode (data.drop (doccount * tc.size)) with
    | none => .error .structError
    | some (ucount, rest) =>
      match readUniques fixedlen ucount rest with
      | none => .error .structError
      | some us => .ok (tc.size, us)

/-- `RefBytesColumn.Reader.__getitem__`. -/
def refGet (data : Bytes) (itemsize : Nat) (uniques : List Bytes) (docnum : Nat) : Except Err Bytes :=
  match uniques[unbe (slice data (docnum * itemsize) itemsize)]? with
  | some v => .ok v
  | none => .error .indexError

/-- `reader(...)[docnum]`. -/
def refRead (fixedlen : Nat) (file : Bytes) (doccount docnum : Nat) : Except Err Bytes :=
  match refOpen fixedlen file doccount with
  | .error e => .error e
  | .ok (sz, us) => refGet file sz us docnum

/-! ### `BitColumn` (`idsets.BitSet` byte array; zlib is an identity parameter) -/

/-- `numeric.bytes_for_bits(bitcount) = ceil((bitcount + 1) / 8)`. -/
def bytesForBits (bitcount : Nat) : Nat := (bitcount + 1 + 7) / 8

/-- `BitSet.add(i)` on the byte array (a fresh `BitSet()` has one zero byte). -/
def bitAdd (bits : Bytes) (i : Nat) : Bytes :=
  let bucket := i / 8
  let bits := if bucket ≥ bits.length then
      -- `_resize(i + 1)`: extend with zeros up to `bytes_for_bits(i + 1)`
      bits ++ List.replicate (bytesForBits (i + 1) - bits.length) 0
    else bits
  bits.set bucket (bits[bucket]?.getD 0 ||| (1 <<< (i % 8)))

/-- `BitColumn.Writer`: `add(docnum, value)` for every row, then `finish`: bytes + flag byte
    (1 = stored compressed, which with zlib as identity is the same payload). -/
def bitWrite (compressAt : Nat) (adds : List (Nat × Bool)) : Bytes :=
  let bits := adds.foldl (fun bs (d, v) => if v then bitAdd bs d else bs) [0]
  bits ++ [if bits.length ≤ compressAt then 1 else 0]

/-- `BitColumn.Reader.__getitem__`: `i in bitset` (`BaseBitSet.__contains__`). -/
def bitGet (data : Bytes) (i : Nat) : Bool :=
  let bits := data.take (data.length - 1)
  let bucket := i / 8
  if bucket ≥ bits.length then false
  else (bits[bucket]?.getD 0 &&& (1 <<< (i % 8))) != 0

/-! ### List columns (encodings handed to the wrapped `VarBytesColumn`) -/

/-- `VarBytesListColumn.Writer.add`: `varint(len(ls)) + Σ varint(len(v)) + v`. -/
def encodeVarList (ls : List Bytes) : Bytes :=
  WM.Varint.encode ls.length ++ ls.flatMap fun v => WM.Varint.encode v.length ++ v

/-- `VarBytesListColumn.Reader.__getitem__` on the row bytes (`[]` for an empty row);
    `bio.read(n)` past the end returns what is left, a varint cut short raises. -/
def decodeVarListAux : Nat → Bytes → Option (List Bytes)
  | 0, _ => some []
  | n + 1, bs =>
    match WM.Varint.decode bs with
    | none => none
    | some (len, rest) => (decodeVarListAux n (rest.drop len)).map fun vs => rest.take len :: vs

def decodeVarList (data : Bytes) : Option (List Bytes) :=
  if data.isEmpty then some [] else
  match WM.Varint.decode data with
  | none => none
  | some (count, rest) => decodeVarListAux count rest

/-- `FixedBytesListColumn.Writer.add`: the values joined (each asserted to have `fixedlen`). -/
def encodeFixList (fixedlen : Nat) (ls : List Bytes) : Except Err Bytes :=
  if ls.all (fun v => v.length == fixedlen) then .ok ls.flatten else .error .assertion

/-- `[v[i:i + fixedlen] for i in xrange(0, len(v), fixedlen)]`. -/
def chunksOf (k : Nat) (bs : Bytes) : List Bytes :=
  if h : k = 0 ∨ bs = [] then [] else bs.take k :: chunksOf k (bs.drop k)
termination_by bs.length
decreasing_by
  have h1 : k ≠ 0 := fun e => h (Or.inl e)
  have h2 : bs ≠ [] := fun e => h (Or.inr e)
  have : bs.length ≠ 0 := fun e => h2 (List.eq_nil_of_length_eq_zero e)
  simp only [List.length_drop]; omega

/-- `FixedBytesListColumn.Reader.__getitem__` on the row bytes. -/
def decodeFixList (fixedlen : Nat) (data : Bytes) : List Bytes :=
  if data.isEmpty then [] else chunksOf fixedlen data

/-! ### `MultiColumnReader` / `EmptyColumnReader` -/

/-- `bisect_right(offsets, docnum)`: number of offsets `≤ docnum` (offsets ascend). -/
def bisectRight (offsets : List Nat) (docnum : Nat) : Nat := offsets.countP (· ≤ docnum)

/-- `MultiColumnReader.__getitem__`: reader index and local document number. -/
def multiLocate (offsets : List Nat) (docnum : Nat) : Option (Nat × Nat) :=
  let rnum := bisectRight offsets docnum - 1      -- `max(0, … - 1)`
  match offsets[rnum]? with
  | none => none
  | some off => some (rnum, docnum - off)

end WM.Columns

namespace WM.Columns

/-! ### Wrapped columns: `PickleColumn`, `CompressedBytesColumn`, list columns over `VarBytesColumn`

`ser`/`de` stand for `dumps`/`loads` (possibly composed with `compress`/`decompress`). -/

/-- `PickleColumn.Writer.add`: `None → b''`, else `dumps(v)`. -/
def pickleEnc {α : Type} (ser : α → Bytes) : Option α → Bytes
  | none => []
  | some x => ser x

/-- The adds the wrapped child column receives. -/
def pickleAdds {α : Type} (ser : α → Bytes) (adds : List (Nat × Option α)) : List (Nat × Bytes) :=
  adds.map fun p => (p.1, pickleEnc ser p.2)

/-- `PickleColumn.Reader.__getitem__`: `None` for an empty byte string, else `loads(v)`. -/
def pickleGet {α : Type} (de : Bytes → α) (v : Bytes) : Option α :=
  if v.isEmpty then none else some (de v)

/-- `W3PerDocWriter`: the `(docnum, value)` adds one column receives when documents
    `0, 1, 2, …` are written in order and document `i` supplies `vals[i]` (or nothing). -/
def perDocAdds {α : Type} (vals : List (Option α)) : List (Nat × α) :=
  (vals.zipIdx).filterMap fun p => p.1.map fun v => (p.2, v)

end WM.Columns

namespace WM.Columns

/-! ### Segment merge: `SegmentWriter.write_per_doc`, column part -/

/-- `write_per_doc`: `cols[fieldname] = reader.column_reader(fieldname, coltype)` is opened only
    `if coltype and reader.has_column(fieldname)` (raw column, not translated); then for every
    live document of the reader, in order, `pdw.start_doc(self.docnum)` … `if fieldname in cols:
    cv = cols[fieldname][docnum]; pdw.add_column_value(fieldname, coltype, cv)` … `self.docnum += 1`.
    Returns the adds the new segment's column writer receives (`base` = the writer's document
    count before the merge). -/
def mergeColumnAdds {α : Type} (hasColumn : Bool) (read : Nat → Except Err α) (base : Nat) :
    List Nat → Except Err (List (Nat × α))
  | [] => .ok []
  | old :: rest =>
    if hasColumn then
      match read old, mergeColumnAdds hasColumn read (base + 1) rest with
      | .ok v, .ok adds => .ok ((base, v) :: adds)
      | .error e, _ => .error e
      | _, .error e => .error e
    else .ok []

/-! ### `MultiColumnReader` over the segments' readers, `EmptyColumnReader` -/

/-- The column reader a segment contributes to `MultiReader.column_reader`: its own column
    (`rows`, one per document) or, when the segment has no file for the column,
    `EmptyColumnReader(default, doc_count_all)`. -/
inductive SegCol (α : Type) where
  | rows (r : List α)
  | empty (count : Nat)

/-- `len(reader)` / `doc_count_all()` of the segment. -/
def SegCol.len {α : Type} : SegCol α → Nat
  | .rows r => r.length
  | .empty n => n

/-- `reader[docnum]`: `EmptyColumnReader.__getitem__` returns the default for every argument. -/
def SegCol.get {α : Type} (default : α) : SegCol α → Nat → Except Err α
  | .rows r, i => match r[i]? with
    | some v => .ok v
    | none => .error .indexError
  | .empty _, _ => .ok default

/-- `MultiReader.column_reader(field)[docnum]` (with every segment taking part):
    `MultiColumnReader(readers, doc_offsets).__getitem__`. -/
def multiGet {α : Type} (default : α) (segs : List (SegCol α)) (docnum : Nat) : Except Err α :=
  match multiLocate (deriveOffsets 0 (segs.map SegCol.len)) docnum with
  | none => .error .indexError
  | some (i, loc) =>
    match segs[i]? with
    | some s => s.get default loc
    | none => .error .indexError

/-! ### Stored fields of one document: `add_document` → `W3PerDocWriter.add_field/finish_doc` -/

/-- One keyword argument of `add_document` for a schema field: the value (`None` = not supplied),
    the `_stored_<name>` override (`none` = key absent, `some none` = passed as `None`) and the
    field's `stored` flag. -/
structure FieldIn (α : Type) where
  name : String
  value : Option α
  override : Option (Option α)
  stored : Bool

/-- `customval = fields.get("_stored_%s" % fieldname, value)`. -/
def FieldIn.custom {α : Type} (f : FieldIn α) : Option α :=
  match f.override with
  | none => f.value
  | some o => o

/-- One pass of `add_document`'s loop + `add_field`: `if value is None: continue` …
    `sv = customval if field.stored else None` … `if sv is not None: self._storedfields[name] = sv`. -/
def FieldIn.entry {α : Type} (f : FieldIn α) : Option (String × α) :=
  match f.value with
  | none => none
  | some _ => if f.stored then f.custom.map fun v => (f.name, v) else none

/-- The stored dict of a document (field names are the distinct keys of the keyword dict, visited
    in sorted order). -/
def storedDict {α : Type} (fields : List (FieldIn α)) : List (String × α) :=
  fields.filterMap FieldIn.entry

/-- `finish_doc`: `if sf: self.add_column_value("_stored", STORED_COLUMN, sf)`. -/
def storedValue {α : Type} (fields : List (FieldIn α)) : Option (List (String × α)) :=
  if (storedDict fields).isEmpty then none else some (storedDict fields)

end WM.Columns

namespace WM.Columns

/-! ### Iteration, `load()` and `sort_key` of the readers -/

/-- `VarBytesColumn.Reader.__iter__`: `pos = basepos; for length in self._lengths:
    yield get(pos, length); pos += length` — the stored offsets are not consulted. -/
def varIterFrom (data : Bytes) : Nat → List Nat → List Bytes
  | _, [] => []
  | pos, l :: ls => slice data pos l :: varIterFrom data (pos + l) ls

def VarR.iter (r : VarR) : List Bytes := varIterFrom r.data 0 r.lengths

/-- `list(reader)` of a `VarBytesColumn`. -/
def varIter (file : Bytes) (doccount : Nat) : Except Err (List Bytes) :=
  match VarR.open file doccount with
  | .error e => .error e
  | .ok r => .ok r.iter

/-- `FixedBytesColumn.Reader.__iter__` (inherited by `NumericColumn.Reader`): `for i in
    xrange(doccount): yield self[i] if i < count else default`, with `get` the reader's
    `__getitem__` and `count = length // fixedlen`. -/
def fixIter {α : Type} (fixedlen : Nat) (default : α) (get : Nat → α) (data : Bytes) (doccount : Nat) : List α :=
  (List.range doccount).map fun i => if i < data.length / fixedlen then get i else default

/-- `EmptyColumnReader.__iter__` / a real reader's iteration, per segment. -/
def SegCol.iter {α : Type} (default : α) : SegCol α → List α
  | .rows r => r
  | .empty n => List.replicate n default

/-- `MultiColumnReader.__iter__`: `for r in self._readers: for v in r: yield v`. -/
def multiIter {α : Type} (default : α) (segs : List (SegCol α)) : List α :=
  (segs.map (SegCol.iter default)).flatten

/-- `NumericColumn.Reader.sort_key(docnum)`: `key = self[docnum]; if self._reverse: key = 0 - key`. -/
def numSortKey (c : NumCode) (default : Int) (reverse : Bool) (data : Bytes) (docnum : Nat) : Except Err Int :=
  match numGet c default data docnum with
  | .error e => .error e
  | .ok k => .ok (if reverse then 0 - k else k)

end WM.Columns
