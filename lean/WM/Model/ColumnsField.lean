import WM.Model.Columns
import WM.Model.Numeric
/-
Layer M for C08, field level: `FieldType.to_column_value` / `from_column_value` of the shipped
fields (`whoosh/fields.py`) and the column each field configures (`default_column`), so that the
column round-trips speak about *field values* (unicode strings, numbers, datetimes) and not only
about the bytes / sortable integers the column stores.

The numeric encodings themselves (`to_sortable`, the float bit trick, `datetime_to_long`,
Decimal scaling) are the shared model `WM.Numeric` (family C13); this file adds what C13 does not
have: UTF-8 (`utf8encode` / `utf8decode`, strict, as `codecs.utf_8_encode/decode` behave), the
`sortable_typecode` / column-default logic of `NUMERIC.__init__` + `default_column`, and the
`datetime.min + timedelta(...)` range check of `long_to_datetime`.
-/
namespace WM.Columns
set_option linter.unusedVariables false

/-- Exceptions of the field-level conversions. -/
inductive FErr where
  | unicodeEncode    -- `UnicodeEncodeError`: lone surrogate
  | unicodeDecode    -- `UnicodeDecodeError`: not strict UTF-8
  | valueError       -- `prepare_number`: out of the field's range
  | overflowError    -- `datetime.min + timedelta(...)`: date value out of range
  | structError      -- `struct.error` of the float trick / column packing
  | configError      -- `NUMERIC.__init__` raises (invalid bits / invalid default)
  deriving DecidableEq, Repr, Inhabited

def FErr.name : FErr → String
  | .unicodeEncode => "UnicodeEncodeError"
  | .unicodeDecode => "UnicodeDecodeError"
  | .valueError => "ValueError"
  | .overflowError => "OverflowError"
  | .structError => "StructError"
  | .configError => "ConfigError"

/-! ### UTF-8 (`whoosh.util.text.utf8encode/utf8decode` = `codecs` UTF-8, errors="strict") -/

/-- A code point a Python `str` may hold and UTF-8 can encode: below 0x110000, not a surrogate. -/
def isScalar (c : Nat) : Bool := decide (c < 0x110000) && !(decide (0xD800 ≤ c) && decide (c ≤ 0xDFFF))

/-- The UTF-8 bytes of one code point (`UnicodeEncodeError` for a lone surrogate). -/
def utf8EncodeChar (c : Nat) : Except FErr Bytes :=
  if c < 0x80 then .ok [c]
  else if c < 0x800 then .ok [0xC0 + c / 64, 0x80 + c % 64]
  else if 0xD800 ≤ c ∧ c ≤ 0xDFFF then .error .unicodeEncode
  else if c < 0x10000 then .ok [0xE0 + c / 4096, 0x80 + c / 64 % 64, 0x80 + c % 64]
  else if c < 0x110000 then
    .ok [0xF0 + c / 262144, 0x80 + c / 4096 % 64, 0x80 + c / 64 % 64, 0x80 + c % 64]
  else .error .unicodeEncode

/-- `utf8encode(s)[0]` on the list of code points of `s`. -/
def utf8Encode : List Nat → Except FErr Bytes
  | [] => .ok []
  | c :: rest =>
    match utf8EncodeChar c, utf8Encode rest with
    | .ok a, .ok b => .ok (a ++ b)
    | .error e, _ => .error e
    | _, .error e => .error e

/-- A continuation byte `10xxxxxx`. -/
def isCont (b : Nat) : Bool := decide (0x80 ≤ b) && decide (b < 0xC0)

/-- Prepend a decoded code point to the result for the rest (errors pass through). -/
def consOk (c : Nat) : Except FErr (List Nat) → Except FErr (List Nat)
  | .ok cs => .ok (c :: cs)
  | .error e => .error e

/-- `utf8decode(bs)[0]`, strict: rejects stray continuation bytes, truncated sequences, overlong
    forms (lead bytes C0/C1, E0 followed by < A0, F0 followed by < 90), surrogates (ED followed by
    ≥ A0) and code points above 0x10FFFF (F4 followed by ≥ 90, lead bytes ≥ F5). -/
def utf8Decode : Bytes → Except FErr (List Nat)
  | [] => .ok []
  | b0 :: rest =>
    if b0 < 0x80 then
      consOk b0 (utf8Decode rest)
    else if b0 < 0xC2 then .error .unicodeDecode
    else if b0 < 0xE0 then
      match rest with
      | b1 :: rest1 =>
        if isCont b1 then
          consOk ((b0 - 0xC0) * 64 + (b1 - 0x80)) (utf8Decode rest1)
        else .error .unicodeDecode
      | _ => .error .unicodeDecode
    else if b0 < 0xF0 then
      match rest with
      | b1 :: b2 :: rest2 =>
        let c := (b0 - 0xE0) * 4096 + (b1 - 0x80) * 64 + (b2 - 0x80)
        if isCont b1 && isCont b2 && decide (0x800 ≤ c) && !(decide (0xD800 ≤ c) && decide (c ≤ 0xDFFF)) then
          consOk c (utf8Decode rest2)
        else .error .unicodeDecode
      | _ => .error .unicodeDecode
    else if b0 < 0xF5 then
      match rest with
      | b1 :: b2 :: b3 :: rest3 =>
        let c := (b0 - 0xF0) * 262144 + (b1 - 0x80) * 4096 + (b2 - 0x80) * 64 + (b3 - 0x80)
        if isCont b1 && isCont b2 && isCont b3 && decide (0x10000 ≤ c) && decide (c < 0x110000) then
          consOk c (utf8Decode rest3)
        else .error .unicodeDecode
      | _ => .error .unicodeDecode
    else .error .unicodeDecode

/-- `for docnum, value in …: add_column_value(name, column, field.to_column_value(value))`: the
    adds the column writer receives; the first conversion that raises aborts `add_document`. -/
def convAdds {α β : Type} (f : α → Except FErr β) : List (Nat × α) → Except FErr (List (Nat × β))
  | [] => .ok []
  | (d, v) :: rest =>
    match f v, convAdds f rest with
    | .ok b, .ok bs => .ok ((d, b) :: bs)
    | .error e, _ => .error e
    | _, .error e => .error e

/-! ### TEXT / ID / KEYWORD (`FieldType.to_column_value = to_bytes`, `from_column_value = from_bytes`)

The configured column is `VarBytesColumn()` (`FieldType.default_column`; `TEXT.__init__` builds
the same) unless the caller passed a column object as `sortable=`. -/

/-- What `add_document(f=…)` may receive for a text-like field. -/
inductive TextVal where
  | str (cps : List Nat)
  | bytes (b : Bytes)
  deriving DecidableEq, Repr

/-- `FieldType.to_bytes`: bytes pass through, unicode is UTF-8 encoded. -/
def textToColumn : TextVal → Except FErr Bytes
  | .str cps => utf8Encode cps
  | .bytes b => .ok b

/-- `FieldType.from_bytes`: `utf8decode(bs)[0]`. -/
def textFromColumn (bs : Bytes) : Except FErr (List Nat) := utf8Decode bs

/-! ### NUMERIC (`int` type): `sortable_typecode`, default, `default_column` -/

/-- `intcodes[intsizes.index(bits)]`; `NUMERIC.__init__` raises for any other `bits`. -/
def sortableCode : Nat → Option NumCode
  | 8 => some .B | 16 => some .H | 32 => some .I | 64 => some .Q
  | _ => none

/-- `NUMERIC.to_column_value` for an `int` field given an `int`: `prepare_number` (range check)
    then `to_sortable`. -/
def intToColumn (bits : Nat) (signed : Bool) (x : Int) : Except FErr Int :=
  match WM.Numeric.prepareInt bits signed x with
  | .ok x => .ok (WM.Numeric.toSortableInt bits signed x)
  | .error _ => .error .valueError

/-- `NUMERIC.from_column_value` (no `decimal_places`): `from_sortable`. -/
def intFromColumn (bits : Nat) (signed : Bool) (s : Int) : Int :=
  WM.Numeric.fromSortableInt bits signed s

/-- `NUMERIC.__init__` + `default_column` for an `int` field: the struct code of the column and
    its default *as stored* (a sortable number).  With `default=None` the default is
    `typecode_max[code]`, which `default_column` does not convert; an explicit default must pass
    `is_valid` (else `__init__` raises) and is converted by `to_column_value` unless it equals
    `typecode_max[code]`. -/
def intFieldColumn (bits : Nat) (signed : Bool) (default : Option Int) : Except FErr (NumCode × Int) :=
  match sortableCode bits with
  | none => .error .configError
  | some code =>
    match default with
    | none => .ok (code, code.hi)
    | some d =>
      match intToColumn bits signed d with
      | .error _ => .error .configError
      | .ok sd => .ok (code, if d = code.hi then d else sd)

/-- Write the column of an `int` field from field values, `finish`, then read every document back
    through `from_column_value` (what `reader.column_reader(f)[d]` shows: a
    `TranslatingColumnReader` over the `NumericColumn` reader). -/
def intFieldWrite (bits : Nat) (signed : Bool) (default : Option Int) (adds : List (Nat × Int)) :
    Except FErr Bytes :=
  match intFieldColumn bits signed default with
  | .error e => .error e
  | .ok (code, cd) =>
    match convAdds (intToColumn bits signed) adds with
    | .error e => .error e
    | .ok cadds =>
      match numWrite code cd {} cadds with
      | .ok file => .ok file
      | .error _ => .error .structError

def intFieldRead (bits : Nat) (signed : Bool) (default : Option Int) (file : Bytes) (d : Nat) :
    Except FErr Int :=
  match intFieldColumn bits signed default with
  | .error e => .error e
  | .ok (code, cd) =>
    match numGet code cd file d with
    | .ok s => .ok (intFromColumn bits signed s)
    | .error _ => .error .structError

/-- What a document without a value shows: `from_column_value` of the column default. -/
def intFieldDefault (bits : Nat) (signed : Bool) (default : Option Int) : Int :=
  match default with
  | none => intFromColumn bits signed ((2 : Int) ^ bits - 1)
  | some d => d

/-! ### NUMERIC (`float` type): patterns of doubles, the column is `NumericColumn("Q")` -/

/-- `NUMERIC.to_column_value` for a float field on the 64-bit pattern of the double. -/
def floatToColumn (signed : Bool) (b : Nat) : Except FErr Int :=
  match WM.Numeric.prepareFloat signed b with
  | .error _ => .error .valueError
  | .ok b =>
    match WM.Numeric.floatToSortable b signed with
    | .ok s => .ok s
    | .error _ => .error .valueError

/-- `NUMERIC.from_column_value` for a float field: the pattern of the double read back. -/
def floatFromColumn (signed : Bool) (s : Int) : Except FErr Nat :=
  match WM.Numeric.sortableToFloat s signed with
  | .ok b => .ok b
  | .error _ => .error .structError

/-- Column of a float field: `NumericColumn("Q", default=to_column_value(default))` where the
    field default is `NaN` (pattern `0xffff…`) for a signed field, `abs(NaN)` for an unsigned one,
    or the caller's number; `dflt` is the pattern of that double. -/
def floatFieldWrite (signed : Bool) (dflt : Nat) (adds : List (Nat × Nat)) : Except FErr Bytes :=
  match floatToColumn signed dflt with
  | .error _ => .error .configError
  | .ok cd =>
    match convAdds (floatToColumn signed) adds with
    | .error e => .error e
    | .ok cadds =>
      match numWrite .Q cd {} cadds with
      | .ok file => .ok file
      | .error _ => .error .structError

def floatFieldRead (signed : Bool) (dflt : Nat) (file : Bytes) (d : Nat) : Except FErr Nat :=
  match floatToColumn signed dflt with
  | .error _ => .error .configError
  | .ok cd =>
    match numGet .Q cd file d with
    | .ok s => floatFromColumn signed s
    | .error _ => .error .structError

/-! ### DATETIME: `NUMERIC(int, 64)` whose column value is `datetime_to_long`, *not* sortable-shifted -/

/-- `datetime.max - datetime.min` has 3 652 058 whole days. -/
def maxDays : Int := 3652058

/-- `DATETIME.to_column_value` for a `datetime` (as the normalised timedelta since `datetime.min`). -/
def datetimeToColumn (t : WM.Numeric.TD) : Int := WM.Numeric.tdToUsecs t

/-- `DATETIME.from_column_value = long_to_datetime`: `datetime.min + timedelta(days, seconds, us)`
    raises `OverflowError` outside `[datetime.min, datetime.max]`. -/
def datetimeFromColumn (x : Int) : Except FErr WM.Numeric.TD :=
  let t := WM.Numeric.longToTD x
  if 0 ≤ t.days ∧ t.days ≤ maxDays then .ok t else .error .overflowError

/-- The column of a DATETIME field: `NumericColumn("Q", default=typecode_max["Q"])` (the field's
    default is `None`, its numtype `int`, so `default_column` keeps the largest sortable number). -/
def datetimeColumn : NumCode × Int := (.Q, NumCode.Q.hi)

def datetimeFieldWrite (adds : List (Nat × WM.Numeric.TD)) : Except FErr Bytes :=
  match numWrite datetimeColumn.1 datetimeColumn.2 {} (adds.map fun p => (p.1, datetimeToColumn p.2)) with
  | .ok file => .ok file
  | .error _ => .error .structError

def datetimeFieldRead (file : Bytes) (d : Nat) : Except FErr WM.Numeric.TD :=
  match numGet datetimeColumn.1 datetimeColumn.2 file d with
  | .ok x => datetimeFromColumn x
  | .error _ => .error .structError

/-! ### Text-like field end to end -/

/-- The adds the `VarBytesColumn` of a text-like field receives. -/
def textFieldAdds (adds : List (Nat × List Nat)) : Except FErr (List (Nat × Bytes)) :=
  convAdds utf8Encode adds

/-- `column_reader(f)[d]` of a text-like field: the row, decoded. -/
def textFieldRead (file : Bytes) (doccount d : Nat) : Except FErr (List Nat) :=
  match varRead file doccount d with
  | .ok bs => utf8Decode bs
  | .error _ => .error .structError

end WM.Columns
