import WM.Model.Codec
import WM.Model.Columns
/-
Layer M for C10, byte level: `W3TermInfo.to_bytes` / `from_bytes` (`struct "!BfIBBfII"` + extent
`!q` `!i`, or the pickled inlined postings) and the four fixed-position readers
`read_weight / read_doc_freq / read_min_and_max_length / read_max_weight` that
`W3TermsReader.frequency / doc_frequency` use without unpacking the whole record.

`struct` packing of a float32 is the parameter pair `packF : Rat → Bytes` / `unpackF : Bytes → Rat`
(the theorems assume `unpackF (packF w) = f32 w` and 4 bytes, nothing else); `pickle` of the inlined
postings is an opaque byte string that is carried unchanged.
-/
namespace WM.Codec
open WM.Columns (be unbe slice)
set_option linter.unusedVariables false

/-- Where the postings of the term are: an extent of the posting file, or the inlined pickle. -/
inductive PostRef where
  | extent (offset length : Int)
  | inlined (pickle : Bytes)
  deriving DecidableEq, Repr

/-- `struct.pack("!I", x)` (`struct.error` outside `[0, 2^32)`). -/
def packU32 (x : Int) : Option Bytes :=
  if 0 ≤ x ∧ x < 4294967296 then some (be 4 x.toNat) else none

/-- `struct.pack("!q"/"!i", x)`: two's complement over `w` bytes. -/
def packSigned (w : Nat) (x : Int) : Option Bytes :=
  if -(2 : Int) ^ (8 * w - 1) ≤ x ∧ x < 2 ^ (8 * w - 1) then
    some (be w (if x < 0 then (x + 2 ^ (8 * w)).toNat else x.toNat))
  else none

def unpackSigned (w : Nat) (bs : Bytes) : Int :=
  let n := unbe bs
  if n < 2 ^ (8 * w - 1) then (n : Int) else (n : Int) - 2 ^ (8 * w)

/-- `0xffffffff if self._minid is None else self._minid`. -/
def idOrSentinel : Option Int → Int
  | none => 4294967295
  | some i => i

/-- `isinlined` as the flags byte. -/
def PostRef.flag : PostRef → Nat
  | .inlined _ => 1
  | .extent _ _ => 0

/-- `postbytes`: the pickled inlined postings, or `pack_long(offset) + pack_int(length)`. -/
def PostRef.bytes : PostRef → Option Bytes
  | .inlined p => some p
  | .extent off len => (packSigned 8 off).bind fun o => (packSigned 4 len).map fun l => o ++ l

/-- `W3TermInfo.to_bytes()`; `none` = `struct.error`. -/
def tiToBytes (packF : Rat → Bytes) (t : TermInfo Int) (ref : PostRef) : Option Bytes :=
  (packU32 t.df).bind fun df =>
  (packU32 (idOrSentinel t.minid)).bind fun mn =>
  (packU32 (idOrSentinel t.maxid)).bind fun mx =>
  ref.bytes.bind fun post =>
    some ([ref.flag] ++ packF t.weight ++ df ++ [minLenByte t.minlength] ++ [lengthToByte (some t.maxlength)]
      ++ packF t.maxweight ++ mn ++ mx ++ post)

/-- `W3TermInfo.from_bytes(s)`: the statistics (as a `TermInfo` without extent) and the posting
    reference.  `struct.unpack(s[:23])` needs 23 bytes (`none` = `struct.error`). -/
def tiFromBytes (unpackF : Bytes → Rat) (s : Bytes) : Option (TermInfo Int × PostRef) :=
  if s.length < 23 then none else
  let flags := unbe (slice s 0 1)
  match byteToLength (unbe (slice s 9 1)), byteToLength (unbe (slice s 10 1)) with
  | some mnl, some mxl =>
    let minid := unbe (slice s 15 4)
    let maxid := unbe (slice s 19 4)
    let t : TermInfo Int :=
      { weight := unpackF (slice s 1 4), df := unbe (slice s 5 4), minlength := some mnl, maxlength := mxl
        maxweight := unpackF (slice s 11 4)
        minid := if minid = 4294967295 then none else some (minid : Int)
        maxid := if maxid = 4294967295 then none else some (maxid : Int) }
    if flags ≠ 0 then some (t, .inlined (s.drop 23))
    else some (t, .extent (unpackSigned 8 (slice s 23 8)) (unpackSigned 4 (slice s 31 4)))
  | _, _ => none

/-- `W3TermInfo.read_weight(dbfile, datapos)`: `get_float(datapos + 1)`. -/
def tiReadWeight (unpackF : Bytes → Rat) (s : Bytes) : Rat := unpackF (slice s 1 4)
/-- `read_doc_freq`: `get_uint(datapos + 1 + _FLOAT_SIZE)`. -/
def tiReadDocFreq (s : Bytes) : Nat := unbe (slice s 5 4)
/-- `read_min_and_max_length`: the two bytes at `datapos + 1 + 4 + 4`, through `byte_to_length`. -/
def tiReadMinMaxLength (s : Bytes) : Option Nat × Option Nat :=
  (byteToLength (unbe (slice s 9 1)), byteToLength (unbe (slice s 10 1)))
/-- `read_max_weight`: `get_float(datapos + 1 + 4 + 4 + 2)`. -/
def tiReadMaxWeight (unpackF : Bytes → Rat) (s : Bytes) : Rat := unpackF (slice s 11 4)

end WM.Codec
