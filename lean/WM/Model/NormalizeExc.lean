import WM.Model.Normalize
/-
Exception-monad mirror of `normalize()` (property C15, "normalize never raises").

`WM.Normalize.normalize : Q → Q` is a total function, so "never raises" cannot be read off it.  This
file mirrors the same code once more with the Python statements that *can* raise kept as raising
sites, in `Except Err`:

* `query/ranges.py` `RangeMixin.merge`: `assert self.fieldname == other.fieldname`
  (`AssertionError`) — the only `assert`/`raise` on the path of `CompoundQuery.normalize`.
  `RangeMixin.overlaps` compares the bound tuples with `<=`/`>=`: between a `TermRange` and a
  `NumericRange` that is a `TypeError` in Python 3; the tree with the `fix:` returns `False` before
  comparing (`isinstance` tests), and in the model a `NumericRange` is not a `Rng` at all
  (`Q.asRange` is `none`), so that site has no counterpart here.
* `s in seenqs` calls `__hash__`: every class of the model defines it (`Query.__hash__`, which raises
  `NotImplementedError`, is overridden everywhere), so no site.

Everything else on the path (`with_boost`, `field()`, list operations, `TermRange.normalize`,
`Wildcard.normalize`, `Phrase.normalize`, `Not/BinaryQuery.normalize`) has no partial operation.
`WM/Lemmas/NormalizeExc.lean` proves `normalizeE q = .ok (normalize q)` for every tree: the assert
can never fire because `overlaps` has already compared the field names.
-/
namespace WM.Normalize

/-- Python exceptions at the modelled raising sites. -/
inductive Err where
  | assertion
  deriving DecidableEq, Repr, Inhabited

/-- `RangeMixin.merge` with its `assert self.fieldname == other.fieldname`. -/
def Rng.mergeE (a b : Rng) (intersect : Bool) : Except Err Rng :=
  if a.f = b.f then .ok (a.merge b intersect) else .error .assertion

/-- The inner `while j < len(subqueries)` loop of `CompoundQuery.normalize` (cf. `absorb`). -/
def absorbE (intersect : Bool) (q : Rng) (rest : List Q) : Except Err (Rng × List Q) :=
  match _h : popOverlap q rest with
  | none => .ok (q, rest)
  | some (r, rest') =>
    match q.mergeE r intersect with
    | .error e => .error e
    | .ok m => absorbE intersect m rest'
termination_by rest.length
decreasing_by exact popOverlap_length _h

theorem absorbE_length (intersect : Bool) (q : Rng) (rest : List Q) (p : Rng × List Q)
    (h : absorbE intersect q rest = .ok p) : p.2.length ≤ rest.length := by
  fun_induction absorbE intersect q rest with
  | case1 q rest hp =>
    simp only [Except.ok.injEq] at h
    subst h
    simp
  | case2 q rest r rest' hp e hm => simp at h
  | case3 q rest r rest' hp m hm ih =>
    have := popOverlap_length hp
    have := ih h
    omega

/-- The outer `while i < len(subqueries)` loop ("Merge ranges and Everys", cf. `mergeLoop`). -/
def mergeLoopE (intersect : Bool) (ef : List (Option Field)) :
    List Q → Except Err (List Q × List (Option Field))
  | [] => .ok ([], ef)
  | q :: rest =>
    if ef.contains q.field then mergeLoopE intersect ef rest
    else
      match q.asRange with
      | some r =>
        match _hp : absorbE intersect r rest with
        | .error e => .error e
        | .ok p =>
          let q' := p.1.normalize
          let ef' := match q' with
            | .every f _ => f :: ef
            | _ => ef
          match mergeLoopE intersect ef' p.2 with
          | .error e => .error e
          | .ok res => .ok (q' :: res.1, res.2)
      | none =>
        let ef' := match q with
          | .every f _ => f :: ef
          | _ => ef
        match mergeLoopE intersect ef' rest with
        | .error e => .error e
        | .ok res => .ok (q :: res.1, res.2)
termination_by l => l.length
decreasing_by
  · simp
  · have := absorbE_length intersect r rest p _hp
    simp only [List.length_cons]
    omega
  · simp

/-- Second half of `CompoundQuery.normalize` (cf. `compTail`). -/
def compTailE (k : CK) (subs : List Q) (boost : Rat) : Except Err Q :=
  match mergeLoopE k.intersect [] subs with
  | .error e => .error e
  | .ok res =>
    let subs := dedupe res.2 [] res.1
    .ok (finish k (subs.filter (fun q => !q.isNull)) boost)

/-- `CompoundQuery.normalize` after the subqueries have been normalized (cf. `compNormalize`). -/
def compNormalizeE (k : CK) (subs : List Q) (boost : Rat) : Except Err Q :=
  let subs := flatten k subs
  if subs.all Q.isNull then .ok .null else
  let hasAll := subs.any Q.isEveryAll
  if hasAll && !k.intersect then .ok (.every none 1) else
  let subs := if hasAll then subs.filter (fun q => !q.isEveryAll) else subs
  if hasAll && subs.all Q.isNull then .ok (.every none 1) else
  compTailE k subs boost

mutual
/-- `normalize()` of every query class, with exceptions (cf. `normalize`). -/
def normalizeE : Q → Except Err Q
  | .comp k qs b =>
    match normalizeListE qs with
    | .error e => .error e
    | .ok qs' => compNormalizeE k qs' b
  | .seq c qs s o b =>
    match normalizeListE qs with
    | .error e => .error e
    | .ok qs' => .ok (.seq c qs' s o b)
  | .not q b =>
    match normalizeE q with
    | .error e => .error e
    | .ok q' => .ok (if q'.isNull then .null else .not q' b)
  | .bin k a b =>
    match normalizeE a, normalizeE b with
    | .ok a', .ok b' => .ok (binNormalize k a' b')
    | .error e, _ => .error e
    | _, .error e => .error e
  | .null => .ok .null
  | .every f b => .ok (.every f b)
  | .term f t b => .ok (.term f t b)
  | .pre f t b c => .ok (.pre f t b c)
  | .wild f t b c => .ok (wildNormalize f t b c)
  | .multi k f t key b => .ok (.multi k f t key b)
  | .range f lo hi lx hx b c => .ok (Rng.mk f lo hi lx hx b c).normalize
  | .phrase f ws s b => .ok (phraseNormalize f ws s b)
  | .const q s => .ok (.const q s)
  | .opq f c => .ok (.opq f c)
def normalizeListE : List Q → Except Err (List Q)
  | [] => .ok []
  | q :: qs =>
    match normalizeE q, normalizeListE qs with
    | .ok q', .ok qs' => .ok (q' :: qs')
    | .error e, _ => .error e
    | _, .error e => .error e
end

/-- `Query.__and__/__or__/__sub__` with exceptions. -/
def opAndE (a b : Q) : Except Err Q := normalizeE (.comp .and [a, b] 1)
def opOrE (a b : Q) : Except Err Q := normalizeE (.comp .or [a, b] 1)
def opSubE (a b : Q) : Except Err Q := normalizeE (.comp .and [a, .not b 1] 1)

end WM.Normalize
