import WM.Model.CodecFormats
/-
Layer M for C10, from documents to posting lists: mirror of the path
`SegmentWriter.add_document` (posts `(fieldname, tbytes, docnum, weight * fieldboost, vbytes)` from
`field.index(value)` = `format.word_values`) → `PostingPool` (sorted run of the posts) →
`codec/base.py FieldWriter.add_postings` (a new term starts whenever `btext != lasttext`).
One field is modelled (the field name is the first sort key and only partitions the pool).
-/
namespace WM.Codec

/-- A document of one field: number, per-document field boost (`_<field>_boost` / `_boost`), tokens. -/
structure DocIn where
  docnum : Int
  boost : Rat
  toks : List Token
  deriving Repr

/-- One item of the posting pool (`fieldname` left out). -/
structure Post where
  term : String
  docnum : Int
  weight : Rat
  value : FValue
  deriving Repr, DecidableEq

/-- `add_document`: `for tbytes, freq, weight, vbytes in field.index(value): weight *= fieldboost;
    add_post((fieldname, tbytes, docnum, weight, vbytes))`. -/
def docPosts (f32 : Rat → Rat) (fmt : Fmt) (fb : Rat) (d : DocIn) : List Post :=
  (wordValues f32 fmt fb d.toks).map fun x =>
    { term := x.1, docnum := d.docnum, weight := x.2.2.1 * d.boost, value := x.2.2.2 }

/-- Order of the pool: by term, then by document number (tuples compare left to right; whoosh
    compares the UTF-8 bytes of the terms — the grouping below does not depend on which total
    order is used between *different* terms). -/
def poolLe (a b : Post) : Bool :=
  if a.term = b.term then decide (a.docnum ≤ b.docnum) else decide (a.term ≤ b.term)

/-- `PostingPool`: all posts of all documents, sorted. -/
def pool (f32 : Rat → Rat) (fmt : Fmt) (fb : Rat) (docs : List DocIn) : List Post :=
  (docs.flatMap (docPosts f32 fmt fb)).mergeSort poolLe

/-- `FieldWriter.add_postings`: consecutive posts with the same term form one posting list
    (`if btext != lasttext: finish_term(); start_term(btext)`).  Written as a right fold: a post
    joins the group that follows it when the terms agree, else it opens a new group. -/
def groupRuns : List Post → List (String × List Post)
  | [] => []
  | p :: rest =>
    match groupRuns rest with
    | (t, ps) :: gs => if t = p.term then (t, p :: ps) :: gs else (p.term, [p]) :: (t, ps) :: gs
    | [] => [(p.term, [p])]

/-- The group of term `w` (empty when the term does not occur). -/
def groupOf (gs : List (String × List Post)) (w : String) : List Post :=
  match gs.find? (fun g => g.1 == w) with
  | some g => g.2
  | none => []

/-- The posts handed to `start_term(w) … add(docnum, weight, value, length) … finish_term()`. -/
def termPostings (f32 : Rat → Rat) (fmt : Fmt) (fb : Rat) (docs : List DocIn) (w : String) : List Post :=
  groupOf (groupRuns (pool f32 fmt fb docs)) w

/-! ### From structured values to the bytes the block codec carries -/

/-- `pack_uint(n)`: four bytes, big-endian. -/
def packUint (n : Nat) : Bytes :=
  [n / 16777216 % 256, n / 65536 % 256, n / 256 % 256, n % 256]

/-- The value bytes of a posting: the `pack_uint` header the formats write themselves, followed by
    what `pack_float` / `pickle.dumps` produce for the rest (`tail`, an identity parameter).
    `Existence` writes nothing, `Frequency` only the header. -/
def FValue.toBytes (tail : FValue → Bytes) : FValue → Bytes
  | .empty => []
  | .freq n => packUint n
  | .positions n ds => packUint n ++ tail (.positions n ds)
  | .chars n cs => packUint n ++ tail (.chars n cs)
  | .posBoosts n sm cs => packUint n ++ tail (.posBoosts n sm cs)
  | .charBoosts n sm cs => packUint n ++ tail (.charBoosts n sm cs)

/-- The `add(docnum, weight, vbytes, length)` calls of one term; `lenOf` is the lengths reader
    (`dfl(docnum, fieldname)`). -/
def toPostings (tail : FValue → Bytes) (lenOf : Int → Option Nat) (ps : List Post) : List (Posting Int) :=
  ps.map fun p => { id := p.docnum, weight := p.weight, value := p.value.toBytes tail, length := lenOf p.docnum }

end WM.Codec
