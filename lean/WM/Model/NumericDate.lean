import WM.Model.Numeric
/-
Mirror of the date layer of DATETIME fields (C13, round 3):

* CPython `datetime`/`calendar` as far as whoosh relies on them: `calendar.monthrange(y, m)[1]`,
  the `datetime(...)` constructor's range checks, `date.toordinal` (`_days_before_year`,
  `_days_before_month`, `_ymd2ord`), and `dt - datetime.min` as a normalised timedelta;
* `whoosh/util/times.py`: `adatetime.__init__` (its `TimeError` checks), `adatetime.floor`,
  `adatetime.ceil`, `is_ambiguous`, `is_void`, `fix`, `floor`, `ceil`;
* `whoosh/fields.py` `DATETIME`: `_parse_datestring`, `prepare_datetime`, `parse_range`,
  `parse_query`, `to_column_value`; `NUMERIC.to_column_value` / `from_column_value`.

A date string is modelled after `qstring.replace(" ", "").replace("-", "").replace(".", "")` as a
list of character codes: `0..9` are the ASCII digits, anything `≥ 10` is a character `int()` rejects.
-/
namespace WM.NumericDate
open WM.Numeric

/-! ## the calendar -/

/-- `calendar.isleap(y)`. -/
def isLeap (y : Nat) : Bool := y % 4 == 0 && (y % 100 != 0 || y % 400 == 0)

/-- `calendar.monthrange(y, m)[1]` as a function of `isleap(y)` and `m` (0 outside 1..12). -/
def daysInMonth (leap : Bool) : Nat → Nat
  | 1 => 31 | 2 => if leap then 29 else 28 | 3 => 31 | 4 => 30 | 5 => 31 | 6 => 30
  | 7 => 31 | 8 => 31 | 9 => 30 | 10 => 31 | 11 => 30 | 12 => 31 | _ => 0

/-- `datetime._days_before_month(y, m)`: days of the year before the first of month `m`. -/
def daysBeforeMonth (leap : Bool) : Nat → Nat
  | 0 => 0
  | m + 1 => daysBeforeMonth leap m + daysInMonth leap m

/-- `datetime._days_before_year(y)`: days before January 1st of year `y ≥ 1`. -/
def daysBeforeYear (y : Nat) : Nat :=
  (y - 1) * 365 + (y - 1) / 4 - (y - 1) / 100 + (y - 1) / 400

/-- `date(y, m, d).toordinal()` (`_ymd2ord`): January 1st of year 1 is day 1. -/
def ordinal (y m d : Nat) : Nat := daysBeforeYear y + daysBeforeMonth (isLeap y) m + d

/-- A `datetime.datetime` (naive). -/
structure Civil where
  year : Nat
  month : Nat
  day : Nat
  hour : Nat
  minute : Nat
  second : Nat
  micro : Nat
  deriving DecidableEq, Repr

/-- What the `datetime(...)` constructor accepts. -/
def Civil.valid (c : Civil) : Prop :=
  1 ≤ c.year ∧ c.year ≤ 9999 ∧ 1 ≤ c.month ∧ c.month ≤ 12 ∧
  1 ≤ c.day ∧ c.day ≤ daysInMonth (isLeap c.year) c.month ∧
  c.hour < 24 ∧ c.minute < 60 ∧ c.second < 60 ∧ c.micro < 1000000

instance (c : Civil) : Decidable c.valid := by unfold Civil.valid; infer_instance

/-- `datetime(y, m, d, h, mi, s, us)`: `ValueError` outside the ranges. -/
def mkDatetime (y m d h mi s us : Nat) : Except Err Civil :=
  let c : Civil := ⟨y, m, d, h, mi, s, us⟩
  if c.valid then .ok c else .error .valueError

/-- `dt - datetime.min` as a (normalised) timedelta. -/
def civilToTD (c : Civil) : TD :=
  ⟨(ordinal c.year c.month c.day : Int) - 1,
   (c.hour * 3600 + c.minute * 60 + c.second : Nat), (c.micro : Nat)⟩

/-- `datetime_to_long(dt)`. -/
def civilToLong (c : Civil) : Int := tdToUsecs (civilToTD c)

/-- The order of datetimes (`datetime.__lt__` on naive values): lexicographic on the fields. -/
def civilLt (a b : Civil) : Bool :=
  decide (a.year < b.year ∨ (a.year = b.year ∧ (a.month < b.month ∨ (a.month = b.month ∧
    (a.day < b.day ∨ (a.day = b.day ∧ (a.hour < b.hour ∨ (a.hour = b.hour ∧
    (a.minute < b.minute ∨ (a.minute = b.minute ∧ (a.second < b.second ∨
    (a.second = b.second ∧ a.micro < b.micro))))))))))))

/-! ## `adatetime` -/

/-- An `adatetime`: every attribute may be `None`.  A fully specified one also stands for the
    `datetime` that `fix` turns it into (all later uses go through `floor`/`ceil`, which return a
    `datetime` argument unchanged). -/
structure ADT where
  year : Option Nat
  month : Option Nat
  day : Option Nat
  hour : Option Nat
  minute : Option Nat
  second : Option Nat
  micro : Option Nat
  deriving DecidableEq, Repr

/-- `adatetime.__init__`'s checks (`true`/`none` = `TimeError`); the arguments are non-negative
    here (they come from `int()` of digit strings). -/
def adtBad (y mo d h mi s us : Option Nat) : Bool :=
  let badMonth := match mo with | some m => m < 1 || m > 12 | none => false
  let badDay := match d with | some d => d < 1 | none => false
  let badDay2 := match y, mo, d with
    | some y, some m, some d => d > daysInMonth (isLeap y) m
    | _, _, _ => false
  let badHour := match h with | some h => h > 23 | none => false
  let badMin := match mi with | some x => x > 59 | none => false
  let badSec := match s with | some x => x > 59 | none => false
  let badUs := match us with | some x => x > 999999 | none => false
  badMonth || badDay || badDay2 || badHour || badMin || badSec || badUs

def adatetimeInit (y mo d h mi s us : Option Nat) : Option ADT :=
  if adtBad y mo d h mi s us then none else some ⟨y, mo, d, h, mi, s, us⟩

/-- `is_ambiguous(at)`. -/
def ADT.ambiguous (p : ADT) : Bool :=
  p.year.isNone || p.month.isNone || p.day.isNone || p.hour.isNone || p.minute.isNone ||
  p.second.isNone || p.micro.isNone

/-- `is_void(at)`. -/
def ADT.void (p : ADT) : Bool :=
  p.year.isNone && p.month.isNone && p.day.isNone && p.hour.isNone && p.minute.isNone &&
  p.second.isNone && p.micro.isNone

/-- `adatetime.floor()` / `floor(at)`: unspecified attributes take their lowest values. -/
def ADT.floor (p : ADT) : Except Err Civil :=
  match p.year with
  | none => .error .valueError
  | some y =>
    mkDatetime y (p.month.getD 1) (p.day.getD 1) (p.hour.getD 0) (p.minute.getD 0)
      (p.second.getD 0) (p.micro.getD 0)

/-- `adatetime.ceil()` / `ceil(at)`: unspecified attributes take their highest values (the day of a
    month is `calendar.monthrange(y, m)[1]`). -/
def ADT.ceil (p : ADT) : Except Err Civil :=
  match p.year with
  | none => .error .valueError
  | some y =>
    let m := p.month.getD 12
    let d := match p.day with
      | some d => d
      | none => daysInMonth (isLeap y) m
    mkDatetime y m d (p.hour.getD 23) (p.minute.getD 59) (p.second.getD 59) (p.micro.getD 999999)

/-! ## `DATETIME._parse_datestring` -/

/-- `int(s)` on a slice: all characters must be digits (codes below 10); an empty slice is rejected
    like `int("")`. -/
def intOf : List Nat → Option Nat
  | [] => none
  | cs => if cs.all (· < 10) then some (cs.foldl (fun a c => 10 * a + c) 0) else none

/-- One `if len(qstring) >= k: field = int(qstring[lo:hi])` step. -/
def field (cs : List Nat) (k lo hi : Nat) : Except Err (Option Nat) :=
  if cs.length ≥ k then
    match intOf ((cs.take hi).drop lo) with
    | some v => .ok (some v)
    | none => .error .valueError
  else .ok none

/-- `if len(qstring) >= 4: year = int(qstring[:4])`, and `ValueError` for a year below
    `datetime.MINYEAR` (the `fix:` commit: year 0000 is unparseable like month 13). -/
def yearField (cs : List Nat) : Except Err (Option Nat) :=
  match field cs 4 0 4 with
  | .ok (some 0) => .error .valueError
  | r => r

/-- `if len(qstring) == 20: microsecond = int(qstring[14:])`. -/
def microField (cs : List Nat) : Except Err (Option Nat) :=
  if cs.length = 20 then
    match intOf (cs.drop 14) with
    | some v => .ok (some v)
    | none => .error .valueError
  else .ok none

/-- `DATETIME._parse_datestring(qstring)` on the cleaned string `YYYY[MM[DD[hh[mm[ss[uuuuuu]]]]]]`:
    `ValueError` for a non-numeric slice, for year 0, for a `TimeError` of `adatetime` and for a
    void result (fewer than four characters). -/
def parseDatestring (cs : List Nat) : Except Err ADT := do
  let year ← yearField cs
  let month ← field cs 6 4 6
  let day ← field cs 8 6 8
  let hour ← field cs 10 8 10
  let minute ← field cs 12 10 12
  let second ← field cs 14 12 14
  let micro ← microField cs
  match adatetimeInit year month day hour minute second micro with
  | none => .error .valueError
  | some p =>
    if p.void then .error .valueError
    else if p.ambiguous then .ok p
    else do
      -- `fix`: datetime(year=…, …) may still raise ValueError (year 0)
      let _ ← p.floor
      pure p

/-- The attributes of the datetime `c` that `p` specifies agree with `p`. -/
def ADT.agrees (p : ADT) (c : Civil) : Prop :=
  (∀ v, p.year = some v → c.year = v) ∧ (∀ v, p.month = some v → c.month = v) ∧
  (∀ v, p.day = some v → c.day = v) ∧ (∀ v, p.hour = some v → c.hour = v) ∧
  (∀ v, p.minute = some v → c.minute = v) ∧ (∀ v, p.second = some v → c.second = v) ∧
  (∀ v, p.micro = some v → c.micro = v)

/-- The shape `_parse_datestring` produces: a specified attribute has all coarser ones specified. -/
def ADT.prefixShaped (p : ADT) : Prop :=
  (p.month.isSome → p.year.isSome) ∧ (p.day.isSome → p.month.isSome) ∧
  (p.hour.isSome → p.day.isSome) ∧ (p.minute.isSome → p.hour.isSome) ∧
  (p.second.isSome → p.minute.isSome) ∧ (p.micro.isSome → p.second.isSome)

/-! ## `DATETIME.prepare_datetime`, `parse_range`, `parse_query` -/

/-- `DATETIME.prepare_datetime(x)` for a text value at indexing time: parse, `floor`, microseconds. -/
def prepareDateText (cs : List Nat) : Except Err Int := do
  let p ← parseDatestring cs
  let c ← p.floor
  pure (civilToLong c)

/-- One bound of `DATETIME.parse_range`: `lowerSide` picks which of `floor`/`ceil` an inclusive bound
    takes (start: floor, end: ceil); an exclusive bound takes the other one. -/
def rangeBound (cs : List Nat) (lowerSide excl : Bool) : Except Err Int := do
  let p ← parseDatestring cs
  let c ← if lowerSide != excl then p.floor else p.ceil
  pure (civilToLong c)

/-- `DATETIME.parse_range(fieldname, start, end, startexcl, endexcl)`: `none` = `Every(fieldname)`,
    `some (a, b)` = `NumericRange(fieldname, a, b, startexcl, endexcl)`. -/
def parseRange (start end_ : Option (List Nat)) (sx ex : Bool) :
    Except Err (Option (Option Int × Option Int)) :=
  match start, end_ with
  | none, none => .ok none
  | _, _ => do
    let a ← match start with
      | none => pure none
      | some cs => (rangeBound cs true sx).map some
    let b ← match end_ with
      | none => pure none
      | some cs => (rangeBound cs false ex).map some
    pure (some (a, b))

/-- What `DATETIME.parse_query` returns. -/
inductive DQ where
  | error                    -- `query.error_query(e)`: matches nothing
  | range (a b : Int)        -- `NumericRange(fieldname, floor, ceil)` (inclusive)
  | term (a : Int)           -- `Term(fieldname, datetime)`: the full-precision term of that instant
  deriving DecidableEq, Repr

/-- `DATETIME.parse_query(fieldname, qstring)`.  (`floor`/`ceil` are called outside the `try`, hence
    `Except`; `WM.C13.parse_query_total` shows they cannot fail on a parsed date.) -/
def parseQuery (cs : List Nat) : Except Err DQ :=
  match parseDatestring cs with
  | .error _ => .ok .error
  | .ok p =>
    if p.ambiguous then do
      let f ← p.floor
      let c ← p.ceil
      pure (.range (civilToLong f) (civilToLong c))
    else do
      let f ← p.floor
      pure (.term (civilToLong f))

/-! ## column values (`sortable=True`) -/

/-- `NUMERIC.to_column_value(x)` on an integer field: `prepare_number`, then `to_sortable`. -/
def toColumnInt (n : Nat) (signed : Bool) (x : Int) : Except Err Int := do
  let x ← prepareInt n signed x
  pure (toSortableInt n signed x)

/-- `NUMERIC.from_column_value(x)` on an integer field (without `decimal_places`). -/
def fromColumnInt (n : Nat) (signed : Bool) (s : Int) : Int := fromSortableInt n signed s

/-- `NUMERIC.to_column_value(x)` on a float field (patterns). -/
def toColumnFloat (signed : Bool) (b : Nat) : Except Err Int := do
  let b ← prepareFloat signed b
  floatToSortable b signed

/-- `NUMERIC.from_column_value(x)` on a float field. -/
def fromColumnFloat (signed : Bool) (s : Int) : Except Err Nat := sortableToFloat s signed

/-- `NUMERIC.to_column_value` on a Decimal field. -/
def toColumnDecimal (n : Nat) (signed : Bool) (dc : Nat) (q : Rat) : Except Err Int := do
  let x ← prepareDecimal n signed dc q
  pure (toSortableInt n signed x)

/-- `NUMERIC.from_column_value` on a Decimal field. -/
def fromColumnDecimal (n : Nat) (signed : Bool) (dc : Nat) (s : Int) : Rat :=
  unprepareDecimal dc (fromSortableInt n signed s)

/-- `DATETIME.to_column_value(dt)`: the microsecond count itself (no `to_sortable` offset). -/
def toColumnDatetime (c : Civil) : Int := civilToLong c

/-- `DATETIME.from_column_value(x)` = `long_to_datetime(x)` as a timedelta since `datetime.min`. -/
def fromColumnDatetime (x : Int) : TD := longToTD x

/-! ## `long_to_datetime`: the inverse calendar (CPython `_ord2ymd`) -/

/-- The month/day step of `_ord2ymd` on the 0-based day of the year `n`:
    `month = (n + 50) >> 5`, corrected by one when the estimate is too far. -/
def monthDay (leap : Bool) (n : Nat) : Nat × Nat :=
  let month := (n + 50) >>> 5
  let preceding := daysBeforeMonth leap month
  if preceding > n then
    (month - 1, n - (preceding - daysInMonth leap (month - 1)) + 1)
  else (month, n - preceding + 1)

/-- `datetime._ord2ymd(n)`: 400/100/4/1-year cycles, then `monthDay`. -/
def ord2ymd (n : Nat) : Nat × Nat × Nat :=
  let n := n - 1
  let n400 := n / 146097
  let n := n % 146097
  let n100 := n / 36524
  let n := n % 36524
  let n4 := n / 1461
  let n := n % 1461
  let n1 := n / 365
  let n := n % 365
  let year := n400 * 400 + 1 + n100 * 100 + n4 * 4 + n1
  if n1 = 4 ∨ n100 = 4 then (year - 1, 12, 31)
  else
    let leap : Bool := decide (n1 = 3 ∧ (n4 ≠ 24 ∨ n100 = 3))
    let md := monthDay leap n
    (year, md.1, md.2)

/-- `long_to_datetime(x)` = `datetime.min + timedelta(days, seconds, microseconds)`; `none` is the
    `OverflowError` of a date outside years 1..9999. -/
def longToCivil (x : Int) : Option Civil :=
  let t := longToTD x
  if 0 ≤ t.days ∧ t.days ≤ 3652058 then
    let ymd := ord2ymd (t.days.toNat + 1)
    let s := t.seconds.toNat
    some ⟨ymd.1, ymd.2.1, ymd.2.2, s / 3600, s / 60 % 60, s % 60, t.micros.toNat⟩
  else none

/-! ## BOOLEAN -/

/-- What a BOOLEAN field can be handed, by how the code classifies it. -/
inductive BIn where
  | obj (b : Bool)               -- a bool, or any non-string object with that `bool()`
  | strTrue                      -- a string whose `lower()` is in `trues` (t, true, yes, 1)
  | strFalse                     -- a string whose `lower()` is in `falses` (f, false, no, 0)
  | strOther (nonempty : Bool)   -- any other string except "*"; `bool(x)` is `x != ""`
  | star                         -- the string "*"
  deriving DecidableEq, Repr

/-- `BOOLEAN._obj_to_bool(x)`. -/
def objToBool : BIn → Bool
  | .obj b => b
  | .strTrue => true
  | .strFalse => false
  | .strOther ne => ne
  | .star => true

/-- `BOOLEAN.to_bytes(x)` (`b"t"` = 116, `b"f"` = 102), after the `fix:` commit: one reading of a
    value at indexing and at query time.  Also the field's column value (`FieldType.to_column_value`
    is `to_bytes`; BOOLEAN has no `sortable` option). -/
def boolToBytes (x : BIn) : List Nat := [if objToBool x then 116 else 102]

/-- `BOOLEAN.to_bytes` of the pinned tree: a string is true only inside `trues`. -/
def boolToBytesOld : BIn → List Nat
  | .obj b => [if b then 116 else 102]
  | .strTrue => [116]
  | _ => [102]

/-- `BOOLEAN.index(bit)`: the single term of the document. -/
def boolIndex (x : BIn) : List (List Nat) := [boolToBytes x]

/-- What `BOOLEAN.parse_query` returns. -/
inductive BQ where
  | every                -- `Every(fieldname)` for "*"
  | term (b : Bool)      -- `Term(fieldname, <bool>)`, whose matcher looks up `to_bytes(<bool>)`
  deriving DecidableEq, Repr

/-- `BOOLEAN.parse_query(fieldname, qstring)`. -/
def boolParseQuery : BIn → BQ
  | .star => .every
  | x => .term (objToBool x)

/-- Does the query match a document that owns the terms `ts` in the field? -/
def BQ.matchesTerms : BQ → List (List Nat) → Bool
  | .every, ts => !ts.isEmpty
  | .term b, ts => ts.any (· == boolToBytes (.obj b))

end WM.NumericDate
