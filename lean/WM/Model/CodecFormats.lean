import WM.Model.Codec
/-
Layer M for C10, value codecs: mirror of `whoosh/formats.py` — `Existence`, `Frequency`,
`Positions`, `Characters`, `PositionBoosts`, `CharacterBoosts`: `word_values`, `encode`,
`decode_*`.

A token stream is what the analyzer produced (`Token`); analysis itself is not modelled here.
`struct` (`pack_uint`, `pack_float`) and `pickle` are identity parameters, so an encoded value is
the *structure* that is packed/pickled (`FValue`), not its bytes; `pack_float` keeps its float32
rounding as the parameter `f32`.
-/
namespace WM.Codec

/-- `analysis.Token` as the formats read it: `text, pos, startchar, endchar, boost`. -/
structure Token where
  text : String
  pos : Int
  startchar : Int
  endchar : Int
  boost : Rat
  deriving Repr, DecidableEq

/-- `d[k].append(v)` on a `defaultdict(list)` (dicts keep insertion order). -/
def dictAppend {β : Type} (d : List (String × List β)) (k : String) (v : β) : List (String × List β) :=
  match d with
  | [] => [(k, [v])]
  | (k', vs) :: rest => if k' = k then (k', vs ++ [v]) :: rest else (k', vs) :: dictAppend rest k v

/-- The accumulation loop `for t in tokens(...): seen[t.text].append(f(t))`. -/
def groupTokens {β : Type} (f : Token → β) (toks : List Token) : List (String × List β) :=
  toks.foldl (fun d t => dictAppend d t.text (f t)) []

/-- `x = 0; for b in xs: x += b` (also `weights[text] += t.boost` taken per key). -/
def sumR (xs : List Rat) : Rat := xs.foldl (· + ·) 0

/-- The posting formats. -/
inductive Fmt where
  | existence | frequency | positions | characters | positionBoosts | characterBoosts
  deriving Repr, DecidableEq

/-- `Format.posting_size` through `fixed_value_size()`. -/
def Fmt.fixedSize : Fmt → Option Nat
  | .existence => some 0
  | .frequency => some 4
  | _ => none

/-- An encoded posting value before `struct`/`pickle` turn it into bytes. -/
inductive FValue where
  | empty                                              -- `emptybytes`
  | freq (n : Nat)                                     -- `pack_uint(freq)`
  | positions (n : Nat) (deltas : List Int)            -- `pack_uint(len) + dumps(deltas)`
  | chars (n : Nat) (codes : List (Int × Int × Int))
  | posBoosts (n : Nat) (summed : Rat) (codes : List (Int × Rat))
  | charBoosts (n : Nat) (summed : Rat) (codes : List (Int × Int × Int × Rat))
  deriving Repr, DecidableEq

/-- `Positions.encode(poslist)`: the delta loop is `delta_encode`. -/
def encodePositions (poslist : List Int) : FValue := .positions poslist.length (deltaEncode poslist)

/-- `Characters.encode(poslist)` delta loop. -/
def encodeCharsAux (posbase charbase : Int) : List (Int × Int × Int) → List (Int × Int × Int)
  | [] => []
  | (pos, sc, ec) :: rest => (pos - posbase, sc - charbase, ec - sc) :: encodeCharsAux pos ec rest

def encodeChars (l : List (Int × Int × Int)) : FValue := .chars l.length (encodeCharsAux 0 0 l)

/-- `PositionBoosts.encode(poses)` delta loop. -/
def encodePosBoostsAux (base : Int) : List (Int × Rat) → List (Int × Rat)
  | [] => []
  | (pos, boost) :: rest => (pos - base, boost) :: encodePosBoostsAux pos rest

def encodePosBoosts (f32 : Rat → Rat) (l : List (Int × Rat)) : FValue :=
  .posBoosts l.length (f32 (sumR (l.map (·.2)))) (encodePosBoostsAux 0 l)

/-- `CharacterBoosts.encode(poses)` delta loop. -/
def encodeCharBoostsAux (posbase charbase : Int) :
    List (Int × Int × Int × Rat) → List (Int × Int × Int × Rat)
  | [] => []
  | (pos, sc, ec, boost) :: rest =>
    (pos - posbase, sc - charbase, ec - sc, boost) :: encodeCharBoostsAux pos ec rest

/-- Returns `(value, summedboost)` like the Python method. -/
def encodeCharBoosts (f32 : Rat → Rat) (fb : Rat) (l : List (Int × Int × Int × Rat)) : FValue × Rat :=
  let summed := sumR (l.map (·.2.2.2))
  (.charBoosts l.length (f32 (summed * fb)) (encodeCharBoostsAux 0 0 l), summed)

/-- `Format.word_values(value, analyzer)` on the analyzed token stream: a list of
    `(text, frequency, weight, value)` in dict order.  (`Existence` goes through a `set`; the
    harness sorts, so first-occurrence order is used here too.)
    `CharacterBoosts`: with the repair `fix: CharacterBoosts.word_values ignores field_boost`
    the weight is `summedboost * field_boost` like in every other format. -/
def wordValues (f32 : Rat → Rat) (fmt : Fmt) (fb : Rat) (toks : List Token) :
    List (String × Nat × Rat × FValue) :=
  match fmt with
  | .existence =>
    (groupTokens (fun _ => ()) toks).map fun (w, _) => (w, 1, fb, .empty)
  | .frequency =>
    (groupTokens (·.boost) toks).map fun (w, bs) => (w, bs.length, sumR bs * fb, .freq bs.length)
  | .positions =>
    (groupTokens (fun t => (t.pos, t.boost)) toks).map fun (w, l) =>
      (w, l.length, sumR (l.map (·.2)) * fb, encodePositions (l.map (·.1)))
  | .characters =>
    (groupTokens (fun t => ((t.pos, t.startchar, t.endchar), t.boost)) toks).map fun (w, l) =>
      (w, l.length, sumR (l.map (·.2)) * fb, encodeChars (l.map (·.1)))
  | .positionBoosts =>
    (groupTokens (fun t => (t.pos, t.boost)) toks).map fun (w, l) =>
      (w, l.length, sumR (l.map (·.2)) * fb, encodePosBoosts f32 l)
  | .characterBoosts =>
    (groupTokens (fun t => (t.pos, t.startchar, t.endchar, t.boost)) toks).map fun (w, l) =>
      let (v, summed) := encodeCharBoosts f32 fb l
      (w, l.length, summed * fb, v)

/-! ### Decoders -/

/-- `decode_frequency` (per format). -/
def decodeFrequency : FValue → Option Nat
  | .empty => some 1                     -- `Existence.decode_frequency` ignores the value
  | .freq n => some n
  | .positions n _ => some n
  | .chars n _ => some n
  | .posBoosts n _ _ => some n
  | .charBoosts n _ _ => some n

/-- `decode_positions` (per format): running sum of the first components. -/
def decodePositions : FValue → Option (List Int)
  | .positions _ ds => some (deltaDecode ds)
  | .chars _ cs => some (deltaDecode (cs.map (·.1)))
  | .posBoosts _ _ cs => some (deltaDecode (cs.map (·.1)))
  | .charBoosts _ _ cs => some (deltaDecode (cs.map (·.1)))
  | _ => none

/-- `Characters.decode_characters` loop. -/
def decodeCharsAux (position endchar : Int) : List (Int × Int × Int) → List (Int × Int × Int)
  | [] => []
  | (a, b, c) :: rest =>
    let position := a + position
    let startchar := b + endchar
    let endchar := c + startchar
    (position, startchar, endchar) :: decodeCharsAux position endchar rest

/-- `CharacterBoosts.decode_character_boosts` loop. -/
def decodeCharBoostsAux (position endchar : Int) :
    List (Int × Int × Int × Rat) → List (Int × Int × Int × Rat)
  | [] => []
  | (a, b, c, boost) :: rest =>
    let position := position + a
    let startchar := endchar + b
    let endchar := startchar + c
    (position, startchar, endchar, boost) :: decodeCharBoostsAux position endchar rest

/-- `decode_characters`. -/
def decodeCharacters : FValue → Option (List (Int × Int × Int))
  | .chars _ cs => some (decodeCharsAux 0 0 cs)
  | .charBoosts _ _ cs => some ((decodeCharBoostsAux 0 0 cs).map fun (p, s, e, _) => (p, s, e))
  | _ => none

/-- `PositionBoosts.decode_position_boosts` loop. -/
def decodePosBoostsAux (position : Int) : List (Int × Rat) → List (Int × Rat)
  | [] => []
  | (a, boost) :: rest => (a + position, boost) :: decodePosBoostsAux (a + position) rest

/-- `decode_position_boosts` (`Positions`/`Characters` report boost 1). -/
def decodePositionBoosts : FValue → Option (List (Int × Rat))
  | .positions _ ds => some ((deltaDecode ds).map fun p => (p, 1))
  | .chars _ cs => some ((deltaDecode (cs.map (·.1))).map fun p => (p, 1))
  | .posBoosts _ _ cs => some (decodePosBoostsAux 0 cs)
  | .charBoosts _ _ cs => some ((decodeCharBoostsAux 0 0 cs).map fun (p, _, _, b) => (p, b))
  | _ => none

/-- `decode_character_boosts`. -/
def decodeCharacterBoosts : FValue → Option (List (Int × Int × Int × Rat))
  | .charBoosts _ _ cs => some (decodeCharBoostsAux 0 0 cs)
  | _ => none

end WM.Codec

namespace WM.Codec

/-- `SegmentWriter.add_document`, vector part:
    `sorted((text, weight, vbytes) for text, _, weight, vbytes in vformat.word_values(...))`.
    Tuples are compared by their first component first and the texts are distinct, so the order is
    the order of the texts. -/
def vectorItems (f32 : Rat → Rat) (vfmt : Fmt) (fb : Rat) (toks : List Token) :
    List (String × Rat × FValue) :=
  ((wordValues f32 vfmt fb toks).map fun x => (x.1, x.2.2.1, x.2.2.2)).mergeSort
    (fun a b => decide (a.1 ≤ b.1))

end WM.Codec
