import WM.Spec.Rank
/-
Layer M, collector layer (`whoosh/collectors.py`) over *abstract* matchers.

A matcher is seen by a collector only through `is_active / id / score / next / replace /
skip_to_quality / supports_block_quality`.  Here a matcher is the list of postings it would still
yield (ascending segment-relative document numbers), and the two optimisation entry points are an
**arbitrary schedule of wishes**: each iteration of the collection loop consumes one `Step` of the
schedule which says, for a `replace(minscore)` and for a `skip_to_quality(minscore)` issued in that
iteration, what should happen to every pending posting — keep it, drop it, or lower its score
(a union that moved one of its sub-matchers past the document) — and how many leading postings
`skip_to_quality` skips and reports.  The model honours a wish only if the threshold the collector
passed is not 0 ("no threshold") and the posting scores `≤` it, and never raises a score — this is
the C12 contract `WM.Matcher.Keeps` (`WM.C05.contract_covered`: every outcome `Keeps` allows is the
outcome of some list of wishes); `replace(0)` changes nothing.  Everything else — when the collector calls `replace`, with which
(possibly stale) threshold, when it calls `skip_to_quality`, how `minscore` moves, the heap, the
segment loop, the wrapping collectors — mirrors the Python line by line.
-/
namespace WM.Collect
open WM.Rank

/-- Python exceptions raised at modelled sites. -/
inductive Err where
  | indexError   -- `items[0]` on an empty list
  | keyError     -- `Collector.remove` of an unknown document
  | valueError   -- `Searcher.collector(limit < 1)`, `ResultsPage(pagenum < 1)`
deriving DecidableEq, Repr

/-- One posting as a collector observes it. `newBlock` is what `matcher.next()` returns when the
    matcher lands on this posting ("entered a new block"). -/
structure Posting where
  doc : Nat
  /-- the score the matcher reports for the posting now -/
  score : Rat
  newBlock : Bool
  /-- the score the posting had when the matcher was created (what an exhaustive search sees).
      `replace`/`skip_to_quality` may *lower* `score` for postings at or below their threshold (a
      union that skipped one sub-matcher past the document, C12 `Dominated`); `orig` never changes.
      Inputs have `orig = score`. -/
  orig : Rat
deriving DecidableEq, Repr, Inhabited

/-- A fresh posting (`orig = score`). -/
def Posting.mk' (doc : Nat) (score : Rat) (newBlock : Bool) : Posting := ⟨doc, score, newBlock, score⟩

/-- The posting as the exhaustive search sees it. -/
def Posting.origP (p : Posting) : Posting := { p with score := p.orig }

/-- What a `replace`/`skip_to_quality` call would like to do to one pending posting. -/
inductive Wish where
  | keep
  | drop
  | lower (s : Rat)
deriving DecidableEq, Repr, Inhabited

/-- One element of the drop schedule, consumed by one iteration of `ScoredCollector.matches`. -/
structure Step where
  /-- `replace()`: what happens to the i-th pending posting — only if its score is `≤` the (non-zero)
      threshold: dropped, or its score lowered (never raised). -/
  mask : List Wish
  /-- what `supports_block_quality()` answers on the matcher returned by `replace()` -/
  supports : Bool
  /-- `skip_to_quality()`: at most this many leading postings are skipped, each only if its score is
      `≤` the threshold -/
  skip : Nat
  /-- `skip_to_quality()`: what happens to the postings that are not skipped as a prefix (same rule
      as `mask`: sub-matchers of a compound skip individually) -/
  skipMask : List Wish := []
deriving Repr, Inhabited

def Step.none : Step := { mask := [], supports := true, skip := 0 }

/-- `matcher.replace(thr)` under the schedule (C12 contract `Keeps thr`): postings scoring above
    `thr` are untouched; a posting at or below `thr` may be dropped or have its score lowered. A
    threshold of 0 is "no threshold": `replace(0)` only simplifies the tree and changes nothing
    (every `replace` of whoosh tests `if minquality and …`; C11 `replace0` of the matcher family). -/
def dropMasked (thr : Rat) : List Wish → List Posting → List Posting
  | _, [] => []
  | [], ps => ps
  | w :: ws, p :: ps =>
    if thr != 0 && decide (p.score ≤ thr) then
      match w with
      | .keep => p :: dropMasked thr ws ps
      | .drop => dropMasked thr ws ps
      | .lower s => (if s ≤ p.score then { p with score := s } else p) :: dropMasked thr ws ps
    else p :: dropMasked thr ws ps

/-- The block-skipping part of `matcher.skip_to_quality(thr)` under the schedule: returns the
    matcher and the number skipped. -/
def skipDrop (thr : Rat) : Nat → List Posting → List Posting × Nat
  | 0, ps => (ps, 0)
  | _ + 1, [] => ([], 0)
  | n + 1, p :: ps =>
    if p.score ≤ thr then
      let r := skipDrop thr n ps
      (r.1, r.2 + 1)
    else (p :: ps, 0)

theorem dropMasked_length_le (thr : Rat) (mask : List Wish) (ps : List Posting) :
    (dropMasked thr mask ps).length ≤ ps.length := by
  induction ps generalizing mask with
  | nil => cases mask <;> simp [dropMasked]
  | cons p ps ih =>
    cases mask with
    | nil => simp [dropMasked]
    | cons b bs =>
      have := ih bs
      simp only [dropMasked]
      split
      · cases b <;> simp only [List.length_cons] <;> omega
      · simp only [List.length_cons]; omega

theorem skipDrop_length_le (thr : Rat) (n : Nat) (ps : List Posting) :
    (skipDrop thr n ps).1.length ≤ ps.length := by
  induction n generalizing ps with
  | zero => simp [skipDrop]
  | succ n ih =>
    cases ps with
    | nil => simp [skipDrop]
    | cons p ps =>
      simp only [skipDrop]
      split
      · have := ih ps; simp only [List.length_cons]; omega
      · simp

/-! ### The heap of `TopCollector` -/

/-- Tuple order of the heap entries `(score, 0 - docnum)`. -/
def heapLe (a b : Hit) : Bool :=
  decide (a.score < b.score) || (a.score == b.score && decide (b.doc ≤ a.doc))

/-- `heapq.heappush` on the heap kept as an ascending list (`items[0]` is the head). `heapq` itself
    is trusted (DESIGN §7); the array layout of the heap is not observable. -/
def heapPush (e : Hit) : List Hit → List Hit
  | [] => [e]
  | h :: t => if heapLe e h then e :: h :: t else h :: heapPush e t

/-- State of a `TopCollector` (`prepare` initialises it). -/
structure TopState where
  items : List Hit := []
  minscore : Rat := 0
  total : Int := 0
deriving Repr, Inhabited

/-- `collectors.py: TopCollector._collect`. -/
def TopState.collect (limit : Nat) (st : TopState) (h : Hit) : Except Err TopState :=
  let st := { st with total := st.total + 1 }
  if st.items.length < limit then
    .ok { st with items := heapPush h st.items }
  else
    match st.items with
    | [] => .error .indexError   -- `items[0][0]` with `limit = 0`
    | m :: rest =>
      if m.score < h.score then
        -- `heapreplace` then `self.minscore = items[0][0]`
        match heapPush h rest with
        | [] => .error .indexError   -- unreachable: `heapPush` never returns `[]`
        | x :: xs => .ok { st with items := x :: xs, minscore := x.score }
      else .ok st

/-- `collectors.py: TopCollector.remove` (after `fix: TopCollector.remove keeps minscore…`):
    pop the entry of that document if it is still on the heap, re-heapify; the heap is then no longer
    full, so there is no score to beat: `minscore = 0`. Documents the heap forgot are ignored. -/
def TopState.remove (st : TopState) (doc : Nat) : TopState :=
  -- `self.total -= 1` (after `fix: documents replaced by collapsing are … no longer [counted] as matched`)
  let st := { st with total := st.total - 1 }
  if st.items.any (fun h => h.doc == doc) then
    { st with items := st.items.eraseP (fun h => h.doc == doc), minscore := 0 }
  else st

/-- `collectors.py: TopCollector.results`: `items.sort(reverse=True)` and de-negation. -/
def TopState.results (st : TopState) : List Hit := st.items.reverse

/-! ### `ScoredCollector.matches` -/

structure Cfg where
  /-- `TopCollector(limit=…)` -/
  limit : Nat
  /-- `ScoredCollector(replace=10)` -/
  replace : Nat := 10
  /-- `TopCollector(usequality=…)` -/
  usequality : Bool := true
  /-- `weighting.use_final` -/
  useFinal : Bool := false
deriving Repr

/-- Local variables of the generator `ScoredCollector.matches` (besides the matcher). -/
structure Locals where
  supports : Bool        -- `matcher.supports_block_quality()` of the current matcher
  minscore : Rat
  usequality : Bool
  replacecounter : Nat
  checkquality : Bool
deriving Repr

/-- What the rest of the world sees of the optimisations (`replaced_times`, `skipped_times`, and the
    thresholds handed to the matcher; compared with the real calls in the correspondence run,
    irrelevant for every theorem). -/
structure Trace where
  replaced : Nat := 0
  skipped : Nat := 0
  thresholds : List Rat := []
  /-- `self.may_have_dropped` (after `fix: TopCollector.count is only exact when…`): `replace` was
      handed a non-zero `minscore`, or `skip_to_quality` was called -/
  mayHaveDropped : Bool := false
  /-- `self.matcher.supports_block_quality()` of the collector's current matcher object -/
  supports : Bool := true
deriving Repr, Inhabited

/-- `_use_block_quality()` of `TopCollector`. -/
def useBlockQuality (cfg : Cfg) (supports : Bool) : Bool :=
  cfg.usequality && !cfg.useFinal && supports

/-- The threshold `ScoredCollector.matches` hands to `matcher.replace()`: the local `minscore`, but 0
    (structural replacement only) when the weighting has a `final()` hook — `minscore` is then in
    `final()` units (`fix: ScoredCollector.matches must not prune … final()-scaled minscore`) — or when
    the current matcher does not support quality (`fix: … only passes minscore to replace() when the
    matcher supports quality`). -/
def replaceThreshold (cfg : Cfg) (lv : Locals) : Rat :=
  if cfg.useFinal || !lv.supports then 0 else lv.minscore

/-- The `if replace:` paragraph of `ScoredCollector.matches`. `selfMin` is `self.minscore`.
    The last component says that the loop `break`s (the replaced matcher is inactive).

    The threshold is `replaceThreshold`. -/
def replacePhase (cfg : Cfg) (selfMin : Rat) (step : Step) (m : List Posting) (lv : Locals) (tr : Trace) :
    List Posting × Locals × Trace × Bool :=
  if cfg.replace != 0 then
    if lv.replacecounter == 0 || selfMin != lv.minscore then
      let thr := replaceThreshold cfg lv
      let m1 := dropMasked thr step.mask m
      let tr1 : Trace := { tr with replaced := tr.replaced + 1, thresholds := thr :: tr.thresholds,
                                   mayHaveDropped := tr.mayHaveDropped || thr != 0,
                                   supports := step.supports }
      if m1.isEmpty then (m1, lv, tr1, true)
      else
        let lv1 : Locals := { lv with supports := step.supports,
                                      usequality := useBlockQuality cfg step.supports,
                                      replacecounter := cfg.replace }
        let lv2 : Locals := if selfMin != lv.minscore then { lv1 with checkquality := true, minscore := selfMin }
                            else lv1
        (m1, { lv2 with replacecounter := lv2.replacecounter - 1 }, tr1, false)
    else (m, { lv with replacecounter := lv.replacecounter - 1 }, tr, false)
  else (m, lv, tr, false)

/-- `if usequality and checkquality and minscore: self.skipped_times += matcher.skip_to_quality(minscore)`
    (after `fix: ScoredCollector.matches does not call skip_to_quality() while there is no minimum
    score`: `minscore = 0` means the heap is not full yet). -/
def skipPhase (step : Step) (m : List Posting) (lv : Locals) (tr : Trace) : List Posting × Trace :=
  if lv.usequality && lv.checkquality && lv.minscore != 0 then
    let r := skipDrop lv.minscore step.skip m
    (dropMasked lv.minscore step.skipMask r.1,
     { tr with skipped := tr.skipped + r.2, thresholds := lv.minscore :: tr.thresholds,
               mayHaveDropped := true })
  else (m, tr)

theorem replacePhase_length_le (cfg : Cfg) (selfMin : Rat) (step : Step) (m : List Posting) (lv : Locals)
    (tr : Trace) : (replacePhase cfg selfMin step m lv tr).1.length ≤ m.length := by
  unfold replacePhase
  dsimp only
  repeat' split
  all_goals first
    | exact dropMasked_length_le _ _ _
    | exact Nat.le_refl _

theorem skipPhase_length_le (step : Step) (m : List Posting) (lv : Locals) (tr : Trace) :
    (skipPhase step m lv tr).1.length ≤ m.length := by
  unfold skipPhase
  split
  · exact Nat.le_trans (dropMasked_length_le _ _ _) (skipDrop_length_le _ _ _)
  · exact Nat.le_refl _

/-- What `matcher.next()` returns to the collector ("entered a new block") when the pending postings
    after the step are `rest`; running off the end of a posting list reports a block change. -/
def nextFlag : List Posting → Bool
  | [] => true
  | q :: _ => q.newBlock

/--
`collectors.py: ScoredCollector.matches` interleaved with its consumer (`collect_matches` of the
outermost collector): `consume c off p` is what the collector stack does with the yielded posting,
`minOf c` reads `self.minscore` of the scored collector at the bottom of the stack. Every
iteration of the `while matcher.is_active()` loop consumes one `Step` of the schedule.
-/
def matchesLoop {σ : Type} (cfg : Cfg) (consume : σ → Nat → Posting → Except Err σ) (minOf : σ → Rat)
    (off : Nat) (sched : List Step) (m : List Posting) (lv : Locals) (c : σ) (tr : Trace) :
    Except Err (σ × List Step × Trace) :=
  if m.isEmpty then .ok (c, sched, tr) else
  let step := sched.headD Step.none
  let r := replacePhase cfg (minOf c) step m lv tr
  if r.2.2.2 then .ok (c, sched.tail, r.2.2.1) else
  let s := skipPhase step r.1 r.2.1 r.2.2.1
  match hs : s.1 with
  | [] => .ok (c, sched.tail, s.2)     -- the skip ran off the end of the posting list
  | p :: rest =>
    match consume c off p with
    | .error e => .error e
    | .ok c' =>
      -- `checkquality = matcher.next()`
      matchesLoop cfg consume minOf off sched.tail rest { r.2.1 with checkquality := nextFlag rest } c' s.2
termination_by m.length
decreasing_by
  have h1 : r.1.length ≤ m.length := replacePhase_length_le cfg (minOf c) step m lv tr
  have h2 : s.1.length ≤ r.1.length := skipPhase_length_le step r.1 r.2.1 r.2.2.1
  rw [hs] at h2
  simp only [List.length_cons] at h2
  omega

/-- One segment as the collector meets it: document-number offset, the postings the query's
    matcher yields there, and whether that matcher supports block quality. -/
structure Seg where
  off : Nat
  supports : Bool
  postings : List Posting
deriving Repr, Inhabited

/-- `Collector.run`: for each leaf searcher `set_subsearcher` (fresh matcher) and
    `collect_matches` (the generator starts with `minscore = self.minscore`, `replacecounter = 0`,
    `checkquality = True`). -/
def runSegs {σ : Type} (cfg : Cfg) (consume : σ → Nat → Posting → Except Err σ) (minOf : σ → Rat) :
    List Seg → List Step → σ → Trace → Except Err (σ × List Step × Trace)
  | [], sched, c, tr => .ok (c, sched, tr)
  | s :: segs, sched, c, tr =>
    match matchesLoop cfg consume minOf s.off sched s.postings
        { supports := s.supports, minscore := minOf c,
          usequality := useBlockQuality cfg s.supports, replacecounter := 0, checkquality := true } c
        { tr with supports := s.supports } with
    | .error e => .error e
    | .ok (c', sched', tr') => runSegs cfg consume minOf segs sched' c' tr'

/-- The hit a posting becomes in `ScoredCollector.collect`: global document number
    `self.offset + sub_docnum`, score through the weighting's `final()` hook if it has one. -/
def toHit (cfg : Cfg) (final : Nat → Rat → Rat) (off : Nat) (p : Posting) : Hit :=
  ⟨off + p.doc, if cfg.useFinal then final (off + p.doc) p.score else p.score⟩

/-- `ScoredCollector.collect` of a `TopCollector`: `toHit`, then `_collect`. -/
def topConsume (cfg : Cfg) (final : Nat → Rat → Rat) (st : TopState) (off : Nat) (p : Posting) :
    Except Err TopState :=
  st.collect cfg.limit (toHit cfg final off p)

/-- `TopCollector.count()` after the run (`len(results)`): `self.total` when `computes_count()`
    (nothing may have been dropped and the current matcher does not use block quality), otherwise
    `ilen(docs_for_query(q))` = `nAll`. -/
def topCount (cfg : Cfg) (st : TopState) (tr : Trace) (nAll : Nat) : Int :=
  if !(tr.mayHaveDropped || useBlockQuality cfg tr.supports) then st.total else nAll

/-- `searcher.search_with_collector(q, TopCollector(limit, …))` then `results()`. -/
def collectTop (cfg : Cfg) (final : Nat → Rat → Rat) (segs : List Seg) (sched : List Step) :
    Except Err (List Hit) :=
  match runSegs cfg (topConsume cfg final) (fun st => st.minscore) segs sched {} {} with
  | .error e => .error e
  | .ok (st, _, _) => .ok st.results

/-- The hits the query has in the index: every posting of every segment, with global document
    numbers and (if the weighting has one) the `final()` hook applied. -/
def allHits (cfg : Cfg) (final : Nat → Rat → Rat) (segs : List Seg) : List Hit :=
  segs.flatMap fun s => s.postings.map (toHit cfg final s.off)

/-- Global document numbers in the order the collector meets them. -/
def globalDocs (segs : List Seg) : List Nat :=
  segs.flatMap fun s => s.postings.map fun p => s.off + p.doc

/-- `UnlimitedCollector._collect`: append `(score, global_docnum)` (the `docset` is the set of those
    document numbers). `ScoredCollector.collect` applies the `final()` hook first. -/
def unlConsume (cfg : Cfg) (final : Nat → Rat → Rat) (items : List Hit) (off : Nat) (p : Posting) :
    Except Err (List Hit) :=
  .ok (items ++ [toHit cfg final off p])

/-- `search_with_collector(q, UnlimitedCollector(reverse))` then `results()`:
    the same generator (`_use_block_quality()` is `False`, `self.minscore` stays 0, so every
    `replace` gets threshold 0), then `items.sort(key=(0 - score, docnum), reverse=reverse)`;
    the keys are pairwise different, so the reversed sort is the reversed list. -/
def collectUnlimited (replace : Nat) (useFinal : Bool) (final : Nat → Rat → Rat) (reverse : Bool)
    (segs : List Seg) (sched : List Step) : Except Err (List Hit) :=
  let cfg : Cfg := { limit := 0, replace := replace, usequality := false, useFinal := useFinal }
  match runSegs cfg (unlConsume cfg final) (fun _ => 0) segs sched [] {} with
  | .error e => .error e
  | .ok (items, _, _) =>
    let sorted := items.mergeSort rankLe
    .ok (if reverse then sorted.reverse else sorted)

/-! ## Wrapping collectors, sorting, facets, collapsing, results, pages (C14, C05.with_wrappers)

Documents reach these collectors as **global document numbers in collection order**
(`Collector.matches`: ascending inside a segment, segments in offset order); sort keys, facet names
and collapse keys are functions of the document supplied by the caller ("key level": what a
categorizer of `sorting.py` answers for the document).  A sort key is a tuple of numbers
(`MultiCategorizer` tuples; a single facet — a rank, a column number, `0 - score` — is a 1-tuple,
which orders the same way; byte-string keys of text columns are represented by their rank). -/

abbrev Key := List Rat

/-- Python tuple order on numeric tuples (lexicographic, a proper prefix is smaller). -/
def keyLe : Key → Key → Bool
  | [], _ => true
  | _ :: _, [] => false
  | a :: as, b :: bs => decide (a < b) || (a == b && keyLe as bs)

/-- `(sortkey, docnum)` tuples compare by key, then document number. -/
def kdLe (a b : Key × Nat) : Bool :=
  (keyLe a.1 b.1 && !keyLe b.1 a.1) || (keyLe a.1 b.1 && keyLe b.1 a.1 && decide (a.2 ≤ b.2))

/-- `collectors.py: SortingCollector` — `collect` appends `(sortkey, global_docnum)`, `results` does
    `items.sort(reverse=self.reverse)` (a stable descending sort when reversed) and
    `if self.limit: items = items[:self.limit]` (`limit` 0/None keeps everything). -/
def sortingResults (key : Nat → Key) (limit : Option Nat) (reverse : Bool) (docs : List Nat) : List (Key × Nat) :=
  let items := docs.map fun d => (key d, d)
  let sorted := if reverse then items.mergeSort (fun a b => kdLe b a) else items.mergeSort kdLe
  match limit with
  | none => sorted
  | some 0 => sorted
  | some n => sorted.take n

/-- The test of `collectors.py: FilterCollector.collect_matches` (after `fix: an empty filter set …
    allows nothing`): `_allow`/`_restrict` are `None` or id sets;
    `(_allow is not None and docnum not in _allow) or (_restrict is not None and docnum in _restrict)`. -/
def refuses (allow restrict : Option (List Nat)) (g : Nat) : Bool :=
  (match allow with | some a => !a.contains g | none => false) ||
  (match restrict with | some r => r.contains g | none => false)

/-- `FilterCollector.collect_matches`: a document is passed on unless it is refused. Returns the
    passed documents and `filtered_count`. -/
def filterDocs (allow restrict : Option (List Nat)) (docs : List Nat) : List Nat × Nat :=
  (docs.filter fun d => !refuses allow restrict d, (docs.filter fun d => refuses allow restrict d).length)

/-! ### facet maps (`sorting.py`) -/

/-- Insertion-ordered dictionary from group names to values (Python `dict`/`defaultdict`). -/
def dictUpdate {α : Type} (name : Int) (dflt : α) (f : α → α) : List (Int × α) → List (Int × α)
  | [] => [(name, f dflt)]
  | (n, v) :: rest => if n == name then (n, f v) :: rest else (n, v) :: dictUpdate name dflt f rest

/-- `FacetCollector.collect` for one facet: every name of the document (one for an ordinary facet,
    several with `allow_overlap`) gets `add(name, global_docnum, sortkey)`.
    `sorting.py: OrderedList.add` appends `(sortkey, docid)`. -/
def facetAddOrdered (names : List Int) (sortkey : Key) (doc : Nat)
    (m : List (Int × List (Key × Nat))) : List (Int × List (Key × Nat)) :=
  names.foldl (fun m n => dictUpdate n [] (fun l => l ++ [(sortkey, doc)]) m) m

/-- `OrderedList.as_dict`: `[docnum for _, docnum in sorted(items)]` per group. -/
def orderedAsDict (m : List (Int × List (Key × Nat))) : List (Int × List Nat) :=
  m.map fun (n, items) => (n, (items.mergeSort kdLe).map (·.2))

/-- `FacetCollector` + `OrderedList` over the collected documents. `skey d` is what the child
    collector's `collect` returned for `d`. -/
def facetOrdered (names : Nat → List Int) (skey : Nat → Key) (docs : List Nat) : List (Int × List Nat) :=
  orderedAsDict (docs.foldl (fun m d => facetAddOrdered (names d) (skey d) d m) [])

/-- `UnorderedList`: document numbers in collection order. -/
def facetUnordered (names : Nat → List Int) (docs : List Nat) : List (Int × List Nat) :=
  docs.foldl (fun m d => (names d).foldl (fun m n => dictUpdate n [] (fun l => l ++ [d]) m) m) []

/-- `Count`. -/
def facetCount (names : Nat → List Int) (docs : List Nat) : List (Int × Nat) :=
  docs.foldl (fun m d => (names d).foldl (fun m n => dictUpdate n 0 (· + 1) m) m) []

/-- `Best.add`: keep the document with the smallest sort key (`sortkey < bestkeys[name]`, the first
    one on ties). -/
def facetBest (names : Nat → List Int) (skey : Nat → Key) (docs : List Nat) : List (Int × (Key × Nat)) :=
  docs.foldl (fun m d => (names d).foldl (fun m n =>
    dictUpdate n (skey d, d) (fun cur => if keyLe (skey d) cur.1 && !keyLe cur.1 (skey d) then (skey d, d) else cur) m) m) []

/-! ### collapsing -/

/-- `bisect.insort` of `(sortkey, docnum)` into an ascending list (after equal elements). -/
def insortKD (x : Key × Nat) : List (Key × Nat) → List (Key × Nat)
  | [] => [x]
  | y :: ys => if kdLe y x then y :: insortKD x ys else x :: y :: ys

structure CollapseSt where
  /-- `self.lists`: per collapse key the best `(sortkey, docnum)` so far, ascending -/
  lists : List (Int × List (Key × Nat)) := []
  /-- `self.collapsed_counts` -/
  counts : List (Int × Nat) := []
  /-- documents currently held by the child collector, in collection order -/
  kept : List Nat := []
deriving Repr, Inhabited

def dictGet {α : Type} (name : Int) (dflt : α) (m : List (Int × α)) : α :=
  match m.find? (fun p => p.1 == name) with
  | some p => p.2
  | none => dflt

/-- `collectors.py: CollapseCollector.collect` (after `fix: CollapseCollector collapses in
    collect()` and `fix: documents replaced by collapsing are counted…`). `ckey d = none` is a missing/empty
    key (`None`, `''`, `b''`; after `fix: CollapseCollector collapses documents whose key is 0` the
    number 0 is a key like any other). The child collector is abstracted to the list of
    documents it currently holds (`child.collect` appends, `child.remove` deletes). -/
def collapseCollect (ckey : Nat → Option Int) (skey : Nat → Key) (limit : Nat) (st : CollapseSt) (d : Nat) :
    Except Err CollapseSt :=
  match ckey d with
  | none => .ok { st with kept := st.kept ++ [d] }
  | some c =>
    let best := dictGet c [] st.lists
    if best.length < limit then
      .ok { st with lists := dictUpdate c [] (fun _ => insortKD (skey d, d) best) st.lists,
                    kept := st.kept ++ [d] }
    else
      match best.getLast? with
      | none => .error .indexError   -- `best[-1]` with `limit = 0`
      | some worst =>
        if keyLe (skey d) worst.1 && !keyLe worst.1 (skey d) then
          -- `child.remove(best.pop()[1])`, count it, insort, `child.collect`
          .ok { lists := dictUpdate c [] (fun _ => insortKD (skey d, d) best.dropLast) st.lists,
                counts := dictUpdate c 0 (· + 1) st.counts,
                kept := st.kept.filter (· != worst.2) ++ [d] }
        else
          .ok { st with counts := dictUpdate c 0 (· + 1) st.counts }

def collapseRun (ckey : Nat → Option Int) (skey : Nat → Key) (limit : Nat) :
    List Nat → CollapseSt → Except Err CollapseSt
  | [], st => .ok st
  | d :: ds, st =>
    match collapseCollect ckey skey limit st d with
    | .error e => .error e
    | .ok st' => collapseRun ckey skey limit ds st'

/-! ### the wrapper stack of `Searcher.collector` over a `TopCollector` (C05.with_wrappers)

`Searcher.collector` builds `FilterCollector(CollapseCollector(TermsCollector(TopCollector)))`
(each layer optional). `FilterCollector.collect_matches` drives the generator of the bottom
collector and hands the surviving documents to `CollapseCollector.collect`, which talks to the
`TopCollector` through `collect` / `remove` / `sort_key`. `TermsCollector` only records terms. -/

structure Wrap where
  allow : Option (List Nat) := none
  restrict : Option (List Nat) := none
  /-- collapse facet: `ckey` (none = no key: `None`, `''`, `b''`), `limit`, optional order facet -/
  collapse : Option ((Nat → Option Int) × Nat × Option (Nat → Key)) := none

structure StackSt where
  top : TopState := {}
  lists : List (Int × List (Key × Nat)) := []
  counts : List (Int × Nat) := []
  filtered : Nat := 0
deriving Repr, Inhabited

/-- One document through `FilterCollector.collect_matches` → `CollapseCollector.collect` →
    `TopCollector.collect`. -/
def stackConsume (cfg : Cfg) (final : Nat → Rat → Rat) (w : Wrap) (st : StackSt) (off : Nat) (p : Posting) :
    Except Err StackSt :=
  let g := off + p.doc
  if refuses w.allow w.restrict g then .ok { st with filtered := st.filtered + 1 }
  else
    let collectTop := fun (st : StackSt) =>
      match st.top.collect cfg.limit (toHit cfg final off p) with
      | .error e => Except.error e
      | .ok t => Except.ok { st with top := t }
    match w.collapse with
    | none => collectTop st
    | some (ckey, climit, order) =>
      match ckey g with
      | none => collectTop st
      | some c =>
        -- `orderer.key_for(...)` or `child.sort_key(sub_docnum)` = `0 - self.matcher.score()`
        let sortkey : Key := match order with
          | some o => o g
          | none => [0 - p.score]
        let best := dictGet c [] st.lists
        if best.length < climit then
          collectTop { st with lists := dictUpdate c [] (fun _ => insortKD (sortkey, g) best) st.lists }
        else
          match best.getLast? with
          | none => .error .indexError
          | some worst =>
            if keyLe sortkey worst.1 && !keyLe worst.1 sortkey then
              collectTop { st with top := st.top.remove worst.2,
                                   lists := dictUpdate c [] (fun _ => insortKD (sortkey, g) best.dropLast) st.lists,
                                   counts := dictUpdate c 0 (· + 1) st.counts }
            else
              .ok { st with counts := dictUpdate c 0 (· + 1) st.counts }

/-- `search(q, limit=k, filter=…, mask=…, collapse=…, collapse_limit=…, collapse_order=…)`. -/
def collectStack (cfg : Cfg) (final : Nat → Rat → Rat) (w : Wrap) (segs : List Seg) (sched : List Step) :
    Except Err (List Hit × StackSt × Trace) :=
  match runSegs cfg (stackConsume cfg final w) (fun st => st.top.minscore) segs sched {} {} with
  | .error e => .error e
  | .ok (st, _, tr) => .ok (st.top.results, st, tr)

/-! ### `filter=` / `mask=` given as an object: `Searcher._filter_to_comb`, `Results.docs()` -/

/-- What `Results.docs()` reads of a `whoosh.searching.Results` object: the hit list `top_n`, the
    `docset` attribute (`None` in the object a `TopCollector` returns — it "can skip blocks, it doesn't
    track the total number of matching documents" —, the set of collected documents in the object a
    `SortingCollector` / `UnlimitedCollector` returns) and what `collector.all_ids()` yields when it is
    asked (`TopCollector.all_ids`: `top_searcher.docs_for_query(self.q)`, the query is run again). -/
structure ResultsObj where
  topN : List Hit
  docset : Option (List Nat)
  allIds : List Nat
deriving Repr, Inhabited

/-- `searching.py Results.docs`: `if self.docset is None: self.docset = set(self.collector.all_ids())`,
    `return self.docset`. Returns the set and the object as it is afterwards (the set is remembered). -/
def ResultsObj.docs (r : ResultsObj) : List Nat × ResultsObj :=
  match r.docset with
  | some s => (s, r)
  | none => (r.allIds, { r with docset := some r.allIds })

/-- `TopCollector.results()`: `Results(searcher, q, top_n)` without a docset; `all_ids()` re-runs the
    query over every segment (`docs_for_query`). -/
def topResultsObj (hits : List Hit) (segs : List Seg) : ResultsObj :=
  { topN := hits, docset := none, allIds := globalDocs segs }

/-- `search(fq, limit=k)` (scored) as a `Results` object. -/
def searchTopObj (cfg : Cfg) (final : Nat → Rat → Rat) (segs : List Seg) (sched : List Step) :
    Except Err ResultsObj :=
  match collectTop cfg final segs sched with
  | .error e => .error e
  | .ok hits => .ok (topResultsObj hits segs)

/-- `search(fq, limit=None)` as a `Results` object: `UnlimitedCollector.results()` passes
    `docset=self.docset`, the documents it collected. -/
def searchUnlimitedObj (replace : Nat) (useFinal : Bool) (final : Nat → Rat → Rat) (reverse : Bool)
    (segs : List Seg) (sched : List Step) : Except Err ResultsObj :=
  match collectUnlimited replace useFinal final reverse segs sched with
  | .error e => .error e
  | .ok items => .ok { topN := items, docset := some (items.map (·.doc)), allIds := items.map (·.doc) }

/-- What can be handed to `filter=` / `mask=` (`FilterCollector(child, allow, restrict)`). -/
inductive FilterObj where
  | absent                        -- `None`
  | ids (s : List Nat)            -- a `set` / `DocIdSet` of document numbers
  | results (r : ResultsObj)      -- a `Results` object
  | page (r : ResultsObj)         -- a `ResultsPage` (`obj.results` is the `Results` object)
  | query (matched : List Nat)    -- a `query.Query`, with what `docs_for_query` yields for it
  | other                         -- anything else
deriving Repr, Inhabited

inductive FilterErr where
  | unknownObject   -- `Exception("Don't know what to do with filter object %r")`
deriving DecidableEq, Repr

/-- `searching.py Searcher._filter_to_comb`: `None` stays `None`; a set is taken as it is; a `Results`
    object stands for `obj.docs()`, a `ResultsPage` for `obj.results.docs()`; a query is run
    (`_query_to_comb`: `BitSet(self.docs_for_query(fq))`); anything else raises. -/
def filterToComb : FilterObj → Except FilterErr (Option (List Nat))
  | .absent => .ok none
  | .ids s => .ok (some s)
  | .results r => .ok (some r.docs.1)
  | .page r => .ok (some r.docs.1)
  | .query matched => .ok (some matched)
  | .other => .error .unknownObject

/-- `search(q, limit=k, filter=f, mask=m)`: `FilterCollector.prepare` turns both objects into sets
    (`self._allow = ftc(allow) if allow is not None else None`, the same for `restrict`), then the stack
    `FilterCollector(TopCollector)` runs. -/
def searchFilterObjs (cfg : Cfg) (final : Nat → Rat → Rat) (f m : FilterObj) (segs : List Seg) (sched : List Step) :
    Except FilterErr (Except Err (List Hit × StackSt × Trace)) :=
  match filterToComb f with
  | .error e => .error e
  | .ok allow =>
    match filterToComb m with
    | .error e => .error e
    | .ok restrict => .ok (collectStack cfg final { allow := allow, restrict := restrict } segs sched)

/-! ### `searching.py: ResultsPage.__init__` -/

structure Page where
  total : Nat
  pagecount : Nat
  pagenum : Nat
  offset : Nat
  pagelen : Nat
deriving Repr, DecidableEq

inductive PageErr where
  | valueError         -- `pagenum < 1`
  | zeroDivisionError  -- `pagelen = 0`
deriving Repr, DecidableEq

/-- `ResultsPage(results, pagenum, pagelen)` (after `fix: ResultsPage of an empty result set…`):
    `pagecount = ceil(total / pagelen)`, `pagenum = min(pagecount, pagenum)`,
    `offset = max(0, (pagenum - 1) * pagelen)`, the last page is shortened. (`total / pagelen` is a
    float division in Python; exact below 2^53.) -/
def mkPage (total pagenum pagelen : Nat) : Except PageErr Page :=
  if pagenum < 1 then .error .valueError
  else if pagelen = 0 then .error .zeroDivisionError
  else
    let pagecount := (total + pagelen - 1) / pagelen
    let pn := min pagecount pagenum
    let offset := (pn - 1) * pagelen
    let plen := if offset + pagelen > total then total - offset else pagelen
    .ok { total := total, pagecount := pagecount, pagenum := pn, offset := offset, pagelen := plen }

/-- `Searcher.search_page`: `search(limit = pagenum * pagelen)` then the page;
    `ResultsPage.__iter__` is `results[offset : offset + pagelen]`. -/
def pageHits {α : Type} (ranking : List α) (pagenum pagelen : Nat) : Except PageErr (List α) :=
  match mkPage ranking.length pagenum pagelen with
  | .error e => .error e
  | .ok p => .ok (((ranking.take (pagenum * pagelen)).drop p.offset).take p.pagelen)

/-! ### the un-scored stack `FilterCollector(CollapseCollector(SortingCollector))` and `search_page`

`Searcher.search(q, sortedby=…, reverse=…, limit=…, filter=…, mask=…, collapse=…, collapse_limit=…,
collapse_order=…)`: `Searcher.collector` builds `SortingCollector(sortedby, limit, reverse)`, wraps it in a
`CollapseCollector` and that in a `FilterCollector`. `FilterCollector.collect_matches` refuses documents
*before* the collapser sees them; `CollapseCollector.collect` orders the documents of a key by
`orderer.key_for` or, without `collapse_order`, by `child.sort_key` — `SortingCollector.sort_key` is the
categorizer's key whatever `reverse` says —, talks to the child through `collect`/`remove`
(`SortingCollector.collect` appends, `Collector.remove` pops the pair and discards the document from
`docset`), and `SortingCollector.results` sorts what is left. -/

structure View where
  /-- the `sortedby` key of a document -/
  key : Nat → Key
  limit : Option Nat := none
  reverse : Bool := false
  allow : Option (List Nat) := none
  restrict : Option (List Nat) := none
  /-- collapse facet: `ckey` (none = no key), `collapse_limit`, optional `collapse_order` facet -/
  collapse : Option ((Nat → Option Int) × Nat × Option (Nat → Key)) := none

/-- What the caller sees of a sorted search. -/
structure ViewResult where
  /-- `results.top_n` as `(sortkey, docnum)` -/
  items : List (Key × Nat)
  /-- `len(results)`: `count()` through the wrappers = `len(docset)` of the `SortingCollector` -/
  len : Nat
  /-- `results.filtered_count` -/
  filtered : Nat
  /-- `results.collapsed_counts` -/
  counts : List (Int × Nat)
deriving Repr

/-- `search(q, sortedby=…, …)` over the matched documents in collection order. -/
def searchSorted (v : View) (docs : List Nat) : Except Err ViewResult :=
  let f := filterDocs v.allow v.restrict docs
  match v.collapse with
  | none =>
    .ok { items := sortingResults v.key v.limit v.reverse f.1, len := f.1.length, filtered := f.2, counts := [] }
  | some (ckey, climit, order) =>
    match collapseRun ckey (order.getD v.key) climit f.1 {} with
    | .error e => .error e
    | .ok st =>
      .ok { items := sortingResults v.key v.limit v.reverse st.kept, len := st.kept.length, filtered := f.2,
            counts := st.counts }

/-- Errors of `Searcher.search_page`. -/
inductive PageViewErr where
  | page (e : PageErr)   -- `ValueError("pagenum must be >= 1")`, `ZeroDivisionError` of `ResultsPage`
  | limit                -- `pagelen = 0`: `search(limit=0)` → `ValueError("limit must be >= 1")`
  | collect (e : Err)
deriving Repr, DecidableEq

/-- `searching.py: Searcher.search_page(q, pagenum, pagelen, sortedby=…, …)`: `pagenum < 1` raises,
    `results = self.search(q, limit=pagenum * pagelen, **kwargs)` (`Searcher.collector` rejects
    `limit < 1`), then `ResultsPage(results, pagenum, pagelen)` whose `total` is `len(results)` and whose
    hits are `results[offset : offset + pagelen]` (`Results.__getitem__` on `top_n`). -/
def searchPageSorted (v : View) (docs : List Nat) (pagenum pagelen : Nat) :
    Except PageViewErr (Page × List (Key × Nat)) :=
  if pagenum < 1 then .error (.page .valueError)
  else if pagenum * pagelen < 1 then .error .limit
  else
    match searchSorted { v with limit := some (pagenum * pagelen) } docs with
    | .error e => .error (.collect e)
    | .ok r =>
      match mkPage r.len pagenum pagelen with
      | .error e => .error (.page e)
      | .ok p => .ok (p, (r.items.drop p.offset).take p.pagelen)

/-! ### `sorting.py: PostingCategorizer` -/

/-- The cached order array: `array[docid] = i` for every posting of the `i`-th sortable term (later
    terms overwrite earlier ones), `dc + 1` for documents without a term. `terms` are the posting
    lists in sorted term order. -/
def postingArray (dc : Nat) (terms : List (List Nat)) : List Nat :=
  let init := List.replicate dc (dc + 1)
  (terms.zipIdx.foldl (fun arr (ps, i) => ps.foldl (fun arr d => arr.set d i) arr) init)

/-- `PostingCategorizer.key_for` (`reverse`: `len(values) - i`). The key is an `Int`: a reversed
    "no value" marker is negative. -/
def postingKey (nvalues : Nat) (reverse : Bool) (i : Nat) : Int :=
  if reverse then (nvalues : Int) - (i : Int) else (i : Int)

/-- `PostingCategorizer.key_to_name` (after `fix: PostingCategorizer.key_to_name un-reverses…`):
    the index of the value, `none` for "no value". A negative index (never produced by `key_for`)
    is Python's indexing from the end, or `IndexError`. -/
def postingKeyToName (nvalues : Nat) (reverse : Bool) (k : Int) : Except Err (Option Nat) :=
  let i := if reverse then (nvalues : Int) - k else k
  if i ≥ (nvalues : Int) then .ok none
  else if 0 ≤ i then .ok (some i.toNat)
  else if -i ≤ (nvalues : Int) then .ok (some ((nvalues : Int) + i).toNat)
  else .error .indexError

end WM.Collect
