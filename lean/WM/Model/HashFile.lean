import WM.Model.IdSets
/-
Mirror of `whoosh/filedb/filetables.py`: `HashWriter` (`__init__` header, `add`, `_write_hashes`,
`_write_directory`), `HashReader` (`_ranges`, `__iter__/items/keys`, `ranges_for_key`, `all`,
`__getitem__/get/__contains__`), `OrderedHashWriter.add` (+ the position index) and
`OrderedHashReader` (`closest_key_pos`, `closest_key`, `ranges_from/keys_from/items_from`).

A file is described by what the reader gets from it: the key/value records with their byte
positions, the 256 open-addressed tables of `(hash, position)` slots, the directory and the
position index; the byte layout of those parts (fixed-width big-endian structs, the pickled
extras) is compared with the real file by the harness, not modelled.  Values are of any type `α`
with a length (`vlen`), the hash function is a parameter.
-/
namespace WM.HashFile
open WM.IdSets (Err bisectBy)

abbrev Key := List Nat

structure Rec (α : Type) where
  pos : Nat
  key : Key
  val : α
  deriving Repr

/-- one pointer of a hash table: `(hash value, position of the record)`; `(0, 0)` = empty. -/
abbrev Slot := Nat × Nat
def null : Slot := (0, 0)

/-- magic (4) + hash type (1) + two unused ints (8) -/
def headerSize : Nat := 13
/-- `_lengths = Struct("!ii")` -/
def lengthsSize : Nat := 8
/-- `_pointer = Struct("!Iq")` -/
def pointerSize : Nat := 12

/-- `HashWriter.add`: the record goes to `dbfile.tell()`, followed by lengths, key and value. -/
def addRec {α} (vlen : α → Nat) (st : Nat × List (Rec α)) (kv : Key × α) : Nat × List (Rec α) :=
  (st.1 + lengthsSize + kv.1.length + vlen kv.2, st.2 ++ [⟨st.1, kv.1, kv.2⟩])

/-- `self.buckets[h & 255]` after all adds: `(h, pos)` of the records whose hash ends in `b`,
    in insertion order. -/
def bucketEntries {α} (hash : Key → Nat) (recs : List (Rec α)) (b : Nat) : List Slot :=
  (recs.filter fun r => hash r.key % 256 == b).map fun r => (hash r.key, r.pos)

/-- `while hashtable[slot] != null: slot = (slot + 1) % numslots`.  The fuel is `numslots`:
    running out of it means the Python loop would spin forever (`WM.C20.hash_build_total` shows
    it does not). -/
def findFree (table : List Slot) : Nat → Nat → Option Nat
  | _, 0 => none
  | slot, fuel + 1 =>
    match table[slot]? with
    | none => none
    | some s => if s != null then findFree table ((slot + 1) % table.length) fuel else some slot

/-- body of `for hashval, position in entries` in `_write_hashes`. -/
def insertSlot (table : List Slot) (e : Slot) : Option (List Slot) :=
  (findFree table ((e.1 / 256) % table.length) table.length).map fun slot => table.set slot e

def insertAll : List Slot → List Slot → Option (List Slot)
  | table, [] => some table
  | table, e :: es => match insertSlot table e with
    | none => none
    | some t => insertAll t es

/-- one bucket of `_write_hashes`: `numslots = 2 * len(entries)`. -/
def buildTable (entries : List Slot) : Option (List Slot) :=
  insertAll (List.replicate (2 * entries.length) null) entries

structure File (α : Type) where
  startoffset : Nat
  recs : List (Rec α)
  endofdata : Nat
  tables : List (List Slot)
  /-- `OrderedHashWriter.index` (absolute positions of the keys, in order) -/
  index : List Nat
  deriving Repr

/-- `HashWriter(dbfile).add_all(kvs); close()` with `dbfile.tell() = startoffset` at creation. -/
def build {α} (hash : Key → Nat) (vlen : α → Nat) (startoffset : Nat) (kvs : List (Key × α)) :
    Option (File α) :=
  let st := kvs.foldl (addRec vlen) (startoffset + headerSize, [])
  ((List.range 256).mapM fun b => buildTable (bucketEntries hash st.2 b)).map fun tables =>
    { startoffset := startoffset, recs := st.2, endofdata := st.1, tables := tables,
      index := st.2.map (·.pos) }

/-- `OrderedHashWriter.add`'s guard over the whole key sequence: `key <= self.lastkey` raises
    `ValueError` (`lastkey` starts as `b""`, so the empty key is rejected too). -/
def orderedKeysOk : Key → List Key → Bool
  | _, [] => true
  | lastkey, k :: ks => if decide (k ≤ lastkey) then false else orderedKeysOk k ks

/-- position of table `b` in the file (`self.directory`): tables follow the data back to back. -/
def tablePos {α} (f : File α) (b : Nat) : Nat :=
  f.endofdata + pointerSize * ((f.tables.take b).map List.length).sum

/-! ### reader -/

/-- what `key_at` / the `_lengths` + key read at a position see -/
def recAt {α} (f : File α) (pos : Nat) : Option (Rec α) := f.recs.find? (·.pos == pos)

/-- `HashReader._ranges(pos)`: walk the records from `pos` to `endofdata`. -/
def walk {α} (vlen : α → Nat) (f : File α) (pos : Nat) : List (Rec α) :=
  if pos < f.endofdata then
    match recAt f pos with
    | none => []
    | some r => r :: walk vlen f (pos + (lengthsSize + r.key.length + vlen r.val))
  else []
termination_by f.endofdata - pos
decreasing_by simp only [lengthsSize]; omega

/-- `HashReader.items()` -/
def items {α} (vlen : α → Nat) (f : File α) : List (Key × α) :=
  (walk vlen f (f.startoffset + headerSize)).map fun r => (r.key, r.val)

/-- `slotpos += ptrsize; if slotpos == tablestart + numslots * ptrsize: slotpos = tablestart` -/
def nextSlot (numslots slot : Nat) : Nat := if slot + 1 = numslots then 0 else slot + 1

/-- the `for _ in xrange(numslots)` loop of `ranges_for_key`: `check` is the
    "lengths match and key bytes equal" test on the record at the slot's position. -/
def scan {β} (table : List Slot) (keyhash : Nat) (check : Nat → Option β) : Nat → Nat → List β
  | _, 0 => []
  | slot, fuel + 1 =>
    match table[slot]? with
    | none => []
    | some (slothash, itempos) =>
      if itempos = 0 then []
      else
        let rest := scan table keyhash check (nextSlot table.length slot) fuel
        if slothash = keyhash then
          match check itempos with
          | some v => v :: rest
          | none => rest
        else rest

/-- the test inside the probe loop: read the lengths at `itempos`, compare the key length, then
    the key bytes; the value range is yielded on a match. -/
def checkKey {α} (f : File α) (key : Key) (itempos : Nat) : Option α :=
  match recAt f itempos with
  | some r => if r.key.length = key.length ∧ r.key = key then some r.val else none
  | none => none

/-- `HashReader.all(key)` (through `ranges_for_key`). -/
def all {α} (hash : Key → Nat) (f : File α) (key : Key) : List α :=
  let keyhash := hash key
  match f.tables[keyhash % 256]? with
  | none => []
  | some table =>
    if table.length = 0 then []
    else scan table keyhash (checkKey f key) ((keyhash / 256) % table.length) table.length

/-- `HashReader.get(key)` / `__getitem__` (first value) and `__contains__`. -/
def get {α} (hash : Key → Nat) (f : File α) (key : Key) : Option α := (all hash f key).head?
def containsKey {α} (hash : Key → Nat) (f : File α) (key : Key) : Bool := !(all hash f key).isEmpty

/-- `midkey < key` with `midkey = key_at(pos)` -/
def keyBefore {α} (f : File α) (key : Key) (pos : Nat) : Bool :=
  match recAt f pos with
  | some r => decide (r.key < key)
  | none => false

/-- `OrderedHashReader.closest_key_pos`: binary search over the position index comparing
    `key_at(pos) < key`; a position without a record is an error (`index` is returned to mark it). -/
def closestKeyPos {α} (f : File α) (key : Key) : Except Err (Option Nat) := do
  let lo ← bisectBy (keyBefore f key) f.index 0 f.index.length
  if lo = f.index.length then .ok none
  else match f.index[lo]? with
    | some p => .ok (some p)
    | none => .error .index

/-- `OrderedHashReader.closest_key`. -/
def closestKey {α} (f : File α) (key : Key) : Except Err (Option Key) := do
  match ← closestKeyPos f key with
  | none => .ok none
  | some p => match recAt f p with
    | some r => .ok (some r.key)
    | none => .error .index

/-- `OrderedHashReader.items_from(key)` (`keys_from` = its first components). -/
def itemsFrom {α} (vlen : α → Nat) (f : File α) (key : Key) : Except Err (List (Key × α)) := do
  match ← closestKeyPos f key with
  | none => .ok []
  | some p => .ok ((walk vlen f p).map fun r => (r.key, r.val))

end WM.HashFile
