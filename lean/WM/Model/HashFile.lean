import WM.Model.IdSets
import WM.Model.NumLists
/-
Mirror of `whoosh/filedb/filetables.py`: `HashWriter` (`__init__` header, `add`, `_write_hashes`,
`_write_directory`), `HashReader` (`_ranges`, `__iter__/items/keys`, `ranges_for_key`, `all`,
`__getitem__/get/__contains__`), `OrderedHashWriter.add` (+ the position index) and
`OrderedHashReader` (`closest_key_pos`, `closest_key`, `ranges_from/keys_from/items_from`).

A file is described by what the reader gets from it: the key/value records with their byte
positions, the 256 open-addressed tables of `(hash, position)` slots, the directory and the
position index; the byte layout of those parts (fixed-width big-endian structs, the pickled
extras) is compared with the real file by the harness, not modelled.  Values are of any type `α`
with a length (`vlen`), the hash function is a parameter.
-/
namespace WM.HashFile
open WM.IdSets (Err bisectBy)

abbrev Key := List Nat

structure Rec (α : Type) where
  pos : Nat
  key : Key
  val : α
  deriving Repr

/-- one pointer of a hash table: `(hash value, position of the record)`; `(0, 0)` = empty. -/
abbrev Slot := Nat × Nat
def null : Slot := (0, 0)

/-- magic (4) + hash type (1) + two unused ints (8) -/
def headerSize : Nat := 13
/-- `_lengths = Struct("!ii")` -/
def lengthsSize : Nat := 8
/-- `_pointer = Struct("!Iq")` -/
def pointerSize : Nat := 12

/-- `HashWriter.add`: the record goes to `dbfile.tell()`, followed by lengths, key and value. -/
def addRec {α} (vlen : α → Nat) (st : Nat × List (Rec α)) (kv : Key × α) : Nat × List (Rec α) :=
  (st.1 + lengthsSize + kv.1.length + vlen kv.2, st.2 ++ [⟨st.1, kv.1, kv.2⟩])

/-- `self.buckets[h & 255]` after all adds: `(h, pos)` of the records whose hash ends in `b`,
    in insertion order. -/
def bucketEntries {α} (hash : Key → Nat) (recs : List (Rec α)) (b : Nat) : List Slot :=
  (recs.filter fun r => hash r.key % 256 == b).map fun r => (hash r.key, r.pos)

/-- `while hashtable[slot] != null: slot = (slot + 1) % numslots`.  The fuel is `numslots`:
    running out of it means the Python loop would spin forever (`WM.C20.hash_build_total` shows
    it does not). -/
def findFree (table : List Slot) : Nat → Nat → Option Nat
  | _, 0 => none
  | slot, fuel + 1 =>
    match table[slot]? with
    | none => none
    | some s => if s != null then findFree table ((slot + 1) % table.length) fuel else some slot

/-- body of `for hashval, position in entries` in `_write_hashes`. -/
def insertSlot (table : List Slot) (e : Slot) : Option (List Slot) :=
  (findFree table ((e.1 / 256) % table.length) table.length).map fun slot => table.set slot e

def insertAll : List Slot → List Slot → Option (List Slot)
  | table, [] => some table
  | table, e :: es => match insertSlot table e with
    | none => none
    | some t => insertAll t es

/-- one bucket of `_write_hashes`: `numslots = 2 * len(entries)`. -/
def buildTable (entries : List Slot) : Option (List Slot) :=
  insertAll (List.replicate (2 * entries.length) null) entries

structure File (α : Type) where
  startoffset : Nat
  recs : List (Rec α)
  endofdata : Nat
  tables : List (List Slot)
  /-- `extras["indextype"]`: typecode of `OrderedHashWriter.index` (a `GrowableArray("H")`) at close -/
  indexTC : WM.NumLists.TC
  /-- `extras["indexlen"]` -/
  indexLen : Nat
  /-- the bytes `index.to_file(dbfile)` wrote after the extras (big-endian items) -/
  indexBytes : List Nat
  deriving Repr

/-- `OrderedHashWriter.index` after `index.append(dbfile.tell())` for every key: the array and
    whether an `OverflowError` came up (a position of 2^63 or more). -/
def indexArray (positions : List Nat) : WM.NumLists.GA × Bool :=
  (WM.NumLists.GA.mk .H [] true).extend (positions.map Int.ofNat)

/-- `HashWriter(dbfile).add_all(kvs); close()` with `dbfile.tell() = startoffset` at creation. -/
def build {α} (hash : Key → Nat) (vlen : α → Nat) (startoffset : Nat) (kvs : List (Key × α)) :
    Option (File α) :=
  let st := kvs.foldl (addRec vlen) (startoffset + headerSize, [])
  ((List.range 256).mapM fun b => buildTable (bucketEntries hash st.2 b)).map fun tables =>
    let ga := (indexArray (st.2.map (·.pos))).1
    { startoffset := startoffset, recs := st.2, endofdata := st.1, tables := tables,
      indexTC := ga.tc, indexLen := ga.items.length, indexBytes := ga.toBytes }

/-- `OrderedHashWriter.add`'s guard over the whole key sequence: `key <= self.lastkey` raises
    `ValueError` (`lastkey` starts as `b""`, so the empty key is rejected too). -/
def orderedKeysOk : Key → List Key → Bool
  | _, [] => true
  | lastkey, k :: ks => if decide (k ≤ lastkey) then false else orderedKeysOk k ks

/-- position of table `b` in the file (`self.directory`): tables follow the data back to back. -/
def tablePos {α} (f : File α) (b : Nat) : Nat :=
  f.endofdata + pointerSize * ((f.tables.take b).map List.length).sum

/-! ### the limits of the struct formats

`_lengths = "!ii"` (key and value length: signed 32 bit), `_pointer = "!Iq"` (hash: unsigned 32 bit,
record position: signed 64 bit), `_dir_entry = "!qi"` (table position: signed 64 bit, slot count:
signed 32 bit).  `struct.pack` raises `struct.error` for a number outside its format; the position
index (`GrowableArray`, `allow_longs`) raises `OverflowError` from 2^63 on. -/

/-- every number written by `add`, `_write_hashes` and `_write_directory` fits its format -/
def formatsOk {α} (hash : Key → Nat) (vlen : α → Nat) (f : File α) : Bool :=
  f.recs.all (fun r => decide (r.key.length < 2 ^ 31) && decide (vlen r.val < 2 ^ 31)
      && decide (hash r.key < 2 ^ 32))
    && f.tables.all (fun t => decide (t.length < 2 ^ 31))
    && decide (tablePos f 256 < 2 ^ 63)

/-- `HashWriter` with the format limits: `struct.error` when a length, hash value, position or slot
    count does not fit.  (`none` of `build` = the insertion loop not terminating — excluded by
    `WM.C20.hash_build_total` — is reported as `index`.  Which of several offending numbers raises
    first is not modelled: lengths fail inside `add`, the others in `close`.) -/
def buildE {α} (hash : Key → Nat) (vlen : α → Nat) (startoffset : Nat) (kvs : List (Key × α)) :
    Except Err (File α) :=
  match build hash vlen startoffset kvs with
  | none => .error .index
  | some f => if formatsOk hash vlen f then .ok f else .error .struct

/-- `OrderedHashWriter`: additionally `ValueError` unless every key is greater than the one before
    (the first one greater than `b""`), and `OverflowError` from the position index. -/
def buildOrderedE {α} (hash : Key → Nat) (vlen : α → Nat) (startoffset : Nat) (kvs : List (Key × α)) :
    Except Err (File α) :=
  if orderedKeysOk [] (kvs.map (·.1)) then
    match build hash vlen startoffset kvs with
    | none => .error .index
    | some f =>
      if (indexArray (f.recs.map (·.pos))).2 then .error .overflow
      else if formatsOk hash vlen f then .ok f else .error .struct
  else .error .value

/-! ### reader -/

/-- what `key_at` / the `_lengths` + key read at a position see -/
def recAt {α} (f : File α) (pos : Nat) : Option (Rec α) := f.recs.find? (·.pos == pos)

/-- `HashReader._ranges(pos)`: walk the records from `pos` to `endofdata`. -/
def walk {α} (vlen : α → Nat) (f : File α) (pos : Nat) : List (Rec α) :=
  if pos < f.endofdata then
    match recAt f pos with
    | none => []
    | some r => r :: walk vlen f (pos + (lengthsSize + r.key.length + vlen r.val))
  else []
termination_by f.endofdata - pos
decreasing_by simp only [lengthsSize]; omega

/-- `HashReader.items()` -/
def items {α} (vlen : α → Nat) (f : File α) : List (Key × α) :=
  (walk vlen f (f.startoffset + headerSize)).map fun r => (r.key, r.val)

/-- `slotpos += ptrsize; if slotpos == tablestart + numslots * ptrsize: slotpos = tablestart` -/
def nextSlot (numslots slot : Nat) : Nat := if slot + 1 = numslots then 0 else slot + 1

/-- the `for _ in xrange(numslots)` loop of `ranges_for_key`: `check` is the
    "lengths match and key bytes equal" test on the record at the slot's position. -/
def scan {β} (table : List Slot) (keyhash : Nat) (check : Nat → Option β) : Nat → Nat → List β
  | _, 0 => []
  | slot, fuel + 1 =>
    match table[slot]? with
    | none => []
    | some (slothash, itempos) =>
      if itempos = 0 then []
      else
        let rest := scan table keyhash check (nextSlot table.length slot) fuel
        if slothash = keyhash then
          match check itempos with
          | some v => v :: rest
          | none => rest
        else rest

/-- the test inside the probe loop: read the lengths at `itempos`, compare the key length, then
    the key bytes; the value range is yielded on a match. -/
def checkKey {α} (f : File α) (key : Key) (itempos : Nat) : Option α :=
  match recAt f itempos with
  | some r => if r.key.length = key.length ∧ r.key = key then some r.val else none
  | none => none

/-- `HashReader.all(key)` (through `ranges_for_key`). -/
def all {α} (hash : Key → Nat) (f : File α) (key : Key) : List α :=
  let keyhash := hash key
  match f.tables[keyhash % 256]? with
  | none => []
  | some table =>
    if table.length = 0 then []
    else scan table keyhash (checkKey f key) ((keyhash / 256) % table.length) table.length

/-- `HashReader.get(key)` / `__getitem__` (first value) and `__contains__`. -/
def get {α} (hash : Key → Nat) (f : File α) (key : Key) : Option α := (all hash f key).head?
def containsKey {α} (hash : Key → Nat) (f : File α) (key : Key) : Bool := !(all hash f key).isEmpty

/-- `midkey < key` with `midkey = key_at(pos)` -/
def keyBefore {α} (f : File α) (key : Key) (pos : Nat) : Bool :=
  match recAt f pos with
  | some r => decide (r.key < key)
  | none => false

/-- `self._get_pos(indexbase + k * indexsize)`: item `k` of the stored index array, read with
    `get_ushort/get_int/get_uint/get_long` according to `indextype`. -/
def getPos {α} (f : File α) (k : Nat) : Option Nat :=
  match WM.NumLists.readItem f.indexTC f.indexBytes k with
  | some x => if 0 ≤ x then some x.toNat else none
  | none => none

/-- `key_at(_get_pos(indexbase + mid * indexsize)) < key` -/
def keyBeforeIdx {α} (f : File α) (key : Key) (k : Nat) : Bool :=
  match getPos f k with
  | some p => keyBefore f key p
  | none => false

/-- `OrderedHashReader.closest_key_pos`: binary search over `[0, indexlen)`, every probe reading the
    stored index array and the key at that position; an unreadable item is an error. -/
def closestKeyPos {α} (f : File α) (key : Key) : Except Err (Option Nat) := do
  let lo ← bisectBy (keyBeforeIdx f key) (List.range f.indexLen) 0 f.indexLen
  if lo = f.indexLen then .ok none
  else match getPos f lo with
    | some p => .ok (some p)
    | none => .error .index

/-- `OrderedHashReader.closest_key`. -/
def closestKey {α} (f : File α) (key : Key) : Except Err (Option Key) := do
  match ← closestKeyPos f key with
  | none => .ok none
  | some p => match recAt f p with
    | some r => .ok (some r.key)
    | none => .error .index

/-- `OrderedHashReader.items_from(key)` (`keys_from` = its first components). -/
def itemsFrom {α} (vlen : α → Nat) (f : File α) (key : Key) : Except Err (List (Key × α)) := do
  match ← closestKeyPos f key with
  | none => .ok []
  | some p => .ok ((walk vlen f p).map fun r => (r.key, r.val))

end WM.HashFile
