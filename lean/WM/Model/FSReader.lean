import WM.Model.FS
/-
Readers over the abstract file system (C03).  Mirrors

* `whoosh/reading.py` `SegmentReader.__init__` (which files are opened when the reader is built:
  the compound file, or `.trm` / `.pst` of a loose segment; everything else — column files, the
  vector file — is opened lazily by `codec/whoosh3.py` `W3PerDocReader._get_column_file /
  _prep_vectors` on first use), `SegmentReader.generation`, `MultiReader.__init__/generation`,
  `EmptyReader`;
* `whoosh/index.py` `FileIndex._reader(storage, schema, segments, generation, reuse)` line by line
  (as repaired: see the `fix:` commits), `FileIndex.reader` (TOC read + `_reader`);
* `whoosh/searching.py` `Searcher.refresh`, `Searcher.up_to_date`.

A handle is a (name, inode) pair taken when the file was opened; reading through it returns the
inode's data whatever happened to the name since (POSIX unlink-while-open, mmap: OS assumption).
-/
namespace WM.FS

structure SegReader where
  seg : SegRef
  /-- `SegmentReader._gen`; `none` for a reader that was not built from a TOC (in-memory segment
      of a `BufferedWriter`) -/
  gen : Option Nat
  schema : Nat
  /-- files opened while the reader was constructed -/
  handles : List (Name × Nat)
  deriving DecidableEq, Repr

inductive Reader where
  | empty (schema : Nat)                           -- `EmptyReader`
  | single (r : SegReader)                         -- a `SegmentReader`
  | multi (rs : List SegReader) (gen : Option Nat) -- `MultiReader(readers, generation)`
  deriving DecidableEq, Repr

/-- `leaf_readers()` (an `EmptyReader` reports itself, with no segment; it carries nothing) -/
def Reader.leaves : Reader → List SegReader
  | .empty _ => []
  | .single r => [r]
  | .multi rs _ => rs

/-- `reader.generation()` -/
def Reader.generation : Reader → Option Nat
  | .empty _ => none
  | .single r => r.gen
  | .multi _ g => g

/-- `reader.schema` (`MultiReader` takes the schema of its first sub-reader) -/
def Reader.schema : Reader → Option Nat
  | .empty s => some s
  | .single r => some r.schema
  | .multi [] _ => none
  | .multi (r :: _) _ => some r.schema

def Reader.segs (r : Reader) : List SegRef := r.leaves.map (·.seg)

inductive RErr where
  | io                 -- IOError / NameError: a file to open is not there
  | toc (e : RecErr)   -- reading the TOC failed
  deriving DecidableEq, Repr

/-- Open the files of `files` one after the other (`SegmentReader.__init__`). -/
def openFiles (fs : FS) : List Name → Except RErr (List (Name × Nat))
  | [] => .ok []
  | f :: rest =>
    match fs.dir f with
    | none => .error .io
    | some i =>
      match openFiles fs rest with
      | .ok hs => .ok ((f, i) :: hs)
      | .error e => .error e

/-- `SegmentReader(storage, schema, segment, generation=generation)`; `eager` says which of the
    segment's files the constructor opens (codec configuration). -/
def openSeg (eager : Name → Bool) (fs : FS) (schema : Nat) (seg : SegRef) (generation : Nat) :
    Except RErr SegReader :=
  match openFiles fs (seg.files.filter eager) with
  | .ok hs => .ok ⟨seg, some generation, schema, hs⟩
  | .error e => .error e

/-- `set(a) == set(b)` -/
def sameSet (a b : List Nat) : Bool := a.all b.contains && b.all a.contains

/-- `segment in segments` (`Segment.__eq__` compares ids) -/
def hasSid (segs : List SegRef) (sid : Name) : Bool := segs.any (·.sid == sid)

/-- the first loop of `_reader`: carry over the segments of unversioned recycled readers -/
def carryOver (segments : List SegRef) : List SegReader → List SegRef
  | [] => segments
  | r :: rs =>
    if r.gen.isNone && !hasSid segments r.seg.sid then carryOver (segments ++ [r.seg]) rs
    else carryOver segments rs

def lookupSid (d : List (Name × SegReader)) (sid : Name) : Option SegReader :=
  match d with
  | [] => none
  | (k, r) :: rest => if k = sid then some r else lookupSid rest sid

/-- `dict((r.segment(), r) for r in readers)`: one entry per segment id, later readers win -/
def mkReusable : List SegReader → List (Name × SegReader)
  | [] => []
  | r :: rs =>
    let d := mkReusable rs
    if (lookupSid d r.seg.sid).isSome then d else (r.seg.sid, r) :: d

def eraseSid (d : List (Name × SegReader)) (sid : Name) : List (Name × SegReader) :=
  d.filter (·.1 != sid)

/-- `segreader(segment)` of `_reader`: returns the reader and the updated `reusable` dictionary -/
def segreader (eager : Name → Bool) (fs : FS) (schema generation : Nat)
    (reusable : List (Name × SegReader)) (seg : SegRef) :
    Except RErr (SegReader × List (Name × SegReader)) :=
  match lookupSid reusable seg.sid with
  | some r =>
    if r.gen.isNone then .ok (r, eraseSid reusable seg.sid)
    else if sameSet r.seg.deleted seg.deleted then
      .ok ({ r with schema := schema, gen := some generation }, eraseSid reusable seg.sid)
    else
      match openSeg eager fs schema seg generation with
      | .ok x => .ok (x, reusable)
      | .error e => .error e
  | none =>
    match openSeg eager fs schema seg generation with
    | .ok x => .ok (x, reusable)
    | .error e => .error e

def segreaders (eager : Name → Bool) (fs : FS) (schema generation : Nat) :
    List (Name × SegReader) → List SegRef → Except RErr (List SegReader × List (Name × SegReader))
  | d, [] => .ok ([], d)
  | d, s :: rest =>
    match segreader eager fs schema generation d s with
    | .error e => .error e
    | .ok (r, d') =>
      match segreaders eager fs schema generation d' rest with
      | .error e => .error e
      | .ok (rs, d'') => .ok (r :: rs, d'')

/-- `FileIndex._reader(storage, schema, segments, generation, reuse=reuse)`.  Returns the new reader
    and the recycled sub-readers that were closed (`finally: for r in reusable.values(): r.close()`). -/
def mkReader (eager : Name → Bool) (fs : FS) (schema : Nat) (segments : List SegRef) (generation : Nat)
    (reuse : Option Reader) : Except RErr (Reader × List SegReader) :=
  let segments := match reuse with
    | some old => carryOver segments old.leaves
    | none => segments
  match segments with
  | [] => .ok (.empty schema, [])
  | _ =>
    let reusable := match reuse with
      | some old => mkReusable old.leaves
      | none => []
    match segreaders eager fs schema generation reusable segments with
    | .error e => .error e
    | .ok (rs, left) =>
      match rs with
      | [r] => .ok (.single r, left.map (·.2))
      | _ => .ok (.multi rs (some generation), left.map (·.2))

/-- `FileIndex.reader(reuse)`, one attempt of its retry loop: read the TOC, build the reader. -/
def indexReader (eager : Name → Bool) (ix : Name) (fs : FS) (reuse : Option Reader) :
    Except RErr (Reader × List SegReader) :=
  match readToc ix fs with
  | .error e => .error (.toc e)
  | .ok t => mkReader eager fs t.schema t.segs t.gen reuse

def openReader (eager : Name → Bool) (ix : Name) (fs : FS) : Except RErr Reader :=
  match indexReader eager ix fs none with
  | .ok (r, _) => .ok r
  | .error e => .error e

/-- `ix.latest_generation() == reader.generation()` (Python: `-1 == None` is false) -/
def genEq : Option Nat → Option Nat → Bool
  | some a, some b => a == b
  | _, _ => false

/-- `Searcher.up_to_date()` -/
def upToDate (ix : Name) (fs : FS) (r : Reader) : Bool := genEq (latestGen ix fs) r.generation

/-- `Searcher.refresh()`: the same searcher when it is up to date, otherwise a searcher over
    `ix.reader(reuse=self.ixreader)`. -/
def refresh (eager : Name → Bool) (ix : Name) (fs : FS) (r : Reader) : Except RErr Reader :=
  if upToDate ix fs r then .ok r
  else match indexReader eager ix fs (some r) with
    | .ok (r', _) => .ok r'
    | .error e => .error e

/-! ### what a reader shows -/

def lookupHandle (hs : List (Name × Nat)) (n : Name) : Option Nat :=
  match hs with
  | [] => none
  | (k, i) :: rest => if k = n then some i else lookupHandle rest n

/-- What reading file `f` of a segment through reader `sr` returns now: through the handle when
    the file was opened at construction, otherwise through a lookup of the name *now* (lazy open),
    which fails when the name is gone. -/
def probeFile (fs : FS) (sr : SegReader) (f : Name) : Option (Nat × FileData) :=
  match lookupHandle sr.handles f with
  | some i => some (i, fs.data i)
  | none =>
    match fs.dir f with
    | some i => some (i, fs.data i)
    | none => none

def probeSeg (fs : FS) (sr : SegReader) : Name × List Nat × List (Option (Nat × FileData)) :=
  (sr.seg.sid, sr.seg.deleted, sr.seg.files.map (probeFile fs sr))

/-- The observable content of a reader: its schema and, per segment, the deletions it applies
    and the data of every file of the segment as the reader sees it. -/
def probe (fs : FS) (r : Reader) :
    Option Nat × List (Name × List Nat × List (Option (Nat × FileData))) :=
  (r.schema, r.leaves.map (probeSeg fs))

/-- `EagerHandles`: every file the reader will ever read was opened while it was constructed. -/
def EagerHandles (r : Reader) : Bool :=
  r.leaves.all fun sr => sr.seg.files.all fun f => (lookupHandle sr.handles f).isSome

/-- The same predicate on a logged reader life: names opened / found after construction were
    all opened during construction. -/
def EagerTrace (construct later : List Name) : Bool := later.all construct.contains

/-- `_reader`'s choice of reader class -/
def assemble (schema generation : Nat) : List SegReader → Reader
  | [] => .empty schema
  | [r] => .single r
  | rs => .multi rs (some generation)

/-- the reader a successful `SegmentReader(...)` call produces -/
def freshSeg (eager : Name → Bool) (fs : FS) (schema generation : Nat) (seg : SegRef) : SegReader :=
  ⟨seg, some generation, schema,
    (seg.files.filter eager).filterMap fun f => (fs.dir f).map fun i => (f, i)⟩

def freshReader (eager : Name → Bool) (fs : FS) (t : Toc) : Reader :=
  assemble t.schema t.gen (t.segs.map (freshSeg eager fs t.schema t.gen))

/-! ### `ix.reader()` step by step, interleaved with writer events -/

/-- the files `ix.reader()` opens for TOC `t`, in order -/
def needed (eager : Name → Bool) (t : Toc) : List Name :=
  t.segs.flatMap fun s => s.files.filter eager

/-- progress of one `FileIndex.reader()` call (`retries` as in the source: 10) -/
inductive ROpen where
  | start (retries : Nat)
  | opening (retries : Nat) (t : Toc) (todo : List Name) (got : List (Name × Nat))
  | done (t : Toc) (got : List (Name × Nat))
  | failed (e : RErr)
  deriving Repr

/-- one step of the reader: read the TOC, or open the next file; a missing file (`IOError`)
    sends it back to re-read the TOC while retries are left -/
def rstep (eager : Name → Bool) (ix : Name) (fs : FS) : ROpen → ROpen
  | .start n =>
    match readToc ix fs with
    | .ok t => .opening n t (needed eager t) []
    | .error .ioError => if n > 1 then .start (n - 1) else .failed (.toc .ioError)
    | .error e => .failed (.toc e)
  | .opening _ t [] got => .done t got
  | .opening n t (f :: rest) got =>
    match fs.dir f with
    | some i => .opening n t rest (got ++ [(f, i)])
    | none => if n > 1 then .start (n - 1) else .failed .io
  | s => s

inductive MStep where
  | w (e : Event)     -- a storage event of some writer
  | r                 -- the reader moves
  deriving Repr

def mstep (eager : Name → Bool) (ix : Name) (s : FS × ROpen) : MStep → FS × ROpen
  | .w e => (step s.1 e, s.2)
  | .r => (s.1, rstep eager ix s.1 s.2)

def mrun (eager : Name → Bool) (ix : Name) (s : FS × ROpen) (ms : List MStep) : FS × ROpen :=
  ms.foldl (mstep eager ix) s

/-- the writer events of a merged schedule -/
def wevents : List MStep → List Event
  | [] => []
  | .w e :: ms => e :: wevents ms
  | .r :: ms => wevents ms

/-- at this directory the newest TOC (if readable at all) has all its files -/
def LatestReadable (ix : Name) (fs : FS) : Prop := ∀ t, readToc ix fs = .ok t → readable fs t = true

/-- what an atomic open at `fs` pins -/
def pinned (eager : Name → Bool) (fs : FS) (t : Toc) : List (Name × Nat) :=
  (needed eager t).filterMap fun f => (fs.dir f).map fun i => (f, i)

/-! ### `ix.reader(reuse=old)` (what `Searcher.refresh()` calls) step by step

The same loop with recycling: per segment of the TOC either the recycled sub-reader is taken over
(no storage access) or the segment's files are opened one at a time; a missing file sends the call
back to re-read the TOC, *with the recycled reader intact* (see the `fix:` commit about the
`finally` clause of `_reader`). -/

inductive RRefresh where
  | start (retries : Nat)
  /-- about to handle the next segment of `rest`; `acc` = sub-readers built so far -/
  | segs (retries : Nat) (t : Toc) (acc : List SegReader) (dict : List (Name × SegReader))
      (rest : List SegRef)
  /-- opening the files of `seg` -/
  | files (retries : Nat) (t : Toc) (acc : List SegReader) (dict : List (Name × SegReader))
      (seg : SegRef) (todo : List Name) (got : List (Name × Nat)) (rest : List SegRef)
  | done (t : Toc) (r : Reader)
  | failed (e : RErr)
  deriving Repr

def retryOr (n : Nat) (e : RErr) : RRefresh := if n > 1 then .start (n - 1) else .failed e

def xstep (eager : Name → Bool) (ix : Name) (old : Reader) (fs : FS) : RRefresh → RRefresh
  | .start n =>
    match readToc ix fs with
    | .ok t => .segs n t [] (mkReusable old.leaves) (carryOver t.segs old.leaves)
    | .error .ioError => retryOr n (.toc .ioError)
    | .error e => .failed (.toc e)
  | .segs _ t acc _ [] => .done t (assemble t.schema t.gen acc)
  | .segs n t acc d (s :: rest) =>
    match lookupSid d s.sid with
    | some x =>
      if x.gen.isNone then .segs n t (acc ++ [x]) (eraseSid d s.sid) rest
      else if sameSet x.seg.deleted s.deleted then
        .segs n t (acc ++ [{ x with schema := t.schema, gen := some t.gen }]) (eraseSid d s.sid) rest
      else .files n t acc d s (s.files.filter eager) [] rest
    | none => .files n t acc d s (s.files.filter eager) [] rest
  | .files n t acc d s [] got rest => .segs n t (acc ++ [⟨s, some t.gen, t.schema, got⟩]) d rest
  | .files n t acc d s (f :: todo) got rest =>
    match fs.dir f with
    | some i => .files n t acc d s todo (got ++ [(f, i)]) rest
    | none => retryOr n .io
  | s => s

def xmstep (eager : Name → Bool) (ix : Name) (old : Reader) (s : FS × RRefresh) : MStep → FS × RRefresh
  | .w e => (step s.1 e, s.2)
  | .r => (s.1, xstep eager ix old s.1 s.2)

def xmrun (eager : Name → Bool) (ix : Name) (old : Reader) (s : FS × RRefresh) (ms : List MStep) :
    FS × RRefresh :=
  ms.foldl (xmstep eager ix old) s

/-- `Searcher.refresh()` as a whole: first the up-to-date check
    (`self._ix.latest_generation() == self.reader().generation()`, which returns the same
    searcher), then `ix.reader(reuse=self.ixreader)`; writer events may fall between the two. -/
inductive SRefresh where
  | check (retries : Nat)
  | same                      -- `return self`
  | run (x : RRefresh)
  deriving Repr

def sstep (eager : Name → Bool) (ix : Name) (old : Reader) (fs : FS) : SRefresh → SRefresh
  | .check n => if upToDate ix fs old then .same else .run (.start n)
  | .same => .same
  | .run x => .run (xstep eager ix old fs x)

def smstep (eager : Name → Bool) (ix : Name) (old : Reader) (s : FS × SRefresh) : MStep → FS × SRefresh
  | .w e => (step s.1 e, s.2)
  | .r => (s.1, sstep eager ix old s.1 s.2)

def smrun (eager : Name → Bool) (ix : Name) (old : Reader) (s : FS × SRefresh) (ms : List MStep) :
    FS × SRefresh :=
  ms.foldl (smstep eager ix old) s

/-- the directory after the first `k` steps of the merged schedule -/
def fsAt (fs0 : FS) (ms : List MStep) (k : Nat) : FS := run fs0 (wevents (ms.take k))

end WM.FS
