import WM.Spec.Dict
/-
Layer M for the index family: executable mirror of the document-level logic of

* `whoosh/writing.py`   SegmentWriter (`_setup_doc_offsets`, `_document_segment`,
  `_segment_and_docnum`, `delete_document`, `add_document`, `add_reader` = `write_per_doc` +
  `add_postings_to_pool`/`_process_posts`, `_merge_segments`, `_finalize_segment`, `commit`,
  `cancel`), IndexWriter (`delete_by_term`, `delete_by_query`, `update_document`,
  `_unique_fields`), merge policies `NO_MERGE`, `MERGE_SMALL`, `OPTIMIZE`, `CLEAR`,
  BufferedWriter, AsyncWriter;
* `whoosh/codec/whoosh3.py` W3Segment (`_deleted`, `delete_document`, `is_deleted`,
  `deleted_count`, `doc_count_all`), W3PerDocReader (`doc_count`, `has_deletions`);
* `whoosh/codec/base.py` PerDocumentReader (`all_doc_ids`, `iter_docs`);
* `whoosh/reading.py` SegmentReader (`postings` with the deleted-docs filter, `stored_fields`
  schema filter, `all_terms` schema filter), MultiReader (`doc_offsets`, `first_id`, `postings`,
  `doc_count`), IndexReader (`first_id`, `iter_postings`);
* `whoosh/searching.py` Searcher (`docs_for_query`, `document_number`, `_find_unique`);
* `whoosh/index.py` FileIndex (`_read_toc` gives the writer a *private copy* of the segment
  list, `_reader` empty/segment/multi);
* `whoosh/multiproc.py` MpWriter (`_merge_subsegments`, `_read_and_renumber_run`),
  SerialMpWriter; `whoosh/util/__init__.py` `fib`.

A segment is its per-document data (`docs`, doc number = position), its term index (`posts`,
sorted the way `SortingPool`/`FieldWriter.add_postings` leave it: Python tuple order on
`(fieldname, termbytes, docnum, weight, valuebytes)`) and the pickled `_deleted` set.  Bytes on
disk are abstracted (C08/C10/C20 own the codecs).  `bisect_right`, `sorted`, `set`, `dict` and
`heapq.merge` are modelled by their documented behaviour (trusted CPython).
-/
namespace WM.Index
open WM.Dict

structure Posting where
  fld : Nat
  term : Nat
  doc : Nat
  w : Nat
  v : Nat
deriving DecidableEq, Repr, Inhabited

/-- Python tuple comparison `a <= b` on `(fieldname, tbytes, docnum, weight, vbytes)`. -/
def Posting.le (a b : Posting) : Bool :=
  a.fld < b.fld || (a.fld == b.fld &&
    (a.term < b.term || (a.term == b.term &&
      (a.doc < b.doc || (a.doc == b.doc &&
        (a.w < b.w || (a.w == b.w && a.v ≤ b.v)))))))

/-- `codec/whoosh3.py: W3Segment` + the files of the segment. -/
structure Seg where
  docs : List DocRec
  posts : List Posting
  deleted : List Nat
deriving DecidableEq, Repr, Inhabited

/-- `W3Segment.doc_count_all`. -/
def Seg.docCountAll (s : Seg) : Nat := s.docs.length
/-- `W3Segment.deleted_count`. -/
def Seg.deletedCount (s : Seg) : Nat := s.deleted.length
/-- `base.Segment.doc_count` / `W3PerDocReader.doc_count`. -/
def Seg.docCount (s : Seg) : Nat := s.docCountAll - s.deletedCount
/-- `base.Segment.has_deletions`. -/
def Seg.hasDeletions (s : Seg) : Bool := s.deletedCount > 0
/-- `W3Segment.is_deleted`. -/
def Seg.isDeleted (s : Seg) (n : Nat) : Bool := s.deleted.contains n

/-- `W3Segment.delete_document(docnum, delete)`: `set.add`, resp. (repaired code)
    `if docnum in self._deleted: self._deleted.remove(docnum)`. -/
def Seg.deleteDocument (s : Seg) (n : Nat) (delete : Bool) : Seg :=
  if delete then
    (if s.deleted.contains n then s else { s with deleted := s.deleted ++ [n] })
  else { s with deleted := s.deleted.erase n }

/-- `PerDocumentReader.iter_docs`: `(stored data, docnum)` of the undeleted documents, ascending. -/
def Seg.liveIdx (s : Seg) : List (DocRec × Nat) := s.docs.zipIdx.filter (fun p => !s.isDeleted p.2)
def Seg.liveDocs (s : Seg) : List DocRec := s.liveIdx.map (·.1)
/-- `PerDocumentReader.all_doc_ids`. -/
def Seg.allDocIds (s : Seg) : List Nat := (List.range s.docCountAll).filter (fun n => !s.isDeleted n)

/-- `sum(seg.doc_count_all() for seg in segments)`. -/
def docCountAllSegs (segs : List Seg) : Nat := (segs.map Seg.docCountAll).sum

/-- `SegmentWriter._setup_doc_offsets` / `MultiReader.__init__`: running sums, one per segment. -/
def docOffsets : List Seg → Nat → List Nat
  | [], _ => []
  | s :: r, base => base :: docOffsets r (base + s.docCountAll)

/-- `bisect.bisect_right` on an ascending list: the number of elements `≤ x`. -/
def bisectRight (xs : List Nat) (x : Nat) : Nat := (xs.takeWhile (fun y => y ≤ x)).length

/-- `SegmentWriter._document_segment`. -/
def documentSegment (offsets : List Nat) (n : Nat) : Nat :=
  if offsets.length == 1 then 0 else bisectRight offsets n - 1

/-- The postings of a term in a segment, the way `W3TermsReader.matcher` reads them. -/
def Seg.termPosts (s : Seg) (f t : Nat) : List Posting :=
  s.posts.filter (fun p => p.fld == f && p.term == t)

/-- `SegmentReader.postings(f, t)`: the ids of `FilterMatcher(matcher, deleted, exclude=True)`;
    a field that is not in the schema has no terms (`TermNotFound`, `Term.matcher` → Null). -/
def Seg.postingDocs (sc : Schema) (s : Seg) (f t : Nat) : List Nat :=
  if sc.has f then ((s.termPosts f t).filter (fun p => !s.isDeleted p.doc)).map (·.doc) else []

/-- A query as the writer sees it: a term (answered from the term index) or any other query,
    abstracted as the predicate it denotes on the visible per-document data (that the real matchers
    compute this predicate is property C01). -/
inductive Query where
  | term (f t : Nat)
  | pred (p : DocRec → Bool)

/-- `q.docs(subsearcher)` for one segment. -/
def Seg.docsFor (sc : Schema) (s : Seg) : Query → List Nat
  | .term f t => s.postingDocs sc f t
  | .pred p => (s.liveIdx.filter (fun di => p (restrict sc di.1))).map (·.2)

/-- `Searcher.docs_for_query`: per sub-searcher, shifted by the segment's offset. -/
def docsForQuery (sc : Schema) (q : Query) : List Seg → Nat → List Nat
  | [], _ => []
  | s :: r, base => (s.docsFor sc q).map (· + base) ++ docsForQuery sc q r (base + s.docCountAll)

/-- `IndexReader.first_id` on a segment reader: first *live* posting, `TermNotFound` ↦ `none`. -/
def Seg.firstId (sc : Schema) (s : Seg) (f t : Nat) : Option Nat := (s.postingDocs sc f t).head?

/-- `MultiReader.first_id` (and the readers `FileIndex._reader` returns for one or zero segments). -/
def firstId (sc : Schema) (f t : Nat) : List Seg → Nat → Option Nat
  | [], _ => none
  | s :: r, base =>
    match s.firstId sc f t with
    | some i => some (base + i)
    | none => firstId sc f t r (base + s.docCountAll)

/-- The postings one document contributes (`add_document`: `add_post((fieldname, tbytes, docnum,
    weight, vbytes))` for every item of `field.index(value)`). -/
def docPostings (d : DocRec) (docnum : Nat) : List Posting :=
  d.fields.flatMap (fun fd => fd.toks.map (fun k => ⟨fd.fld, k.term, docnum, k.w, k.v⟩))

/-- The committed state: what the TOC file holds. -/
structure Toc where
  schema : Schema
  segs : List Seg
  gen : Nat
deriving Repr, Inhabited

/-- `SegmentWriter` (document-level state only). -/
structure Writer where
  schema : Schema
  /-- `self.segments = ix._read_toc().segments`: unpickled, hence private, copy. -/
  segs : List Seg
  gen : Nat
  /-- per-document writer content; `self.docnum = ndocs.length` (`docbase = 0`). -/
  ndocs : List DocRec
  /-- the posting pool (unsorted until flushed). -/
  pool : List Posting
  added : Bool
deriving Repr, Inhabited

inductive Err where
  | noSuchDoc      -- IndexingError("No document ID ...")
  | unknownField   -- UnknownFieldError
  | schemaLocked   -- Exception("Can't modify schema after adding data to writer")
  | fieldExists    -- FieldConfigurationError
  | noSuchField    -- KeyError from Schema.remove
  | indexError     -- IndexError (list index out of range)
  | keyError       -- KeyError from docmap[docnum]
deriving DecidableEq, Repr, Inhabited

/-- `SegmentWriter.__init__`. -/
def Toc.writer (t : Toc) : Writer :=
  { schema := t.schema, segs := t.segs, gen := t.gen + 1, ndocs := [], pool := [], added := false }

/-- `SegmentWriter.delete_document` (+ `_segment_and_docnum`). -/
def Writer.deleteDocument (w : Writer) (n : Nat) (delete : Bool := true) : Except Err Writer :=
  if n ≥ docCountAllSegs w.segs then .error .noSuchDoc else
  let offs := docOffsets w.segs 0
  let i := documentSegment offs n
  match offs[i]?, w.segs[i]? with
  | some off, some _ => .ok { w with segs := w.segs.modify i (fun s => s.deleteDocument (n - off) delete) }
  | _, _ => .error .indexError

/-- `SegmentWriter.is_deleted`. -/
def Writer.isDeleted (w : Writer) (n : Nat) : Option Bool :=
  let offs := docOffsets w.segs 0
  let i := documentSegment offs n
  match offs[i]?, w.segs[i]? with
  | some off, some s => some (s.isDeleted (n - off))
  | _, _ => none

def Writer.deleteMany (w : Writer) (ns : List Nat) : Except Err Writer :=
  ns.foldlM (fun w n => w.deleteDocument n) w

/-- `IndexWriter.delete_by_query` (the searcher is over the writer's own segment list). -/
def Writer.deleteByQuery (w : Writer) (q : Query) : Except Err (Writer × Nat) :=
  let ds := docsForQuery w.schema q w.segs 0
  (w.deleteMany ds).map (fun w' => (w', ds.length))

/-- `SegmentWriter.add_document`. -/
def Writer.addDocument (w : Writer) (d : DocRec) : Except Err Writer :=
  if !d.fits w.schema then .error .unknownField else
  .ok { w with ndocs := w.ndocs ++ [d], pool := w.pool ++ docPostings d w.ndocs.length, added := true }

/-- `Searcher._find_unique`: the set of `document_number(**{name: value})` hits. -/
def findUnique (sc : Schema) (segs : List Seg) (us : List (Nat × Nat)) : List Nat :=
  (us.filterMap (fun ft => firstId sc ft.1 ft.2 segs 0)).eraseDups

/-- `IndexWriter.update_document`: returns the writer as the exception (if any) leaves it. -/
def Writer.updateDocument (w : Writer) (d : DocRec) : Writer × Option Err :=
  let us := uniqTerms w.schema d
  match w.deleteMany (findUnique w.schema w.segs us) with
  | .error e => (w, some e)
  | .ok w1 =>
    match w1.addDocument d with
    | .error e => (w1, some e)
    | .ok w2 => (w2, none)

/-- `SegmentWriter.add_field` (+ `Schema.add`). -/
def Writer.addField (w : Writer) (f : Nat) (uniq : Bool) : Except Err Writer :=
  if w.added then .error .schemaLocked
  else if w.schema.has f then .error .fieldExists
  else .ok { w with schema := w.schema.add f uniq }

/-- `SegmentWriter.remove_field` (+ `Schema.remove`). -/
def Writer.removeField (w : Writer) (f : Nat) : Except Err Writer :=
  if w.added then .error .schemaLocked
  else if !w.schema.has f then .error .noSuchField
  else .ok { w with schema := w.schema.remove f }

/-- `write_per_doc`'s `docmap` (built only when the reader has deletions): old number ↦ new. -/
def docmapOf (s : Seg) (base : Nat) : List (Nat × Nat) :=
  s.liveIdx.zipIdx.map (fun p => (p.1.2, base + p.2))

/-- `_process_posts`: renumber one posting (`docmap[docnum]` raises `KeyError` when absent). -/
def renumber (s : Seg) (base : Nat) (p : Posting) : Option Posting :=
  if s.hasDeletions then ((docmapOf s base).lookup p.doc).map (fun n => { p with doc := n })
  else some { p with doc := base + p.doc }

/-- `reader.iter_postings()` through `_process_posts`' schema filter: live postings of schema
    fields, in term-index order. -/
def Seg.livePosts (sc : Schema) (s : Seg) : List Posting :=
  s.posts.filter (fun p => sc.has p.fld && !s.isDeleted p.doc)

/-- `SegmentWriter.add_reader(SegmentReader(storage, self.schema, seg))`. -/
def Writer.addReader (w : Writer) (s : Seg) : Except Err Writer :=
  let base := w.ndocs.length
  match (s.livePosts w.schema).mapM (renumber s base) with
  | none => .error .keyError
  | some ps =>
    .ok { w with ndocs := w.ndocs ++ s.liveDocs.map (restrict w.schema), pool := w.pool ++ ps, added := true }

def Writer.addReaders (w : Writer) (ss : List Seg) : Except Err Writer :=
  ss.foldlM (fun w s => w.addReader s) w

/-- `whoosh.util.fib`. -/
def fib : Nat → Nat
  | 0 => 0
  | 1 => 1
  | 2 => 2
  | n + 3 => fib (n + 2) + fib (n + 1)

/-- The loop of `MERGE_SMALL` over the list sorted by `doc_count_all()`:
    state `(i, total_docs, merge_point_found, segments_to_merge, unchanged_segments)`. -/
def mergeSmallLoop : List Seg → Nat → Nat → Bool → List Seg → List Seg → (List Seg × List Seg × Bool)
  | [], _, _, found, tm, un => (tm, un, found)
  | seg :: rest, i, total, found, tm, un =>
    let count := seg.docCountAll
    let total := if count > 0 then total + count else total
    if found then mergeSmallLoop rest (i + 1) total found tm (un ++ [seg])
    else
      let tm := tm ++ [seg]
      if i > 3 && total < fib (i + 5) then mergeSmallLoop rest (i + 1) total true tm un
      else mergeSmallLoop rest (i + 1) total false tm un

/-- A merge policy as a *plan*: which segments are fed through `add_reader` (in this order) and
    which are returned unchanged. -/
abbrev Plan := List Seg → List Seg × List Seg

/-- `NO_MERGE`. -/
def planNoMerge : Plan := fun segs => ([], segs)
/-- `OPTIMIZE`. -/
def planOptimize : Plan := fun segs => (segs, [])
/-- `CLEAR`. -/
def planClear : Plan := fun _ => ([], [])
/-- `MERGE_SMALL` (`sorted` is stable). -/
def planMergeSmall : Plan := fun segs =>
  let sorted := segs.mergeSort (fun a b => a.docCountAll ≤ b.docCountAll)
  let (tm, un, found) := mergeSmallLoop sorted 0 0 false [] []
  if found && tm.length > 1 then (tm, un) else ([], segs)

inductive MergeKind where
  | noMerge | mergeSmall | optimize | clear
deriving DecidableEq, Repr, Inhabited

def MergeKind.plan : MergeKind → Plan
  | .noMerge => planNoMerge
  | .mergeSmall => planMergeSmall
  | .optimize => planOptimize
  | .clear => planClear

/-- `_finalize_segment`: flush the pool (sorted) into the new segment. -/
def Writer.finalizeSegment (w : Writer) : Seg :=
  { docs := w.ndocs, posts := w.pool.mergeSort Posting.le, deleted := [] }

/-- `SegmentWriter.commit` for an arbitrary merge policy. -/
def Writer.commitPlan (w : Writer) (plan : Plan) : Except Err Toc :=
  let (toMerge, unchanged) := plan w.segs
  (w.addReaders toMerge).map fun w' =>
    { schema := w'.schema
      segs := if w'.added then unchanged ++ [w'.finalizeSegment] else unchanged
      gen := w'.gen }

def Writer.commit (w : Writer) (k : MergeKind) : Except Err Toc := w.commitPlan k.plan

/-- `SegmentWriter.cancel`: nothing reaches the TOC. -/
def Writer.cancel (_ : Writer) (t : Toc) : Toc := t

/-! ### Sessions and histories -/

/-- The calls a client makes on an open writer. -/
inductive Op where
  | add (d : DocRec)
  | update (d : DocRec)
  | delDoc (n : Nat)
  | undelDoc (n : Nat)
  | delBy (q : Query)
  | addField (f : Nat) (uniq : Bool)
  | removeField (f : Nat)

/-- What the call returned / raised. -/
inductive Outcome where
  | ok
  | count (n : Nat)
  | err (e : Err)
deriving DecidableEq, Repr, Inhabited

def Writer.step (w : Writer) : Op → Writer × Outcome
  | .add d => match w.addDocument d with
    | .ok w' => (w', .ok)
    | .error e => (w, .err e)
  | .update d => match w.updateDocument d with
    | (w', none) => (w', .ok)
    | (w', some e) => (w', .err e)
  | .delDoc n => match w.deleteDocument n true with
    | .ok w' => (w', .ok)
    | .error e => (w, .err e)
  | .undelDoc n => match w.deleteDocument n false with
    | .ok w' => (w', .ok)
    | .error e => (w, .err e)
  | .delBy q => match w.deleteByQuery q with
    | .ok (w', c) => (w', .count c)
    | .error e => (w, .err e)
  | .addField f u => match w.addField f u with
    | .ok w' => (w', .ok)
    | .error e => (w, .err e)
  | .removeField f => match w.removeField f with
    | .ok w' => (w', .ok)
    | .error e => (w, .err e)

def Writer.run (w : Writer) : List Op → Writer
  | [] => w
  | o :: r => Writer.run (w.step o).1 r

/-- The outcomes of the calls, in order. -/
def Writer.outcomes (w : Writer) : List Op → List Outcome
  | [] => []
  | o :: r => (w.step o).2 :: Writer.outcomes (w.step o).1 r

/-- How a session ends: `commit` with a merge policy, or `cancel` (also: an exception leaving a
    `with` block). -/
inductive Ending where
  | commit (plan : Plan)
  | cancel

def Toc.session (t : Toc) (ops : List Op) : Ending → Except Err Toc
  | .commit plan => (t.writer.run ops).commitPlan plan
  | .cancel => .ok ((t.writer.run ops).cancel t)

/-- Any number of writers in succession. -/
def Toc.history (t : Toc) : List (List Op × Ending) → Except Err Toc
  | [] => .ok t
  | (ops, e) :: r => (t.session ops e).bind (fun t' => Toc.history t' r)

/-! ### Reading a committed index (`FileIndex.reader()` → Empty/Segment/MultiReader) -/

/-- `all_stored_fields` & co.: the visible data of the live documents, segment by segment. -/
def contentOf (sc : Schema) (segs : List Seg) : List DocRec :=
  segs.flatMap (fun s => s.liveDocs.map (restrict sc))

def Toc.content (t : Toc) : List DocRec := contentOf t.schema t.segs

/-- `reader.doc_count_all()`. -/
def Toc.docCountAll (t : Toc) : Nat := docCountAllSegs t.segs
/-- `reader.doc_count()`. -/
def Toc.docCount (t : Toc) : Nat := (t.segs.map Seg.docCount).sum
/-- `reader.has_deletions()`. -/
def Toc.hasDeletions (t : Toc) : Bool := t.segs.any Seg.hasDeletions

/-- `MultiReader.postings(f, t)` ids (global numbers). -/
def Toc.postingDocs (t : Toc) (f tm : Nat) : List Nat := docsForQuery t.schema (.term f tm) t.segs 0

/-- `reader.iter_postings()` of the whole index with global doc numbers (live, schema fields). -/
def globalPosts (sc : Schema) : List Seg → Nat → List Posting
  | [], _ => []
  | s :: r, base =>
    (s.livePosts sc).map (fun p => { p with doc := p.doc + base }) ++ globalPosts sc r (base + s.docCountAll)

/-- Physical per-document data by global number (`stored_fields(docnum)` before the schema
    filter); `none` past the end. -/
def docAt : List Seg → Nat → Option DocRec
  | [], _ => none
  | s :: r, n => if n < s.docCountAll then s.docs[n]? else docAt r (n - s.docCountAll)

/-- `doc_frequency` (W3 term info `df` summed over segments: counts deleted postings too). -/
def Toc.docFrequency (t : Toc) (f tm : Nat) : Nat :=
  if t.schema.has f then (t.segs.map (fun s => (s.termPosts f tm).length)).sum else 0

/-- `frequency`: total weight of the term over all segments. -/
def Toc.termWeight (t : Toc) (f tm : Nat) : Nat :=
  if t.schema.has f then (t.segs.map (fun s => ((s.termPosts f tm).map (·.w)).sum)).sum else 0

/-- `field_length(f)`: the segment totals (`_fieldlengths`), summed. -/
def Toc.fieldLength (t : Toc) (f : Nat) : Nat :=
  (t.segs.map (fun s => (s.docs.map (fun d => d.fieldLen f)).sum)).sum

/-! ### MpWriter / SerialMpWriter (`multiproc.py`)

A schedule is represented by its outcome: which sub-writer indexed which documents, in which
order.  Sub-writers are `SegmentWriter(ix, _lk=False)` objects with the parent's schema that only
receive `add_document` calls. -/

/-- A sub-writer after indexing `docs` (`SubWriterTask._process_file` / `SerialMpWriter.tasks[i]`). -/
def subWriter (sc : Schema) (docs : List DocRec) : Except Err Writer :=
  docs.foldlM (fun w d => w.addDocument d)
    { schema := sc, segs := [], gen := 0, ndocs := [], pool := [], added := false }

/-- `finish_subsegment` + `_read_and_renumber_run`: the sub-writer's single sorted run with
    `basedoc` added to every doc number. -/
def subRun (sub : Writer) (basedoc : Nat) : List Posting :=
  (sub.pool.mergeSort Posting.le).map (fun p => { p with doc := p.doc + basedoc })

/-- `externalsort.imerge` (`heapq.merge`) of sorted sources: the sorted permutation of all items. -/
def imerge (sources : List (List Posting)) : List Posting := sources.flatten.mergeSort Posting.le

/-- the loop of `_merge_subsegments`: per-document data of every sub-segment is appended
    (`write_per_doc`), its run is renumbered by the doc count before it. -/
def mergeSubs : List DocRec → List (List Posting) → List Writer → List DocRec × List (List Posting)
  | ndocs, srcs, [] => (ndocs, srcs)
  | ndocs, srcs, sub :: r => mergeSubs (ndocs ++ sub.ndocs) (srcs ++ [subRun sub ndocs.length]) r

/-- the segment `_merge_subsegments` writes -/
def Writer.mpFinal (w : Writer) (subs : List Writer) : Seg :=
  let own := if w.added then [w.pool.mergeSort Posting.le] else []
  let r := mergeSubs w.ndocs own subs
  { docs := r.1, posts := imerge r.2, deleted := [] }

/-- `MpWriter._commit` (merged) / `SerialMpWriter._commit`. -/
def Writer.mpCommit (w : Writer) (subs : List Writer) (plan : Plan) : Except Err Toc :=
  let (toMerge, unchanged) := plan w.segs
  (w.addReaders toMerge).map fun w' =>
    { schema := w'.schema, segs := unchanged ++ [w'.mpFinal subs], gen := w'.gen }

/-- `MpWriter._commit` with `multisegment=True`: the sub-writers' segments are adopted as they are. -/
def Writer.mpCommitMulti (w : Writer) (subs : List Writer) (plan : Plan) : Except Err Toc :=
  let (toMerge, unchanged) := plan w.segs
  (w.addReaders toMerge).map fun w' =>
    { schema := w'.schema
      segs := unchanged ++ subs.map Writer.finalizeSegment ++ (if w'.added then [w'.finalizeSegment] else [])
      gen := w'.gen }

/-! ### BufferedWriter

`writer` is the underlying `SegmentWriter` (kept open), `ram` the `MemoryCodec` segment holding the
buffered documents.  Reads go through `MultiReader([writer.reader(), ramreader])`, i.e. the
segment list `writer.segs ++ [ram]`. -/

structure Buffered where
  writer : Writer
  ram : Seg
  count : Nat
  limit : Nat
  plan : Plan

/-- the segment list `BufferedWriter.reader()` reads -/
def Buffered.readSegs (b : Buffered) : List Seg := b.writer.segs ++ [b.ram]

def emptySeg : Seg := { docs := [], posts := [], deleted := [] }

/-- `BufferedWriter.commit` (`restart=True`): flush the RAM segment through `add_reader`, commit,
    open the next writer. -/
def Buffered.commit (b : Buffered) : Except Err Buffered :=
  (if b.count > 0 then b.writer.addReader b.ram else .ok b.writer).bind fun w =>
    (w.commitPlan b.plan).map fun t =>
      { b with writer := t.writer, ram := emptySeg, count := 0 }

/-- `BufferedWriter.add_document`: a `MemWriter` adds the document to the RAM segment. -/
def Buffered.addDocument (b : Buffered) (d : DocRec) : Except Err Buffered :=
  if !d.fits b.writer.schema then .error .unknownField else
  let ram' : Seg := { docs := b.ram.docs ++ [d]
                      posts := (b.ram.posts ++ docPostings d b.ram.docs.length).mergeSort Posting.le
                      deleted := b.ram.deleted }
  let b' : Buffered := { b with ram := ram', count := b.count + 1 }
  if b'.count ≥ b'.limit then b'.commit else .ok b'

/-- `BufferedWriter.delete_document`: below `index.doc_count_all()` the writer's segments, above
    the RAM segment (`MemSegment.delete_document` raises `KeyError` for a missing document). -/
def Buffered.deleteDocument (b : Buffered) (n : Nat) : Except Err Buffered :=
  let base := docCountAllSegs b.writer.segs
  if n < base then (b.writer.deleteDocument n).map fun w => { b with writer := w }
  else if n - base < b.ram.docCountAll && !b.ram.isDeleted (n - base) then
    .ok { b with ram := b.ram.deleteDocument (n - base) true }
  else .error .keyError

def Buffered.deleteMany (b : Buffered) (ns : List Nat) : Except Err Buffered :=
  ns.foldlM (fun b n => b.deleteDocument n) b

/-- `IndexWriter.delete_by_query` on the buffered writer's own searcher. -/
def Buffered.deleteByQuery (b : Buffered) (q : Query) : Except Err (Buffered × Nat) :=
  let ds := docsForQuery b.writer.schema q b.readSegs 0
  (b.deleteMany ds).map fun b' => (b', ds.length)

/-- `IndexWriter.update_document` on the buffered writer: the writer as the exception (if any)
    leaves it — the deletions have happened when `add_document` raises. -/
def Buffered.updateDocument (b : Buffered) (d : DocRec) : Buffered × Option Err :=
  match b.deleteMany (findUnique b.writer.schema b.readSegs (uniqTerms b.writer.schema d)) with
  | .error e => (b, some e)
  | .ok b1 =>
    match b1.addDocument d with
    | .error e => (b1, some e)
    | .ok b2 => (b2, none)

/-- `BufferedWriter.close()`: a last commit without restart; the committed TOC. -/
def Buffered.close (b : Buffered) : Except Err Toc :=
  (if b.count > 0 then b.writer.addReader b.ram else .ok b.writer).bind fun w => w.commitPlan b.plan

/-- one call on a `BufferedWriter`; the writer as an exception (if any) leaves it -/
def Buffered.step (b : Buffered) : Op → Buffered
  | .add d => match b.addDocument d with
    | .ok b' => b'
    | .error _ => b
  | .update d => (b.updateDocument d).1
  | .delBy q => match b.deleteByQuery q with
    | .ok r => r.1
    | .error _ => b
  | .delDoc n => match b.deleteDocument n with
    | .ok b' => b'
    | .error _ => b
  | _ => b

/-- what a call on a `BufferedWriter` means on the dictionary: every call sees committed + buffered -/
def flatStep (sp : State) : Op → State
  | .add d => if d.fits sp.schema then { sp with docs := sp.docs ++ [d] } else sp
  | .update d =>
    { sp with docs := sp.docs.filter (fun c => !sharesUnique (uniqTerms sp.schema d) c) ++
                      (if d.fits sp.schema then [d] else []) }
  | .delBy (.pred p) => { sp with docs := sp.docs.filter (fun c => !p c) }
  | .delBy (.term f t) => { sp with docs := sp.docs.filter (fun c => !c.hasTerm f t) }
  | _ => sp

/-- what the buffered writer's own searcher sees -/
def Buffered.content (b : Buffered) : List DocRec := contentOf b.writer.schema b.readSegs

/-! ### AsyncWriter

Either it got the writer at once (calls pass through), or it records the calls and replays them,
in order, on the writer it eventually obtains — on whatever is committed at that time. -/

def asyncReplay (tAtLock : Toc) (events : List Op) (plan : Plan) : Except Err Toc :=
  tAtLock.session events (.commit plan)

/-! ### The specification operation a call amounts to

Doc numbers are a notion of the layout, so the specification operation of `delete_document(n)` is
"remove the document that sits at `n`"; calls that raise have no effect. -/

def Writer.specOp (w : Writer) : Op → SOp
  | .add d => if d.fits w.schema then .add d else .skip
  | .update d =>
    if d.fits w.schema then .update d else .deleteWhere (sharesUnique (uniqTerms w.schema d))
  | .delDoc n =>
    if n < docCountAllSegs w.segs then
      match docAt w.segs n, w.isDeleted n with
      | some d, some false => .erase (restrict w.schema d)
      | _, _ => .skip
    else .skip
  | .undelDoc n =>
    if n < docCountAllSegs w.segs then
      match docAt w.segs n, w.isDeleted n with
      | some d, some true => .restore (restrict w.schema d)
      | _, _ => .skip
    else .skip
  | .delBy (.term f t) => .deleteWhere (fun d => d.hasTerm f t)
  | .delBy (.pred p) => .deleteWhere p
  | .addField f u => if !w.added && !w.schema.has f then .addField f u else .skip
  | .removeField f => if !w.added && w.schema.has f then .removeField f else .skip

/-- The specification run that accompanies a model run. -/
def Writer.specOps (w : Writer) : List Op → List SOp
  | [] => []
  | o :: r => w.specOp o :: Writer.specOps (w.step o).1 r

end WM.Index
