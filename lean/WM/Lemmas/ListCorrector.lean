import WM.Lemmas.LevSucc
import WM.Lemmas.DFAFuel
import WM.Lemmas.Suggest
/-! `ListCorrector`: every suggestion is a non-empty word of the list that shares the required
prefix and is within plain Levenshtein distance `maxdist` of the text. -/
namespace WM.Lev
open WM.Edit WM.Lev.NFA

theorem singleton_zero_le_iff (t : List Nat) : [0] ≤ t ↔ t ≠ [] := by
  constructor
  · intro h ht; subst ht; exact absurd h (by decide)
  · intro h
    have := (snoc_zero_le_iff [] t).mpr (by
      cases t with
      | nil => exact absurd rfl h
      | cons a l => exact List.nil_lt_cons a l)
    simpa using this

/-- `find_all_matches` over a sorted word list returns exactly its accepted non-empty words. -/
theorem findAllMatches_spec (acc : List Nat → Bool) (nv : List Nat → Except Err (Option (List Nat)))
    (hnv : NextValidSpec acc nv) (wl : List (List Nat)) (hv : ∀ t, t ∈ wl → Valid t)
    (hs : SortedLex wl) :
    findAllMatches nv wl = .ok (wl.filter fun t => decide (t ≠ []) && acc t) := by
  have hv0 : Valid [0] := by intro c hc; simp at hc; subst hc; exact ⟨Nat.zero_le _, Or.inl (by omega)⟩
  unfold findAllMatches
  obtain ⟨r, hr⟩ : ∃ r, nv [0] = .ok r := by
    rcases hnv [0] hv0 with ⟨h, _⟩ | ⟨m, h, _⟩
    · exact ⟨_, h⟩
    · exact ⟨_, h⟩
  rw [hr]
  simp only
  rw [findLoop_spec acc nv hnv wl hv hs _ [0] r hv0 hr]
  · congr 1
    apply List.filter_congr
    intro t _
    have := singleton_zero_le_iff t
    by_cases h : t = []
    · simp [h]
    · simp [h, this.mpr h]
  · unfold potential
    have : (wl.filter fun t => decide ([0] ≤ t)).length ≤ wl.length := List.length_filter_le _ _
    split <;> omega

/-- What an item of `ListCorrector._suggestions` is. -/
def ListItemOk (wl : List (List Nat)) (w : List Nat) (p maxdist : Nat) (a : Rat × List Nat) : Prop :=
  a.2 ∈ wl ∧ a.2 ≠ [] ∧ (w.take p <+: a.2) ∧ lev w a.2 ≤ maxdist

theorem listSuggestionsLoop_spec (wl : List (List Nat)) (w : List Nat) (p maxdist : Nat) (hw : Valid w)
    (hv : ∀ t, t ∈ wl → Valid t) (hs : SortedLex wl) :
    ∀ (mxds : List Nat) (seen : List (List Nat)), (∀ m, m ∈ mxds → m ≤ maxdist) →
      ∃ items, listSuggestionsLoop wl w p mxds seen = .ok items ∧
        ∀ a, a ∈ items → ListItemOk wl w p maxdist a := by
  intro mxds
  induction mxds with
  | nil => intro seen _; exact ⟨[], rfl, fun _ h => by cases h⟩
  | cons mxd rest ih =>
    intro seen hm
    obtain ⟨dfa, hdfa⟩ := toDfa_terminates (levenshteinAutomaton w mxd p)
    have hnv := lev_nextValidSpec w mxd p hw dfa hdfa
    rw [listSuggestionsLoop, hdfa]
    simp only
    rw [findAllMatches_spec _ _ hnv wl hv hs]
    simp only
    obtain ⟨items, hitems, hok⟩ := ih (seen ++ ((wl.filter fun t => decide (t ≠ []) &&
      dfa.accept (some dfa.initial) t).filter fun s => !seen.contains s))
      (fun m h => hm m (List.mem_cons_of_mem _ h))
    rw [hitems]
    refine ⟨_, rfl, ?_⟩
    intro a ha
    rcases List.mem_append.mp ha with h1 | h1
    · simp only [List.mem_map, List.mem_filter] at h1
      obtain ⟨s, ⟨⟨hswl, hacc⟩, _⟩, rfl⟩ := h1
      simp only [Bool.and_eq_true, decide_eq_true_eq] at hacc
      have := (nfa_accept_iff w mxd p s).mp (by rw [← toDfa_accept _ dfa hdfa]; exact hacc.2)
      exact ⟨hswl, hacc.1, this.1, Nat.le_trans this.2 (hm mxd (by simp))⟩
    · exact hok a h1

/-- **`ListCorrector.suggest`** (for a sorted word list and a text of real characters): the call
    succeeds, and every suggestion is a non-empty word of the list that starts with the first
    `prefix` characters of the text and is within Levenshtein distance `maxdist` of it; with
    `limit ≥ 1` at most `limit` words are returned. -/
theorem listSuggest_spec (wl : List (List Nat)) (w : List Nat) (limit maxdist p : Nat) (hl : 0 < limit)
    (hw : Valid w) (hv : ∀ t, t ∈ wl → Valid t) (hs : SortedLex wl) :
    ∃ r, listSuggest wl w limit maxdist p = .ok r ∧ r.length ≤ limit ∧
      ∀ t, t ∈ r → t ∈ wl ∧ t ≠ [] ∧ (w.take p <+: t) ∧ lev w t ≤ maxdist := by
  obtain ⟨items, hitems, hok⟩ := listSuggestionsLoop_spec wl w p maxdist hw hv hs
    ((List.range maxdist).map (· + 1)) [] (by
      intro m hm
      simp only [List.mem_map, List.mem_range] at hm
      obtain ⟨a, ha, rfl⟩ := hm; omega)
  obtain ⟨r, hr, hlen⟩ := suggestItems_length items limit hl
  refine ⟨r, ?_, by rw [hlen]; exact Nat.min_le_left _ _, ?_⟩
  · unfold listSuggest; rw [hitems]; exact hr
  · intro t ht
    obtain ⟨a, ha, rfl⟩ := suggestItems_mem items limit r hr t ht
    exact hok a ha

end WM.Lev
