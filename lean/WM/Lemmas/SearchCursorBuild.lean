import WM.Model.SearchCursor
import WM.Lemmas.SearchCursor
/-! Folding matcher constructors along a tree shape: the cursor tree denotes the folded list. -/
namespace WM.Compile
open WM.Search
open WM.Matcher (Any mkInter mkUnion mkDisMax mkAndNot mkAndMaybe mkRequire mkInverse mkConst mkBoost mkAUnion allIds WF
  ListM unionWith scale)

/-- a built matcher is well formed and denotes the list `l` -/
def Denotes (m : Any) (l : PL) : Prop := WF m.1 m.2 ∧ toPL m.den = l

theorem denotes_null : Denotes Any.null [] := ⟨trivial, rfl⟩

theorem den_listOf (l : PL) : toPL (listOf l).den = l := by
  show toPL (((l.map (·.id)).zip (l.map (·.score))).drop 0) = l
  rw [List.drop_zero]
  induction l with
  | nil => rfl
  | cons e l ih =>
    simp only [List.map_cons, List.zip_cons_cons, toPL_cons, ih]

theorem denotes_listOf {l : PL} (h : Sorted l) : Denotes (listOf l) l := by
  refine ⟨?_, den_listOf l⟩
  show (l.map (·.id)).Pairwise (· < ·) ∧ (l.map (·.score)).length = (l.map (·.id)).length
  refine ⟨?_, by simp⟩
  rw [List.pairwise_map]
  exact h

theorem denotes_boostM (b : Rat) {m : Any} {l : PL} (h : Denotes m l) : Denotes (boostM b m) (boostL b l) := by
  unfold boostM
  split
  · rename_i hb
    subst hb
    have : boostL 1 l = l := by
      unfold boostL
      conv => rhs; rw [← List.map_id l]
      apply List.map_congr_left
      intro e _
      cases e
      simp [Rat.mul_one]
    rw [this]; exact h
  · refine ⟨h.1, ?_⟩
    show toPL (scale b m.den) = _
    rw [toPL_scale, h.2]

/-- what a binary matcher constructor has to do -/
def OpOk (op : Any → Any → MR Any) (opL : PL → PL → PL) : Prop :=
  ∀ a b la lb, Denotes a la → Denotes b lb → ∃ m, op a b = .ok m ∧ Denotes m (opL la lb)

/-- element-wise `Denotes` -/
def DenotesL : List Any → List PL → Prop
  | [], [] => True
  | m :: ms, l :: ls => Denotes m l ∧ DenotesL ms ls
  | _, _ => False

theorem getD_denotes : ∀ {ms : List Any} {pls : List PL}, DenotesL ms pls → ∀ i,
    Denotes (ms.getD i Any.null) (pls.getD i [])
  | [], [], _, i => by simpa using denotes_null
  | m :: ms, l :: ls, h, 0 => by simpa using h.1
  | m :: ms, l :: ls, h, i + 1 => by simpa using getD_denotes (ms := ms) (pls := ls) h.2 i
  | [], _ :: _, h, _ => by cases h
  | _ :: _, [], h, _ => by cases h

theorem foldShapeM_denotes {op : Any → Any → MR Any} {opL : PL → PL → PL} (hop : OpOk op opL)
    {ms : List Any} {pls : List PL} (h : DenotesL ms pls) (sh : Compile.Shape) :
    ∃ m, foldShapeM op ms sh = .ok m ∧ Denotes m (foldShape opL pls sh) := by
  induction sh with
  | leaf i => exact ⟨_, rfl, getD_denotes h i⟩
  | node l r ihl ihr =>
    obtain ⟨a, ha, hda⟩ := ihl
    obtain ⟨b, hb, hdb⟩ := ihr
    obtain ⟨m, hm, hdm⟩ := hop a b _ _ hda hdb
    exact ⟨m, by simp [foldShapeM, ha, hb, hm, bind, Except.bind], hdm⟩

theorem opOk_inter : OpOk mkInter interL := by
  intro a b la lb ha hb
  obtain ⟨m, h1, h2, h3⟩ := (WM.C11.constructors_wf a b ha.1 hb.1).1
  exact ⟨m, h1, h2, by rw [h3, toPL_interAdd, ha.2, hb.2]⟩

theorem opOk_union : OpOk (fun a b => pure (mkUnion a b)) unionL := by
  intro a b la lb ha hb
  refine ⟨mkUnion a b, rfl, ⟨ha.1, hb.1⟩, ?_⟩
  show toPL (unionWith (· + ·) a.den b.den) = _
  rw [toPL_unionAdd, ha.2, hb.2]

theorem opOk_dismax : OpOk (fun a b => pure (mkDisMax a b)) dismaxL := by
  intro a b la lb ha hb
  refine ⟨mkDisMax a b, rfl, ⟨ha.1, hb.1⟩, ?_⟩
  show toPL (unionWith max a.den b.den) = _
  rw [toPL_unionMax, ha.2, hb.2]

/-! ### `Or._matcher` over built clause matchers: tree of unions, scored array union -/

theorem DenotesL.length : ∀ {ms : List Any} {pls : List PL}, DenotesL ms pls → ms.length = pls.length
  | [], [], _ => rfl
  | _ :: ms, _ :: ls, h => by simp [DenotesL.length (ms := ms) (pls := ls) h.2]
  | [], _ :: _, h => by cases h
  | _ :: _, [], h => by cases h

/-- `ListMatcher` state over a posting list -/
def listM (l : PL) : WM.Matcher.St .list := (⟨l.map (·.id), l.map (·.score), 0, true⟩ : ListM)

theorem listOf_eq (l : PL) : listOf l = ⟨.list, listM l⟩ := rfl
theorem listOf_def : listOf = fun l => (⟨.list, listM l⟩ : Any) := rfl

theorem castTo_list (pls : List PL) : castTo .list (pls.map listOf) = some (pls.map listM) := by
  induction pls with
  | nil => rfl
  | cons l pls ih =>
    simp only [List.map_cons, castTo, listOf_eq, dite_true]
    rw [ih]; rfl

/-- a property of entries that survives adding the scores of two entries of one document holds for every
    entry of a merge / of the union of several lists -/
theorem mergeWith_forall {P : Hit → Prop} (g : Rat → Rat → Rat)
    (hg : ∀ x y : Hit, P x → P y → x.id = y.id → P ⟨x.id, g x.score y.score⟩) (a b : PL)
    (ha : ∀ e ∈ a, P e) (hb : ∀ e ∈ b, P e) : ∀ e ∈ mergeWith g a b, P e := by
  fun_induction mergeWith g a b with
  | case1 b => exact hb
  | case2 a as => exact ha
  | case3 a as b bs hlt ih =>
    intro e he
    rcases List.mem_cons.mp he with rfl | he
    · exact ha _ List.mem_cons_self
    · exact ih (fun x hx => ha x (List.mem_cons_of_mem _ hx)) hb e he
  | case4 a as b bs hlt hgt ih =>
    intro e he
    rcases List.mem_cons.mp he with rfl | he
    · exact hb _ List.mem_cons_self
    · exact ih ha (fun x hx => hb x (List.mem_cons_of_mem _ hx)) e he
  | case5 a as b bs hlt hgt ih =>
    intro e he
    rcases List.mem_cons.mp he with rfl | he
    · exact hg a b (ha _ List.mem_cons_self) (hb _ List.mem_cons_self) (by omega)
    · exact ih (fun x hx => ha x (List.mem_cons_of_mem _ hx)) (fun x hx => hb x (List.mem_cons_of_mem _ hx)) e he

theorem unionAll_forall {P : Hit → Prop}
    (hg : ∀ x y : Hit, P x → P y → x.id = y.id → P ⟨x.id, x.score + y.score⟩) :
    ∀ (ms : List PL), (∀ m ∈ ms, ∀ e ∈ m, P e) → ∀ e ∈ unionAll ms, P e
  | [], _ => by intro e he; cases he
  | m :: ms, h => by
    show ∀ e ∈ mergeWith (· + ·) m (unionAll ms), P e
    exact mergeWith_forall _ hg m (unionAll ms) (h m List.mem_cons_self)
      (unionAll_forall hg ms (fun x hx => h x (List.mem_cons_of_mem _ hx)))

theorem toPL_sumDens (Ds : List WM.Matcher.Den) : toPL (WM.Matcher.sumDens Ds) = unionAll (Ds.map toPL) := by
  induction Ds with
  | nil => rfl
  | cons D Ds ih =>
    show toPL (unionWith (· + ·) D (WM.Matcher.sumDens Ds)) = unionL (toPL D) (unionAll (Ds.map toPL))
    rw [toPL_unionAdd, ih]

theorem toPL_below (n : Nat) (L : WM.Matcher.Den) (h : ∀ e ∈ toPL L, e.id < n) : toPL (WM.Matcher.below n L) = toPL L := by
  unfold WM.Matcher.below
  rw [List.filter_eq_self.mpr]
  intro p hp
  have := h ⟨p.1, p.2⟩ (List.mem_map.mpr ⟨p, hp, rfl⟩)
  simpa using this

theorem mem_den_listM {l : PL} {p : Nat × Rat} (hp : p ∈ WM.Matcher.den .list (listM l)) : (⟨p.1, p.2⟩ : Hit) ∈ l := by
  have h := den_listOf l
  have : (⟨p.1, p.2⟩ : Hit) ∈ toPL (listOf l).den := List.mem_map.mpr ⟨p, hp, rfl⟩
  rw [h] at this; exact this

theorem full_listM (l : PL) : WM.Matcher.full .list (listM l) = WM.Matcher.den .list (listM l) := by
  show (listM l).ids.zip (listM l).weights = ((listM l).ids.zip (listM l).weights).drop 0
  rw [List.drop_zero]

/-- `ArrayUnionMatcher` over plain list matchers with positive scores below `dc`, positive boost: built without
    error, well formed, and it means the array-union list of `compile` (which, the scores being positive, is the
    boosted sum) -/
theorem aunion_denotes (dc : Nat) (b : Rat) (hb : 0 < b) (pls : List PL)
    (hpl : ∀ l ∈ pls, Sorted l ∧ ∀ e ∈ l, 0 < e.score ∧ e.id < dc) :
    ∃ m, mkAUnion .list (pls.map listM) dc b 2048 = .ok m ∧
      Denotes m (arrayParts 2048 (unionAll (pls.map (boostL b)))) := by
  have hw : ∀ x ∈ pls.map listM, WF .list x := by
    intro x hx
    obtain ⟨l, hl, rfl⟩ := List.mem_map.mp hx
    exact (denotes_listOf (hpl l hl).1).1
  have hdp : ∀ x ∈ pls.map listM, ∀ p ∈ WM.Matcher.den .list x, 0 < p.2 := by
    intro x hx p hp
    obtain ⟨l, hl, rfl⟩ := List.mem_map.mp hx
    exact ((hpl l hl).2 _ (mem_den_listM hp)).1
  have hfp : ∀ x ∈ pls.map listM, ∀ p ∈ WM.Matcher.full .list x, 0 < p.2 := by
    intro x hx p hp
    obtain ⟨l, hl, rfl⟩ := List.mem_map.mp hx
    rw [full_listM] at hp
    exact ((hpl l hl).2 _ (mem_den_listM hp)).1
  obtain ⟨m, h1, h2, h3⟩ := WM.C11.aunion_constructor_wf .list (pls.map listM) dc b 2048 hw hb (by decide) hdp hfp
  refine ⟨m, h1, h2, ?_⟩
  have hmap : ((pls.map listM).map fun x => scale b (WM.Matcher.den .list x)).map toPL = pls.map (boostL b) := by
    rw [List.map_map, List.map_map]
    apply List.map_congr_left
    intro l _
    show toPL (scale b (listOf l).den) = boostL b l
    rw [toPL_scale, den_listOf]
  have hall : ∀ e ∈ unionAll (pls.map (boostL b)), 0 < e.score ∧ e.id < dc := by
    apply unionAll_forall (P := fun e => 0 < e.score ∧ e.id < dc)
    · intro x y hx hy _
      exact ⟨by have := hx.1; have := hy.1; show 0 < x.score + y.score; grind, hx.2⟩
    · intro m' hm' e he
      obtain ⟨l, hl, rfl⟩ := List.mem_map.mp hm'
      obtain ⟨e0, he0, rfl⟩ := List.mem_map.mp he
      exact ⟨Rat.mul_pos ((hpl l hl).2 e0 he0).1 hb, ((hpl l hl).2 e0 he0).2⟩
  rw [h3, toPL_below, toPL_sumDens, hmap, arrayParts_pos _ _ (fun e he => (hall e he).1)]
  rw [toPL_sumDens, hmap]
  exact fun e he => (hall e he).2

/-- the condition under which `orManyM` has a node for what `Or._matcher` builds -/
def OrOK (ctx : Ctx) (dc : Nat) (b : Rat) (ms : List Any) (pls : List PL) : Prop :=
  (ms.length < 1024 ∧ (ctx.nc = true ∨ ms.length = 2 ∨ 5000 < dc)) ∨
  (ctx.scored = true ∧ 0 < b ∧ ms = pls.map listOf ∧ ∀ l ∈ pls, Sorted l ∧ ∀ e ∈ l, 0 < e.score ∧ e.id < dc)

theorem orManyM_denotes {ctx : Ctx} {dc : Nat} {b : Rat} {ms : List Any} {pls : List PL} (sh : Compile.Shape)
    (h : DenotesL ms pls) (h2 : 2 ≤ ms.length) (hok : OrOK ctx dc b ms pls) :
    ∃ m, orManyM ctx dc sh ms b = .ok m ∧ Denotes m (orMany ctx dc sh pls b) := by
  have hlen := h.length
  unfold orManyM orMany
  by_cases hcond : (decide (ms.length < 1024) && (ctx.nc || ms.length == 2 || decide (5000 < dc))) = true
  · have hcond' : (decide (pls.length < 1024) && (ctx.nc || pls.length == 2 || decide (5000 < dc))) = true := by
      rw [← hlen]; exact hcond
    simp only [hcond, hcond', if_true]
    obtain ⟨m, hm, hdm⟩ := foldShapeM_denotes opOk_union h sh
    exact ⟨boostM b m, by rw [hm]; rfl, denotes_boostM b hdm⟩
  · have hcond' : ¬ (decide (pls.length < 1024) && (ctx.nc || pls.length == 2 || decide (5000 < dc))) = true := by
      rw [← hlen]; exact hcond
    rcases hok with ⟨hlt, hor⟩ | ⟨hsc, hb, hms, hpl⟩
    · exfalso; apply hcond
      rcases hor with hnc | h2' | hdc
      · simp [hlt, hnc]
      · simp [h2']
      · simp [hlt, hdc]
    · simp only [hcond, hcond', hsc, if_true, if_false, Bool.false_eq_true]
      subst hms
      cases pls with
      | nil => simp at h2
      | cons l0 pls' =>
        obtain ⟨m, h1, hd⟩ := aunion_denotes dc b hb (l0 :: pls') hpl
        refine ⟨m, ?_, hd⟩
        have hc := castTo_list (l0 :: pls')
        simp only [List.map_cons, listOf_def] at hc ⊢
        rw [hc]
        exact h1

/-- the constant-score scheme on both sides -/
theorem csM_denotes (ctx : Ctx) (c : Rat) {m : Any} {l : PL} (h : Denotes m l) :
    ∃ m', csM ctx c m = .ok m' ∧ Denotes m' (csL ctx c l) := by
  unfold csM csL
  by_cases hnc : ctx.nc = true
  · simp only [hnc, if_true]
    refine ⟨mkConst m c, rfl, h.1, ?_⟩
    show toPL (WM.Matcher.constScore c m.den) = _
    rw [toPL_constScore, h.2]
  · simp only [hnc]
    have hids := WM.C11.all_ids_base m h.1
    refine ⟨_, by rw [hids]; rfl, ?_⟩
    have heq : (m.den.map (·.1)).map (fun i => (⟨i, wOf c⟩ : Hit)) = constL (wOf c) l := by
      rw [← h.2]
      simp [constL, toPL, List.map_map, Function.comp_def]
    rw [heq]
    apply denotes_listOf
    apply constL_sorted
    rw [← h.2]
    have hasc := WM.C11.sorted m.1 m.2 h.1
    unfold Sorted toPL
    rw [List.pairwise_map]
    exact hasc

end WM.Compile
