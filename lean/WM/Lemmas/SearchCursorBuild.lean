import WM.Model.SearchCursor
import WM.Lemmas.SearchCursor
/-! Folding matcher constructors along a tree shape: the cursor tree denotes the folded list. -/
namespace WM.Compile
open WM.Search
open WM.Matcher (Any mkInter mkUnion mkDisMax mkAndNot mkAndMaybe mkRequire mkInverse mkConst mkBoost allIds WF
  ListM unionWith scale)

/-- a built matcher is well formed and denotes the list `l` -/
def Denotes (m : Any) (l : PL) : Prop := WF m.1 m.2 ∧ toPL m.den = l

theorem denotes_null : Denotes Any.null [] := ⟨trivial, rfl⟩

theorem den_listOf (l : PL) : toPL (listOf l).den = l := by
  show toPL (((l.map (·.id)).zip (l.map (·.score))).drop 0) = l
  rw [List.drop_zero]
  induction l with
  | nil => rfl
  | cons e l ih =>
    simp only [List.map_cons, List.zip_cons_cons, toPL_cons, ih]

theorem denotes_listOf {l : PL} (h : Sorted l) : Denotes (listOf l) l := by
  refine ⟨?_, den_listOf l⟩
  show (l.map (·.id)).Pairwise (· < ·) ∧ (l.map (·.score)).length = (l.map (·.id)).length
  refine ⟨?_, by simp⟩
  rw [List.pairwise_map]
  exact h

theorem denotes_boostM (b : Rat) {m : Any} {l : PL} (h : Denotes m l) : Denotes (boostM b m) (boostL b l) := by
  unfold boostM
  split
  · rename_i hb
    subst hb
    have : boostL 1 l = l := by
      unfold boostL
      conv => rhs; rw [← List.map_id l]
      apply List.map_congr_left
      intro e _
      cases e
      simp [Rat.mul_one]
    rw [this]; exact h
  · refine ⟨h.1, ?_⟩
    show toPL (scale b m.den) = _
    rw [toPL_scale, h.2]

/-- what a binary matcher constructor has to do -/
def OpOk (op : Any → Any → MR Any) (opL : PL → PL → PL) : Prop :=
  ∀ a b la lb, Denotes a la → Denotes b lb → ∃ m, op a b = .ok m ∧ Denotes m (opL la lb)

/-- element-wise `Denotes` -/
def DenotesL : List Any → List PL → Prop
  | [], [] => True
  | m :: ms, l :: ls => Denotes m l ∧ DenotesL ms ls
  | _, _ => False

theorem getD_denotes : ∀ {ms : List Any} {pls : List PL}, DenotesL ms pls → ∀ i,
    Denotes (ms.getD i Any.null) (pls.getD i [])
  | [], [], _, i => by simpa using denotes_null
  | m :: ms, l :: ls, h, 0 => by simpa using h.1
  | m :: ms, l :: ls, h, i + 1 => by simpa using getD_denotes (ms := ms) (pls := ls) h.2 i
  | [], _ :: _, h, _ => by cases h
  | _ :: _, [], h, _ => by cases h

theorem foldShapeM_denotes {op : Any → Any → MR Any} {opL : PL → PL → PL} (hop : OpOk op opL)
    {ms : List Any} {pls : List PL} (h : DenotesL ms pls) (sh : Compile.Shape) :
    ∃ m, foldShapeM op ms sh = .ok m ∧ Denotes m (foldShape opL pls sh) := by
  induction sh with
  | leaf i => exact ⟨_, rfl, getD_denotes h i⟩
  | node l r ihl ihr =>
    obtain ⟨a, ha, hda⟩ := ihl
    obtain ⟨b, hb, hdb⟩ := ihr
    obtain ⟨m, hm, hdm⟩ := hop a b _ _ hda hdb
    exact ⟨m, by simp [foldShapeM, ha, hb, hm, bind, Except.bind], hdm⟩

theorem opOk_inter : OpOk mkInter interL := by
  intro a b la lb ha hb
  obtain ⟨m, h1, h2, h3⟩ := (WM.C11.constructors_wf a b ha.1 hb.1).1
  exact ⟨m, h1, h2, by rw [h3, toPL_interAdd, ha.2, hb.2]⟩

theorem opOk_union : OpOk (fun a b => pure (mkUnion a b)) unionL := by
  intro a b la lb ha hb
  refine ⟨mkUnion a b, rfl, ⟨ha.1, hb.1⟩, ?_⟩
  show toPL (unionWith (· + ·) a.den b.den) = _
  rw [toPL_unionAdd, ha.2, hb.2]

theorem opOk_dismax : OpOk (fun a b => pure (mkDisMax a b)) dismaxL := by
  intro a b la lb ha hb
  refine ⟨mkDisMax a b, rfl, ⟨ha.1, hb.1⟩, ?_⟩
  show toPL (unionWith max a.den b.den) = _
  rw [toPL_unionMax, ha.2, hb.2]

end WM.Compile
