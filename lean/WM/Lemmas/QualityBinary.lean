import WM.Lemmas.QualityUnion
/-! Quality contract of `AndNotMatcher`, `RequireMatcher`, `AndMaybeMatcher`. -/
namespace WM.Matcher

theorem leftJoin_nil_right (A : Den) : leftJoin A [] = A := by
  induction A with
  | nil => rfl
  | cons p A ih => simp only [leftJoin, List.map_cons, lookup_nil] at ih ⊢; rw [ih]

theorem bounded_sublist {q : Rat} {L L' : Den} (h : ∀ p ∈ L', p ∈ L) (b : BoundedBy q L) : BoundedBy q L' :=
  fun p hp => b p (h p hp)

theorem nonNeg_sublist {L L' : Den} (h : ∀ p ∈ L', p ∈ L) (b : NonNegDen L) : NonNegDen L' :=
  fun p hp => b p (h p hp)

namespace AndNot
variable {α β : Type} {A : Ops α} {B : Ops β} {dA fA : α → Den} {dB fB : β → Den}
  {WQA W0A : α → Prop} {WQB W0B : β → Prop}

theorem qfaithful (QA : QFaithful A dA fA WQA W0A) (QB : QFaithful B dB fB WQB W0B) :
    QFaithful (AndNot.ops A B) (fun m => diff (dA m.a) (dB m.b)) (fun m => diff (fA m.a) (fB m.b))
      (fun m => WQA m.a ∧ W0B m.b ∧ Ahead dA dB m) (fun m => W0A m.a ∧ W0B m.b ∧ Ahead dA dB m) where
  toW0 m h := ⟨QA.toW0 _ h.1, h.2.1, h.2.2⟩
  cur0 := AndNot.faithful QA.cur0 QB.cur0
  curQ := AndNot.faithful QA.curQ QB.cur0
  nn m h := nonNeg_sublist (diff_subset _ _) (QA.nn _ h.1)
  sup m h := QA.sup _ h.1
  max m h := by
    obtain ⟨q, h1, h2⟩ := QA.max m.a h.1
    exact ⟨q, h1, bounded_sublist (diff_subset _ _) h2⟩
  maxNonneg m q h hq := QA.maxNonneg _ _ h.1 hq
  block m h := by
    obtain ⟨q, h1, h2⟩ := QA.block m.a h.1
    refine ⟨q, h1, ?_⟩
    intro x r L hd
    have hda : dA m.a ≠ [] := by intro ha; rw [ha, diff_nil_left] at hd; cases hd
    obtain ⟨x', r', La, ha⟩ := exists_cons_of_ne_nil hda
    rw [den_cons QA.curQ QB.cur0 m h.1 h.2.1 h.2.2 ha] at hd
    obtain ⟨h4, -⟩ := List.cons.inj hd; cases h4
    exact h2 _ _ _ ha
  skipQ m q h hne := by
    show ∃ s' k, AndNot.skipToQuality A B m q = _ ∧ _
    unfold AndNot.skipToQuality
    have hda : dA m.a ≠ [] := by intro ha; apply hne; simp only [ha, diff_nil_left]
    obtain ⟨a', k, g1, g2, g3, g4, g5, g6⟩ := QA.skipQ m.a q h.1 hda
    obtain ⟨m', e1, e2⟩ := findNext_spec QA.curQ QB.cur0 ⟨a', m.b⟩ g2 h.2.1
    refine ⟨m', k, by simp [g1, e1, bind, Except.bind]; rfl, ⟨e2.wa, e2.wb, e2.ahead⟩, ?_, ?_, ?_, ?_⟩
    · rw [e2.den_eq]
      exact keeps_diff_left (QA.curQ.asc _ h.1) (QA.curQ.asc _ g2) g3
    · have := e2.rem_a; have := e2.rem_b
      show A.rem m'.a + B.rem m'.b ≤ A.rem m.a + B.rem m.b
      simp only at *; omega
    · intro hd
      have r1 := e2.rem_a; have r2 := e2.rem_b
      show A.rem m'.a + B.rem m'.b < A.rem m.a + B.rem m.b
      simp only at r1 r2
      by_cases e : A.rem m'.a + B.rem m'.b < A.rem m.a + B.rem m.b
      · exact e
      · exfalso
        have e3 : A.rem m'.a = A.rem a' := by omega
        have e4 : B.rem m'.b = B.rem m.b := by omega
        have d1 : dA a' = dA m.a := Classical.byContradiction fun hh => by have := g5 hh; omega
        apply hd
        rw [e2.same_a e3, e2.same_b e4]
        simp only [d1]
    · simp only [e2.full_a, e2.full_b, g6]

end AndNot

namespace Require
variable {α β : Type} {A : Ops α} {B : Ops β} {dA fA : α → Den} {dB fB : β → Den}
  {WQA W0A : α → Prop} {WQB W0B : β → Prop}

theorem qfaithful (QA : QFaithful A dA fA WQA W0A) (QB : QFaithful B dB fB WQB W0B) :
    QFaithful (Require.ops A B) (fun m => interWith (fun s _ => s) (dA m.a) (dB m.b))
      (fun m => interWith (fun s _ => s) (fA m.a) (fB m.b))
      (fun m => WQA m.a ∧ W0B m.b ∧ Inter.Aligned dA dB m) (fun m => W0A m.a ∧ W0B m.b ∧ Inter.Aligned dA dB m) where
  toW0 m h := ⟨QA.toW0 _ h.1, h.2.1, h.2.2⟩
  cur0 := Require.faithful QA.cur0 QB.cur0
  curQ := Require.faithful QA.curQ QB.cur0
  nn m h := nonNeg_interWith _ (QA.cur0.asc _ h.1) (QA.nn _ h.1) (QB.nn _ h.2.1) (fun a _ ha _ => ha)
  sup m h := QA.sup _ h.1
  max m h := by
    obtain ⟨q, h1, h2⟩ := QA.max m.a h.1
    exact ⟨q, h1, bounded_interFst (QA.cur0.asc _ h.1) h2⟩
  maxNonneg m q h hq := QA.maxNonneg _ _ h.1 hq
  block m h := by
    obtain ⟨q, h1, h2⟩ := QA.block m.a h.1
    refine ⟨q, h1, ?_⟩
    intro x r L hd
    rcases Inter.den_cases (fun s _ => s) QA.curQ QB.cur0 m h.1 h.2.1 h.2.2 with ⟨e1, -⟩ | ⟨x', ra, rb, La, Lb, e1, e2, e3⟩
    · rw [e1] at hd; cases hd
    · rw [e3] at hd
      obtain ⟨h4, -⟩ := List.cons.inj hd; cases h4
      exact h2 _ _ _ e1
  skipQ m q h hne := by
    show ∃ s' k, Require.skipToQuality A B m q = _ ∧ _
    unfold Require.skipToQuality
    have hda : dA m.a ≠ [] := by intro ha; apply hne; simp only [ha]; exact interWith_nil_left _ _
    obtain ⟨a', k, g1, g2, g3, g4, g5, g6⟩ := QA.skipQ m.a q h.1 hda
    obtain ⟨m', e1, e2⟩ := Inter.findFirst_spec (fun s _ => s) QA.curQ QB.cur0 ⟨a', m.b⟩ g2 h.2.1
    refine ⟨m', k, by simp [g1, e1, bind, Except.bind]; rfl, ⟨e2.wa, e2.wb, e2.aligned⟩, ?_, ?_, ?_, ?_⟩
    · rw [e2.den_eq]
      exact keeps_interFst_left (QA.curQ.asc _ h.1) (QA.curQ.asc _ g2) g3
    · have := e2.rem_a; have := e2.rem_b
      show A.rem m'.a + B.rem m'.b ≤ A.rem m.a + B.rem m.b
      simp only at *; omega
    · intro hd
      have r1 := e2.rem_a; have r2 := e2.rem_b
      show A.rem m'.a + B.rem m'.b < A.rem m.a + B.rem m.b
      simp only at r1 r2
      by_cases e : A.rem m'.a + B.rem m'.b < A.rem m.a + B.rem m.b
      · exact e
      · exfalso
        have e3 : A.rem m'.a = A.rem a' := by omega
        have e4 : B.rem m'.b = B.rem m.b := by omega
        have d1 : dA a' = dA m.a := Classical.byContradiction fun hh => by have := g5 hh; omega
        apply hd
        rw [e2.same_a e3, e2.same_b e4]
        simp only [d1]
    · simp only [e2.full_a, e2.full_b, g6]

end Require

namespace AndMaybe
variable {α β : Type} {A : Ops α} {B : Ops β} {dA fA : α → Den} {dB fB : β → Den}
  {WQA W0A : α → Prop} {WQB W0B : β → Prop}

theorem qfaithful (QA : QFaithful A dA fA WQA W0A) (QB : QFaithful B dB fB WQB W0B) :
    QFaithful (AndMaybe.ops A B) (fun m => leftJoin (dA m.a) (dB m.b)) (fun m => leftJoin (fA m.a) (fB m.b))
      (fun m => WQA m.a ∧ WQB m.b ∧ NotBehind dA dB m) (fun m => W0A m.a ∧ W0B m.b ∧ NotBehind dA dB m) where
  toW0 m h := ⟨QA.toW0 _ h.1, QB.toW0 _ h.2.1, h.2.2⟩
  cur0 := AndMaybe.faithful QA.cur0 QB.cur0
  curQ := AndMaybe.faithful QA.curQ QB.curQ
  nn m h := nonNeg_leftJoin (QA.cur0.asc _ h.1) (QA.nn _ h.1) (QB.nn _ h.2.1)
  sup m h := by show (A.supportsBQ m.a && B.supportsBQ m.b) = true; rw [QA.sup _ h.1, QB.sup _ h.2.1]; rfl
  max m h := by
    obtain ⟨qa, ha1, ha2, ha3⟩ := QA.maxA m.a h.1
    obtain ⟨qb, hb1, hb2, hb3⟩ := QB.maxA m.b h.2.1
    refine ⟨qa + qb, by show Union.maxQuality A B m = _; simp [Union.maxQuality, ha1, hb1, bind, Except.bind]; rfl, ?_⟩
    exact bounded_leftJoin ha2 hb2 hb3
  maxNonneg m q h hq := by
    obtain ⟨qa, ha1, ha2, ha3⟩ := QA.maxA m.a h.1
    obtain ⟨qb, hb1, hb2, hb3⟩ := QB.maxA m.b h.2.1
    have : Union.maxQuality A B m = .ok (qa + qb) := by simp [Union.maxQuality, ha1, hb1, bind, Except.bind]; rfl
    change Union.maxQuality A B m = .ok q at hq
    rw [this] at hq; cases hq
    exact Rat.add_nonneg ha3 hb3
  block m h := by
    obtain ⟨qa, ha1, ha2, ha3⟩ := QA.blockA m.a h.1
    obtain ⟨qb, hb1, hb2, hb3⟩ := QB.blockA m.b h.2.1
    refine ⟨qa + qb, by show Union.blockQuality A B m = _; simp [Union.blockQuality, ha1, hb1, bind, Except.bind]; rfl, ?_⟩
    intro x r L hd
    have hda : dA m.a ≠ [] := by intro ha; rw [ha, leftJoin_nil_left] at hd; cases hd
    obtain ⟨x', r', La, ha⟩ := exists_cons_of_ne_nil hda
    rw [den_cons QB.curQ m h.2.1 h.2.2 ha] at hd
    obtain ⟨h4, -⟩ := List.cons.inj hd
    have hra := ha2 _ _ _ ha
    have hr : r = (match dB m.b with | (y, s) :: _ => if x' = y then r' + s else r' | [] => r') :=
      (congrArg Prod.snd h4).symm
    rw [hr]
    cases hb : dB m.b with
    | nil => simp only; grind
    | cons p Lb =>
      obtain ⟨y, s⟩ := p
      have hs := hb2 _ _ _ hb
      simp only
      split <;> grind
  skipQ m q h hne := by
    show ∃ s' k, AndMaybe.skipToQuality A B m q = _ ∧ _
    unfold AndMaybe.skipToQuality
    have hda : dA m.a ≠ [] := by intro ha; apply hne; simp only [ha, leftJoin_nil_left]
    have hacta := (QA.curQ.active _ h.1).2 hda
    have ascA := QA.curQ.asc _ h.1
    have ascB := QB.curQ.asc _ h.2.1
    simp only [hacta, Bool.not_true, Bool.false_eq_true, ↓reduceIte]
    by_cases hb0 : dB m.b = []
    · have hinb := (QB.curQ.inactive h.2.1).2 hb0
      obtain ⟨a', k, g1, g2, g3, g4, g5, g6⟩ := QA.skipQ m.a q h.1 hda
      refine ⟨{ m with a := a' }, k, by simp [hinb, g1, bind, Except.bind]; rfl,
        ⟨g2, h.2.1, notBehind_of_nil_right hb0⟩, ?_, ?_, ?_, ?_⟩
      · simp only [hb0, leftJoin_nil_right]; exact g3
      · show A.rem a' + B.rem m.b ≤ A.rem m.a + B.rem m.b; omega
      · intro hd
        have : dA a' ≠ dA m.a := by intro e; apply hd; simp only [e]
        have := g5 this; show A.rem a' + B.rem m.b < A.rem m.a + B.rem m.b; omega
      · simp only [g6]
    · have hactb := (QB.curQ.active _ h.2.1).2 hb0
      obtain ⟨bmax, hb1, hb2⟩ := QB.max m.b (QB.toW0 _ h.2.1)
      have hbmax0 := QB.max_nonneg m.b (QB.toW0 _ h.2.1) hb0 hb2
      obtain ⟨a', k1, g1, g2, g3, g4, g5, g6⟩ := QA.skipQ m.a (q - bmax) h.1 hda
      have ascA' := QA.curQ.asc _ g2
      have K1 : Keeps q (leftJoin (dA a') (dB m.b)) (leftJoin (dA m.a) (dB m.b)) :=
        keeps_leftJoin_left ascA ascA' g3 (by intro e he; have := hb2 e he; grind) (by grind)
      simp only [hactb, Bool.not_true, Bool.false_eq_true, ↓reduceIte, hb1, g1, bind, Except.bind]
      by_cases ha'0 : dA a' = []
      · have hina' := (QA.curQ.inactive g2).2 ha'0
        refine ⟨{ m with a := a' }, k1, by simp [hina']; rfl, ⟨g2, h.2.1, notBehind_of_nil_left ha'0⟩, K1, ?_, ?_, ?_⟩
        · show A.rem a' + B.rem m.b ≤ A.rem m.a + B.rem m.b; omega
        · intro hd
          have : dA a' ≠ dA m.a := by intro e; apply hd; simp only [e]
          have := g5 this; show A.rem a' + B.rem m.b < A.rem m.a + B.rem m.b; omega
        · simp only [g6]
      · have hacta' := (QA.curQ.active _ g2).2 ha'0
        obtain ⟨amax, ha1, ha2⟩ := QA.max a' (QA.toW0 _ g2)
        obtain ⟨b', k2, e1, e2, e3, e4, e5, e6⟩ := QB.skipQ m.b (q - amax) h.2.1 hb0
        have ascB' := QB.curQ.asc _ e2
        have K2 : Keeps q (leftJoin (dA a') (dB b')) (leftJoin (dA a') (dB m.b)) :=
          keeps_leftJoin_right ascA' ascB ascB' (QB.nn _ (QB.toW0 _ h.2.1)) e3
            (by intro e he; have := ha2 e he; grind)
        simp only [hacta', ↓reduceIte, ha1, e1]
        by_cases hb'0 : dB b' = []
        · have hinb' := (QB.curQ.inactive e2).2 hb'0
          refine ⟨⟨a', b'⟩, k1 + k2, by simp [hinb']; rfl, ⟨g2, e2, notBehind_of_nil_right hb'0⟩, K2.trans K1, ?_, ?_, ?_⟩
          · show A.rem a' + B.rem b' ≤ A.rem m.a + B.rem m.b; omega
          · intro hd
            show A.rem a' + B.rem b' < A.rem m.a + B.rem m.b
            by_cases ea : dA a' = dA m.a
            · have : dB b' ≠ dB m.b := by intro e; apply hd; simp only [ea, e]
              have := e5 this; omega
            · have := g5 ea; omega
          · simp only [g6, e6]
        · have hactb' := (QB.curQ.active _ e2).2 hb'0
          obtain ⟨x, r, La, ha'⟩ := exists_cons_of_ne_nil ha'0
          obtain ⟨b'', c1, c2, c3, c4, c5, c6, c7⟩ := catchUp QA.curQ QB.curQ a' b' g2 e2 ha' hb'0
          refine ⟨⟨a', b''⟩, k1 + k2, by simp [hactb', QA.curQ.id _ _ _ _ g2 ha', c1]; rfl, ⟨g2, c2, c3⟩,
            (Keeps.of_eq c4).trans (K2.trans K1), ?_, ?_, ?_⟩
          · show A.rem a' + B.rem b'' ≤ A.rem m.a + B.rem m.b; omega
          · intro hd
            show A.rem a' + B.rem b'' < A.rem m.a + B.rem m.b
            by_cases ea : dA a' = dA m.a
            · by_cases eb : dB b' = dB m.b
              · have : dB b'' ≠ dB b' := by intro e; apply hd; simp only [ea, e, eb]
                have := c6 this; omega
              · have := e5 eb; omega
            · have := g5 ea; omega
          · simp only [g6, c7, e6]

end AndMaybe
end WM.Matcher
