import WM.Model.FSLock
/-! Invariant induction for the N-writer lock protocol (C04). -/
namespace WM.Lock

/-- where a disciplined writer is in its life, relative to the current TOC -/
inductive WPhase (toc : Toc) : WState → Prop where
  | idle (x : WState) : x.holds = false → x.committed = false → x.base = none → x.pending = [] →
      LockDiscipline x.script = true → WPhase toc x
  | done (x : WState) : x.holds = false → x.script = [] → WPhase toc x
  | locked (x : WState) (r : List Step) : x.holds = true → x.committed = false → x.base = none →
      x.pending = [] → x.script = .readToc :: r → tailOK r = true → WPhase toc x
  | ready (x : WState) : x.holds = true → x.committed = false → x.base = some toc →
      tailOK x.script = true → WPhase toc x
  | written (x : WState) : x.holds = true → x.committed = true → postOK x.script = true →
      WPhase toc x

structure Inv (t0 : Toc) (s : State) : Prop where
  phase : ∀ w, WPhase s.toc (s.ws w)
  mutex : ∀ w, (s.ws w).holds = true ↔ s.holder = some w
  gen : s.toc.gen = t0.gen + s.commits.length
  ops : s.toc.ops = t0.ops ++ s.commits.flatMap (fun w => (s.ws w).pending)
  comm : ∀ w ∈ s.commits, (s.ws w).committed = true

theorem wphase_of_not_holds {toc toc' : Toc} {x : WState} (h : WPhase toc x) (hh : x.holds = false) :
    WPhase toc' x := by
  cases h with
  | idle a b c d e => exact .idle x a b c d e
  | done a b => exact .done x a b
  | locked r a => rw [hh] at a; cases a
  | ready a => rw [hh] at a; cases a
  | written a => rw [hh] at a; cases a

theorem inv_init (t0 : Toc) (scripts : Nat → List Step)
    (hd : ∀ w, LockDiscipline (scripts w) = true ∨ scripts w = []) : Inv t0 (init t0 scripts) := by
  refine ⟨?_, ?_, by simp [init], by simp [init], by simp [init]⟩
  · intro w
    rcases hd w with h | h
    · exact .idle _ rfl rfl rfl rfl h
    · exact .done _ rfl h
  · intro w; simp [init]

theorem setW_same (s : State) (w : Nat) (x : WState) : (setW s w x).ws w = x := by simp [setW]
theorem setW_other (s : State) (w v : Nat) (x : WState) (h : v ≠ w) : (setW s w x).ws v = s.ws v := by
  simp [setW, h]

theorem flatMap_pending_congr (l : List Nat) (f g : Nat → WState)
    (h : ∀ w ∈ l, (f w).pending = (g w).pending) :
    l.flatMap (fun w => (f w).pending) = l.flatMap (fun w => (g w).pending) := by
  induction l with
  | nil => rfl
  | cons a l ih =>
    simp only [List.flatMap_cons]
    rw [h a (by simp), ih (fun w hw => h w (by simp [hw]))]

/-- A step that only rewrites writer `w`'s own record, keeping `holds`, `pending` and
    `committed`, and leaves lock holder, TOC and commit list alone. -/
theorem inv_local {t0 : Toc} {s : State} (hinv : Inv t0 s) (w : Nat) (x : WState)
    (hh : x.holds = (s.ws w).holds) (hp : x.pending = (s.ws w).pending)
    (hc : x.committed = (s.ws w).committed) (hph : WPhase s.toc x) : Inv t0 (setW s w x) := by
  refine ⟨?_, ?_, hinv.gen, ?_, ?_⟩
  · intro v
    by_cases hv : v = w
    · subst hv; rw [setW_same]; exact hph
    · rw [setW_other s w v x hv]; exact hinv.phase v
  · intro v
    by_cases hv : v = w
    · subst hv; rw [setW_same, hh]; exact hinv.mutex v
    · rw [setW_other s w v x hv]; exact hinv.mutex v
  · show s.toc.ops = t0.ops ++ s.commits.flatMap (fun v => ((setW s w x).ws v).pending)
    rw [hinv.ops]
    congr 1
    apply flatMap_pending_congr
    intro v _
    by_cases hv : v = w
    · subst hv; rw [setW_same, hp]
    · rw [setW_other s w v x hv]
  · intro v hv
    show ((setW s w x).ws v).committed = true
    by_cases hvw : v = w
    · subst hvw; rw [setW_same, hc]; exact hinv.comm v hv
    · rw [setW_other s w v x hvw]; exact hinv.comm v hv

theorem not_mem_commits {t0 : Toc} {s : State} (hinv : Inv t0 s) (w : Nat)
    (h : (s.ws w).committed = false) : w ∉ s.commits := by
  intro hm
  have := hinv.comm w hm
  rw [h] at this; cases this

theorem inv_step {t0 : Toc} {s : State} (hinv : Inv t0 s) (w : Nat) : Inv t0 (stepW s w) := by
  unfold stepW
  simp only
  cases hs : (s.ws w).script with
  | nil => exact hinv
  | cons st r =>
    have hph := hinv.phase w
    cases st with
    | tryLock =>
      simp only
      -- only an idle writer has `tryLock` at the head
      have hidle : (s.ws w).holds = false ∧ (s.ws w).committed = false ∧ (s.ws w).base = none ∧
          (s.ws w).pending = [] ∧ ∃ r', r = .readToc :: r' ∧ tailOK r' = true := by
        cases hph with
        | idle a b c d e =>
          rw [hs] at e
          cases r with
          | nil => simp [LockDiscipline] at e
          | cons st2 r' =>
            cases st2 <;> simp [LockDiscipline] at e
            exact ⟨a, b, c, d, r', rfl, e⟩
        | done a b => rw [hs] at b; cases b
        | locked r' a b c d e f => rw [hs] at e; cases e
        | ready a b c d => rw [hs] at d; simp [tailOK] at d
        | written a b c => rw [hs] at c; simp [postOK] at c
      obtain ⟨h1, h2, h3, h4, r', hr, hr'⟩ := hidle
      cases hh : s.holder with
      | none =>
        simp only
        have hnone : ∀ v, (s.ws v).holds = false := by
          intro v
          cases hv : (s.ws v).holds with
          | false => rfl
          | true => have := (hinv.mutex v).1 hv; rw [hh] at this; cases this
        refine ⟨?_, ?_, hinv.gen, ?_, ?_⟩
        · intro v
          show WPhase s.toc ((setW s w _).ws v)
          by_cases hv : v = w
          · subst hv; rw [setW_same]
            exact .locked _ r' rfl h2 h3 h4 hr hr'
          · rw [setW_other _ _ _ _ hv]; exact hinv.phase v
        · intro v
          show ((setW s w _).ws v).holds = true ↔ some w = some v
          by_cases hv : v = w
          · subst hv; rw [setW_same]; simp
          · rw [setW_other _ _ _ _ hv, hnone v]
            simp; exact fun h => hv h.symm
        · show s.toc.ops = t0.ops ++ s.commits.flatMap (fun v => ((setW s w _).ws v).pending)
          rw [hinv.ops]; congr 1
          apply flatMap_pending_congr
          intro v _
          by_cases hv : v = w
          · subst hv; rw [setW_same]
          · rw [setW_other _ _ _ _ hv]
        · intro v hv
          show ((setW s w _).ws v).committed = true
          by_cases hvw : v = w
          · subst hvw; exact absurd hv (not_mem_commits hinv v h2)
          · rw [setW_other _ _ _ _ hvw]; exact hinv.comm v hv
      | some u =>
        simp only
        refine inv_local hinv w _ rfl rfl rfl ?_
        exact .done _ h1 rfl
    | readToc =>
      simp only
      have hl : (s.ws w).holds = true ∧ (s.ws w).committed = false ∧ tailOK r = true := by
        cases hph with
        | idle a b c d e => rw [hs] at e; simp [LockDiscipline] at e
        | done a b => rw [hs] at b; cases b
        | locked r' a b c d e f => rw [hs] at e; cases e; exact ⟨a, b, f⟩
        | ready a b c d => rw [hs] at d; simp [tailOK] at d
        | written a b c => rw [hs] at c; simp [postOK] at c
      refine inv_local hinv w _ rfl rfl rfl ?_
      exact .ready _ hl.1 hl.2.1 rfl hl.2.2
    | work op =>
      simp only
      have hl : (s.ws w).holds = true ∧ (s.ws w).committed = false ∧ (s.ws w).base = some s.toc ∧
          tailOK r = true := by
        cases hph with
        | idle a b c d e => rw [hs] at e; simp [LockDiscipline] at e
        | done a b => rw [hs] at b; cases b
        | locked r' a b c d e f => rw [hs] at e; cases e
        | ready a b c d => rw [hs] at d; simp only [tailOK] at d; exact ⟨a, b, c, d⟩
        | written a b c => rw [hs] at c; simp [postOK] at c
      obtain ⟨h1, h2, h3, h4⟩ := hl
      have hnm := not_mem_commits hinv w h2
      refine ⟨?_, ?_, hinv.gen, ?_, ?_⟩
      · intro v
        show WPhase s.toc ((setW s w _).ws v)
        by_cases hv : v = w
        · subst hv; rw [setW_same]; exact .ready _ h1 h2 h3 h4
        · rw [setW_other _ _ _ _ hv]; exact hinv.phase v
      · intro v
        show ((setW s w _).ws v).holds = true ↔ s.holder = some v
        by_cases hv : v = w
        · subst hv; rw [setW_same]; exact hinv.mutex v
        · rw [setW_other _ _ _ _ hv]; exact hinv.mutex v
      · show s.toc.ops = t0.ops ++ s.commits.flatMap (fun v => ((setW s w _).ws v).pending)
        rw [hinv.ops]; congr 1
        apply flatMap_pending_congr
        intro v hv
        by_cases hvw : v = w
        · subst hvw; exact absurd hv hnm
        · rw [setW_other _ _ _ _ hvw]
      · intro v hv
        show ((setW s w _).ws v).committed = true
        by_cases hvw : v = w
        · subst hvw; exact absurd hv hnm
        · rw [setW_other _ _ _ _ hvw]; exact hinv.comm v hv
    | io =>
      simp only
      refine inv_local hinv w _ rfl rfl rfl ?_
      cases hph with
      | idle a b c d e => rw [hs] at e; simp [LockDiscipline] at e
      | done a b => rw [hs] at b; cases b
      | locked r' a b c d e f => rw [hs] at e; cases e
      | ready a b c d => rw [hs] at d; simp only [tailOK] at d; exact .ready _ a b c d
      | written a b c => rw [hs] at c; simp only [postOK] at c; exact .written _ a b c
    | writeToc =>
      simp only
      have hl : (s.ws w).holds = true ∧ (s.ws w).committed = false ∧ (s.ws w).base = some s.toc ∧
          postOK r = true := by
        cases hph with
        | idle a b c d e => rw [hs] at e; simp [LockDiscipline] at e
        | done a b => rw [hs] at b; cases b
        | locked r' a b c d e f => rw [hs] at e; cases e
        | ready a b c d => rw [hs] at d; simp only [tailOK] at d; exact ⟨a, b, c, d⟩
        | written a b c => rw [hs] at c; simp [postOK] at c
      obtain ⟨h1, h2, h3, h4⟩ := hl
      rw [h3]
      simp only
      have hnm := not_mem_commits hinv w h2
      have hothers : ∀ v, v ≠ w → (s.ws v).holds = false := by
        intro v hv
        cases hvh : (s.ws v).holds with
        | false => rfl
        | true =>
          have e1 := (hinv.mutex v).1 hvh
          have e2 := (hinv.mutex w).1 h1
          rw [e1] at e2; cases e2; exact absurd rfl hv
      refine ⟨?_, ?_, ?_, ?_, ?_⟩
      · intro v
        show WPhase _ ((setW s w _).ws v)
        by_cases hv : v = w
        · subst hv; rw [setW_same]; exact .written _ h1 rfl h4
        · rw [setW_other _ _ _ _ hv]
          exact wphase_of_not_holds (hinv.phase v) (hothers v hv)
      · intro v
        show ((setW s w _).ws v).holds = true ↔ s.holder = some v
        by_cases hv : v = w
        · subst hv; rw [setW_same]; exact hinv.mutex v
        · rw [setW_other _ _ _ _ hv]; exact hinv.mutex v
      · show s.toc.gen + 1 = t0.gen + (s.commits ++ [w]).length
        rw [hinv.gen]; simp; omega
      · show s.toc.ops ++ (s.ws w).pending =
          t0.ops ++ (s.commits ++ [w]).flatMap (fun v => ((setW s w _).ws v).pending)
        rw [hinv.ops, List.flatMap_append, List.append_assoc]
        congr 1
        congr 1
        · apply flatMap_pending_congr
          intro v hv
          by_cases hvw : v = w
          · subst hvw; exact absurd hv hnm
          · rw [setW_other _ _ _ _ hvw]
        · simp [setW]
      · intro v hv
        show ((setW s w _).ws v).committed = true
        simp only [List.mem_append, List.mem_singleton] at hv
        by_cases hvw : v = w
        · subst hvw; rw [setW_same]
        · rw [setW_other _ _ _ _ hvw]
          rcases hv with hv | hv
          · exact hinv.comm v hv
          · exact absurd hv hvw
    | release =>
      simp only
      have hl : (s.ws w).holds = true ∧ r = [] := by
        cases hph with
        | idle a b c d e => rw [hs] at e; simp [LockDiscipline] at e
        | done a b => rw [hs] at b; cases b
        | locked r' a b c d e f => rw [hs] at e; cases e
        | ready a b c d =>
          rw [hs] at d
          cases r with
          | nil => exact ⟨a, rfl⟩
          | cons x r' => simp [tailOK] at d
        | written a b c =>
          rw [hs] at c
          cases r with
          | nil => exact ⟨a, rfl⟩
          | cons x r' => simp [postOK] at c
      obtain ⟨h1, hr⟩ := hl
      rw [if_pos h1]
      have hothers : ∀ v, v ≠ w → (s.ws v).holds = false := by
        intro v hv
        cases hvh : (s.ws v).holds with
        | false => rfl
        | true =>
          have e1 := (hinv.mutex v).1 hvh
          have e2 := (hinv.mutex w).1 h1
          rw [e1] at e2; cases e2; exact absurd rfl hv
      refine ⟨?_, ?_, hinv.gen, ?_, ?_⟩
      · intro v
        show WPhase s.toc ((setW s w _).ws v)
        by_cases hv : v = w
        · subst hv; rw [setW_same]; exact .done _ rfl hr
        · rw [setW_other _ _ _ _ hv]; exact hinv.phase v
      · intro v
        show ((setW s w _).ws v).holds = true ↔ none = some v
        by_cases hv : v = w
        · subst hv; rw [setW_same]; simp
        · rw [setW_other _ _ _ _ hv, hothers v hv]; simp
      · show s.toc.ops = t0.ops ++ s.commits.flatMap (fun v => ((setW s w _).ws v).pending)
        rw [hinv.ops]; congr 1
        apply flatMap_pending_congr
        intro v _
        by_cases hv : v = w
        · subst hv; rw [setW_same]
        · rw [setW_other _ _ _ _ hv]
      · intro v hv
        show ((setW s w _).ws v).committed = true
        by_cases hvw : v = w
        · subst hvw; rw [setW_same]; exact hinv.comm v hv
        · rw [setW_other _ _ _ _ hvw]; exact hinv.comm v hv

theorem inv_exec {t0 : Toc} {s : State} (hinv : Inv t0 s) (sched : List Nat) :
    Inv t0 (exec s sched) := by
  induction sched generalizing s with
  | nil => exact hinv
  | cons w ws ih => exact ih (inv_step hinv w)

end WM.Lock

namespace WM.Lock

/-- A step leaves the TOC alone or replaces it by "the current TOC, one generation later, plus
    the stepping writer's own changes" (this is where reading the TOC under the lock matters). -/
theorem toc_step {t0 : Toc} {s : State} (hinv : Inv t0 s) (w : Nat) :
    ((stepW s w).toc = s.toc ∧ (stepW s w).commits = s.commits) ∨
    ((stepW s w).toc = ⟨s.toc.gen + 1, s.toc.ops ++ (s.ws w).pending⟩ ∧
      (stepW s w).commits = s.commits ++ [w]) := by
  unfold stepW
  simp only
  cases hs : (s.ws w).script with
  | nil => exact Or.inl ⟨rfl, rfl⟩
  | cons st r =>
    cases st with
    | tryLock => simp only; cases s.holder <;> exact Or.inl ⟨rfl, rfl⟩
    | readToc => exact Or.inl ⟨rfl, rfl⟩
    | work op => exact Or.inl ⟨rfl, rfl⟩
    | io => exact Or.inl ⟨rfl, rfl⟩
    | release => simp only; split <;> exact Or.inl ⟨rfl, rfl⟩
    | writeToc =>
      simp only
      have hb : (s.ws w).base = some s.toc := by
        cases hinv.phase w with
        | idle a b c d e => rw [hs] at e; simp [LockDiscipline] at e
        | done a b => rw [hs] at b; cases b
        | locked r' a b c d e f => rw [hs] at e; cases e
        | ready a b c d => exact c
        | written a b c => rw [hs] at c; simp [postOK] at c
      rw [hb]
      exact Or.inr ⟨rfl, rfl⟩

theorem ops_prefix_exec {t0 : Toc} {s : State} (hinv : Inv t0 s) (sched : List Nat) :
    s.toc.ops <+: (exec s sched).toc.ops ∧ s.toc.gen ≤ (exec s sched).toc.gen ∧
    s.commits <+: (exec s sched).commits := by
  induction sched generalizing s with
  | nil => exact ⟨List.prefix_refl _, Nat.le_refl _, List.prefix_refl _⟩
  | cons w ws ih =>
    obtain ⟨h1, h2, h3⟩ := ih (inv_step hinv w)
    show _ <+: (exec (stepW s w) ws).toc.ops ∧ _ ≤ (exec (stepW s w) ws).toc.gen ∧
      _ <+: (exec (stepW s w) ws).commits
    rcases toc_step hinv w with ⟨e, e'⟩ | ⟨e, e'⟩
    · rw [e] at h1 h2; rw [e'] at h3; exact ⟨h1, h2, h3⟩
    · rw [e] at h1 h2; rw [e'] at h3
      refine ⟨List.IsPrefix.trans (List.prefix_append _ _) h1, ?_,
        List.IsPrefix.trans (List.prefix_append _ _) h3⟩
      simp only at h2; omega

end WM.Lock
