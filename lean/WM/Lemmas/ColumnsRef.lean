import WM.Lemmas.ColumnsFixed
import WM.Lemmas.ColumnsVar
import WM.Props.C20Varint
/-! `RefBytesColumn`: buffered byte refs, the switch to ushorts at the 256th distinct value,
saturation beyond 65 535, the table of uniques. -/
namespace WM.Columns

/-- One dict lookup-or-insert: the reference of `v` and the table afterwards. -/
def refStep (U : List Bytes) (v : Bytes) : Nat × List Bytes :=
  if U.contains v then (U.idxOf v, U) else (U.length, U ++ [v])

/-- Abstraction of the writer state: unsaturated refs `R` laid down so far, table `U`. -/
structure RefW.Abs (w : RefW) (R : List Nat) (U : List Bytes) : Prop where
  uniq : w.uniques = U
  refs : match w.refs with
    | some rs => rs = R ∧ w.out = [] ∧ U.length ≤ 256
    | none => w.out = packArr 2 (R.map satRef) ∧ 256 < U.length
  bound : ∀ r ∈ R, r < U.length
  nonempty : 0 < U.length

theorem satRef_small (r : Nat) (h : r ≤ 65535) : satRef r = r := by
  unfold satRef; split <;> omega

theorem map_satRef_small (l : List Nat) (h : ∀ r ∈ l, r ≤ 65535) : l.map satRef = l := by
  induction l with
  | nil => rfl
  | cons a l ih =>
    simp only [List.map_cons, satRef_small a (h a (by simp)), ih (fun r hr => h r (by simp [hr]))]

theorem packArr_replicate (sz k x : Nat) :
    (List.replicate k (be sz x)).flatten = packArr sz (List.replicate k x) := by
  induction k with
  | zero => rfl
  | succ k ih => simp [List.replicate_succ, packArr_cons, ih]

theorem RefW.fill_abs (w : RefW) (R : List Nat) (U : List Bytes) (d : Nat) (h : w.Abs R U)
    (hcount : w.count = R.length) (hd : R.length ≤ d) :
    (w.fill d).Abs (R ++ List.replicate (d - R.length) 0) U ∧ (w.fill d).count = w.count := by
  unfold RefW.fill
  by_cases hgt : d > w.count
  · simp only [hgt, if_true]
    cases hr : w.refs with
    | some rs =>
      have h2 := h.refs; rw [hr] at h2
      refine ⟨⟨h.uniq, ?_, ?_, h.nonempty⟩, rfl⟩
      · simp only [hcount]; exact ⟨by rw [h2.1], h2.2.1, h2.2.2⟩
      · intro r hr'
        simp only [List.mem_append, List.mem_replicate] at hr'
        rcases hr' with hr' | ⟨_, rfl⟩
        · exact h.bound r hr'
        · exact h.nonempty
    | none =>
      have h2 := h.refs; rw [hr] at h2
      refine ⟨⟨h.uniq, ?_, ?_, h.nonempty⟩, rfl⟩
      · simp only [hcount]
        refine ⟨?_, h2.2⟩
        rw [h2.1, packArr_replicate, List.map_append, packArr_append, List.map_replicate]
        rfl
      · intro r hr'
        simp only [List.mem_append, List.mem_replicate] at hr'
        rcases hr' with hr' | ⟨_, rfl⟩
        · exact h.bound r hr'
        · exact h.nonempty
  · rw [if_neg hgt]
    have : d - R.length = 0 := by omega
    rw [this, List.replicate_zero, List.append_nil]
    exact ⟨h, rfl⟩

theorem refStep_new (U : List Bytes) (v : Bytes) (hc : U.contains v = false) :
    refStep U v = (U.length, U ++ [v]) := by
  unfold refStep; rw [hc]; simp

theorem refStep_old (U : List Bytes) (v : Bytes) (hc : U.contains v = true) :
    refStep U v = (U.idxOf v, U) := by
  unfold refStep; rw [hc]; simp

theorem refStep_bound (U : List Bytes) (v : Bytes) :
    (refStep U v).1 < (refStep U v).2.length ∧ U.length ≤ (refStep U v).2.length := by
  unfold refStep
  by_cases hc : U.contains v = true
  · simp only [hc, if_true]
    exact ⟨List.idxOf_lt_length_iff.mpr (by simpa using hc), Nat.le_refl _⟩
  · simp only [hc, Bool.false_eq_true, if_false, List.length_append, List.length_singleton]
    omega

theorem RefW.add_abs (w : RefW) (R : List Nat) (U : List Bytes) (d : Nat) (v : Bytes) (h : w.Abs R U)
    (hcount : w.count = R.length) (hd : R.length ≤ d) :
    (w.add d v).Abs (R ++ List.replicate (d - R.length) 0 ++ [(refStep U v).1]) (refStep U v).2 ∧
      (w.add d v).count = (R ++ List.replicate (d - R.length) 0 ++ [(refStep U v).1]).length := by
  obtain ⟨hf, _⟩ := w.fill_abs R U d h hcount hd
  obtain ⟨hb1, hb2⟩ := refStep_bound U v
  have hlen : (R ++ List.replicate (d - R.length) 0 ++ [(refStep U v).1]).length = d + 1 := by
    simp only [List.length_append, List.length_replicate, List.length_singleton]; omega
  have hbound : ∀ r ∈ R ++ List.replicate (d - R.length) 0 ++ [(refStep U v).1],
      r < (refStep U v).2.length := by
    intro r hr
    simp only [List.mem_append, List.mem_singleton] at hr
    rcases hr with hr | rfl
    · have := hf.bound r (by simpa using hr); omega
    · exact hb1
  have hne : 0 < (refStep U v).2.length := by have := h.nonempty; omega
  -- the step in terms of the model's local definitions
  have hu : (w.fill d).uniques = U := hf.uniq
  have hstep1 : (if (!(U.contains v)) = true then U.length else U.idxOf v) = (refStep U v).1 := by
    unfold refStep; cases U.contains v <;> simp
  have hstep2 : (if (!(U.contains v)) = true then U ++ [v] else U) = (refStep U v).2 := by
    unfold refStep; cases U.contains v <;> simp
  unfold RefW.add
  simp only [hu, hstep1, hstep2]
  cases hr : (w.fill d).refs with
  | some rs =>
    have h2 := hf.refs; rw [hr] at h2
    obtain ⟨hrs, hout, hU⟩ := h2
    simp only
    by_cases hsw : ((!(U.contains v)) && decide ((refStep U v).1 ≥ 256)) = true
    · -- the switch
      simp only [hsw, if_true]
      simp only [Bool.and_eq_true, Bool.not_eq_true', decide_eq_true_eq] at hsw
      have hnew : (refStep U v) = (U.length, U ++ [v]) := refStep_new U v hsw.1
      have hU256 : U.length = 256 := by have := hsw.2; rw [hnew] at this; simp only at this; omega
      refine ⟨⟨rfl, ?_, hbound, hne⟩, hlen.symm ▸ rfl⟩
      simp only
      refine ⟨?_, by rw [hnew]; simp only [List.length_append, List.length_singleton]; omega⟩
      have hsmall : (R ++ List.replicate (d - R.length) 0).map satRef
          = R ++ List.replicate (d - R.length) 0 := by
        apply map_satRef_small
        intro r hr'
        have := hf.bound r hr'
        omega
      rw [hout, hrs, List.map_append, packArr_append, List.nil_append, hsmall]
      simp [packArr]
    · simp only [hsw, Bool.false_eq_true, if_false]
      refine ⟨⟨rfl, ?_, hbound, hne⟩, hlen.symm ▸ rfl⟩
      simp only
      refine ⟨by rw [hrs], hout, ?_⟩
      simp only [Bool.and_eq_true, Bool.not_eq_true', decide_eq_true_eq, not_and, Nat.not_le] at hsw
      by_cases hc : U.contains v = true
      · rw [refStep_old U v hc]; exact hU
      · have hc' : U.contains v = false := by simpa using hc
        have := hsw hc'
        rw [refStep_new U v hc'] at this ⊢
        simp only [List.length_append, List.length_singleton] at this ⊢; omega
  | none =>
    have h2 := hf.refs; rw [hr] at h2
    obtain ⟨hout, hU⟩ := h2
    simp only
    refine ⟨⟨rfl, ?_, hbound, hne⟩, hlen.symm ▸ rfl⟩
    simp only
    refine ⟨?_, by omega⟩
    rw [hout, List.map_append, packArr_append]
    simp [packArr]

end WM.Columns

namespace WM.Columns

/-- The table of uniques after the adds, starting from `U`. -/
def tableOf (U : List Bytes) (adds : List (Nat × Bytes)) : List Bytes :=
  adds.foldl (fun us p => (refStep us p.2).2) U

theorem refStep_snd_eq (U : List Bytes) (v : Bytes) :
    (refStep U v).2 = if v ∈ U then U else U ++ [v] := by
  unfold refStep
  by_cases h : v ∈ U
  · have : U.contains v = true := by simpa using h
    simp [this, h]
  · have : U.contains v = false := by simpa using h
    simp [this, h]

theorem tableOf_eq_uniquesOf (default : Bytes) (adds : List (Nat × Bytes)) :
    tableOf [default] adds = uniquesOf default adds := by
  unfold tableOf uniquesOf
  congr 1
  funext us p
  exact refStep_snd_eq us p.2

theorem tableOf_prefix (U : List Bytes) (adds : List (Nat × Bytes)) : ∃ X, tableOf U adds = U ++ X := by
  induction adds generalizing U with
  | nil => exact ⟨[], by simp [tableOf]⟩
  | cons p rest ih =>
    obtain ⟨X, hX⟩ := ih (refStep U p.2).2
    simp only [tableOf, List.foldl_cons] at hX ⊢
    rw [hX, refStep_snd_eq]
    by_cases h : p.2 ∈ U
    · exact ⟨X, by simp [h]⟩
    · exact ⟨[p.2] ++ X, by simp [h]⟩

theorem refStep_mem (U : List Bytes) (v : Bytes) : v ∈ (refStep U v).2 := by
  rw [refStep_snd_eq]; by_cases h : v ∈ U <;> simp [h]

theorem refStep_fst_eq (U : List Bytes) (v : Bytes) : (refStep U v).1 = (refStep U v).2.idxOf v := by
  by_cases h : U.contains v = true
  · rw [refStep_old U v h]
  · have h' : U.contains v = false := by simpa using h
    rw [refStep_new U v h']
    have hn : v ∉ U := by simpa using h'
    simp [List.idxOf_append, hn]

theorem idxOf_prefix (U X : List Bytes) (v : Bytes) (h : v ∈ U) : (U ++ X).idxOf v = U.idxOf v := by
  simp [List.idxOf_append, h]

/-- Abstract writer: the refs laid down (unsaturated) and the table, for a list of adds. -/
def absAdds : List Nat × List Bytes → List (Nat × Bytes) → List Nat × List Bytes
  | s, [] => s
  | (R, U), (d, v) :: rest =>
    absAdds (R ++ List.replicate (d - R.length) 0 ++ [(refStep U v).1], (refStep U v).2) rest

/-- The abstract writer in closed form: every add's ref is the position of its value in the
    *final* table (the table only grows at the end). -/
theorem absAdds_eq (adds : List (Nat × Bytes)) (R : List Nat) (U : List Bytes) :
    absAdds (R, U) adds =
      (extendRows 0 R (adds.map fun p => (p.1, (tableOf U adds).idxOf p.2)), tableOf U adds) := by
  induction adds generalizing R U with
  | nil => simp [absAdds, extendRows, tableOf]
  | cons p rest ih =>
    obtain ⟨d, v⟩ := p
    have htab : tableOf U ((d, v) :: rest) = tableOf (refStep U v).2 rest := by simp [tableOf]
    obtain ⟨X, hX⟩ := tableOf_prefix (refStep U v).2 rest
    simp only [absAdds, List.map_cons, extendRows]
    rw [ih, htab]
    congr 1
    rw [hX, idxOf_prefix _ X v (refStep_mem U v), ← refStep_fst_eq]

theorem mem_tableOf (U : List Bytes) (adds : List (Nat × Bytes)) :
    (∀ u ∈ U, u ∈ tableOf U adds) ∧ ∀ p ∈ adds, p.2 ∈ tableOf U adds := by
  induction adds generalizing U with
  | nil => simp [tableOf]
  | cons p rest ih =>
    obtain ⟨h1, h2⟩ := ih (refStep U p.2).2
    have htab : tableOf U (p :: rest) = tableOf (refStep U p.2).2 rest := by simp [tableOf]
    rw [htab]
    constructor
    · intro u hu
      apply h1
      rw [refStep_snd_eq]; by_cases h : p.2 ∈ U <;> simp [h, hu]
    · intro q hq
      simp only [List.mem_cons] at hq
      rcases hq with rfl | hq
      · exact h1 _ (refStep_mem U q.2)
      · exact h2 q hq

theorem RefW.foldl_abs (adds : List (Nat × Bytes)) (w : RefW) (R : List Nat) (U : List Bytes)
    (h : w.Abs R U) (hcount : w.count = R.length) (hinc : Increasing adds)
    (hge : ∀ p ∈ adds, R.length ≤ p.1) :
    (adds.foldl (fun w p => w.add p.1 p.2) w).Abs (absAdds (R, U) adds).1 (absAdds (R, U) adds).2 ∧
    (adds.foldl (fun w p => w.add p.1 p.2) w).count = (absAdds (R, U) adds).1.length := by
  induction adds generalizing w R U with
  | nil => exact ⟨h, hcount⟩
  | cons p rest ih =>
    obtain ⟨d, v⟩ := p
    have hd : R.length ≤ d := hge (d, v) (by simp)
    have hinc' : Increasing rest := (List.pairwise_cons.mp hinc).2
    have hgt : ∀ q ∈ rest, d < q.1 := fun q hq => (List.pairwise_cons.mp hinc).1 q hq
    obtain ⟨ha, hc⟩ := w.add_abs R U d v h hcount hd
    have hlen : (R ++ List.replicate (d - R.length) 0 ++ [(refStep U v).1]).length = d + 1 := by
      simp only [List.length_append, List.length_replicate, List.length_singleton]; omega
    simp only [List.foldl_cons, absAdds]
    exact ih _ _ _ ha hc hinc' (fun q hq => by rw [hlen]; have := hgt q hq; omega)

/-- Reading back the table of uniques. -/
theorem readUniques_write (fixedlen : Nat) (U : List Bytes) (rest : Bytes)
    (hfl : fixedlen = 0 ∨ ∀ u ∈ U, u.length = fixedlen) :
    readUniques fixedlen U.length
      ((U.flatMap fun v => (if fixedlen = 0 then WM.Varint.encode v.length else []) ++ v) ++ rest)
      = some U := by
  induction U with
  | nil => rfl
  | cons u U ih =>
    have ih' := ih (by
      rcases hfl with h | h
      · exact Or.inl h
      · exact Or.inr (fun x hx => h x (by simp [hx])))
    simp only [List.length_cons, readUniques, List.flatMap_cons, List.append_assoc]
    by_cases h0 : fixedlen = 0
    · simp only [h0, if_true] at ih' ⊢
      rw [WM.C20.varint_roundtrip]
      simp only
      rw [List.take_left, List.drop_left, ih']
      rfl
    · have hl : u.length = fixedlen := by
        rcases hfl with h | h
        · exact absurd h h0
        · exact h u (by simp)
      simp only [h0, if_false, List.nil_append] at ih' ⊢
      rw [List.take_left' hl, List.drop_left' hl, ih']
      rfl

/-- Cutting item `d` out of an array written with `write_array`. -/
theorem slice_packArr (sz : Nat) (xs : List Nat) (tail : Bytes) (d x : Nat) (h : xs[d]? = some x) :
    slice (packArr sz xs ++ tail) (d * sz) sz = be sz x := by
  have hrows : (xs.map (be sz))[d]? = some (be sz x) := by simp [h]
  have := slice_flatten (xs.map (be sz)) tail d (be sz x) hrows
  have hw : ∀ r ∈ (xs.map (be sz)).take d, r.length = sz := by
    intro r hr
    have := List.mem_of_mem_take hr
    simp only [List.mem_map] at this
    obtain ⟨y, _, rfl⟩ := this
    exact be_length sz y
  have hsum : (((xs.map (be sz)).take d).map List.length).sum = d * sz := by
    have hd : d < xs.length := (List.getElem?_eq_some_iff.mp h).1
    have h1 := flatten_uniform_length sz ((xs.map (be sz)).take d) hw
    rw [flatten_length_eq_sum, List.length_take, List.length_map, Nat.min_eq_left (by omega)] at h1
    rw [h1, Nat.mul_comm]
  rw [hsum, be_length] at this
  have hp : packArr sz xs = (xs.map (be sz)).flatten := by simp [packArr, List.flatMap]
  rw [hp]
  exact this

end WM.Columns

namespace WM.Columns

theorem mem_tableOf_inv (U : List Bytes) (adds : List (Nat × Bytes)) (u : Bytes)
    (h : u ∈ tableOf U adds) : u ∈ U ∨ ∃ p ∈ adds, p.2 = u := by
  induction adds generalizing U with
  | nil => exact Or.inl (by simpa [tableOf] using h)
  | cons p rest ih =>
    have htab : tableOf U (p :: rest) = tableOf (refStep U p.2).2 rest := by simp [tableOf]
    rw [htab] at h
    rcases ih _ h with h1 | ⟨q, hq, rfl⟩
    · rw [refStep_snd_eq] at h1
      by_cases hm : p.2 ∈ U
      · simp only [hm, if_true] at h1; exact Or.inl h1
      · simp only [hm, if_false, List.mem_append, List.mem_singleton] at h1
        rcases h1 with h1 | rfl
        · exact Or.inl h1
        · exact Or.inr ⟨p, by simp, rfl⟩
    · exact Or.inr ⟨q, by simp [hq], rfl⟩

/-- The reader on a file laid out by `finish`: row `d` holds reference `r`, which selects `u`. -/
theorem refRead_layout (fixedlen : Nat) (tc : TC) (Rs : List Nat) (U : List Bytes) (doccount : Nat)
    (hlen : Rs.length = doccount) (hRs : ∀ r ∈ Rs, r < 256 ^ tc.size)
    (hfl : fixedlen = 0 ∨ ∀ u ∈ U, u.length = fixedlen)
    (d r : Nat) (u : Bytes) (hr : Rs[d]? = some r) (hu : U[r]? = some u) :
    refRead fixedlen (packArr tc.size Rs ++ writeUniques fixedlen U ++ [tc.code]) doccount d = .ok u := by
  unfold refRead refOpen
  have hlast : (packArr tc.size Rs ++ writeUniques fixedlen U ++ [tc.code])[
      (packArr tc.size Rs ++ writeUniques fixedlen U ++ [tc.code]).length - 1]? = some tc.code := by
    have : (packArr tc.size Rs ++ writeUniques fixedlen U ++ [tc.code]).length - 1
        = (packArr tc.size Rs ++ writeUniques fixedlen U).length + 0 := by simp
    rw [this, getElem?_append_len]; rfl
  simp only [hlast, Option.bind_eq_bind, Option.bind_some, TC.ofCode_code]
  have hdrop : (packArr tc.size Rs ++ writeUniques fixedlen U ++ [tc.code]).drop (doccount * tc.size)
      = writeUniques fixedlen U ++ [tc.code] := by
    rw [List.append_assoc]
    apply List.drop_left'
    rw [packArr_length, hlen, Nat.mul_comm]
  rw [hdrop]
  unfold writeUniques
  rw [List.append_assoc, WM.C20.varint_roundtrip]
  simp only
  rw [readUniques_write fixedlen U [tc.code] hfl]
  simp only [refGet]
  rw [List.append_assoc, slice_packArr tc.size Rs _ d r hr, unbe_be _ _ (hRs r (List.mem_of_getElem? hr)), hu]

theorem TC.ofCode_code' (tc : TC) : TC.ofCode tc.code = some tc := TC.ofCode_code tc

end WM.Columns
