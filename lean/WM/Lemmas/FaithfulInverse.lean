import WM.Lemmas.FaithfulWrap
/-! `InverseMatcher` is a faithful cursor over `complement`. -/
namespace WM.Matcher

theorem lookup_const_list (l : List Nat) (w : Rat) (d : Nat) :
    lookup (l.map fun i => (i, w)) d = if d ∈ l then some w else none := by
  induction l with
  | nil => simp
  | cons x l ih =>
    rw [List.map_cons, lookup_cons, ih]
    by_cases h : x = d
    · subst h; simp
    · have : ¬ d = x := fun e => h e.symm
      simp [h, this]

theorem asc_const_list {l : List Nat} (w : Rat) (h : l.Pairwise (· < ·)) : Asc (l.map fun i => (i, w)) :=
  List.Pairwise.map _ (fun _ _ hab => hab) h

theorem asc_complement (lo limit : Nat) (missing : List Nat) (C : Den) (w : Rat) :
    Asc (complement lo limit missing C w) :=
  asc_const_list w (List.Pairwise.filter _ (List.pairwise_lt_range'))

/-- pointwise meaning of `complement` -/
theorem lookup_complement (lo limit : Nat) (missing : List Nat) (C : Den) (w : Rat) (d : Nat) :
    lookup (complement lo limit missing C w) d =
      if lo ≤ d ∧ d < limit ∧ missing.contains d = false ∧ lookup C d = none then some w else none := by
  unfold complement
  rw [lookup_const_list]
  congr 1
  simp only [List.mem_filter, List.mem_range'_1, Bool.and_eq_true, Bool.not_eq_eq_eq_not, Bool.not_true,
    Option.isNone_iff_eq_none, eq_iff_iff]
  constructor
  · rintro ⟨⟨h1, h2⟩, h3, h4⟩; exact ⟨h1, by omega, h3, h4⟩
  · rintro ⟨h1, h2, h3, h4⟩; exact ⟨⟨h1, by omega⟩, h3, h4⟩

theorem complement_ext {lo limit : Nat} {missing : List Nat} {C : Den} {w : Rat}
    {lo' : Nat} {C' : Den}
    (h : ∀ d, (lo ≤ d ∧ d < limit ∧ missing.contains d = false ∧ lookup C d = none) ↔
      (lo' ≤ d ∧ d < limit ∧ missing.contains d = false ∧ lookup C' d = none)) :
    complement lo limit missing C w = complement lo' limit missing C' w := by
  apply den_ext (asc_complement ..) (asc_complement ..)
  intro d
  rw [lookup_complement, lookup_complement]
  by_cases h1 : lo ≤ d ∧ d < limit ∧ missing.contains d = false ∧ lookup C d = none
  · rw [if_pos h1, if_pos ((h d).1 h1)]
  · rw [if_neg h1, if_neg (fun h2 => h1 ((h d).2 h2))]

theorem dropBelow_complement (lo limit : Nat) (missing : List Nat) (C : Den) (w : Rat) (t : Nat) :
    dropBelow t (complement lo limit missing C w) = complement (max lo t) limit missing C w := by
  apply den_ext (asc_dropBelow t (asc_complement ..)) (asc_complement ..)
  intro d
  rw [lookup_dropBelow (asc_complement ..), lookup_complement, lookup_complement]
  by_cases h : d < t
  · rw [if_pos h, if_neg]; omega
  · rw [if_neg h]
    congr 1
    simp only [eq_iff_iff]
    constructor
    · rintro ⟨h1, h2⟩; exact ⟨by omega, h2⟩
    · rintro ⟨h1, h2⟩; exact ⟨by omega, h2⟩

theorem complement_eq_nil_of_ge {lo limit : Nat} (h : limit ≤ lo) (missing : List Nat) (C : Den) (w : Rat) :
    complement lo limit missing C w = [] := by
  unfold complement
  have : limit - lo = 0 := by omega
  rw [this]; rfl

namespace Inverse
variable {α : Type} {A : Ops α} {dA fA : α → Den} {WA : α → Prop}

/-- when active, the matcher sits on an id that is neither missing nor in the child, and the child
    is strictly ahead -/
def Stops (dA : α → Den) (limit : Nat) (missing : List Nat) (c : α) (i : Nat) : Prop :=
  i < limit → missing.contains i = false ∧ ∀ x r L, dA c = (x, r) :: L → i < x

theorem findLoop_spec (FA : Faithful A dA fA WA) (limit : Nat) (missing : List Nat) (w : Rat) :
    ∀ (fuel : Nat) (c : α) (i : Nat), WA c → (limit - i) + A.rem c < fuel →
      ∃ c' i', findLoop A limit missing fuel c i = .ok (c', i') ∧ WA c' ∧ Stops dA limit missing c' i' ∧
        complement i' limit missing (dA c') w = complement i limit missing (dA c) w ∧
        i ≤ i' ∧ A.rem c' ≤ A.rem c ∧ (A.rem c' = A.rem c → dA c' = dA c) ∧ fA c' = fA c := by
  intro fuel
  induction fuel with
  | zero => intro c i _ h; omega
  | succ n ih =>
    intro c i wc hfuel
    unfold findLoop
    by_cases hlim : i < limit
    · simp only [hlim, ↓reduceIte]
      cases hmiss : missing.contains i with
      | true =>
        simp only [↓reduceIte]
        obtain ⟨c', i', g1, g2, g3, g4, g5, g6, g7, g8⟩ := ih c (i + 1) wc (by omega)
        refine ⟨c', i', g1, g2, g3, ?_, by omega, g6, g7, g8⟩
        rw [g4]
        apply complement_ext
        intro d
        constructor
        · rintro ⟨h1, h2⟩; exact ⟨by omega, h2⟩
        · rintro ⟨h1, h2, h3, h4⟩
          refine ⟨?_, h2, h3, h4⟩
          by_cases hd : d = i
          · subst hd; rw [hmiss] at h3; cases h3
          · omega
      | false =>
        simp only [Bool.false_eq_true, ↓reduceIte]
        by_cases h0 : dA c = []
        · have hina := (FA.inactive wc).2 h0
          refine ⟨c, i, by simp [hina]; rfl, wc, ?_, rfl, Nat.le_refl _, Nat.le_refl _, fun _ => rfl, rfl⟩
          intro _
          refine ⟨hmiss, ?_⟩
          intro x r L h; rw [h0] at h; cases h
        · obtain ⟨x, r, L, hc⟩ := exists_cons_of_ne_nil h0
          have hact : A.isActive c = true := (FA.active _ wc).2 h0
          have ascC := FA.asc _ wc
          simp only [hact, ↓reduceIte, FA.id _ _ _ _ wc hc, bind, Except.bind]
          by_cases hxi : x < i
          · simp only [hxi, ↓reduceIte]
            obtain ⟨c1, h1, h2, h3, h4, h5, h6⟩ := FA.skipTo c i wc h0
            have hchg : dA c1 ≠ dA c := by rw [h3, hc]; exact dropBelow_ne_of_head_lt hxi
            have hlt := h5 hchg
            obtain ⟨c', i', g1, g2, g3, g4, g5, g6, g7, g8⟩ := ih c1 i h2 (by omega)
            refine ⟨c', i', by simp [h1, g1], g2, g3, ?_, g5, by omega, fun he => by omega, by rw [g8, h6]⟩
            rw [g4, h3]
            apply complement_ext
            intro d
            rw [lookup_dropBelow ascC]
            constructor
            · rintro ⟨h1, h2, h3, h4⟩
              refine ⟨h1, h2, h3, ?_⟩
              rwa [if_neg (by omega)] at h4
            · rintro ⟨h1, h2, h3, h4⟩
              refine ⟨h1, h2, h3, ?_⟩
              rwa [if_neg (by omega)]
          · simp only [hxi, ↓reduceIte]
            by_cases hei : x = i
            · subst hei
              simp only [beq_self_eq_true, ↓reduceIte]
              obtain ⟨c1, h1, h2, h3, h4, h5⟩ := FA.next _ _ _ _ wc hc
              obtain ⟨c', i', g1, g2, g3, g4, g5, g6, g7, g8⟩ := ih c1 (x + 1) h2 (by omega)
              refine ⟨c', i', by simp [h1, g1], g2, g3, ?_, by omega, by omega, fun he => by omega, by rw [g8, h5]⟩
              rw [g4, h3, hc]
              apply complement_ext
              intro d
              constructor
              · rintro ⟨h1, h2, h3, h4⟩
                exact ⟨by omega, h2, h3, by rw [lookup_tail_of_ne (by omega)]; exact h4⟩
              · rintro ⟨h1, h2, h3, h4⟩
                have hd : x ≠ d := by
                  intro e; subst e; rw [lookup_head] at h4; cases h4
                exact ⟨by omega, h2, h3, by rwa [lookup_tail_of_ne hd] at h4⟩
            · have hne : (x == i) = false := by simp [hei]
              simp only [hne, Bool.false_eq_true, ↓reduceIte]
              refine ⟨c, i, rfl, wc, ?_, rfl, Nat.le_refl _, Nat.le_refl _, fun _ => rfl, rfl⟩
              intro _
              refine ⟨hmiss, ?_⟩
              intro x' r' L' h; rw [hc] at h; cases h; omega
    · simp only [hlim, ↓reduceIte]
      exact ⟨c, i, rfl, wc, fun h => absurd h hlim, rfl, Nat.le_refl _, Nat.le_refl _, fun _ => rfl, rfl⟩

theorem findNext_spec (FA : Faithful A dA fA WA) (m : Inverse α) (wc : WA m.child) :
    ∃ m', findNext A m = .ok m' ∧ m'.limit = m.limit ∧ m'.missing = m.missing ∧ m'.weight = m.weight ∧
      WA m'.child ∧ Stops dA m.limit m.missing m'.child m'.id ∧
      complement m'.id m.limit m.missing (dA m'.child) m.weight =
        complement m.id m.limit m.missing (dA m.child) m.weight ∧
      m.id ≤ m'.id ∧ A.rem m'.child ≤ A.rem m.child ∧
      (A.rem m'.child = A.rem m.child → dA m'.child = dA m.child) ∧ fA m'.child = fA m.child := by
  obtain ⟨c', i', g1, g2, g3, g4, g5, g6, g7, g8⟩ :=
    findLoop_spec FA m.limit m.missing m.weight ((m.limit - m.id) + A.rem m.child + 1) m.child m.id wc (by omega)
  exact ⟨{ m with child := c', id := i' }, by simp [findNext, g1, bind, Except.bind]; rfl, rfl, rfl, rfl, g2, g3,
    g4, g5, g6, g7, g8⟩

/-- a well-formed active inverse matcher: the list starts with its own id -/
theorem den_cons (FA : Faithful A dA fA WA) (m : Inverse α) (wc : WA m.child)
    (hs : Stops dA m.limit m.missing m.child m.id) (hlt : m.id < m.limit) :
    ∃ L, complement m.id m.limit m.missing (dA m.child) m.weight = (m.id, m.weight) :: L := by
  obtain ⟨hmiss, hahead⟩ := hs hlt
  have hl : lookup (complement m.id m.limit m.missing (dA m.child) m.weight) m.id = some m.weight := by
    rw [lookup_complement, if_pos]
    refine ⟨Nat.le_refl _, hlt, hmiss, ?_⟩
    by_cases h0 : dA m.child = []
    · rw [h0]; rfl
    · obtain ⟨x, r, L, hc⟩ := exists_cons_of_ne_nil h0
      rw [hc]; exact lookup_lt_head (hc ▸ FA.asc _ wc) (hahead x r L hc)
  have hne : complement m.id m.limit m.missing (dA m.child) m.weight ≠ [] := by
    intro h0; rw [h0] at hl; cases hl
  obtain ⟨x, r, L, hc⟩ := exists_cons_of_ne_nil hne
  have hasc := asc_complement m.id m.limit m.missing (dA m.child) m.weight
  rw [hc] at hasc hl
  have hx : lookup ((x, r) :: L) x = some r := lookup_head _ _ _
  have hge : m.id ≤ x := by
    have := lookup_complement m.id m.limit m.missing (dA m.child) m.weight x
    rw [hc, hx] at this
    by_cases hcond : m.id ≤ x ∧ x < m.limit ∧ m.missing.contains x = false ∧ lookup (dA m.child) x = none
    · exact hcond.1
    · rw [if_neg hcond] at this; cases this
  by_cases hxe : x = m.id
  · subst hxe
    rw [lookup_head] at hl; cases hl
    exact ⟨L, hc⟩
  · have : lookup ((x, r) :: L) m.id = none := lookup_lt_head hasc (by omega)
    rw [this] at hl; cases hl

theorem faithful (FA : Faithful A dA fA WA) :
    Faithful (Inverse.ops A) (fun m => complement m.id m.limit m.missing (dA m.child) m.weight)
      (fun m => complement 0 m.limit m.missing (fA m.child) m.weight)
      (fun m => WA m.child ∧ Stops dA m.limit m.missing m.child m.id) where
  asc m _ := asc_complement ..
  active m h := by
    show decide (m.id < m.limit) = true ↔ _
    rw [decide_eq_true_iff]
    constructor
    · intro hlt
      obtain ⟨L, hL⟩ := den_cons FA m h.1 h.2 hlt
      rw [hL]; simp
    · intro hne
      apply Classical.byContradiction
      intro hge
      exact hne (complement_eq_nil_of_ge (by omega) _ _ _)
  id m x r L h hd := by
    show Except.ok m.id = _
    have hlt : m.id < m.limit := by
      apply Classical.byContradiction
      intro hge
      rw [complement_eq_nil_of_ge (by omega)] at hd; cases hd
    obtain ⟨L', hL⟩ := den_cons FA m h.1 h.2 hlt
    rw [hL] at hd; cases hd; rfl
  score m x r L h hd := by
    show Except.ok m.weight = _
    have hlt : m.id < m.limit := by
      apply Classical.byContradiction
      intro hge
      rw [complement_eq_nil_of_ge (by omega)] at hd; cases hd
    obtain ⟨L', hL⟩ := den_cons FA m h.1 h.2 hlt
    rw [hL] at hd; cases hd; rfl
  next m x r L h hd := by
    show ∃ s' : Inverse α, (if m.id ≥ m.limit then Except.error Err.readTooFar
        else findNext A { m with id := m.id + 1 }) = _ ∧ _ ∧ _ ∧
      (s'.limit - s'.id) + A.rem s'.child < (m.limit - m.id) + A.rem m.child ∧ _
    have hlt : m.id < m.limit := by
      apply Classical.byContradiction
      intro hge
      rw [complement_eq_nil_of_ge (by omega)] at hd; cases hd
    obtain ⟨L', hL⟩ := den_cons FA m h.1 h.2 hlt
    have hasc := asc_complement m.id m.limit m.missing (dA m.child) m.weight
    have htail : L = complement (m.id + 1) m.limit m.missing (dA m.child) m.weight := by
      rw [hd] at hasc
      have h1 := tail_eq_dropBelow hasc
      rw [← hd, dropBelow_complement] at h1
      rw [hL] at hd; cases hd
      rw [← h1]; congr 1; omega
    obtain ⟨m', g1, e1, e2, e3, g2, g3, g4, g5, g6, g7, g8⟩ := findNext_spec FA { m with id := m.id + 1 } h.1
    simp only at e1 e2 e3 g3 g4 g5 g6 g7 g8
    refine ⟨m', by rw [if_neg (by omega)]; exact g1, ⟨g2, by rw [e1, e2]; exact g3⟩, ?_, ?_, ?_⟩
    · simp only [e1, e2, e3, g4, htail]
    · rw [e1]; omega
    · simp only [e1, e2, e3, g8]
  skipTo m t h hne := by
    show ∃ s' : Inverse α, (if m.id ≥ m.limit then Except.error Err.readTooFar
        else if t < m.id then Except.ok m else findNext A { m with id := t }) = _ ∧ _ ∧ _ ∧
      (s'.limit - s'.id) + A.rem s'.child ≤ (m.limit - m.id) + A.rem m.child ∧
      (_ → (s'.limit - s'.id) + A.rem s'.child < (m.limit - m.id) + A.rem m.child) ∧ _
    have hlt : m.id < m.limit := by
      apply Classical.byContradiction
      intro hge
      exact hne (complement_eq_nil_of_ge (by omega) _ _ _)
    rw [if_neg (by omega)]
    by_cases htid : t < m.id
    · rw [if_pos htid]
      refine ⟨m, rfl, h, ?_, Nat.le_refl _, fun hh => absurd rfl hh, rfl⟩
      rw [dropBelow_complement]; congr 1; omega
    · rw [if_neg htid]
      obtain ⟨m', g1, e1, e2, e3, g2, g3, g4, g5, g6, g7, g8⟩ := findNext_spec FA { m with id := t } h.1
      simp only at e1 e2 e3 g3 g4 g5 g6 g7 g8
      refine ⟨m', g1, ⟨g2, by rw [e1, e2]; exact g3⟩, ?_, by rw [e1]; omega, ?_, ?_⟩
      · simp only [e1, e2, e3, g4]
        rw [dropBelow_complement]; congr 1; omega
      · intro hne2
        rw [e1]
        by_cases e : (m.limit - m'.id) + A.rem m'.child < (m.limit - m.id) + A.rem m.child
        · exact e
        · exfalso
          have hid : m'.id = m.id := by omega
          have hd1 : dA m'.child = dA m.child := g7 (by omega)
          apply hne2
          simp only [e1, e2, e3, hid, hd1]
      · simp only [e1, e2, e3, g8]
  reset m h := by
    show ∃ s' : Inverse α, (do let c ← A.reset m.child; findNext A { m with child := c, id := 0 }) = _ ∧ _
    obtain ⟨c1, h1, h2, h3, h4⟩ := FA.reset _ h.1
    obtain ⟨m', g1, e1, e2, e3, g2, g3, g4, g5, g6, g7, g8⟩ := findNext_spec FA { m with child := c1, id := 0 } h2
    simp only at e1 e2 e3 g3 g4 g5 g6 g7 g8
    refine ⟨m', by rw [h1]; exact g1, ⟨g2, by rw [e1, e2]; exact g3⟩, ?_, ?_⟩
    · simp only [e1, e2, e3, g4, h3]
    · simp only [e1, e2, e3, g8, h4]

/-- the constructor establishes the invariant -/
theorem init_spec (FA : Faithful A dA fA WA) (c : α) (limit : Nat) (missing : List Nat) (w : Rat) (i : Nat)
    (wc : WA c) :
    ∃ m', Inverse.init A c limit missing w i = .ok m' ∧
      (WA m'.child ∧ Stops dA m'.limit m'.missing m'.child m'.id) ∧
      complement m'.id m'.limit m'.missing (dA m'.child) m'.weight = complement i limit missing (dA c) w ∧
      complement 0 m'.limit m'.missing (fA m'.child) m'.weight = complement 0 limit missing (fA c) w := by
  obtain ⟨m', g1, e1, e2, e3, g2, g3, g4, g5, g6, g7, g8⟩ := findNext_spec FA ⟨c, limit, missing, w, i⟩ wc
  simp only at e1 e2 e3 g3 g4 g5 g6 g7 g8
  exact ⟨m', g1, ⟨g2, by rw [e1, e2]; exact g3⟩, by simp only [e1, e2, e3, g4], by simp only [e1, e2, e3, g8]⟩

end Inverse
end WM.Matcher
