import WM.Lemmas.ColumnsMisc
/-! Segment-level lemmas: merge copy, multi-segment reads, stored dict. -/
namespace WM.Columns

/-- The merge copy, when every read of a live document succeeds with `f`. -/
theorem mergeColumnAdds_ok {α : Type} (read : Nat → Except Err α) (f : Nat → α) (live : List Nat) (base : Nat)
    (h : ∀ d ∈ live, read d = .ok (f d)) :
    mergeColumnAdds true read base live = .ok ((live.zipIdx base).map fun p => (p.2, f p.1)) := by
  induction live generalizing base with
  | nil => rfl
  | cons d rest ih =>
    simp only [mergeColumnAdds, if_true, h d (by simp), ih (base + 1) (fun x hx => h x (by simp [hx])),
      List.zipIdx_cons, List.map_cons]

theorem mergeColumnAdds_none {α : Type} (read : Nat → Except Err α) (live : List Nat) (base : Nat) :
    mergeColumnAdds false read base live = .ok [] := by
  cases live <;> simp [mergeColumnAdds]

/-- Indexing the concatenation of the segments' rows at `offset of segment i + loc`. -/
theorem flatten_getElem?_offset {α : Type} (ls : List (List α)) (i loc : Nat) (l : List α)
    (hi : ls[i]? = some l) (hloc : loc < l.length) :
    ls.flatten[((ls.take i).map List.length).sum + loc]? = l[loc]? := by
  induction ls generalizing i with
  | nil => simp at hi
  | cons a ls ih =>
    cases i with
    | zero =>
      simp only [List.getElem?_cons_zero, Option.some.injEq] at hi
      subst hi
      simp only [List.take_zero, List.map_nil, List.sum_nil, Nat.zero_add, List.flatten_cons]
      rw [List.getElem?_append_left hloc]
    | succ i =>
      simp only [List.getElem?_cons_succ] at hi
      simp only [List.take_succ_cons, List.map_cons, List.sum_cons, List.flatten_cons]
      rw [List.getElem?_append_right (by omega)]
      have : a.length + ((ls.take i).map List.length).sum + loc - a.length
          = ((ls.take i).map List.length).sum + loc := by omega
      rw [this]
      exact ih i hi

theorem expand_length {α : Type} (default : α) (s : SegCol α) : (s.expand default).length = s.len := by
  cases s <;> simp [SegCol.expand, SegCol.len]

theorem SegCol.get_expand {α : Type} (default : α) (s : SegCol α) (loc : Nat) (h : loc < s.len) :
    ∃ v, s.get default loc = .ok v ∧ (s.expand default)[loc]? = some v := by
  cases s with
  | rows r =>
    simp only [SegCol.len] at h
    exact ⟨r[loc], by simp [SegCol.get, h], by simp [SegCol.expand, h]⟩
  | empty n =>
    simp only [SegCol.len] at h
    exact ⟨default, rfl, by simp [SegCol.expand, h]⟩

theorem FieldIn.entry_eq {α : Type} (f : FieldIn α) :
    f.entry = (specField f).map fun v => (f.name, v) := by
  unfold FieldIn.entry specField FieldIn.custom
  cases hv : f.value with
  | none => simp
  | some v =>
    cases hs : f.stored with
    | false => simp
    | true => cases f.override <;> simp [hv]

/-- Lookup in the stored dict of one document. -/
theorem storedDict_lookup {α : Type} (fields : List (FieldIn α))
    (hnd : (fields.map (·.name)).Nodup) (name : String) :
    ((storedDict fields).find? (fun kv => kv.1 == name)).map (·.2) = specStored fields name := by
  unfold storedDict specStored
  induction fields with
  | nil => rfl
  | cons f rest ih =>
    have hnd' := (List.nodup_cons.mp hnd).2
    have hf : f.name ∉ rest.map (·.name) := (List.nodup_cons.mp hnd).1
    have ih' := ih hnd'
    simp only [List.filterMap_cons, List.find?_cons]
    by_cases hn : f.name = name
    · have hrest : (rest.filterMap FieldIn.entry).find? (fun kv => kv.1 == name) = none := by
        rw [List.find?_eq_none]
        intro kv hkv
        simp only [List.mem_filterMap] at hkv
        obtain ⟨g, hg, hkv'⟩ := hkv
        rw [FieldIn.entry_eq] at hkv'
        cases hsg : specField g with
        | none => simp [hsg] at hkv'
        | some v =>
          simp only [hsg, Option.map_some, Option.some.injEq] at hkv'
          rw [← hkv']
          simp only [beq_iff_eq]
          intro e
          apply hf; rw [hn, ← e]; exact List.mem_map_of_mem hg
      have hb : (f.name == name) = true := by simpa using hn
      simp only [hb, Option.bind_some]
      rw [FieldIn.entry_eq]
      cases hsf : specField f with
      | none => simp only [Option.map_none]; rw [hrest]; rfl
      | some v => simp [List.find?_cons, hn]
    · have hb : (f.name == name) = false := by simpa using hn
      simp only [hb, Bool.false_eq_true, if_false]
      rw [← ih', FieldIn.entry_eq]
      cases hsf : specField f with
      | none => rfl
      | some v => simp [List.find?_cons, hb]

end WM.Columns
