import WM.Lemmas.SearchIndex
/-! The decidable well-formedness checks imply the hypotheses of the theorems. -/
namespace WM.Compile
open WM.Search

mutual
theorem posQ_of_posQuery : ∀ (q : Query), posQuery q = true → PosQ q
  | .term _ _ _, h => by simpa [posQuery, PosQ] using h
  | .multi _ _ _ _, h => by simpa [posQuery, PosQ] using h
  | .phrase _ _ _ _, h => by simpa [posQuery, PosQ] using h
  | .numRange _ _ _ _ _ _, h => by simpa [posQuery, PosQ] using h
  | .every _ _, h => by simpa [posQuery, PosQ] using h
  | .null, _ => by simp [PosQ]
  | .and qs b, h => by
    simp only [posQuery, Bool.and_eq_true, decide_eq_true_eq] at h
    exact ⟨h.1, posQs_of_posQueries qs h.2⟩
  | .or qs b, h => by
    simp only [posQuery, Bool.and_eq_true, decide_eq_true_eq] at h
    exact ⟨h.1, posQs_of_posQueries qs h.2⟩
  | .dismax qs b, h => by
    simp only [posQuery, Bool.and_eq_true, decide_eq_true_eq] at h
    exact ⟨h.1, posQs_of_posQueries qs h.2⟩
  | .not q, h => by
    simp only [posQuery] at h
    exact posQ_of_posQuery q h
  | .andNot a b, h => by
    simp only [posQuery, Bool.and_eq_true] at h
    exact ⟨posQ_of_posQuery a h.1, posQ_of_posQuery b h.2⟩
  | .andMaybe a b, h => by
    simp only [posQuery, Bool.and_eq_true] at h
    exact ⟨posQ_of_posQuery a h.1, posQ_of_posQuery b h.2⟩
  | .require a b, h => by
    simp only [posQuery, Bool.and_eq_true] at h
    exact ⟨posQ_of_posQuery a h.1, posQ_of_posQuery b h.2⟩
  | .constScore q sc, h => by
    simp only [posQuery, Bool.and_eq_true, decide_eq_true_eq] at h
    exact ⟨h.1, posQ_of_posQuery q h.2⟩
theorem posQs_of_posQueries : ∀ (qs : List Query), posQueries qs = true → PosQs qs
  | [], _ => trivial
  | q :: qs, h => by
    simp only [posQueries, Bool.and_eq_true] at h
    exact ⟨posQ_of_posQuery q h.1, posQs_of_posQueries qs h.2⟩
end

theorem field_mem {d : Doc} {f : String} {fv : FieldVal} (h : d.field? f = some fv) : fv ∈ d.fields :=
  List.mem_of_find?_eq_some h

theorem posLeaf_freq_of_wf {s : Segment} (h : wfSegment s = true) : PosLeaf freqLeaf s := by
  intro i hi f t ht
  have hd := live_doc_mem hi
  unfold freqLeaf Doc.weight
  have hmem := hasTerm_iff_mem.mp ht
  unfold Doc.terms Doc.tokens at hmem
  unfold Doc.tokens Doc.fboost
  cases hf : (s.doc i).field? f with
  | none => simp [hf] at hmem
  | some fv =>
    simp only [hf] at hmem ⊢
    obtain ⟨k, hk, hkt⟩ := List.mem_map.mp hmem
    unfold wfSegment at h
    have h1 := List.all_eq_true.mp h _ hd
    have h2 := List.all_eq_true.mp h1 fv (field_mem hf)
    simp only [Bool.and_eq_true, decide_eq_true_eq] at h2
    apply Rat.mul_pos _ h2.1
    apply sum_pos_of_pos
    · intro x hx
      obtain ⟨k', hk', rfl⟩ := List.mem_map.mp hx
      have hk'' := (List.mem_filter.mp hk').1
      have h3 := List.all_eq_true.mp h2.2 k' hk''
      simpa using h3
    · intro hnil
      rw [List.map_eq_nil_iff, List.filter_eq_nil_iff] at hnil
      exact hnil k hk (by simp [hkt])

end WM.Compile
