import WM.Model.MatcherCombo
import WM.Lemmas.Den
/-! List-level facts for the array matchers of combo.py: unions of many lists, the part of a list below
`doccount`, the documents held in the score buffer. -/
namespace WM.Matcher

/-! ### `sumDens` -/

/-- pointwise meaning of `sumDens` -/
def sumAt : List Den → Nat → Option Rat
  | [], _ => none
  | D :: Ds, d => optUnion (· + ·) (lookup D d) (sumAt Ds d)

theorem asc_sumDens : ∀ {Ds : List Den}, (∀ D ∈ Ds, Asc D) → Asc (sumDens Ds)
  | [], _ => List.Pairwise.nil
  | D :: Ds, h =>
    asc_unionWith _ (h D List.mem_cons_self) (asc_sumDens fun D' hD' => h D' (List.mem_cons_of_mem _ hD'))

theorem lookup_sumDens : ∀ {Ds : List Den}, (∀ D ∈ Ds, Asc D) → ∀ d, lookup (sumDens Ds) d = sumAt Ds d
  | [], _, _ => rfl
  | D :: Ds, h, d => by
    have h' : ∀ D' ∈ Ds, Asc D' := fun D' hD' => h D' (List.mem_cons_of_mem _ hD')
    show lookup (unionWith (· + ·) D (sumDens Ds)) d = _
    rw [lookup_unionWith _ (h D List.mem_cons_self) (asc_sumDens h'), lookup_sumDens h' d]
    rfl

theorem sumAt_congr {Ds Es : List Den} {d : Nat} (hl : Ds.length = Es.length)
    (h : ∀ i (h1 : i < Ds.length) (h2 : i < Es.length), lookup Ds[i] d = lookup Es[i] d) : sumAt Ds d = sumAt Es d := by
  induction Ds generalizing Es with
  | nil =>
    cases Es with
    | nil => rfl
    | cons _ _ => simp at hl
  | cons D Ds ih =>
    cases Es with
    | nil => simp at hl
    | cons E Es =>
      simp only [sumAt]
      have h0 := h 0 (by simp) (by simp)
      simp only [List.getElem_cons_zero] at h0
      rw [h0, ih (by simpa using hl) (fun i h1 h2 => by
        have := h (i + 1) (by simp; omega) (by simp; omega)
        simpa using this)]

/-- `sumAt` over a mapped list -/
theorem sumAt_map_congr {α : Type} (l : List α) (f g : α → Den) (d : Nat) (h : ∀ s ∈ l, lookup (f s) d = lookup (g s) d) :
    sumAt (l.map f) d = sumAt (l.map g) d := by
  induction l with
  | nil => rfl
  | cons s ss ih =>
    simp only [List.map_cons, sumAt]
    rw [h s List.mem_cons_self, ih fun s' hs' => h s' (List.mem_cons_of_mem _ hs')]

theorem sumAt_none {Ds : List Den} {d : Nat} (h : ∀ D ∈ Ds, lookup D d = none) : sumAt Ds d = none := by
  induction Ds with
  | nil => rfl
  | cons D Ds ih =>
    simp only [sumAt]
    rw [h D List.mem_cons_self, ih fun D' hD' => h D' (List.mem_cons_of_mem _ hD')]
    rfl

theorem sumAt_ne_none {Ds : List Den} {D : Den} {d : Nat} {r : Rat} (hD : D ∈ Ds) (h : lookup D d = some r) :
    sumAt Ds d ≠ none := by
  induction Ds with
  | nil => cases hD
  | cons E Es ih =>
    simp only [sumAt]
    rcases List.mem_cons.1 hD with rfl | hD
    · rw [h]; cases sumAt Es d <;> simp [optUnion]
    · have := ih hD
      cases h1 : lookup E d <;> cases h2 : sumAt Es d <;> simp_all [optUnion]

/-- a positive sum of positive scores -/
theorem sumAt_pos {Ds : List Den} {d : Nat} {r : Rat} (hp : ∀ D ∈ Ds, ∀ p ∈ D, 0 < p.2) (h : sumAt Ds d = some r) : 0 < r := by
  induction Ds generalizing r with
  | nil => cases h
  | cons D Ds ih =>
    simp only [sumAt] at h
    have hp' : ∀ D' ∈ Ds, ∀ p ∈ D', 0 < p.2 := fun D' hD' => hp D' (List.mem_cons_of_mem _ hD')
    cases h1 : lookup D d with
    | none =>
      rw [h1] at h
      exact ih hp' (by simpa [optUnion] using h)
    | some s =>
      have hs : 0 < s := hp D List.mem_cons_self (d, s) (lookup_some_mem h1)
      rw [h1] at h
      cases h2 : sumAt Ds d with
      | none =>
        rw [h2] at h
        simp only [optUnion, Option.some.injEq] at h
        rw [← h]; exact hs
      | some t =>
        rw [h2] at h
        simp only [optUnion, Option.some.injEq] at h
        have := ih hp' h2
        rw [← h]; grind

/-! ### `below` -/

theorem asc_below {L : Den} (n : Nat) (h : Asc L) : Asc (below n L) := asc_sublist List.filter_sublist h

theorem lookup_below {L : Den} (h : Asc L) (n d : Nat) : lookup (below n L) d = if d < n then lookup L d else none := by
  have := lookup_filter h (fun i => decide (i < n)) d
  simpa [below] using this

theorem mem_below {L : Den} {n : Nat} {p : Nat × Rat} : p ∈ below n L ↔ p ∈ L ∧ p.1 < n := by
  simp [below, List.mem_filter]

/-! ### the score buffer -/

theorem bufDen_ge (a : List Rat) (off : Nat) {lo hi : Nat} (h : hi ≤ lo) : bufDen a off lo hi = [] := by
  unfold bufDen
  have : hi - lo = 0 := by omega
  rw [this]; rfl

theorem bufDen_step (a : List Rat) (off : Nat) {lo hi : Nat} (h : lo < hi) :
    bufDen a off lo hi =
      if 0 < cellAt a off lo then (lo, cellAt a off lo) :: bufDen a off (lo + 1) hi else bufDen a off (lo + 1) hi := by
  unfold bufDen
  have : hi - lo = (hi - (lo + 1)) + 1 := by omega
  rw [this, List.range'_succ, List.filterMap_cons]
  by_cases hc : 0 < cellAt a off lo
  · simp only [hc, ↓reduceIte]
  · simp only [hc, ↓reduceIte]

theorem mem_bufDen {a : List Rat} {off lo hi : Nat} {p : Nat × Rat} (h : p ∈ bufDen a off lo hi) :
    lo ≤ p.1 ∧ p.1 < hi ∧ p.2 = cellAt a off p.1 ∧ 0 < p.2 := by
  unfold bufDen at h
  obtain ⟨d, hd, he⟩ := List.mem_filterMap.1 h
  rw [List.mem_range'_1] at hd
  by_cases hc : 0 < cellAt a off d
  · simp only [hc, ↓reduceIte, Option.some.injEq] at he
    subst he
    exact ⟨hd.1, by omega, rfl, hc⟩
  · simp [hc] at he

theorem asc_bufDen (a : List Rat) (off : Nat) : ∀ (n lo hi : Nat), hi - lo = n → Asc (bufDen a off lo hi)
  | 0, lo, hi, h => by rw [bufDen_ge a off (by omega)]; exact List.Pairwise.nil
  | n + 1, lo, hi, h => by
    rw [bufDen_step a off (by omega)]
    have ih := asc_bufDen a off n (lo + 1) hi (by omega)
    by_cases hc : 0 < cellAt a off lo
    · simp only [hc, ↓reduceIte]
      refine asc_cons.2 ⟨fun q hq => ?_, ih⟩
      have := (mem_bufDen hq).1
      show lo < q.1
      omega
    · simp only [hc, ↓reduceIte]; exact ih

theorem lookup_bufDen (a : List Rat) (off : Nat) : ∀ (n lo hi d : Nat), hi - lo = n →
    lookup (bufDen a off lo hi) d =
      if lo ≤ d ∧ d < hi ∧ 0 < cellAt a off d then some (cellAt a off d) else none
  | 0, lo, hi, d, h => by
    rw [bufDen_ge a off (by omega)]
    have : ¬ (lo ≤ d ∧ d < hi ∧ 0 < cellAt a off d) := by omega
    simp [this, lookup]
  | n + 1, lo, hi, d, h => by
    rw [bufDen_step a off (by omega)]
    have ih := lookup_bufDen a off n (lo + 1) hi d (by omega)
    by_cases hc : 0 < cellAt a off lo
    · simp only [hc, ↓reduceIte]
      rw [lookup_cons]
      by_cases hd : lo = d
      · subst hd
        have : lo ≤ lo ∧ lo < hi ∧ 0 < cellAt a off lo := ⟨Nat.le_refl _, by omega, hc⟩
        simp [this]
      · rw [if_neg hd, ih]
        by_cases h1 : lo + 1 ≤ d ∧ d < hi ∧ 0 < cellAt a off d
        · have : lo ≤ d ∧ d < hi ∧ 0 < cellAt a off d := ⟨by omega, h1.2.1, h1.2.2⟩
          simp [h1, this]
        · have : ¬ (lo ≤ d ∧ d < hi ∧ 0 < cellAt a off d) := by
            intro h2; apply h1; exact ⟨by omega, h2.2.1, h2.2.2⟩
          simp [h1, this]
    · simp only [hc, ↓reduceIte]
      rw [ih]
      by_cases h1 : lo + 1 ≤ d ∧ d < hi ∧ 0 < cellAt a off d
      · have : lo ≤ d ∧ d < hi ∧ 0 < cellAt a off d := ⟨by omega, h1.2.1, h1.2.2⟩
        simp [h1, this]
      · have : ¬ (lo ≤ d ∧ d < hi ∧ 0 < cellAt a off d) := by
          intro h2; apply h1
          refine ⟨?_, h2.2.1, h2.2.2⟩
          rcases Nat.lt_or_ge lo d with h3 | h3
          · omega
          · have : lo = d := by omega
            subst this; exact absurd h2.2.2 hc
        simp [h1, this]

/-- `lookup` in a concatenation: the first list decides where it has the id -/
theorem lookup_append (A B : Den) (d : Nat) :
    lookup (A ++ B) d = match lookup A d with | some r => some r | none => lookup B d := by
  induction A with
  | nil => rfl
  | cons p A ih =>
    obtain ⟨x, s⟩ := p
    rw [List.cons_append, lookup_cons, lookup_cons]
    by_cases hx : x = d
    · simp [hx]
    · simp only [hx, ↓reduceIte]; exact ih

theorem lookup_some_of_mem_asc {L : Den} (h : Asc L) {p : Nat × Rat} (hp : p ∈ L) : lookup L p.1 = some p.2 :=
  mem_lookup h (d := p.1) (r := p.2) hp

/-- A freshly read part: the buffer holds the documents of `[x, lim)` of the union `S`, the sub-matchers hold the
    rest (`S'`); together they are the union below `doccount`. -/
theorem part_split {a : List Rat} {x lim dc : Nat} {S S' : List Den} (hlim : lim ≤ dc)
    (hS : ∀ D ∈ S, Asc D) (hS' : ∀ D ∈ S', Asc D) (hpos : ∀ D ∈ S, ∀ p ∈ D, 0 < p.2)
    (hlow : ∀ D ∈ S, ∀ p ∈ D, x ≤ p.1)
    (hcell : ∀ d, x ≤ d → d < lim → cellAt a x d = (sumAt S d).getD 0)
    (hrest : ∀ d, sumAt S' d = if d < lim then none else sumAt S d) :
    bufDen a x x lim ++ below dc (sumDens S') = below dc (sumDens S) := by
  have hA1 : Asc (bufDen a x x lim) := asc_bufDen a x _ x lim rfl
  have hA2 : Asc (below dc (sumDens S')) := asc_below dc (asc_sumDens hS')
  have hcross : ∀ b ∈ below dc (sumDens S'), lim ≤ b.1 := by
    intro b hb
    have hb' := (mem_below.1 hb).1
    have h1 := lookup_some_of_mem_asc (asc_sumDens hS') hb'
    rw [lookup_sumDens hS', hrest] at h1
    by_cases hlt : b.1 < lim
    · simp [hlt] at h1
    · omega
  apply den_ext
  · rw [Asc, List.pairwise_append]
    refine ⟨hA1, hA2, ?_⟩
    intro p hp q hq
    have := (mem_bufDen hp).2.1
    have := hcross q hq
    omega
  · exact asc_below dc (asc_sumDens hS)
  · intro d
    rw [lookup_append, lookup_bufDen a x _ x lim d rfl, lookup_below (asc_sumDens hS'), lookup_below (asc_sumDens hS),
      lookup_sumDens hS', lookup_sumDens hS, hrest]
    by_cases hdx : d < x
    · have h1 : ¬ (x ≤ d ∧ d < lim ∧ 0 < cellAt a x d) := by omega
      have h2 : sumAt S d = none := by
        apply sumAt_none
        intro D hD
        apply lookup_none_of_lt
        intro q hq
        have := hlow D hD q hq
        show d < q.1
        omega
      rw [if_neg h1, h2]
      by_cases h3 : d < dc <;> by_cases h4 : d < lim <;> simp [h3, h4]
    · by_cases hdl : d < lim
      · have hc := hcell d (by omega) hdl
        have hddc : d < dc := by omega
        cases hs : sumAt S d with
        | none =>
          rw [hs] at hc
          have h1 : ¬ (x ≤ d ∧ d < lim ∧ 0 < cellAt a x d) := by
            intro h; rw [hc] at h; exact absurd h.2.2 (by decide)
          rw [if_neg h1, if_pos hddc, if_pos hdl, if_pos hddc]
        | some r =>
          rw [hs] at hc
          have hr : 0 < r := sumAt_pos hpos hs
          have h1 : x ≤ d ∧ d < lim ∧ 0 < cellAt a x d := ⟨by omega, hdl, by rw [hc]; exact hr⟩
          rw [if_pos h1, if_pos hddc, hc, if_pos hddc]
          rfl
      · have h1 : ¬ (x ≤ d ∧ d < lim ∧ 0 < cellAt a x d) := by omega
        rw [if_neg h1, if_neg hdl]

end WM.Matcher
