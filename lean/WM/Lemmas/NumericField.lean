import WM.Lemmas.NumericRange
/-! Integer domain, `prepare_number`, and the transfer of intervals through `to_sortable`. -/
namespace WM.Numeric
open WM.NumericSpec

theorem minMaxInt_eq (n : Nat) (hn : 0 < n) (signed : Bool) :
    minMaxInt n signed =
      if signed then (-(2 : Int) ^ (n - 1), 2 ^ (n - 1) - 1) else (0, 2 ^ n - 1) := by
  have := two_pow_pred n hn
  cases signed <;> simp only [minMaxInt, fromSortableInt, one_shiftLeft_cast] <;> simp <;> omega

theorem toSortableInt_range (n : Nat) (hn : 0 < n) (signed : Bool) (x : Int)
    (hx : inDomain n signed x) :
    0 ≤ toSortableInt n signed x ∧ toSortableInt n signed x < 2 ^ n := by
  have := two_pow_pred n hn
  unfold inDomain at hx
  rw [minMaxInt_eq n hn] at hx
  cases signed <;> simp only [toSortableInt, one_shiftLeft_cast] at hx ⊢ <;> simp at hx ⊢ <;> omega

theorem toSortableInt_lt (n : Nat) (signed : Bool) (x y : Int) :
    toSortableInt n signed x < toSortableInt n signed y ↔ x < y := by
  cases signed <;> simp [toSortableInt]

theorem prepareInt_eq (n : Nat) (signed : Bool) (x : Int) :
    prepareInt n signed x = if inDomain n signed x then .ok x else .error .valueError := by
  unfold prepareInt inDomain
  by_cases h : (minMaxInt n signed).1 ≤ x ∧ x ≤ (minMaxInt n signed).2
  · have : ¬ (x < (minMaxInt n signed).1 ∨ x > (minMaxInt n signed).2) := by omega
    simp [h, this]
  · have : (x < (minMaxInt n signed).1 ∨ x > (minMaxInt n signed).2) := by omega
    simp [h, this]

/-- A strictly monotone re-encoding does not change which values lie in an interval. -/
theorem inInterval_map (f : Int → Int) (hf : ∀ a b, f a < f b ↔ a < b)
    (start end_ : Option Int) (sx ex : Bool) (x : Int) :
    inInterval intLt (start.map f) (end_.map f) sx ex (f x) = inInterval intLt start end_ sx ex x := by
  unfold inInterval intLt
  cases start <;> cases end_ <;> simp [hf]

end WM.Numeric
