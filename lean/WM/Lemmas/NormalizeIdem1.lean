import WM.Lemmas.NormalizeMain
/-! Idempotence of `normalize`, part 1: ranges that do not overlap stay that way. -/
namespace WM.Normalize
open WM.Sat WM.Clean

theorem Rng.overlaps_merge (q a b : Rng) (i : Bool) (hab : a.overlaps b = true)
    (h : q.overlaps (a.merge b i) = true) : q.overlaps a = true ∨ q.overlaps b = true := by
  have hfab := Rng.overlaps_field hab
  have hfq := Rng.overlaps_field h
  rw [Rng.merge_f] at hfq
  have hoab := (Rng.overlaps_iff a b hfab).mp hab
  have hoq := (Rng.overlaps_iff q (a.merge b i) (by rw [Rng.merge_f]; exact hfq)).mp h
  have hb := Rng.merge_bounds a b i
  have hs := congrArg Prod.fst hb
  have he := congrArg Prod.snd hb
  simp only at hs he hoq hoab
  rw [hs, he] at hoq
  rw [Rng.overlaps_iff q a hfq, Rng.overlaps_iff q b (hfq.trans hfab)]
  simp only [Cmp.min_eq, Cmp.max_eq] at hoq ⊢
  cases i <;> simp only [Bool.false_eq_true, ↓reduceIte] at hoq <;> grind


/-- No range clause of `l` overlaps `q`. -/
def NoOv (q : Rng) (l : List Q) : Prop := ∀ s ∈ l, ∀ r, s.asRange = some r → q.overlaps r = false

theorem noOv_of_popOverlap_none {q : Rng} : ∀ {l : List Q}, popOverlap q l = none → NoOv q l
  | [], _ => fun s hs => by simp at hs
  | s :: rest, h => by
    unfold popOverlap at h
    intro x hx r hr
    split at h
    · rename_i r0 hr0
      split at h
      · simp at h
      · rename_i hno
        have hrest : popOverlap q rest = none := by
          cases hp : popOverlap q rest with
          | none => rfl
          | some p => simp [hp] at h
        rcases List.mem_cons.mp hx with rfl | hx
        · rw [hr0] at hr
          cases hr
          simpa using hno
        · exact noOv_of_popOverlap_none hrest x hx r hr
    · rename_i hnone
      have hrest : popOverlap q rest = none := by
        cases hp : popOverlap q rest with
        | none => rfl
        | some p => simp [hp] at h
      rcases List.mem_cons.mp hx with rfl | hx
      · rw [hnone] at hr; cases hr
      · exact noOv_of_popOverlap_none hrest x hx r hr

theorem popOverlap_none_iff {q : Rng} {l : List Q} : popOverlap q l = none ↔ NoOv q l :=
  ⟨noOv_of_popOverlap_none, popOverlap_none_of⟩

theorem popOverlap_some_mem {q : Rng} : ∀ {l : List Q} {r : Rng} {l' : List Q},
    popOverlap q l = some (r, l') → ∃ s ∈ l, s.asRange = some r
  | [], _, _, h => by simp [popOverlap] at h
  | s :: rest, r, l', h => by
    unfold popOverlap at h
    split at h
    · rename_i r0 hr0
      split at h
      · simp only [Option.some.injEq, Prod.mk.injEq] at h
        exact ⟨s, List.mem_cons_self .., by rw [hr0, h.1]⟩
      · cases hp : popOverlap q rest with
        | none => simp [hp] at h
        | some p =>
          obtain ⟨r', rest'⟩ := p
          simp only [hp, Option.map_some, Option.some.injEq, Prod.mk.injEq] at h
          obtain ⟨x, hx, hxr⟩ := popOverlap_some_mem hp
          exact ⟨x, List.mem_cons_of_mem _ hx, by rw [hxr, h.1]⟩
    · cases hp : popOverlap q rest with
      | none => simp [hp] at h
      | some p =>
        obtain ⟨r', rest'⟩ := p
        simp only [hp, Option.map_some, Option.some.injEq, Prod.mk.injEq] at h
        obtain ⟨x, hx, hxr⟩ := popOverlap_some_mem hp
        exact ⟨x, List.mem_cons_of_mem _ hx, by rw [hxr, h.1]⟩

/-- `overlaps` only reads the field and the bounds. -/
def Rng.sameBounds (a b : Rng) : Prop :=
  a.f = b.f ∧ a.lo = b.lo ∧ a.hi = b.hi ∧ a.lox = b.lox ∧ a.hix = b.hix

theorem Rng.overlaps_congr_right {q a b : Rng} (h : a.sameBounds b) : q.overlaps a = q.overlaps b := by
  obtain ⟨h1, h2, h3, h4, h5⟩ := h
  simp only [Rng.overlaps, h1, h2, h3, h4, h5]

theorem Rng.overlaps_congr_left {a b q : Rng} (h : a.sameBounds b) : a.overlaps q = b.overlaps q := by
  obtain ⟨h1, h2, h3, h4, h5⟩ := h
  simp only [Rng.overlaps, h1, h2, h3, h4, h5]

theorem NoOv.congr {a b : Rng} {l : List Q} (h : a.sameBounds b) (hn : NoOv a l) : NoOv b l :=
  fun s hs r hr => by rw [← Rng.overlaps_congr_left h]; exact hn s hs r hr

theorem asRange_rngNormalize {r r' : Rng} (h : r.normalize.asRange = some r') : r.sameBounds r' := by
  unfold Rng.normalize at h
  split at h
  · simp [Q.asRange] at h
  · split at h
    · split at h
      · simp [Q.asRange] at h
      · split at h <;> simp [Q.asRange] at h
    · simp only [Q.asRange, Option.some.injEq] at h
      subst h
      exact ⟨rfl, rfl, rfl, rfl, rfl⟩

theorem absorb_noOv (R : Rng) (i : Bool) (q : Rng) (rest : List Q)
    (hq : R.overlaps q = false) (hrest : NoOv R rest) :
    R.overlaps (absorb i q rest).1 = false ∧ NoOv R (absorb i q rest).2 := by
  fun_induction absorb i q rest with
  | case1 q rest h => exact ⟨hq, hrest⟩
  | case2 q rest r rest' h ih =>
    obtain ⟨hov, hmem, _⟩ := popOverlap_some h
    obtain ⟨x, hx, hxr⟩ := popOverlap_some_mem h
    have hr : R.overlaps r = false := hrest x hx r hxr
    apply ih
    · cases hc : R.overlaps (q.merge r i) with
      | false => rfl
      | true =>
        rcases Rng.overlaps_merge R q r i hov hc with h1 | h1
        · rw [hq] at h1; exact absurd h1 (by simp)
        · rw [hr] at h1; exact absurd h1 (by simp)
    · exact fun s hs r' hr' => hrest s (hmem s hs) r' hr'

theorem absorb_post (i : Bool) (q : Rng) (rest : List Q) :
    popOverlap (absorb i q rest).1 (absorb i q rest).2 = none := by
  fun_induction absorb i q rest with
  | case1 q rest h => exact h
  | case2 q rest r rest' h ih => exact ih

theorem mergeLoop_noOv (R : Rng) (i : Bool) (ef : List (Option Field)) (l : List Q) (h : NoOv R l) :
    NoOv R (mergeLoop i ef l).1 := by
  fun_induction mergeLoop i ef l with
  | case1 ef => exact h
  | case2 ef q rest hc ih => exact ih (fun s hs => h s (List.mem_cons_of_mem _ hs))
  | case3 ef q rest hc r hr p q' ef' res ih =>
    have hq : R.overlaps r = false := h q (List.mem_cons_self ..) r hr
    have hrest : NoOv R rest := fun s hs => h s (List.mem_cons_of_mem _ hs)
    obtain ⟨h1, h2⟩ := absorb_noOv R i r rest hq hrest
    intro s hs r' hr'
    rcases List.mem_cons.mp hs with rfl | hs
    · have hb : p.1.sameBounds r' := asRange_rngNormalize hr'
      rw [← Rng.overlaps_congr_right hb]
      exact h1
    · exact ih h2 s hs r' hr'
  | case4 ef q rest hc hr ef' res ih =>
    intro s hs r' hr'
    rcases List.mem_cons.mp hs with rfl | hs
    · exact h s (List.mem_cons_self ..) r' hr'
    · exact ih (fun x hx => h x (List.mem_cons_of_mem _ hx)) s hs r' hr'

end WM.Normalize
