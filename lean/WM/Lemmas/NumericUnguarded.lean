import WM.Model.Numeric
/-!
The `split_ranges` loop **as it is in the pinned tree**, i.e. without the two wrap tests that the
proposed `fix:` commit adds (`WM.Numeric.splitLoop` mirrors the repaired loop).  Kept only to state,
kernel-checked, that the repair is necessary: see `WM.C13.split_unguarded_wrong`.
-/
namespace WM.Numeric

/-- `util/numeric.py:split_ranges` before the repair: terminal test is only
    `shift + step >= intsize or nextstart > nextend`. -/
def splitLoopUnguarded (n step : Nat) (hstep : 0 < step) (start end_ shift : Nat) : List R :=
  let diff := 1 <<< (shift + step)
  let mask := ((1 <<< step) - 1) <<< shift
  let setbits := fun (x : Nat) => x ||| ((1 <<< shift) - 1)
  let haslower := (start &&& mask) != 0
  let hasupper := (end_ &&& mask) != mask
  let nm := notMask n mask
  let nextstart := (if haslower then start + diff else start) &&& nm
  let nextend := pyAnd (if hasupper then (end_ : Int) - (diff : Int) else (end_ : Int)) nm
  if shift + step ≥ n ∨ nextstart > nextend then
    [⟨start, setbits end_, shift⟩]
  else
    (if haslower then [⟨start, setbits (start ||| mask), shift⟩] else []) ++
    (if hasupper then [⟨end_ &&& nm, setbits end_, shift⟩] else []) ++
    splitLoopUnguarded n step hstep nextstart nextend (shift + step)
termination_by n - shift
decreasing_by omega

end WM.Numeric
