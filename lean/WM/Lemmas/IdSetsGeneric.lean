import WM.Lemmas.IdSetsSorted
import WM.Lemmas.IdSetsLoops
/-! The inherited `DocIdSet` loops on a `SortedIntSet`, and `ReverseIdSet`. -/
set_option linter.unusedSimpArgs false
namespace WM.IdSets
open WM.Spec.IdSet (Sorted)

theorem foldE_append {σ α} (f : σ → α → Except Err σ) : ∀ (l1 l2 : List α) (s : σ),
    foldE f s (l1 ++ l2) = match foldE f s l1 with
      | .error e => .error e
      | .ok s' => foldE f s' l2
  | [], l2, s => by simp [foldE]
  | x :: xs, l2, s => by
    simp only [List.cons_append, foldE]
    cases f s x with
    | error e => rfl
    | ok s' => exact foldE_append f xs l2 s'

/-- `DocIdSet.update` on a `SortedIntSet` is union. -/
theorem sisUpdate_items {data : List Nat} (hs : Sorted data) : ∀ (l : List Nat),
    ∃ r, foldE sisAdd data l = .ok r ∧ Sorted r ∧ ∀ x, x ∈ r ↔ x ∈ data ∨ x ∈ l := by
  intro l
  induction l generalizing data with
  | nil => exact ⟨data, rfl, hs, by simp⟩
  | cons a t ih =>
    simp only [foldE, sisAdd_spec hs a]
    rcases ih (WM.Spec.IdSet.sorted_insert (i := a) hs) with ⟨r, hr, hsr, hm⟩
    refine ⟨r, hr, hsr, ?_⟩
    intro x
    rw [hm, WM.Spec.IdSet.mem_insert, List.mem_cons]
    constructor
    · rintro ((h | h) | h) <;> simp [h]
    · rintro (h | h | h) <;> simp [h]

theorem sisUpdate_spec {data : List Nat} (hs : Sorted data) (o : Other) :
    sisUpdate data o = .ok (WM.Spec.IdSet.union data o.items) := by
  unfold sisUpdate
  rcases sisUpdate_items hs o.items with ⟨r, hr, hsr, hm⟩
  rw [hr]
  congr 1
  apply WM.Spec.IdSet.sorted_ext hsr (WM.Spec.IdSet.sorted_union hs)
  intro x; rw [hm, WM.Spec.IdSet.mem_union]

theorem sisIntersection_spec (data : List Nat) (o : Other) :
    sisIntersection data o = WM.Spec.IdSet.inter data o.items := by
  unfold sisIntersection WM.Spec.IdSet.inter
  apply List.filter_congr
  intro x _
  exact (other_items_contains o x).symm

theorem sisDifference_spec (data : List Nat) (o : Other) :
    sisDifference data o = WM.Spec.IdSet.diff data o.items := by
  unfold sisDifference WM.Spec.IdSet.diff
  apply List.filter_congr
  intro x _
  rw [other_items_contains o x]

/-- What the generic `DocIdSet.invert_update` loop really computes on a `SortedIntSet`: the
    numbers below `size` are toggled, the members at or above `size` stay. -/
theorem sisInvertUpdate_exact {data : List Nat} (hs : Sorted data) (size : Nat) :
    ∃ r, sisInvertUpdate data size = .ok r ∧ Sorted r ∧
      ∀ x, x ∈ r ↔ (x < size ∧ x ∉ data) ∨ (size ≤ x ∧ x ∈ data) := by
  unfold sisInvertUpdate
  induction size with
  | zero =>
    refine ⟨data, rfl, hs, ?_⟩
    intro x; simp
  | succ k ih =>
    rcases ih with ⟨r, hr, hsr, hm⟩
    rw [List.range_succ, foldE_append, hr]
    simp only [foldE]
    rw [sisContains_spec hsr k]
    simp only [bind, Except.bind]
    have hk : k ∈ r ↔ k ∈ data := by
      rw [hm]; constructor
      · rintro (⟨h, _⟩ | ⟨_, h⟩)
        · omega
        · exact h
      · intro h; exact Or.inr ⟨Nat.le_refl _, h⟩
    by_cases hkd : k ∈ data
    · have : decide (k ∈ r) = true := by simpa using hk.mpr hkd
      rw [this]
      simp only [↓reduceIte, sisDiscard_spec hsr k]
      refine ⟨_, rfl, WM.Spec.IdSet.sorted_erase hsr, ?_⟩
      intro x
      rw [WM.Spec.IdSet.mem_erase, hm]
      constructor
      · rintro ⟨(⟨h1, h2⟩ | ⟨h1, h2⟩), hne⟩
        · exact Or.inl ⟨by omega, h2⟩
        · exact Or.inr ⟨by omega, h2⟩
      · rintro (⟨h1, h2⟩ | ⟨h1, h2⟩)
        · refine ⟨Or.inl ⟨?_, h2⟩, ?_⟩
          · have : x ≠ k := fun h => h2 (h ▸ hkd)
            omega
          · exact fun h => h2 (h ▸ hkd)
        · exact ⟨Or.inr ⟨by omega, h2⟩, by omega⟩
    · have : decide (k ∈ r) = false := by simpa using fun h => hkd (hk.mp h)
      rw [this]
      simp only [Bool.false_eq_true, ↓reduceIte, sisAdd_spec hsr k]
      refine ⟨_, rfl, WM.Spec.IdSet.sorted_insert hsr, ?_⟩
      intro x
      rw [WM.Spec.IdSet.mem_insert, hm]
      constructor
      · rintro (h | ⟨h1, h2⟩ | ⟨h1, h2⟩)
        · subst h; exact Or.inl ⟨by omega, hkd⟩
        · exact Or.inl ⟨by omega, h2⟩
        · by_cases hxk : x = k
          · subst hxk; exact absurd h2 hkd
          · exact Or.inr ⟨by omega, h2⟩
      · rintro (⟨h1, h2⟩ | ⟨h1, h2⟩)
        · by_cases hxk : x = k
          · exact Or.inl hxk
          · exact Or.inr (Or.inl ⟨by omega, h2⟩)
        · exact Or.inr (Or.inr ⟨by omega, h2⟩)

/-! ### either representation -/

def Inner.WF : Inner → Prop
  | .bits b => ∀ x ∈ b, x < 256
  | .sorted d => Sorted d

theorem Inner.sorted_iter (s : Inner) (h : s.WF) : Sorted s.iter := by
  cases s with
  | bits b => exact IdSets.sorted_iter b
  | sorted d => exact h

theorem Inner.contains_spec (s : Inner) (h : s.WF) (i : Nat) :
    s.contains i = .ok (decide (i ∈ s.iter)) := by
  cases s with
  | bits b =>
    simp only [Inner.contains, Inner.iter]
    congr 1
    by_cases hc : IdSets.contains b i = true
    · simp [hc, mem_iter.mpr hc]
    · have : i ∉ IdSets.iter b := fun hm => hc (mem_iter.mp hm)
      simp only [Bool.not_eq_true] at hc
      simp [hc, this]
  | sorted d => exact sisContains_spec h i

theorem Inner.len_spec (s : Inner) (h : s.WF) : s.len = .ok s.iter.length := by
  cases s with
  | bits b => exact IdSets.len_spec b h
  | sorted d => rfl

theorem byte_or_lt (b k : Nat) (hb : b < 256) (hk : k < 8) : b ||| 1 <<< k < 256 := by
  have h2 : 1 <<< k < 2 ^ 8 := by
    rw [Nat.one_shiftLeft]; exact Nat.pow_lt_pow_right (by omega) hk
  exact Nat.or_lt_two_pow (n := 8) hb h2

theorem wf_resize (bits : Bits) (n : Nat) (h : ∀ x ∈ bits, x < 256) : ∀ x ∈ resize bits n, x < 256 := by
  intro x hx
  rcases Nat.lt_trichotomy (bytesForBits n) bits.length with h1 | h1 | h1
  · rw [resize_shrink h1] at hx; exact h x (List.mem_of_mem_take hx)
  · rw [resize_same h1] at hx; exact h x hx
  · rw [resize_grow h1, List.mem_append] at hx
    rcases hx with hx | hx
    · exact h x hx
    · rw [List.mem_replicate] at hx; omega

theorem wf_modify (bits : Bits) (k : Nat) (f : Nat → Nat) (h : ∀ x ∈ bits, x < 256)
    (hf : ∀ b, b < 256 → f b < 256) : ∀ x ∈ bits.modify k f, x < 256 := by
  intro x hx
  rcases List.getElem_of_mem hx with ⟨m, hm, hget⟩
  rw [List.getElem_modify] at hget
  rw [List.length_modify] at hm
  split at hget
  · rw [← hget]; exact hf _ (h _ (List.getElem_mem hm))
  · rw [← hget]; exact h _ (List.getElem_mem hm)

theorem wf_add (bits : Bits) (i : Nat) (h : ∀ x ∈ bits, x < 256) : ∀ x ∈ add bits i, x < 256 := by
  unfold add
  simp only
  apply wf_modify
  · split
    · exact wf_resize _ _ h
    · exact h
  · intro b hb; exact byte_or_lt b _ hb (Nat.mod_lt _ (by omega))

theorem wf_discard (bits : Bits) (i : Nat) (h : ∀ x ∈ bits, x < 256) : ∀ x ∈ discard bits i, x < 256 := by
  unfold discard
  simp only
  split
  · apply wf_modify _ _ _ h
    intro b hb
    unfold andNot
    exact Nat.lt_of_le_of_lt Nat.and_le_left hb
  · exact h

theorem Inner.add_spec (s : Inner) (h : s.WF) (i : Nat) :
    ∃ s', s.add i = .ok s' ∧ s'.WF ∧ s'.iter = WM.Spec.IdSet.insert i s.iter := by
  cases s with
  | bits b =>
    refine ⟨.bits (IdSets.add b i), rfl, wf_add b i h, ?_⟩
    apply iter_eq_of_mem (WM.Spec.IdSet.sorted_insert (IdSets.sorted_iter b))
    intro x
    rw [WM.Spec.IdSet.mem_insert, contains_add, mem_iter]
    simp
  | sorted d =>
    refine ⟨.sorted (WM.Spec.IdSet.insert i d), ?_, WM.Spec.IdSet.sorted_insert h, rfl⟩
    simp only [Inner.add, sisAdd_spec h i, Except.map]

theorem Inner.discard_spec (s : Inner) (h : s.WF) (i : Nat) :
    ∃ s', s.discard i = .ok s' ∧ s'.WF ∧ s'.iter = WM.Spec.IdSet.erase i s.iter := by
  cases s with
  | bits b =>
    refine ⟨.bits (IdSets.discard b i), rfl, wf_discard b i h, ?_⟩
    apply iter_eq_of_mem (WM.Spec.IdSet.sorted_erase (IdSets.sorted_iter b))
    intro x
    rw [WM.Spec.IdSet.mem_erase, contains_discard, mem_iter]
    simp
  | sorted d =>
    refine ⟨.sorted (WM.Spec.IdSet.erase i d), ?_, WM.Spec.IdSet.sorted_erase h, rfl⟩
    simp only [Inner.discard, sisDiscard_spec h i, Except.map]

/-! ### ReverseIdSet -/

theorem revIterLoop_spec : ∀ (n i : Nat) (rem : List Nat), Sorted rem → (∀ x ∈ rem, i ≤ x) →
    revIterLoop n i rem.head? rem.tail = (List.range' i n).filter (fun x => !rem.contains x)
  | 0, _, _, _, _ => by simp [revIterLoop]
  | n + 1, i, [], _, _ => by
    have ih := revIterLoop_spec n (i + 1) [] List.Pairwise.nil (by simp)
    simp only [List.head?_nil, List.tail_nil] at ih ⊢
    unfold revIterLoop
    simp only [reduceCtorEq, ↓reduceIte]
    rw [ih, List.range'_succ, List.filter_cons]
    simp
  | n + 1, i, a :: t, hs, hge => by
    have hs' := List.pairwise_cons.mp hs
    simp only [List.head?_cons, List.tail_cons]
    unfold revIterLoop
    rw [List.range'_succ, List.filter_cons]
    by_cases hai : a = i
    · subst hai
      simp only [↓reduceIte]
      have ih := revIterLoop_spec n (a + 1) t hs'.2 (fun x hx => by have := hs'.1 x hx; omega)
      have hcongr : (List.range' (a + 1) n).filter (fun x => !(a :: t).contains x)
          = (List.range' (a + 1) n).filter (fun x => !t.contains x) := by
        apply List.filter_congr
        intro x hx
        have := (List.mem_range'_1.mp hx).1
        have hne : (x == a) = false := by simp; omega
        rw [List.contains_cons, hne, Bool.false_or]
      have hfalse : (!(a :: t).contains a) = false := by simp
      rw [hfalse, hcongr]
      simp only [Bool.false_eq_true, ↓reduceIte]
      cases t with
      | nil => simpa using ih
      | cons x rest => simpa using ih
    · have hne : ¬ (some a = some i) := by simpa using hai
      simp only [hne, ↓reduceIte]
      have hlt : i < a := by have := hge a (by simp); omega
      have ih := revIterLoop_spec n (i + 1) (a :: t) hs (by
        intro x hx
        simp only [List.mem_cons] at hx
        rcases hx with rfl | hx
        · omega
        · have := hs'.1 x hx; omega)
      simp only [List.head?_cons, List.tail_cons] at ih
      rw [ih]
      have : (!(a :: t).contains i) = true := by
        simp only [Bool.not_eq_true', List.contains_eq_mem, decide_eq_false_iff_not, List.mem_cons, not_or]
        refine ⟨by omega, ?_⟩
        intro hm; have := hs'.1 i hm; omega
      rw [this]
      simp

/-- `list(ReverseIdSet(idset, limit))` is the complement of the wrapped set inside `[0, limit)`. -/
theorem Rev.iter_spec (r : Rev) (h : r.inner.WF) :
    r.iter = WM.Spec.IdSet.invert r.limit r.inner.iter := by
  have hs := Inner.sorted_iter r.inner h
  have := revIterLoop_spec r.limit 0 r.inner.iter hs (by intro x _; omega)
  unfold Rev.iter WM.Spec.IdSet.invert
  rw [List.range_eq_range']
  cases hi : r.inner.iter with
  | nil => rw [hi] at this; simpa using this
  | cons a t => rw [hi] at this; simpa using this

theorem Rev.contains_spec (r : Rev) (h : r.inner.WF) (i : Nat) (hi : i < r.limit) :
    r.contains i = .ok (decide (i ∈ r.iter)) := by
  rw [Rev.iter_spec r h]
  unfold Rev.contains
  rw [Inner.contains_spec _ h]
  simp only [Except.map]
  congr 1
  by_cases hm : i ∈ r.inner.iter
  · simp [WM.Spec.IdSet.mem_invert, hm]
  · simp [WM.Spec.IdSet.mem_invert, hm, hi]

theorem revLastLoop_spec (inner : Inner) (h : inner.WF) : ∀ (n : Nat),
    revLastLoop inner n = .ok ((List.range n).filter (fun x => !inner.iter.contains x)).getLast?
  | 0 => rfl
  | n + 1 => by
    unfold revLastLoop
    rw [Inner.contains_spec _ h, List.range_succ, List.filter_append]
    by_cases hm : n ∈ inner.iter
    · simp only [hm, decide_true]
      rw [revLastLoop_spec inner h n]
      simp [hm]
    · simp [hm]

theorem Rev.last_spec (r : Rev) (h : r.inner.WF) :
    r.last = .ok (WM.Spec.IdSet.last r.iter) := by
  rw [Rev.iter_spec r h]
  exact revLastLoop_spec r.inner h r.limit

theorem Rev.first_spec (r : Rev) : r.first = WM.Spec.IdSet.first r.iter := rfl

/-- `len(ReverseIdSet)` is right when the wrapped members are all below `limit`. -/
theorem Rev.len_spec (r : Rev) (h : r.inner.WF) (hlim : ∀ x ∈ r.inner.iter, x < r.limit) :
    r.len = .ok (r.iter.length : Int) := by
  rw [Rev.iter_spec r h]
  unfold Rev.len
  rw [Inner.len_spec _ h]
  simp only [Except.map]
  have hs := Inner.sorted_iter r.inner h
  -- the members of the wrapped set are exactly the numbers of `range limit` that are filtered out
  have hin : (List.range r.limit).filter (fun x => r.inner.iter.contains x) = r.inner.iter := by
    apply WM.Spec.IdSet.sorted_ext (List.Pairwise.filter _ List.pairwise_lt_range) hs
    intro x
    simp only [List.mem_filter, List.mem_range, List.contains_eq_mem, decide_eq_true_eq]
    constructor
    · exact fun hx => hx.2
    · exact fun hx => ⟨hlim x hx, hx⟩
  have hcount := List.length_eq_countP_add_countP (fun x => r.inner.iter.contains x) (l := List.range r.limit)
  rw [List.countP_eq_length_filter, List.countP_eq_length_filter, hin, List.length_range] at hcount
  unfold WM.Spec.IdSet.invert
  have hf : (List.range r.limit).filter (fun a => decide ¬(r.inner.iter.contains a = true))
      = (List.range r.limit).filter (fun x => !r.inner.iter.contains x) := by
    apply List.filter_congr
    intro x _
    cases r.inner.iter.contains x <;> simp
  rw [hf] at hcount
  simp only [bind, Except.bind, pure, Except.pure]
  congr 1
  omega

theorem Rev.add_spec (r : Rev) (h : r.inner.WF) (n : Nat) (hn : n < r.limit) :
    ∃ r', r.add n = .ok r' ∧ r'.inner.WF ∧ r'.limit = r.limit ∧
      r'.iter = WM.Spec.IdSet.insert n r.iter := by
  rcases Inner.discard_spec r.inner h n with ⟨s', hs', hwf, hiter⟩
  refine ⟨{ r with inner := s' }, by simp [Rev.add, hs', Except.map], hwf, rfl, ?_⟩
  rw [Rev.iter_spec _ hwf, Rev.iter_spec r h]
  simp only
  rw [hiter]
  apply WM.Spec.IdSet.sorted_ext WM.Spec.IdSet.sorted_invert
    (WM.Spec.IdSet.sorted_insert WM.Spec.IdSet.sorted_invert)
  intro x
  rw [WM.Spec.IdSet.mem_insert, WM.Spec.IdSet.mem_invert, WM.Spec.IdSet.mem_invert, WM.Spec.IdSet.mem_erase]
  constructor
  · rintro ⟨h1, h2⟩
    by_cases hx : x = n
    · exact Or.inl hx
    · exact Or.inr ⟨h1, fun hm => h2 ⟨hm, hx⟩⟩
  · rintro (hx | ⟨h1, h2⟩)
    · subst hx; exact ⟨hn, fun hm => hm.2 rfl⟩
    · exact ⟨h1, fun hm => h2 hm.1⟩

theorem Rev.discard_spec (r : Rev) (h : r.inner.WF) (n : Nat) :
    ∃ r', r.discard n = .ok r' ∧ r'.inner.WF ∧ r'.limit = r.limit ∧
      r'.iter = WM.Spec.IdSet.erase n r.iter := by
  rcases Inner.add_spec r.inner h n with ⟨s', hs', hwf, hiter⟩
  refine ⟨{ r with inner := s' }, by simp [Rev.discard, hs', Except.map], hwf, rfl, ?_⟩
  rw [Rev.iter_spec _ hwf, Rev.iter_spec r h]
  simp only
  rw [hiter]
  apply WM.Spec.IdSet.sorted_ext WM.Spec.IdSet.sorted_invert
    (WM.Spec.IdSet.sorted_erase WM.Spec.IdSet.sorted_invert)
  intro x
  rw [WM.Spec.IdSet.mem_erase, WM.Spec.IdSet.mem_invert, WM.Spec.IdSet.mem_invert, WM.Spec.IdSet.mem_insert]
  constructor
  · rintro ⟨h1, h2⟩
    exact ⟨⟨h1, fun hm => h2 (Or.inr hm)⟩, fun hx => h2 (Or.inl hx)⟩
  · rintro ⟨⟨h1, h2⟩, hx⟩
    exact ⟨h1, fun hm => hm.elim hx h2⟩

/-! ### `ReverseIdSet` without its preconditions, and its inherited in-place loops -/

/-- `i in ReverseIdSet` for **every** `i`: "not in the wrapped set" — also beyond `limit`. -/
theorem Rev.contains_exact (r : Rev) (h : r.inner.WF) (i : Nat) :
    r.contains i = .ok (!decide (i ∈ r.inner.iter)) := by
  unfold Rev.contains
  rw [Inner.contains_spec _ h]
  rfl

/-- `len(ReverseIdSet)` for every wrapped set: `limit - len(idset)` as a Python int. -/
theorem Rev.len_exact (r : Rev) (h : r.inner.WF) :
    r.len = .ok ((r.limit : Int) - (r.inner.iter.length : Int)) := by
  unfold Rev.len
  rw [Inner.len_spec _ h]
  rfl

theorem invert_erase_ge (limit n : Nat) (s : List Nat) (hn : limit ≤ n) :
    WM.Spec.IdSet.invert limit (WM.Spec.IdSet.erase n s) = WM.Spec.IdSet.invert limit s := by
  apply WM.Spec.IdSet.sorted_ext WM.Spec.IdSet.sorted_invert WM.Spec.IdSet.sorted_invert
  intro x
  rw [WM.Spec.IdSet.mem_invert, WM.Spec.IdSet.mem_invert, WM.Spec.IdSet.mem_erase]
  constructor
  · rintro ⟨h1, h2⟩
    exact ⟨h1, fun hm => h2 ⟨hm, by omega⟩⟩
  · rintro ⟨h1, h2⟩
    exact ⟨h1, fun hm => h2 hm.1⟩

/-- `add(n)` with `n ≥ limit` only removes `n` from the wrapped set: iteration does not change. -/
theorem Rev.add_out_of_range (r : Rev) (h : r.inner.WF) (n : Nat) (hn : r.limit ≤ n) :
    ∃ r', r.add n = .ok r' ∧ r'.inner.WF ∧ r'.limit = r.limit ∧ r'.iter = r.iter ∧
      r'.inner.iter = WM.Spec.IdSet.erase n r.inner.iter := by
  rcases Inner.discard_spec r.inner h n with ⟨s', hs', hwf, hiter⟩
  refine ⟨{ r with inner := s' }, by simp [Rev.add, hs', Except.map], hwf, rfl, ?_, hiter⟩
  rw [Rev.iter_spec _ hwf, Rev.iter_spec r h]
  simp only
  rw [hiter]
  exact invert_erase_ge _ _ _ hn

/-- `DocIdSet.update` on a `ReverseIdSet` (ids below `limit`): union. -/
theorem Rev.update_items : ∀ (l : List Nat) (r : Rev), r.inner.WF → (∀ x ∈ l, x < r.limit) →
    ∃ r', foldE Rev.add r l = .ok r' ∧ r'.inner.WF ∧ r'.limit = r.limit ∧
      ∀ x, x ∈ r'.iter ↔ x ∈ r.iter ∨ x ∈ l
  | [], r, h, _ => ⟨r, rfl, h, rfl, by simp⟩
  | a :: t, r, h, hl => by
    rcases Rev.add_spec r h a (hl a (by simp)) with ⟨r1, h1, hwf1, hlim1, hit1⟩
    rcases Rev.update_items t r1 hwf1 (fun x hx => by rw [hlim1]; exact hl x (List.mem_cons_of_mem _ hx))
      with ⟨r2, h2, hwf2, hlim2, hit2⟩
    refine ⟨r2, by simp only [foldE, h1, h2], hwf2, by rw [hlim2, hlim1], ?_⟩
    intro x
    rw [hit2, hit1, WM.Spec.IdSet.mem_insert, List.mem_cons]
    constructor
    · rintro ((h | h) | h) <;> simp [h]
    · rintro (h | h | h) <;> simp [h]

/-- `DocIdSet.difference_update` on a `ReverseIdSet`: difference. -/
theorem Rev.differenceUpdate_items : ∀ (l : List Nat) (r : Rev), r.inner.WF →
    ∃ r', foldE Rev.discard r l = .ok r' ∧ r'.inner.WF ∧ r'.limit = r.limit ∧
      ∀ x, x ∈ r'.iter ↔ x ∈ r.iter ∧ x ∉ l
  | [], r, h => ⟨r, rfl, h, rfl, by simp⟩
  | a :: t, r, h => by
    rcases Rev.discard_spec r h a with ⟨r1, h1, hwf1, hlim1, hit1⟩
    rcases Rev.differenceUpdate_items t r1 hwf1 with ⟨r2, h2, hwf2, hlim2, hit2⟩
    refine ⟨r2, by simp only [foldE, h1, h2], hwf2, by rw [hlim2, hlim1], ?_⟩
    intro x
    rw [hit2, hit1, WM.Spec.IdSet.mem_erase, List.mem_cons]
    constructor
    · rintro ⟨⟨h3, h4⟩, h5⟩
      exact ⟨h3, fun hc => hc.elim h4 h5⟩
    · rintro ⟨h3, h4⟩
      exact ⟨⟨h3, fun hc => h4 (Or.inl hc)⟩, fun hc => h4 (Or.inr hc)⟩

end WM.IdSets
