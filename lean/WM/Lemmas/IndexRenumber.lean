import WM.Lemmas.IndexPost
/-! `add_reader`: the postings that reach the pool are those of the copied documents under their
new numbers (`docmap`). -/
namespace WM.Index
open WM.Dict

theorem flatMap_congr_mem {α β} (l : List α) (f g : α → List β) (h : ∀ a ∈ l, f a = g a) :
    l.flatMap f = l.flatMap g := by
  induction l with
  | nil => rfl
  | cons a r ih =>
    simp only [List.flatMap_cons]
    rw [h a (by simp), ih (fun x hx => h x (by simp [hx]))]

theorem flatMap_zipIdx_fst {α β} (l : List α) (k : Nat) (f : α → List β) :
    (l.zipIdx k).flatMap (fun p => f p.1) = l.flatMap f := by
  induction l generalizing k with
  | nil => rfl
  | cons a r ih => simp [List.zipIdx_cons, ih]

theorem flatMap_ite_filter {α β} (l : List α) (c : α → Bool) (f : α → List β) :
    l.flatMap (fun a => if c a then f a else []) = (l.filter c).flatMap f := by
  induction l with
  | nil => rfl
  | cons a r ih =>
    by_cases h : c a = true
    · simp [List.filter_cons, h, ih]
    · simp [List.filter_cons, h, ih]

theorem mapM_eq_map {α β} (l : List α) (f : α → Option β) (g : α → β) (h : ∀ a ∈ l, f a = some (g a)) :
    l.mapM f = some (l.map g) := by
  induction l with
  | nil => simp
  | cons a r ih =>
    rw [List.mapM_cons, h a (by simp), ih (fun x hx => h x (by simp [hx]))]
    rfl

theorem lookup_of_mem {β} (m : List (Nat × β)) (hk : (m.map (·.1)).Nodup) (k : Nat) (v : β) (h : (k, v) ∈ m) :
    m.lookup k = some v := by
  induction m with
  | nil => simp at h
  | cons x r ih =>
    obtain ⟨k', v'⟩ := x
    simp only [List.map_cons, List.nodup_cons] at hk
    rw [List.lookup_cons]
    simp only [List.mem_cons, Prod.mk.injEq] at h
    rcases h with ⟨rfl, rfl⟩ | h
    · simp
    · have hne : k ≠ k' := by
        intro he; subst he
        exact hk.1 (List.mem_map.mpr ⟨(k, v), h, rfl⟩)
      have : (k == k') = false := by simpa using hne
      rw [this]
      exact ih hk.2 h

/-- the keys of `docmap` are the live numbers, each once -/
theorem docmapOf_keys_nodup (s : Seg) (base : Nat) : ((docmapOf s base).map (·.1)).Nodup := by
  have : (docmapOf s base).map (·.1) = s.liveIdx.map (·.2) := by
    simp only [docmapOf, List.map_map, Function.comp_def]
    calc s.liveIdx.zipIdx.map (fun x => x.1.2)
        = (s.liveIdx.zipIdx.map (·.1)).map (·.2) := by rw [List.map_map]; rfl
      _ = s.liveIdx.map (·.2) := by rw [zipIdx_map_fst']
  rw [this]
  have h := liveIdx_pairwise s
  rw [List.nodup_iff_pairwise_ne, List.pairwise_map]
  exact h.imp (by intro a b hab; omega)

theorem docmapOf_lookup (s : Seg) (base : Nat) (q : DocRec × Nat) (j : Nat) (h : (q, j) ∈ s.liveIdx.zipIdx) :
    (docmapOf s base).lookup q.2 = some (base + j) := by
  apply lookup_of_mem _ (docmapOf_keys_nodup s base)
  simp only [docmapOf, List.mem_map]
  exact ⟨(q, j), h, rfl⟩

/-- where `_process_posts` sends old number `i` -/
def newnum (s : Seg) (base : Nat) (i : Nat) : Nat :=
  if s.hasDeletions then ((docmapOf s base).lookup i).getD 0 else base + i

theorem zipIdx_zipIdx_eq {α} (l : List α) (p : α × Nat) (j : Nat) (h : (p, j) ∈ (l.zipIdx).zipIdx) : p.2 = j := by
  have h1 := List.mem_zipIdx h
  simp only [Nat.zero_le, Nat.zero_add, Nat.sub_zero, true_and] at h1
  obtain ⟨hj, hp⟩ := h1
  rw [hp]
  simp

theorem hasDeletions_false (s : Seg) (h : s.hasDeletions = false) : s.deleted = [] := by
  simp only [Seg.hasDeletions, Seg.deletedCount] at h
  have h' : ¬ s.deleted.length > 0 := by simpa using h
  exact List.length_eq_zero_iff.mp (by omega)

theorem liveIdx_of_no_deletions (s : Seg) (h : s.deleted = []) : s.liveIdx = s.docs.zipIdx := by
  simp only [Seg.liveIdx, Seg.isDeleted, h]
  rw [List.filter_eq_self]; intro a _; simp

theorem newnum_eq (s : Seg) (base : Nat) (q : DocRec × Nat) (j : Nat) (h : (q, j) ∈ s.liveIdx.zipIdx) :
    newnum s base q.2 = base + j := by
  unfold newnum
  cases hd : s.hasDeletions with
  | true => simp [docmapOf_lookup s base q j h]
  | false =>
    simp only [Bool.false_eq_true, if_false]
    rw [liveIdx_of_no_deletions s (hasDeletions_false s hd)] at h
    rw [zipIdx_zipIdx_eq s.docs q j h]

theorem renumber_eq (s : Seg) (base : Nat) (p : Posting) (q : DocRec × Nat) (hq : q ∈ s.liveIdx) (hp : p.doc = q.2) :
    renumber s base p = some { p with doc := newnum s base p.doc } := by
  obtain ⟨j, hj⟩ : ∃ j, (q, j) ∈ s.liveIdx.zipIdx := by
    obtain ⟨j, hj1, hj2⟩ := List.getElem_of_mem hq
    exact ⟨j, (List.mk_mem_zipIdx_iff_getElem?).mpr (by simp [hj2, hj1])⟩
  unfold renumber newnum
  cases hd : s.hasDeletions with
  | true => simp [hp, docmapOf_lookup s base q j hj]
  | false => simp

theorem zipIdx_shift {α} (l : List α) (k : Nat) : l.zipIdx k = (l.zipIdx 0).map (fun p => (p.1, k + p.2)) := by
  induction l generalizing k with
  | nil => rfl
  | cons a r ih =>
    rw [List.zipIdx_cons, List.zipIdx_cons, ih (k + 1), ih (0 + 1)]
    simp only [List.map_cons, List.map_map, Nat.add_zero, List.cons.injEq, true_and]
    apply List.map_congr_left
    intro p _
    simp only [Function.comp_def, Prod.mk.injEq, true_and]
    omega

/-- The postings of the live, visible part of a segment, as `iter_postings` + schema filter see them. -/
theorem allPostings_filter_live (sc : Schema) (s : Seg) :
    (allPostings s.docs).filter (fun p => sc.has p.fld && !s.isDeleted p.doc)
      = s.liveIdx.flatMap (fun q => docPostings (restrict sc q.1) q.2) := by
  simp only [allPostings, List.filter_flatMap, Seg.liveIdx]
  rw [← flatMap_ite_filter]
  apply flatMap_congr_mem
  intro q _
  have hdoc := docPostings_doc q.1 q.2
  cases hd : s.isDeleted q.2 with
  | true =>
    simp only [Bool.not_true, Bool.false_eq_true, if_false]
    rw [List.filter_eq_nil_iff]
    intro p hp
    simp [hdoc p hp, hd]
  | false =>
    simp only [Bool.not_false, if_true]
    rw [docPostings_restrict]
    apply List.filter_congr
    intro p hp
    simp [hdoc p hp, hd]

/-- `add_reader`: every live posting is renumbered successfully, and the result is (a permutation
    of) the postings of the copied documents under their new numbers. -/
theorem livePosts_renumber (sc : Schema) (s : Seg) (base : Nat) (hperm : s.posts.Perm (allPostings s.docs)) :
    ∃ ps, (s.livePosts sc).mapM (renumber s base) = some ps ∧
      ps.Perm (allPostings (s.liveDocs.map (restrict sc)) base) := by
  let g : Posting → Posting := fun p => { p with doc := newnum s base p.doc }
  have hlive : (s.livePosts sc).Perm (s.liveIdx.flatMap (fun q => docPostings (restrict sc q.1) q.2)) := by
    rw [← allPostings_filter_live]
    exact hperm.filter _
  have hall : ∀ p ∈ s.livePosts sc, renumber s base p = some (g p) := by
    intro p hp
    have hp' := hlive.mem_iff.mp hp
    simp only [List.mem_flatMap] at hp'
    obtain ⟨q, hq, hpq⟩ := hp'
    exact renumber_eq s base p q hq (docPostings_doc _ _ p hpq)
  refine ⟨(s.livePosts sc).map g, mapM_eq_map _ _ g hall, ?_⟩
  refine (hlive.map g).trans ?_
  have : (s.liveIdx.flatMap (fun q => docPostings (restrict sc q.1) q.2)).map g
      = allPostings (s.liveDocs.map (restrict sc)) base := by
    rw [List.map_flatMap]
    have h1 : s.liveIdx.flatMap (fun q => (docPostings (restrict sc q.1) q.2).map g)
        = s.liveIdx.flatMap (fun q => docPostings (restrict sc q.1) (newnum s base q.2)) := by
      apply flatMap_congr_mem
      intro q _
      rw [← docPostings_renumber (restrict sc q.1) q.2 (newnum s base q.2)]
      apply List.map_congr_left
      intro p hp
      simp only [g, docPostings_doc _ _ p hp]
    rw [h1, ← flatMap_zipIdx_fst s.liveIdx 0]
    have h2 : s.liveIdx.zipIdx.flatMap (fun x => docPostings (restrict sc x.1.1) (newnum s base x.1.2))
        = s.liveIdx.zipIdx.flatMap (fun x => docPostings (restrict sc x.1.1) (base + x.2)) := by
      apply flatMap_congr_mem
      intro x hx
      rw [newnum_eq s base x.1 x.2 hx]
    rw [h2]
    simp only [allPostings, Seg.liveDocs, List.map_map]
    rw [List.zipIdx_map, zipIdx_shift s.liveIdx base, List.map_map, List.flatMap_map]
    rfl
  rw [this]

end WM.Index
