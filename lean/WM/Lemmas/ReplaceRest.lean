import WM.Lemmas.ReplaceUnion
import WM.Lemmas.ReplaceMulti
/-! `DisjunctionMaxMatcher.replace`, `AndNotMatcher.replace`, `AndMaybeMatcher.replace`, and the assembly. -/
namespace WM.Matcher

theorem not_true_false {b : Bool} (h : ¬ b = true) : b = false := by cases b <;> simp_all

section
variable {sa sb : Shape} {ra : St sa → Rat → Repl} {rb : St sb → Rat → Repl}

/-- tail of `DisjunctionMaxMatcher.replace` -/
theorem dismaxMain_spec (hra : ReplSpec sa ra) (hrb : ReplSpec sb rb) :
    ∀ m q, W0 Unit01 (.dismax sa sb) m → ∃ out, dismaxMain sa sb ra rb m q = .ok out ∧ ReplOK (.dismax sa sb) m q out := by
  intro m q h
  obtain ⟨wa, wb⟩ := h
  have ascA := (QT sa).cur0.asc _ wa
  have ascB := (QT sb).cur0.asc _ wb
  unfold dismaxMain
  by_cases haa : (ops sa).isActive m.a = true
  · by_cases hba : (ops sb).isActive m.b = true
    · simp only [haa, hba, Bool.or_self, Bool.not_true, Bool.false_eq_true, ↓reduceIte]
      obtain ⟨⟨ca, a'⟩, e1, oa⟩ := hra m.a q wa
      obtain ⟨⟨cb, b'⟩, e2, ob⟩ := hrb m.b q wb
      have ascA' := (QT a'.1).cur0.asc _ oa.w0
      have ascB' := (QT b'.1).cur0.asc _ ob.w0
      have E0 : q = 0 → unionWith max a'.den b'.den = unionWith max (den sa m.a) (den sb m.b) := by
        intro hq; rw [oa.eq0 hq, ob.eq0 hq]
      have K : Keeps q (unionWith max a'.den b'.den) (unionWith max (den sa m.a) (den sb m.b)) :=
        keeps_unionMax ascA ascA' ascB ascB' oa.keeps ob.keeps
      simp only [e1, e2, bind, Except.bind]
      by_cases ha' : a'.isActive = true
      · by_cases hb' : b'.isActive = true
        · simp only [ha', hb', Bool.or_self, Bool.not_true, Bool.false_eq_true, ↓reduceIte]
          by_cases hc : (ca || cb) = true
          · simp only [hc, ↓reduceIte]
            exact ⟨(true, mkDisMax a' b'), rfl, ⟨⟨oa.w0, ob.w0⟩, K, E0, fun hh => by cases hh⟩⟩
          · simp only [hc, Bool.false_eq_true, ↓reduceIte]
            exact ⟨_, rfl, ReplOK.self (.dismax sa sb) m q ⟨wa, wb⟩⟩
        · have hbf := not_true_false hb'
          have hbn := any_den_nil_of_inactive b' ob.w0 hbf
          simp only [ha', hbf, Bool.or_false, Bool.not_true, Bool.false_eq_true, ↓reduceIte, Bool.not_false]
          have hd : unionWith max a'.den b'.den = a'.den := by rw [hbn, unionWith_nil_right]
          exact ⟨(true, a'), rfl, ⟨oa.w0, hd ▸ K, fun hq => hd ▸ E0 hq, fun hh => by cases hh⟩⟩
      · have haf := not_true_false ha'
        have han := any_den_nil_of_inactive a' oa.w0 haf
        have hd : unionWith max a'.den b'.den = b'.den := by rw [han, unionWith_nil_left]
        by_cases hb' : b'.isActive = true
        · simp only [haf, hb', Bool.or_true, Bool.not_true, Bool.false_eq_true, ↓reduceIte, Bool.not_false]
          exact ⟨(true, b'), rfl, ⟨ob.w0, hd ▸ K, fun hq => hd ▸ E0 hq, fun hh => by cases hh⟩⟩
        · have hbf := not_true_false hb'
          have hbn := any_den_nil_of_inactive b' ob.w0 hbf
          simp only [haf, hbf, Bool.or_self, Bool.not_false, ↓reduceIte]
          have hnil : unionWith max a'.den b'.den = [] := by rw [hd, hbn]
          refine ⟨_, rfl, ReplOK.null (hnil ▸ K) ?_⟩
          intro hq
          show unionWith max (den sa m.a) (den sb m.b) = []
          rw [← E0 hq]; exact hnil
    · have hbf := not_true_false hba
      have hb0 : den sb m.b = [] := ((QT sb).cur0.inactive wb).1 hbf
      simp only [haa, hbf, Bool.or_false, Bool.not_true, Bool.false_eq_true, ↓reduceIte, Bool.not_false]
      obtain ⟨out, e1, oa⟩ := hra m.a q wa
      have hd : den sa m.a = den (.dismax sa sb) m := by
        show _ = unionWith max (den sa m.a) (den sb m.b); rw [hb0, unionWith_nil_right]
      exact ⟨(true, out.2), changed_ok e1, oa.transfer (Keeps.of_eq hd) (fun _ => hd)⟩
  · have haf := not_true_false haa
    have ha0 : den sa m.a = [] := ((QT sa).cur0.inactive wa).1 haf
    by_cases hba : (ops sb).isActive m.b = true
    · simp only [haf, hba, Bool.or_true, Bool.not_true, Bool.false_eq_true, ↓reduceIte, Bool.not_false]
      obtain ⟨out, e1, ob⟩ := hrb m.b q wb
      have hd : den sb m.b = den (.dismax sa sb) m := by
        show _ = unionWith max (den sa m.a) (den sb m.b); rw [ha0, unionWith_nil_left]
      exact ⟨(true, out.2), changed_ok e1, ob.transfer (Keeps.of_eq hd) (fun _ => hd)⟩
    · have hbf := not_true_false hba
      have hb0 : den sb m.b = [] := ((QT sb).cur0.inactive wb).1 hbf
      simp only [haf, hbf, Bool.or_self, Bool.not_false, ↓reduceIte]
      refine ⟨_, rfl, ReplOK.null_of_empty ?_⟩
      show unionWith max (den sa m.a) (den sb m.b) = []
      rw [ha0, hb0]; exact unionWith_nil_left _ _

/-- `DisjunctionMaxMatcher.replace` -/
theorem dismaxReplace_spec (hra : ReplSpec sa ra) (hrb : ReplSpec sb rb) :
    ∀ m q, W0 Unit01 (.dismax sa sb) m → ∃ out, dismaxReplace sa sb ra rb m q = .ok out ∧ ReplOK (.dismax sa sb) m q out := by
  intro m q h
  obtain ⟨wa, wb⟩ := h
  have ascA := (QT sa).cur0.asc _ wa
  have ascB := (QT sb).cur0.asc _ wb
  unfold dismaxReplace
  by_cases hc : (q != 0 && (ops sa).isActive m.a && (ops sb).isActive m.b) = true
  · simp only [hc, ↓reduceIte]
    simp only [Bool.and_eq_true, bne_iff_ne, ne_eq] at hc
    obtain ⟨⟨hq, haa⟩, hba⟩ := hc
    obtain ⟨amax, ha1, ha2⟩ := (QT sa).max m.a wa
    obtain ⟨bmax, hb1, hb2⟩ := (QT sb).max m.b wb
    simp only [ha1, hb1, bind, Except.bind]
    by_cases hboth : (decide (amax < q) && decide (bmax < q)) = true
    · simp only [hboth, ↓reduceIte]
      simp only [Bool.and_eq_true, decide_eq_true_eq] at hboth
      refine ⟨_, rfl, ReplOK.null (keeps_nil_of_lt (bounded_unionMax ascA ascB ha2 hb2) ?_) (fun hh => absurd hh hq)⟩
      have := hboth.1; have := hboth.2; grind
    · simp only [hboth, Bool.false_eq_true, ↓reduceIte]
      by_cases hlowb : bmax < q
      · simp only [hlowb, ↓reduceIte]
        obtain ⟨out, e1, oa⟩ := hra m.a q wa
        exact ⟨(true, out.2), changed_ok e1,
          oa.transfer (keeps_left_of_unionMax ascA ascB hb2 hlowb) (fun hh => absurd hh hq)⟩
      · simp only [hlowb, ↓reduceIte]
        by_cases hlowa : amax < q
        · simp only [hlowa, ↓reduceIte]
          obtain ⟨out, e1, ob⟩ := hrb m.b q wb
          exact ⟨(true, out.2), changed_ok e1,
            ob.transfer (keeps_right_of_unionMax ascA ascB ha2 hlowa) (fun hh => absurd hh hq)⟩
        · simp only [hlowa, ↓reduceIte]
          exact dismaxMain_spec hra hrb m q ⟨wa, wb⟩
  · simp only [hc, Bool.false_eq_true, ↓reduceIte]
    exact dismaxMain_spec hra hrb m q ⟨wa, wb⟩

/-- `AndNotMatcher.replace` -/
theorem andNotReplace_spec (hra : ReplSpec sa ra) (hrb : ReplSpec sb rb) :
    ∀ m q, W0 Unit01 (.andNot sa sb) m → ∃ out, andNotReplace sa sb ra rb m q = .ok out ∧ ReplOK (.andNot sa sb) m q out := by
  intro m q h
  obtain ⟨wa, wb, hal⟩ := h
  have ascA := (QT sa).cur0.asc _ wa
  have main : ∃ out, andNotMain sa sb ra rb m q = .ok out ∧ ReplOK (.andNot sa sb) m q out := by
    unfold andNotMain
    by_cases hba : (ops sb).isActive m.b = true
    · simp only [hba, Bool.not_true, Bool.false_eq_true, ↓reduceIte]
      obtain ⟨⟨ca, a'⟩, e1, oa⟩ := hra m.a q wa
      obtain ⟨⟨cb, b'⟩, e2, ob⟩ := hrb m.b 0 wb
      have hbeq : b'.den = den sb m.b := ob.eq0 rfl
      simp only [e1, e2, bind, Except.bind]
      by_cases hc : (ca || cb) = true
      · simp only [hc, ↓reduceIte]
        obtain ⟨i, g1, g2, g3, -⟩ := AndNot.init_spec (QT a'.1).cur0 (QT b'.1).cur0 a'.2 b'.2 oa.w0 ob.w0
        have hden : diff (den a'.1 i.a) (den b'.1 i.b) = diff a'.den (den sb m.b) := by
          rw [g3]; show diff a'.den b'.den = _; rw [hbeq]
        refine ⟨(true, ⟨.andNot a'.1 b'.1, i⟩), by simp [mkAndNot, g1, bind, Except.bind]; rfl,
          ⟨g2, ?_, ?_, fun hh => by cases hh⟩⟩
        · show Keeps q (diff (den a'.1 i.a) (den b'.1 i.b)) _
          rw [hden]
          exact keeps_diff_left ascA ((QT a'.1).cur0.asc _ oa.w0) oa.keeps
        · intro hq
          show diff (den a'.1 i.a) (den b'.1 i.b) = _
          rw [hden, oa.eq0 hq]; rfl
      · simp only [hc, Bool.false_eq_true, ↓reduceIte]
        exact ⟨_, rfl, ReplOK.self (.andNot sa sb) m q ⟨wa, wb, hal⟩⟩
    · have hbf := not_true_false hba
      have hb0 : den sb m.b = [] := ((QT sb).cur0.inactive wb).1 hbf
      simp only [hbf, Bool.not_false, ↓reduceIte]
      obtain ⟨out, e1, oa⟩ := hra m.a q wa
      have hd : den sa m.a = den (.andNot sa sb) m := by
        show _ = diff (den sa m.a) (den sb m.b); rw [hb0, diff_nil_right]
      exact ⟨(true, out.2), changed_ok e1, oa.transfer (Keeps.of_eq hd) (fun _ => hd)⟩
  unfold andNotReplace
  by_cases haa : (ops sa).isActive m.a = true
  · simp only [haa, Bool.not_true, Bool.false_eq_true, ↓reduceIte]
    by_cases hq : q = 0
    · subst hq
      simp only [bne_self_eq_false, Bool.false_eq_true, ↓reduceIte]
      exact main
    · have hne : (q != 0) = true := by simp [hq]
      obtain ⟨amax, ha1, ha2⟩ := (QT sa).max m.a wa
      simp only [hne, ↓reduceIte, ha1, bind, Except.bind]
      by_cases hlow : amax < q
      · simp only [hlow, ↓reduceIte]
        exact ⟨_, rfl, ReplOK.null (keeps_nil_of_lt (bounded_sublist (diff_subset _ _) ha2) hlow) (fun hh => absurd hh hq)⟩
      · simp only [hlow, ↓reduceIte]
        exact main
  · have haf := not_true_false haa
    have ha0 : den sa m.a = [] := ((QT sa).cur0.inactive wa).1 haf
    simp only [haf, Bool.not_false, ↓reduceIte]
    refine ⟨_, rfl, ReplOK.null_of_empty ?_⟩
    show diff (den sa m.a) (den sb m.b) = []
    rw [ha0]; rfl

/-- `AndMaybeMatcher.replace` -/
theorem andMaybeReplace_spec (hra : ReplSpec sa ra) (hrb : ReplSpec sb rb) :
    ∀ m q, W0 Unit01 (.andMaybe sa sb) m → ∃ out, andMaybeReplace sa sb ra rb m q = .ok out ∧ ReplOK (.andMaybe sa sb) m q out := by
  intro m q h
  obtain ⟨wa, wb, hal⟩ := h
  have ascA := (QT sa).cur0.asc _ wa
  have ascB := (QT sb).cur0.asc _ wb
  obtain ⟨amax, ha1, ha2⟩ := (QT sa).max m.a wa
  obtain ⟨bmax, hb1, hb2⟩ := (QT sb).max m.b wb
  have hbmax0 := (QT sb).maxNonneg _ _ wb hb1
  have main : ∃ out, andMaybeMain sa sb ra rb m q = .ok out ∧ ReplOK (.andMaybe sa sb) m q out := by
    unfold andMaybeMain
    obtain ⟨⟨ca, a'⟩, e1, oa⟩ := hra m.a (if q = 0 then 0 else q - bmax) wa
    obtain ⟨⟨cb, b'⟩, e2, ob⟩ := hrb m.b (if q = 0 then 0 else q - amax) wb
    have ascA' := (QT a'.1).cur0.asc _ oa.w0
    have ascB' := (QT b'.1).cur0.asc _ ob.w0
    have E0 : q = 0 → leftJoin a'.den b'.den = leftJoin (den sa m.a) (den sb m.b) := by
      intro hq
      rw [oa.eq0 (by simp [hq]), ob.eq0 (by simp [hq])]
    have K : Keeps q (leftJoin a'.den b'.den) (leftJoin (den sa m.a) (den sb m.b)) := by
      by_cases hq : q = 0
      · exact Keeps.of_eq (E0 hq)
      · have ka := oa.keeps
        have kb := ob.keeps
        simp only [hq, ↓reduceIte] at ka kb
        refine (keeps_leftJoin_right ascA' ascB ascB' ((QT sb).nn _ wb) kb ?_).trans
          (keeps_leftJoin_left ascA ascA' ka (fun e he => by have := hb2 e he; grind) (by grind))
        intro e he
        have := bounded_of_dominated ka.dom ha2 e he
        grind
    simp only [slack_ok hb1, e1, slack_ok ha1, e2, bind, Except.bind]
    by_cases hc : (ca || cb) = true
    · simp only [hc, ↓reduceIte]
      obtain ⟨i, g1, g2, g3, -⟩ := AndMaybe.init_spec (QT a'.1).cur0 (QT b'.1).cur0 a'.2 b'.2 oa.w0 ob.w0
      refine ⟨(true, ⟨.andMaybe a'.1 b'.1, i⟩), by simp [mkAndMaybe, g1, bind, Except.bind]; rfl,
        ⟨g2, ?_, ?_, fun hh => by cases hh⟩⟩
      · show Keeps q (leftJoin (den a'.1 i.a) (den b'.1 i.b)) _
        rw [g3]; exact K
      · intro hq
        show leftJoin (den a'.1 i.a) (den b'.1 i.b) = _
        rw [g3]; exact E0 hq
    · simp only [hc, Bool.false_eq_true, ↓reduceIte]
      exact ⟨_, rfl, ReplOK.self (.andMaybe sa sb) m q ⟨wa, wb, hal⟩⟩
  unfold andMaybeReplace
  by_cases haa : (ops sa).isActive m.a = true
  · simp only [haa, Bool.not_true, Bool.false_eq_true, ↓reduceIte]
    by_cases hba : (ops sb).isActive m.b = true
    · by_cases hq : q = 0
      · subst hq
        simp only [bne_self_eq_false, Bool.false_and, Bool.false_eq_true, ↓reduceIte, hba, Bool.not_true]
        exact main
      · have hne : (q != 0) = true := by simp [hq]
        simp only [hne, hba, Bool.and_self, ↓reduceIte, ha1, hb1, bind, Except.bind]
        by_cases hlow : amax + bmax < q
        · simp only [hlow, ↓reduceIte]
          exact ⟨_, rfl, ReplOK.null (keeps_nil_of_lt (bounded_leftJoin ha2 hb2 hbmax0) hlow) (fun hh => absurd hh hq)⟩
        · simp only [hlow, ↓reduceIte]
          by_cases hlowa : amax < q
          · simp only [hlowa, ↓reduceIte]
            obtain ⟨i, g1, g2, g3, -⟩ := Inter.init_spec (· + ·) (QT sa).cur0 (QT sb).cur0 m.a m.b wa wb
            refine ⟨(true, ⟨.inter sa sb, i⟩), by simp [mkInter, g1, bind, Except.bind]; rfl,
              ⟨g2, ?_, fun hh => absurd hh hq, fun hh => by cases hh⟩⟩
            show Keeps q (interWith (· + ·) (den sa i.a) (den sb i.b)) _
            rw [g3]
            exact keeps_inter_of_leftJoin ascA ha2 hlowa
          · simp only [hlowa, ↓reduceIte]
            exact main
    · have hbf := not_true_false hba
      have hb0 : den sb m.b = [] := ((QT sb).cur0.inactive wb).1 hbf
      simp only [hbf, Bool.and_false, Bool.false_eq_true, ↓reduceIte, Bool.not_false]
      obtain ⟨out, e1, oa⟩ := hra m.a q wa
      have hd : den sa m.a = den (.andMaybe sa sb) m := by
        show _ = leftJoin (den sa m.a) (den sb m.b); rw [hb0, leftJoin_nil_right]
      exact ⟨(true, out.2), changed_ok e1, oa.transfer (Keeps.of_eq hd) (fun _ => hd)⟩
  · have haf := not_true_false haa
    have ha0 : den sa m.a = [] := ((QT sa).cur0.inactive wa).1 haf
    simp only [haf, Bool.not_false, ↓reduceIte]
    refine ⟨_, rfl, ReplOK.null_of_empty ?_⟩
    show leftJoin (den sa m.a) (den sb m.b) = []
    rw [ha0]; rfl

end

/-- `replace` of every matcher tree meets its contract -/
theorem replace_spec : ∀ s : Shape, ReplSpec s (replace s)
  | .null => replace_null_spec
  | .list => replace_list_spec
  | .leaf => replace_leaf_spec
  | .union a b => unionReplace_spec (replace_spec a) (replace_spec b)
  | .dismax a b => dismaxReplace_spec (replace_spec a) (replace_spec b)
  | .inter a b => interReplace_spec (replace_spec a) (replace_spec b)
  | .andNot a b => andNotReplace_spec (replace_spec a) (replace_spec b)
  | .andMaybe a b => andMaybeReplace_spec (replace_spec a) (replace_spec b)
  | .require a b => requireReplace_spec (replace_spec a) (replace_spec b)
  | .boost c => replace_boost_spec c (replace_spec c)
  | .filter c => replace_filter_spec c (replace_spec c)
  | .inverse c => replace_inverse_spec c (replace_spec c)
  | .const c => replace_const_spec c (replace_spec c)
  | .multi c => replace_multi_spec c
  | .aunion c => fun m q h => ⟨(false, ⟨.aunion c, m⟩), rfl, ReplOK.self (.aunion c) m q h⟩

end WM.Matcher
