import WM.Model.FSCodec
import WM.Lemmas.FSNames
import WM.Lemmas.FSBasic
import WM.Lemmas.FSRun
/-! The codec's file names vs the patterns `clean_files` works with; survival of names no event
touches. -/
namespace WM.FS

theorem takeWhile_segid (sid rest : List Char) (hd : ∀ x ∈ sid, isSegIdChar x = true) :
    (sid ++ '.' :: rest).takeWhile isSegIdChar = sid ∧
    (sid ++ '.' :: rest).dropWhile isSegIdChar = '.' :: rest := by
  induction sid with
  | nil =>
    have : isSegIdChar '.' = false := by decide
    simp [this]
  | cons d ds ih =>
    have hd' := hd d (by simp)
    have := ih (fun x hx => hd x (by simp [hx]))
    simp [hd', this]

/-- the segment pattern recognises `<segment id>.<anything>` and returns the segment id -/
theorem segOf_segmentId_dot (ix segid rest : Name) (hg : goodSegid segid = true) :
    segOf ix (segmentId ix segid ++ '.' :: rest) = some (segmentId ix segid) := by
  simp only [goodSegid, Bool.and_eq_true, Bool.not_eq_true', List.all_eq_true] at hg
  obtain ⟨hne, hall⟩ := hg
  unfold segOf segmentId
  have : ix ++ '_' :: segid ++ '.' :: rest = (ix ++ ['_']) ++ (segid ++ '.' :: rest) := by simp
  rw [this, stripPrefix_append]
  obtain ⟨h1, h2⟩ := takeWhile_segid segid rest hall
  simp only [h1, h2]
  cases segid with
  | nil => simp at hne
  | cons c cs => rfl

theorem mem_segFiles_form (sid : Name) (sh : SegShape) (f : Name) (hf : f ∈ segFiles sid sh) :
    ∃ rest, f = sid ++ '.' :: rest := by
  unfold segFiles at hf
  split at hf
  · simp only [List.mem_singleton] at hf
    exact ⟨['s', 'e', 'g'], by rw [hf]; rfl⟩
  · unfold looseFiles at hf
    simp only [List.mem_append, List.mem_cons, List.mem_map, List.not_mem_nil, or_false] at hf
    rcases hf with ((h | h) | ⟨c, _, h⟩) | h
    · exact ⟨['t', 'r', 'm'], by rw [h]; rfl⟩
    · exact ⟨['p', 's', 't'], by rw [h]; rfl⟩
    · exact ⟨c ++ extCol, by rw [← h]; rfl⟩
    · split at h
      · simp only [List.mem_singleton] at h
        exact ⟨['v', 'p', 's'], by rw [h]; rfl⟩
      · cases h

/-- an index name that starts with a character other than `_` and `.` (assumption of the
    `clean_files` statements: `"MAIN"` by default) -/
def GoodIx (ix : Name) : Prop := ∃ c cs, ix = c :: cs ∧ c ≠ '_' ∧ c ≠ '.'

theorem tocGen_of_goodIx {ix : Name} (h : GoodIx ix) (rest : Name) : tocGen ix (ix ++ rest) = none := by
  obtain ⟨c, cs, rfl, hc, _⟩ := h
  unfold tocGen
  have : stripPrefix ('_' :: (c :: cs ++ ['_'])) (c :: cs ++ rest) = none := by
    simp only [List.cons_append, stripPrefix]
    rw [if_neg (fun h => hc h.symm)]
  rw [this]

theorem segOf_underscore {ix : Name} (h : GoodIx ix) (rest : Name) : segOf ix ('_' :: rest) = none := by
  obtain ⟨c, cs, rfl, hc, _⟩ := h
  unfold segOf
  have : stripPrefix (c :: cs ++ ['_']) ('_' :: rest) = none := by
    simp only [List.cons_append, stripPrefix]
    rw [if_neg hc]
  rw [this]

theorem startsWithDot_of_goodIx {ix : Name} (h : GoodIx ix) (rest : Name) :
    startsWithDot (ix ++ rest) = false := by
  obtain ⟨c, cs, rfl, _, hc⟩ := h
  simp only [List.cons_append]
  unfold startsWithDot
  split
  · next heq => cases heq; exact absurd rfl hc
  · rfl

/-! ### names no event touches stay listed -/

def touchesName (n : Name) : Event → Bool
  | .delete m => m == n
  | .rename a _ => a == n
  | _ => false

theorem step_keeps_bound (fs : FS) (e : Event) (n : Name) (ht : touchesName n e = false)
    (hb : n ∈ fs.listing) : n ∈ (step fs e).listing := by
  rw [mem_listing] at hb ⊢
  obtain ⟨h1, h2⟩ := hb
  cases e with
  | create m =>
    simp only [step]
    cases hm : fs.dir m with
    | some i => exact ⟨h1, by simpa [setData] using h2⟩
    | none =>
      simp only
      refine ⟨List.mem_cons_of_mem _ h1, ?_⟩
      by_cases hnm : n = m
      · simp [hnm]
      · simpa [hnm] using h2
  | write m k => simpa [step, modData_dir, modData_names] using And.intro h1 h2
  | setToc m t => simpa [step, modData_dir, modData_names] using And.intro h1 h2
  | close m => simpa [step, modData_dir, modData_names] using And.intro h1 h2
  | other => exact ⟨h1, h2⟩
  | delete m =>
    simp only [touchesName, beq_eq_false_iff_ne, ne_eq] at ht
    simp only [step]
    refine ⟨h1, ?_⟩
    rw [if_neg (fun h => ht h.symm)]
    exact h2
  | rename a b =>
    simp only [touchesName, beq_eq_false_iff_ne, ne_eq] at ht
    simp only [step]
    cases ha : fs.dir a with
    | none => exact ⟨h1, h2⟩
    | some i =>
      simp only
      refine ⟨List.mem_cons_of_mem _ h1, ?_⟩
      by_cases hnb : n = b
      · simp [hnb]
      · rw [if_neg hnb, if_neg (fun h => ht h.symm)]
        exact h2

theorem run_keeps_bound (fs : FS) (tr : List Event) (n : Name)
    (ht : ∀ e ∈ tr, touchesName n e = false) (hb : n ∈ fs.listing) : n ∈ (run fs tr).listing := by
  induction tr generalizing fs with
  | nil => exact hb
  | cons e es ih =>
    rw [run_cons]
    exact ih (step fs e) (fun x hx => ht x (by simp [hx])) (step_keeps_bound fs e n (ht e (by simp)) hb)

end WM.FS
