import WM.Lemmas.ReplaceInter
/-! `UnionMatcher.replace` and `DisjunctionMaxMatcher.replace`. -/
namespace WM.Matcher

theorem bool_or_false {a b : Bool} (h : ¬ (a || b) = true) : a = false ∧ b = false := by
  cases a <;> cases b <;> simp_all

theorem any_max (r : Any) (h : W0 Unit01 r.1 r.2) : ∃ v, r.maxQuality = .ok v ∧ BoundedBy v r.den ∧ 0 ≤ v := by
  obtain ⟨v, h1, h2⟩ := (QT r.1).max r.2 h
  exact ⟨v, h1, h2, (QT r.1).maxNonneg _ _ h h1⟩

section
variable {sa sb : Shape} {ra : St sa → Rat → Repl} {rb : St sb → Rat → Repl}

/-- tail of `UnionMatcher.replace` -/
theorem unionMain_spec (hra : ReplSpec sa ra) (hrb : ReplSpec sb rb) :
    ∀ m q, W0 Unit01 (.union sa sb) m → ∃ out, unionMain sa sb ra rb m q = .ok out ∧ ReplOK (.union sa sb) m q out := by
  intro m q h
  obtain ⟨wa, wb⟩ := h
  have ascA := (QT sa).cur0.asc _ wa
  have ascB := (QT sb).cur0.asc _ wb
  unfold unionMain
  by_cases haa : (ops sa).isActive m.a = true
  · by_cases hba : (ops sb).isActive m.b = true
    · simp only [haa, hba, Bool.or_self, Bool.not_true, Bool.false_eq_true, ↓reduceIte]
      obtain ⟨bmax, hb1, hb2⟩ := (QT sb).max m.b wb
      have hbmax0 := (QT sb).maxNonneg _ _ wb hb1
      obtain ⟨⟨ca, a'⟩, e1, oa⟩ := hra m.a (if q = 0 then 0 else q - bmax) wa
      obtain ⟨amax, ha1, ha2, hamax0⟩ := any_max a' oa.w0
      obtain ⟨⟨cb, b'⟩, e2, ob⟩ := hrb m.b (if q = 0 then 0 else q - amax) wb
      have ascA' := (QT a'.1).cur0.asc _ oa.w0
      have ascB' := (QT b'.1).cur0.asc _ ob.w0
      have E0 : q = 0 → unionWith (· + ·) a'.den b'.den = unionWith (· + ·) (den sa m.a) (den sb m.b) := by
        intro hq
        rw [oa.eq0 (by simp [hq]), ob.eq0 (by simp [hq])]
      have K : Keeps q (unionWith (· + ·) a'.den b'.den) (unionWith (· + ·) (den sa m.a) (den sb m.b)) := by
        by_cases hq : q = 0
        · exact Keeps.of_eq (E0 hq)
        · have ka := oa.keeps
          have kb := ob.keeps
          simp only [hq, ↓reduceIte] at ka kb
          exact keeps_unionAdd ascA ascA' ascB ascB' ((QT sa).nn _ wa) ((QT sb).nn _ wb) ka kb
            (fun e he => by have := hb2 e he; grind) (fun e he => by have := ha2 e he; grind) (by grind) (by grind)
      simp only [slack_ok hb1, e1, slack_ok ha1, e2, bind, Except.bind]
      by_cases hc : (ca || cb) = true
      · simp only [hc, ↓reduceIte]
        exact ⟨(true, mkUnion a' b'), rfl, ⟨⟨oa.w0, ob.w0⟩, K, E0, fun hh => by cases hh⟩⟩
      · simp only [hc, Bool.false_eq_true, ↓reduceIte]
        exact ⟨_, rfl, ReplOK.self (.union sa sb) m q ⟨wa, wb⟩⟩
    · -- b inactive: the replacement of a
      have hb0 : den sb m.b = [] := ((QT sb).cur0.inactive wb).1 (by cases hx : (ops sb).isActive m.b with | false => rfl | true => exact absurd hx hba)
      have hbf : (ops sb).isActive m.b = false := ((QT sb).cur0.inactive wb).2 hb0
      simp only [haa, hbf, Bool.or_false, Bool.not_true, Bool.false_eq_true, ↓reduceIte, Bool.not_false]
      obtain ⟨out, e1, oa⟩ := hra m.a q wa
      have hd : den sa m.a = den (.union sa sb) m := by
        show _ = unionWith (· + ·) (den sa m.a) (den sb m.b); rw [hb0, unionWith_nil_right]
      exact ⟨(true, out.2), changed_ok e1, oa.transfer (Keeps.of_eq hd) (fun _ => hd)⟩
  · have ha0 : den sa m.a = [] := ((QT sa).cur0.inactive wa).1 (by cases hx : (ops sa).isActive m.a with | false => rfl | true => exact absurd hx haa)
    have haf : (ops sa).isActive m.a = false := ((QT sa).cur0.inactive wa).2 ha0
    by_cases hba : (ops sb).isActive m.b = true
    · simp only [haf, hba, Bool.or_true, Bool.not_true, Bool.false_eq_true, ↓reduceIte, Bool.not_false]
      obtain ⟨out, e1, ob⟩ := hrb m.b q wb
      have hd : den sb m.b = den (.union sa sb) m := by
        show _ = unionWith (· + ·) (den sa m.a) (den sb m.b); rw [ha0, unionWith_nil_left]
      exact ⟨(true, out.2), changed_ok e1, ob.transfer (Keeps.of_eq hd) (fun _ => hd)⟩
    · have hb0 : den sb m.b = [] := ((QT sb).cur0.inactive wb).1 (by cases hx : (ops sb).isActive m.b with | false => rfl | true => exact absurd hx hba)
      have hbf : (ops sb).isActive m.b = false := ((QT sb).cur0.inactive wb).2 hb0
      simp only [haf, hbf, Bool.or_self, Bool.not_false, ↓reduceIte]
      refine ⟨_, rfl, ReplOK.null_of_empty ?_⟩
      show unionWith (· + ·) (den sa m.a) (den sb m.b) = []
      rw [ha0, hb0]; exact unionWith_nil_left _ _

/-- `UnionMatcher.replace` -/
theorem unionReplace_spec (hra : ReplSpec sa ra) (hrb : ReplSpec sb rb) :
    ∀ m q, W0 Unit01 (.union sa sb) m → ∃ out, unionReplace sa sb ra rb m q = .ok out ∧ ReplOK (.union sa sb) m q out := by
  intro m q h
  obtain ⟨wa, wb⟩ := h
  have ascA := (QT sa).cur0.asc _ wa
  have ascB := (QT sb).cur0.asc _ wb
  unfold unionReplace
  by_cases hc : (q != 0 && (ops sa).isActive m.a && (ops sb).isActive m.b) = true
  · simp only [hc, ↓reduceIte]
    simp only [Bool.and_eq_true, bne_iff_ne, ne_eq] at hc
    obtain ⟨⟨hq, haa⟩, hba⟩ := hc
    obtain ⟨amax, ha1, ha2⟩ := (QT sa).max m.a wa
    obtain ⟨bmax, hb1, hb2⟩ := (QT sb).max m.b wb
    simp only [ha1, hb1, bind, Except.bind]
    by_cases hboth : (decide (amax < q) && decide (bmax < q)) = true
    · simp only [hboth, ↓reduceIte]
      simp only [Bool.and_eq_true, decide_eq_true_eq] at hboth
      obtain ⟨i, g1, g2, g3, -⟩ := Inter.init_spec (· + ·) (QT sa).cur0 (QT sb).cur0 m.a m.b wa wb
      obtain ⟨out, e1, oi⟩ := interReplace_spec hra hrb i q g2
      simp only [g1]
      refine ⟨(true, out.2), changed_ok e1, oi.transfer ?_ (fun hh => absurd hh hq)⟩
      show Keeps q (interWith (· + ·) (den sa i.a) (den sb i.b)) _
      rw [g3]
      exact keeps_inter_of_union ascA ascB ha2 hb2 hboth.1 hboth.2
    · simp only [hboth, Bool.false_eq_true, ↓reduceIte]
      by_cases hlowa : amax < q
      · simp only [hlowa, ↓reduceIte]
        obtain ⟨i, g1, g2, g3, -⟩ := AndMaybe.init_spec (QT sb).cur0 (QT sa).cur0 m.b m.a wb wa
        refine ⟨(true, ⟨.andMaybe sb sa, i⟩), by simp [mkAndMaybe, g1, bind, Except.bind]; rfl,
          ⟨g2, ?_, fun hh => absurd hh hq, fun hh => by cases hh⟩⟩
        show Keeps q (leftJoin (den sb i.a) (den sa i.b)) _
        rw [g3]
        exact keeps_leftJoin_of_union' ascA ascB ha2 hlowa
      · simp only [hlowa, ↓reduceIte]
        by_cases hlowb : bmax < q
        · simp only [hlowb, ↓reduceIte]
          obtain ⟨i, g1, g2, g3, -⟩ := AndMaybe.init_spec (QT sa).cur0 (QT sb).cur0 m.a m.b wa wb
          refine ⟨(true, ⟨.andMaybe sa sb, i⟩), by simp [mkAndMaybe, g1, bind, Except.bind]; rfl,
            ⟨g2, ?_, fun hh => absurd hh hq, fun hh => by cases hh⟩⟩
          show Keeps q (leftJoin (den sa i.a) (den sb i.b)) _
          rw [g3]
          exact keeps_leftJoin_of_union ascA ascB hb2 hlowb
        · simp only [hlowb, ↓reduceIte]
          exact unionMain_spec hra hrb m q ⟨wa, wb⟩
  · simp only [hc, Bool.false_eq_true, ↓reduceIte]
    exact unionMain_spec hra hrb m q ⟨wa, wb⟩

end
end WM.Matcher
