import WM.Lemmas.IndexSim
/-! `add_reader`, merge policies and `commit`: what reaches the TOC. -/
namespace WM.Index
open WM.Dict

theorem zipIdx_map_fst' {α} (l : List α) (k : Nat) : (l.zipIdx k).map (·.1) = l := by
  induction l generalizing k with
  | nil => rfl
  | cons a r ih => simp [List.zipIdx_cons, ih]

theorem Seg.liveDocs_of_no_deletions (s : Seg) (h : s.deleted = []) : s.liveDocs = s.docs := by
  simp only [Seg.liveDocs, Seg.liveIdx, Seg.isDeleted, h]
  have : s.docs.zipIdx.filter (fun p => !([] : List Nat).contains p.2) = s.docs.zipIdx := by
    rw [List.filter_eq_self]; intro a _; simp
  rw [this, zipIdx_map_fst']

theorem contentOf_append (sc : Schema) (a b : List Seg) : contentOf sc (a ++ b) = contentOf sc a ++ contentOf sc b := by
  simp [contentOf, List.flatMap_append]

theorem contentOf_perm (sc : Schema) {a b : List Seg} (h : a.Perm b) : (contentOf sc a).Perm (contentOf sc b) :=
  List.Perm.flatMap_right _ h

theorem contentOf_restrict (sc : Schema) (segs : List Seg) :
    (contentOf sc segs).map (restrict sc) = contentOf sc segs := by
  simp only [contentOf, List.map_flatMap, List.map_map]
  congr 1
  funext s
  apply List.map_congr_left
  intro d _
  exact restrict_idem sc d

/-! ### add_reader -/

theorem Writer.addReader_fields (w : Writer) (s : Seg) (w' : Writer) (h : w.addReader s = .ok w') :
    w'.schema = w.schema ∧ w'.segs = w.segs ∧ w'.gen = w.gen ∧ w'.added = true ∧
    w'.ndocs = w.ndocs ++ s.liveDocs.map (restrict w.schema) ∧
    ∃ ps, (s.livePosts w.schema).mapM (renumber s w.ndocs.length) = some ps ∧ w'.pool = w.pool ++ ps := by
  unfold Writer.addReader at h
  simp only at h
  cases hps : (s.livePosts w.schema).mapM (renumber s w.ndocs.length) with
  | none => rw [hps] at h; cases h
  | some ps =>
    rw [hps] at h
    simp only [Except.ok.injEq] at h
    subst h
    exact ⟨rfl, rfl, rfl, rfl, rfl, ps, rfl, rfl⟩

theorem Writer.addReaders_fields (w : Writer) (ss : List Seg) (w' : Writer) (h : w.addReaders ss = .ok w') :
    w'.schema = w.schema ∧ w'.segs = w.segs ∧ w'.gen = w.gen ∧ w'.added = (w.added || !ss.isEmpty) ∧
    w'.ndocs = w.ndocs ++ contentOf w.schema ss := by
  induction ss generalizing w with
  | nil =>
    simp only [Writer.addReaders, List.foldlM_nil, pure, Except.pure, Except.ok.injEq] at h
    subst h; simp [contentOf]
  | cons s r ih =>
    simp only [Writer.addReaders, List.foldlM_cons, bind, Except.bind] at h
    cases h1 : w.addReader s with
    | error e => rw [h1] at h; cases h
    | ok w1 =>
      rw [h1] at h
      obtain ⟨a1, a2, a3, a4, a5, _⟩ := Writer.addReader_fields w s w1 h1
      obtain ⟨b1, b2, b3, b4, b5⟩ := ih w1 h
      refine ⟨b1.trans a1, b2.trans a2, b3.trans a3, ?_, ?_⟩
      · rw [b4, a4]; simp
      · rw [b5, a5, a1]; simp [contentOf, List.flatMap_cons]

/-! ### commit -/

theorem Writer.commitPlan_content (w : Writer) (plan : Plan) (t' : Toc) (h : w.commitPlan plan = .ok t')
    (hfits : ∀ d ∈ w.ndocs, d.fits w.schema = true) (hna : w.added = false → w.ndocs = []) :
    t'.schema = w.schema ∧ t'.gen = w.gen ∧
    t'.content = contentOf w.schema (plan w.segs).2 ++ (w.ndocs ++ contentOf w.schema (plan w.segs).1) := by
  unfold Writer.commitPlan at h
  cases h1 : w.addReaders (plan w.segs).1 with
  | error e => simp [h1, Except.map] at h
  | ok w1 =>
    simp only [h1, Except.map, Except.ok.injEq] at h
    obtain ⟨b1, b2, b3, b4, b5⟩ := Writer.addReaders_fields w _ w1 h1
    subst h
    refine ⟨b1, b3, ?_⟩
    simp only [Toc.content]
    by_cases ha : w1.added = true
    · simp only [ha, if_true, contentOf_append, b1]
      congr 1
      simp only [contentOf, List.flatMap_cons, List.flatMap_nil, List.append_nil]
      rw [Seg.liveDocs_of_no_deletions _ rfl]
      simp only [Writer.finalizeSegment, b5, List.map_append]
      congr 1
      · conv => rhs; rw [← List.map_id w.ndocs]
        apply List.map_congr_left
        intro d hd; exact restrict_of_fits _ _ (hfits d hd)
      · exact contentOf_restrict _ _
    · have ha' : w1.added = false := by simpa using ha
      rw [b4] at ha'
      simp only [Bool.or_eq_false_iff, Bool.not_eq_false', List.isEmpty_iff] at ha'
      have hnd := hna ha'.1
      simp [ha, b1, hnd, ha'.2, contentOf]

/-- A merge policy that only re-arranges: what it merges plus what it leaves is the old list. -/
def PlanOK (plan : Plan) : Prop := ∀ segs, ((plan segs).1 ++ (plan segs).2).Perm segs

theorem planNoMerge_ok : PlanOK planNoMerge := by intro segs; simp [planNoMerge]
theorem planOptimize_ok : PlanOK planOptimize := by intro segs; simp [planOptimize]

theorem mergeSmallLoop_perm (l : List Seg) (i total : Nat) (found : Bool) (tm un : List Seg) :
    ((mergeSmallLoop l i total found tm un).1 ++ (mergeSmallLoop l i total found tm un).2.1).Perm (tm ++ un ++ l) := by
  induction l generalizing i total found tm un with
  | nil => simp [mergeSmallLoop]
  | cons s r ih =>
    have hmid : ∀ (a b c : List Seg), (a ++ [s] ++ b ++ c).Perm (a ++ b ++ s :: c) := by
      intro a b c
      simp only [List.append_assoc, List.singleton_append]
      refine List.Perm.append_left _ ?_
      exact List.perm_middle.symm
    have hend : ∀ (a b c : List Seg), (a ++ (b ++ [s]) ++ c).Perm (a ++ b ++ s :: c) := by
      intro a b c
      simp only [List.append_assoc, List.singleton_append]
      exact List.Perm.refl _
    simp only [mergeSmallLoop]
    split <;> (try split) <;> (try split) <;> first
      | exact (ih _ _ _ _ _).trans (hmid _ _ _)
      | exact (ih _ _ _ _ _).trans (hend _ _ _)

theorem planMergeSmall_ok : PlanOK planMergeSmall := by
  intro segs
  simp only [planMergeSmall]
  split
  · have := mergeSmallLoop_perm (segs.mergeSort fun a b => decide (a.docCountAll ≤ b.docCountAll)) 0 0 false [] []
    simp only [List.nil_append] at this
    exact this.trans (List.mergeSort_perm _ _)
  · simp

theorem MergeKind.plan_ok (k : MergeKind) (h : k ≠ .clear) : PlanOK k.plan := by
  cases k with
  | noMerge => exact planNoMerge_ok
  | mergeSmall => exact planMergeSmall_ok
  | optimize => exact planOptimize_ok
  | clear => exact absurd rfl h

end WM.Index
