import WM.Lemmas.NormalizeLeaf
/-! `CompoundQuery.normalize`, step by step. -/
namespace WM.Normalize
open WM.Sat

/-- Meaning of a compound over a clause list. -/
def den (env : Env) (k : CK) (l : List Q) (d : Doc) : Bool :=
  match k with
  | .and => !l.isEmpty && satAll env l d
  | _ => satAny env l d

theorem sat_comp (env : Env) (k : CK) (l : List Q) (b : Rat) (d : Doc) :
    sat env (.comp k l b) d = den env k l d := by
  cases k <;> simp [sat, den]

theorem satAll_append (env : Env) (l1 l2 : List Q) (d : Doc) :
    satAll env (l1 ++ l2) d = (satAll env l1 d && satAll env l2 d) := by
  simp [satAll_eq_all]

theorem satAny_append (env : Env) (l1 l2 : List Q) (d : Doc) :
    satAny env (l1 ++ l2) d = (satAny env l1 d || satAny env l2 d) := by
  simp [satAny_eq_any]

theorem satAll_map_withBoost (env : Env) (l : List Q) (f : Q → Rat) (d : Doc) :
    satAll env (l.map fun x => x.withBoost (f x)) d = satAll env l d := by
  simp [satAll_eq_all, List.all_map, Function.comp_def, withBoost_sat]

theorem satAny_map_withBoost (env : Env) (l : List Q) (f : Q → Rat) (d : Doc) :
    satAny env (l.map fun x => x.withBoost (f x)) d = satAny env l d := by
  simp [satAny_eq_any, List.any_map, Function.comp_def, withBoost_sat]

/-! ### Shape of normalized trees -/

/-- `TermRange.normalize` leaves the range as it is. -/
def Rng.proper (r : Rng) : Bool :=
  !((r.lo == none || r.lo == some []) && (r.hi == none || r.hi == some maxText)) && !(r.lo == r.hi) && r.cs

theorem Rng.normalize_of_proper {r : Rng} (h : r.proper = true) : r.normalize = r.toQ := by
  simp only [Rng.proper, Bool.and_eq_true, Bool.not_eq_true'] at h
  obtain ⟨⟨h1, h2⟩, h3⟩ := h
  unfold Rng.normalize Rng.toQ
  simp only [h1, h2, h3, Bool.false_eq_true, ↓reduceIte]

mutual
/-- What every result of `normalize` looks like, as far as the proofs need it: a compound has at
    least two clauses and every `TermRange` clause is a fixed point of `TermRange.normalize`. -/
def NF : Q → Bool
  | .comp _ l _ => decide (2 ≤ l.length) && NFList l
  | .range f lo hi lx hx b c => (Rng.mk f lo hi lx hx b c).proper
  | _ => true
def NFList : List Q → Bool
  | [] => true
  | q :: qs => NF q && NFList qs
end

theorem NFList_iff (l : List Q) : NFList l = true ↔ ∀ q ∈ l, NF q = true := by
  induction l with
  | nil => simp [NFList]
  | cons q qs ih => simp [NFList, ih]

theorem NF_withBoost : ∀ (q : Q) (b : Rat), NF q = true → NF (q.withBoost b) = true
  | .null, _, _ => rfl
  | .every _ _, _, _ => rfl
  | .term _ _ _, _, _ => rfl
  | .pre _ _ _ _, _, _ => rfl
  | .wild _ _ _ _, _, _ => rfl
  | .multi _ _ _ _ _, _, _ => rfl
  | .range _ _ _ _ _ _ _, _, h => by simpa [Q.withBoost, NF, Rng.proper] using h
  | .phrase _ _ _ _, _, _ => rfl
  | .comp _ _ _, _, h => by simpa [Q.withBoost, NF] using h
  | .seq _ _ _ _ _, _, _ => rfl
  | .not _ _, _, _ => rfl
  | .bin k _ _, _, _ => by cases k <;> rfl
  | .const _ _, _, _ => rfl
  | .opq _ _, _, _ => rfl

theorem NF_rngNormalize (r : Rng) : NF r.normalize = true := by
  unfold Rng.normalize
  split
  · rfl
  · rename_i h1
    split
    · split
      · rfl
      · split <;> rfl
    · rename_i h2
      simp only [NF, Rng.proper, Bool.and_true, Bool.and_eq_true, Bool.not_eq_true']
      exact ⟨Bool.eq_false_iff.mpr h1, Bool.eq_false_iff.mpr h2⟩

/-! ### flatten -/

theorem flatten_isEmpty (k : CK) (l : List Q) (hn : NFList l = true) :
    (flatten k l).isEmpty = l.isEmpty := by
  cases l with
  | nil => simp [flatten]
  | cons s rest =>
    have hs : NF s = true := by simp [NFList] at hn; exact hn.1
    cases s <;> simp [flatten]
    rename_i k' ss b
    split
    · simp only [NF, Bool.and_eq_true, decide_eq_true_eq] at hs
      cases ss with
      | nil => simp at hs
      | cons x xs => simp
    · simp

theorem flatten_satAll (env : Env) (l : List Q) (d : Doc) (hn : NFList l = true) :
    satAll env (flatten .and l) d = satAll env l d := by
  induction l with
  | nil => simp [flatten]
  | cons s rest ih =>
    simp only [NFList, Bool.and_eq_true] at hn
    have ih := ih hn.2
    cases s <;> simp only [flatten, satAll, ih]
    rename_i k' ss b
    split
    · rename_i hk
      subst hk
      have hs := hn.1
      simp only [NF, Bool.and_eq_true, decide_eq_true_eq] at hs
      have hne : ss.isEmpty = false := by cases ss <;> simp_all
      simp [satAll_append, satAll_map_withBoost, ih, sat, hne]
    · simp [satAll, ih]

theorem flatten_satAny (env : Env) (k : CK) (hk : k ≠ .and) (l : List Q) (d : Doc) :
    satAny env (flatten k l) d = satAny env l d := by
  induction l with
  | nil => simp [flatten]
  | cons s rest ih =>
    cases s <;> simp only [flatten, satAny, ih]
    rename_i k' ss b
    split
    · rename_i hk'
      subst hk'
      cases k' <;> simp_all [satAny_append, satAny_map_withBoost, sat]
    · simp [satAny, ih]

theorem flatten_NF (k : CK) (l : List Q) (hn : NFList l = true) : NFList (flatten k l) = true := by
  induction l with
  | nil => simp [flatten, NFList]
  | cons s rest ih =>
    simp only [NFList, Bool.and_eq_true] at hn
    have ih := ih hn.2
    cases s <;> simp only [flatten, NFList, Bool.and_eq_true, ih, and_true] <;> try exact hn.1
    rename_i k' ss b
    split
    · have hs := hn.1
      simp only [NF, Bool.and_eq_true, decide_eq_true_eq] at hs
      rw [NFList_iff] at *
      intro q hq
      rcases List.mem_append.mp hq with hq | hq
      · obtain ⟨x, hx, rfl⟩ := List.mem_map.mp hq
        exact NF_withBoost x _ (hs.2 x hx)
      · exact ih q hq
    · simp only [NFList, Bool.and_eq_true, ih, and_true]; exact hn.1


/-! ### The range-absorbing inner loop -/

theorem asRange_some {s : Q} {r : Rng} (h : s.asRange = some r) : s = r.toQ := by
  cases s <;> simp [Q.asRange] at h
  subst h
  rfl

theorem asRange_toQ (r : Rng) : r.toQ.asRange = some r := rfl

theorem popOverlap_some {q : Rng} {l : List Q} {r : Rng} {l' : List Q}
    (h : popOverlap q l = some (r, l')) :
    q.overlaps r = true ∧ (∀ x ∈ l', x ∈ l) ∧
      (∀ env d, satAny env l d = (sat env r.toQ d || satAny env l' d)) ∧
      (∃ s ∈ l, s.asRange = some r) := by
  induction l generalizing r l' with
  | nil => simp [popOverlap] at h
  | cons s rest ih =>
    unfold popOverlap at h
    split at h
    · rename_i r0 hr0
      split at h
      · rename_i hov
        simp only [Option.some.injEq, Prod.mk.injEq] at h
        obtain ⟨rfl, rfl⟩ := h
        refine ⟨hov, fun x hx => List.mem_cons_of_mem _ hx, fun env d => ?_, s, List.mem_cons_self .., hr0⟩
        simp [satAny, asRange_some hr0]
      · cases hp : popOverlap q rest with
        | none => simp [hp] at h
        | some p =>
          obtain ⟨r', rest'⟩ := p
          simp only [hp, Option.map_some, Option.some.injEq, Prod.mk.injEq] at h
          obtain ⟨rfl, rfl⟩ := h
          obtain ⟨h1, h2, h3, s0, hs0, hsr0⟩ := ih hp
          refine ⟨h1, ?_, fun env d => ?_, s0, List.mem_cons_of_mem _ hs0, hsr0⟩
          · intro x hx
            rcases List.mem_cons.mp hx with rfl | hx
            · exact List.mem_cons_self ..
            · exact List.mem_cons_of_mem _ (h2 x hx)
          · simp only [satAny, h3 env d]
            exact Bool.or_left_comm ..
    · cases hp : popOverlap q rest with
      | none => simp [hp] at h
      | some p =>
        obtain ⟨r', rest'⟩ := p
        simp only [hp, Option.map_some, Option.some.injEq, Prod.mk.injEq] at h
        obtain ⟨rfl, rfl⟩ := h
        obtain ⟨h1, h2, h3, s0, hs0, hsr0⟩ := ih hp
        refine ⟨h1, ?_, fun env d => ?_, s0, List.mem_cons_of_mem _ hs0, hsr0⟩
        · intro x hx
          rcases List.mem_cons.mp hx with rfl | hx
          · exact List.mem_cons_self ..
          · exact List.mem_cons_of_mem _ (h2 x hx)
        · simp only [satAny, h3 env d]
          exact Bool.or_left_comm ..

theorem popOverlap_none_of {q : Rng} {l : List Q}
    (h : ∀ s ∈ l, ∀ r, s.asRange = some r → q.overlaps r = false) : popOverlap q l = none := by
  induction l with
  | nil => rfl
  | cons s rest ih =>
    have ih := ih (fun s hs => h s (List.mem_cons_of_mem _ hs))
    unfold popOverlap
    split
    · rename_i r hr
      have := h s (List.mem_cons_self ..) r hr
      simp [this, ih]
    · simp [ih]

theorem absorb_of_none {i : Bool} {q : Rng} {rest : List Q} (h : popOverlap q rest = none) :
    absorb i q rest = (q, rest) := by
  rw [absorb]
  split
  · rfl
  · rename_i r rest' h'
    rw [h] at h'
    simp at h'

/-- The empty term is harmless for every `TermRange` clause of the list. -/
def LOk (d : Doc) (l : List Q) : Prop := ∀ s ∈ l, ∀ r, s.asRange = some r → ROk d r

theorem LOk.of_noEmpty {d : Doc} (h : d.NoEmpty) (l : List Q) : LOk d l := fun _ _ _ _ => Or.inr h

theorem LOk.tail {d : Doc} {s : Q} {l : List Q} (h : LOk d (s :: l)) : LOk d l :=
  fun x hx r hr => h x (List.mem_cons_of_mem _ hx) r hr

theorem LOk.sub {d : Doc} {l l' : List Q} (h : LOk d l) (hs : ∀ x ∈ l', x ∈ l) : LOk d l' :=
  fun x hx r hr => h x (hs x hx) r hr

/-- Meaning of a range clause (empty term harmless): some term of the field lies in the interval. -/
theorem sat_range (env : Env) (r : Rng) (d : Doc) (he : ROk d r) :
    sat env r.toQ d = (d.toks r.f).any fun x => decide (r.mem x) := by
  rw [sat_range_ROk env r d he]
  congr 1
  funext x
  rw [Bool.eq_iff_iff, inRange_iff]
  exact decide_eq_true_iff.symm

theorem any_or_split {α} (l : List α) (p q : α → Bool) :
    l.any (fun x => p x || q x) = (l.any p || l.any q) := by
  induction l with
  | nil => rfl
  | cons x xs ih =>
    simp only [List.any_cons, ih]
    cases p x <;> cases q x <;> simp

theorem Rng.merge_f (a b : Rng) (i : Bool) : (a.merge b i).f = a.f := rfl

/-- The start of a merged range is the start of one of the two: an exclusive open start does not
    appear out of nothing. -/
theorem Rng.merge_openExcl (a b : Rng) (i : Bool) (ha : a.openExcl = false) (hb : b.openExcl = false) :
    (a.merge b i).openExcl = false := by
  have key : ∀ (lo : Option Text) (lx : Bool), (lx && (lo == none || lo == some [])) = false →
      (((cmpStart lo lx).adj == 1) && ((cmpStart lo lx).b.toOpt == none || (cmpStart lo lx).b.toOpt == some []))
        = false := by
    intro lo lx h
    cases lo with
    | none => simp [cmpStart]
    | some t => cases lx <;> simp_all [cmpStart, Bnd.toOpt]
  have ka := key a.lo a.lox ha
  have kb := key b.lo b.lox hb
  unfold Rng.openExcl Rng.merge
  simp only
  split
  · exact kb
  · split
    · exact ka
    · split
      · simp only [Cmp.max]; split <;> assumption
      · simp only [Cmp.min]; split <;> assumption

theorem ROk.merge {d : Doc} {a b : Rng} (i : Bool) (ha : ROk d a) (hb : ROk d b) : ROk d (a.merge b i) := by
  rcases ha with ha | ha
  · rcases hb with hb | hb
    · exact Or.inl (Rng.merge_openExcl a b i ha hb)
    · exact Or.inr hb
  · exact Or.inr ha

theorem sat_merge_union (env : Env) (a b : Rng) (d : Doc) (h : a.overlaps b = true)
    (ha : ROk d a) (hb : ROk d b) :
    sat env (a.merge b false).toQ d = (sat env a.toQ d || sat env b.toQ d) := by
  have hf := Rng.overlaps_field h
  rw [sat_range env _ d (ROk.merge false ha hb), sat_range env a d ha, sat_range env b d hb, Rng.merge_f, ← hf,
    ← any_or_split]
  congr 1
  funext x
  rw [Bool.eq_iff_iff]
  have := Rng.merge_union a b h x
  simp only [decide_eq_true_eq, Bool.or_eq_true]
  exact this

theorem absorb_satAny (env : Env) (d : Doc) (q : Rng) (rest : List Q) (hq : ROk d q) (hl : LOk d rest) :
    satAny env ((absorb false q rest).1.toQ :: (absorb false q rest).2) d
      = satAny env (q.toQ :: rest) d ∧ ROk d (absorb false q rest).1 := by
  fun_induction absorb false q rest with
  | case1 q rest h => exact ⟨rfl, hq⟩
  | case2 q rest r rest' h ih =>
    obtain ⟨hov, hmem, hsat, s, hs, hsr⟩ := popOverlap_some h
    have hr : ROk d r := hl s hs r hsr
    obtain ⟨ih1, ih2⟩ := ih (ROk.merge false hq hr) (hl.sub hmem)
    refine ⟨?_, ih2⟩
    rw [ih1]
    simp only [satAny, hsat env d, sat_merge_union env q r d hov hq hr, Bool.or_assoc]

theorem absorb_mem (i : Bool) (q : Rng) (rest : List Q) :
    ∀ x ∈ (absorb i q rest).2, x ∈ rest := by
  fun_induction absorb i q rest with
  | case1 q rest h => exact fun x hx => hx
  | case2 q rest r rest' h ih =>
    obtain ⟨_, hmem, _⟩ := popOverlap_some h
    exact fun x hx => hmem x (ih x hx)

theorem absorb_f (i : Bool) (q : Rng) (rest : List Q) : (absorb i q rest).1.f = q.f := by
  fun_induction absorb i q rest with
  | case1 q rest h => rfl
  | case2 q rest r rest' h ih => rw [ih]; rfl

end WM.Normalize
