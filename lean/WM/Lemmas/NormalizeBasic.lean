import WM.Model.Normalize
import WM.Spec.Sat
/-! Helper lemmas for C15: equality of query trees, list forms of the mutual definitions,
    `with_boost`, `field`. -/
namespace WM.Normalize
open WM.Sat

/-! ### `Q.beq` is equality -/

mutual
theorem Q.eq_of_beq : ∀ (a b : Q), Q.beq a b = true → a = b
  | .null, b, h => by cases b <;> simp_all [Q.beq]
  | .every _ _, b, h => by cases b <;> simp_all [Q.beq]
  | .term _ _ _, b, h => by cases b <;> simp_all [Q.beq]
  | .pre _ _ _ _, b, h => by cases b <;> simp_all [Q.beq]
  | .wild _ _ _ _, b, h => by cases b <;> simp_all [Q.beq]
  | .multi _ _ _ _ _, b, h => by cases b <;> simp_all [Q.beq]
  | .range _ _ _ _ _ _ _, b, h => by cases b <;> simp_all [Q.beq]
  | .phrase _ _ _ _, b, h => by cases b <;> simp_all [Q.beq]
  | .comp k qs bo, b, h => by
    cases b <;> simp [Q.beq] at h
    rename_i k' qs' b'
    obtain ⟨⟨h1, h2⟩, h3⟩ := h
    have := Q.eqList_of_beqList qs qs' h2
    simp_all
  | .seq c qs s o bo, b, h => by
    cases b <;> simp [Q.beq] at h
    rename_i c' qs' s' o' b'
    obtain ⟨⟨⟨⟨h1, h2⟩, h3⟩, h4⟩, h5⟩ := h
    have := Q.eqList_of_beqList qs qs' h2
    simp_all
  | .not q bo, b, h => by
    cases b <;> simp [Q.beq] at h
    rename_i q' b'
    have := Q.eq_of_beq q q' h.1
    simp_all
  | .bin k x y, b, h => by
    cases b <;> simp [Q.beq] at h
    rename_i k' x' y'
    have := Q.eq_of_beq x x' h.1.2
    have := Q.eq_of_beq y y' h.2
    simp_all
  | .const q s, b, h => by
    cases b <;> simp [Q.beq] at h
    rename_i q' s'
    have := Q.eq_of_beq q q' h.1
    simp_all
  | .opq _ _, b, h => by cases b <;> simp_all [Q.beq]
theorem Q.eqList_of_beqList : ∀ (as bs : List Q), Q.beqList as bs = true → as = bs
  | [], [], _ => rfl
  | a :: as, b :: bs, h => by
    simp only [Q.beqList, Bool.and_eq_true] at h
    rw [Q.eq_of_beq a b h.1, Q.eqList_of_beqList as bs h.2]
  | [], _ :: _, h => by simp [Q.beqList] at h
  | _ :: _, [], h => by simp [Q.beqList] at h
end

mutual
theorem Q.beq_refl : ∀ (a : Q), Q.beq a a = true
  | .null => by simp [Q.beq]
  | .every _ _ => by simp [Q.beq]
  | .term _ _ _ => by simp [Q.beq]
  | .pre _ _ _ _ => by simp [Q.beq]
  | .wild _ _ _ _ => by simp [Q.beq]
  | .multi _ _ _ _ _ => by simp [Q.beq]
  | .range _ _ _ _ _ _ _ => by simp [Q.beq]
  | .phrase _ _ _ _ => by simp [Q.beq]
  | .comp _ qs _ => by simp [Q.beq, Q.beqList_refl qs]
  | .seq _ qs _ _ _ => by simp [Q.beq, Q.beqList_refl qs]
  | .not q _ => by simp [Q.beq, Q.beq_refl q]
  | .bin _ x y => by simp [Q.beq, Q.beq_refl x, Q.beq_refl y]
  | .const q _ => by simp [Q.beq, Q.beq_refl q]
  | .opq _ _ => by simp [Q.beq]
theorem Q.beqList_refl : ∀ (as : List Q), Q.beqList as as = true
  | [] => rfl
  | a :: as => by simp [Q.beqList, Q.beq_refl a, Q.beqList_refl as]
end

instance : LawfulBEq Q where
  eq_of_beq h := Q.eq_of_beq _ _ h
  rfl := Q.beq_refl _

instance : DecidableEq Q := fun a b =>
  if h : a == b then isTrue (eq_of_beq h) else isFalse (fun e => h (e ▸ beq_self_eq_true a))


/-! ### List forms of the mutual definitions -/

theorem normalizeList_eq_map (qs : List Q) : normalizeList qs = qs.map normalize := by
  induction qs with
  | nil => simp [normalizeList]
  | cons q qs ih => simp [normalizeList, ih]

theorem satAll_eq_all (env : Env) (qs : List Q) (d : Doc) :
    satAll env qs d = qs.all fun q => sat env q d := by
  induction qs with
  | nil => simp [satAll]
  | cons q qs ih => simp [satAll, ih]

theorem satAny_eq_any (env : Env) (qs : List Q) (d : Doc) :
    satAny env qs d = qs.any fun q => sat env q d := by
  induction qs with
  | nil => simp [satAny]
  | cons q qs ih => simp [satAny, ih]

theorem fieldAll_eq_all (f : Option Field) (qs : List Q) :
    Q.fieldAll f qs = qs.all fun q => q.field == f := by
  induction qs with
  | nil => simp [Q.fieldAll]
  | cons q qs ih => simp [Q.fieldAll, ih]

theorem replaceList_eq_map (fld : Field) (old new : Text) (qs : List Q) :
    replaceList fld old new qs = qs.map (replace fld old new) := by
  induction qs with
  | nil => simp [replaceList]
  | cons q qs ih => simp [replaceList, ih]

theorem acceptIdList_eq_map (qs : List Q) : acceptIdList qs = qs.map acceptId := by
  induction qs with
  | nil => simp [acceptIdList]
  | cons q qs ih => simp [acceptIdList, ih]

/-! ### `with_boost` changes nothing but boosts -/

theorem withBoost_isNull (q : Q) (b : Rat) : (q.withBoost b).isNull = q.isNull := by
  cases q <;> try rfl
  rename_i k x y
  cases k <;> rfl

theorem withBoost_isEvery (q : Q) (b : Rat) : (q.withBoost b).isEvery = q.isEvery := by
  cases q <;> try rfl
  rename_i k x y
  cases k <;> rfl

theorem withBoost_isEveryAll (q : Q) (b : Rat) : (q.withBoost b).isEveryAll = q.isEveryAll := by
  cases q <;> try rfl
  · rename_i f bo; cases f <;> rfl
  · rename_i k x y
    cases k <;> rfl

theorem withBoost_field : ∀ (q : Q) (b : Rat), (q.withBoost b).field = q.field
  | .null, _ => rfl
  | .every _ _, _ => rfl
  | .term _ _ _, _ => rfl
  | .pre _ _ _ _, _ => rfl
  | .wild _ _ _ _, _ => rfl
  | .multi _ _ _ _ _, _ => rfl
  | .range _ _ _ _ _ _ _, _ => rfl
  | .phrase _ _ _ _, _ => rfl
  | .comp _ _ _, _ => rfl
  | .seq _ _ _ _ _, _ => rfl
  | .not _ _, _ => rfl
  | .bin .andnot x y, b => by simp [Q.withBoost, Q.field, withBoost_field x b]
  | .bin .require x y, b => by simp [Q.withBoost, Q.field, withBoost_field x b]
  | .bin .andmaybe x y, b => by simp [Q.withBoost, Q.field, withBoost_field x b, withBoost_field y b]
  | .bin .otherwise x y, b => by simp [Q.withBoost, Q.field, withBoost_field x b, withBoost_field y b]
  | .const q _, b => by simp [Q.withBoost, Q.field, withBoost_field q b]
  | .opq _ _, _ => rfl

/-- `with_boost` never changes which documents match. -/
theorem withBoost_sat (env : Env) : ∀ (q : Q) (b : Rat), sat env (q.withBoost b) = sat env q
  | .null, _ => rfl
  | .every f _, _ => by cases f <;> (funext d; simp [Q.withBoost, sat])
  | .term _ _ _, _ => by funext d; simp [Q.withBoost, sat]
  | .pre _ _ _ _, _ => by funext d; simp [Q.withBoost, sat]
  | .wild _ _ _ _, _ => by funext d; simp [Q.withBoost, sat]
  | .multi _ _ _ _ _, _ => by funext d; simp [Q.withBoost, sat]
  | .range _ _ _ _ _ _ _, _ => by funext d; simp [Q.withBoost, sat]
  | .phrase _ _ _ _, _ => by funext d; simp [Q.withBoost, sat]
  | .comp k _ _, _ => by cases k <;> (funext d; simp [Q.withBoost, sat])
  | .seq _ _ _ _ _, _ => by funext d; simp [Q.withBoost, sat]
  | .not _ _, _ => by funext d; simp [Q.withBoost, sat]
  | .bin .andnot x y, b => by funext d; simp [Q.withBoost, sat, withBoost_sat env x b]
  | .bin .require x y, b => by funext d; simp [Q.withBoost, sat, withBoost_sat env x b]
  | .bin .andmaybe x y, b => by funext d; simp [Q.withBoost, sat, withBoost_sat env x b]
  | .bin .otherwise x y, b => by
    funext d; simp [Q.withBoost, sat, withBoost_sat env x b, withBoost_sat env y b]
  | .const q _, b => by funext d; simp [Q.withBoost, sat, withBoost_sat env q b]
  | .opq _ _, _ => rfl


/-! ### A query with a field only matches documents that have a term in that field -/

theorem hasField_of_any {d : Doc} {f : Field} {p : Text → Bool} (h : (d.toks f).any p = true) :
    hasField d f = true := by
  unfold hasField
  cases hd : d.toks f with
  | nil => simp [hd] at h
  | cons x xs => simp

theorem hasField_of_contains {d : Doc} {f : Field} {t : Text} (h : (d.toks f).contains t = true) :
    hasField d f = true := by
  unfold hasField
  cases hd : d.toks f with
  | nil => simp [hd] at h
  | cons x xs => simp

theorem phraseMatch_nonempty {toks : List Text} {slop : Nat} {ws : List Text}
    (h : phraseMatch toks slop ws = true) : toks ≠ [] := by
  intro e
  subst e
  cases ws <;> simp [phraseMatch] at h

theorem fieldList_some {qs : List Q} {f : Field} (h : Q.fieldList qs = some f) :
    ∀ q ∈ qs, q.field = some f := by
  cases qs with
  | nil => simp [Q.fieldList] at h
  | cons q qs =>
    simp only [Q.fieldList] at h
    split at h
    · rename_i hall
      rw [fieldAll_eq_all] at hall
      intro x hx
      rcases List.mem_cons.mp hx with rfl | hx
      · exact h
      · have := List.all_eq_true.mp hall x hx
        rw [← h]
        exact beq_iff_eq.mp this
    · simp at h

mutual
theorem field_sound (env : Env) : ∀ (q : Q) (f : Field) (d : Doc),
    q.field = some f → sat env q d = true → hasField d f = true
  | .null, _, _, hf, _ => by simp [Q.field] at hf
  | .every none _, _, _, hf, _ => by simp [Q.field] at hf
  | .every (some g) _, f, d, hf, hs => by
    simp only [Q.field, Option.some.injEq] at hf; subst hf; simpa [sat] using hs
  | .term g t _, f, d, hf, hs => by
    simp only [Q.field, Option.some.injEq] at hf; subst hf
    exact hasField_of_contains (by simpa [sat] using hs)
  | .pre g t _ _, f, d, hf, hs => by
    simp only [Q.field, Option.some.injEq] at hf; subst hf
    simp only [sat] at hs
    split at hs
    · exact hs
    · exact hasField_of_any hs
  | .wild g t _ _, f, d, hf, hs => by
    simp only [Q.field, Option.some.injEq] at hf; subst hf
    simp only [sat] at hs
    split at hs
    · exact hs
    · exact hasField_of_any hs
  | .multi _ g _ _ _, f, d, hf, hs => by
    simp only [Q.field, Option.some.injEq] at hf; subst hf
    exact hasField_of_any (by simpa only [sat] using hs)
  | .range g _ _ _ _ _ _, f, d, hf, hs => by
    simp only [Q.field, Option.some.injEq] at hf; subst hf
    exact hasField_of_any (by simpa only [sat] using hs)
  | .phrase g ws slop _, f, d, hf, hs => by
    simp only [Q.field, Option.some.injEq] at hf; subst hf
    simp only [sat] at hs
    have := phraseMatch_nonempty hs
    unfold hasField
    cases hd : d.toks g with
    | nil => exact absurd hd this
    | cons x xs => simp
  | .comp .and qs _, f, d, hf, hs => by
    simp only [Q.field] at hf
    simp only [sat, Bool.and_eq_true, Bool.not_eq_true', List.isEmpty_eq_false_iff] at hs
    exact field_sound_all env qs f d (fieldList_some hf) hs.1 hs.2
  | .comp .or qs _, f, d, hf, hs => by
    simp only [Q.field] at hf
    simp only [sat] at hs
    exact field_sound_any env qs f d (fieldList_some hf) hs
  | .comp .dismax qs _, f, d, hf, hs => by
    simp only [Q.field] at hf
    simp only [sat] at hs
    exact field_sound_any env qs f d (fieldList_some hf) hs
  | .seq _ qs _ _ _, f, d, hf, hs => by
    simp only [Q.field] at hf
    simp only [sat, Bool.and_eq_true, Bool.not_eq_true', List.isEmpty_eq_false_iff] at hs
    exact field_sound_all env qs f d (fieldList_some hf) hs.1.1 hs.1.2
  | .not _ _, _, _, hf, _ => by simp [Q.field] at hf
  | .bin k a b, f, d, hf, hs => by
    simp only [Q.field] at hf
    split at hf
    · rename_i hab
      have hb : b.field = some f := by rw [beq_iff_eq.mp hab]; exact hf
      cases k
      · simp only [sat, Bool.and_eq_true] at hs
        exact field_sound env a f d hf hs.1
      · simp only [sat] at hs
        exact field_sound env a f d hf hs
      · simp only [sat, Bool.and_eq_true] at hs
        exact field_sound env a f d hf hs.1
      · simp only [sat] at hs
        split at hs
        · exact field_sound env a f d hf hs
        · exact field_sound env b f d hb hs
    · simp at hf
  | .const q _, f, d, hf, hs => by
    simp only [Q.field] at hf
    simp only [sat] at hs
    exact field_sound env q f d hf hs
  | .opq none _, _, _, hf, _ => by simp [Q.field] at hf
  | .opq (some g) _, f, d, hf, hs => by
    simp only [Q.field, Option.some.injEq] at hf; subst hf
    simp only [sat, Bool.and_eq_true] at hs
    exact hs.1
theorem field_sound_all (env : Env) : ∀ (qs : List Q) (f : Field) (d : Doc),
    (∀ q ∈ qs, q.field = some f) → qs ≠ [] → satAll env qs d = true → hasField d f = true
  | [], _, _, _, hne, _ => absurd rfl hne
  | q :: qs, f, d, hf, _, hs => by
    simp only [satAll, Bool.and_eq_true] at hs
    exact field_sound env q f d (hf q (List.mem_cons_self ..)) hs.1
theorem field_sound_any (env : Env) : ∀ (qs : List Q) (f : Field) (d : Doc),
    (∀ q ∈ qs, q.field = some f) → satAny env qs d = true → hasField d f = true
  | [], _, _, _, hs => by simp [satAny] at hs
  | q :: qs, f, d, hf, hs => by
    simp only [satAny, Bool.or_eq_true] at hs
    rcases hs with hs | hs
    · exact field_sound env q f d (hf q (List.mem_cons_self ..)) hs
    · exact field_sound_any env qs f d (fun x hx => hf x (List.mem_cons_of_mem _ hx)) hs
end

end WM.Normalize
