import WM.Lemmas.CodecTerm
import WM.Lemmas.CodecAggSpec
/-! Reading inlined postings back through `ListMatcher`, and `W3TermInfo.to_bytes/from_bytes`. -/
namespace WM.Codec

variable {ι μ : Type}

/-- Values admissible for the *inlined* path: as `ValuesOk`, and a value-less format (fixed size 0)
    really has empty values (which every shipped format of size 0 has). -/
def InlineValuesOk (fixedsize : Option Nat) (ps : List (Posting ι)) : Prop :=
  match fixedsize with
  | some 0 => ∀ p ∈ ps, p.value = []
  | other => ValuesOk other ps

theorem inlinedReadFrom_all (ws : List Rat) (vs : List Bytes) (ids : List ι) (trip : List (ι × Rat × Bytes))
    (i : Nat) (hlen : trip.length = ids.length)
    (hid : ∀ k, k < ids.length → ∃ x w v, ids[k]? = some x ∧ trip[k]? = some (x, w, v) ∧
      inlinedWeight ws (i + k) = .ok w ∧ inlinedValue vs (i + k) = .ok v) :
    inlinedReadFrom ws vs i ids = .ok trip := by
  induction ids generalizing trip i with
  | nil =>
    have : trip = [] := List.eq_nil_of_length_eq_zero (by simpa using hlen)
    subst this; rfl
  | cons x rest ih =>
    cases trip with
    | nil => simp at hlen
    | cons t trest =>
      obtain ⟨x', w, v, h1, h2, h3, h4⟩ := hid 0 (by simp)
      simp only [List.getElem?_cons_zero, Option.some.injEq] at h1 h2
      subst h1; subst h2
      have ihr := ih trest (i + 1) (by simpa using hlen) (fun k hk => by
        obtain ⟨a, b, c, g1, g2, g3, g4⟩ := hid (k + 1) (by simp; omega)
        refine ⟨a, b, c, by simpa using g1, by simpa using g2, ?_, ?_⟩
        · rw [show i + 1 + k = i + (k + 1) by omega]; exact g3
        · rw [show i + 1 + k = i + (k + 1) by omega]; exact g4)
      simp only [Nat.add_zero] at h3 h4
      simp only [inlinedReadFrom, h3, h4, ihr]

/-- **Inlined read path.**  What `ListMatcher` shows for the tuple `finish_postings` inlined is
    the posting list: ids, stored weights, values (`b''` for a value-less format). -/
theorem inlinedRead_spec (c : Cfg ι μ) (ps : List (Posting ι)) (hne : ps ≠ [])
    (hv : InlineValuesOk c.fixedsize ps) :
    inlinedRead (ps.map (·.id)) (ps.map fun p => c.f32 p.weight) (storedValues ps)
      = .ok (ps.map fun p => (p.id, c.f32 p.weight, p.value)) := by
  unfold inlinedRead
  apply inlinedReadFrom_all
  · simp
  · intro k hk
    simp only [List.length_map] at hk
    refine ⟨ps[k].id, c.f32 ps[k].weight, ps[k].value, by simp [hk], by simp [hk], ?_, ?_⟩
    · have : (ps.map fun p => c.f32 p.weight).isEmpty = false := by
        cases ps with
        | nil => exact absurd rfl hne
        | cons a l => rfl
      simp [inlinedWeight, this, hk]
    · simp only [Nat.zero_add]
      -- either every value is kept, or every value is empty
      by_cases h0 : c.fixedsize = some 0
      · simp only [InlineValuesOk, h0] at hv
        have hsv : storedValues ps = [] := by
          unfold storedValues
          rw [List.filter_eq_nil_iff]
          intro v hvm
          simp only [List.mem_map] at hvm
          obtain ⟨p, hp, rfl⟩ := hvm
          simp [hv p hp]
        simp [inlinedValue, hsv, hv ps[k] (List.getElem_mem hk)]
      · have hall : ∀ p ∈ ps, p.value ≠ [] := by
          cases hfs : c.fixedsize with
          | none => rw [hfs] at hv; exact hv
          | some n =>
            cases n with
            | zero => exact absurd hfs h0
            | succ m =>
              rw [hfs] at hv
              intro p hp e
              have := hv p hp
              rw [e] at this; simp at this
        rw [storedValues_eq ps hall]
        have : (ps.map (·.value)).isEmpty = false := by
          cases ps with
          | nil => exact absurd rfl hne
          | cons a l => rfl
        simp [inlinedValue, this, hk]

/-- `byte_to_length` is defined on every byte `length_to_byte` produces. -/
theorem byteToLength_lengthToByte (l : Option Nat) : ∃ n, byteToLength (lengthToByte l) = some n := by
  have hle : lengthToByte l ≤ 255 := by
    cases l with
    | none => simp [lengthToByte]
    | some x => exact lengthToByte_le_255 x
  have hlen : lengthByteCache.length = 256 := by decide +kernel
  unfold byteToLength
  exact ⟨_, List.getElem?_eq_getElem (by omega)⟩

end WM.Codec
