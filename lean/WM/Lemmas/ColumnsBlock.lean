import WM.Model.ColumnsBlock
/-! `CompressedBlockColumn`: the blocks the writer emits are ordered and disjoint; on such a block
table the linear scan of `_find_block` finds exactly the block whose document range contains the
document. -/
namespace WM.Columns

/-- Every block spans `first ≤ last`, and a later block starts after the earlier one ends. -/
def CbOrdered (bs : List CBlock) : Prop :=
  (∀ b ∈ bs, b.first ≤ b.last) ∧ bs.Pairwise (fun a b => a.last < b.first)

theorem CbOrdered.nil : CbOrdered [] := ⟨by simp, List.Pairwise.nil⟩

theorem CbOrdered.snoc (bs : List CBlock) (b : CBlock) (h : CbOrdered bs) (hb : b.first ≤ b.last)
    (hlt : ∀ x ∈ bs, x.last < b.first) : CbOrdered (bs ++ [b]) := by
  refine ⟨?_, ?_⟩
  · intro x hx
    rcases List.mem_append.mp hx with hx | hx
    · exact h.1 x hx
    · simp at hx; subst hx; exact hb
  · rw [List.pairwise_append]
    refine ⟨h.2, List.pairwise_singleton _ _, ?_⟩
    intro x hx y hy
    simp at hy; subst hy; exact hlt x hx

theorem cbFind_spec (bs : List CBlock) (h : CbOrdered bs) (d : Nat) (b : CBlock) :
    cbFind d bs = some b ↔ b ∈ bs ∧ b.first ≤ d ∧ d ≤ b.last := by
  induction bs with
  | nil => simp [cbFind]
  | cons x xs ih =>
    have hx : x.first ≤ x.last := h.1 x (by simp)
    have hlt : ∀ y ∈ xs, x.last < y.first := (List.pairwise_cons.mp h.2).1
    have hxs : CbOrdered xs := ⟨fun y hy => h.1 y (List.mem_cons_of_mem _ hy), (List.pairwise_cons.mp h.2).2⟩
    unfold cbFind
    by_cases h1 : d < x.first
    · simp only [h1, if_true]
      constructor
      · intro hc; cases hc
      · rintro ⟨hm, h2, h3⟩
        rcases List.mem_cons.mp hm with rfl | hm
        · omega
        · have := hlt b hm; omega
    · simp only [h1, if_false]
      by_cases h2 : d ≤ x.last
      · simp only [h2, if_true]
        constructor
        · intro hc
          cases hc
          exact ⟨by simp, by omega, h2⟩
        · rintro ⟨hm, h3, h4⟩
          rcases List.mem_cons.mp hm with rfl | hm
          · rfl
          · have := hlt b hm; omega
      · simp only [h2, if_false]
        rw [ih hxs]
        constructor
        · rintro ⟨hm, h3, h4⟩; exact ⟨List.mem_cons_of_mem _ hm, h3, h4⟩
        · rintro ⟨hm, h3, h4⟩
          rcases List.mem_cons.mp hm with rfl | hm
          · omega
          · exact ⟨hm, h3, h4⟩

/-- Writer invariant: the written blocks are ordered and lie before the pending block, whose first
    document is not after its last. -/
def CBW.Inv (w : CBW) : Prop :=
  CbOrdered w.out ∧ ∀ s, w.startdoc = some s → s ≤ w.lastdoc ∧ ∀ b ∈ w.out, b.last < s

/-- Everything written or pending so far lies before document `n`. -/
def CBW.Below (w : CBW) (n : Nat) : Prop :=
  (∀ b ∈ w.out, b.last < n) ∧ ∀ s, w.startdoc = some s → w.lastdoc < n

theorem CBW.add_inv (blocksize : Nat) (w : CBW) (a : Nat × Bytes) (hi : w.Inv) (hb : w.Below a.1) :
    (w.add blocksize a).Inv ∧ ∀ n, a.1 < n → (w.add blocksize a).Below n := by
  have hsd : w.startdoc.getD a.1 ≤ a.1 := by
    cases hs : w.startdoc with
    | none => simp
    | some s => have := (hi.2 s hs).1; have := hb.2 s hs; simp; omega
  have hout : ∀ b ∈ w.out, b.last < w.startdoc.getD a.1 := by
    intro b hbm
    cases hs : w.startdoc with
    | none => simpa using hb.1 b hbm
    | some s => simpa using (hi.2 s hs).2 b hbm
  unfold CBW.add
  simp only
  split
  · -- the block is emitted
    refine ⟨⟨?_, by simp⟩, ?_⟩
    · exact CbOrdered.snoc _ _ hi.1 hsd hout
    · intro n hn
      refine ⟨?_, by simp⟩
      intro b hbm
      simp only [CBW.emit] at hbm
      rcases List.mem_append.mp hbm with hbm | hbm
      · have := hb.1 b hbm; omega
      · simp at hbm; subst hbm; exact hn
  · refine ⟨⟨hi.1, ?_⟩, ?_⟩
    · intro s hs
      simp only [Option.some.injEq] at hs
      subst hs
      exact ⟨hsd, hout⟩
    · intro n hn
      refine ⟨fun b hbm => by have := hb.1 b hbm; omega, fun s _ => hn⟩

theorem CBW.fold_inv (blocksize : Nat) (adds : List (Nat × Bytes)) (w : CBW) (hi : w.Inv)
    (hb : ∀ a ∈ adds, w.Below a.1) (hs : adds.Pairwise (fun x y => x.1 < y.1)) :
    (adds.foldl (CBW.add blocksize) w).Inv := by
  induction adds generalizing w with
  | nil => exact hi
  | cons a rest ih =>
    have := CBW.add_inv blocksize w a hi (hb a (by simp))
    simp only [List.foldl_cons]
    apply ih _ this.1
    · intro a' ha'
      exact this.2 a'.1 ((List.pairwise_cons.mp hs).1 a' ha')
    · exact (List.pairwise_cons.mp hs).2

/-- The block table written for strictly increasing document numbers is ordered and disjoint. -/
theorem cbWrite_ordered (blocksize : Nat) (adds : List (Nat × Bytes))
    (hs : adds.Pairwise (fun x y => x.1 < y.1)) : CbOrdered (cbWrite blocksize adds) := by
  have hinv := CBW.fold_inv blocksize adds {} ⟨CbOrdered.nil, by simp⟩ (by intro a _; exact ⟨by simp, by simp⟩) hs
  unfold cbWrite
  simp only
  split
  · rename_i hsome
    obtain ⟨s, hs'⟩ := Option.isSome_iff_exists.mp hsome
    have := hinv.2 s hs'
    unfold CBW.emit
    exact CbOrdered.snoc _ _ hinv.1 (by simp [hs']; exact this.1) (by simpa [hs'] using this.2)
  · exact hinv.1

end WM.Columns
