import WM.Lemmas.KeepsComb
/-! `Keeps` lemmas for the tree rewrites performed by `replace()` (union → intersection / and-maybe, …). -/
namespace WM.Matcher

theorem keeps_nil_of_lt {q b : Rat} {L : Den} (h : BoundedBy b L) (hb : b < q) : Keeps q [] L :=
  keeps_nil_of_bounded fun p hp => by have := h p hp; grind

/-- `UnionMatcher.replace`: neither side can reach `q` alone ⇒ only common documents matter -/
theorem keeps_inter_of_union {q amax bmax : Rat} {A B : Den} (hA : Asc A) (hB : Asc B)
    (bA : BoundedBy amax A) (bB : BoundedBy bmax B) (ha : amax < q) (hb : bmax < q) :
    Keeps q (interWith (· + ·) A B) (unionWith (· + ·) A B) := by
  apply keeps_of_pointwise (asc_interWith _ _ hA) (asc_unionWith _ hA hB)
  · intro d r hq hl
    rw [lookup_unionWith _ hA hB] at hl
    rw [lookup_interWith _ B hA]
    cases h1 : lookup A d with
    | none =>
      rw [h1] at hl
      cases h2 : lookup B d with
      | none => rw [h2] at hl; cases hl
      | some rb => rw [h2] at hl; cases hl; have := bounded_lookup bB h2; grind
    | some ra =>
      rw [h1] at hl
      cases h2 : lookup B d with
      | none => rw [h2] at hl; cases hl; have := bounded_lookup bA h1; grind
      | some rb => rw [h2] at hl; cases hl; rfl
  · intro d r' hl
    obtain ⟨ra, rb, h1, h2, rfl⟩ := lookup_interWith_some _ B hA hl
    exact ⟨ra + rb, by rw [lookup_unionWith _ hA hB, h1, h2]; rfl, Rat.le_refl⟩

/-- `UnionMatcher.replace`: side `B` cannot reach `q` alone ⇒ `AndMaybe(A, B)` -/
theorem keeps_leftJoin_of_union {q bmax : Rat} {A B : Den} (hA : Asc A) (hB : Asc B)
    (bB : BoundedBy bmax B) (hb : bmax < q) : Keeps q (leftJoin A B) (unionWith (· + ·) A B) := by
  apply keeps_of_pointwise (asc_leftJoin _ hA) (asc_unionWith _ hA hB)
  · intro d r hq hl
    rw [lookup_unionWith _ hA hB] at hl
    rw [lookup_leftJoin]
    cases h1 : lookup A d with
    | none =>
      rw [h1] at hl
      cases h2 : lookup B d with
      | none => rw [h2] at hl; cases hl
      | some rb => rw [h2] at hl; cases hl; have := bounded_lookup bB h2; grind
    | some ra =>
      rw [h1] at hl
      cases h2 : lookup B d with
      | none => rw [h2] at hl; cases hl; rfl
      | some rb => rw [h2] at hl; cases hl; rfl
  · intro d r' hl
    rw [lookup_leftJoin] at hl
    rw [lookup_unionWith _ hA hB]
    cases h1 : lookup A d with
    | none => rw [h1] at hl; cases hl
    | some ra =>
      rw [h1] at hl
      cases h2 : lookup B d with
      | none => rw [h2] at hl; cases hl; exact ⟨ra, rfl, Rat.le_refl⟩
      | some rb => rw [h2] at hl; cases hl; exact ⟨ra + rb, rfl, Rat.le_refl⟩

/-- the mirrored case: side `A` cannot reach `q` alone ⇒ `AndMaybe(B, A)` -/
theorem keeps_leftJoin_of_union' {q amax : Rat} {A B : Den} (hA : Asc A) (hB : Asc B)
    (bA : BoundedBy amax A) (ha : amax < q) : Keeps q (leftJoin B A) (unionWith (· + ·) A B) := by
  apply keeps_of_pointwise (asc_leftJoin _ hB) (asc_unionWith _ hA hB)
  · intro d r hq hl
    rw [lookup_unionWith _ hA hB] at hl
    rw [lookup_leftJoin]
    cases h1 : lookup A d with
    | none =>
      rw [h1] at hl
      cases h2 : lookup B d with
      | none => rw [h2] at hl; cases hl
      | some rb => rw [h2] at hl; cases hl; rfl
    | some ra =>
      rw [h1] at hl
      cases h2 : lookup B d with
      | none => rw [h2] at hl; cases hl; have := bounded_lookup bA h1; grind
      | some rb =>
        rw [h2] at hl; cases hl
        show some (rb + ra) = some (ra + rb)
        congr 1; grind
  · intro d r' hl
    rw [lookup_leftJoin] at hl
    rw [lookup_unionWith _ hA hB]
    cases h2 : lookup B d with
    | none => rw [h2] at hl; cases hl
    | some rb =>
      rw [h2] at hl
      cases h1 : lookup A d with
      | none => rw [h1] at hl; cases hl; exact ⟨rb, rfl, Rat.le_refl⟩
      | some ra => rw [h1] at hl; cases hl; exact ⟨ra + rb, rfl, by show rb + ra ≤ ra + rb; grind⟩

/-- `DisjunctionMaxMatcher.replace`: side `B` cannot reach `q` ⇒ side `A` alone -/
theorem keeps_left_of_unionMax {q bmax : Rat} {A B : Den} (hA : Asc A) (hB : Asc B)
    (bB : BoundedBy bmax B) (hb : bmax < q) : Keeps q A (unionWith max A B) := by
  apply keeps_of_pointwise hA (asc_unionWith _ hA hB)
  · intro d r hq hl
    rw [lookup_unionWith _ hA hB] at hl
    cases h1 : lookup A d with
    | none =>
      rw [h1] at hl
      cases h2 : lookup B d with
      | none => rw [h2] at hl; cases hl
      | some rb => rw [h2] at hl; cases hl; have := bounded_lookup bB h2; grind
    | some ra =>
      rw [h1] at hl
      cases h2 : lookup B d with
      | none => rw [h2] at hl; cases hl; rfl
      | some rb =>
        rw [h2] at hl; cases hl
        have := bounded_lookup bB h2
        have hq' : q < max ra rb := hq
        congr 1; grind
  · intro d r' hl
    rw [lookup_unionWith _ hA hB, hl]
    cases h2 : lookup B d with
    | none => exact ⟨r', rfl, Rat.le_refl⟩
    | some rb => exact ⟨max r' rb, rfl, by grind⟩

theorem keeps_right_of_unionMax {q amax : Rat} {A B : Den} (hA : Asc A) (hB : Asc B)
    (bA : BoundedBy amax A) (ha : amax < q) : Keeps q B (unionWith max A B) := by
  apply keeps_of_pointwise hB (asc_unionWith _ hA hB)
  · intro d r hq hl
    rw [lookup_unionWith _ hA hB] at hl
    cases h1 : lookup A d with
    | none =>
      rw [h1] at hl
      cases h2 : lookup B d with
      | none => rw [h2] at hl; cases hl
      | some rb => rw [h2] at hl; cases hl; rfl
    | some ra =>
      rw [h1] at hl
      have := bounded_lookup bA h1
      cases h2 : lookup B d with
      | none => rw [h2] at hl; cases hl; grind
      | some rb =>
        rw [h2] at hl; cases hl
        have hq' : q < max ra rb := hq
        congr 1; grind
  · intro d r' hl
    rw [lookup_unionWith _ hA hB, hl]
    cases h1 : lookup A d with
    | none => exact ⟨r', rfl, Rat.le_refl⟩
    | some ra => exact ⟨max ra r', rfl, by grind⟩

/-- `AndMaybeMatcher.replace`: the required side cannot reach `q` alone ⇒ intersection -/
theorem keeps_inter_of_leftJoin {q amax : Rat} {A B : Den} (hA : Asc A) (bA : BoundedBy amax A) (ha : amax < q) :
    Keeps q (interWith (· + ·) A B) (leftJoin A B) := by
  apply keeps_of_pointwise (asc_interWith _ _ hA) (asc_leftJoin _ hA)
  · intro d r hq hl
    rw [lookup_leftJoin] at hl
    rw [lookup_interWith _ B hA]
    cases h1 : lookup A d with
    | none => rw [h1] at hl; cases hl
    | some ra =>
      rw [h1] at hl
      cases h2 : lookup B d with
      | none => rw [h2] at hl; cases hl; have := bounded_lookup bA h1; grind
      | some rb => rw [h2] at hl; cases hl; rfl
  · intro d r' hl
    obtain ⟨ra, rb, h1, h2, rfl⟩ := lookup_interWith_some _ B hA hl
    exact ⟨ra + rb, by rw [lookup_leftJoin, h1, h2]; rfl, Rat.le_refl⟩

/-- boost at most 1 with the threshold handed down unscaled (`WrappingMatcher.replace`) -/
theorem keeps_scale_unscaled {q w : Rat} {C C' : Den} (hw0 : 0 < w) (hw1 : w ≤ 1) (hC : Asc C) (hC' : Asc C')
    (nC : NonNegDen C) (K : Keeps q C' C) : Keeps q (scale w C') (scale w C) := by
  apply keeps_of_pointwise (asc_scale _ hC') (asc_scale _ hC)
  · intro d r hq hl
    rw [lookup_scale] at hl ⊢
    cases hc : lookup C d with
    | none => rw [hc] at hl; cases hl
    | some rc =>
      rw [hc] at hl; cases hl
      have h0 := nonneg_lookup nC hc
      have hle : rc * w ≤ rc := by
        have := Rat.mul_le_mul_of_nonneg_left hw1 h0
        rwa [Rat.mul_one] at this
      have hq' : q < rc * w := hq
      rw [K.fwd hC' hC (by grind) hc]; rfl
  · intro d r' hl
    rw [lookup_scale] at hl ⊢
    cases hc' : lookup C' d with
    | none => rw [hc'] at hl; cases hl
    | some rc' =>
      rw [hc'] at hl; cases hl
      obtain ⟨rc, hc, hle⟩ := K.domp hC' hC hc'
      rw [hc]
      exact ⟨rc * w, rfl, Rat.mul_le_mul_of_nonneg_right hle (Rat.le_of_lt hw0)⟩

theorem diff_nil_right (A : Den) : diff A [] = A := by
  simp [diff]

/-- everything in a dominated list is bounded by the bound of the original -/
theorem bounded_of_dominated {b : Rat} {L' L : Den} (d : Dominated L' L) (h : BoundedBy b L) : BoundedBy b L' := by
  intro p hp
  obtain ⟨r, hr, hle⟩ := d p hp
  exact Rat.le_trans hle (h (p.1, r) hr)

theorem nonNeg_constScore {c : Rat} (hc : 0 ≤ c) (C : Den) : NonNegDen (constScore c C) := by
  intro p hp
  obtain ⟨e, -, rfl⟩ := List.mem_map.1 hp
  exact hc

theorem bounded_constScore (c : Rat) (C : Den) : BoundedBy c (constScore c C) := by
  intro p hp
  obtain ⟨e, -, rfl⟩ := List.mem_map.1 hp
  exact Rat.le_refl

end WM.Matcher
