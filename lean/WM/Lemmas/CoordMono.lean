import WM.Lemmas.ScoringMono
/-! `CoordMatcher` (wrappers.py): the coordinated score `_sqr(score, matching)`, its bound and the threshold
conversion of `skip_to_quality`/`replace` (`_child_quality`), over `Rat`. -/
namespace WM.Matcher

/-- `CoordMatcher._sqr(score, matching)` for `termcount = T`, `scale = c`
    (`(score + (matching - 1) / (T - c) ** 2) * ((T - 1) / T)`) -/
def coordSqr (T c s k : Rat) : Rat := (s + (k - 1) / ((T - c) * (T - c))) * ((T - 1) / T)

/-- `CoordMatcher._child_quality(quality)`: `quality * T / (T - 1) - (T - 1) / (T - c) ** 2` -/
def coordChild (T c q : Rat) : Rat := q * T / (T - 1) - (T - 1) / ((T - c) * (T - c))

theorem sq_pos_of_ne {x : Rat} (h : x ≠ 0) : 0 < x * x := by
  by_cases h1 : x < 0
  · have : 0 < -x := by grind
    have := Rat.mul_pos this this
    grind
  · have : 0 < x := by grind
    exact Rat.mul_pos this this

/-- the coordinated score grows with the raw score and with the number of matching terms -/
theorem coordSqr_mono {T c s S k : Rat} (hT : 1 ≤ T) (hc : T ≠ c) (hs : s ≤ S) (hk : k ≤ T) :
    coordSqr T c s k ≤ coordSqr T c S T := by
  unfold coordSqr
  have hd : 0 < (T - c) * (T - c) := sq_pos_of_ne (by grind)
  have hE : 0 ≤ (T - 1) / T := div_nonneg' (by grind) (by grind)
  apply Rat.mul_le_mul_of_nonneg_right _ hE
  have : (k - 1) / ((T - c) * (T - c)) ≤ (T - 1) / ((T - c) * (T - c)) := by
    rw [Rat.div_def, Rat.div_def]
    exact Rat.mul_le_mul_of_nonneg_right (by grind) (Rat.le_of_lt (Rat.inv_pos.2 hd))
  grind

/-- `_child_quality` inverts the bound `_sqr(., termcount)` -/
theorem coordSqr_child {T c q : Rat} (hT : 1 < T) : coordSqr T c (coordChild T c q) T = q := by
  unfold coordSqr coordChild
  have h1 : T - 1 ≠ 0 := by grind
  have h2 : T ≠ 0 := by grind
  have : q * T / (T - 1) - (T - 1) / ((T - c) * (T - c)) + (T - 1) / ((T - c) * (T - c)) = q * T / (T - 1) := by grind
  rw [this, Rat.div_def, Rat.div_def, Rat.mul_assoc, ← Rat.mul_assoc ((T - 1)⁻¹), Rat.inv_mul_cancel _ h1, Rat.one_mul,
    Rat.mul_assoc, Rat.mul_inv_cancel _ h2, Rat.mul_one]

/-- a child score at or below the converted threshold cannot reach the threshold, however many terms match -/
theorem coord_threshold {T c q s k : Rat} (hT : 1 < T) (hc : T ≠ c) (hk : k ≤ T) (hs : s ≤ coordChild T c q) :
    coordSqr T c s k ≤ q := by
  have := coordSqr_mono (Rat.le_of_lt hT) hc hs hk
  rwa [coordSqr_child hT] at this

end WM.Matcher
