import WM.Model.HashBytes
import WM.Lemmas.NumLists
import WM.Lemmas.HashFormats
/-! Byte level of the hash file: struct round trips, positional reads inside concatenations, and
the reader over the bytes the writer produced. -/
namespace WM.StructFile
open WM.IdSets (Err)
open WM.NumLists

theorem unpack_pack {tc : TC} {n : Int} {bs : Bytes} (h : pack tc n = .ok bs) : unpack tc bs = .ok n := by
  unfold pack at h
  split at h
  · rename_i hf
    cases h
    unfold unpack
    rw [length_encodeBE, if_pos rfl, decodeBE_encodeBE _ _ (toUnsigned_lt tc n)]
    exact congrArg _ (value_roundtrip tc n hf)
  · cases h

theorem length_pack {tc : TC} {n : Int} {bs : Bytes} (h : pack tc n = .ok bs) : bs.length = tc.size := by
  unfold pack at h
  split at h
  · cases h; exact length_encodeBE _ _
  · cases h

theorem pack_error {tc : TC} {n : Int} (h : tc.fits n = false) : pack tc n = .error .struct := by
  unfold pack; rw [h]; rfl

theorem unpack2_pack2 {t1 t2 : TC} {a b : Int} {bs : Bytes} (h : pack2 t1 t2 a b = .ok bs) :
    unpack2 t1 t2 bs = .ok (a, b) := by
  unfold pack2 at h
  cases hx : pack t1 a with
  | error e => rw [hx] at h; cases h
  | ok x =>
    cases hy : pack t2 b with
    | error e => rw [hx, hy] at h; cases h
    | ok y =>
      rw [hx, hy] at h
      cases h
      have lx := length_pack hx
      have ly := length_pack hy
      unfold unpack2
      rw [List.length_append, lx, ly, if_pos rfl]
      rw [← lx, List.take_left', List.drop_left', unpack_pack hx, unpack_pack hy]
      · rfl
      · rfl
      · rfl

theorem toUnsigned_nat (tc : TC) (a : Nat) (h : tc.fits a = true) : toUnsigned tc.size (a : Int) = a := by
  have h2 := lt_cap_of_fits tc a h
  unfold toUnsigned
  have hlt : a < 2 ^ (8 * tc.size) := by
    unfold cap at h2
    cases tc <;> simp only [TC.signed, TC.size, ↓reduceIte, Bool.false_eq_true] at h2 ⊢ <;> omega
  have : ((a : Int) % (2 ^ (8 * tc.size) : Int)) = (a : Int) := by
    apply Int.emod_eq_of_lt (by omega)
    exact_mod_cast hlt
  rw [this]; simp

/-- a non-negative number inside the format is laid out as its big-endian digits -/
theorem pack_nat (tc : TC) (a : Nat) (h : tc.fits a = true) : pack tc a = .ok (encodeBE tc.size a) := by
  unfold pack; rw [if_pos h, toUnsigned_nat tc a h]

theorem pack2_nat (t1 t2 : TC) (a b : Nat) (ha : t1.fits a = true) (hb : t2.fits b = true) :
    pack2 t1 t2 a b = .ok (encodeBE t1.size a ++ encodeBE t2.size b) := by
  unfold pack2; rw [pack_nat t1 a ha, pack_nat t2 b hb]; rfl

theorem asNat_nat (a : Nat) : asNat (a : Int) = .ok a := by
  unfold asNat; rw [if_neg (by omega)]; simp

theorem unpack2N_enc (t1 t2 : TC) (a b : Nat) (ha : t1.fits a = true) (hb : t2.fits b = true) :
    unpack2N t1 t2 (encodeBE t1.size a ++ encodeBE t2.size b) = .ok (a, b) := by
  unfold unpack2N
  rw [unpack2_pack2 (pack2_nat t1 t2 a b ha hb)]
  simp only [bind, Except.bind, asNat_nat]

theorem unpack_enc (tc : TC) (a : Nat) (ha : tc.fits a = true) : unpack tc (encodeBE tc.size a) = .ok (a : Int) :=
  unpack_pack (pack_nat tc a ha)

/-! ### positional reads -/

theorem get_append_right (a b : Bytes) (k n : Nat) : get (a ++ b) (a.length + k) n = get b k n := by
  unfold get
  rw [← List.drop_drop, List.drop_left]

theorem get_append_right0 (a b : Bytes) (n : Nat) : get (a ++ b) a.length n = get b 0 n := by
  have := get_append_right a b 0 n
  simpa using this

theorem get_prefix (x q : Bytes) : get (x ++ q) 0 x.length = x := by
  unfold get; simp

/-- reading exactly the middle segment -/
theorem get_mid (p x q : Bytes) : get (p ++ x ++ q) p.length x.length = x := by
  rw [List.append_assoc, get_append_right0, get_prefix]

theorem get_mid' {file : Bytes} (p x q : Bytes) (h : file = p ++ x ++ q) {pos len : Nat}
    (hp : pos = p.length) (hl : len = x.length) : get file pos len = x := by
  subst h hp hl; exact get_mid p x q

/-- element `k` of a concatenation of fixed-size encodings -/
theorem get_flatMap {α} (f : α → Bytes) (size : Nat) (hf : ∀ a, (f a).length = size) :
    ∀ (l : List α) (rest : Bytes) (k : Nat) (a : α), l[k]? = some a →
      get (l.flatMap f ++ rest) (k * size) size = f a
  | [], _, k, a, h => by simp at h
  | x :: t, rest, 0, a, h => by
    simp only [List.getElem?_cons_zero, Option.some.injEq] at h
    subst h
    simp only [List.flatMap_cons, Nat.zero_mul, List.append_assoc]
    rw [← hf x]; exact get_prefix _ _
  | x :: t, rest, k + 1, a, h => by
    simp only [List.getElem?_cons_succ] at h
    simp only [List.flatMap_cons, List.append_assoc]
    have : (k + 1) * size = (f x).length + k * size := by rw [hf, Nat.add_mul]; omega
    rw [this, get_append_right]
    exact get_flatMap f size hf t rest k a h

end WM.StructFile

namespace WM.HashBytes
open WM.IdSets (Err)
open WM.NumLists
open WM.StructFile
open WM.HashFile

theorem length_enc2 (t1 t2 : TC) (a b : Nat) : (enc2 t1 t2 a b).length = t1.size + t2.size := by
  unfold enc2; rw [List.length_append, length_encodeBE, length_encodeBE]

theorem length_recBytes (r : Rec Bytes) : (recBytes r).length = lengthsSize + r.key.length + r.val.length := by
  unfold recBytes
  rw [List.length_append, List.length_append, length_enc2]; rfl

theorem length_slotBytes (s : Slot) : (slotBytes s).length = 12 := by
  unfold slotBytes; rw [length_enc2]; rfl

theorem length_dirEntryBytes (e : Nat × Nat) : (dirEntryBytes e).length = 12 := by
  unfold dirEntryBytes; rw [length_enc2]; rfl

/-- what the reader sees at the position of a record -/
structure RecAt (file : Bytes) (r : Rec Bytes) : Prop where
  lens : get file r.pos 8 = enc2 .i .i r.key.length r.val.length
  key : get file (r.pos + 8) r.key.length = r.key
  val : get file (r.pos + 8 + r.key.length) r.val.length = r.val

theorem recAt_head (pre post : Bytes) (r : Rec Bytes) (hp : r.pos = pre.length) :
    RecAt (pre ++ recBytes r ++ post) r := by
  unfold recBytes
  refine ⟨?_, ?_, ?_⟩
  · apply get_mid' pre (enc2 .i .i r.key.length r.val.length) (r.key ++ r.val ++ post)
    · simp only [List.append_assoc]
    · exact hp
    · rw [length_enc2]; rfl
  · apply get_mid' (pre ++ enc2 .i .i r.key.length r.val.length) r.key (r.val ++ post)
    · simp only [List.append_assoc]
    · rw [List.length_append, length_enc2, hp]; rfl
    · rfl
  · apply get_mid' (pre ++ enc2 .i .i r.key.length r.val.length ++ r.key) r.val post
    · simp only [List.append_assoc]
    · rw [List.length_append, List.length_append, length_enc2, hp]; rfl
    · rfl

/-- every record of the layout is readable at its position -/
theorem recAt_layout : ∀ (kvs : List (Key × Bytes)) (pre post : Bytes),
    ∀ r ∈ layout List.length pre.length kvs,
      RecAt (pre ++ (layout List.length pre.length kvs).flatMap recBytes ++ post) r
  | [], _, _ => by simp [layout]
  | kv :: t, pre, post => by
    intro r hr
    simp only [layout, List.mem_cons] at hr
    simp only [layout, List.flatMap_cons]
    rcases hr with rfl | hr
    · have := recAt_head pre ((layout List.length (pre.length + lengthsSize + kv.1.length + kv.2.length) t).flatMap recBytes ++ post)
        ⟨pre.length, kv.1, kv.2⟩ rfl
      simpa only [List.append_assoc] using this
    · have hlen : (pre ++ recBytes ⟨pre.length, kv.1, kv.2⟩).length
          = pre.length + lengthsSize + kv.1.length + kv.2.length := by
        rw [List.length_append, length_recBytes]; simp only; omega
      have := recAt_layout t (pre ++ recBytes ⟨pre.length, kv.1, kv.2⟩) post
      rw [hlen] at this
      have := this r hr
      simpa only [List.append_assoc] using this

theorem length_layout_bytes : ∀ (kvs : List (Key × Bytes)) (p : Nat),
    ((layout List.length p kvs).flatMap recBytes).length + p = endPos List.length p kvs
  | [], p => by simp [layout, endPos]
  | kv :: t, p => by
    simp only [layout, endPos, List.flatMap_cons, List.length_append, length_recBytes]
    have := length_layout_bytes t (p + lengthsSize + kv.1.length + kv.2.length)
    omega


/-! ### hash tables and the directory -/

theorem flatten_index {α} : ∀ (ts : List (List α)) (b : Nat) (T : List α) (i : Nat),
    ts[b]? = some T → i < T.length →
    ts.flatten[((ts.take b).map List.length).sum + i]? = T[i]?
  | [], _, _, _, h, _ => by simp at h
  | t :: ts, 0, T, i, h, hi => by
    simp only [List.getElem?_cons_zero, Option.some.injEq] at h
    subst h
    simp only [List.take_zero, List.map_nil, List.sum_nil, Nat.zero_add, List.flatten_cons]
    rw [List.getElem?_append_left hi]
  | t :: ts, b + 1, T, i, h, hi => by
    simp only [List.getElem?_cons_succ] at h
    simp only [List.take_succ_cons, List.map_cons, List.sum_cons, List.flatten_cons]
    rw [List.getElem?_append_right (by omega)]
    have : t.length + ((ts.take b).map List.length).sum + i - t.length
        = ((ts.take b).map List.length).sum + i := by omega
    rw [this]
    exact flatten_index ts b T i h hi

/-- slot `i` of table `b`, read at `tablePos f b + i * 12` -/
theorem slot_read (f : File Bytes) (P rest : Bytes) (hP : P.length = f.endofdata)
    (b : Nat) (T : List Slot) (hT : f.tables[b]? = some T) (i : Nat) (hi : i < T.length) :
    get (P ++ f.tables.flatten.flatMap slotBytes ++ rest) (tablePos f b + i * 12) 12 = slotBytes T[i] := by
  unfold tablePos
  rw [← hP, List.append_assoc]
  have : P.length + pointerSize * ((f.tables.take b).map List.length).sum + i * 12
      = P.length + (((f.tables.take b).map List.length).sum + i) * 12 := by
    simp only [pointerSize]; rw [Nat.add_mul]; omega
  rw [this, get_append_right]
  apply get_flatMap slotBytes 12 length_slotBytes
  rw [flatten_index f.tables b T i hT hi]
  exact List.getElem?_eq_getElem hi

theorem length_dirFrom : ∀ (ts : List (List Slot)) (p : Nat), (dirFrom p ts).length = ts.length
  | [], _ => rfl
  | t :: ts, p => by simp [dirFrom, length_dirFrom ts]

theorem dirFrom_index : ∀ (ts : List (List Slot)) (p b : Nat) (T : List Slot), ts[b]? = some T →
    (dirFrom p ts)[b]? = some (p + pointerSize * ((ts.take b).map List.length).sum, T.length)
  | [], _, _, _, h => by simp at h
  | t :: ts, p, 0, T, h => by
    simp only [List.getElem?_cons_zero, Option.some.injEq] at h
    subst h
    simp [dirFrom]
  | t :: ts, p, b + 1, T, h => by
    simp only [List.getElem?_cons_succ] at h
    simp only [dirFrom, List.getElem?_cons_succ, List.take_succ_cons, List.map_cons, List.sum_cons]
    rw [dirFrom_index ts _ b T h, Nat.mul_add, Nat.add_assoc]

theorem directory_index (f : File Bytes) (b : Nat) (T : List Slot) (hT : f.tables[b]? = some T) :
    (directory f)[b]? = some (tablePos f b, T.length) := by
  unfold directory tablePos
  exact dirFrom_index f.tables f.endofdata b T hT

theorem length_flatMap_fixed {α} (g : α → Bytes) (size : Nat) (hg : ∀ a, (g a).length = size) :
    ∀ (l : List α), (l.flatMap g).length = l.length * size
  | [] => by simp
  | a :: t => by
    simp only [List.flatMap_cons, List.length_append, hg, length_flatMap_fixed g size hg t, List.length_cons]
    rw [Nat.add_mul]; omega

theorem length_tables_bytes (f : File Bytes) :
    (f.tables.flatten.flatMap slotBytes).length + f.endofdata = tablePos f f.tables.length := by
  rw [length_flatMap_fixed slotBytes 12 length_slotBytes]
  unfold tablePos
  rw [List.take_length, List.length_flatten]
  simp only [pointerSize]; omega


/-! ### the probe loop over bytes is the probe loop over the table -/

theorem fitsNat (tc : TC) (x : Nat) (h : (x : Int) < cap tc) : tc.fits (x : Int) = true :=
  fits_of_nat tc x (by omega) h

theorem nextSlot_lt {n slot : Nat} (h : slot < n) : nextSlot n slot < n := by
  unfold nextSlot; split <;> omega

theorem scanBytes_eq (f : File Bytes) (file key : Bytes) (T : List Slot) (tpos kh : Nat)
    (hslot : ∀ i (hi : i < T.length), get file (tpos + i * 12) 12 = slotBytes T[i])
    (hfit : ∀ s ∈ T, TC.I.fits (s.1 : Int) = true ∧ TC.q.fits (s.2 : Int) = true)
    (hrec : ∀ s ∈ T, s.2 ≠ 0 → ∃ r ∈ f.recs, r.pos = s.2)
    (hat : ∀ r ∈ f.recs, RecAt file r ∧ TC.i.fits (r.key.length : Int) = true ∧ TC.i.fits (r.val.length : Int) = true)
    (hfind : ∀ r ∈ f.recs, recAt f r.pos = some r) :
    ∀ (fuel slot : Nat), slot < T.length →
      scanBytes file tpos T.length kh key slot fuel = .ok (scan T kh (checkKey f key) slot fuel)
  | 0, _, _ => rfl
  | fuel + 1, slot, hs => by
    have ih := scanBytes_eq f file key T tpos kh hslot hfit hrec hat hfind fuel
      (nextSlot T.length slot) (nextSlot_lt hs)
    have hmem : T[slot] ∈ T := List.getElem_mem hs
    unfold scanBytes scan
    rw [List.getElem?_eq_getElem hs, hslot slot hs]
    unfold slotBytes enc2
    rw [unpack2N_enc .I .q _ _ (hfit _ hmem).1 (hfit _ hmem).2]
    simp only [bind, Except.bind]
    by_cases h0 : T[slot].2 = 0
    · simp [h0]
    · rw [if_neg h0, if_neg h0, ih]
      simp only
      by_cases hk : T[slot].1 = kh
      · rw [if_pos hk, if_pos hk]
        rcases hrec _ hmem h0 with ⟨r, hr, hpos⟩
        rcases hat r hr with ⟨hra, hf1, hf2⟩
        rw [← hpos, hra.lens]
        unfold enc2
        rw [unpack2N_enc .i .i _ _ hf1 hf2]
        simp only
        unfold checkKey
        rw [hfind r hr]
        simp only
        by_cases hl : r.key.length = key.length
        · rw [if_pos hl, hra.key, hra.val]
          by_cases hkey : r.key = key
          · rw [if_pos hkey.symm, if_pos ⟨hl, hkey⟩]
          · rw [if_neg (fun h => hkey h.symm), if_neg (fun h => hkey h.2)]
        · rw [if_neg hl, if_neg (fun h => hl h.1)]
      · rw [if_neg hk, if_neg hk]


/-! ### `HashReader.__init__` on the bytes `HashWriter` wrote -/

theorem mapM_option_length {α β} (g : α → Option β) : ∀ (l : List α) (ys : List β),
    l.mapM g = some ys → ys.length = l.length
  | [], ys, h => by
    simp only [List.mapM_nil, pure, Option.some.injEq] at h
    subst h; rfl
  | x :: t, ys, h => by
    rw [List.mapM_cons] at h
    cases hx : g x with
    | none => rw [hx] at h; simp [bind] at h
    | some y =>
      cases ht : t.mapM g with
      | none => rw [hx, ht] at h; simp [bind] at h
      | some ys' =>
        rw [hx, ht] at h
        simp only [bind, Option.bind, pure, Option.some.injEq] at h
        subst h
        simp [mapM_option_length g t ys' ht]

theorem tables_length {hash : Key → Nat} {so : Nat} {kvs : List (Key × Bytes)} {f : File Bytes}
    (h : build hash List.length so kvs = some f) : f.tables.length = 256 := by
  unfold build at h
  simp only [Option.map_eq_some_iff] at h
  rcases h with ⟨tables, hm, hf⟩
  have := mapM_option_length _ _ _ hm
  rw [← hf]
  simpa using this

theorem mapM_except_eq {α β} (g : α → Except Err β) : ∀ (xs : List α) (ys : List β),
    xs.length = ys.length → (∀ i (h1 : i < xs.length) (h2 : i < ys.length), g xs[i] = .ok ys[i]) →
    xs.mapM g = .ok ys
  | [], [], _, _ => rfl
  | [], _ :: _, hl, _ => by simp at hl
  | _ :: _, [], hl, _ => by simp at hl
  | x :: xs, y :: ys, hl, h => by
    rw [List.mapM_cons]
    have h0 := h 0 (by simp) (by simp)
    simp only [List.getElem_cons_zero] at h0
    have ht := mapM_except_eq g xs ys (by simpa using hl) (fun i h1 h2 => by
      have := h (i + 1) (by simpa using h1) (by simpa using h2)
      simpa using this)
    rw [h0, ht]
    rfl

theorem tablePos_mono (f : File Bytes) (b : Nat) : tablePos f b ≤ tablePos f f.tables.length := by
  unfold tablePos
  have : ((f.tables.take b).map List.length).sum ≤ ((f.tables.take f.tables.length).map List.length).sum := by
    rw [List.take_length]
    have h := List.take_append_drop b f.tables
    conv => rhs; rw [← h]
    rw [List.map_append, List.sum_append]
    omega
  have := Nat.mul_le_mul_left pointerSize this
  omega

/-- the hypotheses under which the writer produced `f` inside the struct formats -/
structure Written (hash : Key → Nat) (so : Nat) (kvs : List (Key × Bytes)) (f : File Bytes) : Prop where
  built : Built hash List.length so kvs f
  recs : ∀ r ∈ f.recs, r.key.length < 2 ^ 31 ∧ r.val.length < 2 ^ 31 ∧ hash r.key < 2 ^ 32 ∧ r.pos < 2 ^ 63
  tabs : ∀ t ∈ f.tables, t.length < 2 ^ 31
  ntab : f.tables.length = 256
  dirpos : tablePos f 256 < 2 ^ 63

theorem written_of_buildE {hash : Key → Nat} {so : Nat} {kvs : List (Key × Bytes)} {f : File Bytes}
    (hf : buildE hash List.length so kvs = .ok f) : Written hash so kvs f := by
  rcases WM.C20.buildE_ok hf with ⟨hb, hfo⟩
  have hbuilt := WM.C20.built_of_build hb
  rcases WM.C20.formatsOk_facts hbuilt hfo with ⟨h1, h2⟩
  refine ⟨hbuilt, h1, h2, tables_length hb, ?_⟩
  unfold formatsOk at hfo
  simp only [Bool.and_eq_true, decide_eq_true_eq] at hfo
  exact hfo.2


theorem cap_B : cap .B = 256 := by decide

theorem getNat_enc {file : Bytes} (tc : TC) (pos a : Nat) (h : get file pos tc.size = encodeBE tc.size a)
    (hf : (a : Int) < cap tc) : getNat tc file pos = .ok a := by
  unfold getNat getNum
  rw [h, unpack_enc tc a (fitsNat tc a hf)]
  simp only [bind, Except.bind, asNat_nat]

theorem getNum_enc {file : Bytes} (tc : TC) (pos a : Nat) (h : get file pos tc.size = encodeBE tc.size a)
    (hf : (a : Int) < cap tc) : getNum tc file pos = .ok (a : Int) := by
  unfold getNum
  rw [h, unpack_enc tc a (fitsNat tc a hf)]

theorem open_written {hash : Key → Nat} {so : Nat} {kvs : List (Key × Bytes)} {f : File Bytes}
    (w : Written hash so kvs f) (magic extras pre : Bytes) (hashtype : Nat)
    (hm : magic.length = 4) (hh : hashtype < 256) (he : extras.length < 2 ^ 31) (hp : pre.length = so) :
    openReader magic (fileBytes magic hashtype extras pre f) so
        ((fileBytes magic hashtype extras pre f).length - so) = .ok
      { file := fileBytes magic hashtype extras pre f, startoffset := so, hashtype := hashtype,
        startofdata := so + 13, endofdata := f.endofdata, tables := directory f,
        expos := tablePos f 256 + directorySize, exlen := extras.length } := by
  generalize hfile : fileBytes magic hashtype extras pre f = file
  have hfile' := hfile.symm
  unfold fileBytes headerBytes at hfile'
  -- lengths of the segments
  have lR : (pre ++ (magic ++ encodeBE 1 hashtype ++ encodeBE 4 0 ++ encodeBE 4 0) ++ f.recs.flatMap recBytes).length
      = f.endofdata := by
    have := length_layout_bytes kvs (so + headerSize)
    rw [← w.built.recs, ← w.built.eod] at this
    simp only [List.length_append, length_encodeBE, hm, hp, headerSize] at this ⊢
    omega
  have lT : (pre ++ (magic ++ encodeBE 1 hashtype ++ encodeBE 4 0 ++ encodeBE 4 0) ++ f.recs.flatMap recBytes
      ++ f.tables.flatten.flatMap slotBytes).length = tablePos f 256 := by
    have := length_tables_bytes f
    rw [w.ntab] at this
    rw [List.length_append, lR]; omega
  have lD : ((directory f).flatMap dirEntryBytes).length = directorySize := by
    rw [length_flatMap_fixed dirEntryBytes 12 length_dirEntryBytes]
    unfold directory; rw [length_dirFrom, w.ntab]; rfl
  have lfile : file.length = tablePos f 256 + directorySize + extras.length + 4 := by
    rw [hfile']
    rw [List.length_append, List.length_append, List.length_append, lT, lD, length_encodeBE]
  have hso : so ≤ tablePos f 256 := by
    rw [← lT]; simp only [List.length_append, hp]; omega
  -- the reads
  have h1 : get file so 4 = magic := by
    apply get_mid' pre magic (encodeBE 1 hashtype ++ encodeBE 4 0 ++ encodeBE 4 0 ++ f.recs.flatMap recBytes
      ++ f.tables.flatten.flatMap slotBytes ++ (directory f).flatMap dirEntryBytes ++ extras
      ++ encodeBE 4 extras.length)
    · rw [hfile']; simp only [List.append_assoc]
    · exact hp.symm
    · exact hm.symm
  have h2 : getNat .B file (so + 4) = .ok hashtype := by
    apply getNat_enc .B (so + 4) hashtype
    · apply get_mid' (pre ++ magic) (encodeBE 1 hashtype) (encodeBE 4 0 ++ encodeBE 4 0 ++ f.recs.flatMap recBytes
        ++ f.tables.flatten.flatMap slotBytes ++ (directory f).flatMap dirEntryBytes ++ extras
        ++ encodeBE 4 extras.length)
      · rw [hfile']; simp only [List.append_assoc]
      · rw [List.length_append, hp, hm]
      · rw [length_encodeBE]; rfl
    · rw [cap_B]; omega
  have h3 : getNum .i file (so + 5) = .ok ((0 : Nat) : Int) := by
    apply getNum_enc .i (so + 5) 0
    · apply get_mid' (pre ++ magic ++ encodeBE 1 hashtype) (encodeBE 4 0) (encodeBE 4 0 ++ f.recs.flatMap recBytes
        ++ f.tables.flatten.flatMap slotBytes ++ (directory f).flatMap dirEntryBytes ++ extras
        ++ encodeBE 4 extras.length)
      · rw [hfile']; simp only [List.append_assoc]
      · simp only [List.length_append, hp, hm, length_encodeBE]
      · rw [length_encodeBE]; rfl
    · rw [cap_i]; omega
  have h4 : getNum .i file (so + 9) = .ok ((0 : Nat) : Int) := by
    apply getNum_enc .i (so + 9) 0
    · apply get_mid' (pre ++ magic ++ encodeBE 1 hashtype ++ encodeBE 4 0) (encodeBE 4 0) (f.recs.flatMap recBytes
        ++ f.tables.flatten.flatMap slotBytes ++ (directory f).flatMap dirEntryBytes ++ extras
        ++ encodeBE 4 extras.length)
      · rw [hfile']; simp only [List.append_assoc]
      · simp only [List.length_append, hp, hm, length_encodeBE]
      · rw [length_encodeBE]; rfl
    · rw [cap_i]; omega
  have h5 : getNat .i file (tablePos f 256 + directorySize + extras.length) = .ok extras.length := by
    apply getNat_enc .i _ extras.length
    · apply get_mid' (pre ++ (magic ++ encodeBE 1 hashtype ++ encodeBE 4 0 ++ encodeBE 4 0) ++ f.recs.flatMap recBytes
          ++ f.tables.flatten.flatMap slotBytes ++ (directory f).flatMap dirEntryBytes ++ extras)
        (encodeBE 4 extras.length) []
      · rw [hfile']; simp only [List.append_nil]
      · rw [List.length_append, List.length_append, lT, lD]
      · rw [length_encodeBE]; rfl
    · rw [cap_i]; omega
  have h6 : ∀ b (hb : b < (directory f).length),
      unpack2N .q .i (get file (tablePos f 256 + b * 12) 12) = .ok (directory f)[b] := by
    intro b hb
    have hb' : b < f.tables.length := by unfold directory at hb; rw [length_dirFrom] at hb; exact hb
    have hT := List.getElem?_eq_getElem hb'
    have hd := directory_index f b _ hT
    have hg : get file (tablePos f 256 + b * 12) 12 = dirEntryBytes (directory f)[b] := by
      have hsplit : file = (pre ++ (magic ++ encodeBE 1 hashtype ++ encodeBE 4 0 ++ encodeBE 4 0)
          ++ f.recs.flatMap recBytes ++ f.tables.flatten.flatMap slotBytes)
          ++ ((directory f).flatMap dirEntryBytes ++ (extras ++ encodeBE 4 extras.length)) := by
        rw [hfile']; simp only [List.append_assoc]
      rw [hsplit, ← lT, get_append_right]
      exact get_flatMap dirEntryBytes 12 length_dirEntryBytes _ _ b _ (List.getElem?_eq_getElem hb)
    rw [hg]
    have hval : (directory f)[b] = (tablePos f b, (f.tables[b]).length) := by
      have := List.getElem?_eq_getElem hb
      rw [hd] at this
      exact (Option.some.inj this).symm
    rw [hval]
    unfold dirEntryBytes enc2
    apply unpack2N_enc .q .i
    · apply fitsNat; rw [cap_q]
      have := tablePos_mono f b
      rw [w.ntab] at this
      have := w.dirpos
      omega
    · apply fitsNat; rw [cap_i]
      have := w.tabs _ (List.getElem_mem hb')
      omega
  have hdl : (directory f).length = 256 := by unfold directory; rw [length_dirFrom, w.ntab]
  have h7 : (List.range 256).mapM (fun b => unpack2N .q .i (get file (tablePos f 256 + b * 12) 12))
      = .ok (directory f) := by
    apply mapM_except_eq
    · rw [List.length_range, hdl]
    · intro i h1 h2
      rw [List.getElem_range]
      exact h6 i h2
  have h8 : (directory f).head? = some (f.endofdata, (f.tables[0]'(by rw [w.ntab]; omega)).length) := by
    have := directory_index f 0 _ (List.getElem?_eq_getElem (by rw [w.ntab]; omega : 0 < f.tables.length))
    rw [List.head?_eq_getElem?, this]
    simp [tablePos]
  unfold openReader
  rw [h1, if_neg (fun h => h rfl)]
  simp only [h2, h3, h4, bind, Except.bind]
  have e1 : ¬ (so + (file.length - so) < 4) := by omega
  have e2 : so + (file.length - so) - 4 = tablePos f 256 + directorySize + extras.length := by omega
  rw [if_neg e1, e2, h5]
  simp only
  have e3 : ¬ (tablePos f 256 + directorySize + extras.length < extras.length + directorySize) := by omega
  have e4 : tablePos f 256 + directorySize + extras.length - extras.length - directorySize = tablePos f 256 := by omega
  have e5 : tablePos f 256 + directorySize + extras.length - extras.length = tablePos f 256 + directorySize := by omega
  rw [if_neg e3, e4, h7]
  simp only [h8, e5]


/-- `list(reader.all(key))` computed from the bytes is `all` of the record-level model -/
theorem all_written {hash : Key → Nat} {so : Nat} {kvs : List (Key × Bytes)} {f : File Bytes}
    (w : Written hash so kvs f) (magic extras pre : Bytes) (hashtype : Nat)
    (hm : magic.length = 4) (hp : pre.length = so) (r : Reader)
    (hrf : r.file = fileBytes magic hashtype extras pre f) (hrt : r.tables = directory f) (key : Bytes) :
    allBytes hash r key = .ok (all hash f key) := by
  have hlt : hash key % 256 < 256 := Nat.mod_lt _ (by omega)
  rcases w.built.tables _ hlt with ⟨T, hT, _, hinv⟩
  unfold allBytes all
  simp only
  rw [hrt, directory_index f _ T hT, hT]
  simp only
  by_cases h0 : T.length = 0
  · rw [if_pos h0, if_pos h0]
  rw [if_neg h0, if_neg h0]
  have hfile : r.file = (pre ++ headerBytes magic hashtype ++ f.recs.flatMap recBytes)
      ++ f.tables.flatten.flatMap slotBytes
      ++ ((directory f).flatMap dirEntryBytes ++ extras ++ encodeBE 4 extras.length) := by
    rw [hrf]; unfold fileBytes; simp only [List.append_assoc]
  have lH : (pre ++ headerBytes magic hashtype).length = so + headerSize := by
    unfold headerBytes
    simp only [List.length_append, length_encodeBE, hm, hp, headerSize]
  have lR : (pre ++ headerBytes magic hashtype ++ f.recs.flatMap recBytes).length = f.endofdata := by
    have := length_layout_bytes kvs (so + headerSize)
    rw [← w.built.recs, ← w.built.eod] at this
    rw [List.length_append, lH]; omega
  have hsorted : f.recs.Pairwise (fun a b => a.pos < b.pos) := by
    rw [w.built.recs]; exact layout_pos_sorted List.length kvs _
  have hentry : ∀ s ∈ T, s.2 ≠ 0 → ∃ q ∈ f.recs, s = (hash q.key, q.pos) := by
    intro s hs hnz
    have hin := hinv.mem s hs (by simp [nz, hnz])
    unfold bucketEntries at hin
    rcases List.mem_map.mp hin with ⟨q, hq, rfl⟩
    exact ⟨q, (List.mem_filter.mp hq).1, rfl⟩
  apply scanBytes_eq f r.file key T (tablePos f (hash key % 256)) (hash key)
  · intro i hi
    rw [hfile]
    exact slot_read f _ _ lR _ T hT i hi
  · intro s hs
    by_cases hz : s.2 = 0
    · rcases hinv.shape s hs with h | h
      · rw [h]; exact ⟨by decide, by decide⟩
      · simp [nz, hz] at h
    · rcases hentry s hs hz with ⟨q, hq, rfl⟩
      have := w.recs q hq
      refine ⟨fitsNat _ _ (by rw [cap_I]; simp only; omega), fitsNat _ _ (by rw [cap_q]; simp only; omega)⟩
  · intro s hs hz
    rcases hentry s hs hz with ⟨q, hq, rfl⟩
    exact ⟨q, hq, rfl⟩
  · intro q hq
    have hq' := hq
    rw [w.built.recs, ← lH] at hq'
    have hra := recAt_layout kvs (pre ++ headerBytes magic hashtype)
      (f.tables.flatten.flatMap slotBytes ++ ((directory f).flatMap dirEntryBytes ++ extras ++ encodeBE 4 extras.length))
      q hq'
    rw [lH, ← w.built.recs] at hra
    have hfile2 : r.file = pre ++ headerBytes magic hashtype ++ f.recs.flatMap recBytes
        ++ (f.tables.flatten.flatMap slotBytes
          ++ ((directory f).flatMap dirEntryBytes ++ extras ++ encodeBE 4 extras.length)) := by
      rw [hfile]; simp only [List.append_assoc]
    rw [← hfile2] at hra
    have := w.recs q hq
    exact ⟨hra, fitsNat _ _ (by rw [cap_i]; omega), fitsNat _ _ (by rw [cap_i]; omega)⟩
  · intro q hq
    unfold recAt
    exact find_at_pos hsorted hq
  · exact Nat.mod_lt _ (by omega)


/-! ### iteration over the bytes -/

theorem le_endPos : ∀ (l : List (Key × Bytes)) (q : Nat), q + 8 * l.length ≤ endPos List.length q l
  | [], q => by simp [endPos]
  | kv :: t, q => by
    have := le_endPos t (q + lengthsSize + kv.1.length + kv.2.length)
    simp only [endPos, List.length_cons, lengthsSize] at this ⊢
    omega

theorem itemsFrom_layout (r : Reader) : ∀ (kvs : List (Key × Bytes)) (p fuel : Nat), kvs.length < fuel →
    r.endofdata = endPos List.length p kvs →
    (∀ q ∈ layout List.length p kvs, RecAt r.file q ∧ TC.i.fits (q.key.length : Int) = true
      ∧ TC.i.fits (q.val.length : Int) = true) →
    itemsFrom r p fuel = .ok kvs
  | [], p, fuel, hf, he, _ => by
    cases fuel with
    | zero => simp at hf
    | succ n =>
      unfold itemsFrom
      rw [if_neg (by rw [he]; simp [endPos])]
  | kv :: t, p, fuel, hf, he, hall => by
    cases fuel with
    | zero => simp at hf
    | succ n =>
      have hlt : p < r.endofdata := by
        have := le_endPos (kv :: t) p
        rw [he]; simp only [List.length_cons] at this; omega
      rcases hall ⟨p, kv.1, kv.2⟩ (by simp [layout]) with ⟨hra, hf1, hf2⟩
      have ih := itemsFrom_layout r t (p + lengthsSize + kv.1.length + kv.2.length) n
        (by simpa using hf) (by rw [he]; simp [endPos])
        (fun q hq => hall q (by simp only [layout, List.mem_cons]; exact Or.inr hq))
      unfold itemsFrom
      rw [if_pos hlt]
      have hl := hra.lens
      simp only at hl
      rw [hl]
      unfold enc2
      rw [unpack2N_enc .i .i _ _ hf1 hf2]
      simp only [bind, Except.bind]
      have e : p + 8 + kv.1.length + kv.2.length = p + lengthsSize + kv.1.length + kv.2.length := rfl
      rw [e, ih]
      have hk := hra.key
      have hv := hra.val
      simp only at hk hv
      rw [hk, hv]

theorem items_written {hash : Key → Nat} {so : Nat} {kvs : List (Key × Bytes)} {f : File Bytes}
    (w : Written hash so kvs f) (magic extras pre : Bytes) (hashtype : Nat)
    (hm : magic.length = 4) (hp : pre.length = so) (r : Reader)
    (hrf : r.file = fileBytes magic hashtype extras pre f) (hre : r.endofdata = f.endofdata)
    (hrs : r.startofdata = so + 13) : items r = .ok kvs := by
  unfold items
  have lH : (pre ++ headerBytes magic hashtype).length = so + headerSize := by
    unfold headerBytes
    simp only [List.length_append, length_encodeBE, hm, hp, headerSize]
  rw [hrs]
  apply itemsFrom_layout r kvs (so + 13) (r.endofdata + 1)
  · have := le_endPos kvs (so + headerSize)
    rw [hre, w.built.eod]; omega
  · rw [hre, w.built.eod]; rfl
  · intro q hq
    have hq2 : q ∈ f.recs := by rw [w.built.recs]; exact hq
    have hq' : q ∈ layout List.length (pre ++ headerBytes magic hashtype).length kvs := by rw [lH]; exact hq
    have hra := recAt_layout kvs (pre ++ headerBytes magic hashtype)
      (f.tables.flatten.flatMap slotBytes ++ ((directory f).flatMap dirEntryBytes ++ extras ++ encodeBE 4 extras.length))
      q hq'
    rw [lH, ← w.built.recs] at hra
    have hfile2 : r.file = pre ++ headerBytes magic hashtype ++ f.recs.flatMap recBytes
        ++ (f.tables.flatten.flatMap slotBytes
          ++ ((directory f).flatMap dirEntryBytes ++ extras ++ encodeBE 4 extras.length)) := by
      rw [hrf]; unfold fileBytes; simp only [List.append_assoc]
    rw [← hfile2] at hra
    have := w.recs q hq2
    exact ⟨hra, fitsNat _ _ (by rw [cap_i]; omega), fitsNat _ _ (by rw [cap_i]; omega)⟩

end WM.HashBytes
