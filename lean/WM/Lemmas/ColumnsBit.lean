import WM.Lemmas.ColumnsRows
/-! `BitColumn`: the `BitSet` byte array. -/
namespace WM.Columns

theorem and_two_pow_ne_zero (a j : Nat) : ((a &&& 2 ^ j) != 0) = a.testBit j := by
  by_cases h : a.testBit j = true
  · rw [h]
    have : (a &&& 2 ^ j).testBit j = true := by simp [Nat.testBit_and, h]
    have hne : a &&& 2 ^ j ≠ 0 := by
      intro e; rw [e, Nat.zero_testBit] at this; cases this
    simp [hne]
  · have h' : a.testBit j = false := by simpa using h
    rw [h']
    have : a &&& 2 ^ j = 0 := by
      apply Nat.eq_of_testBit_eq
      intro i
      rw [Nat.testBit_and, Nat.testBit_two_pow, Nat.zero_testBit]
      by_cases hij : j = i
      · subst hij; simp [h']
      · simp [hij]
    simp [this]

/-- Bit `i` of the byte array (as `BaseBitSet.__contains__` reads it). -/
def bitAt (bits : Bytes) (i : Nat) : Bool :=
  if i / 8 ≥ bits.length then false else (bits[i / 8]?.getD 0).testBit (i % 8)

theorem bitGet_eq (bits : Bytes) (flag : Nat) (i : Nat) : bitGet (bits ++ [flag]) i = bitAt bits i := by
  unfold bitGet bitAt
  simp only [List.length_append, List.length_singleton, Nat.add_sub_cancel, List.take_left']
  by_cases h : i / 8 ≥ bits.length
  · simp [h]
  · simp only [h, if_false]
    rw [Nat.one_shiftLeft, and_two_pow_ne_zero]

/-- `BitSet.add(i)` sets bit `i` and keeps every other bit. -/
theorem bitAt_bitAdd (bits : Bytes) (i j : Nat) :
    bitAt (bitAdd bits i) j = (bitAt bits j || decide (j = i)) := by
  -- the array after the optional resize
  let bits' := if i / 8 ≥ bits.length then bits ++ List.replicate (bytesForBits (i + 1) - bits.length) 0 else bits
  have hlen' : i / 8 < bits'.length := by
    simp only [bits']
    by_cases h : i / 8 ≥ bits.length
    · simp only [h, if_true, List.length_append, List.length_replicate, bytesForBits]; omega
    · simp only [h, if_false]; omega
  have hat' : ∀ k, bitAt bits' k = bitAt bits k := by
    intro k
    simp only [bits']
    by_cases h : i / 8 ≥ bits.length
    · simp only [h, if_true]
      unfold bitAt
      by_cases hk : k / 8 ≥ bits.length
      · simp only [hk, if_true]
        by_cases hk2 : k / 8 ≥ (bits ++ List.replicate (bytesForBits (i + 1) - bits.length) 0).length
        · rw [if_pos hk2]
        · rw [if_neg hk2]
          rw [List.getElem?_append_right hk, List.getElem?_replicate]
          split <;> simp [Nat.zero_testBit]
      · have hk2 : ¬ k / 8 ≥ (bits ++ List.replicate (bytesForBits (i + 1) - bits.length) 0).length := by
          simp only [List.length_append]; omega
        simp only [hk, hk2, if_false]
        rw [List.getElem?_append_left (by omega)]
    · simp only [h, if_false]
  have hadd : bitAdd bits i = bits'.set (i / 8) (bits'[i / 8]?.getD 0 ||| (1 <<< (i % 8))) := rfl
  rw [hadd, ← hat' j]
  unfold bitAt
  simp only [List.length_set]
  by_cases hj : j / 8 ≥ bits'.length
  · have hne : j ≠ i := by intro e; subst e; omega
    simp [hj, hne]
  · simp only [hj, if_false, List.getElem?_set]
    by_cases hb : i / 8 = j / 8
    · simp only [hb, if_true]
      have hlt : j / 8 < bits'.length := by omega
      simp only [hlt, if_true, Option.getD_some]
      rw [Nat.testBit_or, Nat.one_shiftLeft, Nat.testBit_two_pow]
      congr 1
      have : (i % 8 = j % 8) = (j = i) := by
        apply propext
        constructor
        · intro hm
          have h1 := Nat.div_add_mod i 8
          have h2 := Nat.div_add_mod j 8
          omega
        · intro e; rw [e]
      simp [this]
    · simp only [hb, if_false]
      have hne : j ≠ i := by intro e; subst e; exact hb rfl
      simp [hne]

theorem bitAt_init (j : Nat) : bitAt [0] j = false := by
  unfold bitAt
  by_cases h : j / 8 ≥ 1
  · simp [h]
  · have : j / 8 = 0 := by omega
    simp [this, Nat.zero_testBit]

theorem bitAt_foldl (adds : List (Nat × Bool)) (bits : Bytes) (j : Nat) :
    bitAt (adds.foldl (fun bs p => if p.2 then bitAdd bs p.1 else bs) bits) j
      = (bitAt bits j || adds.any (fun p => p.1 == j && p.2)) := by
  induction adds generalizing bits with
  | nil => simp
  | cons p rest ih =>
    obtain ⟨d, v⟩ := p
    simp only [List.foldl_cons, List.any_cons]
    rw [ih]
    cases v with
    | true =>
      simp only [if_true, bitAt_bitAdd, Bool.and_true]
      have : decide (j = d) = (d == j) := by
        by_cases h : j = d
        · simp [h]
        · have : ¬ d = j := fun e => h e.symm
          simp [h, this]
      rw [this, Bool.or_assoc]
    | false => simp

end WM.Columns
