import WM.Lemmas.ReplaceRest
/-! `replace()` without a quality threshold preserves the remaining list (C11 `replace0`), for every well-formed
tree - no assumption on scores or boosts. -/
namespace WM.Matcher

/-- what `replace s m 0` must deliver -/
structure Repl0OK (s : Shape) (m : St s) (out : Bool × Any) : Prop where
  wf : WF out.2.1 out.2.2
  eq : out.2.den = den s m
  same : out.1 = false → out.2 = ⟨s, m⟩

def Repl0Spec (s : Shape) (r : St s → Rat → Repl) : Prop :=
  ∀ m, WF s m → ∃ out, r m 0 = .ok out ∧ Repl0OK s m out

theorem Repl0OK.self (s : Shape) (m : St s) (h : WF s m) : Repl0OK s m (false, ⟨s, m⟩) := ⟨h, rfl, fun _ => rfl⟩

theorem Repl0OK.null_of_empty {s : Shape} {m : St s} (h : den s m = []) : Repl0OK s m (true, Any.null) :=
  ⟨trivial, h.symm, fun hh => by cases hh⟩

theorem Repl0OK.transfer {s s' : Shape} {m : St s} {m' : St s'} {out : Bool × Any} (h : Repl0OK s' m' out)
    (hd : den s' m' = den s m) : Repl0OK s m (true, out.2) := ⟨h.wf, h.eq.trans hd, fun hh => by cases hh⟩

theorem TF (s : Shape) : Faithful (ops s) (den s) (full s) (WF s) := tree_faithful s

theorem any_den_nil_of_inactive0 (r : Any) (h : WF r.1 r.2) (hi : r.isActive = false) : r.den = [] :=
  ((TF r.1).inactive h).1 hi

theorem any_active_of_den (r : Any) (h : WF r.1 r.2) (hd : r.den ≠ []) : r.isActive = true :=
  ((TF r.1).active _ h).2 hd

section
variable {sa sb : Shape} {ra : St sa → Rat → Repl} {rb : St sb → Rat → Repl}

theorem interReplace0 (hra : Repl0Spec sa ra) (hrb : Repl0Spec sb rb) :
    ∀ m, WF (.inter sa sb) m → ∃ out, interReplace sa sb ra rb m 0 = .ok out ∧ Repl0OK (.inter sa sb) m out := by
  intro m h
  obtain ⟨wa, wb, hal⟩ := h
  unfold interReplace
  by_cases hact : ((ops sa).isActive m.a && (ops sb).isActive m.b) = true
  · simp only [hact, Bool.not_true, Bool.false_eq_true, ↓reduceIte, bne_self_eq_false]
    obtain ⟨⟨ca, a'⟩, e1, oa⟩ := hra m.a wa
    obtain ⟨⟨cb, b'⟩, e2, ob⟩ := hrb m.b wb
    have E : interWith (· + ·) a'.den b'.den = interWith (· + ·) (den sa m.a) (den sb m.b) := by rw [oa.eq, ob.eq]
    unfold interMain
    simp only [e1, e2, bind, Except.bind]
    by_cases hact' : (a'.isActive && b'.isActive) = true
    · simp only [hact', Bool.not_true, Bool.false_eq_true, ↓reduceIte]
      by_cases hc : (ca || cb) = true
      · simp only [hc, ↓reduceIte]
        obtain ⟨i, g1, g2, g3, -⟩ := Inter.init_spec (· + ·) (TF a'.1) (TF b'.1) a'.2 b'.2 oa.wf ob.wf
        exact ⟨(true, ⟨.inter a'.1 b'.1, i⟩), by simp [mkInter, g1, bind, Except.bind]; rfl,
          ⟨g2, g3.trans E, fun hh => by cases hh⟩⟩
      · simp only [hc, Bool.false_eq_true, ↓reduceIte]
        exact ⟨_, rfl, Repl0OK.self (.inter sa sb) m ⟨wa, wb, hal⟩⟩
    · simp only [hact', Bool.not_false, ↓reduceIte]
      refine ⟨_, rfl, Repl0OK.null_of_empty ?_⟩
      show interWith (· + ·) (den sa m.a) (den sb m.b) = []
      rw [← E]
      rcases bool_and_false hact' with h1 | h1
      · rw [any_den_nil_of_inactive0 a' oa.wf h1]; exact interWith_nil_left _ _
      · rw [any_den_nil_of_inactive0 b' ob.wf h1]; exact interWith_nil_right _ _
  · simp only [hact, Bool.not_false, ↓reduceIte]
    refine ⟨_, rfl, Repl0OK.null_of_empty ?_⟩
    show interWith (· + ·) (den sa m.a) (den sb m.b) = []
    rcases bool_and_false hact with h1 | h1
    · rw [((TF sa).inactive wa).1 h1]; exact interWith_nil_left _ _
    · rw [((TF sb).inactive wb).1 h1]; exact interWith_nil_right _ _

theorem requireReplace0 (hra : Repl0Spec sa ra) (hrb : Repl0Spec sb rb) :
    ∀ m, WF (.require sa sb) m → ∃ out, requireReplace sa sb ra rb m 0 = .ok out ∧ Repl0OK (.require sa sb) m out := by
  intro m h
  obtain ⟨wa, wb, hal⟩ := h
  unfold requireReplace
  by_cases hact : ((ops sa).isActive m.a && (ops sb).isActive m.b) = true
  · simp only [hact, Bool.not_true, Bool.false_eq_true, ↓reduceIte, bne_self_eq_false]
    obtain ⟨⟨ca, a'⟩, e1, oa⟩ := hra m.a wa
    obtain ⟨⟨cb, b'⟩, e2, ob⟩ := hrb m.b wb
    have E : interWith (fun s _ => s) a'.den (den sb m.b) = interWith (fun s _ => s) (den sa m.a) (den sb m.b) := by
      rw [oa.eq]
    unfold requireMain
    simp only [e1, e2, bind, Except.bind]
    by_cases hact' : a'.isActive = true
    · simp only [hact', Bool.not_true, Bool.false_eq_true, ↓reduceIte]
      by_cases hc : (ca || cb) = true
      · simp only [hc, ↓reduceIte]
        obtain ⟨i, g1, g2, g3, -⟩ := Inter.init_spec (fun s _ => s) (TF a'.1) (TF sb) a'.2 m.b oa.wf wb
        exact ⟨(true, ⟨.require a'.1 sb, i⟩), by simp [mkRequire, g1, bind, Except.bind]; rfl,
          ⟨g2, g3.trans E, fun hh => by cases hh⟩⟩
      · simp only [hc, Bool.false_eq_true, ↓reduceIte]
        exact ⟨_, rfl, Repl0OK.self (.require sa sb) m ⟨wa, wb, hal⟩⟩
    · simp only [hact', Bool.not_false, ↓reduceIte]
      refine ⟨_, rfl, Repl0OK.null_of_empty ?_⟩
      show interWith (fun s _ => s) (den sa m.a) (den sb m.b) = []
      rw [← E, any_den_nil_of_inactive0 a' oa.wf (not_true_false hact')]; exact interWith_nil_left _ _
  · simp only [hact, Bool.not_false, ↓reduceIte]
    refine ⟨_, rfl, Repl0OK.null_of_empty ?_⟩
    show interWith (fun s _ => s) (den sa m.a) (den sb m.b) = []
    rcases bool_and_false hact with h1 | h1
    · rw [((TF sa).inactive wa).1 h1]; exact interWith_nil_left _ _
    · rw [((TF sb).inactive wb).1 h1]; exact interWith_nil_right _ _

theorem unionReplace0 (hra : Repl0Spec sa ra) (hrb : Repl0Spec sb rb) :
    ∀ m, WF (.union sa sb) m → ∃ out, unionReplace sa sb ra rb m 0 = .ok out ∧ Repl0OK (.union sa sb) m out := by
  intro m h
  obtain ⟨wa, wb⟩ := h
  unfold unionReplace
  simp only [bne_self_eq_false, Bool.false_and, Bool.false_eq_true, ↓reduceIte]
  unfold unionMain
  by_cases haa : (ops sa).isActive m.a = true
  · by_cases hba : (ops sb).isActive m.b = true
    · simp only [haa, hba, Bool.or_self, Bool.not_true, Bool.false_eq_true, ↓reduceIte]
      obtain ⟨⟨ca, a'⟩, e1, oa⟩ := hra m.a wa
      obtain ⟨⟨cb, b'⟩, e2, ob⟩ := hrb m.b wb
      simp only [slack_zero, e1, e2, bind, Except.bind]
      by_cases hc : (ca || cb) = true
      · simp only [hc, ↓reduceIte]
        refine ⟨(true, mkUnion a' b'), rfl, ⟨⟨oa.wf, ob.wf⟩, ?_, fun hh => by cases hh⟩⟩
        show unionWith (· + ·) a'.den b'.den = unionWith (· + ·) (den sa m.a) (den sb m.b)
        rw [oa.eq, ob.eq]
      · simp only [hc, Bool.false_eq_true, ↓reduceIte]
        exact ⟨_, rfl, Repl0OK.self (.union sa sb) m ⟨wa, wb⟩⟩
    · have hbf := not_true_false hba
      have hb0 : den sb m.b = [] := ((TF sb).inactive wb).1 hbf
      simp only [haa, hbf, Bool.or_false, Bool.not_true, Bool.false_eq_true, ↓reduceIte, Bool.not_false]
      obtain ⟨out, e1, oa⟩ := hra m.a wa
      have hd : den sa m.a = den (.union sa sb) m := by
        show _ = unionWith (· + ·) (den sa m.a) (den sb m.b); rw [hb0, unionWith_nil_right]
      exact ⟨(true, out.2), changed_ok e1, oa.transfer hd⟩
  · have haf := not_true_false haa
    have ha0 : den sa m.a = [] := ((TF sa).inactive wa).1 haf
    by_cases hba : (ops sb).isActive m.b = true
    · simp only [haf, hba, Bool.or_true, Bool.not_true, Bool.false_eq_true, ↓reduceIte, Bool.not_false]
      obtain ⟨out, e1, ob⟩ := hrb m.b wb
      have hd : den sb m.b = den (.union sa sb) m := by
        show _ = unionWith (· + ·) (den sa m.a) (den sb m.b); rw [ha0, unionWith_nil_left]
      exact ⟨(true, out.2), changed_ok e1, ob.transfer hd⟩
    · have hbf := not_true_false hba
      have hb0 : den sb m.b = [] := ((TF sb).inactive wb).1 hbf
      simp only [haf, hbf, Bool.or_self, Bool.not_false, ↓reduceIte]
      refine ⟨_, rfl, Repl0OK.null_of_empty ?_⟩
      show unionWith (· + ·) (den sa m.a) (den sb m.b) = []
      rw [ha0, hb0]; exact unionWith_nil_left _ _

theorem dismaxReplace0 (hra : Repl0Spec sa ra) (hrb : Repl0Spec sb rb) :
    ∀ m, WF (.dismax sa sb) m → ∃ out, dismaxReplace sa sb ra rb m 0 = .ok out ∧ Repl0OK (.dismax sa sb) m out := by
  intro m h
  obtain ⟨wa, wb⟩ := h
  unfold dismaxReplace
  simp only [bne_self_eq_false, Bool.false_and, Bool.false_eq_true, ↓reduceIte]
  unfold dismaxMain
  by_cases haa : (ops sa).isActive m.a = true
  · by_cases hba : (ops sb).isActive m.b = true
    · simp only [haa, hba, Bool.or_self, Bool.not_true, Bool.false_eq_true, ↓reduceIte]
      obtain ⟨⟨ca, a'⟩, e1, oa⟩ := hra m.a wa
      obtain ⟨⟨cb, b'⟩, e2, ob⟩ := hrb m.b wb
      have E : unionWith max a'.den b'.den = unionWith max (den sa m.a) (den sb m.b) := by rw [oa.eq, ob.eq]
      simp only [e1, e2, bind, Except.bind]
      by_cases ha' : a'.isActive = true
      · by_cases hb' : b'.isActive = true
        · simp only [ha', hb', Bool.or_self, Bool.not_true, Bool.false_eq_true, ↓reduceIte]
          by_cases hc : (ca || cb) = true
          · simp only [hc, ↓reduceIte]
            exact ⟨(true, mkDisMax a' b'), rfl, ⟨⟨oa.wf, ob.wf⟩, E, fun hh => by cases hh⟩⟩
          · simp only [hc, Bool.false_eq_true, ↓reduceIte]
            exact ⟨_, rfl, Repl0OK.self (.dismax sa sb) m ⟨wa, wb⟩⟩
        · have hbf := not_true_false hb'
          have hbn := any_den_nil_of_inactive0 b' ob.wf hbf
          simp only [ha', hbf, Bool.or_false, Bool.not_true, Bool.false_eq_true, ↓reduceIte, Bool.not_false]
          have hd : unionWith max a'.den b'.den = a'.den := by rw [hbn, unionWith_nil_right]
          exact ⟨(true, a'), rfl, ⟨oa.wf, hd ▸ E, fun hh => by cases hh⟩⟩
      · have haf := not_true_false ha'
        have han := any_den_nil_of_inactive0 a' oa.wf haf
        have hd : unionWith max a'.den b'.den = b'.den := by rw [han, unionWith_nil_left]
        by_cases hb' : b'.isActive = true
        · simp only [haf, hb', Bool.or_true, Bool.not_true, Bool.false_eq_true, ↓reduceIte, Bool.not_false]
          exact ⟨(true, b'), rfl, ⟨ob.wf, hd ▸ E, fun hh => by cases hh⟩⟩
        · have hbf := not_true_false hb'
          have hbn := any_den_nil_of_inactive0 b' ob.wf hbf
          simp only [haf, hbf, Bool.or_self, Bool.not_false, ↓reduceIte]
          refine ⟨_, rfl, Repl0OK.null_of_empty ?_⟩
          show unionWith max (den sa m.a) (den sb m.b) = []
          rw [← E, hd, hbn]
    · have hbf := not_true_false hba
      have hb0 : den sb m.b = [] := ((TF sb).inactive wb).1 hbf
      simp only [haa, hbf, Bool.or_false, Bool.not_true, Bool.false_eq_true, ↓reduceIte, Bool.not_false]
      obtain ⟨out, e1, oa⟩ := hra m.a wa
      have hd : den sa m.a = den (.dismax sa sb) m := by
        show _ = unionWith max (den sa m.a) (den sb m.b); rw [hb0, unionWith_nil_right]
      exact ⟨(true, out.2), changed_ok e1, oa.transfer hd⟩
  · have haf := not_true_false haa
    have ha0 : den sa m.a = [] := ((TF sa).inactive wa).1 haf
    by_cases hba : (ops sb).isActive m.b = true
    · simp only [haf, hba, Bool.or_true, Bool.not_true, Bool.false_eq_true, ↓reduceIte, Bool.not_false]
      obtain ⟨out, e1, ob⟩ := hrb m.b wb
      have hd : den sb m.b = den (.dismax sa sb) m := by
        show _ = unionWith max (den sa m.a) (den sb m.b); rw [ha0, unionWith_nil_left]
      exact ⟨(true, out.2), changed_ok e1, ob.transfer hd⟩
    · have hbf := not_true_false hba
      have hb0 : den sb m.b = [] := ((TF sb).inactive wb).1 hbf
      simp only [haf, hbf, Bool.or_self, Bool.not_false, ↓reduceIte]
      refine ⟨_, rfl, Repl0OK.null_of_empty ?_⟩
      show unionWith max (den sa m.a) (den sb m.b) = []
      rw [ha0, hb0]; exact unionWith_nil_left _ _

theorem andNotReplace0 (hra : Repl0Spec sa ra) (hrb : Repl0Spec sb rb) :
    ∀ m, WF (.andNot sa sb) m → ∃ out, andNotReplace sa sb ra rb m 0 = .ok out ∧ Repl0OK (.andNot sa sb) m out := by
  intro m h
  obtain ⟨wa, wb, hal⟩ := h
  unfold andNotReplace
  by_cases haa : (ops sa).isActive m.a = true
  · simp only [haa, Bool.not_true, Bool.false_eq_true, ↓reduceIte, bne_self_eq_false]
    unfold andNotMain
    by_cases hba : (ops sb).isActive m.b = true
    · simp only [hba, Bool.not_true, Bool.false_eq_true, ↓reduceIte]
      obtain ⟨⟨ca, a'⟩, e1, oa⟩ := hra m.a wa
      obtain ⟨⟨cb, b'⟩, e2, ob⟩ := hrb m.b wb
      simp only [e1, e2, bind, Except.bind]
      by_cases hc : (ca || cb) = true
      · simp only [hc, ↓reduceIte]
        obtain ⟨i, g1, g2, g3, -⟩ := AndNot.init_spec (TF a'.1) (TF b'.1) a'.2 b'.2 oa.wf ob.wf
        refine ⟨(true, ⟨.andNot a'.1 b'.1, i⟩), by simp [mkAndNot, g1, bind, Except.bind]; rfl,
          ⟨g2, ?_, fun hh => by cases hh⟩⟩
        show diff (den a'.1 i.a) (den b'.1 i.b) = diff (den sa m.a) (den sb m.b)
        rw [g3]; show diff a'.den b'.den = _; rw [oa.eq, ob.eq]
      · simp only [hc, Bool.false_eq_true, ↓reduceIte]
        exact ⟨_, rfl, Repl0OK.self (.andNot sa sb) m ⟨wa, wb, hal⟩⟩
    · have hbf := not_true_false hba
      have hb0 : den sb m.b = [] := ((TF sb).inactive wb).1 hbf
      simp only [hbf, Bool.not_false, ↓reduceIte]
      obtain ⟨out, e1, oa⟩ := hra m.a wa
      have hd : den sa m.a = den (.andNot sa sb) m := by
        show _ = diff (den sa m.a) (den sb m.b); rw [hb0, diff_nil_right]
      exact ⟨(true, out.2), changed_ok e1, oa.transfer hd⟩
  · have haf := not_true_false haa
    have ha0 : den sa m.a = [] := ((TF sa).inactive wa).1 haf
    simp only [haf, Bool.not_false, ↓reduceIte]
    refine ⟨_, rfl, Repl0OK.null_of_empty ?_⟩
    show diff (den sa m.a) (den sb m.b) = []
    rw [ha0]; rfl

theorem andMaybeReplace0 (hra : Repl0Spec sa ra) (hrb : Repl0Spec sb rb) :
    ∀ m, WF (.andMaybe sa sb) m → ∃ out, andMaybeReplace sa sb ra rb m 0 = .ok out ∧ Repl0OK (.andMaybe sa sb) m out := by
  intro m h
  obtain ⟨wa, wb, hal⟩ := h
  unfold andMaybeReplace
  by_cases haa : (ops sa).isActive m.a = true
  · simp only [haa, Bool.not_true, Bool.false_eq_true, ↓reduceIte, bne_self_eq_false, Bool.false_and]
    by_cases hba : (ops sb).isActive m.b = true
    · simp only [hba, Bool.not_true, Bool.false_eq_true, ↓reduceIte]
      unfold andMaybeMain
      obtain ⟨⟨ca, a'⟩, e1, oa⟩ := hra m.a wa
      obtain ⟨⟨cb, b'⟩, e2, ob⟩ := hrb m.b wb
      simp only [slack_zero, e1, e2, bind, Except.bind]
      by_cases hc : (ca || cb) = true
      · simp only [hc, ↓reduceIte]
        obtain ⟨i, g1, g2, g3, -⟩ := AndMaybe.init_spec (TF a'.1) (TF b'.1) a'.2 b'.2 oa.wf ob.wf
        refine ⟨(true, ⟨.andMaybe a'.1 b'.1, i⟩), by simp [mkAndMaybe, g1, bind, Except.bind]; rfl,
          ⟨g2, ?_, fun hh => by cases hh⟩⟩
        show leftJoin (den a'.1 i.a) (den b'.1 i.b) = leftJoin (den sa m.a) (den sb m.b)
        rw [g3]; show leftJoin a'.den b'.den = _; rw [oa.eq, ob.eq]
      · simp only [hc, Bool.false_eq_true, ↓reduceIte]
        exact ⟨_, rfl, Repl0OK.self (.andMaybe sa sb) m ⟨wa, wb, hal⟩⟩
    · have hbf := not_true_false hba
      have hb0 : den sb m.b = [] := ((TF sb).inactive wb).1 hbf
      simp only [hbf, Bool.not_false, ↓reduceIte]
      obtain ⟨out, e1, oa⟩ := hra m.a wa
      have hd : den sa m.a = den (.andMaybe sa sb) m := by
        show _ = leftJoin (den sa m.a) (den sb m.b); rw [hb0, leftJoin_nil_right]
      exact ⟨(true, out.2), changed_ok e1, oa.transfer hd⟩
  · have haf := not_true_false haa
    have ha0 : den sa m.a = [] := ((TF sa).inactive wa).1 haf
    simp only [haf, Bool.not_false, ↓reduceIte]
    refine ⟨_, rfl, Repl0OK.null_of_empty ?_⟩
    show leftJoin (den sa m.a) (den sb m.b) = []
    rw [ha0]; rfl

end

theorem replace0_wrap_boost (sc : Shape) (ih : Repl0Spec sc (replace sc)) : Repl0Spec (.boost sc) (replace (.boost sc)) := by
  intro m h
  obtain ⟨⟨c, r⟩, h1, h2⟩ := ih m.child h
  show ∃ out, (do let (c, r) ← replace sc m.child 0
                  if c then pure (true, mkBoost r m.boost) else pure (false, (⟨.boost sc, m⟩ : Any))) = _ ∧ _
  rw [h1]
  cases c with
  | false => exact ⟨(false, ⟨.boost sc, m⟩), rfl, Repl0OK.self _ m h⟩
  | true =>
    refine ⟨(true, mkBoost r m.boost), rfl, ⟨h2.wf, ?_, fun hh => by cases hh⟩⟩
    show scale m.boost r.den = scale m.boost (den sc m.child)
    rw [h2.eq]

theorem replace0_wrap_const (sc : Shape) (ih : Repl0Spec sc (replace sc)) : Repl0Spec (.const sc) (replace (.const sc)) := by
  intro m h
  obtain ⟨⟨c, r⟩, h1, h2⟩ := ih m.child h
  show ∃ out, (if (0 : Rat) != 0 && decide (m.score < 0) then nullRepl
    else do let (c, r) ← replace sc m.child 0
            if c then pure (true, mkConst r m.score) else pure (false, (⟨.const sc, m⟩ : Any))) = _ ∧ _
  simp only [bne_self_eq_false, Bool.false_and, Bool.false_eq_true, ↓reduceIte, h1]
  cases c with
  | false => exact ⟨(false, ⟨.const sc, m⟩), rfl, Repl0OK.self _ m h⟩
  | true =>
    refine ⟨(true, mkConst r m.score), rfl, ⟨h2.wf, ?_, fun hh => by cases hh⟩⟩
    show constScore m.score r.den = constScore m.score (den sc m.child)
    rw [h2.eq]

theorem replace0_wrap_filter (sc : Shape) (ih : Repl0Spec sc (replace sc)) : Repl0Spec (.filter sc) (replace (.filter sc)) := by
  intro m h
  obtain ⟨⟨c, r⟩, h1, h2⟩ := ih m.child h.1
  show ∃ out, (do let (c, r) ← replace sc m.child 0
                  if c then (do let f ← mkFilter r m.ids m.exclude m.boost; pure (true, f))
                  else pure (false, (⟨.filter sc, m⟩ : Any))) = _ ∧ _
  rw [h1]
  cases c with
  | false => exact ⟨(false, ⟨.filter sc, m⟩), rfl, Repl0OK.self _ m h⟩
  | true =>
    obtain ⟨m', g1, g2, g3, -⟩ := Filter.init_spec (TF r.1) r.2 m.ids m.exclude m.boost h2.wf
    refine ⟨(true, ⟨.filter r.1, m'⟩), by simp [mkFilter, g1, bind, Except.bind]; rfl, ⟨g2, ?_, fun hh => by cases hh⟩⟩
    show scale m'.boost (keepIds m'.ids m'.exclude (den r.1 m'.child)) = _
    rw [g3]; show scale m.boost (keepIds m.ids m.exclude r.den) = _; rw [h2.eq]; rfl

theorem replace0_wrap_inverse (sc : Shape) (ih : Repl0Spec sc (replace sc)) :
    Repl0Spec (.inverse sc) (replace (.inverse sc)) := by
  intro m h
  obtain ⟨⟨c, r⟩, h1, h2⟩ := ih m.child h.1
  show ∃ out, (do let (c, r) ← replace sc m.child 0
                  if c then (do let f ← mkInverse r m.limit m.missing m.weight m.id; pure (true, f))
                  else pure (false, (⟨.inverse sc, m⟩ : Any))) = _ ∧ _
  rw [h1]
  cases c with
  | false => exact ⟨(false, ⟨.inverse sc, m⟩), rfl, Repl0OK.self _ m h⟩
  | true =>
    obtain ⟨m', g1, g2, g3, -⟩ := Inverse.init_spec (TF r.1) r.2 m.limit m.missing m.weight m.id h2.wf
    refine ⟨(true, ⟨.inverse r.1, m'⟩), by simp [mkInverse, g1, bind, Except.bind]; rfl, ⟨g2, ?_, fun hh => by cases hh⟩⟩
    show complement m'.id m'.limit m'.missing (den r.1 m'.child) m'.weight = _
    rw [g3]; show complement m.id m.limit m.missing r.den m.weight = _; rw [h2.eq]; rfl

theorem replace0_list : Repl0Spec .list (replace .list) := by
  intro m h
  show ∃ out, (if !ListM.isActive m then nullRepl
    else if (0 : Rat) != 0 && decide (m.blockMaxWeight < 0) then nullRepl else pure (false, ⟨.list, m⟩)) = _ ∧ _
  by_cases ha : ListM.isActive m = true
  · simp only [ha, Bool.not_true, Bool.false_eq_true, ↓reduceIte, bne_self_eq_false, Bool.false_and]
    exact ⟨_, rfl, Repl0OK.self .list m h⟩
  · simp only [ha, Bool.not_false, ↓reduceIte]
    refine ⟨_, rfl, Repl0OK.null_of_empty ?_⟩
    have hf : ListM.ops.isActive m = false := by
      show ListM.isActive m = false
      exact not_true_false ha
    exact (ListM.faithful.inactive h).1 hf

theorem replace0_multi (sc : Shape) : Repl0Spec (.multi sc) (replace (.multi sc)) := by
  intro m h
  show ∃ out, (do let (m', ch) ← Multi.replaceCore (ops sc) m 0
                  if !Multi.isActive m' then nullRepl else pure (ch, (⟨.multi sc, m'⟩ : Any))) = _ ∧ _
  have : Multi.replaceCore (ops sc) m 0 = .ok (m, false) := rfl
  simp only [this, bind, Except.bind]
  by_cases ha : Multi.isActive m = true
  · simp only [ha, Bool.not_true, Bool.false_eq_true, ↓reduceIte]
    exact ⟨_, rfl, Repl0OK.self (.multi sc) m h⟩
  · simp only [ha, Bool.not_false, ↓reduceIte]
    refine ⟨_, rfl, Repl0OK.null_of_empty ?_⟩
    exact ((TF (.multi sc)).inactive h).1 (by show Multi.isActive m = false; simpa using ha)

/-- `replace(0)` of every matcher tree preserves the remaining list -/
theorem replace0_spec : ∀ s : Shape, Repl0Spec s (replace s)
  | .null => fun m h => ⟨(false, Any.null), rfl, Repl0OK.self .null m h⟩
  | .list => replace0_list
  | .leaf => fun m h => ⟨(false, ⟨.leaf, m⟩), rfl, Repl0OK.self .leaf m h⟩
  | .union a b => unionReplace0 (replace0_spec a) (replace0_spec b)
  | .dismax a b => dismaxReplace0 (replace0_spec a) (replace0_spec b)
  | .inter a b => interReplace0 (replace0_spec a) (replace0_spec b)
  | .andNot a b => andNotReplace0 (replace0_spec a) (replace0_spec b)
  | .andMaybe a b => andMaybeReplace0 (replace0_spec a) (replace0_spec b)
  | .require a b => requireReplace0 (replace0_spec a) (replace0_spec b)
  | .boost c => replace0_wrap_boost c (replace0_spec c)
  | .filter c => replace0_wrap_filter c (replace0_spec c)
  | .inverse c => replace0_wrap_inverse c (replace0_spec c)
  | .const c => replace0_wrap_const c (replace0_spec c)
  | .multi c => replace0_multi c
  | .aunion c => fun m h => ⟨(false, ⟨.aunion c, m⟩), rfl, Repl0OK.self (.aunion c) m h⟩

end WM.Matcher
