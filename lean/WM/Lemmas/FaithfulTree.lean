import WM.Lemmas.FaithfulUnion
import WM.Lemmas.FaithfulAndNot
import WM.Lemmas.FaithfulInverse
import WM.Lemmas.FaithfulLeaf
import WM.Lemmas.FaithfulMulti
import WM.Lemmas.FaithfulCombo
/-! Every matcher tree is a faithful cursor: the per-node lemmas assembled along the `Shape`. -/
namespace WM.Matcher

/-- Well-formedness of a matcher tree (DESIGN Appendix E): the invariant every constructor
    establishes and every operation preserves. -/
def WF : (s : Shape) → St s → Prop
  | .null, _ => True
  | .list, m => ListM.WF m
  | .leaf, m => LeafM.WF m
  | .union a b, m => WF a m.a ∧ WF b m.b
  | .dismax a b, m => WF a m.a ∧ WF b m.b
  | .inter a b, m => WF a m.a ∧ WF b m.b ∧ Inter.Aligned (den a) (den b) m
  | .andNot a b, m => WF a m.a ∧ WF b m.b ∧ AndNot.Ahead (den a) (den b) m
  | .andMaybe a b, m => WF a m.a ∧ WF b m.b ∧ AndMaybe.NotBehind (den a) (den b) m
  | .require a b, m => WF a m.a ∧ WF b m.b ∧ Inter.Aligned (den a) (den b) m
  | .boost c, m => WF c m.child
  | .filter c, m => WF c m.child ∧ Filter.Passes (den c) m.ids m.exclude m.child
  | .inverse c, m => WF c m.child ∧ Inverse.Stops (den c) m.limit m.missing m.child m.id
  | .const c, m => WF c m.child
  | .multi c, m => Multi.WF (ops c) (den c) (full c) (WF c) m
  | .aunion c, m => AUnion.WF (den c) (full c) (WF c) m

theorem tree_faithful : ∀ s : Shape, Faithful (ops s) (den s) (full s) (WF s)
  | .null => null_faithful
  | .list => ListM.faithful
  | .leaf => LeafM.faithful
  | .union a b => Union.faithful (tree_faithful a) (tree_faithful b)
  | .dismax a b => DisMax.faithful (tree_faithful a) (tree_faithful b)
  | .inter a b => Inter.faithful (tree_faithful a) (tree_faithful b)
  | .andNot a b => AndNot.faithful (tree_faithful a) (tree_faithful b)
  | .andMaybe a b => AndMaybe.faithful (tree_faithful a) (tree_faithful b)
  | .require a b => Require.faithful (tree_faithful a) (tree_faithful b)
  | .boost c => Boost.faithful (tree_faithful c)
  | .filter c => Filter.faithful (tree_faithful c)
  | .inverse c => Inverse.faithful (tree_faithful c)
  | .const c => Const.faithful (tree_faithful c)
  | .multi c => Multi.faithful (tree_faithful c)
  | .aunion c => AUnion.faithful (tree_faithful c)

end WM.Matcher
