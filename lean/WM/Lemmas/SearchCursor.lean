import WM.Props.C11
import WM.Lemmas.SearchIndex
/-!
Bridge between the list algebra of `WM.Compile` (lists of `Hit`) and the result lists of the
matcher family (`WM.Matcher.Den`, lists of pairs): the two vocabularies are the same operations.
-/
namespace WM.Compile
open WM.Search

/-- a result list of the cursor model as a posting list of the search model -/
def toPL (L : WM.Matcher.Den) : PL := L.map (fun p => (⟨p.1, p.2⟩ : Hit))

@[simp] theorem toPL_nil : toPL [] = [] := rfl
@[simp] theorem toPL_cons (p : Nat × Rat) (L : WM.Matcher.Den) : toPL (p :: L) = ⟨p.1, p.2⟩ :: toPL L := rfl

theorem lookup_toPL (L : WM.Matcher.Den) (i : Nat) : lookup (toPL L) i = WM.Matcher.lookup L i := by
  induction L with
  | nil => rfl
  | cons p L ih =>
    obtain ⟨x, s⟩ := p
    rw [toPL_cons, lookup_cons, WM.Matcher.lookup, ih]

theorem toPL_unionWith (f : Rat → Rat → Rat) (A B : WM.Matcher.Den) :
    toPL (WM.Matcher.unionWith f A B) = mergeWith f (toPL A) (toPL B) := by
  fun_induction WM.Matcher.unionWith f A B with
  | case1 B => simp [mergeWith]
  | case2 A hA =>
    cases A with
    | nil => simp [mergeWith]
    | cons a A => simp [mergeWith]
  | case3 x s A y t B hlt ih =>
    simp only [toPL_cons] at ih ⊢
    rw [mergeWith]
    simp [hlt, ih]
  | case4 x s A y t B hlt hgt ih =>
    simp only [toPL_cons] at ih ⊢
    rw [mergeWith]
    simp [hlt, hgt, ih]
  | case5 x s A y t B hlt hgt ih =>
    simp only [toPL_cons] at ih ⊢
    rw [mergeWith]
    simp [hlt, hgt, ih]

theorem ratMax_eq_max (x y : Rat) : ratMax x y = max x y := by
  unfold ratMax
  rw [Rat.max_def]
  split <;> split <;> grind

theorem toPL_unionAdd (A B : WM.Matcher.Den) :
    toPL (WM.Matcher.unionWith (· + ·) A B) = unionL (toPL A) (toPL B) := toPL_unionWith _ A B

theorem toPL_unionMax (A B : WM.Matcher.Den) :
    toPL (WM.Matcher.unionWith max A B) = dismaxL (toPL A) (toPL B) := by
  have : (max : Rat → Rat → Rat) = ratMax := by funext x y; rw [ratMax_eq_max]
  rw [this]; exact toPL_unionWith _ A B

theorem toPL_interAdd (A B : WM.Matcher.Den) :
    toPL (WM.Matcher.interWith (· + ·) A B) = interL (toPL A) (toPL B) := by
  unfold WM.Matcher.interWith interL toPL
  rw [List.filterMap_map, List.map_filterMap]
  congr 1
  funext p
  simp only [Function.comp]
  rw [show lookup (List.map (fun p => ({ id := p.1, score := p.2 } : Hit)) B) p.1 = WM.Matcher.lookup B p.1 from
    lookup_toPL B p.1]
  cases WM.Matcher.lookup B p.1 <;> rfl

theorem toPL_diff (A B : WM.Matcher.Den) : toPL (WM.Matcher.diff A B) = andNotL (toPL A) (toPL B) := by
  unfold WM.Matcher.diff andNotL toPL
  rw [List.filter_map]
  congr 1
  apply List.filter_congr
  intro p _
  simp only [Function.comp]
  rw [show lookup (List.map (fun p => ({ id := p.1, score := p.2 } : Hit)) B) p.1 = WM.Matcher.lookup B p.1 from
    lookup_toPL B p.1]

theorem toPL_require (A B : WM.Matcher.Den) :
    toPL (WM.Matcher.interWith (fun s _ => s) A B) = requireL (toPL A) (toPL B) := by
  unfold WM.Matcher.interWith requireL
  induction A with
  | nil => rfl
  | cons p A ih =>
    rw [List.filterMap_cons, toPL_cons, List.filter_cons]
    rw [lookup_toPL]
    cases h : WM.Matcher.lookup B p.1 with
    | none => simpa using ih
    | some t => simp [ih]

theorem toPL_leftJoin (A B : WM.Matcher.Den) : toPL (WM.Matcher.leftJoin A B) = andMaybeL (toPL A) (toPL B) := by
  unfold WM.Matcher.leftJoin andMaybeL toPL
  rw [List.map_map, List.map_map]
  apply List.map_congr_left
  intro p _
  simp only [Function.comp]
  rw [show lookup (List.map (fun p => ({ id := p.1, score := p.2 } : Hit)) B) p.1 = WM.Matcher.lookup B p.1 from
    lookup_toPL B p.1]
  cases WM.Matcher.lookup B p.1 <;> rfl

theorem toPL_scale (w : Rat) (A : WM.Matcher.Den) : toPL (WM.Matcher.scale w A) = boostL w (toPL A) := by
  simp [WM.Matcher.scale, boostL, toPL, List.map_map, Function.comp_def]

theorem toPL_constScore (c : Rat) (A : WM.Matcher.Den) :
    toPL (WM.Matcher.constScore c A) = constL c (toPL A) := by
  simp [WM.Matcher.constScore, constL, toPL, List.map_map, Function.comp_def]

/-- `InverseMatcher(child, doc_count_all, missing=is_deleted)` from id 0, weight 1 -/
theorem toPL_complement (s : Segment) (C : WM.Matcher.Den) :
    toPL (WM.Matcher.complement 0 s.size s.deleted C 1) =
      (s.live.filter (fun i => (lookup (toPL C) i).isNone)).map (fun i => (⟨i, 1⟩ : Hit)) := by
  unfold WM.Matcher.complement toPL Segment.live
  rw [List.map_map, Nat.sub_zero, ← List.range_eq_range', List.filter_filter]
  congr 1
  apply List.filter_congr
  intro i _
  rw [show lookup (List.map (fun p => ({ id := p.1, score := p.2 } : Hit)) C) i = WM.Matcher.lookup C i from
    lookup_toPL C i]
  cases (s.deleted.contains i) <;> simp

end WM.Compile
