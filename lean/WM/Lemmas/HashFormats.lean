import WM.Lemmas.HashLookup
/-! What success of the format-checked writers (`buildE`, `buildOrderedE`) implies. -/
set_option linter.unusedSimpArgs false
namespace WM.C20
open WM.HashFile

theorem buildE_ok {α} {hash : Key → Nat} {vlen : α → Nat} {so : Nat} {kvs : List (Key × α)} {f : File α}
    (h : buildE hash vlen so kvs = .ok f) :
    build hash vlen so kvs = some f ∧ formatsOk hash vlen f = true := by
  unfold buildE at h
  cases hb : build hash vlen so kvs with
  | none => rw [hb] at h; cases h
  | some f' =>
    rw [hb] at h
    simp only at h
    by_cases hfo : formatsOk hash vlen f' = true
    · rw [if_pos hfo] at h
      cases h
      exact ⟨rfl, hfo⟩
    · rw [if_neg hfo] at h; cases h

theorem buildOrderedE_ok {α} {hash : Key → Nat} {vlen : α → Nat} {so : Nat} {kvs : List (Key × α)} {f : File α}
    (h : buildOrderedE hash vlen so kvs = .ok f) :
    orderedKeysOk [] (kvs.map (·.1)) = true ∧ build hash vlen so kvs = some f ∧
      (indexArray (f.recs.map (·.pos))).2 = false ∧ formatsOk hash vlen f = true := by
  unfold buildOrderedE at h
  by_cases ho : orderedKeysOk [] (kvs.map (·.1)) = true
  · rw [if_pos ho] at h
    cases hb : build hash vlen so kvs with
    | none => rw [hb] at h; cases h
    | some f' =>
      rw [hb] at h
      simp only at h
      by_cases hov : (indexArray (f'.recs.map (·.pos))).2 = true
      · rw [if_pos hov] at h; cases h
      · rw [if_neg hov] at h
        by_cases hfo : formatsOk hash vlen f' = true
        · rw [if_pos hfo] at h
          cases h
          exact ⟨ho, rfl, by simpa using hov, hfo⟩
        · rw [if_neg hfo] at h; cases h
  · rw [if_neg ho] at h; cases h

theorem sum_take_le (l : List Nat) (b : Nat) : 0 ≤ (l.take b).sum := Nat.zero_le _

/-- format limits hold for everything the file contains -/
theorem formatsOk_facts {α} {hash : Key → Nat} {vlen : α → Nat} {so : Nat} {kvs : List (Key × α)} {f : File α}
    (hb : Built hash vlen so kvs f) (h : formatsOk hash vlen f = true) :
    (∀ r ∈ f.recs, r.key.length < 2 ^ 31 ∧ vlen r.val < 2 ^ 31 ∧ hash r.key < 2 ^ 32 ∧ r.pos < 2 ^ 63) ∧
      (∀ t ∈ f.tables, t.length < 2 ^ 31) := by
  unfold formatsOk at h
  simp only [Bool.and_eq_true, List.all_eq_true, decide_eq_true_eq] at h
  rcases h with ⟨⟨h1, h2⟩, h3⟩
  refine ⟨?_, h2⟩
  intro r hr
  have := h1 r hr
  refine ⟨this.1.1, this.1.2, this.2, ?_⟩
  have hlt : r.pos < f.endofdata := by
    rw [hb.eod]
    apply layout_pos_lt_end vlen kvs
    rw [← hb.recs]; exact hr
  unfold tablePos at h3
  omega

theorem recs_of_kvs {α} {hash : Key → Nat} {vlen : α → Nat} {so : Nat} {kvs : List (Key × α)} {f : File α}
    (hb : Built hash vlen so kvs f) : ∀ kv ∈ kvs, ∃ r ∈ f.recs, r.key = kv.1 ∧ r.val = kv.2 := by
  intro kv hkv
  have hk : kvs = f.recs.map (fun r => (r.key, r.val)) := by rw [hb.recs, layout_kvs]
  rw [hk] at hkv
  rcases List.mem_map.mp hkv with ⟨r, hr, rfl⟩
  exact ⟨r, hr, rfl, rfl⟩

theorem built_of_build {α} {hash : Key → Nat} {vlen : α → Nat} {so : Nat} {kvs : List (Key × α)} {f : File α}
    (h : build hash vlen so kvs = some f) : Built hash vlen so kvs f := by
  rcases build_spec hash vlen so kvs with ⟨f', hf', hb⟩
  rw [h] at hf'
  cases Option.some.inj hf'
  exact hb

/-- `OrderedHashWriter.add`'s guard accepts exactly the strictly ascending sequences above `last`. -/
theorem orderedKeysOk_iff : ∀ (keys : List Key) (last : Key),
    orderedKeysOk last keys = true ↔ (last :: keys).Pairwise (· < ·)
  | [], last => by simp [orderedKeysOk]
  | k :: ks, last => by
    unfold orderedKeysOk
    have ih := orderedKeysOk_iff ks k
    by_cases hle : k ≤ last
    · simp only [hle, decide_true, ↓reduceIte, Bool.false_eq_true, false_iff]
      intro hp
      have := (List.pairwise_cons.mp hp).1 k (by simp)
      exact (List.not_lt.mpr hle) this
    · have hlt : last < k := List.not_le.mp hle
      simp only [hle, decide_false, Bool.false_eq_true, ↓reduceIte]
      rw [ih]
      constructor
      · intro hp
        apply List.pairwise_cons.mpr
        refine ⟨?_, hp⟩
        intro x hx
        simp only [List.mem_cons] at hx
        rcases hx with rfl | hx
        · exact hlt
        · exact List.lt_trans hlt ((List.pairwise_cons.mp hp).1 x hx)
      · intro hp
        exact (List.pairwise_cons.mp hp).2

end WM.C20
