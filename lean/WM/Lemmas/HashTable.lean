import WM.Lemmas.HashArith
/-! The open-addressing invariant of `HashWriter._write_hashes` and what the reader's probe sees. -/
set_option linter.unusedSimpArgs false
namespace WM.HashFile

/-- home slot of a hash value in a table of `n` slots: `(hashval >> 8) % numslots` -/
def home (n h : Nat) : Nat := (h / 256) % n

/-- the slots in the order the reader probes them from `H` -/
def probeList (T : List Slot) (H : Nat) : List Slot :=
  (List.range T.length).map fun d => T.getD (P T.length H d) null

/-- … up to the first empty one -/
def visited (T : List Slot) (H : Nat) : List Slot := (probeList T H).takeWhile nz

theorem length_probeList (T : List Slot) (H : Nat) : (probeList T H).length = T.length := by
  simp [probeList]

theorem getElem_probeList (T : List Slot) (H d : Nat) (hd : d < (probeList T H).length) :
    (probeList T H)[d] = T.getD (P T.length H d) null := by
  simp [probeList]

structure Inv (T placed : List Slot) : Prop where
  count : T.countP nz = placed.length
  shape : ∀ s ∈ T, s = null ∨ nz s = true
  mem : ∀ s ∈ T, nz s = true → s ∈ placed
  pnz : ∀ e ∈ placed, nz e = true
  reach : ∀ e ∈ placed, ∃ d, d < T.length ∧ T[P T.length (home T.length e.1) d]? = some e ∧
    ∀ d', d' < d → nz (T.getD (P T.length (home T.length e.1) d') null) = true
  uniq : ∀ (i j : Nat) (hi : i < T.length) (hj : j < T.length), T[i] = T[j] → nz T[i] = true → i = j
  q : ∀ kh, (visited T (home T.length kh)).filter (fun s => s.1 == kh)
    = placed.filter (fun s => s.1 == kh)

theorem inv_init (n : Nat) : Inv (List.replicate n null) [] where
  count := by
    rw [List.countP_eq_zero.mpr]
    · rfl
    · intro s hs; rw [List.mem_replicate] at hs; rw [hs.2]; simp [nz_null]
  shape := by intro s hs; rw [List.mem_replicate] at hs; exact Or.inl hs.2
  mem := by intro s hs h; rw [List.mem_replicate] at hs; rw [hs.2, nz_null] at h; cases h
  pnz := by intro e he; simp at he
  reach := by intro e he; simp at he
  uniq := by
    intro i j hi hj _ h
    rw [List.getElem_replicate, nz_null] at h; cases h
  q := by
    intro kh
    have hg : ∀ i, (List.replicate n null).getD i null = null := by
      intro i
      simp only [List.getD_eq_getElem?_getD, List.getElem?_replicate]
      split <;> rfl
    have : visited (List.replicate n null) (home (List.replicate n null).length kh) = [] := by
      unfold visited probeList
      cases n with
      | zero => simp
      | succ m =>
        simp only [List.length_replicate]
        rw [List.range_succ_eq_map, List.map_cons, List.takeWhile_cons, hg, nz_null]
        simp
    rw [this]

/-- The probe of `_write_hashes` finds the first empty slot, within `numslots` steps, as long as
    fewer slots are occupied than there are. -/
theorem findFree_spec (T : List Slot) (H : Nat) (hcount : T.countP nz < T.length)
    (hshape : ∀ s ∈ T, s = null ∨ nz s = true) :
    ∀ (fuel d : Nat), d + fuel = T.length →
      (∀ d', d' < d → nz (T.getD (P T.length H d') null) = true) →
      ∃ d0, d ≤ d0 ∧ d0 < T.length ∧ findFree T (P T.length H d) fuel = some (P T.length H d0) ∧
        T[P T.length H d0]? = some null ∧
        ∀ d', d' < d0 → nz (T.getD (P T.length H d') null) = true := by
  have hn : 0 < T.length := by omega
  intro fuel
  induction fuel with
  | zero =>
    intro d hd hall
    exfalso
    -- every slot is occupied: contradiction with the count
    have : T.countP nz = T.length := by
      rw [List.countP_eq_length]
      intro s hs
      rcases List.getElem_of_mem hs with ⟨i, hi, rfl⟩
      rcases P_surj H hi with ⟨d', hd', hP⟩
      have := hall d' (by omega)
      rw [hP, List.getD_eq_getElem?_getD, List.getElem?_eq_getElem hi] at this
      simpa using this
    omega
  | succ f ih =>
    intro d hd hall
    have hP := P_lt hn H d
    unfold findFree
    rw [List.getElem?_eq_getElem hP]
    simp only
    by_cases hs : (T[P T.length H d] != null) = true
    · rw [if_pos hs, P_succ]
      have hnz : nz T[P T.length H d] = true := by
        rcases hshape _ (List.getElem_mem hP) with h | h
        · rw [h] at hs; simp at hs
        · exact h
      rcases ih (d + 1) (by omega) (by
        intro d' hd'
        by_cases hdd : d' = d
        · subst hdd
          rw [List.getD_eq_getElem?_getD, List.getElem?_eq_getElem hP]; simpa using hnz
        · exact hall d' (by omega)) with ⟨d0, h1, h2, h3, h4, h5⟩
      exact ⟨d0, by omega, h2, h3, h4, h5⟩
    · rw [if_neg hs]
      have hnull : T[P T.length H d] = null := by simpa using hs
      refine ⟨d, Nat.le_refl _, by omega, rfl, ?_, hall⟩
      rw [List.getElem?_eq_getElem hP, hnull]

theorem getD_set (T : List Slot) (i j : Nat) (e : Slot) (hi : i < T.length) :
    (T.set i e).getD j null = if j = i then e else T.getD j null := by
  simp only [List.getD_eq_getElem?_getD, List.getElem?_set]
  by_cases h : i = j
  · subst h; simp [hi]
  · have : ¬ j = i := fun h' => h h'.symm
    simp [h, this]

theorem probeList_set (T : List Slot) (H dH : Nat) (e : Slot) (hd : dH < T.length) :
    probeList (T.set (P T.length H dH) e) H = (probeList T H).set dH e := by
  have hn : 0 < T.length := by omega
  apply List.ext_getElem
  · simp [probeList]
  · intro d h1 h2
    have hdl : d < T.length := by simpa [probeList] using h1
    rw [getElem_probeList, List.length_set, getD_set _ _ _ _ (P_lt hn H dH), List.getElem_set]
    by_cases hdd : dH = d
    · subst hdd; simp
    · have : ¬ P T.length H d = P T.length H dH := fun h => hdd (P_inj' hd hdl h.symm)
      simp only [this, ↓reduceIte, hdd]
      rw [getElem_probeList]

/-- One insertion keeps the invariant. -/
theorem inv_insert {T placed : List Slot} (hinv : Inv T placed) (e : Slot)
    (hroom : placed.length < T.length) (he : nz e = true) (hnew : e ∉ placed) :
    ∃ T', insertSlot T e = some T' ∧ T'.length = T.length ∧ Inv T' (placed ++ [e]) := by
  have hn : 0 < T.length := by omega
  rcases findFree_spec T (home T.length e.1) (by rw [hinv.count]; exact hroom) hinv.shape
      T.length 0 (by omega) (by intro d' hd'; omega) with ⟨d0, _, hd0, hff, hnull, hbefore⟩
  have hP0 : P T.length (home T.length e.1) 0 = home T.length e.1 := by
    unfold P home; simp [Nat.mod_mod]
  rw [hP0] at hff
  let s0 := P T.length (home T.length e.1) d0
  have hs0 : s0 < T.length := P_lt hn _ _
  have hnull' : T[s0] = null := by
    have := hnull
    rw [List.getElem?_eq_getElem hs0] at this
    exact Option.some.inj this
  refine ⟨T.set s0 e, ?_, by simp, ?_⟩
  · unfold insertSlot home at *
    rw [hff]; rfl
  -- the new table
  have hlen : (T.set s0 e).length = T.length := by simp
  have hene : e ≠ null := by intro h; rw [h, nz_null] at he; cases he
  have hget : ∀ (i : Nat) (hi : i < T.length), (T.set s0 e)[i]'(by rw [hlen]; exact hi) = if s0 = i then e else T[i] := by
    intro i hi; rw [List.getElem_set]
  constructor
  · -- count
    rw [countP_set_of_null hs0 (by rw [hnull']; rfl) he, hinv.count]; simp
  · -- shape
    intro s hs
    rcases List.getElem_of_mem hs with ⟨i, hi, rfl⟩
    rw [hlen] at hi
    rw [hget i hi]
    split
    · exact Or.inr he
    · exact hinv.shape _ (List.getElem_mem hi)
  · -- mem
    intro s hs hnzs
    rcases List.getElem_of_mem hs with ⟨i, hi, rfl⟩
    rw [hlen] at hi
    rw [hget i hi] at hnzs ⊢
    split
    · simp
    · next hne =>
      rw [if_neg hne] at hnzs
      exact List.mem_append_left _ (hinv.mem _ (List.getElem_mem hi) hnzs)
  · -- pnz
    intro x hx
    rw [List.mem_append, List.mem_singleton] at hx
    rcases hx with hx | rfl
    · exact hinv.pnz x hx
    · exact he
  · -- reach
    intro x hx
    rw [hlen]
    rw [List.mem_append, List.mem_singleton] at hx
    rcases hx with hx | rfl
    · rcases hinv.reach x hx with ⟨d, hd, hat, hbef⟩
      refine ⟨d, hd, ?_, ?_⟩
      · have hPd := P_lt hn (home T.length x.1) d
        rw [List.getElem?_eq_getElem (by rw [hlen]; exact hPd), hget _ hPd]
        rw [List.getElem?_eq_getElem hPd] at hat
        have hne : ¬ s0 = P T.length (home T.length x.1) d := by
          intro heq
          have h1 : T[s0] = x := by
            have := Option.some.inj hat
            rw [← this]; congr 1
          rw [hnull'] at h1
          have hxnz : nz x = true := hinv.pnz x hx
          rw [← h1, nz_null] at hxnz; cases hxnz
        rw [if_neg hne]
        exact hat
      · intro d' hd'
        rw [getD_set _ _ _ _ hs0]
        split
        · exact he
        · exact hbef d' hd'
    · refine ⟨d0, hd0, ?_, ?_⟩
      · rw [List.getElem?_eq_getElem (by rw [hlen]; exact hs0), hget _ hs0]; simp
      · intro d' hd'
        rw [getD_set _ _ _ _ hs0]
        split
        · exact he
        · exact hbefore d' hd'
  · -- uniq
    intro i j hi hj heq hnzi
    rw [hlen] at hi hj
    rw [hget i hi] at heq hnzi
    rw [hget j hj] at heq
    by_cases h1 : s0 = i
    · by_cases h2 : s0 = j
      · omega
      · rw [if_pos h1, if_neg h2] at heq
        exfalso
        apply hnew
        rw [heq]
        exact hinv.mem _ (List.getElem_mem hj) (by rw [← heq]; exact he)
    · by_cases h2 : s0 = j
      · rw [if_neg h1, if_pos h2] at heq
        exfalso
        apply hnew
        rw [← heq]
        exact hinv.mem _ (List.getElem_mem hi) (by rw [heq]; exact he)
      · rw [if_neg h1] at hnzi
        rw [if_neg h1, if_neg h2] at heq
        exact hinv.uniq i j hi hj heq hnzi
  · -- q
    intro kh
    rw [hlen]
    rcases P_surj (home T.length kh) hs0 with ⟨dH, hdH, hPH⟩
    have hvis : visited (T.set s0 e) (home T.length kh)
        = ((probeList T (home T.length kh)).set dH e).takeWhile nz := by
      unfold visited
      rw [← probeList_set T (home T.length kh) dH e hdH, hPH]
    rw [hvis, List.filter_append, ← hinv.q kh]
    generalize hL : probeList T (home T.length kh) = L
    have hLlen : L.length = T.length := by rw [← hL, length_probeList]
    have hLget : ∀ (d : Nat) (hd : d < L.length), L[d] = T.getD (P T.length (home T.length kh) d) null := by
      intro d hd; subst hL; exact getElem_probeList _ _ _ _
    have hLdH : nz (L[dH]'(by omega)) = false := by
      rw [hLget dH (by omega), hPH, List.getD_eq_getElem?_getD, List.getElem?_eq_getElem hs0, hnull']
      rfl
    have hvT : visited T (home T.length kh) = L.takeWhile nz := by unfold visited; rw [hL]
    rw [hvT]
    -- the run from this home stops at or before the slot that is being filled
    have htle : (L.takeWhile nz).length ≤ dH := by
      apply Classical.byContradiction
      intro hnot
      rcases getElem_takeWhile_true nz L dH (by omega) with ⟨_, h1, _⟩
      rw [hLdH] at h1; cases h1
    by_cases hteq : (L.takeWhile nz).length = dH
    · -- the filled slot ends the run: the run is extended by `e` and what follows
      have hbeforeH : ∀ j (hj : j < dH), nz (L[j]'(by omega)) = true := by
        intro j hj
        rcases getElem_takeWhile_true nz L j (by omega) with ⟨_, h1, _⟩
        exact h1
      rw [takeWhile_set_first nz L dH e (by omega) hbeforeH hLdH he, List.filter_append]
      congr 1
      rw [List.filter_cons]
      have htail : ((L.drop (dH + 1)).takeWhile nz).filter (fun s => s.1 == kh) = [] := by
        rw [List.filter_eq_nil_iff]
        intro x hx
        intro hxk
        have hxnz : nz x = true :=
          (List.all_eq_true.mp (List.all_takeWhile (p := nz) (l := L.drop (dH + 1)))) x hx
        have hxd : x ∈ L.drop (dH + 1) := (List.takeWhile_sublist nz).subset hx
        rcases List.getElem_of_mem hxd with ⟨k, hk, hkx⟩
        rw [List.length_drop] at hk
        rw [List.getElem_drop] at hkx
        have hj : dH + 1 + k < L.length := by omega
        have hxT := hLget (dH + 1 + k) hj
        rw [hkx] at hxT
        have hPj := P_lt hn (home T.length kh) (dH + 1 + k)
        rw [List.getD_eq_getElem?_getD, List.getElem?_eq_getElem hPj] at hxT
        simp only [Option.getD_some] at hxT
        have hxmem : x ∈ placed := hinv.mem x (by rw [hxT]; exact List.getElem_mem hPj) hxnz
        rcases hinv.reach x hxmem with ⟨d, hd, hat, hbef⟩
        have hxk' : x.1 = kh := by simpa using hxk
        rw [hxk'] at hat hbef
        have hPd := P_lt hn (home T.length kh) d
        rw [List.getElem?_eq_getElem hPd] at hat
        have hsame : P T.length (home T.length kh) d = P T.length (home T.length kh) (dH + 1 + k) := by
          apply hinv.uniq _ _ hPd hPj
          · rw [Option.some.inj hat, hxT]
          · rw [Option.some.inj hat]; exact hxnz
        have hdj : d = dH + 1 + k := P_inj' hd (by omega) hsame
        have := hbef dH (by omega)
        rw [← hLget dH (by omega), hLdH] at this
        cases this
      rw [htail]
      by_cases hek : (e.1 == kh) = true
      · simp [hek]
      · simp [hek]
    · -- the run stops earlier: nothing visible changes, and `e` is not looked up from here
      have htlt : (L.takeWhile nz).length < dH := by omega
      have hstop : nz (L[(L.takeWhile nz).length]'(by omega)) = false :=
        takeWhile_stop nz L _ (List.getElem?_eq_getElem (by omega))
      rw [takeWhile_set_after nz L _ dH e (by omega) hstop htlt]
      have hek : (e.1 == kh) = false := by
        apply Classical.byContradiction
        intro hcon
        have hek' : e.1 = kh := by simpa using hcon
        -- then the first empty slot from this home is the filled one: the run has length dH
        have hd0 : d0 = dH := by
          apply P_inj' hd0 hdH
          rw [← hek'] at hPH
          exact hPH.symm
        have hall : ∀ j (hj : j < dH), nz (L[j]'(by omega)) = true := by
          intro j hj
          rw [hLget j (by omega), ← hek']
          exact hbefore j (by omega)
        have := takeWhile_length_first nz L dH (by omega) hall hLdH
        omega
      simp [List.filter_cons, hek]

end WM.HashFile
