import WM.Lemmas.Quality
/-! `W3LeafMatcher`: block and term statistics bound the scores when the scorer is monotone (C12 `leaf_bound`). -/
namespace WM.Matcher

/-- the scorer grows with the weight and shrinks with the field length (what
    `WeightLengthScorer.block_quality` silently assumes) -/
def Monotone2 (sc : Rat → Nat → Rat) : Prop := ∀ w w' l l', 0 ≤ w → w ≤ w' → l' ≤ l → sc w l ≤ sc w' l'

namespace LeafM

/-- the stored statistics are true aggregates, the scorer is monotone and non-negative on the postings -/
structure QData (m : LeafM) : Prop where
  blockStats : ∀ B ∈ m.blocks, ∀ p ∈ B.posts, p.weight ≤ B.maxWeight ∧ B.minLength ≤ p.length
  termStats : ∀ B ∈ m.blocks, B.maxWeight ≤ m.termMaxWeight ∧ m.termMinLength ≤ B.minLength
  weightNonneg : ∀ B ∈ m.blocks, 0 ≤ B.maxWeight ∧ ∀ p ∈ B.posts, 0 ≤ p.weight
  mono : Monotone2 m.sc
  nonneg : ∀ B ∈ m.blocks, ∀ p ∈ B.posts, 0 ≤ m.sc p.weight p.length

theorem QData.of_same {m m' : LeafM} (h : Same m m') (d : QData m) : QData m' := by
  obtain ⟨h1, h2, h3, h4⟩ := h
  exact ⟨by rw [h1]; exact d.blockStats, by rw [h1, h3, h4]; exact d.termStats, by rw [h1]; exact d.weightNonneg,
    by rw [h2]; exact d.mono,
    by rw [h1, h2]; exact d.nonneg⟩

theorem nextBlock_same {m m' : LeafM} (h : m.nextBlock = .ok m') : Same m m' := by
  unfold nextBlock at h
  split at h
  · cases h
  · split at h <;> (cases h; exact Same.refl m)

theorem next_same {m m' : LeafM} (h : m.next = .ok m') : Same m m' := by
  unfold next at h
  simp only at h
  split at h
  · exact nextBlock_same (m := { m with i := m.i + 1 }) h
  · cases h; exact Same.refl m

/-- every remaining entry comes from a posting of some block -/
theorem mem_den {m : LeafM} {e : Nat × Rat} (h : e ∈ m.den) :
    ∃ B ∈ m.blocks, ∃ p ∈ B.posts, e = entry m.sc p := by
  have := (den_sublist_full m).subset h
  simp only [full, List.mem_map, List.mem_flatMap] at this
  obtain ⟨p, ⟨B, hB, hp⟩, rfl⟩ := this
  exact ⟨B, hB, p, hp, rfl⟩

theorem faithfulQ : Faithful LeafM.ops LeafM.den LeafM.full (fun m => WF m ∧ QData m) :=
  faithful.strengthen QData
    (fun s s' _ hp h => hp.of_same (next_same h))
    (fun s t s' hw hp h => by
      by_cases hd : s.den = []
      · have : s.isActive = false := by
          cases ha : s.isActive with
          | false => rfl
          | true => exact absurd hd ((isActive_iff hw).1 ha)
        change s.skipTo t = .ok s' at h
        simp [skipTo, this] at h
      · obtain ⟨m', h1, -, h3, -⟩ := skipTo_spec hw hd t
        change s.skipTo t = .ok s' at h
        rw [h1] at h; cases h
        exact hp.of_same h3)
    (fun s s' _ hp h => by cases h; exact QData.of_same (m := s) ⟨rfl, rfl, rfl, rfl⟩ hp)

theorem entry_le_block {m : LeafM} (d : QData m) {B : Block} (hB : B ∈ m.blocks) {p : Posting} (hp : p ∈ B.posts) :
    m.sc p.weight p.length ≤ m.sc B.maxWeight B.minLength :=
  d.mono _ _ _ _ ((d.weightNonneg B hB).2 p hp) (d.blockStats B hB p hp).1 (d.blockStats B hB p hp).2

theorem block_le_term {m : LeafM} (d : QData m) {B : Block} (hB : B ∈ m.blocks) :
    m.sc B.maxWeight B.minLength ≤ m.sc m.termMaxWeight m.termMinLength :=
  d.mono _ _ _ _ (d.weightNonneg B hB).1 (d.termStats B hB).1 (d.termStats B hB).2

theorem blockQualityV_eq {m : LeafM} (hb : m.b < m.blocks.length) :
    m.blockQualityV = m.sc (m.blocks[m.b]).maxWeight (m.blocks[m.b]).minLength := by
  simp [blockQualityV, curBlock_eq hb]

theorem qfaithful : QFaithful LeafM.ops LeafM.den LeafM.full (fun m => WF m ∧ QData m) (fun m => WF m ∧ QData m) where
  toW0 _ h := h
  cur0 := faithfulQ
  curQ := faithfulQ
  nn m h := by
    intro e he
    obtain ⟨B, hB, p, hp, rfl⟩ := mem_den he
    exact h.2.nonneg B hB p hp
  sup _ _ := rfl
  max m h := by
    refine ⟨m.sc m.termMaxWeight m.termMinLength, rfl, ?_⟩
    intro e he
    obtain ⟨B, hB, p, hp, rfl⟩ := mem_den he
    exact Rat.le_trans (entry_le_block h.2 hB hp) (block_le_term h.2 hB)
  maxNonneg m q h hq := by
    cases hq
    show 0 ≤ m.sc m.termMaxWeight m.termMinLength
    have hb := h.1.2.1
    have hB : m.blocks[m.b] ∈ m.blocks := List.getElem_mem hb
    obtain ⟨p, hp⟩ := List.exists_mem_of_ne_nil _ (h.1.1.nonempty _ hB)
    exact Rat.le_trans (h.2.nonneg _ hB p hp) (Rat.le_trans (entry_le_block h.2 hB hp) (block_le_term h.2 hB))
  block m h := by
    refine ⟨m.blockQualityV, rfl, ?_⟩
    intro x r L hd
    have hact : m.atend = false := by
      cases ha : m.atend with
      | false => rfl
      | true => rw [den_eq, ha] at hd; cases hd
    obtain ⟨pp, hpp, hden⟩ := den_active h.1 hact
    rw [hden] at hd
    obtain ⟨h4, -⟩ := List.cons.inj hd
    have hr : m.sc pp.weight pp.length = r := congrArg Prod.snd h4
    rw [blockQualityV_eq h.1.2.1, ← hr]
    exact entry_le_block h.2 (List.getElem_mem _) (List.mem_of_getElem? hpp)
  skipQ m q h hne := by
    show ∃ s' k, m.skipToQuality q = _ ∧ _
    unfold skipToQuality
    by_cases hgt : m.blockQualityV > q
    · simp only [hgt, ↓reduceIte]
      exact ⟨m, 0, rfl, h, Keeps.refl _ _, Nat.le_refl _, fun h0 => absurd rfl h0, rfl⟩
    · simp only [hgt, ↓reduceIte]
      have hpQ : ∀ m' : LeafM, (hw : WF m') → m'.atend = false → (decide (m'.blockQualityV ≤ q)) = true →
          QData m' → ∀ post ∈ (m'.blocks[m'.b]'hw.2.1).posts, (entry m'.sc post).2 ≤ q := by
        intro m' hw _ hp hq post hpost
        simp only [decide_eq_true_eq] at hp
        rw [blockQualityV_eq hw.2.1] at hp
        exact Rat.le_trans (entry_le_block hq (List.getElem_mem _) hpost) hp
      -- the generic block-skipping lemma, with the static data carried along
      obtain ⟨m', k, g1, g2, -, -, g5⟩ := skipBlocksWhile_spec' (fun m => decide (m.blockQualityV ≤ q))
        (fun e => e.2 ≤ q) QData (fun a b hab hq => hq.of_same hab) hpQ (m.blocks.length + 1) m h.1 h.2
        (by unfold blocksLeft; split <;> omega)
      obtain ⟨P, hP, hP'⟩ := g2.split
      refine ⟨m', k, g1, ⟨g2.wf, h.2.of_same g2.same⟩, ?_, ?_, ?_, full_of_same g2.same⟩
      · rw [hP]; exact keeps_append_left hP'
      · show m'.rem ≤ m.rem; exact g2.rem_le
      · intro hd
        show m'.rem < m.rem
        exact g2.rem_lt hd

end LeafM
end WM.Matcher
