import WM.Model.NumPack
import WM.Lemmas.NumLists
import Mathlib.Tactic.Ring
/-! Helper lemmas for Simple16 (C20): bit packing as arithmetic. -/
set_option linter.unusedSimpArgs false
namespace WM.NumPack
open WM.NumLists

/-- the numbers fit the widths of the layout, one by one -/
def s16fits : List Nat → List Nat → Bool
  | _, [] => true
  | [], _ :: _ => false
  | w :: ws, x :: xs => decide (x < 2 ^ w) && s16fits ws xs

/-- the packed low bits as a number: `x₀ + 2^w₀ (x₁ + 2^w₁ (…))` -/
def s16pk : List Nat → List Nat → Nat
  | _, [] => 0
  | [], _ :: _ => 0
  | w :: ws, x :: xs => x + 2 ^ w * s16pk ws xs

theorem s16pk_lt : ∀ (ws xs : List Nat), s16fits ws xs = true → s16pk ws xs < 2 ^ ws.sum
  | ws, [], _ => by
    cases ws <;> simp [s16pk, Nat.two_pow_pos]
  | [], _ :: _, h => by simp [s16fits] at h
  | w :: ws, x :: xs, h => by
    simp only [s16fits, Bool.and_eq_true, decide_eq_true_eq] at h
    have ih := s16pk_lt ws xs h.2
    simp only [s16pk, List.sum_cons, Nat.pow_add]
    have h1 : 2 ^ w * (s16pk ws xs + 1) ≤ 2 ^ w * 2 ^ ws.sum := Nat.mul_le_mul_left _ ih
    have h2 : 2 ^ w * (s16pk ws xs + 1) = 2 ^ w * s16pk ws xs + 2 ^ w := by ring
    omega

theorem or_shift_eq_add (L x bits : Nat) (hL : L < 2 ^ bits) : L ||| (x <<< bits) = L + 2 ^ bits * x := by
  rw [Nat.or_comm, ← Nat.shiftLeft_add_eq_or_of_lt hL, Nat.shiftLeft_eq]
  ring

/-- the inner loop of `_compress` is the arithmetic packing, or fails exactly when a number does
    not fit its width -/
theorem s16pack_eq : ∀ (ws xs : List Nat) (L bits : Nat), L < 2 ^ bits →
    s16pack ws xs L bits = if s16fits ws xs then some (L + 2 ^ bits * s16pk ws xs) else none
  | ws, [], L, bits, _ => by
    cases ws <;> simp [s16pack, s16fits, s16pk]
  | [], _ :: _, _, _, _ => by simp [s16pack, s16fits]
  | w :: ws, x :: xs, L, bits, hL => by
    simp only [s16pack, s16fits, s16pk, Nat.one_shiftLeft]
    by_cases hx : x < 2 ^ w
    · have hL' : L ||| (x <<< bits) < 2 ^ (bits + w) := by
        rw [or_shift_eq_add L x bits hL, Nat.pow_add]
        have h1 : 2 ^ bits * (x + 1) ≤ 2 ^ bits * 2 ^ w := Nat.mul_le_mul_left _ hx
        have h2 : 2 ^ bits * (x + 1) = 2 ^ bits * x + 2 ^ bits := by ring
        omega
      simp only [hx, ↓reduceIte, decide_true, Bool.true_and]
      rw [s16pack_eq ws xs _ _ hL', or_shift_eq_add L x bits hL]
      split
      · congr 1; rw [Nat.pow_add]; ring
      · rfl
    · simp [hx]

theorem s16mask : ∀ w, w ≤ 32 → 4294967295 >>> (32 - w) = 2 ^ w - 1 := by decide

/-- `_decompress` reads back what the arithmetic packing holds -/
theorem s16unpack_eq : ∀ (ws xs : List Nat) (value bits H : Nat), s16fits ws xs = true →
    (∀ w ∈ ws, w ≤ 32) → value / 2 ^ bits = s16pk ws xs + 2 ^ ws.sum * H →
    s16unpack ws xs.length value bits = xs
  | ws, [], _, _, _, _, _, _ => by cases ws <;> simp [s16unpack]
  | [], _ :: _, _, _, _, h, _, _ => by simp [s16fits] at h
  | w :: ws, x :: xs, value, bits, H, h, hw, hv => by
    simp only [s16fits, Bool.and_eq_true, decide_eq_true_eq] at h
    simp only [List.length_cons, s16unpack]
    have hw32 : w ≤ 32 := hw w (by simp)
    rw [s16mask w hw32, Nat.and_two_pow_sub_one_eq_mod, Nat.shiftRight_eq_div_pow, hv]
    simp only [s16pk, List.sum_cons]
    have e : x + 2 ^ w * s16pk ws xs + 2 ^ (w + ws.sum) * H
        = x + 2 ^ w * (s16pk ws xs + 2 ^ ws.sum * H) := by rw [Nat.pow_add]; ring
    rw [e, Nat.add_mul_mod_self_left, Nat.mod_eq_of_lt h.1]
    congr 1
    apply s16unpack_eq ws xs value (bits + w) H h.2 (fun w' hw' => hw w' (by simp [hw']))
    rw [Nat.pow_add, ← Nat.div_div_eq_div_mul, hv]
    simp only [s16pk, List.sum_cons]
    rw [e, Nat.add_mul_div_left _ _ (Nat.two_pow_pos _), Nat.div_eq_of_lt h.1, Nat.zero_add]

theorem s16pack_or : ∀ (ws xs : List Nat) (K L bits : Nat),
    s16pack ws xs (K ||| L) bits = (s16pack ws xs L bits).map (K ||| ·)
  | ws, [], _, _, _ => by cases ws <;> simp [s16pack]
  | [], _ :: _, _, _, _ => by simp [s16pack]
  | w :: ws, x :: xs, K, L, bits => by
    simp only [s16pack]
    split
    · rw [Nat.or_assoc, s16pack_or ws xs K _ _]
    · rfl

/-- one pass of the inner loop for one key, started at `key << 28` -/
theorem s16pack_key (ws xs : List Nat) (key : Nat) (hs : ws.sum = 28) :
    s16pack ws xs (key <<< 28) 0 = if s16fits ws xs then some (key * 2 ^ 28 + s16pk ws xs) else none := by
  have h0 : key <<< 28 = (key <<< 28) ||| 0 := by simp
  rw [h0, s16pack_or, s16pack_eq ws xs 0 0 (by decide)]
  by_cases hf : s16fits ws xs = true
  · have hlt := s16pk_lt ws xs hf
    rw [hs] at hlt
    simp only [hf, ↓reduceIte, Option.map, Nat.pow_zero, Nat.one_mul, Nat.zero_add]
    rw [← Nat.shiftLeft_add_eq_or_of_lt hlt, Nat.shiftLeft_eq]
  · simp [hf]

/-- what the table must satisfy (checked on `s16bits` by evaluation) -/
def s16TableOK (tbl : List (List Nat)) : Prop :=
  ∀ ws ∈ tbl, ws.sum = 28 ∧ 0 < ws.length ∧ ∀ w ∈ ws, w ≤ 28

theorem s16bits_ok : s16TableOK s16bits := by unfold s16TableOK; decide

def s16numOf (ws xs : List Nat) : Nat := if ws.length < xs.length then ws.length else xs.length

theorem s16compressFrom_some : ∀ (xs : List Nat) (tbl : List (List Nat)) (key value num : Nat),
    s16TableOK tbl → s16compressFrom xs key tbl = some (value, num) →
    ∃ i, ∃ hi : i < tbl.length, num = s16numOf tbl[i] xs ∧ s16fits tbl[i] (xs.take num) = true ∧
      value = (key + i) * 2 ^ 28 + s16pk tbl[i] (xs.take num)
  | _, [], _, _, _, _, h => by simp [s16compressFrom] at h
  | xs, ws :: rest, key, value, num, hok, h => by
    have hws := hok ws (by simp)
    simp only [s16compressFrom] at h
    rw [s16pack_key _ _ _ hws.1] at h
    by_cases hf : s16fits ws (xs.take (s16numOf ws xs)) = true
    · unfold s16numOf at hf
      simp only [hf, ↓reduceIte, Option.some.injEq, Prod.mk.injEq] at h
      refine ⟨0, by simp, ?_⟩
      obtain ⟨h1, h2⟩ := h
      subst h2
      simp only [List.getElem_cons_zero, Nat.add_zero]
      exact ⟨rfl, hf, h1.symm⟩
    · unfold s16numOf at hf
      simp only [hf, Bool.false_eq_true, ↓reduceIte] at h
      rcases s16compressFrom_some xs rest (key + 1) value num
        (fun w hw => hok w (List.mem_cons_of_mem _ hw)) h with ⟨i, hi, h1, h2, h3⟩
      refine ⟨i + 1, by simp; omega, ?_⟩
      simp only [List.getElem_cons_succ]
      refine ⟨h1, h2, ?_⟩
      rw [h3]; ring

theorem s16compressFrom_none : ∀ (xs : List Nat) (tbl : List (List Nat)) (key : Nat),
    s16TableOK tbl → s16compressFrom xs key tbl = none →
    ∀ ws ∈ tbl, s16fits ws (xs.take (s16numOf ws xs)) = false
  | _, [], _, _, _ => by simp
  | xs, ws :: rest, key, hok, h => by
    have hws := hok ws (by simp)
    simp only [s16compressFrom] at h
    rw [s16pack_key _ _ _ hws.1] at h
    intro ws' hmem
    by_cases hf : s16fits ws (xs.take (s16numOf ws xs)) = true
    · unfold s16numOf at hf
      simp [hf] at h
    · simp only [List.mem_cons] at hmem
      rcases hmem with rfl | hmem
      · simpa using hf
      · unfold s16numOf at hf
        simp only [hf, Bool.false_eq_true, ↓reduceIte] at h
        exact s16compressFrom_none xs rest (key + 1) (fun w hw => hok w (List.mem_cons_of_mem _ hw)) h ws' hmem

/-- one Simple16 word: `_decompress(_compress(xs))` gives back the numbers taken -/
theorem s16_word (xs : List Nat) (value num : Nat) (hne : xs ≠ []) (h : s16compress xs = some (value, num)) :
    s16decompress value xs.length = xs.take num ∧ 0 < num ∧ num ≤ xs.length ∧ value < 4294967296 := by
  unfold s16compress at h
  rcases s16compressFrom_some xs s16bits 0 value num s16bits_ok h with ⟨i, hi, h1, h2, h3⟩
  have hok := s16bits_ok s16bits[i] (List.getElem_mem hi)
  have hlen : 0 < xs.length := List.length_pos_iff.mpr hne
  have hnum : 0 < num ∧ num ≤ xs.length := by
    rw [h1]; unfold s16numOf; split <;> omega
  have hlt := s16pk_lt _ _ h2
  rw [hok.1] at hlt
  have hi16 : i < 16 := hi
  simp only [Nat.zero_add] at h3
  have hkey : value >>> 28 = i := by
    rw [Nat.shiftRight_eq_div_pow, h3, Nat.mul_comm, Nat.mul_add_div (Nat.two_pow_pos _),
      Nat.div_eq_of_lt hlt, Nat.add_zero]
  refine ⟨?_, hnum.1, hnum.2, by omega⟩
  unfold s16decompress
  simp only [hkey]
  have hget : s16bits.getD i [] = s16bits[i] := by
    simp only [List.getD_eq_getElem?_getD, List.getElem?_eq_getElem hi, Option.getD_some]
    rfl
  rw [hget]
  have hn : (if s16bits[i].length < xs.length then s16bits[i].length else xs.length) = (xs.take num).length := by
    rw [List.length_take, Nat.min_eq_left hnum.2, h1]; rfl
  rw [hn]
  apply s16unpack_eq _ _ value 0 i h2 (fun w hw => by have := hok.2.2 w hw; omega)
  rw [hok.1, h3]; simp [Nat.mul_comm, Nat.add_comm]

/-- a first number below 2^28 is always taken by some layout (at the latest by key 15) -/
theorem s16compress_isSome (x : Nat) (t : List Nat) (hx : x < 2 ^ 28) : s16compress (x :: t) ≠ none := by
  intro h
  have := s16compressFrom_none (x :: t) s16bits 0 s16bits_ok h [28] (by decide)
  have hnum : s16numOf [28] (x :: t) = 1 := by
    unfold s16numOf; simp only [List.length_cons, List.length_nil]; split <;> omega
  rw [hnum] at this
  simp [s16fits] at this
  have hx' : x < 268435456 := hx
  omega

theorem s16read_write : ∀ (n : Nat) (xs rest : List Nat), xs.length = n → (∀ x ∈ xs, x < 2 ^ 28) →
    ∃ bs, s16write xs = some bs ∧ s16read xs.length (bs ++ rest) = some (xs, rest) := by
  intro n
  induction n using Nat.strongRecOn with
  | _ n ih =>
    intro xs rest hn hx
    match xs, hn, hx with
    | [], _, _ => exact ⟨[], by simp [s16write], by simp [s16read]⟩
    | x :: t, hn, hx =>
      cases hc : s16compress (x :: t) with
      | none => exact absurd hc (s16compress_isSome x t (hx x (by simp)))
      | some vt =>
        obtain ⟨value, taken⟩ := vt
        obtain ⟨hd, hpos, hle, hv⟩ := s16_word (x :: t) value taken (by simp) hc
        have hlen' : ((x :: t).drop taken).length < n := by
          rw [List.length_drop, hn]; omega
        obtain ⟨bs', hw', hr'⟩ := ih _ hlen' ((x :: t).drop taken) rest rfl
          (fun y hy => hx y (List.mem_of_mem_drop hy))
        refine ⟨encodeLE 4 value ++ bs', ?_, ?_⟩
        · rw [s16write]
          simp only [hc, hpos, hv, ↓reduceDIte, ↓reduceIte, hw', Option.map]
        · have h4 : (encodeLE 4 value ++ bs' ++ rest).take 4 = encodeLE 4 value := by
            rw [List.append_assoc, List.take_append_of_le_length (by rw [length_encodeLE]),
              List.take_of_length_le (by rw [length_encodeLE])]
          have hd4 : (encodeLE 4 value ++ bs' ++ rest).drop 4 = bs' ++ rest := by
            rw [List.append_assoc]
            have := List.drop_left (l₁ := encodeLE 4 value) (l₂ := bs' ++ rest)
            rw [length_encodeLE] at this; exact this
          have hdec : decodeLE (encodeLE 4 value) = value := decodeLE_encodeLE 4 value hv
          have hd' : s16decompress value (t.length + 1) = (x :: t).take taken := hd
          have hl : ((x :: t).take taken).length = taken := by
            rw [List.length_take]; exact Nat.min_eq_left hle
          have hle' : taken ≤ t.length + 1 := hle
          have hrl : ((x :: t).drop taken).length = t.length + 1 - taken := by
            rw [List.length_drop]; rfl
          rw [hrl] at hr'
          rw [List.length_cons, s16read]
          simp only [h4, hd4, length_encodeLE, ↓reduceIte, hdec, hd', hl, hpos, hle', and_self, ↓reduceDIte, hr',
            Option.map, List.take_append_drop]

theorem s16fits_lt : ∀ (ws xs : List Nat), (∀ w ∈ ws, w ≤ 28) → s16fits ws xs = true → ∀ x ∈ xs, x < 2 ^ 28
  | _, [], _, _ => by simp
  | [], _ :: _, _, h => by simp [s16fits] at h
  | w :: ws, x :: xs, hw, h => by
    simp only [s16fits, Bool.and_eq_true, decide_eq_true_eq] at h
    intro y hy
    simp only [List.mem_cons] at hy
    rcases hy with rfl | hy
    · exact Nat.lt_of_lt_of_le h.1 (Nat.pow_le_pow_right (by decide) (hw w (by simp)))
    · exact s16fits_lt ws xs (fun w' hw' => hw w' (by simp [hw'])) h.2 y hy

/-- a number of 2^28 or more anywhere makes `write_nums` raise -/
theorem s16write_none : ∀ (n : Nat) (xs : List Nat), xs.length = n → (∃ x ∈ xs, 2 ^ 28 ≤ x) → s16write xs = none := by
  intro n
  induction n using Nat.strongRecOn with
  | _ n ih =>
    intro xs hn hx
    match xs, hn, hx with
    | [], _, hx => simp at hx
    | x :: t, hn, hx =>
      rw [s16write]
      cases hc : s16compress (x :: t) with
      | none => rfl
      | some vt =>
        obtain ⟨value, taken⟩ := vt
        obtain ⟨_, hpos, hle, hv⟩ := s16_word (x :: t) value taken (by simp) hc
        unfold s16compress at hc
        rcases s16compressFrom_some (x :: t) s16bits 0 value taken s16bits_ok hc with ⟨i, hi, _, h2, _⟩
        have hok := s16bits_ok s16bits[i] (List.getElem_mem hi)
        have hsmall := s16fits_lt _ _ hok.2.2 h2
        have hex : ∃ y ∈ (x :: t).drop taken, 2 ^ 28 ≤ y := by
          rcases hx with ⟨y, hy, hbig⟩
          rw [← List.take_append_drop taken (x :: t), List.mem_append] at hy
          rcases hy with hy | hy
          · exact absurd (hsmall y hy) (by omega)
          · exact ⟨y, hy, hbig⟩
        have hlen' : ((x :: t).drop taken).length < n := by
          rw [List.length_drop, hn]; omega
        have := ih _ hlen' ((x :: t).drop taken) rfl hex
        simp only [hpos, hv, ↓reduceDIte, ↓reduceIte, this, Option.map]

/-! ### random access (`Simple16.get`) -/

theorem s16unpack_getElem : ∀ (ws : List Nat) (n value bits i : Nat) (_hn : i < n) (hi : i < ws.length),
    (s16unpack ws n value bits)[i]? =
      some ((value >>> (bits + (ws.take i).sum)) &&& (4294967295 >>> (32 - ws[i])))
  | [], _, _, _, _, _, hi => by simp at hi
  | _ :: _, 0, _, _, _, hn, _ => by omega
  | w :: ws, n + 1, value, bits, 0, _, _ => by simp [s16unpack]
  | w :: ws, n + 1, value, bits, i + 1, hn, hi => by
    simp only [s16unpack, List.getElem?_cons_succ, List.take_succ_cons, List.sum_cons, List.getElem_cons_succ]
    rw [s16unpack_getElem ws n value (bits + w) i (by omega) (by simpa using hi), Nat.add_assoc]

/-- what `_compress` guarantees about the word, in the terms `get`/`_decompress` use -/
theorem s16_word_ex (xs : List Nat) (value num : Nat) (hne : xs ≠ []) (h : s16compress xs = some (value, num)) :
    num = s16numOf (s16bits.getD (value >>> 28) []) xs ∧ 0 < (s16bits.getD (value >>> 28) []).length
    ∧ (∀ w ∈ s16bits.getD (value >>> 28) [], w ≤ 28)
    ∧ s16unpack (s16bits.getD (value >>> 28) []) num value 0 = xs.take num := by
  have hw := s16_word xs value num hne h
  unfold s16compress at h
  rcases s16compressFrom_some xs s16bits 0 value num s16bits_ok h with ⟨i, hi, h1, h2, h3⟩
  have hok := s16bits_ok s16bits[i] (List.getElem_mem hi)
  have hlt := s16pk_lt _ _ h2
  rw [hok.1] at hlt
  simp only [Nat.zero_add] at h3
  have hkey : value >>> 28 = i := by
    rw [Nat.shiftRight_eq_div_pow, h3, Nat.mul_comm, Nat.mul_add_div (Nat.two_pow_pos _),
      Nat.div_eq_of_lt hlt, Nat.add_zero]
  have hget : s16bits.getD i [] = s16bits[i] := by
    simp only [List.getD_eq_getElem?_getD, List.getElem?_eq_getElem hi, Option.getD_some]
  rw [hkey, hget]
  refine ⟨h1, hok.2.1, hok.2.2, ?_⟩
  have hd := hw.1
  unfold s16decompress at hd
  simp only [hkey, hget] at hd
  have : (if s16bits[i].length < xs.length then s16bits[i].length else xs.length) = num := by
    rw [h1]; rfl
  rw [this] at hd
  exact hd

theorem s16get_write : ∀ (n : Nat) (xs rest : List Nat) (i : Nat), xs.length = n → (∀ x ∈ xs, x < 2 ^ 28) →
    (hi : i < xs.length) → ∃ bs, s16write xs = some bs ∧ s16get (bs ++ rest) i = some xs[i] := by
  intro n
  induction n using Nat.strongRecOn with
  | _ n ih =>
    intro xs rest i hn hx hi
    match xs, hn, hx, hi with
    | [], _, _, hi => simp at hi
    | x :: t, hn, hx, hi =>
      cases hc : s16compress (x :: t) with
      | none => exact absurd hc (s16compress_isSome x t (hx x (by simp)))
      | some vt =>
        obtain ⟨value, taken⟩ := vt
        obtain ⟨_, hpos, hle, hv⟩ := s16_word (x :: t) value taken (by simp) hc
        obtain ⟨hnum, hwpos, hw28, hun⟩ := s16_word_ex (x :: t) value taken (by simp) hc
        have hlen' : ((x :: t).drop taken).length < n := by
          rw [List.length_drop, hn]; omega
        have h4 : ∀ bs', (encodeLE 4 value ++ bs' ++ rest).take 4 = encodeLE 4 value := by
          intro bs'
          rw [List.append_assoc, List.take_append_of_le_length (by rw [length_encodeLE]),
            List.take_of_length_le (by rw [length_encodeLE])]
        have hd4 : ∀ bs', (encodeLE 4 value ++ bs' ++ rest).drop 4 = bs' ++ rest := by
          intro bs'
          rw [List.append_assoc]
          have := List.drop_left (l₁ := encodeLE 4 value) (l₂ := bs' ++ rest)
          rw [length_encodeLE] at this; exact this
        have hdec : decodeLE (encodeLE 4 value) = value := decodeLE_encodeLE 4 value hv
        by_cases hge : i ≥ (s16bits.getD (value >>> 28) []).length
        · -- the number lies in a later word
          have htk : taken = (s16bits.getD (value >>> 28) []).length := by
            rw [hnum]; unfold s16numOf; split
            · rfl
            · omega
          have hi' : i - taken < ((x :: t).drop taken).length := by
            rw [List.length_drop]; omega
          obtain ⟨bs', hw', hg'⟩ := ih _ hlen' ((x :: t).drop taken) rest (i - taken) rfl
            (fun y hy => hx y (List.mem_of_mem_drop hy)) hi'
          refine ⟨encodeLE 4 value ++ bs', ?_, ?_⟩
          · rw [s16write]
            simp only [hc, hpos, hv, ↓reduceDIte, ↓reduceIte, hw', Option.map]
          · rw [s16get]
            simp only [h4, hd4, length_encodeLE, ↓reduceIte, hdec, hge, hwpos, and_self, ↓reduceDIte]
            rw [← htk, hg']
            congr 1
            rw [List.getElem_drop]
            congr 1
            omega
        · -- the number lies in this word
          have hlt : i < (s16bits.getD (value >>> 28) []).length := by omega
          have hit : i < taken := by
            rw [hnum]; unfold s16numOf; split <;> omega
          obtain ⟨bs', hw', _⟩ := s16read_write _ ((x :: t).drop taken) rest rfl
            (fun y hy => hx y (List.mem_of_mem_drop hy))
          refine ⟨encodeLE 4 value ++ bs', ?_, ?_⟩
          · rw [s16write]
            simp only [hc, hpos, hv, ↓reduceDIte, ↓reduceIte, hw', Option.map]
          · rw [s16get]
            have hnot : ¬ (i ≥ (s16bits.getD (value >>> 28) []).length ∧ 0 < (s16bits.getD (value >>> 28) []).length) := by
              omega
            simp only [h4, length_encodeLE, ↓reduceIte, hdec, hnot, ↓reduceDIte, List.getElem?_eq_getElem hlt]
            have hg := s16unpack_getElem (s16bits.getD (value >>> 28) []) taken value 0 i hit hlt
            rw [hun, List.getElem?_take_of_lt hit, List.getElem?_eq_getElem hi] at hg
            have hw32 : (s16bits.getD (value >>> 28) [])[i] ≤ 32 := by
              have := hw28 _ (List.getElem_mem hlt); omega
            rw [s16mask _ hw32, Nat.zero_add] at hg
            exact hg.symm ▸ rfl

end WM.NumPack
