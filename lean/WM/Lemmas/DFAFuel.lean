import WM.Lemmas.DFA
/-! `NFA.to_dfa` ends within the model's fuel `2 ^ |states| + 1`: the states it meets are pairwise
different subsets of the NFA's states. -/
namespace WM.Lev
namespace NFA

theorem mem_states_of_arc (n : NFA) {s t : St} {l : Label} (h : (s, l, t) ∈ n.trans) : t ∈ n.states := by
  simp only [states, List.mem_cons, List.mem_flatMap]
  exact Or.inr ⟨(s, l, t), h, by simp⟩

theorem mem_nextState_states (n : NFA) (S : SSet) (l : Label) :
    ∀ t, t ∈ n.nextState S l → t ∈ n.states := by
  unfold nextState
  apply expand_induction
  · intro t ht
    obtain ⟨s, _, h | h⟩ := mem_move.mp ht
    · exact mem_states_of_arc n h
    · exact mem_states_of_arc n h
  · intro s t _ h
    exact mem_states_of_arc n h

/-! ### Counting pairwise different subsets -/

def SubOf (U : List St) (X : SSet) : Prop := ∀ s, s ∈ X → s ∈ U

theorem filter_length_add (p : SSet → Bool) (l : List SSet) :
    (l.filter p).length + (l.filter fun X => !p X).length = l.length := by
  induction l with
  | nil => rfl
  | cons a l ih =>
    simp only [List.filter_cons]
    cases p a <;> simp <;> omega

theorem card_bound : ∀ (U : List St) (l : List SSet),
    l.Pairwise (fun X Y => ¬ SEq X Y) → (∀ X, X ∈ l → SubOf U X) → l.length ≤ 2 ^ U.length := by
  intro U
  induction U with
  | nil =>
    intro l hp hs
    cases l with
    | nil => simp
    | cons X l =>
      cases l with
      | nil => simp
      | cons Y l =>
        exfalso
        rw [List.pairwise_cons] at hp
        apply hp.1 Y (by simp)
        intro s
        constructor
        · intro h; exact absurd (hs X (by simp) s h) (by simp)
        · intro h; exact absurd (hs Y (by simp) s h) (by simp)
  | cons u U ih =>
    intro l hp hs
    have h2 := ih (l.filter fun X => !X.contains u) (hp.filter _) (by
      intro X hX s hsX
      rw [List.mem_filter] at hX
      have := hs X hX.1 s hsX
      rcases List.mem_cons.mp this with rfl | h
      · have hnc : ¬ s ∈ X := by simpa using hX.2
        exact absurd hsX hnc
      · exact h)
    have h1 := ih ((l.filter fun X => X.contains u).map fun X => X.filter fun s => s != u) (by
      rw [List.pairwise_map]
      refine (hp.filter _).imp_of_mem ?_
      intro X Y hX hY hne hse
      apply hne
      rw [List.mem_filter] at hX hY
      have hXu : u ∈ X := by simpa using hX.2
      have hYu : u ∈ Y := by simpa using hY.2
      intro s
      by_cases hsu : s = u
      · subst hsu; exact ⟨fun _ => hYu, fun _ => hXu⟩
      · have := hse s
        simp only [List.mem_filter, bne_iff_ne, ne_eq, hsu, not_false_eq_true, and_true] at this
        exact this) (by
      intro Z hZ s hsZ
      rw [List.mem_map] at hZ
      obtain ⟨X, hX, rfl⟩ := hZ
      rw [List.mem_filter] at hX hsZ
      have := hs X hX.1 s hsZ.1
      rcases List.mem_cons.mp this with rfl | h
      · simp at hsZ
      · exact h)
    rw [List.length_map] at h1
    have := filter_length_add (fun X => X.contains u) l
    rw [List.length_cons, Nat.pow_succ]
    omega

/-! ### Accounting in the loops -/

/-- The states met so far are pairwise different subsets of the NFA's states. -/
structure FInv (n : NFA) (seen : List SSet) : Prop where
  pw : seen.Pairwise (fun X Y => ¬ SEq X Y)
  sub : ∀ X, X ∈ seen → SubOf n.states X

theorem isNewState_true (seen : List SSet) (new : SSet) (h : isNewState seen new = true) :
    ∀ X, X ∈ seen → ¬ SEq new X := by
  simp only [isNewState, Bool.not_eq_true', List.any_eq_false] at h
  intro X hX hse
  exact h X hX ((setEq_iff _ _).mpr hse.symm)

theorem dfaStep_finv (n : NFA) (current : SSet) (l : Label) (d : DFA) (frontier seen : List SSet)
    (h : FInv n seen) :
    FInv n (dfaStep n current l d frontier seen).2.2 ∧
    (dfaStep n current l d frontier seen).2.1.length + seen.length =
      frontier.length + (dfaStep n current l d frontier seen).2.2.length := by
  rw [dfaStep_seen, dfaStep_frontier]
  cases hn : isNewState seen (n.nextState current l) with
  | false => simp only [Bool.false_eq_true, if_false]; exact ⟨h, trivial⟩
  | true =>
    simp only [if_true]
    refine ⟨⟨?_, ?_⟩, by simp only [List.length_cons]; omega⟩
    · rw [List.pairwise_cons]; exact ⟨isNewState_true seen _ hn, h.pw⟩
    · intro X hX
      rcases List.mem_cons.mp hX with rfl | hX
      · exact mem_nextState_states n current l
      · exact h.sub X hX

theorem dfaLabels_finv (n : NFA) (current : SSet) :
    ∀ (ls : List Label) (d : DFA) (frontier seen : List SSet), FInv n seen →
      FInv n (n.dfaLabels current ls d frontier seen).2.2 ∧
      (n.dfaLabels current ls d frontier seen).2.1.length + seen.length =
        frontier.length + (n.dfaLabels current ls d frontier seen).2.2.length := by
  intro ls
  induction ls with
  | nil => intro d frontier seen h; exact ⟨h, rfl⟩
  | cons l ls ih =>
    intro d frontier seen h
    cases l with
    | eps => rw [dfaLabels_cons_eps]; exact ih d frontier seen h
    | chr c =>
      rw [dfaLabels_cons_chr]
      obtain ⟨h1, h2⟩ := dfaStep_finv n current (.chr c) d frontier seen h
      obtain ⟨h3, h4⟩ := ih (dfaStep n current (.chr c) d frontier seen).1
        (dfaStep n current (.chr c) d frontier seen).2.1 (dfaStep n current (.chr c) d frontier seen).2.2 h1
      exact ⟨h3, by omega⟩
    | any =>
      rw [dfaLabels_cons_any]
      obtain ⟨h1, h2⟩ := dfaStep_finv n current .any d frontier seen h
      obtain ⟨h3, h4⟩ := ih (dfaStep n current .any d frontier seen).1
        (dfaStep n current .any d frontier seen).2.1 (dfaStep n current .any d frontier seen).2.2 h1
      exact ⟨h3, by omega⟩

theorem finv_length (n : NFA) (seen : List SSet) (h : FInv n seen) :
    seen.length ≤ 2 ^ n.states.eraseDups.length :=
  card_bound n.states.eraseDups seen h.pw (fun X hX s hs => by
    rw [List.mem_eraseDups]; exact h.sub X hX s hs)

theorem dfaLoop_terminates (n : NFA) :
    ∀ (fuel : Nat) (d : DFA) (frontier seen : List SSet), FInv n seen →
      frontier.length + 2 ^ n.states.eraseDups.length ≤ fuel + seen.length →
      ∃ dfin, n.dfaLoop fuel d frontier seen = some dfin := by
  intro fuel
  induction fuel with
  | zero =>
    intro d frontier seen h hle
    cases frontier with
    | nil => exact ⟨d, by simp [dfaLoop]⟩
    | cons c f =>
      have := finv_length n seen h
      simp only [List.length_cons] at hle
      omega
  | succ fuel ih =>
    intro d frontier seen h hle
    cases frontier with
    | nil => exact ⟨d, by simp [dfaLoop]⟩
    | cons current frontier =>
      rw [dfaLoop]
      obtain ⟨h1, h2⟩ := dfaLabels_finv n current (n.getLabels current)
        (if n.isFinal current = true then { d with finals := current :: d.finals } else d) frontier seen h
      generalize n.dfaLabels current (n.getLabels current)
        (if n.isFinal current = true then { d with finals := current :: d.finals } else d) frontier seen = res at h1 h2 ⊢
      obtain ⟨d', f', s'⟩ := res
      simp only at h1 h2 ⊢
      apply ih _ _ _ h1
      simp only [List.length_cons] at hle
      omega

/-- **`to_dfa` ends within the model's fuel.** -/
theorem toDfa_terminates (n : NFA) : ∃ d, n.toDfa = some d := by
  unfold toDfa
  apply dfaLoop_terminates
  · exact ⟨List.Pairwise.nil, fun _ h => by cases h⟩
  · simp only [List.length_cons, List.length_nil]; omega

end NFA
end WM.Lev
