import WM.Lemmas.ColumnsBytes
import WM.Lemmas.ColumnsRows
/-! `GrowableArray` and the `VarBytesColumn` writer/reader. -/
namespace WM.Columns

/-- Every item fits the array's type code. -/
def GArr.WF (a : GArr) : Prop := ∀ x ∈ a.items, x ≤ a.tc.max

theorem TC.max_lt (tc : TC) : tc.max < 256 ^ tc.size := by
  cases tc <;> decide

theorem GArr.wf_init : GArr.WF {} := by intro x hx; simp at hx

/-- `append` below 2^32 succeeds (no longs needed), keeps the items, keeps well-formedness. -/
theorem GArr.append_ok (a : GArr) (n : Nat) (h : a.WF) (hn : n < 4294967296) :
    ∃ a', a.append false n = .ok a' ∧ a'.items = a.items ++ [n] ∧ a'.WF := by
  unfold GArr.append
  by_cases h0 : n ≤ a.tc.max
  · refine ⟨{ a with items := a.items ++ [n] }, by simp [h0], rfl, ?_⟩
    intro x hx
    simp only [List.mem_append, List.mem_singleton] at hx
    rcases hx with hx | rfl
    · exact h x hx
    · exact h0
  · simp only [h0, if_false]
    have hgt : a.tc.max < n := by omega
    have hold : ∀ x ∈ a.items, x < n := fun x hx => by have := h x hx; omega
    by_cases h1 : n < 65536
    · refine ⟨{ tc := .H, items := a.items ++ [n] }, by simp [h1], rfl, ?_⟩
      intro x hx
      simp only [List.mem_append, List.mem_singleton] at hx
      show x ≤ 65535
      rcases hx with hx | rfl
      · have := hold x hx; omega
      · omega
    · by_cases h2 : n < 2147483648
      · refine ⟨{ tc := .i, items := a.items ++ [n] }, by simp [h1, h2], rfl, ?_⟩
        intro x hx
        simp only [List.mem_append, List.mem_singleton] at hx
        show x ≤ 2147483647
        rcases hx with hx | rfl
        · have := hold x hx; omega
        · omega
      · refine ⟨{ tc := .I, items := a.items ++ [n] }, by simp [h1, h2, hn], rfl, ?_⟩
        intro x hx
        simp only [List.mem_append, List.mem_singleton] at hx
        show x ≤ 4294967295
        rcases hx with hx | rfl
        · have := hold x hx; omega
        · omega

theorem GArr.extendRep_ok (a : GArr) (n k : Nat) (h : a.WF) (hn : n < 4294967296) :
    ∃ a', a.extendRep false n k = .ok a' ∧ a'.items = a.items ++ List.replicate k n ∧ a'.WF := by
  induction k generalizing a with
  | zero => exact ⟨a, rfl, by simp, h⟩
  | succ k ih =>
    obtain ⟨a1, h1, hi1, hw1⟩ := a.append_ok n h hn
    obtain ⟨a2, h2, hi2, hw2⟩ := ih a1 hw1
    refine ⟨a2, by simp [GArr.extendRep, h1, h2], ?_, hw2⟩
    rw [hi2, hi1, List.replicate_succ, List.append_assoc]
    rfl

/-- The writer invariant: the rows written so far (empty rows for skipped documents). -/
structure VarW.Inv (w : VarW) (rows : List Bytes) : Prop where
  out : w.out = rows.flatten
  lens : w.lengths.items = rows.map List.length
  offs : w.offsets.items = deriveOffsets 0 (rows.map List.length)
  base : w.offsetBase = rows.flatten.length
  wfl : w.lengths.WF
  wfo : w.offsets.WF

theorem VarW.inv_init : VarW.Inv {} [] :=
  ⟨rfl, rfl, rfl, rfl, GArr.wf_init, GArr.wf_init⟩

theorem deriveOffsets_replicate_zero (base : Nat) (ls : List Nat) (k : Nat) :
    deriveOffsets base (ls ++ List.replicate k 0) = deriveOffsets base ls ++ List.replicate k (base + ls.sum) := by
  induction k generalizing ls with
  | zero => simp
  | succ k ih =>
    have : ls ++ List.replicate (k + 1) 0 = (ls ++ [0]) ++ List.replicate k 0 := by
      rw [List.replicate_succ]; simp
    rw [this, ih (ls ++ [0]), deriveOffsets_append]
    simp [List.replicate_succ]

theorem VarW.fill_inv (w : VarW) (rows : List Bytes) (docnum : Nat) (h : w.Inv rows)
    (hcount : w.count = rows.length) (hd : w.count ≤ docnum) (hsize : rows.flatten.length < 4294967296) :
    ∃ w', w.fill docnum = .ok w' ∧ w'.Inv (rows ++ List.replicate (docnum - rows.length) []) ∧
      w'.count = w.count := by
  unfold VarW.fill
  by_cases hgt : docnum > w.count
  · simp only [hgt, if_true]
    obtain ⟨ls, hl1, hl2, hl3⟩ := w.lengths.extendRep_ok 0 (docnum - w.count) h.wfl (by omega)
    obtain ⟨os, ho1, ho2, ho3⟩ := w.offsets.extendRep_ok w.offsetBase (docnum - w.count) h.wfo
      (by rw [h.base]; exact hsize)
    refine ⟨{ w with lengths := ls, offsets := os }, by simp [hl1, ho1], ?_, rfl⟩
    have hk : docnum - w.count = docnum - rows.length := by rw [hcount]
    constructor
    · simp [h.out]
    · simp only; rw [hl2, h.lens, hk]; simp
    · simp only
      rw [ho2, h.offs, hk, List.map_append, List.map_replicate, List.length_nil,
        deriveOffsets_replicate_zero, h.base, flatten_length_eq_sum]
      simp
    · simp [h.base]
    · exact hl3
    · exact ho3
  · simp only [hgt, if_false]
    have : docnum - rows.length = 0 := by rw [← hcount]; omega
    exact ⟨w, rfl, by simpa [this] using h, rfl⟩

theorem VarW.add_inv (w : VarW) (rows : List Bytes) (docnum : Nat) (v : Bytes) (h : w.Inv rows)
    (hcount : w.count = rows.length) (hd : w.count ≤ docnum)
    (hsize : rows.flatten.length + v.length < 4294967296) :
    ∃ w', w.add docnum v = .ok w' ∧
      w'.Inv (rows ++ List.replicate (docnum - rows.length) [] ++ [v]) ∧
      w'.count = (rows ++ List.replicate (docnum - rows.length) [] ++ [v]).length := by
  obtain ⟨w1, hf, hi1, hc1⟩ := w.fill_inv rows docnum h hcount hd (by omega)
  have hflat : (rows ++ List.replicate (docnum - rows.length) ([] : Bytes)).flatten = rows.flatten := by
    simp
  obtain ⟨ls, hl1, hl2, hl3⟩ := w1.lengths.append_ok v.length hi1.wfl (by omega)
  obtain ⟨os, ho1, ho2, ho3⟩ := w1.offsets.append_ok w1.offsetBase hi1.wfo
    (by rw [hi1.base, hflat]; omega)
  refine ⟨{ out := w1.out ++ v, count := docnum + 1, lengths := ls, offsets := os
            offsetBase := w1.offsetBase + v.length }, by simp [VarW.add, hf, hl1, ho1], ?_, ?_⟩
  rotate_left
  · simp only [List.length_append, List.length_replicate, List.length_singleton]
    omega
  constructor
  · simp [hi1.out]
  · simp only; rw [hl2, hi1.lens]; simp
  · simp only
    rw [ho2, hi1.offs, hi1.base, List.map_append (l₂ := [v]), List.map_cons, List.map_nil,
      deriveOffsets_append, flatten_length_eq_sum]
    simp
  · simp only; rw [hi1.base]; simp
  · exact hl3
  · exact ho3

end WM.Columns

namespace WM.Columns

/-- Total number of value bytes of the adds. -/
def totalBytes (adds : List (Nat × Bytes)) : Nat := (adds.map (·.2.length)).sum

theorem extendRows_flatten_length (rows : List Bytes) (adds : List (Nat × Bytes)) :
    (extendRows [] rows adds).flatten.length = rows.flatten.length + totalBytes adds := by
  induction adds generalizing rows with
  | nil => simp [extendRows, totalBytes]
  | cons p rest ih =>
    obtain ⟨d, v⟩ := p
    simp only [extendRows, ih, totalBytes, List.map_cons, List.sum_cons]
    simp
    omega

theorem VarW.addAll_inv (adds : List (Nat × Bytes)) (w : VarW) (rows : List Bytes) (h : w.Inv rows)
    (hcount : w.count = rows.length) (hinc : Increasing adds) (hge : ∀ p ∈ adds, rows.length ≤ p.1)
    (hsize : rows.flatten.length + totalBytes adds < 4294967296) :
    ∃ w', w.addAll adds = .ok w' ∧ w'.Inv (extendRows [] rows adds) ∧
      w'.count = (extendRows [] rows adds).length := by
  induction adds generalizing w rows with
  | nil => exact ⟨w, rfl, h, hcount⟩
  | cons p rest ih =>
    obtain ⟨d, v⟩ := p
    have hd : rows.length ≤ d := hge (d, v) (by simp)
    have hinc' : Increasing rest := (List.pairwise_cons.mp hinc).2
    have hgt : ∀ q ∈ rest, d < q.1 := fun q hq => (List.pairwise_cons.mp hinc).1 q hq
    simp only [totalBytes, List.map_cons, List.sum_cons] at hsize
    obtain ⟨w1, ha, hi1, hc1⟩ := w.add_inv rows d v h hcount (by omega) (by omega)
    have hlen1 : (rows ++ List.replicate (d - rows.length) [] ++ [v]).length = d + 1 := by
      simp only [List.length_append, List.length_replicate, List.length_singleton]; omega
    obtain ⟨w2, h2, hi2, hc2⟩ := ih w1 _ hi1 hc1 hinc'
      (fun q hq => by rw [hlen1]; have := hgt q hq; omega)
      (by simp only [totalBytes, List.flatten_append, List.length_append, List.flatten_replicate_nil,
            List.flatten_cons, List.flatten_nil, List.append_nil]
          omega)
    exact ⟨w2, by simp [VarW.addAll, ha, h2], hi2, hc2⟩

theorem TC.ofCode_code (tc : TC) : TC.ofCode tc.code = some tc := by cases tc <;> rfl
theorem TC.code_ne_88 (tc : TC) : tc.code ≠ 88 := by cases tc <;> decide

theorem getElem?_append_len {α : Type} (xs ys : List α) (k : Nat) :
    (xs ++ ys)[xs.length + k]? = ys[k]? := by
  rw [List.getElem?_append_right (by omega)]
  congr 1; omega

/-- The reader recovers lengths and offsets from a file laid out by `finish`. -/
theorem VarR.open_layout (flat : Bytes) (ltc otc : TC) (L O : List Nat) (wo : Bool) (n : Nat)
    (hL : L.length = n) (hO : O.length = n) (hLw : ∀ x ∈ L, x ≤ ltc.max) (hOw : ∀ x ∈ O, x ≤ otc.max)
    (hOd : O = deriveOffsets 0 L) :
    ∃ r, VarR.open (flat ++ packArr ltc.size L ++ (if wo then packArr otc.size O else [])
            ++ [ltc.code] ++ (if wo then [otc.code, 88] else [])) n = .ok r ∧
      r.data = flat ++ packArr ltc.size L ++ (if wo then packArr otc.size O else [])
            ++ [ltc.code] ++ (if wo then [otc.code, 88] else []) ∧
      r.lengths = L ∧ r.offsets = O ∧ r.hadStoredOffsets = wo := by
  have hLlt : ∀ x ∈ L, x < 256 ^ ltc.size := fun x hx => Nat.lt_of_le_of_lt (hLw x hx) ltc.max_lt
  have hOlt : ∀ x ∈ O, x < 256 ^ otc.size := fun x hx => Nat.lt_of_le_of_lt (hOw x hx) otc.max_lt
  cases wo with
  | false =>
    simp only [Bool.false_eq_true, if_false, List.append_nil]
    have hlen : (flat ++ packArr ltc.size L ++ [ltc.code]).length = flat.length + ltc.size * n + 1 := by
      simp [packArr_length, hL]; omega
    have hlast : (flat ++ packArr ltc.size L ++ [ltc.code])[flat.length + ltc.size * n + 1 - 1]?
        = some ltc.code := by
      have : flat.length + ltc.size * n + 1 - 1 = (flat ++ packArr ltc.size L).length + 0 := by
        simp [packArr_length, hL]
      rw [this, getElem?_append_len]; rfl
    unfold VarR.open
    simp only [hlen, hlast, ltc.code_ne_88, if_false, TC.ofCode_code]
    refine ⟨_, rfl, rfl, ?_, ?_, rfl⟩
    · have : flat.length + ltc.size * n + 1 - 1 - ltc.size * n = flat.length := by omega
      simp only [this]
      rw [List.append_assoc, List.drop_left, ← hL, unpackArr_packArr _ _ _ hLlt]
    · have : flat.length + ltc.size * n + 1 - 1 - ltc.size * n = flat.length := by omega
      simp only [this]
      rw [List.append_assoc, List.drop_left, ← hL, unpackArr_packArr _ _ _ hLlt, hOd]
  | true =>
    simp only [if_true]
    have hlen : (flat ++ packArr ltc.size L ++ packArr otc.size O ++ [ltc.code] ++ [otc.code, 88]).length
        = flat.length + ltc.size * n + otc.size * n + 3 := by
      simp [packArr_length, hL, hO]; omega
    have hbase : (flat ++ packArr ltc.size L ++ packArr otc.size O).length
        = flat.length + ltc.size * n + otc.size * n := by simp [packArr_length, hL, hO]; omega
    have hfile : flat ++ packArr ltc.size L ++ packArr otc.size O ++ [ltc.code] ++ [otc.code, 88]
        = (flat ++ packArr ltc.size L ++ packArr otc.size O) ++ [ltc.code, otc.code, 88] := by simp
    have hg0 : (flat ++ packArr ltc.size L ++ packArr otc.size O ++ [ltc.code] ++ [otc.code, 88])[
        flat.length + ltc.size * n + otc.size * n + 3 - 1]? = some 88 := by
      rw [hfile]
      have : flat.length + ltc.size * n + otc.size * n + 3 - 1
          = (flat ++ packArr ltc.size L ++ packArr otc.size O).length + 2 := by rw [hbase]; omega
      rw [this, getElem?_append_len]; rfl
    have hg1 : (flat ++ packArr ltc.size L ++ packArr otc.size O ++ [ltc.code] ++ [otc.code, 88])[
        flat.length + ltc.size * n + otc.size * n + 3 - 1 - 1]? = some otc.code := by
      rw [hfile]
      have : flat.length + ltc.size * n + otc.size * n + 3 - 1 - 1
          = (flat ++ packArr ltc.size L ++ packArr otc.size O).length + 1 := by rw [hbase]; omega
      rw [this, getElem?_append_len]; rfl
    have hg2 : (flat ++ packArr ltc.size L ++ packArr otc.size O ++ [ltc.code] ++ [otc.code, 88])[
        flat.length + ltc.size * n + otc.size * n + 3 - 1 - 2]? = some ltc.code := by
      rw [hfile]
      have : flat.length + ltc.size * n + otc.size * n + 3 - 1 - 2
          = (flat ++ packArr ltc.size L ++ packArr otc.size O).length + 0 := by rw [hbase]; omega
      rw [this, getElem?_append_len]; rfl
    unfold VarR.open
    simp only [hlen, hg0, if_true, hg1, hg2, Option.bind_eq_bind, Option.bind_some, TC.ofCode_code]
    have hos : flat.length + ltc.size * n + otc.size * n + 3 - 1 - 2 - n * otc.size
        = (flat ++ packArr ltc.size L).length := by
      simp only [List.length_append, packArr_length, hL]
      rw [Nat.mul_comm n otc.size]; omega
    have hls : flat.length + ltc.size * n + otc.size * n + 3 - 1 - 2 - n * otc.size - ltc.size * n
        = flat.length := by
      rw [Nat.mul_comm n otc.size]; omega
    refine ⟨_, rfl, rfl, ?_, ?_, rfl⟩
    · simp only [hls]
      rw [List.append_assoc, List.append_assoc, List.append_assoc, List.drop_left, ← hL,
        unpackArr_packArr _ _ _ hLlt]
    · simp only [hos]
      have : flat ++ packArr ltc.size L ++ packArr otc.size O ++ [ltc.code] ++ [otc.code, 88]
          = (flat ++ packArr ltc.size L) ++ (packArr otc.size O ++ ([ltc.code] ++ [otc.code, 88])) := by
        simp
      rw [this, List.drop_left, ← hO, unpackArr_packArr _ _ _ hOlt]

end WM.Columns
