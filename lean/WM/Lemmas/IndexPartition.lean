import WM.Lemmas.IndexLayout
import WM.Lemmas.IndexBuild
import WM.Lemmas.IndexMp
/-! Review round: partitions of a session's additions, postings of the live documents, the posting
read path, sub-writers as results of `subWriter`. -/
namespace WM.Dict

/-! ### splitting the additions of a session over several commits (specification level) -/

theorem Sess.run_append (s : Sess) (a b : List SOp) : s.run (a ++ b) = (s.run a).run b := by
  simp [Sess.run, List.foldl_append]

theorem Sess.run_addOnly (s : Sess) (tail : List SOp) (h : ∀ o ∈ tail, o.addOnly = true) :
    s.run tail = { s with fresh := s.fresh ++ tail.flatMap SOp.added } := by
  induction tail generalizing s with
  | nil => simp [Sess.run]
  | cons o r ih =>
    have ho := h o (by simp)
    have hr := ih (s.step o) (fun x hx => h x (by simp [hx]))
    simp only [Sess.run, List.foldl_cons] at hr ⊢
    rw [hr]
    cases o with
    | add d => simp [Sess.step, Sess.add, SOp.added, List.flatMap_cons]
    | skip => simp [Sess.step, SOp.added, List.flatMap_cons]
    | erase d => simp [SOp.addOnly] at ho
    | restore d => simp [SOp.addOnly] at ho
    | deleteWhere p => simp [SOp.addOnly] at ho
    | update d => simp [SOp.addOnly] at ho
    | addField f u => simp [SOp.addOnly] at ho
    | removeField f => simp [SOp.addOnly] at ho

/-- Committing after `ops` and making the remaining add-only calls in a second session reaches the
    same dictionary state as doing everything in one session. -/
theorem State.session_split (sp : State) (ops tail : List SOp) (h : ∀ o ∈ tail, o.addOnly = true) :
    (sp.session ops .commit).session tail .commit = sp.session (ops ++ tail) .commit := by
  simp only [State.session, State.open_, Sess.run_append, Sess.run_addOnly _ tail h, Sess.commit, List.append_assoc,
    List.nil_append]

theorem State.addSessions_eq (sp : State) (parts : List (List DocRec)) :
    sp.addSessions parts = { sp with docs := sp.docs ++ parts.flatten } := by
  induction parts generalizing sp with
  | nil => simp [State.addSessions]
  | cons ds r ih =>
    have hr : ∀ o ∈ ds.map SOp.add, o.addOnly = true := by
      intro o ho; obtain ⟨d, _, rfl⟩ := List.mem_map.mp ho; rfl
    have hadd : (ds.map SOp.add).flatMap SOp.added = ds := by
      induction ds with
      | nil => rfl
      | cons d r ih2 => simp [List.flatMap_cons, SOp.added, ih2 (by intro o ho; obtain ⟨d, _, rfl⟩ := List.mem_map.mp ho; rfl)]
    simp only [State.addSessions, ih, List.flatten_cons]
    simp only [State.session, State.open_, Sess.run_addOnly _ _ hr, hadd, Sess.commit, List.nil_append, List.append_assoc]

/-- Hence every partition of the same additions into commits gives the same dictionary state. -/
theorem State.addSessions_partition (sp : State) (p1 p2 : List (List DocRec)) (h : p1.flatten = p2.flatten) :
    sp.addSessions p1 = sp.addSessions p2 := by
  rw [State.addSessions_eq, State.addSessions_eq, h]

end WM.Dict
namespace WM.Index
open WM.Dict

/-! ### the same on the model -/

theorem Writer.specOps_append (w : Writer) (a b : List Op) :
    w.specOps (a ++ b) = w.specOps a ++ (w.run a).specOps b := by
  induction a generalizing w with
  | nil => rfl
  | cons o r ih => simp only [List.cons_append, Writer.specOps, Writer.run, ih]

theorem Writer.run_append (w : Writer) (a b : List Op) : w.run (a ++ b) = (w.run a).run b := by
  induction a generalizing w with
  | nil => rfl
  | cons o r ih => simp only [List.cons_append, Writer.run, ih]

theorem RunOK_append (a b : List Op) (w : Writer) (ss : Sess) (ha : RunOK w ss a)
    (hb : RunOK (w.run a) (ss.run (w.specOps a)) b) : RunOK w ss (a ++ b) := by
  induction a generalizing w ss with
  | nil => exact hb
  | cons o r ih =>
    refine ⟨ha.1, ih _ _ ha.2 ?_⟩
    simpa [Writer.run, Writer.specOps, Sess.run] using hb

theorem RunOK_adds (w : Writer) (ss : Sess) (docs : List DocRec) : RunOK w ss (docs.map .add) := by
  induction docs generalizing w ss with
  | nil => trivial
  | cons d r ih => exact ⟨trivial, ih _ _⟩

/-- the specification calls that a run of `add_document`s amounts to depend on the schema only -/
theorem Writer.specOps_adds_schema (w1 w2 : Writer) (h : w1.schema = w2.schema) (docs : List DocRec) :
    w1.specOps (docs.map .add) = w2.specOps (docs.map .add) := by
  induction docs generalizing w1 w2 with
  | nil => rfl
  | cons d r ih =>
    simp only [List.map_cons, Writer.specOps]
    have e1 : w1.specOp (.add d) = w2.specOp (.add d) := by simp [Writer.specOp, h]
    rw [e1]
    congr 1
    apply ih
    by_cases hf : d.fits w1.schema = true
    · have hf2 : d.fits w2.schema = true := h ▸ hf
      simp [Writer.step, Writer.addDocument, hf, hf2, h]
    · have hf1 : d.fits w1.schema = false := by simpa using hf
      have hf2 : d.fits w2.schema = false := h ▸ hf1
      simp [Writer.step, Writer.addDocument, hf1, hf2, h]

theorem Writer.specOps_adds_addOnly (w : Writer) (docs : List DocRec) :
    ∀ o ∈ w.specOps (docs.map .add), o.addOnly = true := by
  induction docs generalizing w with
  | nil => intro o ho; simp [Writer.specOps] at ho
  | cons d r ih =>
    intro o ho
    simp only [List.map_cons, Writer.specOps, List.mem_cons] at ho
    rcases ho with rfl | ho
    · simp only [Writer.specOp]; split <;> rfl
    · exact ih _ o ho

/-- **Partition of a session's additions.** Running `ops` and then adding `adds` in *one* writer
session, or committing after `ops` (any re-arranging merge policy) and adding `adds` through a
*second* writer: both succeed, stay well-formed and hold the same documents. -/
theorem session_split_adds (t : Toc) (sp : State) (hwf : t.WF) (h : Rel t sp) (ops : List Op) (adds : List DocRec)
    (p p1 p2 : Plan) (hp : PlanOK p) (hp1 : PlanOK p1) (hp2 : PlanOK p2) (hok : RunOK t.writer sp.open_ ops) :
    ∃ ta tb, t.history [(ops ++ adds.map .add, .commit p)] = .ok ta ∧
      t.history [(ops, .commit p1), (adds.map .add, .commit p2)] = .ok tb ∧
      ta.WF ∧ tb.WF ∧ ta.schema = tb.schema ∧ ta.content.Perm tb.content := by
  -- one session
  obtain ⟨ta, ha, wfa, rela⟩ := session_sim t sp hwf h (ops ++ adds.map .add) (.commit p) .commit (EndRel.commit p hp)
    (RunOK_append ops _ _ _ hok (RunOK_adds _ _ _))
  -- two sessions
  obtain ⟨t1, h1, wf1, rel1⟩ := session_sim t sp hwf h ops (.commit p1) .commit (EndRel.commit p1 hp1) hok
  obtain ⟨tb, hb, wfb, relb⟩ := session_sim t1 _ wf1 rel1 (adds.map .add) (.commit p2) .commit (EndRel.commit p2 hp2)
    (RunOK_adds _ _ _)
  -- the schemas the additions are checked against coincide
  have hsch : (t.writer.run ops).schema = t1.writer.schema := by
    have := (Writer.commitPlan_content (t.writer.run ops) p1 t1 h1
      (run_sim t.writer sp.open_ ops (open_srel t sp h) (Toc.writer_wf t hwf) hok).1.fits
      (run_sim t.writer sp.open_ ops (open_srel t sp h) (Toc.writer_wf t hwf) hok).1.notAdded).1
    simp [Toc.writer, this]
  have hspec : sp.session (t.writer.specOps (ops ++ adds.map .add)) .commit
      = (sp.session (t.writer.specOps ops) .commit).session (t1.writer.specOps (adds.map .add)) .commit := by
    rw [Writer.specOps_append, Writer.specOps_adds_schema _ _ hsch]
    exact (State.session_split sp _ _ (Writer.specOps_adds_addOnly _ _)).symm
  refine ⟨ta, tb, by simp [Toc.history, ha, Except.bind], by simp [Toc.history, h1, hb, Except.bind], wfa, wfb, ?_, ?_⟩
  · rw [← rela.schema, ← relb.schema, hspec]
  · rw [hspec] at rela
    exact rela.docs.trans relb.docs.symm

theorem addSessions_schema (sp : State) (parts : List (List DocRec)) : (sp.addSessions parts).schema = sp.schema := by
  rw [State.addSessions_eq]

/-- a history of add-only sessions, one per part, each committed under its own merge policy -/
theorem history_adds (parts : List (List DocRec × Plan)) (t : Toc) (sp : State) (hwf : t.WF) (h : Rel t sp)
    (hplans : ∀ x ∈ parts, PlanOK x.2) (hfit : ∀ x ∈ parts, ∀ d ∈ x.1, d.fits sp.schema = true) :
    ∃ t', t.history (parts.map (fun x => (x.1.map Op.add, Ending.commit x.2))) = .ok t' ∧ t'.WF ∧
      Rel t' (sp.addSessions (parts.map (·.1))) := by
  induction parts generalizing t sp with
  | nil => exact ⟨t, rfl, hwf, h⟩
  | cons x r ih =>
    have hfx : ∀ d ∈ x.1, d.fits t.writer.schema = true := by
      intro d hd
      have := hfit x (by simp) d hd
      rw [h.schema] at this
      exact this
    obtain ⟨hspec, hrun⟩ := specOps_adds (ss := sp.open_) t.writer x.1 hfx
    obtain ⟨t1, h1, wf1, rel1⟩ := session_sim t sp hwf h (x.1.map .add) (.commit x.2) .commit
      (EndRel.commit x.2 (hplans x (by simp))) hrun
    rw [hspec] at rel1
    obtain ⟨t', h2, wf', rel'⟩ := ih t1 _ wf1 rel1 (fun y hy => hplans y (by simp [hy]))
      (by
        intro y hy d hd
        have : (sp.session (x.1.map SOp.add) .commit).schema = sp.schema :=
          addSessions_schema sp [x.1]
        rw [this]; exact hfit y (by simp [hy]) d hd)
    refine ⟨t', ?_, wf', ?_⟩
    · simp only [List.map_cons, Toc.history, h1, Except.bind]; exact h2
    · simpa [State.addSessions] using rel'

/-- **Commit partitions are invisible.** Cut the same list of added documents into writer sessions
in two different ways, each session committed under any re-arranging merge policy: both histories
succeed, stay well-formed and end with the same documents. -/
theorem partition_invisible (t : Toc) (sp : State) (hwf : t.WF) (h : Rel t sp)
    (p1 p2 : List (List DocRec × Plan)) (h1 : ∀ x ∈ p1, PlanOK x.2) (h2 : ∀ x ∈ p2, PlanOK x.2)
    (hf1 : ∀ x ∈ p1, ∀ d ∈ x.1, d.fits sp.schema = true) (hf2 : ∀ x ∈ p2, ∀ d ∈ x.1, d.fits sp.schema = true)
    (hsame : (p1.map (·.1)).flatten = (p2.map (·.1)).flatten) :
    ∃ ta tb, t.history (p1.map (fun x => (x.1.map Op.add, Ending.commit x.2))) = .ok ta ∧
      t.history (p2.map (fun x => (x.1.map Op.add, Ending.commit x.2))) = .ok tb ∧
      ta.WF ∧ tb.WF ∧ ta.schema = tb.schema ∧ ta.content.Perm tb.content := by
  obtain ⟨ta, ea, wfa, rela⟩ := history_adds p1 t sp hwf h h1 hf1
  obtain ⟨tb, eb, wfb, relb⟩ := history_adds p2 t sp hwf h h2 hf2
  rw [State.addSessions_partition sp _ _ hsame] at rela
  exact ⟨ta, tb, ea, eb, wfa, wfb, by rw [← rela.schema, ← relb.schema], rela.docs.trans relb.docs.symm⟩

/-! ### postings of the live documents -/

/-- `iter_postings()` of the whole index: exactly the postings of the visible live documents, at
    their global numbers — so the term index is determined by the (numbered) content. -/
theorem globalPosts_perm (sc : Schema) (segs : List Seg) (base : Nat)
    (hwf : ∀ s ∈ segs, s.posts.Perm (allPostings s.docs)) :
    (globalPosts sc segs base).Perm ((liveGlobal segs base).flatMap (fun q => docPostings (restrict sc q.1) q.2)) := by
  induction segs generalizing base with
  | nil => simp [globalPosts, liveGlobal]
  | cons s r ih =>
    simp only [globalPosts, liveGlobal, List.flatMap_append]
    refine List.Perm.append ?_ (ih _ (fun x hx => hwf x (by simp [hx])))
    have hlive : (s.livePosts sc).Perm (s.liveIdx.flatMap (fun q => docPostings (restrict sc q.1) q.2)) := by
      rw [← allPostings_filter_live]; exact (hwf s (by simp)).filter _
    refine (hlive.map _).trans ?_
    rw [List.map_flatMap, List.flatMap_map]
    apply List.Perm.of_eq
    apply flatMap_congr_mem
    intro q _
    rw [← docPostings_renumber (restrict sc q.1) q.2 (q.2 + base)]
    apply List.map_congr_left
    intro p hp
    simp [docPostings_doc _ _ p hp]

/-- forgetting the numbers: the multiset of (field, term, weight, value) of the live postings is
    that of the content's documents -/
theorem globalPosts_content (t : Toc) (hwf : t.WF) :
    ((globalPosts t.schema t.segs 0).map (fun p => (p.fld, p.term, p.w, p.v))).Perm
      ((t.content.flatMap (fun d => docPostings d 0)).map (fun p => (p.fld, p.term, p.w, p.v))) := by
  refine ((globalPosts_perm t.schema t.segs 0 (fun s hs => (hwf s hs).posts)).map _).trans ?_
  apply List.Perm.of_eq
  rw [Toc.content, contentOf_eq_liveGlobal _ _ 0, List.flatMap_map, List.map_flatMap, List.map_flatMap]
  apply flatMap_congr_mem
  intro q _
  rw [← docPostings_renumber (restrict t.schema q.1) q.2 0, List.map_map]
  rfl

/-- **the posting read path**: `reader.postings(f, t)` (deleted-documents filter included) yields
    exactly the numbers of the live documents whose visible data carry the term -/
theorem postingDocs_exact (t : Toc) (hwf : t.WF) (f tm n : Nat) :
    n ∈ t.postingDocs f tm ↔ ∃ q ∈ liveGlobal t.segs 0, q.2 = n ∧ (restrict t.schema q.1).hasTerm f tm = true := by
  have hp : ∀ s ∈ t.segs, s.posts.Perm (allPostings s.docs) := fun s hs => (hwf s hs).posts
  constructor
  · intro hn
    have hm := (docsForQuery_term_perm t.schema f tm t.segs 0 hp).mem_iff.mp hn
    simp only [List.mem_flatMap, List.mem_replicate] at hm
    obtain ⟨q, hq, hne, rfl⟩ := hm
    exact ⟨q, hq, rfl, (termCount_pos t.schema f tm q.1).mp (by omega)⟩
  · rintro ⟨q, hq, rfl, ht⟩
    have := docsForQuery_term_contains t.schema f tm t.segs hp q hq
    rw [ht, List.contains_iff_mem] at this
    exact this

end WM.Index
