import WM.Model.FS
import WM.Lemmas.FSBasic
/-! The invariant behind C02: "the newest TOC name is complete and everything it references is
complete", its preservation by every event the commit protocol allows, and by a crash. -/
namespace WM.FS

/-- `t` is the committed state of the directory. -/
structure Holds (ix : Name) (fs : FS) (t : Toc) : Prop where
  latest : IsLatest ix fs t.gen
  tocfile : ∃ i, fs.dir (tocName ix t.gen) = some i ∧ (fs.data i).st = .complete ∧
    (fs.data i).toc = some t
  files : ∀ f ∈ t.files, fs.isComplete f = true

theorem readable_iff (fs : FS) (t : Toc) :
    readable fs t = true ↔ ∀ f ∈ t.files, fs.isComplete f = true := by
  simp [readable, List.all_eq_true]

theorem holds_readToc {ix : Name} {fs : FS} {t : Toc} (hwf : WF fs) (h : Holds ix fs t) :
    readToc ix fs = .ok t ∧ readable fs t = true := by
  refine ⟨?_, (readable_iff fs t).2 h.files⟩
  obtain ⟨i, hi, hst, htoc⟩ := h.tocfile
  unfold readToc
  rw [isLatest_latestGen hwf h.latest]
  simp [hi, hst, htoc]

theorem consistent_holds {ix : Name} {fs : FS} {old : Toc} (h : Consistent ix old fs) :
    WF fs ∧ Holds ix fs old := by
  have hwf : WF fs := ⟨h.support, h.range, h.inj⟩
  refine ⟨hwf, ?_⟩
  have ht := h.toc
  unfold readToc at ht
  cases hl : latestGen ix fs with
  | none => rw [hl] at ht; cases ht
  | some g =>
    rw [hl] at ht
    simp only at ht
    cases hd : fs.dir (tocName ix g) with
    | none => rw [hd] at ht; cases ht
    | some i =>
      rw [hd] at ht
      simp only at ht
      by_cases hst : (fs.data i).st = .complete
      · rw [if_pos hst] at ht
        cases htc : (fs.data i).toc with
        | none => rw [htc] at ht; cases ht
        | some t =>
          rw [htc] at ht
          simp only at ht
          by_cases hg : t.gen = g
          · rw [if_pos hg] at ht
            cases ht
            subst hg
            exact ⟨latestGen_isLatest hwf hl, ⟨i, hd, hst, htc⟩, (readable_iff fs _).1 h.readable⟩
          · rw [if_neg hg] at ht; cases ht
      · rw [if_neg hst] at ht; cases ht

/-! ### crash -/

theorem crash_dir (fs : FS) (τ : Nat → Nat) : (crash fs τ).dir = fs.dir := rfl

theorem crash_data_of_not_writing (fs : FS) (τ : Nat → Nat) (i : Nat)
    (h : (fs.data i).st ≠ .writing) : (crash fs τ).data i = fs.data i := by
  simp [crash, h]

theorem crash_wf {fs : FS} (h : WF fs) (τ : Nat → Nat) : WF (crash fs τ) :=
  ⟨h.support, h.range, h.inj⟩

theorem crash_noWriting (fs : FS) (τ : Nat → Nat) (i : Nat) : ((crash fs τ).data i).st ≠ .writing := by
  simp only [crash]
  split
  · simp
  · assumption

theorem crash_isComplete {fs : FS} (τ : Nat → Nat) {n : Name} (h : fs.isComplete n = true) :
    (crash fs τ).isComplete n = true := by
  rw [isComplete_iff] at *
  obtain ⟨i, hi, hc⟩ := h
  refine ⟨i, hi, ?_⟩
  rw [crash_data_of_not_writing fs τ i (by rw [hc]; decide)]
  exact hc

theorem holds_crash {ix : Name} {fs : FS} {t : Toc} (h : Holds ix fs t) (τ : Nat → Nat) :
    Holds ix (crash fs τ) t := by
  refine ⟨h.latest, ?_, fun f hf => crash_isComplete τ (h.files f hf)⟩
  obtain ⟨i, hi, hst, htoc⟩ := h.tocfile
  have := crash_data_of_not_writing fs τ i (by rw [hst]; decide)
  exact ⟨i, hi, by rw [this]; exact hst, by rw [this]; exact htoc⟩

/-! ### events -/

theorem isComplete_step {fs : FS} (hwf : WF fs) (e : Event) (m : Name)
    (hm : fs.isComplete m = true) (ht : ¬ Touches e m)
    (hc : ∀ n, e = .create n → fs.dir n = none) : (step fs e).isComplete m = true := by
  rw [isComplete_iff] at *
  obtain ⟨j, hj, hst⟩ := hm
  obtain ⟨h1, h2⟩ := step_frame hwf e m j hj (by rw [hst]; decide) ht hc
  exact ⟨j, h1, by rw [h2]; exact hst⟩

/-- Names bound after a non-rename event were bound before, or have just been created. -/
theorem bound_step (fs : FS) (e : Event) (m : Name) (hr : ∀ a b, e ≠ .rename a b)
    (h : ((step fs e).dir m).isSome) : (fs.dir m).isSome ∨ e = .create m := by
  cases e with
  | create n =>
    simp only [step] at h
    cases hn : fs.dir n with
    | some i => rw [hn] at h; left; simpa [setData] using h
    | none =>
      rw [hn] at h
      simp only at h
      by_cases hmn : m = n
      · right; rw [hmn]
      · left; simpa [hmn] using h
  | write n k => left; simpa [step, modData_dir] using h
  | setToc n t => left; simpa [step, modData_dir] using h
  | close n => left; simpa [step, modData_dir] using h
  | rename a b => exact absurd rfl (hr a b)
  | delete n =>
    left
    simp only [step] at h
    by_cases hmn : m = n
    · simp [hmn] at h
    · simpa [hmn] using h
  | other => left; exact h

theorem holds_step {ix : Name} {fs : FS} {t : Toc} (hwf : WF fs) (h : Holds ix fs t) (e : Event)
    (hpin : ∀ m, (m = tocName ix t.gen ∨ m ∈ t.files) → ¬ Touches e m)
    (hc : ∀ n, e = .create n → fs.dir n = none ∧ tocGen ix n = none)
    (hr : ∀ a b, e ≠ .rename a b) : Holds ix (step fs e) t := by
  have hc' : ∀ n, e = .create n → fs.dir n = none := fun n hn => (hc n hn).1
  obtain ⟨i, hi, hst, htoc⟩ := h.tocfile
  obtain ⟨f1, f2⟩ := step_frame hwf e _ i hi (by rw [hst]; decide) (hpin _ (Or.inl rfl)) hc'
  refine ⟨⟨?_, ?_⟩, ⟨i, f1, by rw [f2]; exact hst, by rw [f2]; exact htoc⟩, ?_⟩
  · exact ⟨tocName ix t.gen, by rw [f1]; rfl, tocGen_tocName ix t.gen⟩
  · intro m g' hb hg'
    rcases bound_step fs e m hr hb with hb' | hcr
    · exact h.latest.2 m g' hb' hg'
    · have := (hc m hcr).2; rw [this] at hg'; cases hg'
  · intro f hf
    exact isComplete_step hwf e f (h.files f hf) (hpin f (Or.inr hf)) hc'

/-- The single rename of the protocol publishes `new`. -/
theorem holds_rename {ix : Name} {fs : FS} {old new : Toc} (_hwf : WF fs) (h : Holds ix fs old)
    (hnew : ∀ f ∈ new.files, fs.isComplete f = true) (a : Name)
    (ha : fs.isComplete a = true) (hat : (fs.file? a).bind (·.toc) = some new)
    (hgen : new.gen = old.gen + 1) (hb : fs.dir (tocName ix new.gen) = none)
    (hanew : a ∉ new.files) : Holds ix (step fs (.rename a (tocName ix new.gen))) new := by
  rw [isComplete_iff] at ha
  obtain ⟨i, hi, hst⟩ := ha
  have htoc : (fs.data i).toc = some new := by simpa [FS.file?, hi] using hat
  have hdir : ∀ m, (step fs (.rename a (tocName ix new.gen))).dir m =
      if m = tocName ix new.gen then some i else if m = a then none else fs.dir m := by
    intro m; simp [step, hi]
  have hdata : (step fs (.rename a (tocName ix new.gen))).data = fs.data := by simp [step, hi]
  refine ⟨⟨?_, ?_⟩, ⟨i, by rw [hdir]; simp, by rw [hdata]; exact hst, by rw [hdata]; exact htoc⟩, ?_⟩
  · exact ⟨tocName ix new.gen, by rw [hdir]; simp, tocGen_tocName ix new.gen⟩
  · intro m g' hbm hg'
    rw [hdir] at hbm
    by_cases hmb : m = tocName ix new.gen
    · rw [hmb, tocGen_tocName] at hg'; cases hg'; exact Nat.le_refl _
    · simp only [hmb, if_false] at hbm
      by_cases hma : m = a
      · simp [hma] at hbm
      · simp only [hma, if_false] at hbm
        have := h.latest.2 m g' hbm hg'
        omega
  · intro f hf
    have hfc := hnew f hf
    rw [isComplete_iff] at hfc ⊢
    obtain ⟨j, hj, hjs⟩ := hfc
    have hfa : f ≠ a := fun h => hanew (h ▸ hf)
    have hfb : f ≠ tocName ix new.gen := by intro h; rw [h, hb] at hj; cases hj
    exact ⟨j, by rw [hdir]; simp [hfa, hfb, hj], by rw [hdata]; exact hjs⟩

end WM.FS

namespace WM.FS

/-- The protocol invariant, by phase. -/
structure Inv (ix : Name) (old new : Toc) (tmp : Option Name) (c : Chk) : Prop where
  wf : WF c.fs
  pre : c.phase ≠ .post → Holds ix c.fs old
  mid : (c.phase = .tmpOpen ∨ c.phase = .tmpClosed) →
    (∀ f ∈ new.files, c.fs.isComplete f = true) ∧ ∀ t, tmp = some t → t ∉ new.files
  post : c.phase = .post → Holds ix c.fs new
  gen : c.phase = .post → new.gen = old.gen + 1

theorem inv_init {ix : Name} {old new : Toc} {tmp : Option Name} {fs : FS}
    (h : Consistent ix old fs) : Inv ix old new tmp ⟨fs, .pre⟩ := by
  obtain ⟨hwf, hh⟩ := consistent_holds h
  refine ⟨hwf, fun _ => hh, ?_, ?_, ?_⟩
  · intro h; rcases h with h | h <;> cases h
  · intro h; cases h
  · intro h; cases h

theorem bound_of_isComplete {fs : FS} {n : Name} (h : fs.isComplete n = true) :
    (fs.dir n).isSome := by
  rw [isComplete_iff] at h
  obtain ⟨i, hi, _⟩ := h
  rw [hi]; rfl

theorem holds_bound_toc {ix : Name} {fs : FS} {t : Toc} (h : Holds ix fs t) :
    (fs.dir (tocName ix t.gen)).isSome := by
  obtain ⟨i, hi, _⟩ := h.tocfile
  rw [hi]; rfl

/-- Frame rule for the invariant: any event other than the rename, creating only fresh non-TOC
    names and not touching what the target phase relies on. -/
theorem inv_frame {ix : Name} {old new : Toc} {tmp : Option Name} {c : Chk}
    (hinv : Inv ix old new tmp c) (e : Event) (ph' : Phase)
    (hc : ∀ n, e = .create n → c.fs.dir n = none ∧ tocGen ix n = none)
    (hr : ∀ a b, e ≠ .rename a b)
    (hpre : ph' ≠ .post → c.phase ≠ .post ∧
      ∀ m, (m = tocName ix old.gen ∨ m ∈ old.files) → ¬ Touches e m)
    (hmid : (ph' = .tmpOpen ∨ ph' = .tmpClosed) →
      (∀ f ∈ new.files, c.fs.isComplete f = true) ∧ (∀ t, tmp = some t → t ∉ new.files) ∧
      ∀ m ∈ new.files, ¬ Touches e m)
    (hpost : ph' = .post → c.phase = .post ∧
      ∀ m, (m = tocName ix new.gen ∨ m ∈ new.files) → ¬ Touches e m) :
    Inv ix old new tmp ⟨step c.fs e, ph'⟩ := by
  have hwf := hinv.wf
  have hc' : ∀ n, e = .create n → c.fs.dir n = none := fun n hn => (hc n hn).1
  have hr' : ∀ a b, e = .rename a b → c.fs.dir b = none := fun a b h => absurd h (hr a b)
  refine ⟨step_wf hwf e hc' hr', ?_, ?_, ?_, ?_⟩
  · intro hp
    obtain ⟨h1, h2⟩ := hpre hp
    exact holds_step hwf (hinv.pre h1) e h2 hc hr
  · intro hm
    obtain ⟨h1, h2, h3⟩ := hmid hm
    exact ⟨fun f hf => isComplete_step hwf e f (h1 f hf) (h3 f hf) hc', h2⟩
  · intro hp
    obtain ⟨h1, h2⟩ := hpost hp
    exact holds_step hwf (hinv.post h1) e h2 hc hr
  · intro hp
    exact hinv.gen (hpost hp).1

theorem ne_of_bound_unbound {fs : FS} {m n : Name} (hm : (fs.dir m).isSome) (hn : fs.dir n = none) :
    m ≠ n := by
  intro h; subst h; rw [hn] at hm; cases hm

theorem holds_pinned_bound {ix : Name} {fs : FS} {t : Toc} (h : Holds ix fs t) (m : Name)
    (hm : m = tocName ix t.gen ∨ m ∈ t.files) : (fs.dir m).isSome := by
  rcases hm with hm | hm
  · rw [hm]; exact holds_bound_toc h
  · exact bound_of_isComplete (h.files m hm)

theorem inv_step {ix : Name} {old new : Toc} {tmp : Option Name} {c c' : Chk} {e : Event}
    (hinv : Inv ix old new tmp c) (hs : chkStep ix old new tmp c e = some c') :
    Inv ix old new tmp c' := by
  unfold chkStep at hs
  cases hok : okEvent ix old new tmp c e with
  | none => rw [hok] at hs; cases hs
  | some ph =>
    rw [hok] at hs
    simp only [Option.map_some, Option.some.injEq] at hs
    subst hs
    have hwf := hinv.wf
    cases e with
    | create n =>
      simp only [okEvent] at hok
      split at hok
      · cases hok
      · next hcond =>
        simp only [Bool.or_eq_true, decide_eq_true_eq, not_or] at hcond
        obtain ⟨⟨hnames, hdir⟩, htg⟩ := hcond
        have hdir' : c.fs.dir n = none := by
          cases hd : c.fs.dir n with
          | none => rfl
          | some i => rw [hd] at hdir; simp at hdir
        have htg' : tocGen ix n = none := by
          cases hd : tocGen ix n with
          | none => rfl
          | some i => rw [hd] at htg; simp at htg
        have hc : ∀ k, Event.create n = .create k → c.fs.dir k = none ∧ tocGen ix k = none := by
          intro k hk; cases hk; exact ⟨hdir', htg'⟩
        have hr : ∀ a b, Event.create n ≠ .rename a b := fun a b h => by cases h
        have hnt : ∀ m, (c.fs.dir m).isSome → ¬ Touches (.create n) m := by
          intro m hm; simpa [Touches] using ne_of_bound_unbound hm hdir'
        split at hok
        · next htmp =>
          split at hok
          · next hpre =>
            cases hok
            simp only [Bool.and_eq_true, decide_eq_true_eq] at hpre
            obtain ⟨hph, hrd⟩ := hpre
            have hrd' := (readable_iff _ _).1 hrd
            have hold := hinv.pre (by rw [hph]; decide)
            apply inv_frame hinv _ _ hc hr
            · intro _
              exact ⟨by rw [hph]; decide, fun m hm => hnt m (holds_pinned_bound hold m hm)⟩
            · intro _
              refine ⟨hrd', ?_, fun m hm => hnt m (bound_of_isComplete (hrd' m hm))⟩
              intro t ht hmem
              rw [← htmp] at ht; cases ht
              exact ne_of_bound_unbound (bound_of_isComplete (hrd' n hmem)) hdir' rfl
            · intro h; cases h
          · cases hok
        · cases hok
          apply inv_frame hinv _ _ hc hr
          · intro hp
            exact ⟨hp, fun m hm => hnt m (holds_pinned_bound (hinv.pre hp) m hm)⟩
          · intro hm
            exact ⟨(hinv.mid hm).1, (hinv.mid hm).2,
              fun m hmem => hnt m (bound_of_isComplete ((hinv.mid hm).1 m hmem))⟩
          · intro hp
            exact ⟨hp, fun m hm => hnt m (holds_pinned_bound (hinv.post hp) m hm)⟩
    | write n k =>
      simp only [okEvent] at hok
      split at hok
      · cases hok
        apply inv_frame hinv _ _ (fun m h => by cases h) (fun a b h => by cases h)
        · exact fun hp => ⟨hp, fun m _ h => h⟩
        · exact fun hm => ⟨(hinv.mid hm).1, (hinv.mid hm).2, fun m _ h => h⟩
        · exact fun hp => ⟨hp, fun m _ h => h⟩
      · cases hok
    | setToc n t =>
      simp only [okEvent] at hok
      split at hok
      · cases hok
        apply inv_frame hinv _ _ (fun m h => by cases h) (fun a b h => by cases h)
        · exact fun hp => ⟨hp, fun m _ h => h⟩
        · exact fun hm => ⟨(hinv.mid hm).1, (hinv.mid hm).2, fun m _ h => h⟩
        · exact fun hp => ⟨hp, fun m _ h => h⟩
      · cases hok
    | close n =>
      simp only [okEvent] at hok
      split at hok
      · split at hok
        · split at hok
          · next hph =>
            cases hok
            apply inv_frame hinv _ _ (fun m h => by cases h) (fun a b h => by cases h)
            · exact fun _ => ⟨by rw [hph]; decide, fun m _ h => h⟩
            · exact fun _ => ⟨(hinv.mid (Or.inl hph)).1, (hinv.mid (Or.inl hph)).2, fun m _ h => h⟩
            · intro h; cases h
          · cases hok
        · cases hok
          apply inv_frame hinv _ _ (fun m h => by cases h) (fun a b h => by cases h)
          · exact fun hp => ⟨hp, fun m _ h => h⟩
          · exact fun hm => ⟨(hinv.mid hm).1, (hinv.mid hm).2, fun m _ h => h⟩
          · exact fun hp => ⟨hp, fun m _ h => h⟩
      · cases hok
    | rename a b =>
      simp only [okEvent] at hok
      split at hok
      · next hcond =>
        cases hok
        simp only [Bool.and_eq_true, decide_eq_true_eq, Bool.not_eq_true', Option.isSome_eq_false_iff,
          Option.isNone_iff_eq_none, decide_eq_false_iff_not] at hcond
        obtain ⟨⟨⟨⟨⟨⟨⟨hatmp, hph⟩, hac⟩, hat⟩, hgen⟩, hb⟩, hbd⟩, _⟩ := hcond
        subst hb
        have hmid := hinv.mid (Or.inr hph)
        have hold := hinv.pre (by rw [hph]; decide)
        refine ⟨step_wf hwf (.rename a (tocName ix new.gen)) (fun m h => by cases h)
            (fun x y h => by cases h; exact hbd),
          fun h => absurd rfl h, ?_, fun _ => ?_, fun _ => hgen⟩
        · intro h; rcases h with h | h <;> cases h
        · exact holds_rename hwf hold hmid.1 a hac hat hgen hbd (hmid.2 a hatmp.symm)
      · cases hok
    | delete n =>
      have hc : ∀ m, Event.delete n = .create m → c.fs.dir m = none ∧ tocGen ix m = none :=
        fun m h => by cases h
      have hr : ∀ a b, Event.delete n ≠ .rename a b := fun a b h => by cases h
      simp only [okEvent] at hok
      cases hph : c.phase with
      | post =>
        rw [hph] at hok
        simp only at hok
        split at hok
        · cases hok
        · next hcond =>
          cases hok
          simp only [Bool.or_eq_true, decide_eq_true_eq, not_or] at hcond
          apply inv_frame hinv _ _ hc hr
          · intro h; exact absurd rfl h
          · intro h; rcases h with h | h <;> cases h
          · intro _
            refine ⟨hph, fun m hm => ?_⟩
            simp only [Touches]
            rcases hm with hm | hm
            · rw [hm]; exact fun h => hcond.1 h.symm
            · exact fun h => hcond.2 (h ▸ hm)
      | pre =>
        rw [hph] at hok
        simp only at hok
        split at hok
        · cases hok
        · next hcond =>
          cases hok
          simp only [Bool.or_eq_true, decide_eq_true_eq, not_or] at hcond
          apply inv_frame hinv _ _ hc hr
          · intro _
            refine ⟨by rw [hph]; decide, fun m hm => ?_⟩
            simp only [Touches]
            rcases hm with hm | hm
            · rw [hm]; exact fun h => hcond.1 h.symm
            · exact fun h => hcond.2 (h ▸ hm)
          · intro h; rcases h with h | h <;> cases h
          · intro h; cases h
      | tmpOpen =>
        rw [hph] at hok
        simp only at hok
        split at hok
        · cases hok
        · next hcond =>
          cases hok
          simp only [Bool.or_eq_true, decide_eq_true_eq, not_or] at hcond
          obtain ⟨⟨⟨h1, h2⟩, h3⟩, _⟩ := hcond
          apply inv_frame hinv _ _ hc hr
          · intro _
            refine ⟨by rw [hph]; decide, fun m hm => ?_⟩
            simp only [Touches]
            rcases hm with hm | hm
            · rw [hm]; exact fun h => h1 h.symm
            · exact fun h => h2 (h ▸ hm)
          · intro _
            refine ⟨(hinv.mid (Or.inl hph)).1, (hinv.mid (Or.inl hph)).2, fun m hm => ?_⟩
            simp only [Touches]
            exact fun h => h3 (h ▸ hm)
          · intro h; cases h
      | tmpClosed =>
        rw [hph] at hok
        simp only at hok
        split at hok
        · cases hok
        · next hcond =>
          cases hok
          simp only [Bool.or_eq_true, decide_eq_true_eq, not_or] at hcond
          obtain ⟨⟨⟨h1, h2⟩, h3⟩, _⟩ := hcond
          apply inv_frame hinv _ _ hc hr
          · intro _
            refine ⟨by rw [hph]; decide, fun m hm => ?_⟩
            simp only [Touches]
            rcases hm with hm | hm
            · rw [hm]; exact fun h => h1 h.symm
            · exact fun h => h2 (h ▸ hm)
          · intro _
            refine ⟨(hinv.mid (Or.inr hph)).1, (hinv.mid (Or.inr hph)).2, fun m hm => ?_⟩
            simp only [Touches]
            exact fun h => h3 (h ▸ hm)
          · intro h; cases h
    | other =>
      simp only [okEvent] at hok
      cases hok
      exact ⟨hwf, hinv.pre, hinv.mid, hinv.post, hinv.gen⟩

end WM.FS
