import WM.Model.Lev
/-! Generic facts about the NFA model: `expand` is the epsilon closure. -/
namespace WM.Lev.NFA

theorem mem_dests {n : NFA} {s t : St} {l : Label} : t ∈ n.dests s l ↔ (s, l, t) ∈ n.trans := by
  unfold dests
  simp only [List.mem_filterMap]
  constructor
  · rintro ⟨⟨a, l', t'⟩, hm, h⟩
    split at h
    · next hc =>
      simp only [Option.some.injEq] at h
      obtain ⟨rfl, rfl⟩ := hc
      subst h
      exact hm
    · cases h
  · intro h
    exact ⟨(s, l, t), h, by simp⟩

/-- Invariant of the `_expand` loop: the frontier is part of the accumulated set and every
    accumulated state that is no longer on the frontier has all its epsilon successors in. -/
structure ExpandInv (n : NFA) (frontier acc : SSet) : Prop where
  sub : ∀ s, s ∈ frontier → s ∈ acc
  done : ∀ s, s ∈ acc → s ∉ frontier → ∀ t, t ∈ n.dests s .eps → t ∈ acc

theorem expandLoop_spec (n : NFA) (P : St → Prop)
    (hP : ∀ s t, P s → t ∈ n.dests s .eps → P t) :
    ∀ (frontier acc : SSet), ExpandInv n frontier acc → (∀ s, s ∈ acc → P s) →
      (∀ s, s ∈ acc → s ∈ n.expandLoop frontier acc) ∧
      (∀ s, s ∈ n.expandLoop frontier acc → ∀ t, t ∈ n.dests s .eps → t ∈ n.expandLoop frontier acc) ∧
      (∀ s, s ∈ n.expandLoop frontier acc → P s) := by
  intro frontier acc
  induction frontier, acc using expandLoop.induct (n := n) with
  | case1 acc =>
    intro inv hacc
    rw [expandLoop]
    exact ⟨fun s h => h, fun s hs t ht => inv.done s hs (by simp) t ht, hacc⟩
  | case2 acc s rest new ih =>
    intro inv hacc
    rw [expandLoop]
    have hnew : ∀ t, t ∈ new ↔ t ∈ n.dests s .eps ∧ t ∉ acc := by
      intro t
      simp only [new, List.mem_eraseDups, List.mem_filter, Bool.not_eq_eq_eq_not, Bool.not_true,
        List.contains_eq_mem, decide_eq_false_iff_not]
    have hs : s ∈ acc := inv.sub s (by simp)
    have inv' : ExpandInv n (rest ++ new) (acc ++ new) := by
      constructor
      · intro x hx
        rcases List.mem_append.mp hx with h | h
        · exact List.mem_append.mpr (Or.inl (inv.sub x (by simp [h])))
        · exact List.mem_append.mpr (Or.inr h)
      · intro x hx hnf t ht
        have hx1 : x ∉ rest := fun h => hnf (List.mem_append.mpr (Or.inl h))
        have hx2 : x ∉ new := fun h => hnf (List.mem_append.mpr (Or.inr h))
        have hxa : x ∈ acc := by
          rcases List.mem_append.mp hx with h | h
          · exact h
          · exact absurd h hx2
        by_cases hxs : x = s
        · subst hxs
          by_cases hta : t ∈ acc
          · exact List.mem_append.mpr (Or.inl hta)
          · exact List.mem_append.mpr (Or.inr ((hnew t).mpr ⟨ht, hta⟩))
        · have : x ∉ s :: rest := by
            simp only [List.mem_cons, not_or]; exact ⟨hxs, hx1⟩
          exact List.mem_append.mpr (Or.inl (inv.done x hxa this t ht))
    have hacc' : ∀ x, x ∈ acc ++ new → P x := by
      intro x hx
      rcases List.mem_append.mp hx with h | h
      · exact hacc x h
      · exact hP s x (hacc s hs) ((hnew x).mp h).1
    obtain ⟨h1, h2, h3⟩ := ih inv' hacc'
    exact ⟨fun x hx => h1 x (List.mem_append.mpr (Or.inl hx)), h2, h3⟩

theorem expandInv_init (n : NFA) (X : SSet) : ExpandInv n X X :=
  ⟨fun _ h => h, fun _ h hn => absurd h hn⟩

/-- `expand X` contains `X` ... -/
theorem subset_expand (n : NFA) (X : SSet) {s : St} (h : s ∈ X) : s ∈ n.expand X :=
  (expandLoop_spec n (fun _ => True) (fun _ _ _ _ => trivial) X X (expandInv_init n X)
    (fun _ _ => trivial)).1 s h

/-- ... is closed under epsilon arcs ... -/
theorem expand_closed (n : NFA) (X : SSet) {s t : St} (hs : s ∈ n.expand X)
    (ht : (s, Label.eps, t) ∈ n.trans) : t ∈ n.expand X :=
  (expandLoop_spec n (fun _ => True) (fun _ _ _ _ => trivial) X X (expandInv_init n X)
    (fun _ _ => trivial)).2.1 s hs t (mem_dests.mpr ht)

/-- ... and is the least such set: whatever holds on `X` and is preserved by epsilon arcs holds
    on `expand X`. -/
theorem expand_induction (n : NFA) (X : SSet) (P : St → Prop) (h0 : ∀ s, s ∈ X → P s)
    (hstep : ∀ s t, P s → (s, Label.eps, t) ∈ n.trans → P t) : ∀ s, s ∈ n.expand X → P s :=
  (expandLoop_spec n P (fun s t hp ht => hstep s t hp (mem_dests.mp ht)) X X (expandInv_init n X)
    h0).2.2

/-- Membership in the set fed to `expand` by `next_state`. -/
theorem mem_move {n : NFA} {S : SSet} {l : Label} {t : St} :
    t ∈ (S.flatMap fun s => n.dests s l ++ n.dests s .any).eraseDups ↔
      ∃ s, s ∈ S ∧ ((s, l, t) ∈ n.trans ∨ (s, Label.any, t) ∈ n.trans) := by
  simp only [List.mem_eraseDups, List.mem_flatMap, List.mem_append, mem_dests]

/-- The state set after reading `u`. -/
def run (n : NFA) (u : List Nat) : SSet := u.foldl (fun s c => n.nextState s (.chr c)) n.start

theorem run_nil (n : NFA) : n.run [] = n.start := rfl

theorem run_snoc (n : NFA) (u : List Nat) (c : Nat) :
    n.run (u ++ [c]) = n.nextState (n.run u) (.chr c) := by
  simp [run, List.foldl_append]

theorem accept_eq (n : NFA) (u : List Nat) : n.accept u = n.isFinal (n.run u) := rfl

end WM.Lev.NFA
