import WM.Lemmas.NumericField
/-! Float fields: closed form of the encoding, `prepare_number`, interval transfer; and the core of
    the range-query composition shared by all field kinds. -/
namespace WM.Numeric
open WM.NumericSpec

/-- Closed form of the signed float sortable encoding. -/
def fsort (b : Nat) : Int := if b < 2 ^ 63 then (b : Int) + 2 ^ 63 else 2 ^ 64 - 1 - (b : Int)

theorem fsort_range (b : Nat) (hb : b < 2 ^ 64) : 0 ≤ fsort b ∧ fsort b < 2 ^ 64 := by
  unfold fsort; split <;> omega

theorem totalLt_iff (a b : Nat) (ha : a < 2 ^ 64) (hb : b < 2 ^ 64) :
    totalLt a b = true ↔ fsort a < fsort b := by
  unfold totalLt fsort
  by_cases h1 : a < 2 ^ 63 <;> by_cases h2 : b < 2 ^ 63 <;> simp only [h1, h2, if_true, if_false]
  · have e1 : a / 2 ^ 63 % 2 = 0 := by omega
    have e2 : b / 2 ^ 63 % 2 = 0 := by omega
    simp [e1, e2]; omega
  · have e1 : a / 2 ^ 63 % 2 = 0 := by omega
    have e2 : b / 2 ^ 63 % 2 = 1 := by omega
    simp [e1, e2]; omega
  · have e1 : a / 2 ^ 63 % 2 = 1 := by omega
    have e2 : b / 2 ^ 63 % 2 = 0 := by omega
    simp [e1, e2]; omega
  · have e1 : a / 2 ^ 63 % 2 = 1 := by omega
    have e2 : b / 2 ^ 63 % 2 = 1 := by omega
    simp [e1, e2]; omega

theorem totalLt_unsigned (a b : Nat) (ha : a < 2 ^ 63) (hb : b < 2 ^ 63) :
    totalLt a b = true ↔ (a : Int) < (b : Int) := by
  rw [totalLt_iff a b (by omega) (by omega)]
  unfold fsort; simp only [ha, hb, if_true]; omega

/-- Interval transfer through an encoding that is strictly monotone on a domain `P`. -/
theorem inInterval_enc {α} (lt : α → α → Bool) (f : α → Int) (P : α → Prop)
    (hf : ∀ a b, P a → P b → (lt a b = true ↔ f a < f b))
    (start end_ : Option α) (sx ex : Bool) (x : α) (hx : P x)
    (hs : ∀ a, start = some a → P a) (he : ∀ b, end_ = some b → P b) :
    inInterval intLt (start.map f) (end_.map f) sx ex (f x) = inInterval lt start end_ sx ex x := by
  unfold inInterval intLt
  have neg : ∀ a b, P a → P b → ((!lt a b) = !decide (f a < f b)) := by
    intro a b pa pb
    have := hf a b pa pb
    by_cases h : f a < f b <;> simp [h, this.2] <;> simpa [h] using this
  cases start with
  | none =>
    cases end_ with
    | none => rfl
    | some e =>
      have pe := he e rfl
      have h1 := hf x e hx pe
      have h2 := neg e x pe hx
      cases ex <;> simp [h2] <;> (by_cases h : f x < f e <;> simp [h, h1.2] <;> simpa [h] using h1)
  | some s =>
    have ps := hs s rfl
    have g1 := hf s x ps hx
    have g2 := neg x s hx ps
    cases end_ with
    | none =>
      cases sx <;> simp [g2] <;> (by_cases h : f s < f x <;> simp [h, g1.2] <;> simpa [h] using g1)
    | some e =>
      have pe := he e rfl
      have h1 := hf x e hx pe
      have h2 := neg e x pe hx
      have k1 : lt s x = decide (f s < f x) := by
        by_cases h : f s < f x <;> simp [h, g1.2] <;> simpa [h] using g1
      have k2 : lt x e = decide (f x < f e) := by
        by_cases h : f x < f e <;> simp [h, h1.2] <;> simpa [h] using h1
      cases sx <;> cases ex <;> simp [g2, h2, k1, k2]

/-! ### the composition: compiled sub-queries against the indexed terms -/

theorem pow256 (w : Nat) : 256 ^ w = 2 ^ (8 * w) := by
  rw [Nat.pow_mul]

/-- Core of `range_query`: for bounds and a value inside the sortable domain of a `w`-byte field,
    compilation succeeds, indexing succeeds, and the document matches iff the value is in the
    interval. -/
theorem compile_core (w step : Nat) (hw : 0 < w) (hw' : 8 * w ≤ 256) (s e : Option Int)
    (sx ex : Bool) (X : Nat) (hs : ∀ a, s = some a → 0 ≤ a ∧ a < 2 ^ (8 * w))
    (he : ∀ b, e = some b → 0 ≤ b ∧ b < 2 ^ (8 * w)) (hX : X < 2 ^ (8 * w)) :
    ∃ subs ts, compileRanges w (tieredSortable (8 * w) s e step sx ex) = .ok subs ∧
      indexTerms w step X = .ok ts ∧
      (matchesDoc subs ts = true ↔ inInterval intLt s e sx ex (X : Int) = true) := by
  have hn : 0 < 8 * w := by omega
  have shape := tieredSortable_shape (8 * w) step hn s e sx ex hs he
  have hX' : X < 256 ^ w := by rw [pow256]; exact hX
  have hsh : ∀ r ∈ tieredSortable (8 * w) s e step sx ex, r.shift < 256 := by
    intro r hr
    have := (shape r hr).1
    rw [mem_indexShifts] at this
    by_cases h : step = 0
    · simp [h] at this; omega
    · simp [h] at this; omega
  refine ⟨_, _, compileRanges_ok w _ ?_, indexTerms_ok w step X hw' hX', ?_⟩
  · intro r hr
    have := shape r hr
    exact ⟨hsh r hr, this.2.1, by rw [pow256]; exact this.2.2⟩
  · rw [matchesDoc_iff w _ _ X (fun r hr => ⟨(shape r hr).2.1, by rw [pow256]; exact (shape r hr).2.2⟩) hX',
      ← tieredSortable_exact (8 * w) step s e sx ex X hs he hX]
    constructor
    · rintro ⟨r, hr, _, ht⟩; exact ⟨r, hr, ht⟩
    · rintro ⟨r, hr, ht⟩; exact ⟨r, hr, (shape r hr).1, ht⟩

/-- A multi-valued document matches iff one of its values does (the de-duplication of shared
    tier terms does not change which terms the document owns). -/
theorem matchesDoc_list (w step : Nat) (subs : List Sub) (xs : List Nat)
    (hw' : 8 * w ≤ 256) (hxs : ∀ X ∈ xs, X < 256 ^ w) :
    ∃ ts, indexTermsList w step xs = .ok ts ∧
      (matchesDoc subs ts = true ↔
        ∃ X ∈ xs, matchesDoc subs ((indexShifts (8 * w) step).map (termOf w X)) = true) := by
  have h1 : xs.mapM (indexTerms w step)
      = .ok (xs.map fun X => (indexShifts (8 * w) step).map (termOf w X)) :=
    mapM_ok _ _ xs (fun X hX => indexTerms_ok w step X hw' (hxs X hX))
  refine ⟨_, by unfold indexTermsList; rw [h1]; rfl, ?_⟩
  simp only [matchesDoc, List.any_eq_true, List.mem_eraseDups, List.mem_flatten, List.mem_map]
  constructor
  · rintro ⟨s, hs, t, ⟨_, ⟨X, hX, rfl⟩, ht⟩, hsel⟩
    exact ⟨X, hX, s, hs, t, List.mem_map.mp ht, hsel⟩
  · rintro ⟨X, hX, s, hs, t, ht, hsel⟩
    exact ⟨s, hs, t, ⟨_, ⟨X, hX, rfl⟩, List.mem_map.mpr ht⟩, hsel⟩

/-! ### `prepare_number` on float fields -/

theorem minMaxFloat_signed : minMaxFloat true = .ok (2 ^ 64 - 1, 2 ^ 63 - 1) := by
  unfold minMaxFloat
  have h0 := sortableToFloat_signed 0 (by decide)
  have h1 := sortableToFloat_signed (2 ^ 64 - 1) (by decide)
  have e0 : ((0 : Nat) : Int) = 0 := rfl
  have e1 : (((2 ^ 64 - 1 : Nat)) : Int) = (2 : Int) ^ 64 - 1 := by decide
  rw [e0] at h0
  rw [e1] at h1
  simp only [if_true, h0, h1]
  rfl

theorem minMaxFloat_unsigned : minMaxFloat false = .ok (0, 2 ^ 63 - 1) := by
  unfold minMaxFloat
  have h0 := sortableToFloat_unsigned 0
  have h1 := sortableToFloat_unsigned (2 ^ 63 - 1)
  have e0 : ((0 : Nat) : Int) = 0 := rfl
  have e1 : (((2 ^ 63 - 1 : Nat)) : Int) = (2 : Int) ^ 63 - 1 := by decide
  rw [e0] at h0
  rw [e1] at h1
  simp only [Bool.false_eq_true, if_false, h0, h1]
  rfl

theorem fIsNaN_allones : fIsNaN (2 ^ 64 - 1) = true ∧ fIsNaN (2 ^ 63 - 1) = true := by decide

/-- Signed float fields accept every pattern (both limits are NaN, so no comparison holds). -/
theorem prepareFloat_signed (b : Nat) : prepareFloat true b = .ok b := by
  unfold prepareFloat
  rw [minMaxFloat_signed]
  have h1 : fLt b (2 ^ 64 - 1) = false := by unfold fLt; simp [fIsNaN_allones.1]
  have h2 : fLt (2 ^ 63 - 1) b = false := by unfold fLt; simp [fIsNaN_allones.2]
  simp [bind, Except.bind, h1, h2]

/-- Unsigned float fields accept every pattern with a clear sign bit. -/
theorem prepareFloat_unsigned (b : Nat) (hb : b < 2 ^ 63) : prepareFloat false b = .ok b := by
  unfold prepareFloat
  rw [minMaxFloat_unsigned]
  have h2 : fLt (2 ^ 63 - 1) b = false := by unfold fLt; simp [fIsNaN_allones.2]
  have h1 : fLt b 0 = false := by
    unfold fLt fIsZero fSign fMag
    have e1 : b / 2 ^ 63 % 2 = 0 := by omega
    simp [e1]
  simp [bind, Except.bind, h1, h2]

/-! ### float fields, generically in the encoding -/

theorem tieredFloat_eq (signed : Bool) (f : Nat → Int) (P : Nat → Prop)
    (hf : ∀ b, P b → floatToSortable b signed = .ok (f b)) (step : Nat) (start end_ : Option Nat)
    (sx ex : Bool) (hs : ∀ a, start = some a → P a) (he : ∀ b, end_ = some b → P b) :
    tieredFloat signed start end_ step sx ex
      = .ok (tieredSortable 64 (start.map f) (end_.map f) step sx ex) := by
  unfold tieredFloat
  cases start with
  | none =>
    cases end_ with
    | none => rfl
    | some e => simp [hf e (he e rfl), bind, Except.bind, pure, Except.pure, Except.map]
  | some a =>
    cases end_ with
    | none => simp [hf a (hs a rfl), bind, Except.bind, pure, Except.pure, Except.map]
    | some e =>
      simp [hf a (hs a rfl), hf e (he e rfl), bind, Except.bind, pure, Except.pure, Except.map]

theorem map_range {α} (f : α → Int) (P : α → Prop) (n : Nat)
    (hr : ∀ b, P b → 0 ≤ f b ∧ f b < 2 ^ n) (o : Option α) (ho : ∀ a, o = some a → P a) :
    ∀ a, o.map f = some a → 0 ≤ a ∧ a < 2 ^ n := by
  intro a ha
  cases o with
  | none => simp at ha
  | some a0 =>
    simp only [Option.map_some, Option.some.injEq] at ha
    subst ha; exact hr a0 (ho a0 rfl)

/-- Range query on a float field, for any encoding `f` that is what `float_to_sortable_long`
    computes on the admissible patterns `P`, lands in `[0, 2^64)` and is strictly monotone for the
    total order. -/
theorem range_query_float_gen (signed : Bool) (f : Nat → Int) (P : Nat → Prop)
    (hf : ∀ b, P b → floatToSortable b signed = .ok (f b))
    (hp : ∀ b, P b → prepareFloat signed b = .ok b)
    (hr : ∀ b, P b → 0 ≤ f b ∧ f b < 2 ^ 64)
    (hlt : ∀ a b, P a → P b → (totalLt a b = true ↔ f a < f b))
    (step : Nat) (start end_ : Option Nat) (sx ex : Bool) (b : Nat)
    (hs : ∀ a, start = some a → P a) (he : ∀ b, end_ = some b → P b) (hb : P b) :
    ∃ subs ts, compileFloat signed step start end_ sx ex = .ok subs ∧
      indexTerms 8 step (f b).toNat = .ok ts ∧
      (matchesDoc subs ts = true ↔ inInterval totalLt start end_ sx ex b = true) := by
  have hcomp : compileFloat signed step start end_ sx ex
      = compileRanges 8 (tieredSortable 64 (start.map f) (end_.map f) step sx ex) := by
    have ht := tieredFloat_eq signed f P hf step start end_ sx ex hs he
    unfold compileFloat
    cases start with
    | none =>
      cases end_ with
      | none => simp only [pure, Except.pure, bind, Except.bind]; rw [ht]
      | some e =>
        simp only [hp e (he e rfl), bind, Except.bind, pure, Except.pure, Except.map]; rw [ht]
    | some a =>
      cases end_ with
      | none =>
        simp only [hp a (hs a rfl), bind, Except.bind, pure, Except.pure, Except.map]; rw [ht]
      | some e =>
        simp only [hp a (hs a rfl), hp e (he e rfl), bind, Except.bind, Except.map]
        rw [ht]
  have hs' := map_range f P 64 hr start hs
  have he' := map_range f P 64 hr end_ he
  have hrb := hr b hb
  have hX : (f b).toNat < 2 ^ (8 * 8) := by omega
  obtain ⟨subs, ts, h1, h2, h3⟩ := compile_core 8 step (by decide) (by decide) _ _ sx ex _ hs' he' hX
  refine ⟨subs, ts, by rw [hcomp]; exact h1, h2, ?_⟩
  have e : ((f b).toNat : Int) = f b := by omega
  rw [h3, e, inInterval_enc totalLt f P hlt start end_ sx ex b hb hs he]

theorem prepareFloat_cases (signed : Bool) (b : Nat) :
    prepareFloat signed b = .ok b ∨ prepareFloat signed b = .error .valueError := by
  unfold prepareFloat
  cases signed
  · rw [minMaxFloat_unsigned]
    simp only [bind, Except.bind]
    split <;> simp
  · rw [minMaxFloat_signed]
    simp only [bind, Except.bind]
    split <;> simp

end WM.Numeric
