import WM.Model.NumPack
import WM.Lemmas.NumLists
/-! Helper lemmas for the packed number lists (GInts, Simple16) of C20. -/
set_option linter.unusedSimpArgs false
namespace WM.NumPack
open WM.NumLists

/-! ### GInts -/

theorem gcode_lt (v : Nat) : gcode v < 4 := by
  unfold gcode; split <;> (try split) <;> (try split) <;> omega

theorem encodeLE_take_succ : ∀ (s x : Nat), (encodeLE (s + 1) x).take s = encodeLE s x
  | 0, _ => by simp [encodeLE]
  | s + 1, x => by
    rw [encodeLE, List.take_succ_cons, encodeLE_take_succ s, encodeLE]

/-- what `write_nums` appends for a 32-bit number: `gcode v + 1` little-endian bytes holding `v`. -/
theorem gbytes_eq (v : Nat) (h : v < 4294967296) :
    gbytes v = some (encodeLE (gcode v + 1) v) ∧ v < 256 ^ (gcode v + 1) := by
  unfold gbytes gcode
  by_cases h1 : v < 256
  · simp [h1]
  · by_cases h2 : v < 65536
    · simp [h1, h2]
    · by_cases h3 : v < 16777216
      · simp only [h1, h2, h3, ↓reduceIte]
        show some (List.take 3 (encodeLE (3 + 1) v)) = some (encodeLE 3 v) ∧ True
        exact ⟨by rw [encodeLE_take_succ], trivial⟩
      · simp [h1, h2, h3, h]

theorem gbytes_none (v : Nat) (h : ¬ v < 4294967296) : gbytes v = none := by
  unfold gbytes
  have h1 : ¬ v < 256 := by omega
  have h2 : ¬ v < 65536 := by omega
  have h3 : ¬ v < 16777216 := by omega
  simp [h1, h2, h3, h]

/-- The reference layout: groups of four (the last one shorter), each a key byte followed by the
    numbers' bytes. -/
def gkey (cs : List Nat) : Nat :=
  match cs with
  | [] => 0
  | [a] => a
  | [a, b] => a ||| (b <<< 2)
  | [a, b, c] => a ||| (b <<< 2) ||| (c <<< 4)
  | a :: b :: c :: d :: _ => a ||| (b <<< 2) ||| (c <<< 4) ||| (d <<< 6)

def gnum (v : Nat) : List Nat := encodeLE (gcode v + 1) v

def gLayout : List Nat → List Nat
  | [] => []
  | [a] => gkey [gcode a] :: gnum a
  | [a, b] => gkey [gcode a, gcode b] :: (gnum a ++ gnum b)
  | [a, b, c] => gkey [gcode a, gcode b, gcode c] :: (gnum a ++ gnum b ++ gnum c)
  | a :: b :: c :: d :: rest =>
    gkey [gcode a, gcode b, gcode c, gcode d] :: (gnum a ++ gnum b ++ gnum c ++ gnum d) ++ gLayout rest

theorem gWriteLoop_layout : ∀ (xs out : List Nat), (∀ x ∈ xs, x < 4294967296) →
    gWriteLoop xs out [] 0 0 = some (out ++ gLayout xs) := by
  intro xs
  fun_induction gLayout xs with
  | case1 => intro out _; simp [gWriteLoop]
  | case2 a =>
    intro out h
    have ha := (gbytes_eq a (h a (by simp))).1
    simp [gWriteLoop, ha, gkey, gnum]
  | case3 a b =>
    intro out h
    have ha := (gbytes_eq a (h a (by simp))).1
    have hb := (gbytes_eq b (h b (by simp))).1
    simp [gWriteLoop, ha, hb, gkey, gnum]
  | case4 a b c =>
    intro out h
    have ha := (gbytes_eq a (h a (by simp))).1
    have hb := (gbytes_eq b (h b (by simp))).1
    have hc := (gbytes_eq c (h c (by simp))).1
    simp [gWriteLoop, ha, hb, hc, gkey, gnum]
  | case5 a b c d rest ih =>
    intro out h
    have ha := (gbytes_eq a (h a (by simp))).1
    have hb := (gbytes_eq b (h b (by simp))).1
    have hc := (gbytes_eq c (h c (by simp))).1
    have hd := (gbytes_eq d (h d (by simp))).1
    have hr : ∀ x ∈ rest, x < 4294967296 := fun x hx => h x (by simp [hx])
    simp [gWriteLoop, ha, hb, hc, hd, gkey, gnum, ih _ hr]

/-- every 2-bit field of a key byte reads back the code that was ORed in -/
theorem gkey_fields : ∀ (a b c d : Fin 4),
    let k := a.val ||| (b.val <<< 2) ||| (c.val <<< 4) ||| (d.val <<< 6)
    (k >>> 0) &&& 3 = a.val ∧ (k >>> 2) &&& 3 = b.val ∧ (k >>> 4) &&& 3 = c.val ∧ (k >>> 6) &&& 3 = d.val := by
  decide

theorem gkey_fields' (a b c d : Nat) (ha : a < 4) (hb : b < 4) (hc : c < 4) (hd : d < 4) :
    ((a ||| (b <<< 2) ||| (c <<< 4) ||| (d <<< 6)) >>> 0) &&& 3 = a
    ∧ ((a ||| (b <<< 2) ||| (c <<< 4) ||| (d <<< 6)) >>> 2) &&& 3 = b
    ∧ ((a ||| (b <<< 2) ||| (c <<< 4) ||| (d <<< 6)) >>> 4) &&& 3 = c
    ∧ ((a ||| (b <<< 2) ||| (c <<< 4) ||| (d <<< 6)) >>> 6) &&& 3 = d :=
  gkey_fields ⟨a, ha⟩ ⟨b, hb⟩ ⟨c, hc⟩ ⟨d, hd⟩

/-- one step of `read_nums` inside a group (the key byte already read) -/
theorem gRead_step (n v count key sh : Nat) (tail : List Nat) (hc : count ≠ 0) (hv : v < 4294967296)
    (hsh : sh = count * 2) (hk : (key >>> sh) &&& 3 = gcode v) :
    gReadLoop (n + 1) (gnum v ++ tail) count key
      = (gReadLoop n tail ((count + 1) % 4) key).map fun (xs, r) => (v :: xs, r) := by
  have hlt := gcode_lt v
  have hb := (gbytes_eq v hv).2
  have hsize : (if gcode v = 0 then 1 else if gcode v = 1 then 2 else if gcode v = 2 then 3 else 4)
      = gcode v + 1 := by
    split
    · omega
    · split
      · omega
      · split <;> omega
  subst hsh
  conv => lhs; unfold gReadLoop
  simp only [hc, ↓reduceIte, hk, hsize]
  have hl : (gnum v).length = gcode v + 1 := length_encodeLE _ _
  rw [List.take_append_of_le_length (by omega), List.take_of_length_le (by omega)]
  have hd : (gnum v ++ tail).drop (gcode v + 1) = tail := by
    rw [← hl]; exact List.drop_left
  simp only [hl, ↓reduceIte, hd]
  unfold gnum
  rw [decodeLE_encodeLE _ _ hb]

/-- the first step of a group: the key byte is read, then the number -/
theorem gRead_step0 (n v key K : Nat) (tail : List Nat) (hv : v < 4294967296)
    (hk : (K >>> 0) &&& 3 = gcode v) :
    gReadLoop (n + 1) (K :: (gnum v ++ tail)) 0 key
      = (gReadLoop n tail 1 K).map fun (xs, r) => (v :: xs, r) := by
  have hlt := gcode_lt v
  have hb := (gbytes_eq v hv).2
  have hsize : (if gcode v = 0 then 1 else if gcode v = 1 then 2 else if gcode v = 2 then 3 else 4)
      = gcode v + 1 := by
    split
    · omega
    · split
      · omega
      · split <;> omega
  conv => lhs; unfold gReadLoop
  simp only [↓reduceIte, Nat.zero_mul, hk, hsize]
  have hl : (gnum v).length = gcode v + 1 := length_encodeLE _ _
  rw [List.take_append_of_le_length (by omega), List.take_of_length_le (by omega)]
  have hd : (gnum v ++ tail).drop (gcode v + 1) = tail := by
    rw [← hl]; exact List.drop_left
  simp only [hl, ↓reduceIte, hd]
  unfold gnum
  rw [decodeLE_encodeLE _ _ hb]

theorem gReadLoop_layout : ∀ (xs rest : List Nat) (key : Nat), (∀ x ∈ xs, x < 4294967296) →
    gReadLoop xs.length (gLayout xs ++ rest) 0 key = some (xs, rest) := by
  intro xs
  fun_induction gLayout xs with
  | case1 => intro rest key _; simp [gReadLoop]
  | case2 a =>
    intro rest key h
    have ha := h a (by simp)
    obtain ⟨F0, _, _, _⟩ := gkey_fields' (gcode a) 0 0 0 (gcode_lt a) (by decide) (by decide) (by decide)
    simp only [Nat.zero_shiftLeft, Nat.or_zero] at F0
    simp only [gkey, List.length_cons, List.length_nil, List.cons_append, List.append_assoc]
    rw [gRead_step0 _ a key _ _ ha F0]
    simp [gReadLoop]
  | case3 a b =>
    intro rest key h
    have ha := h a (by simp)
    have hb := h b (by simp)
    obtain ⟨F0, F1, _, _⟩ := gkey_fields' (gcode a) (gcode b) 0 0 (gcode_lt a) (gcode_lt b) (by decide) (by decide)
    simp only [Nat.zero_shiftLeft, Nat.or_zero] at F0 F1
    simp only [gkey, List.length_cons, List.length_nil, List.cons_append, List.append_assoc]
    rw [gRead_step0 _ a key _ _ ha F0]
    rw [gRead_step _ b 1 _ 2 _ (by decide) hb rfl F1]
    simp [gReadLoop]
  | case4 a b c =>
    intro rest key h
    have ha := h a (by simp)
    have hb := h b (by simp)
    have hc := h c (by simp)
    obtain ⟨F0, F1, F2, _⟩ := gkey_fields' (gcode a) (gcode b) (gcode c) 0 (gcode_lt a) (gcode_lt b) (gcode_lt c) (by decide)
    simp only [Nat.zero_shiftLeft, Nat.or_zero] at F0 F1 F2
    simp only [gkey, List.length_cons, List.length_nil, List.cons_append, List.append_assoc]
    rw [gRead_step0 _ a key _ _ ha F0]
    rw [gRead_step _ b 1 _ 2 _ (by decide) hb rfl F1]
    simp only [Nat.reduceAdd, Nat.reduceMod]
    rw [gRead_step _ c 2 _ 4 _ (by decide) hc rfl F2]
    simp [gReadLoop]
  | case5 a b c d tl ih =>
    intro rest key h
    have ha := h a (by simp)
    have hb := h b (by simp)
    have hc := h c (by simp)
    have hd := h d (by simp)
    have hr : ∀ x ∈ tl, x < 4294967296 := fun x hx => h x (by simp [hx])
    obtain ⟨F0, F1, F2, F3⟩ := gkey_fields' (gcode a) (gcode b) (gcode c) (gcode d) (gcode_lt a) (gcode_lt b) (gcode_lt c) (gcode_lt d)
    simp only [gkey, List.length_cons, List.cons_append, List.append_assoc]
    rw [gRead_step0 _ a key _ _ ha F0]
    rw [gRead_step _ b 1 _ 2 _ (by decide) hb rfl F1]
    simp only [Nat.reduceAdd, Nat.reduceMod]
    rw [gRead_step _ c 2 _ 4 _ (by decide) hc rfl F2]
    simp only [Nat.reduceAdd, Nat.reduceMod]
    rw [gRead_step _ d 3 _ 6 _ (by decide) hd rfl F3]
    simp only [Nat.reduceAdd, Nat.reduceMod]
    rw [ih rest _ hr]
    simp

/-- a number outside 32 bits makes `write_nums` raise, wherever it stands -/
theorem gWriteLoop_none : ∀ (xs out buf : List Nat) (count key : Nat), (∃ x ∈ xs, ¬ x < 4294967296) →
    gWriteLoop xs out buf count key = none
  | [], _, _, _, _, h => by simp at h
  | v :: vs, out, buf, count, key, h => by
    unfold gWriteLoop
    by_cases hv : v < 4294967296
    · have hex : ∃ x ∈ vs, ¬ x < 4294967296 := by
        rcases h with ⟨x, hx, hn⟩
        simp only [List.mem_cons] at hx
        rcases hx with rfl | hx
        · exact absurd hv hn
        · exact ⟨x, hx, hn⟩
      rw [(gbytes_eq v hv).1]
      simp only
      split
      · exact gWriteLoop_none vs _ _ _ _ hex
      · exact gWriteLoop_none vs _ _ _ _ hex
    · rw [gbytes_none v hv]

/-! ### delta variants -/

/-- ascending from `b` on (equal neighbours allowed) -/
def ascFrom : Nat → List Nat → Prop
  | _, [] => True
  | b, x :: xs => b ≤ x ∧ ascFrom x xs

/-- the gaps of an ascending list -/
def natDeltas : Nat → List Nat → List Nat
  | _, [] => []
  | b, x :: xs => (x - b) :: natDeltas x xs

theorem natDeltas_length : ∀ (b : Nat) (xs : List Nat), (natDeltas b xs).length = xs.length
  | _, [] => rfl
  | b, x :: xs => by simp [natDeltas, natDeltas_length x xs]

theorem deltaEncodeFrom_asc : ∀ (b : Nat) (xs : List Nat), ascFrom b xs →
    deltaEncodeFrom (b : Int) (xs.map fun (x : Nat) => (x : Int)) = (natDeltas b xs).map fun (d : Nat) => (d : Int)
  | _, [], _ => rfl
  | b, x :: xs, h => by
    simp only [List.map_cons, deltaEncodeFrom, natDeltas]
    rw [deltaEncodeFrom_asc x xs h.2]
    congr 1
    have := h.1
    omega

theorem map_toNat_cast (l : List Nat) : (l.map fun (d : Nat) => (d : Int)).map Int.toNat = l := by
  induction l with
  | nil => rfl
  | cons a t ih => simp [ih]

/-- `read_deltas(write_deltas(xs)) = xs` for every codec whose `read_nums ∘ write_nums` round-trips
    on lists of numbers satisfying `P` (its range): ascending `xs` whose gaps satisfy `P`. -/
theorem deltas_roundtrip_with (P : Nat → Prop) (write : List Nat → Option (List Nat))
    (read : Nat → List Nat → Option (List Nat × List Nat))
    (hrt : ∀ ds rest, (∀ d ∈ ds, P d) → ∃ bs, write ds = some bs ∧ read ds.length (bs ++ rest) = some (ds, rest))
    (xs rest : List Nat) (hasc : ascFrom 0 xs) (hP : ∀ d ∈ natDeltas 0 xs, P d) :
    ∃ bs, writeDeltasWith write xs = some bs ∧ readDeltasWith read xs.length (bs ++ rest) = some (xs, rest) := by
  have henc : deltaEncode (xs.map fun (x : Nat) => (x : Int)) = (natDeltas 0 xs).map fun (d : Nat) => (d : Int) :=
    deltaEncodeFrom_asc 0 xs hasc
  obtain ⟨bs, hw, hr⟩ := hrt (natDeltas 0 xs) rest hP
  refine ⟨bs, ?_, ?_⟩
  · unfold writeDeltasWith
    simp only [henc, map_toNat_cast]
    rw [if_pos, hw]
    simp [List.all_eq_true]
  · unfold readDeltasWith
    rw [natDeltas_length] at hr
    rw [hr]
    simp only [Option.map]
    rw [← henc]
    have := deltaDecodeFrom_encodeFrom 0 (xs.map fun (x : Nat) => (x : Int))
    unfold deltaDecode deltaEncode
    rw [this, map_toNat_cast]

theorem ascFrom_of_pairwise : ∀ (b : Nat) (xs : List Nat), (∀ x ∈ xs, b ≤ x) → xs.Pairwise (· ≤ ·) → ascFrom b xs
  | _, [], _, _ => trivial
  | b, x :: xs, hb, hp => by
    rw [List.pairwise_cons] at hp
    exact ⟨hb x (by simp), ascFrom_of_pairwise x xs hp.1 hp.2⟩

end WM.NumPack
