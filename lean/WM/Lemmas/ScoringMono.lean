import WM.Lemmas.QualityLeaf
import WM.Model.MatcherScoring
/-! Monotonicity of the shipped weight/length scorers that claim quality support (C12 `bm25_mono` etc.). -/
namespace WM.Matcher

theorem div_le_div_of_cross {a b c d : Rat} (hb : 0 < b) (hd : 0 < d) (h : a * d ≤ c * b) : a / b ≤ c / d := by
  apply Rat.not_lt.1
  intro hlt
  rw [Rat.div_lt_iff hd] at hlt
  have h2 := Rat.mul_lt_mul_of_pos_right hlt hb
  have h3 : a / b * d * b = a * d := by
    rw [Rat.mul_assoc, Rat.mul_comm d b, ← Rat.mul_assoc, Rat.div_mul_cancel (Rat.ne_of_gt hb)]
  rw [h3] at h2
  exact absurd h (Rat.not_le.2 h2)

theorem div_nonneg' {a b : Rat} (ha : 0 ≤ a) (hb : 0 ≤ b) : 0 ≤ a / b := by
  by_cases h0 : b = 0
  · subst h0; rw [Rat.div_def, Rat.inv_zero, Rat.mul_zero]; exact Rat.le_refl
  · have hb' : 0 < b := Rat.lt_of_le_of_ne hb (Ne.symm h0)
    rw [Rat.div_def]
    exact Rat.mul_nonneg ha (Rat.le_of_lt (Rat.inv_pos.2 hb'))

theorem freq_mono : Monotone2 freqScore := fun _ _ _ _ _ h _ => h

theorem tfidf_mono {idf : Rat} (h : 0 ≤ idf) : Monotone2 (tfidfScore idf) :=
  fun _ _ _ _ _ hw _ => Rat.mul_le_mul_of_nonneg_right hw h

theorem freq_nonneg {w : Rat} (l : Nat) (h : 0 ≤ w) : 0 ≤ freqScore w l := h
theorem tfidf_nonneg {idf w : Rat} (l : Nat) (hi : 0 ≤ idf) (h : 0 ≤ w) : 0 ≤ tfidfScore idf w l := Rat.mul_nonneg h hi

/-- the length-dependent part of the BM25 denominator -/
def bmC (avgfl B K1 : Rat) (fl : Nat) : Rat := K1 * ((1 - B) + B * (fl : Rat) / avgfl)

theorem bmC_nonneg {avgfl B K1 : Rat} (havg : 0 < avgfl) (hB0 : 0 ≤ B) (hB1 : B ≤ 1) (hK : 0 ≤ K1) (fl : Nat) :
    0 ≤ bmC avgfl B K1 fl := by
  unfold bmC
  apply Rat.mul_nonneg hK
  have h1 : 0 ≤ 1 - B := by grind
  have h2 : 0 ≤ B * (fl : Rat) / avgfl := div_nonneg' (Rat.mul_nonneg hB0 Rat.natCast_nonneg) (Rat.le_of_lt havg)
  exact Rat.add_nonneg h1 h2

theorem bmC_mono {avgfl B K1 : Rat} (havg : 0 < avgfl) (hB0 : 0 ≤ B) (hK : 0 ≤ K1) {l l' : Nat} (h : l' ≤ l) :
    bmC avgfl B K1 l' ≤ bmC avgfl B K1 l := by
  unfold bmC
  apply Rat.mul_le_mul_of_nonneg_left _ hK
  apply Rat.add_le_add_left.2
  rw [Rat.div_def, Rat.div_def]
  apply Rat.mul_le_mul_of_nonneg_right _ (Rat.le_of_lt (Rat.inv_pos.2 havg))
  exact Rat.mul_le_mul_of_nonneg_left (Rat.natCast_le_natCast.2 h) hB0

/-- the saturation curve `t*k/(t + c)` grows with `t` and shrinks with `c` -/
theorem sat_mono {t t' c c' k : Rat} (ht : 0 ≤ t) (htt : t ≤ t') (hc' : 0 ≤ c') (hcc : c' ≤ c) (hk : 0 ≤ k) :
    (t * k) / (t + c) ≤ (t' * k) / (t' + c') := by
  have ht' : 0 ≤ t' := Rat.le_trans ht htt
  have hc : 0 ≤ c := Rat.le_trans hc' hcc
  have hr : 0 ≤ (t' * k) / (t' + c') := div_nonneg' (Rat.mul_nonneg ht' hk) (Rat.add_nonneg ht' hc')
  by_cases h0 : t = 0
  · subst h0
    rw [Rat.zero_mul, Rat.div_def, Rat.zero_mul]; exact hr
  · have htpos : 0 < t := Rat.lt_of_le_of_ne ht (Ne.symm h0)
    have hd : 0 < t + c := by grind
    have hd' : 0 < t' + c' := by grind
    apply div_le_div_of_cross hd hd'
    -- t*k*(t'+c') ≤ t'*k*(t+c)  ⇐  t*c' ≤ t'*c
    have h1 : t * c' ≤ t' * c := by
      calc t * c' ≤ t' * c' := Rat.mul_le_mul_of_nonneg_right htt hc'
        _ ≤ t' * c := Rat.mul_le_mul_of_nonneg_left hcc ht'
    have h2 : t * k * (t' + c') = k * (t * t' + t * c') := by grind
    have h3 : t' * k * (t + c) = k * (t * t' + t' * c) := by grind
    rw [h2, h3]
    apply Rat.mul_le_mul_of_nonneg_left _ hk
    grind

/-- `C12_bm25_mono`: BM25F grows with the term frequency and shrinks with the field length -/
theorem bm25_mono {idf avgfl B K1 : Rat} (hidf : 0 ≤ idf) (havg : 0 < avgfl) (hB0 : 0 ≤ B) (hB1 : B ≤ 1)
    (hK : 0 ≤ K1) : Monotone2 (bm25 idf avgfl B K1) := by
  intro w w' l l' hw hww hll
  show idf * (w * (K1 + 1) / (w + bmC avgfl B K1 l)) ≤ idf * (w' * (K1 + 1) / (w' + bmC avgfl B K1 l'))
  apply Rat.mul_le_mul_of_nonneg_left _ hidf
  exact sat_mono hw hww (bmC_nonneg havg hB0 hB1 hK l') (bmC_mono havg hB0 hK hll) (by grind)

theorem bm25_nonneg {idf avgfl B K1 : Rat} (hidf : 0 ≤ idf) (havg : 0 < avgfl) (hB0 : 0 ≤ B) (hB1 : B ≤ 1)
    (hK : 0 ≤ K1) {w : Rat} (l : Nat) (hw : 0 ≤ w) : 0 ≤ bm25 idf avgfl B K1 w l := by
  show 0 ≤ idf * (w * (K1 + 1) / (w + bmC avgfl B K1 l))
  apply Rat.mul_nonneg hidf
  exact div_nonneg' (Rat.mul_nonneg hw (by grind)) (Rat.add_nonneg hw (bmC_nonneg havg hB0 hB1 hK l))

end WM.Matcher
