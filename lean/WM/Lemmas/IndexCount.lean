import WM.Lemmas.IndexHistory
/-! `doc_count`, and the return value of `delete_by_term`. -/
namespace WM.Index
open WM.Dict

theorem length_filter_ne_of_nodup (l : List Nat) (hn : l.Nodup) (x : Nat) (hx : x ∈ l) :
    (l.filter (fun y => y != x)).length + 1 = l.length := by
  rw [← hn.erase_eq_filter, List.length_erase_of_mem hx]
  have : 0 < l.length := List.length_pos_of_mem hx
  omega

/-- numbers below `n` outside a duplicate-free list of numbers below `n` -/
theorem length_filter_not_mem (n : Nat) (d : List Nat) (hn : d.Nodup) (hr : ∀ x ∈ d, x < n) :
    ((List.range n).filter (fun i => !d.contains i)).length + d.length = n := by
  induction d with
  | nil =>
    have : (List.range n).filter (fun i => !([] : List Nat).contains i) = List.range n := by
      rw [List.filter_eq_self]; intro a _; simp
    rw [this]; simp
  | cons x r ih =>
    simp only [List.nodup_cons] at hn
    have ih' := ih hn.2 (fun y hy => hr y (by simp [hy]))
    have hx : x ∈ (List.range n).filter (fun i => !r.contains i) := by
      rw [List.mem_filter, List.mem_range]
      refine ⟨hr x (by simp), ?_⟩
      simp [hn.1]
    have hnd : ((List.range n).filter (fun i => !r.contains i)).Nodup := (List.nodup_range).filter _
    have := length_filter_ne_of_nodup _ hnd x hx
    rw [List.filter_filter] at this
    have e : (List.range n).filter (fun i => !(x :: r).contains i)
        = (List.range n).filter (fun a => (a != x) && !r.contains a) := by
      apply List.filter_congr
      intro a _
      simp only [List.contains_cons]
      by_cases h : a = x
      · subst h; simp
      · have : (a == x) = false := by simpa using h
        simp [this, bne]
    rw [e, List.length_cons]
    omega

theorem liveIdx_length (s : Seg) : s.liveIdx.length = ((List.range s.docCountAll).filter (fun i => !s.isDeleted i)).length := by
  have : s.liveIdx.map (·.2) = (List.range s.docCountAll).filter (fun i => !s.isDeleted i) := by
    simp only [Seg.liveIdx, Seg.docCountAll]
    have h1 : s.docs.zipIdx.filter (fun p => !s.isDeleted p.2)
        = s.docs.zipIdx.filter ((fun i => !s.isDeleted i) ∘ (fun p : DocRec × Nat => p.2)) := rfl
    rw [h1, ← List.filter_map]
    congr 1
    rw [List.zipIdx_eq_zip_range', List.map_snd_zip (by simp), List.range_eq_range']
  rw [← this, List.length_map]

/-- `Segment.doc_count()` is the number of live documents. -/
theorem Seg.docCount_eq (s : Seg) (hn : s.deleted.Nodup) (hr : ∀ x ∈ s.deleted, x < s.docCountAll) :
    s.docCount = s.liveDocs.length := by
  have := length_filter_not_mem s.docCountAll s.deleted hn hr
  simp only [Seg.docCount, Seg.deletedCount, Seg.liveDocs, List.length_map, liveIdx_length, Seg.isDeleted]
  omega

theorem docCount_segs (sc : Schema) (segs : List Seg) (hwf : ∀ s ∈ segs, s.WF) :
    (segs.map Seg.docCount).sum = (contentOf sc segs).length := by
  induction segs with
  | nil => rfl
  | cons s r ih =>
    simp only [contentOf, List.map_cons, List.sum_cons, List.flatMap_cons, List.length_append, List.length_map]
    rw [Seg.docCount_eq s (hwf s (by simp)).delNodup (hwf s (by simp)).delRange]
    have := ih (fun x hx => hwf x (by simp [hx]))
    simp only [contentOf] at this
    rw [this]

/-- `reader.doc_count()` is the number of live documents. -/
theorem Toc.docCount_eq (t : Toc) (hwf : t.WF) : t.docCount = t.content.length :=
  docCount_segs t.schema t.segs hwf

/-- With at most one posting per (document, term), `Term(f, t)` yields each live match once. -/
theorem docsForQuery_term_length (sc : Schema) (f t : Nat) (segs : List Seg)
    (hp : ∀ s ∈ segs, s.posts.Perm (allPostings s.docs))
    (hone : ∀ q ∈ liveGlobal segs 0, termCount sc f t q.1 ≤ 1) :
    (docsForQuery sc (.term f t) segs 0).length = ((contentOf sc segs).filter (fun d => d.hasTerm f t)).length := by
  rw [(docsForQuery_term_perm sc f t segs 0 hp).length_eq, contentOf_eq_liveGlobal sc segs 0, List.filter_map,
    List.length_map]
  generalize liveGlobal segs 0 = L at hone
  induction L with
  | nil => rfl
  | cons q r ih =>
    have h1 := hone q (by simp)
    have ih' := ih (fun x hx => hone x (by simp [hx]))
    simp only [List.flatMap_cons, List.length_append, List.length_replicate, List.filter_cons, Function.comp_def]
    by_cases hc : 0 < termCount sc f t q.1
    · have : (restrict sc q.1).hasTerm f t = true := (termCount_pos sc f t q.1).mp hc
      simp only [this, if_true, List.length_cons]
      simp only [Function.comp_def] at ih'
      omega
    · have : (restrict sc q.1).hasTerm f t = false := by
        have : ¬ (restrict sc q.1).hasTerm f t = true := fun h => hc ((termCount_pos sc f t q.1).mpr h)
        simpa using this
      simp only [this, Bool.false_eq_true, if_false]
      simp only [Function.comp_def] at ih'
      omega

end WM.Index
