import WM.Lemmas.FaithfulCombo
import WM.Lemmas.Quality
import WM.Lemmas.QualityMulti
/-! The quality contract (C12) of `ArrayUnionMatcher` over sub-matchers that satisfy it. -/
namespace WM.Matcher

theorem maxList_spec {a : List Rat} (h : a ≠ []) : ∃ q, maxList a = .ok q ∧ ∀ v ∈ a, v ≤ q := by
  cases a with
  | nil => exact absurd rfl h
  | cons x xs =>
    obtain ⟨h1, h2⟩ := ListM.foldl_max_ge x xs
    refine ⟨xs.foldl max x, rfl, ?_⟩
    intro v hv
    rcases List.mem_cons.1 hv with rfl | hv
    · exact h1
    · exact h2 v hv

namespace AUnion
variable {α : Type} {A : Ops α} {dA fA : α → Den} {WQ W0 : α → Prop}

theorem Core.mono {WA WB : α → Prop} (hw : ∀ a, WA a → WB a) {m : AUnion α} (h : Core dA fA WA m) : Core dA fA WB m :=
  ⟨h.alen, h.ppos, h.bpos, h.lim, h.off, fun s hs => hw _ (h.child s hs), h.beyond, h.dpos, h.fpos, h.done⟩

theorem WF.mono {WA WB : α → Prop} (hw : ∀ a, WA a → WB a) {m : AUnion α} (h : WF dA fA WA m) : WF dA fA WB m :=
  ⟨h.toCore.mono hw, h.cur⟩

/-- a buffered document scores at most `max(a)` -/
theorem buf_le_max {m : AUnion α} {WA : α → Prop} (h : Core dA fA WA m) {q : Rat} (hq : ∀ v ∈ m.a, v ≤ q) {lo : Nat}
    (hlo : m.offset ≤ lo) : BoundedBy q (bufDen m.a m.offset lo m.limit) := by
  intro p hp
  obtain ⟨h1, h2, h3, -⟩ := mem_bufDen hp
  rw [h3]
  have hi : p.1 - m.offset < m.a.length := by have := h.len_ok; omega
  have : cellAt m.a m.offset p.1 = m.a[p.1 - m.offset] := by simp [cellAt, List.getElem?_eq_getElem hi]
  rw [this]
  exact hq _ (List.getElem_mem _)

section Main
variable (QA : QFaithful A dA fA WQ W0)
include QA

/-- `sum(m.max_quality() for the active sub-matchers)` bounds, boosted, every score of their union -/
theorem futureOf_spec (b : Rat) (hb : 0 < b) : ∀ (subs : List α) (acc : Rat), (∀ s ∈ subs, W0 s) →
    ∃ F, futureOf A subs acc = .ok (acc + F) ∧ 0 ≤ F ∧ ∀ d v, sumAt (scaled b dA subs) d = some v → v ≤ F * b
  | [], acc, _ => ⟨0, by show Except.ok acc = _; rw [Rat.add_zero], Rat.le_refl, fun d v h => by cases h⟩
  | s :: ss, acc, hw => by
    have hws := hw s List.mem_cons_self
    have hw' : ∀ x ∈ ss, W0 x := fun x hx => hw x (List.mem_cons_of_mem _ hx)
    unfold futureOf
    by_cases ha : A.isActive s = true
    · obtain ⟨q, q1, q2⟩ := QA.max s hws
      have q0 := QA.maxNonneg s q hws q1
      obtain ⟨F, f1, f2, f3⟩ := futureOf_spec b hb ss (acc + q) hw'
      simp only [ha, ↓reduceIte, q1, bind, Except.bind, f1]
      refine ⟨q + F, by congr 1; grind, by grind, ?_⟩
      intro d v hv
      simp only [scaled, List.map_cons, sumAt, lookup_scale] at hv
      have hqb : ∀ r, lookup (dA s) d = some r → r * b ≤ q * b := fun r hr =>
        Rat.mul_le_mul_of_nonneg_right (q2 (d, r) (lookup_some_mem hr)) (Rat.le_of_lt hb)
      have hFb : 0 ≤ F * b := Rat.mul_nonneg f2 (Rat.le_of_lt hb)
      have hqb0 : 0 ≤ q * b := Rat.mul_nonneg q0 (Rat.le_of_lt hb)
      have hdist : (q + F) * b = q * b + F * b := by grind
      rw [hdist]
      cases h1 : lookup (dA s) d with
      | none =>
        rw [h1] at hv
        cases h2 : sumAt (ss.map fun s => scale b (dA s)) d with
        | none => rw [h2] at hv; simp [optUnion] at hv
        | some v' =>
          rw [h2] at hv
          simp only [Option.map_none, optUnion, Option.some.injEq] at hv
          have := f3 d v' h2
          grind
      | some r =>
        rw [h1] at hv
        have := hqb r h1
        cases h2 : sumAt (ss.map fun s => scale b (dA s)) d with
        | none =>
          rw [h2] at hv
          simp only [Option.map_some, optUnion, Option.some.injEq] at hv
          grind
        | some v' =>
          rw [h2] at hv
          simp only [Option.map_some, optUnion, Option.some.injEq] at hv
          have := f3 d v' h2
          grind
    · obtain ⟨F, f1, f2, f3⟩ := futureOf_spec b hb ss acc hw'
      simp only [ha, Bool.false_eq_true, ↓reduceIte, f1]
      refine ⟨F, rfl, f2, ?_⟩
      intro d v hv
      have hnil : dA s = [] := (QA.cur0.inactive hws).1 (by simpa using ha)
      simp only [scaled, List.map_cons, sumAt, lookup_scale, hnil, lookup, Option.map_none] at hv
      apply f3 d v
      cases h2 : sumAt (ss.map fun s => scale b (dA s)) d with
      | none => rw [h2] at hv; simp [optUnion] at hv
      | some v' =>
        rw [h2] at hv
        simp only [optUnion, Option.some.injEq] at hv
        show sumAt (ss.map fun s => scale b (dA s)) d = some v
        rw [h2, hv]

/-- the loop of `skip_to_quality`: parts whose best buffered score does not beat `q` are passed over -/
theorem skipQLoop_spec (q : Rat) : ∀ (n : Nat) (m : AUnion α) (k : Nat), Core dA fA WQ m →
    (m.docnum < m.doccount → m.docnum < m.limit) → m.doccount - m.docnum < n →
    ∃ m' k', skipQLoop A q n m k = .ok (m', k') ∧ Core dA fA WQ m' ∧ (m'.docnum < m'.doccount → m'.docnum < m'.limit) ∧
      Keeps q (den dA m') (den dA m) ∧ full fA m' = full fA m ∧ m'.doccount = m.doccount ∧
      (m' = m ∨ m.docnum < m'.docnum)
  | 0, m, _, _, _, hn => by omega
  | n + 1, m, k, h, hl, hn => by
    unfold skipQLoop
    by_cases ha : isActive m = true
    · have hlt : m.docnum < m.doccount := by simpa [isActive] using ha
      have hane : m.a ≠ [] := by
        intro h0
        have := h.alen; rw [h0] at this
        have := h.ppos; simp at *; omega
      obtain ⟨bq, b1, b2⟩ := maxList_spec hane
      simp only [ha, ↓reduceIte, blockQuality, b1, bind, Except.bind]
      by_cases hq : bq ≤ q
      · simp only [hq, ↓reduceIte]
        obtain ⟨m1, r1, r2, r3, r4, r5, r6, r7, r8, r9, -⟩ := readPart_spec QA.curQ { m with docnum := m.limit } h.ppos h.bpos
          h.child h.dpos h.fpos h.beyond
        simp only [r1]
        have hl1 : m1.docnum < m1.doccount → m1.docnum < m1.limit := by
          intro hh
          rw [r2.lim, r4, r7, r3, r5, Nat.lt_min]
          rw [r3, r5] at hh
          exact ⟨by have := h.ppos; show m.limit < m.limit + m.partsize; omega, hh⟩
        have hdl := hl hlt
        obtain ⟨m', k', e1, e2, e3, e4, e5, e6, e7⟩ := skipQLoop_spec q n m1 (k + 1) r2 hl1
          (by rw [r5, r3]; show m.doccount - m.limit < n; omega)
        refine ⟨m', k', e1, e2, e3, e4.trans ?_, e5.trans r9, e6.trans r5, Or.inr ?_⟩
        · rw [r8, den_eq]
          exact keeps_append_left fun p hp => Rat.le_trans (buf_le_max h b2 h.off p hp) hq
        · rcases e7 with rfl | e7
          · rw [r3]; exact hdl
          · rw [r3] at e7
            have : m.limit < m'.docnum := e7
            omega
      · simp only [hq, ↓reduceIte]
        exact ⟨m, k, rfl, h, hl, Keeps.refl _ _, rfl, rfl, Or.inl rfl⟩
    · simp only [ha, Bool.false_eq_true, ↓reduceIte]
      exact ⟨m, k, rfl, h, hl, Keeps.refl _ _, rfl, rfl, Or.inl rfl⟩

theorem qfaithful : QFaithful (ops A) (den dA) (full fA) (WF dA fA WQ) (WF dA fA W0) where
  toW0 _ h := h.mono QA.toW0
  cur0 := faithful QA.cur0
  curQ := faithful QA.curQ
  nn m h := by
    intro p hp
    rw [den_eq] at hp
    rcases List.mem_append.1 hp with hp | hp
    · exact Rat.le_of_lt (mem_bufDen hp).2.2.2
    · have hS := asc_scaled QA.cur0 m.boost h.child
      have h1 := lookup_some_of_mem_asc (asc_sumDens hS) (mem_below.1 hp).1
      rw [lookup_sumDens hS] at h1
      refine Rat.le_of_lt (sumAt_pos ?_ h1)
      intro D hD q hq
      obtain ⟨s, hs, rfl⟩ := List.mem_map.1 hD
      obtain ⟨q', hq', rfl⟩ := mem_scale.1 hq
      exact Rat.mul_pos (h.dpos s hs q' hq') h.bpos
  sup m h := by
    show m.subs.all A.supportsBQ = true
    rw [List.all_eq_true]
    intro s hs
    exact QA.sup s (h.child s hs)
  max m h := by
    have hane : m.a ≠ [] := by
      intro h0
      have := h.alen; rw [h0] at this
      have := h.ppos; simp at *; omega
    obtain ⟨bq, b1, b2⟩ := maxList_spec hane
    obtain ⟨F, f1, f2, f3⟩ := futureOf_spec QA m.boost h.bpos m.subs 0 h.child
    refine ⟨max bq (F * m.boost), ?_, ?_⟩
    · show maxQuality A m = _
      unfold maxQuality
      simp only [f1, b1, bind, Except.bind, Rat.zero_add]; rfl
    · intro p hp
      rw [den_eq] at hp
      rcases List.mem_append.1 hp with hp | hp
      · exact Rat.le_trans (buf_le_max h.toCore b2 h.off p hp) (by grind)
      · have hS := asc_scaled QA.cur0 m.boost h.child
        have h1 := lookup_some_of_mem_asc (asc_sumDens hS) (mem_below.1 hp).1
        rw [lookup_sumDens hS] at h1
        exact Rat.le_trans (f3 p.1 p.2 h1) (by grind)
  maxNonneg m q h hq := by
    have hane : m.a ≠ [] := by
      intro h0
      have := h.alen; rw [h0] at this
      have := h.ppos; simp at *; omega
    obtain ⟨bq, b1, b2⟩ := maxList_spec hane
    obtain ⟨F, f1, f2, f3⟩ := futureOf_spec QA m.boost h.bpos m.subs 0 h.child
    change maxQuality A m = .ok q at hq
    unfold maxQuality at hq
    simp only [f1, b1, bind, Except.bind, Rat.zero_add, pure, Except.pure, Except.ok.injEq] at hq
    have : 0 ≤ F * m.boost := Rat.mul_nonneg f2 (Rat.le_of_lt h.bpos)
    rw [← hq]; grind
  block m h := by
    have hane : m.a ≠ [] := by
      intro h0
      have := h.alen; rw [h0] at this
      have := h.ppos; simp at *; omega
    obtain ⟨bq, b1, b2⟩ := maxList_spec hane
    refine ⟨bq, b1, ?_⟩
    intro x r L hd
    have hp : (x, r) ∈ den dA m := by rw [hd]; exact List.mem_cons_self
    rcases Nat.lt_or_ge m.docnum m.doccount with hlt | hge
    · rw [den_head QA.curQ h hlt] at hd
      injection hd with h1 _
      injection h1 with h2 h3
      obtain ⟨c1, -⟩ := h.cur hlt
      have hi : m.docnum - m.offset < m.a.length := by have := h.len_ok; have := h.off; omega
      rw [← h3]
      have : cellAt m.a m.offset m.docnum = m.a[m.docnum - m.offset] := by simp [cellAt, List.getElem?_eq_getElem hi]
      rw [this]; exact b2 _ (List.getElem_mem _)
    · rw [den_nil_of_done QA.curQ h.toCore hge] at hd; cases hd
  skipQ m q h hne := by
    have hlt : m.docnum < m.doccount := by
      rcases Nat.lt_or_ge m.docnum m.doccount with hlt | hge
      · exact hlt
      · exact absurd (den_nil_of_done QA.curQ h.toCore hge) hne
    obtain ⟨m1, k1, e1, e2, e3, e4, e5, e6, e7⟩ := skipQLoop_spec QA q (m.doccount - m.docnum + 1) m 0 h.toCore
      (fun hh => (h.cur hh).1) (by omega)
    show ∃ s' k, skipToQuality A m q = .ok (s', k) ∧ _
    unfold skipToQuality
    simp only [e1, bind, Except.bind]
    by_cases ha : isActive m1 = true
    · have hlt1 : m1.docnum < m1.doccount := by simpa [isActive] using ha
      obtain ⟨m2, f1, f2, f3, f4, f5, f6⟩ := findNext_spec QA.curQ m1 e2 (Nat.le_of_lt (e3 hlt1))
      simp only [ha, ↓reduceIte, f1]
      have hle : m.docnum ≤ m2.docnum := by
        rcases e7 with rfl | e7
        · exact f5
        · omega
      refine ⟨m2, k1, rfl, f2, by rw [f3]; exact e4, ?_, ?_, f4.trans e5⟩
      · show m2.doccount - m2.docnum ≤ m.doccount - m.docnum
        rw [f6, e6]; omega
      · intro hdne
        show m2.doccount - m2.docnum < m.doccount - m.docnum
        rw [f6, e6]
        rcases e7 with rfl | e7
        · exact absurd f3 hdne
        · omega
    · simp only [ha, Bool.false_eq_true, ↓reduceIte]
      have hge1 : m1.doccount ≤ m1.docnum := by
        have : ¬ m1.docnum < m1.doccount := by simpa [isActive] using ha
        omega
      refine ⟨m1, k1, rfl, ⟨e2, fun hh => by omega⟩, e4, ?_, ?_, e5⟩
      · show m1.doccount - m1.docnum ≤ m.doccount - m.docnum
        rw [e6]
        rcases e7 with rfl | e7
        · exact Nat.le_refl _
        · omega
      · intro _
        show m1.doccount - m1.docnum < m.doccount - m.docnum
        rw [e6]
        rcases e7 with rfl | e7
        · omega
        · omega

end Main

end AUnion

end WM.Matcher
